package gen

// c11prog.go: seeded generator of pointer-manipulating Go programs for C11 / C12.
//
// One generated package holds many independent "cases"; each case has its own receiver types,
// global, named functions, closures and methods, all with the uniform signature
// (site int, x *S) *S so that every function value / method / closure can be called at every
// dynamic call site.  Every call passes a unique call-site constant as `site`, every body starts
// with enter(fid, site) (call-event ground truth, C12), every definition of a pointer, slice,
// map or channel variable is followed by a probe (address ground truth, C11).
//
// Run-time safety (the native run must neither crash nor block): every variable in scope is
// non-nil by construction (loads are followed by a nil guard that falls back to a live variable —
// which also produces phis), slices in scope have length >= 1, channel operations are guarded by
// len/cap, type assertions use the comma-ok form, recursion is bounded by a depth argument.
//
// No function is leaf-shaped for the pointer solver (each calls enter), no struct / array value
// is copied (fields are reached through pointers), no zero-size type is allocated.

import (
	"fmt"
	"math/rand"
	"strings"
)

// PtrProg is a generated program.
type PtrProg struct {
	Main    string // main.go: types, cases, main()
	Stub    string // helpers for the analysed build (empty bodies, no imports)
	Native  string // helpers for the native build (logging)
	NCases  int
	NFuncs  int            // number of enter ids
	NSites  int            // number of call-site ids
	NProbes int            // number of probe ids
	Stats   map[string]int // statement kinds emitted
	// further packages of the module (path -> source): the same for both builds / analysed build / native build
	Shared, StubFiles, NativeFiles map[string]string
}

// PtrOpts tunes the generator.
type PtrOpts struct {
	Cases    int
	Stmts    int  // statements per function body (top level)
	Funcs    int  // named functions per case
	NoAppend bool // leave out append/copy (first stage of the criterion)
	NoGo     bool
	NoStruct bool     // leave out struct VALUES (copies of structs that contain pointers)
	Focus    []string // round-trip kinds to concentrate on (targeted search after a criterion failure)
}

type pvars struct {
	P, SL, M, MK, C, F, I, PP, E, AV, BV []string
	SV                                   []string // local variables of the struct type V (values, not pointers)
}

func (e *pvars) clone() *pvars {
	c := *e
	c.P = append([]string(nil), e.P...)
	c.SL = append([]string(nil), e.SL...)
	c.M = append([]string(nil), e.M...)
	c.MK = append([]string(nil), e.MK...)
	c.C = append([]string(nil), e.C...)
	c.F = append([]string(nil), e.F...)
	c.I = append([]string(nil), e.I...)
	c.PP = append([]string(nil), e.PP...)
	c.E = append([]string(nil), e.E...)
	c.AV = append([]string(nil), e.AV...)
	c.BV = append([]string(nil), e.BV...)
	c.SV = append([]string(nil), e.SV...)
	return &c
}

type pgen struct {
	r        *rand.Rand
	o        PtrOpts
	b        strings.Builder
	nv       int // variable counter (per program: unique names everywhere)
	fid      int
	site     int
	probe    int
	cond     int
	stats    map[string]int
	caseNo   int
	callable []string // named functions of the current case callable from the body being generated
	depth    int
	late     []string // closures / methods emitted after the current function
}

func (g *pgen) focusHas(k string) int {
	for _, f := range g.o.Focus {
		if f == k {
			return 1
		}
	}
	return 0
}

func (g *pgen) pick(xs []string) string { return xs[g.r.Intn(len(xs))] }
func (g *pgen) v(prefix string) string  { g.nv++; return fmt.Sprintf("%s%d", prefix, g.nv) }
func (g *pgen) newSite() int            { g.site++; return g.site }
func (g *pgen) newFid() int             { g.fid++; return g.fid }
func (g *pgen) newProbe() int           { g.probe++; return g.probe }
func (g *pgen) newCond() string         { g.cond++; return fmt.Sprintf("cond(%d)", g.cond%24) }
func (g *pgen) count(k string)          { g.stats[k]++ }

func (g *pgen) emit(ind int, format string, args ...any) {
	g.b.WriteString(strings.Repeat("\t", ind))
	fmt.Fprintf(&g.b, format, args...)
	g.b.WriteString("\n")
}

func (g *pgen) probeP(ind int, v string)  { g.emit(ind, "probeP(%d, %s)", g.newProbe(), v) }
func (g *pgen) probeSL(ind int, v string) { g.emit(ind, "probeSL(%d, %s)", g.newProbe(), v) }
func (g *pgen) probeM(ind int, v string)  { g.emit(ind, "probeM(%d, %s)", g.newProbe(), v) }
func (g *pgen) probeMK(ind int, v string) { g.emit(ind, "probeMK(%d, %s)", g.newProbe(), v) }
func (g *pgen) probeC(ind int, v string)  { g.emit(ind, "probeC(%d, %s)", g.newProbe(), v) }
func (g *pgen) probePP(ind int, v string) { g.emit(ind, "probePP(%d, %s)", g.newProbe(), v) }

// defP finishes the definition of a *S variable that may be nil: guard + probe + scope entry.
func (g *pgen) defP(ind int, e *pvars, v string, mayNil bool) {
	if mayNil {
		g.emit(ind, "if %s == nil {", v)
		g.emit(ind+1, "%s = %s", v, g.pick(e.P))
		g.emit(ind, "}")
	}
	g.probeP(ind, v)
	e.P = append(e.P, v)
}

// stmt emits one random statement.
func (g *pgen) stmt(ind int, e *pvars) {
	type alt struct {
		w   int
		ok  bool
		run func()
	}
	aT, bT := fmt.Sprintf("A%d", g.caseNo), fmt.Sprintf("B%d", g.caseNo)
	alts := []alt{
		{8 + 60*min(len(g.o.Focus), 1), true, func() { g.roundTrip(ind, e) }},
		{9 + 60*max(g.focusHas("struct"), g.focusHas("struct-rvalue")), !g.o.NoStruct, func() { g.structStmt(ind, e) }},
		{3, true, func() { // allocation
			v := g.v("p")
			switch g.r.Intn(3) {
			case 0:
				g.emit(ind, "%s := &S{id: %d}", v, g.nv)
			case 1:
				g.emit(ind, "%s := new(S)", v)
			default:
				g.emit(ind, "%s := &S{id: %d, p: %s}", v, g.nv, g.pick(e.P))
			}
			g.count("alloc")
			g.defP(ind, e, v, false)
		}},
		{3, true, func() { // assignment to an existing variable (phi when under a branch)
			a, b := g.pick(e.P), g.pick(e.P)
			if a != b {
				g.emit(ind, "%s = %s", a, b)
				g.probeP(ind, a)
				g.count("assign")
			}
		}},
		{7, true, func() { // field store
			g.emit(ind, "%s.%s = %s", g.pick(e.P), g.pick([]string{"p", "q"}), g.pick(e.P))
			g.count("field-store")
		}},
		{7, true, func() { // field load
			v := g.v("p")
			g.emit(ind, "%s := %s.%s", v, g.pick(e.P), g.pick([]string{"p", "q"}))
			g.count("field-load")
			g.defP(ind, e, v, true)
		}},
		{3, true, func() { // address of a field
			v := g.v("pp")
			g.emit(ind, "%s := &%s.%s", v, g.pick(e.P), g.pick([]string{"p", "q"}))
			g.probePP(ind, v)
			e.PP = append(e.PP, v)
			g.count("field-addr")
		}},
		{2, true, func() { // address of a local
			l, v := g.v("loc"), g.v("pp")
			g.emit(ind, "%s := %s", l, g.pick(e.P))
			g.emit(ind, "%s := &%s", v, l)
			g.probePP(ind, v)
			e.PP = append(e.PP, v)
			g.count("local-addr")
		}},
		{3, len(e.PP) > 0, func() { // store / load through **S
			if g.r.Intn(2) == 0 {
				g.emit(ind, "*%s = %s", g.pick(e.PP), g.pick(e.P))
				g.count("pp-store")
			} else {
				v := g.v("p")
				g.emit(ind, "%s := *%s", v, g.pick(e.PP))
				g.count("pp-load")
				g.defP(ind, e, v, true)
			}
		}},
		{2, len(e.PP) > 0, func() { // **S kept in a field
			if g.r.Intn(2) == 0 {
				g.emit(ind, "%s.pp = %s", g.pick(e.P), g.pick(e.PP))
				g.count("ppfield-store")
			} else {
				v := g.v("pp")
				g.emit(ind, "%s := %s.pp", v, g.pick(e.P))
				g.emit(ind, "if %s == nil {", v)
				g.emit(ind+1, "%s = %s", v, g.pick(e.PP))
				g.emit(ind, "}")
				g.probePP(ind, v)
				e.PP = append(e.PP, v)
				g.count("ppfield-load")
			}
		}},
		{4, true, func() { // new slice
			v := g.v("sl")
			if g.r.Intn(2) == 0 {
				g.emit(ind, "%s := make([]*S, 2, 4)", v)
				g.emit(ind, "%s[0] = %s", v, g.pick(e.P))
			} else {
				g.emit(ind, "%s := []*S{%s, %s}", v, g.pick(e.P), g.pick(e.P))
			}
			g.probeSL(ind, v)
			e.SL = append(e.SL, v)
			g.count("slice-make")
		}},
		{4, len(e.SL) > 0, func() { // slice element store / load
			if g.r.Intn(2) == 0 {
				g.emit(ind, "%s[0] = %s", g.pick(e.SL), g.pick(e.P))
				g.count("slice-store")
			} else {
				v, s := g.v("p"), g.pick(e.SL)
				if g.r.Intn(4) == 0 {
					g.emit(ind, "%s := %s[len(%s)-1]", v, s, s)
				} else {
					g.emit(ind, "%s := %s[0]", v, s)
				}
				g.count("slice-load")
				g.defP(ind, e, v, true)
			}
		}},
		{2, len(e.SL) > 0, func() { // reslice
			v := g.v("sl")
			g.emit(ind, "%s := %s[0:1]", v, g.pick(e.SL))
			g.probeSL(ind, v)
			e.SL = append(e.SL, v)
			g.count("reslice")
		}},
		{3, len(e.SL) > 0 && !g.o.NoAppend, func() { // append / copy
			switch g.r.Intn(3) {
			case 0:
				v := g.v("sl")
				g.emit(ind, "%s := append(%s, %s)", v, g.pick(e.SL), g.pick(e.P))
				g.probeSL(ind, v)
				e.SL = append(e.SL, v)
				g.count("append-elem")
			case 1:
				v := g.v("sl")
				g.emit(ind, "%s := append(%s, %s...)", v, g.pick(e.SL), g.pick(e.SL))
				g.probeSL(ind, v)
				e.SL = append(e.SL, v)
				g.count("append-slice")
			default:
				g.emit(ind, "copy(%s, %s)", g.pick(e.SL), g.pick(e.SL))
				g.count("copy")
			}
		}},
		{3, true, func() { // array field: element store / load / slice of the array
			switch g.r.Intn(3) {
			case 0:
				g.emit(ind, "%s.a[%d] = %s", g.pick(e.P), g.r.Intn(4)/3, g.pick(e.P))
				g.count("array-store")
			case 1:
				v := g.v("p")
				g.emit(ind, "%s := %s.a[%d]", v, g.pick(e.P), g.r.Intn(4)/3)
				g.count("array-load")
				g.defP(ind, e, v, true)
			default:
				v := g.v("sl")
				g.emit(ind, "%s := %s.a[:]", v, g.pick(e.P))
				g.probeSL(ind, v)
				e.SL = append(e.SL, v)
				g.count("array-slice")
			}
		}},
		{2, len(e.SL) > 0, func() { // slice kept in a field
			if g.r.Intn(2) == 0 {
				g.emit(ind, "%s.s = %s", g.pick(e.P), g.pick(e.SL))
				g.count("slicefield-store")
			} else {
				v := g.v("sl")
				g.emit(ind, "%s := %s.s", v, g.pick(e.P))
				g.emit(ind, "if len(%s) == 0 {", v)
				g.emit(ind+1, "%s = %s", v, g.pick(e.SL))
				g.emit(ind, "}")
				g.probeSL(ind, v)
				e.SL = append(e.SL, v)
				g.count("slicefield-load")
			}
		}},
		{3, true, func() { // new map
			if g.r.Intn(3) == 0 {
				v := g.v("mk")
				g.emit(ind, "%s := map[*S]*S{%s: %s}", v, g.pick(e.P), g.pick(e.P))
				g.probeMK(ind, v)
				e.MK = append(e.MK, v)
				g.count("mapk-make")
			} else {
				v := g.v("m")
				if g.r.Intn(2) == 0 {
					g.emit(ind, "%s := make(map[int]*S)", v)
				} else {
					g.emit(ind, "%s := map[int]*S{%d: %s}", v, g.r.Intn(4)/3, g.pick(e.P))
				}
				g.probeM(ind, v)
				e.M = append(e.M, v)
				g.count("map-make")
			}
		}},
		{5, len(e.M) > 0, func() { // map update / lookup / comma-ok / range
			m := g.pick(e.M)
			switch g.r.Intn(4) {
			case 0:
				g.emit(ind, "%s[%d] = %s", m, g.r.Intn(4)/3, g.pick(e.P))
				g.count("map-update")
			case 1:
				v := g.v("p")
				g.emit(ind, "%s := %s[%d]", v, m, g.r.Intn(4)/3)
				g.count("map-lookup")
				g.defP(ind, e, v, true)
			case 2:
				v, ok := g.v("p"), g.v("ok")
				g.emit(ind, "%s, %s := %s[%d]", v, ok, m, g.r.Intn(4)/3)
				g.emit(ind, "_ = %s", ok)
				g.count("map-lookup-ok")
				g.defP(ind, e, v, true)
			default:
				v, acc := g.v("p"), g.v("p")
				g.emit(ind, "%s := %s", acc, g.pick(e.P))
				g.emit(ind, "for _, %s := range %s {", v, m)
				g.emit(ind+1, "if %s != nil {", v)
				g.probeP(ind+2, v)
				g.emit(ind+2, "%s = %s", acc, v)
				g.emit(ind+1, "}")
				g.emit(ind, "}")
				g.count("map-range")
				g.defP(ind, e, acc, false)
			}
		}},
		{2, len(e.MK) > 0, func() { // pointer-keyed map
			m := g.pick(e.MK)
			switch g.r.Intn(3) {
			case 0:
				g.emit(ind, "%s[%s] = %s", m, g.pick(e.P), g.pick(e.P))
				g.count("mapk-update")
			case 1:
				v := g.v("p")
				g.emit(ind, "%s := %s[%s]", v, m, g.pick(e.P))
				g.count("mapk-lookup")
				g.defP(ind, e, v, true)
			default:
				k, acc := g.v("p"), g.v("p")
				g.emit(ind, "%s := %s", acc, g.pick(e.P))
				g.emit(ind, "for %s := range %s {", k, m)
				g.emit(ind+1, "if %s != nil {", k)
				g.probeP(ind+2, k)
				g.emit(ind+2, "%s = %s", acc, k)
				g.emit(ind+1, "}")
				g.emit(ind, "}")
				g.count("mapk-range")
				g.defP(ind, e, acc, false)
			}
		}},
		{2, len(e.M) > 0, func() { // map kept in a field
			if g.r.Intn(2) == 0 {
				g.emit(ind, "%s.m = %s", g.pick(e.P), g.pick(e.M))
				g.count("mapfield-store")
			} else {
				v := g.v("m")
				g.emit(ind, "%s := %s.m", v, g.pick(e.P))
				g.emit(ind, "if %s == nil {", v)
				g.emit(ind+1, "%s = %s", v, g.pick(e.M))
				g.emit(ind, "}")
				g.probeM(ind, v)
				e.M = append(e.M, v)
				g.count("mapfield-load")
			}
		}},
		{3, true, func() { // new channel
			v := g.v("ch")
			g.emit(ind, "%s := make(chan *S, 4)", v)
			g.probeC(ind, v)
			e.C = append(e.C, v)
			g.count("chan-make")
		}},
		{5, len(e.C) > 0, func() { // send / receive / comma-ok receive (never blocking)
			c := g.pick(e.C)
			switch g.r.Intn(5) {
			case 3:
				g.emit(ind, "select {")
				g.emit(ind, "case %s <- %s:", c, g.pick(e.P))
				g.emit(ind, "default:")
				g.emit(ind, "}")
				g.count("select-send")
			case 4:
				v := g.v("p")
				g.emit(ind, "%s := %s", v, g.pick(e.P))
				g.emit(ind, "select {")
				g.emit(ind, "case %s = <-%s:", v, c)
				if len(e.C) > 1 {
					g.emit(ind, "case %s <- %s:", g.pick(e.C), g.pick(e.P))
				}
				g.emit(ind, "default:")
				g.emit(ind, "}")
				g.count("select-recv")
				g.defP(ind, e, v, true)
			case 0:
				g.emit(ind, "if len(%s) < cap(%s) {", c, c)
				g.emit(ind+1, "%s <- %s", c, g.pick(e.P))
				g.emit(ind, "}")
				g.count("chan-send")
			case 1:
				v := g.v("p")
				g.emit(ind, "%s := %s", v, g.pick(e.P))
				g.emit(ind, "if len(%s) > 0 {", c)
				g.emit(ind+1, "%s = <-%s", v, c)
				g.emit(ind, "}")
				g.count("chan-recv")
				g.defP(ind, e, v, true)
			default:
				v := g.v("p")
				g.emit(ind, "%s := %s", v, g.pick(e.P))
				g.emit(ind, "if len(%s) > 0 {", c)
				g.emit(ind+1, "%s, _ = <-%s", v, c)
				g.emit(ind, "}")
				g.count("chan-recv-ok")
				g.defP(ind, e, v, true)
			}
		}},
		{2, len(e.C) > 0, func() { // channel kept in a field
			if g.r.Intn(2) == 0 {
				g.emit(ind, "%s.c = %s", g.pick(e.P), g.pick(e.C))
				g.count("chanfield-store")
			} else {
				v := g.v("ch")
				g.emit(ind, "%s := %s.c", v, g.pick(e.P))
				g.emit(ind, "if %s == nil {", v)
				g.emit(ind+1, "%s = %s", v, g.pick(e.C))
				g.emit(ind, "}")
				g.probeC(ind, v)
				e.C = append(e.C, v)
				g.count("chanfield-load")
			}
		}},
		{4, true, func() { // function value: named function, closure, bound method, thunk
			v := g.v("fn")
			switch k := g.r.Intn(4); {
			case k == 0 && len(g.callable) > 0:
				g.emit(ind, "%s := %s", v, g.pick(g.callable))
				g.count("func-named")
			case k == 1 && len(e.AV) > 0:
				g.emit(ind, "%s := %s.M", v, g.pick(e.AV))
				g.count("func-bound")
			case k == 2 && len(e.I) > 0:
				g.emit(ind, "%s := %s.M", v, g.pick(e.I))
				g.count("func-bound-iface")
			default:
				g.closure(ind, e, v)
				g.count("func-closure")
			}
			g.emit(ind, "_ = %s", v)
			e.F = append(e.F, v)
			if g.r.Intn(4) > 0 {
				w := g.v("p")
				g.emit(ind, "%s := %s(%d, %s)", w, v, g.newSite(), g.pick(e.P))
				g.count("call-dynamic")
				g.defP(ind, e, w, true)
			}
		}},
		{5, len(e.F) > 0, func() { // call through a function value
			v := g.v("p")
			g.emit(ind, "%s := %s(%d, %s)", v, g.pick(e.F), g.newSite(), g.pick(e.P))
			g.count("call-dynamic")
			g.defP(ind, e, v, true)
		}},
		{2, len(e.F) > 0, func() { // function value kept in a field
			if g.r.Intn(2) == 0 {
				g.emit(ind, "%s.f = %s", g.pick(e.P), g.pick(e.F))
				g.count("funcfield-store")
			} else {
				v := g.v("fn")
				g.emit(ind, "%s := %s.f", v, g.pick(e.P))
				g.emit(ind, "if %s == nil {", v)
				g.emit(ind+1, "%s = %s", v, g.pick(e.F))
				g.emit(ind, "}")
				e.F = append(e.F, v)
				g.count("funcfield-load")
			}
		}},
		{4, true, func() { // receiver objects and interface values
			switch g.r.Intn(3) {
			case 0:
				v := g.v("av")
				g.emit(ind, "%s := &%s{s: %s, t: %s}", v, aT, g.pick(e.P), g.pick(e.P))
				g.emit(ind, "_ = %s", v)
				e.AV = append(e.AV, v)
				g.count("recv-alloc-A")
			case 1:
				v := g.v("bv")
				g.emit(ind, "%s := &%s{s: %s}", v, bT, g.pick(e.P))
				g.emit(ind, "_ = %s", v)
				e.BV = append(e.BV, v)
				g.count("recv-alloc-B")
			default:
				v := g.v("iv")
				if len(e.AV) > 0 && (len(e.BV) == 0 || g.r.Intn(2) == 0) {
					g.emit(ind, "var %s I = %s", v, g.pick(e.AV))
				} else if len(e.BV) > 0 {
					g.emit(ind, "var %s I = %s", v, g.pick(e.BV))
				} else {
					g.emit(ind, "var %s I = &%s{s: %s}", v, bT, g.pick(e.P))
				}
				g.emit(ind, "_ = %s", v)
				e.I = append(e.I, v)
				g.count("make-interface")
			}
		}},
		{2, len(e.I) > 1, func() { // interface variable reassigned (phi of interfaces)
			a, b := g.pick(e.I), g.pick(e.I)
			if a != b {
				g.emit(ind, "%s = %s", a, b)
				g.count("iface-assign")
			}
		}},
		{5, len(e.I) > 0, func() { // invoke
			v := g.v("p")
			g.emit(ind, "%s := %s.M(%d, %s)", v, g.pick(e.I), g.newSite(), g.pick(e.P))
			g.count("call-invoke")
			g.defP(ind, e, v, true)
		}},
		{1, true, func() { // invoke on an interface field that nothing ever assigns: no callee in the call graph
			fresh, ni, v := g.v("p"), g.v("iv"), g.v("p")
			g.emit(ind, "%s := &S{id: %d}", fresh, g.nv)
			g.emit(ind, "%s := %s.i", ni, fresh)
			g.emit(ind, "%s := %s", v, g.pick(e.P))
			g.emit(ind, "if %s != nil {", ni)
			g.emit(ind+1, "%s = %s.M(%d, %s)", v, ni, g.newSite(), v)
			g.emit(ind, "}")
			g.count("call-invoke-never-assigned")
			g.probeP(ind, fresh) // not entered into the scope: nothing may assign its fields
			g.defP(ind, e, v, true)
		}},
		{4, len(e.I) > 0, func() { // type assertions
			i := g.pick(e.I)
			v := g.v("p")
			g.emit(ind, "%s := %s", v, g.pick(e.P))
			switch g.r.Intn(4) {
			case 0:
				w := g.v("av")
				g.emit(ind, "if %s, ok := %s.(*%s); ok {", w, i, aT)
				g.emit(ind+1, "%s = %s.s", v, w)
				g.emit(ind, "}")
				g.count("assert-concrete")
			case 1:
				w := g.v("jv")
				g.emit(ind, "if %s, ok := %s.(J); ok {", w, i)
				g.emit(ind+1, "%s = %s.N(%d)", v, w, g.newSite())
				g.emit(ind, "}")
				g.count("assert-iface")
			case 2:
				w := g.v("w")
				g.emit(ind, "switch %s := %s.(type) {", w, i)
				g.emit(ind, "case *%s:", aT)
				g.emit(ind+1, "%s = %s.t", v, w)
				g.emit(ind, "case *%s:", bT)
				g.emit(ind+1, "%s = %s.s", v, w)
				g.emit(ind, "}")
				g.count("type-switch")
			default:
				w := g.v("ev")
				g.emit(ind, "var %s any = %s", w, i)
				g.emit(ind, "if x, ok := %s.(I); ok {", w)
				g.emit(ind+1, "%s = x.M(%d, %s)", v, g.newSite(), v)
				g.emit(ind, "}")
				g.count("assert-any-iface")
			}
			g.defP(ind, e, v, true)
		}},
		{3, true, func() { // pointers in an empty interface
			if len(e.E) == 0 || g.r.Intn(2) == 0 {
				v := g.v("ev")
				g.emit(ind, "var %s any = %s", v, g.pick(e.P))
				g.emit(ind, "_ = %s", v)
				e.E = append(e.E, v)
				g.count("make-any")
			} else {
				v := g.v("p")
				g.emit(ind, "%s, _ := %s.(*S)", v, g.pick(e.E))
				g.count("assert-any")
				g.defP(ind, e, v, true)
			}
		}},
		{2, true, func() { // interface / any kept in a field
			switch g.r.Intn(4) {
			case 0:
				if len(e.I) > 0 {
					g.emit(ind, "%s.i = %s", g.pick(e.P), g.pick(e.I))
					g.count("ifacefield-store")
				}
			case 1:
				if len(e.I) > 0 {
					v := g.v("iv")
					g.emit(ind, "%s := %s.i", v, g.pick(e.P))
					g.emit(ind, "if %s == nil {", v)
					g.emit(ind+1, "%s = %s", v, g.pick(e.I))
					g.emit(ind, "}")
					e.I = append(e.I, v)
					g.count("ifacefield-load")
				}
			case 2:
				if len(e.E) > 0 {
					g.emit(ind, "%s.e = %s", g.pick(e.P), g.pick(e.E))
					g.count("anyfield-store")
				}
			default:
				v := g.v("ev")
				g.emit(ind, "%s := %s.e", v, g.pick(e.P))
				g.emit(ind, "_ = %s", v)
				e.E = append(e.E, v)
				g.count("anyfield-load")
			}
		}},
		{6, len(g.callable) > 0, func() { // static call
			v := g.v("p")
			g.emit(ind, "%s := %s(%d, %s)", v, g.pick(g.callable), g.newSite(), g.pick(e.P))
			g.count("call-static")
			g.defP(ind, e, v, true)
		}},
		{3, true, func() { // static call with two results
			v, w := g.v("p"), g.v("p")
			g.emit(ind, "%s, %s := swap%d(%d, %s, %s)", v, w, g.caseNo, g.newSite(), g.pick(e.P), g.pick(e.P))
			g.count("call-static-2")
			g.defP(ind, e, v, true)
			g.defP(ind, e, w, true)
		}},
		{2, len(e.AV) > 0, func() { // static method call / method expression
			v := g.v("p")
			if g.r.Intn(2) == 0 {
				g.emit(ind, "%s := %s.M(%d, %s)", v, g.pick(e.AV), g.newSite(), g.pick(e.P))
				g.count("call-method")
			} else {
				th := g.v("fn")
				g.emit(ind, "%s := (*%s).M", th, aT)
				g.emit(ind, "%s := %s(%s, %d, %s)", v, th, g.pick(e.AV), g.newSite(), g.pick(e.P))
				g.count("call-thunk")
			}
			g.defP(ind, e, v, true)
		}},
		{2, true, func() { // instance of a generic function used as a value; functions in a slice
			v := g.v("p")
			if g.r.Intn(2) == 0 {
				fn := g.v("fn")
				g.emit(ind, "%s := gid%d[*S]", fn, g.caseNo)
				e.F = append(e.F, fn)
				g.emit(ind, "%s := %s(%d, %s)", v, fn, g.newSite(), g.pick(e.P))
				g.count("call-generic-value")
			} else {
				fs := g.v("fs")
				a := fmt.Sprintf("echo%d", g.caseNo)
				if len(e.F) > 0 {
					a = g.pick(e.F)
				}
				g.emit(ind, "%s := []func(int, *S) *S{%s, echoq%d}", fs, a, g.caseNo)
				g.emit(ind, "%s := %s[%d](%d, %s)", v, fs, g.r.Intn(2), g.newSite(), g.pick(e.P))
				g.count("call-func-slice")
			}
			g.defP(ind, e, v, true)
		}},
		{2, len(e.I) > 0, func() { // method promoted through an embedded interface: wrapper (*D).M invokes the inner value
			iv := g.v("iv")
			g.emit(ind, "var %s I = &D{I: %s}", iv, g.pick(e.I))
			g.emit(ind, "_ = %s", iv)
			e.I = append(e.I, iv)
			g.count("make-interface-embedded-iface")
		}},
		{2, true, func() { // instance of a generic function
			v := g.v("p")
			g.emit(ind, "%s := gid%d[*S](%d, %s)", v, g.caseNo, g.newSite(), g.pick(e.P))
			g.count("call-generic")
			g.defP(ind, e, v, true)
		}},
		{2, len(e.AV) > 0, func() { // promoted method through an embedded pointer: interface holding *C, wrapper (*C).M
			iv := g.v("iv")
			g.emit(ind, "var %s I = &C%d{A%d: %s}", iv, g.caseNo, g.caseNo, g.pick(e.AV))
			g.emit(ind, "_ = %s", iv)
			e.I = append(e.I, iv)
			g.count("make-interface-embedded")
		}},
		{2, true, func() { // panic / recover carrying a pointer
			v := g.v("p")
			g.emit(ind, "%s := pan%d(%d, %s)", v, g.caseNo, g.newSite(), g.pick(e.P))
			g.count("call-panic-recover")
			g.defP(ind, e, v, true)
		}},
		{3, true, func() { // recursion (bounded)
			v := g.v("p")
			g.emit(ind, "%s := rec%d(%d, %s, %s, 2)", v, g.caseNo, g.newSite(), g.pick(e.P), g.pick(e.P))
			g.count("call-recursive")
			g.defP(ind, e, v, true)
		}},
		{4, true, func() { // global
			if g.r.Intn(2) == 0 {
				g.emit(ind, "G%d = %s", g.caseNo, g.pick(e.P))
				g.count("global-store")
			} else {
				v := g.v("p")
				g.emit(ind, "%s := G%d", v, g.caseNo)
				g.count("global-load")
				g.defP(ind, e, v, true)
			}
		}},
		{4, g.depth < 2, func() { // branch
			g.depth++
			g.emit(ind, "if %s {", g.newCond())
			n := 1 + g.r.Intn(3)
			e1 := e.clone()
			for i := 0; i < n; i++ {
				g.stmt(ind+1, e1)
			}
			if g.r.Intn(2) == 0 {
				g.emit(ind, "} else {")
				e2 := e.clone()
				for i := 0; i < n; i++ {
					g.stmt(ind+1, e2)
				}
			}
			g.emit(ind, "}")
			g.depth--
			g.count("if")
		}},
		{3, g.depth < 2, func() { // loop
			g.depth++
			it := g.v("it")
			g.emit(ind, "for %s := 0; %s < 2; %s++ {", it, it, it)
			e1 := e.clone()
			n := 1 + g.r.Intn(3)
			for i := 0; i < n; i++ {
				g.stmt(ind+1, e1)
			}
			g.emit(ind, "}")
			g.depth--
			g.count("for")
		}},
		{3, !g.o.NoGo && g.depth == 0, func() { // go / defer
			switch k := g.r.Intn(5); {
			case k == 0 && len(g.callable) > 0:
				g.emit(ind, "go %s(%d, %s)", g.pick(g.callable), g.newSite(), g.pick(e.P))
				g.emit(ind, "yield()")
				g.count("go-static")
			case k == 1 && len(e.F) > 0:
				g.emit(ind, "go %s(%d, %s)", g.pick(e.F), g.newSite(), g.pick(e.P))
				g.emit(ind, "yield()")
				g.count("go-dynamic")
			case k == 2 && len(e.I) > 0:
				g.emit(ind, "go %s.M(%d, %s)", g.pick(e.I), g.newSite(), g.pick(e.P))
				g.emit(ind, "yield()")
				g.count("go-invoke")
			case k == 3 && len(e.F) > 0:
				g.emit(ind, "defer %s(%d, %s)", g.pick(e.F), g.newSite(), g.pick(e.P))
				g.count("defer-dynamic")
			case len(g.callable) > 0:
				g.emit(ind, "defer %s(%d, %s)", g.pick(g.callable), g.newSite(), g.pick(e.P))
				g.count("defer-static")
			case len(e.I) > 0:
				g.emit(ind, "defer %s.M(%d, %s)", g.pick(e.I), g.newSite(), g.pick(e.P))
				g.count("defer-invoke")
			}
		}},
	}
	tot := 0
	for _, a := range alts {
		if a.ok {
			tot += a.w
		}
	}
	n := g.r.Intn(tot)
	for _, a := range alts {
		if !a.ok {
			continue
		}
		if n < a.w {
			a.run()
			return
		}
		n -= a.w
	}
}

// defSV finishes the definition of a struct-valued variable: probe its pointer fields, enter scope.
func (g *pgen) defSV(ind int, e *pvars, v string) {
	for _, f := range []string{"a", "b"} {
		g.emit(ind, "if %s.%s != nil {", v, f)
		g.probeP(ind+1, v+"."+f)
		g.emit(ind, "}")
	}
	e.SV = append(e.SV, v)
}

// structStmt emits one statement that moves a struct VALUE containing pointers (type V / W / VV).
func (g *pgen) structStmt(ind int, e *pvars) {
	c := g.caseNo
	if len(e.SV) == 0 || g.r.Intn(6) == 0 {
		v := g.v("sv")
		switch g.r.Intn(3) {
		case 0:
			g.emit(ind, "%s := mkV%d(%d, %s, %s)", v, c, g.newSite(), g.pick(e.P), g.pick(e.P))
			g.count("struct-result")
		case 1:
			g.emit(ind, "%s := V{a: %s, b: %s}", v, g.pick(e.P), g.pick(e.P))
			g.count("struct-literal")
		default:
			g.emit(ind, "var %s V", v)
			g.emit(ind, "%s.a = %s", v, g.pick(e.P))
			g.count("struct-var")
		}
		g.defSV(ind, e, v)
	}
	sv := g.pick(e.SV)
	h := g.pick(e.P)
	kind := g.r.Intn(19)
	if g.focusHas("struct-rvalue") == 1 && g.r.Intn(2) == 0 {
		kind = 17
	}
	switch kind {
	case 17, 18: // field of a struct-valued rvalue (ssa.Field on a register, not on a variable)
		v := g.v("p")
		switch g.r.Intn(4) {
		case 0:
			g.emit(ind, "%s := mkV%d(%d, %s, %s).%s", v, c, g.newSite(), g.pick(e.P), g.pick(e.P), g.pick([]string{"a", "b"}))
			g.count("struct-rvalue-field-call")
		case 1:
			g.emit(ind, "if %s.vm == nil {", h)
			g.emit(ind+1, "%s.vm = map[int]V{}", h)
			g.emit(ind, "}")
			g.emit(ind, "%s.vm[5] = %s", h, sv)
			g.emit(ind, "%s := %s.vm[5].%s", v, h, g.pick([]string{"a", "b"}))
			g.count("struct-rvalue-field-lookup")
		case 2:
			ch := g.v("cv")
			g.emit(ind, "%s := make(chan V, 1)", ch)
			g.emit(ind, "%s <- %s", ch, sv)
			g.emit(ind, "%s := (<-%s).%s", v, ch, g.pick([]string{"a", "b"}))
			g.count("struct-rvalue-field-recv")
		default:
			g.emit(ind, "%s := idV%d(%d, W{v: %s, z: %s}.v).b", v, c, g.newSite(), sv, g.pick(e.P))
			g.count("struct-rvalue-field-nested")
		}
		g.defP(ind, e, v, true)
	case 0: // field read / write on the local
		if g.r.Intn(2) == 0 {
			g.emit(ind, "%s.%s = %s", sv, g.pick([]string{"a", "b"}), g.pick(e.P))
			g.count("struct-field-set")
		} else {
			v := g.v("p")
			g.emit(ind, "%s := %s.%s", v, sv, g.pick([]string{"a", "b"}))
			g.count("struct-field-get")
			g.defP(ind, e, v, true)
		}
	case 1: // struct argument
		v := g.v("p")
		g.emit(ind, "%s := useV%d(%d, %s)", v, c, g.newSite(), sv)
		g.count("struct-arg")
		g.defP(ind, e, v, true)
	case 2: // struct argument and result
		v := g.v("sv")
		g.emit(ind, "%s := idV%d(%d, %s)", v, c, g.newSite(), sv)
		g.count("struct-arg-result")
		g.defSV(ind, e, v)
	case 3: // struct stored in / loaded from a field of a heap object
		v := g.v("sv")
		g.emit(ind, "%s.v = %s", h, sv)
		g.emit(ind, "%s := %s.v", v, g.pick([]string{h, g.pick(e.P)}))
		g.count("struct-heap-field")
		g.defSV(ind, e, v)
	case 4: // nested struct
		v := g.v("sv")
		g.emit(ind, "%s.w = W{v: %s, z: %s}", h, sv, g.pick(e.P))
		g.emit(ind, "%s := %s.w.v", v, h)
		w := g.v("p")
		g.emit(ind, "%s := %s.w.z", w, h)
		g.count("struct-nested")
		g.defSV(ind, e, v)
		g.defP(ind, e, w, true)
	case 5: // slice of structs: append, index, range
		v := g.v("sv")
		if !g.o.NoAppend {
			g.emit(ind, "%s.vs = append(%s.vs, %s)", h, h, sv)
		} else {
			g.emit(ind, "%s.vs = []V{%s}", h, sv)
		}
		g.emit(ind, "%s := %s", v, sv)
		g.emit(ind, "if len(%s.vs) > 0 {", h)
		g.emit(ind+1, "%s = %s.vs[0]", v, h)
		g.emit(ind, "}")
		el := g.v("el")
		g.emit(ind, "for _, %s := range %s.vs {", el, h)
		g.emit(ind+1, "if %s.b != nil {", el)
		g.probeP(ind+2, el+".b")
		g.emit(ind+1, "}")
		g.emit(ind, "}")
		g.count("struct-slice")
		g.defSV(ind, e, v)
	case 6: // map of structs
		v := g.v("sv")
		g.emit(ind, "if %s.vm == nil {", h)
		g.emit(ind+1, "%s.vm = map[int]V{}", h)
		g.emit(ind, "}")
		g.emit(ind, "%s.vm[3] = %s", h, sv)
		g.emit(ind, "%s := %s.vm[3]", v, h)
		g.count("struct-map")
		g.defSV(ind, e, v)
	case 7: // channel of structs
		ch, v := g.v("cv"), g.v("sv")
		g.emit(ind, "%s := make(chan V, 2)", ch)
		g.emit(ind, "%s <- %s", ch, sv)
		g.emit(ind, "%s := <-%s", v, ch)
		g.count("struct-chan")
		g.defSV(ind, e, v)
	case 8: // struct in an empty interface, asserted back
		ev, v := g.v("ev"), g.v("sv")
		g.emit(ind, "var %s any = %s", ev, sv)
		g.emit(ind, "%s, _ := %s.(V)", v, ev)
		e.E = append(e.E, ev)
		g.count("struct-any")
		g.defSV(ind, e, v)
	case 9: // value receiver behind an interface: invoke with a struct payload
		iv, v := g.v("iv"), g.v("p")
		g.emit(ind, "var %s I = VV{a: %s.a, n: %d}", iv, sv, g.nv)
		e.I = append(e.I, iv)
		g.emit(ind, "%s := %s.M(%d, %s)", v, iv, g.newSite(), g.pick(e.P))
		g.count("struct-invoke")
		g.defP(ind, e, v, true)
	case 10: // assertion to a struct type
		iv, v := g.v("iv"), g.v("p")
		g.emit(ind, "var %s I = VV{a: %s, n: %d}", iv, g.pick(e.P), g.nv)
		e.I = append(e.I, iv)
		g.emit(ind, "%s := %s", v, g.pick(e.P))
		g.emit(ind, "if vv, ok := %s.(VV); ok {", iv)
		g.emit(ind+1, "%s = vv.a", v)
		g.emit(ind, "}")
		g.count("struct-assert")
		g.defP(ind, e, v, true)
	case 11: // bound method value with a struct receiver
		vv, fn, v := g.v("vv"), g.v("fn"), g.v("p")
		g.emit(ind, "%s := VV{a: %s.b, n: %d}", vv, sv, g.nv)
		g.emit(ind, "%s := %s.M", fn, vv)
		e.F = append(e.F, fn)
		g.emit(ind, "%s := %s(%d, %s)", v, fn, g.newSite(), g.pick(e.P))
		g.count("struct-bound-method")
		g.defP(ind, e, v, true)
	case 12: // pointer to a struct value, whole-struct load and store
		pv, v := g.v("pv"), g.v("sv")
		g.emit(ind, "%s := &%s", pv, sv)
		g.emit(ind, "%s := *%s", v, pv)
		if len(e.SV) > 1 {
			g.emit(ind, "*%s = %s", pv, g.pick(e.SV))
		}
		g.count("struct-deref")
		g.defSV(ind, e, v)
	case 13: // struct-valued phi (the variable is only used as a whole)
		v, w := g.v("sv"), g.v("p")
		g.emit(ind, "%s := %s", v, sv)
		g.emit(ind, "if %s {", g.newCond())
		g.emit(ind+1, "%s = %s", v, g.pick(e.SV))
		g.emit(ind, "}")
		g.emit(ind, "%s := useV%d(%d, %s)", w, c, g.newSite(), v)
		g.count("struct-phi")
		g.defP(ind, e, w, true)
	case 14: // value-receiver method called through a pointer and directly
		vv, v := g.v("vv"), g.v("p")
		g.emit(ind, "%s := &VV{a: %s, n: %d}", vv, g.pick(e.P), g.nv)
		g.emit(ind, "%s := %s.M(%d, %s)", v, vv, g.newSite(), g.pick(e.P))
		g.count("struct-method-via-pointer")
		g.defP(ind, e, v, true)
	case 15: // pointer-to-struct receiver type in an interface: wrapper (*VV).M loads the struct
		iv, v := g.v("iv"), g.v("p")
		g.emit(ind, "var %s I = &VV{a: %s, n: %d}", iv, g.pick(e.P), g.nv)
		e.I = append(e.I, iv)
		g.emit(ind, "%s := %s.M(%d, %s)", v, iv, g.newSite(), g.pick(e.P))
		g.count("struct-invoke-ptr-wrapper")
		g.defP(ind, e, v, true)
	default: // go / defer with a struct argument
		if g.depth == 0 && !g.o.NoGo {
			g.emit(ind, "defer useV%d(%d, %s)", c, g.newSite(), sv)
			g.count("struct-defer-arg")
		} else {
			v := g.v("p")
			g.emit(ind, "%s := useV%d(%d, %s)", v, c, g.newSite(), sv)
			g.defP(ind, e, v, true)
		}
	}
}

// rtKinds names the round trips (index = case number in roundTrip).
var rtKinds = []string{"field", "map", "mapk", "chan", "slice", "array", "pp", "append", "any", "anyfield", "global", "iface",
	"closure", "dyncall", "static", "invoke", "bound", "phi", "panic", "select", "results", "map-range", "mapk-range",
	"funcfield", "copy", "go", "assert-iface",
	"dup-dyncall", "dup-invoke", "dup-mapkv", "dup-fields", "twice", "generic-twice", "iface-keyed-map"}

// roundTrip emits a store into some kind of cell immediately followed by a load from it, so that the
// native run is certain to observe the flow (the free-form statements above rarely hit the same cell).
func (g *pgen) roundTrip(ind int, e *pvars) {
	x, v := g.pick(e.P), g.v("p")
	kind := g.r.Intn(len(rtKinds))
	if len(g.o.Focus) > 0 && g.r.Intn(5) > 0 {
		want := g.pick(g.o.Focus)
		for i, k := range rtKinds {
			if k == want {
				kind = i
			}
		}
	}
	switch kind {
	case 12: // closure capturing x, called at once
		fn := g.v("fn")
		fid := g.newFid()
		g.emit(ind, "%s := func(site int, y *S) *S {", fn)
		g.emit(ind+1, "if enter(%d, site) {", fid)
		g.emit(ind+2, "return y")
		g.emit(ind+1, "}")
		g.emit(ind+1, "if y == nil {")
		g.emit(ind+2, "return y")
		g.emit(ind+1, "}")
		g.emit(ind+1, "return %s", x)
		g.emit(ind, "}")
		e.F = append(e.F, fn)
		g.emit(ind, "%s := %s(%d, %s)", v, fn, g.newSite(), g.pick(e.P))
		g.count("rt-closure")
	case 13: // dynamic call of a named function that returns its argument
		fn := g.v("fn")
		g.emit(ind, "%s := echo%d", fn, g.caseNo)
		g.emit(ind, "if %s {", g.newCond())
		g.emit(ind+1, "%s = echoq%d", fn, g.caseNo)
		g.emit(ind, "}")
		e.F = append(e.F, fn)
		g.emit(ind, "%s := %s(%d, %s)", v, fn, g.newSite(), x)
		g.count("rt-dyncall")
	case 14: // static call returning its argument
		g.emit(ind, "%s := echo%d(%d, %s)", v, g.caseNo, g.newSite(), x)
		g.count("rt-static")
	case 15: // invoke: the method returns what the receiver holds
		iv := g.v("iv")
		g.emit(ind, "var %s I = &E%d{s: %s}", iv, g.caseNo, x)
		e.I = append(e.I, iv)
		g.emit(ind, "%s := %s.M(%d, %s)", v, iv, g.newSite(), g.pick(e.P))
		g.count("rt-invoke")
	case 16: // bound method value
		fn := g.v("fn")
		g.emit(ind, "%s := (&E%d{s: %s}).M", fn, g.caseNo, x)
		e.F = append(e.F, fn)
		g.emit(ind, "%s := %s(%d, %s)", v, fn, g.newSite(), g.pick(e.P))
		g.count("rt-bound")
	case 17: // phi
		g.emit(ind, "%s := %s", v, g.pick(e.P))
		g.emit(ind, "if %s {", g.newCond())
		g.emit(ind+1, "%s = %s", v, x)
		g.emit(ind, "}")
		g.count("rt-phi")
	case 18: // panic / recover
		g.emit(ind, "%s := pan%d(%d, %s)", v, g.caseNo, g.newSite(), x)
		g.count("rt-panic")
	case 19: // select send / receive
		c := g.v("ch")
		g.emit(ind, "%s := make(chan *S, 2)", c)
		g.probeC(ind, c)
		e.C = append(e.C, c)
		g.emit(ind, "select {")
		g.emit(ind, "case %s <- %s:", c, x)
		g.emit(ind, "default:")
		g.emit(ind, "}")
		g.emit(ind, "%s := %s", v, g.pick(e.P))
		g.emit(ind, "select {")
		g.emit(ind, "case %s = <-%s:", v, c)
		g.emit(ind, "default:")
		g.emit(ind, "}")
		g.count("rt-select")
	case 20: // two results
		w := g.v("p")
		g.emit(ind, "%s, %s := swap%d(%d, %s, %s)", v, w, g.caseNo, g.newSite(), x, g.pick(e.P))
		g.defP(ind, e, w, true)
		g.count("rt-results")
	case 21: // map range
		m := g.v("m")
		g.emit(ind, "%s := map[int]*S{1: %s}", m, x)
		g.probeM(ind, m)
		e.M = append(e.M, m)
		g.emit(ind, "%s := %s", v, g.pick(e.P))
		g.emit(ind, "for _, el := range %s {", m)
		g.emit(ind+1, "%s = el", v)
		g.emit(ind, "}")
		g.count("rt-map-range")
	case 22: // pointer-keyed map range (keys)
		m := g.v("mk")
		g.emit(ind, "%s := map[*S]*S{%s: nil}", m, x)
		g.probeMK(ind, m)
		e.MK = append(e.MK, m)
		g.emit(ind, "%s := %s", v, g.pick(e.P))
		g.emit(ind, "for k := range %s {", m)
		g.emit(ind+1, "%s = k", v)
		g.emit(ind, "}")
		g.count("rt-mapk-range")
	case 23: // function value through a field
		h := g.pick(e.P)
		fn := g.v("fn")
		g.emit(ind, "%s.f = echo%d", h, g.caseNo)
		g.emit(ind, "%s := %s.f", fn, h)
		e.F = append(e.F, fn)
		g.emit(ind, "%s := %s(%d, %s)", v, fn, g.newSite(), x)
		g.count("rt-funcfield")
	case 24: // copy builtin
		if g.o.NoAppend {
			g.emit(ind, "%s := %s", v, x)
			break
		}
		a, b := g.v("sl"), g.v("sl")
		g.emit(ind, "%s := []*S{%s}", a, x)
		g.emit(ind, "%s := make([]*S, 1)", b)
		g.emit(ind, "copy(%s, %s)", b, a)
		g.probeSL(ind, a)
		g.probeSL(ind, b)
		e.SL = append(e.SL, a, b)
		g.emit(ind, "%s := %s[0]", v, b)
		g.count("rt-copy")
	case 25: // go statement publishing through a channel
		if g.o.NoGo {
			g.emit(ind, "%s := %s", v, x)
			break
		}
		c := g.v("ch")
		g.emit(ind, "%s := make(chan *S, 1)", c)
		g.probeC(ind, c)
		e.C = append(e.C, c)
		g.emit(ind, "go pub%d(%d, %s, %s)", g.caseNo, g.newSite(), x, c)
		g.emit(ind, "yield()")
		g.emit(ind, "%s := %s", v, g.pick(e.P))
		g.emit(ind, "if len(%s) > 0 {", c)
		g.emit(ind+1, "%s = <-%s", v, c)
		g.emit(ind, "}")
		g.count("rt-go")
	case 27: // the same pointer at two argument positions of a call through a function value
		fn := g.v("h2")
		g.emit(ind, "%s := pick2a%d", fn, g.caseNo)
		g.emit(ind, "if %s {", g.newCond())
		g.emit(ind+1, "%s = pick2b%d", fn, g.caseNo)
		g.emit(ind, "}")
		g.emit(ind, "%s := %s(%d, %s, %s)", v, fn, g.newSite(), x, x)
		g.count("rt-dup-dyncall")
	case 28: // the same pointer at two argument positions of an interface method call
		kv := g.v("kv")
		g.emit(ind, "var %s K = &E%d{s: %s}", kv, g.caseNo, g.pick(e.P))
		g.emit(ind, "if %s {", g.newCond())
		g.emit(ind+1, "%s = &B%d{s: %s}", kv, g.caseNo, g.pick(e.P))
		g.emit(ind, "}")
		g.emit(ind, "%s := %s.M2(%d, %s, %s)", v, kv, g.newSite(), x, x)
		g.count("rt-dup-invoke")
	case 29: // one value stored as key and as value of a map reached through a parameter
		m := g.v("mk")
		g.emit(ind, "%s := make(map[*S]*S)", m)
		g.probeMK(ind, m)
		e.MK = append(e.MK, m)
		g.emit(ind, "setkk%d(%d, %s, %s)", g.caseNo, g.newSite(), m, x)
		g.emit(ind, "%s := %s[%s]", v, m, x)
		w := g.v("p")
		g.emit(ind, "%s := %s", w, g.pick(e.P))
		g.emit(ind, "for k := range %s {", m)
		g.emit(ind+1, "%s = k", w)
		g.emit(ind, "}")
		g.defP(ind, e, w, true)
		g.count("rt-dup-mapkv")
	case 30: // one value stored into two fields of an object reached through a parameter
		h := g.pick(e.P)
		g.emit(ind, "set2%d(%d, %s, %s)", g.caseNo, g.newSite(), h, x)
		w := g.v("p")
		g.emit(ind, "%s := %s.p", w, h)
		g.defP(ind, e, w, true)
		g.emit(ind, "%s := %s.q", v, h)
		g.count("rt-dup-fields")
	case 31: // two dynamic call sites of one function reaching the same bound-method wrapper
		g.emit(ind, "%s := twice%d(%d, (&E%d{s: %s}).M, %s)", v, g.caseNo, g.newSite(), g.caseNo, x, g.pick(e.P))
		g.count("rt-twice")
	case 32: // a generic function instantiated twice, each instance calling a different function argument
		pp := g.v("pp")
		loc := g.v("loc")
		g.emit(ind, "%s := %s", loc, x)
		g.emit(ind, "%s := gap%d[**S](%d, echopp%d, &%s)", pp, g.caseNo, g.newSite(), g.caseNo, loc)
		g.probePP(ind, pp)
		e.PP = append(e.PP, pp)
		g.emit(ind, "%s := gap%d[*S](%d, echo%d, %s)", v, g.caseNo, g.newSite(), g.caseNo, x)
		g.count("rt-generic-twice")
	case 33: // map keyed by interfaces with pointer-free elements: range key invoked
		iv := g.v("iv")
		g.emit(ind, "var %s I = &E%d{s: %s}", iv, g.caseNo, x)
		e.I = append(e.I, iv)
		ls := g.v("ls")
		g.emit(ind, "%s := map[I]bool{%s: true}", ls, iv)
		g.emit(ind, "%s := rangeI%d(%d, %s, %s)", v, g.caseNo, g.newSite(), ls, g.pick(e.P))
		pk := g.v("pk")
		g.emit(ind, "%s := map[*S]bool{%s: true}", pk, x)
		w := g.v("p")
		g.emit(ind, "%s := rangeP%d(%d, %s, %s)", w, g.caseNo, g.newSite(), pk, g.pick(e.P))
		g.defP(ind, e, w, true)
		g.count("rt-iface-keyed-map")
	case 26: // interface to interface assertion
		iv := g.v("iv")
		g.emit(ind, "var %s I = &A%d{s: %s, t: %s}", iv, g.caseNo, x, x)
		e.I = append(e.I, iv)
		g.emit(ind, "%s := %s", v, g.pick(e.P))
		g.emit(ind, "if j, ok := %s.(J); ok {", iv)
		g.emit(ind+1, "%s = j.N(%d)", v, g.newSite())
		g.emit(ind, "}")
		g.count("rt-assert-iface")
	case 0:
		h := g.pick(e.P)
		f := g.pick([]string{"p", "q"})
		g.emit(ind, "%s.%s = %s", h, f, x)
		g.emit(ind, "%s := %s.%s", v, h, f)
		g.count("rt-field")
	case 1:
		m := g.v("m")
		if len(e.M) > 0 && g.r.Intn(2) == 0 {
			m = g.pick(e.M)
		} else {
			g.emit(ind, "%s := make(map[int]*S)", m)
			g.probeM(ind, m)
			e.M = append(e.M, m)
		}
		g.emit(ind, "%s[7] = %s", m, x)
		g.emit(ind, "%s := %s[7]", v, m)
		g.count("rt-map")
	case 2:
		m := g.v("mk")
		if len(e.MK) > 0 && g.r.Intn(2) == 0 {
			m = g.pick(e.MK)
		} else {
			g.emit(ind, "%s := make(map[*S]*S)", m)
			g.probeMK(ind, m)
			e.MK = append(e.MK, m)
		}
		k := g.pick(e.P)
		g.emit(ind, "%s[%s] = %s", m, k, x)
		g.emit(ind, "%s := %s[%s]", v, m, k)
		g.count("rt-mapk")
	case 3:
		c := g.v("ch")
		g.emit(ind, "%s := make(chan *S, 2)", c)
		g.probeC(ind, c)
		e.C = append(e.C, c)
		g.emit(ind, "%s <- %s", c, x)
		g.emit(ind, "%s := <-%s", v, c)
		g.count("rt-chan")
	case 4:
		sl := g.v("sl")
		if len(e.SL) > 0 && g.r.Intn(2) == 0 {
			sl = g.pick(e.SL)
		} else {
			g.emit(ind, "%s := make([]*S, 1, 2)", sl)
			g.probeSL(ind, sl)
			e.SL = append(e.SL, sl)
		}
		g.emit(ind, "%s[0] = %s", sl, x)
		g.emit(ind, "%s := %s[0]", v, sl)
		g.count("rt-slice")
	case 5:
		h := g.pick(e.P)
		g.emit(ind, "%s.a[1] = %s", h, x)
		g.emit(ind, "%s := %s.a[1]", v, h)
		g.count("rt-array")
	case 6:
		pp := g.v("pp")
		g.emit(ind, "%s := &%s.p", pp, g.pick(e.P))
		g.probePP(ind, pp)
		e.PP = append(e.PP, pp)
		g.emit(ind, "*%s = %s", pp, x)
		g.emit(ind, "%s := *%s", v, pp)
		g.count("rt-pp")
	case 7:
		if g.o.NoAppend || len(e.SL) == 0 {
			g.emit(ind, "%s := %s", v, x)
			break
		}
		sl := g.v("sl")
		g.emit(ind, "%s := append(%s, %s)", sl, g.pick(e.SL), x)
		g.probeSL(ind, sl)
		e.SL = append(e.SL, sl)
		g.emit(ind, "%s := %s[len(%s)-1]", v, sl, sl)
		g.count("rt-append")
	case 8:
		ev := g.v("ev")
		g.emit(ind, "var %s any = %s", ev, x)
		g.emit(ind, "%s, _ := %s.(*S)", v, ev)
		e.E = append(e.E, ev)
		g.count("rt-any")
	case 9:
		h := g.pick(e.P)
		ev := g.v("ev")
		g.emit(ind, "%s.e = %s", h, x)
		g.emit(ind, "%s := %s.e", ev, h)
		g.emit(ind, "%s, _ := %s.(*S)", v, ev)
		g.count("rt-anyfield")
	case 10:
		g.emit(ind, "G%d = %s", g.caseNo, x)
		g.emit(ind, "%s := G%d", v, g.caseNo)
		g.count("rt-global")
	default: // 11
		av := g.v("av")
		g.emit(ind, "%s := &A%d{s: %s}", av, g.caseNo, x)
		e.AV = append(e.AV, av)
		iv := g.v("iv")
		g.emit(ind, "var %s I = %s", iv, av)
		e.I = append(e.I, iv)
		g.emit(ind, "%s := %s", v, x)
		g.emit(ind, "if w, ok := %s.(*A%d); ok {", iv, g.caseNo)
		g.emit(ind+1, "%s = w.s", v)
		g.emit(ind, "}")
		g.count("rt-iface")
	}
	g.defP(ind, e, v, true)
}

// closure emits `v := func(site int, x *S) *S {...}` capturing variables of the enclosing scope.
func (g *pgen) closure(ind int, e *pvars, v string) {
	fid := g.newFid()
	g.emit(ind, "%s := func(site int, x *S) *S {", v)
	g.emit(ind+1, "if enter(%d, site) {", fid)
	g.emit(ind+2, "return x")
	g.emit(ind+1, "}")
	inner := e.clone()
	inner.P = append(inner.P, "x")
	g.depth += 2 // keep closure bodies small and free of go/defer
	n := 1 + g.r.Intn(3)
	for i := 0; i < n; i++ {
		g.stmt(ind+1, inner)
	}
	g.depth -= 2
	g.emit(ind+1, "return %s", g.pick(inner.P))
	g.emit(ind, "}")
}

// body emits a function body with parameters already in scope.
func (g *pgen) body(e *pvars, n int) {
	for i := 0; i < n; i++ {
		g.stmt(1, e)
	}
	g.emit(1, "return %s", g.pick(e.P))
}

func (g *pgen) genCase(c int) {
	g.caseNo = c
	g.callable = nil
	g.emit(0, "// ---- case %d", c)
	g.emit(0, "var G%d *S", c)
	g.emit(0, "type A%d struct {\n\tn int\n\ts *S\n\tt *S\n}", c)
	g.emit(0, "type B%d struct {\n\tn int\n\ts *S\n}", c)
	g.emit(0, "type C%d struct {\n\tn int\n\t*A%d\n}", c, c)
	// generic function (instantiated at *S and at func values)
	g.emit(0, "func gid%d[T any](site int, x T) T {", c)
	g.emit(1, "if enter(%d, site) {", g.newFid())
	g.emit(2, "return x")
	g.emit(1, "}")
	g.emit(1, "var keepT [1]T")
	g.emit(1, "if site >= 0 {")
	g.emit(2, "keepT[0] = x")
	g.emit(1, "}")
	g.emit(1, "return keepT[0]")
	g.emit(0, "}")
	// two-result helper
	g.emit(0, "func swap%d(site int, x, y *S) (*S, *S) {", c)
	g.emit(1, "if enter(%d, site) {", g.newFid())
	g.emit(2, "return x, y")
	g.emit(1, "}")
	g.emit(1, "if %s {", g.newCond())
	g.emit(2, "return x, y")
	g.emit(1, "}")
	g.emit(1, "return y, x")
	g.emit(0, "}")
	// bounded recursion that rotates its arguments
	g.emit(0, "func rec%d(site int, x, y *S, d int) *S {", c)
	g.emit(1, "if enter(%d, site) {", g.newFid())
	g.emit(2, "return x")
	g.emit(1, "}")
	g.emit(1, "if d <= 0 {")
	g.emit(2, "return x")
	g.emit(1, "}")
	g.emit(1, "x.q = y")
	g.emit(1, "return rec%d(%d, y, x, d-1)", c, g.newSite())
	g.emit(0, "}")
	if !g.o.NoStruct {
		g.emit(0, "func mkV%d(site int, x, y *S) V {", c)
		g.emit(1, "if enter(%d, site) {", g.newFid())
		g.emit(2, "return V{}")
		g.emit(1, "}")
		g.emit(1, "return V{a: x, n: %d, b: y}", c)
		g.emit(0, "}")
		g.emit(0, "func useV%d(site int, v V) *S {", c)
		g.emit(1, "if enter(%d, site) {", g.newFid())
		g.emit(2, "return v.a")
		g.emit(1, "}")
		g.emit(1, "if %s && v.a != nil {", g.newCond())
		g.emit(2, "return v.a")
		g.emit(1, "}")
		g.emit(1, "if v.b != nil {")
		g.emit(2, "return v.b")
		g.emit(1, "}")
		g.emit(1, "return v.a")
		g.emit(0, "}")
		g.emit(0, "func idV%d(site int, v V) V {", c)
		g.emit(1, "if enter(%d, site) {", g.newFid())
		g.emit(2, "return v")
		g.emit(1, "}")
		g.emit(1, "w := v")
		g.emit(1, "if %s {", g.newCond())
		g.emit(2, "w.a = v.b")
		g.emit(1, "}")
		g.emit(1, "return w")
		g.emit(0, "}")
	}
	// helpers of the round trips: identity functions, a receiver that returns what it holds, a publisher
	g.emit(0, "func echo%d(site int, x *S) *S {", c)
	g.emit(1, "if enter(%d, site) {", g.newFid())
	g.emit(2, "return x")
	g.emit(1, "}")
	g.emit(1, "if x == nil {")
	g.emit(2, "return G%d", c)
	g.emit(1, "}")
	g.emit(1, "return x")
	g.emit(0, "}")
	g.emit(0, "func echoq%d(site int, x *S) *S {", c)
	g.emit(1, "if enter(%d, site) {", g.newFid())
	g.emit(2, "return x")
	g.emit(1, "}")
	g.emit(1, "if x.q != nil && %s {", g.newCond())
	g.emit(2, "return x.q")
	g.emit(1, "}")
	g.emit(1, "return x")
	g.emit(0, "}")
	g.emit(0, "type E%d struct {\n\tn int\n\ts *S\n}", c)
	g.emit(0, "func (r *E%d) M(site int, x *S) *S {", c)
	g.emit(1, "if enter(%d, site) {", g.newFid())
	g.emit(2, "return x")
	g.emit(1, "}")
	g.emit(1, "if r.s == nil {")
	g.emit(2, "return x")
	g.emit(1, "}")
	g.emit(1, "return r.s")
	g.emit(0, "}")
	for _, nm := range []string{"a", "b"} {
		g.emit(0, "func pick2%s%d(site int, x, y *S) *S {", nm, c)
		g.emit(1, "if enter(%d, site) {", g.newFid())
		g.emit(2, "return x")
		g.emit(1, "}")
		g.probeP(1, "y")
		g.emit(1, "if %s {", g.newCond())
		g.emit(2, "return x")
		g.emit(1, "}")
		g.emit(1, "return y")
		g.emit(0, "}")
	}
	for _, recv := range []string{"E", "B"} {
		g.emit(0, "func (r *%s%d) M2(site int, x, y *S) *S {", recv, c)
		g.emit(1, "if enter(%d, site) {", g.newFid())
		g.emit(2, "return x")
		g.emit(1, "}")
		g.probeP(1, "y")
		g.emit(1, "if %s {", g.newCond())
		g.emit(2, "return x")
		g.emit(1, "}")
		g.emit(1, "return y")
		g.emit(0, "}")
	}
	// maps with pointer-free elements keyed by interfaces / pointers, reached through a parameter
	g.emit(0, "func rangeI%d(site int, ls map[I]bool, x *S) *S {", c)
	g.emit(1, "if enter(%d, site) {", g.newFid())
	g.emit(2, "return x")
	g.emit(1, "}")
	g.emit(1, "v := x")
	g.emit(1, "for k := range ls {")
	g.emit(2, "v = k.M(%d, x)", g.newSite())
	g.emit(1, "}")
	g.emit(1, "return v")
	g.emit(0, "}")
	g.emit(0, "func rangeP%d(site int, pk map[*S]bool, x *S) *S {", c)
	g.emit(1, "if enter(%d, site) {", g.newFid())
	g.emit(2, "return x")
	g.emit(1, "}")
	g.emit(1, "v := x")
	g.emit(1, "for k := range pk {")
	g.emit(2, "v = k")
	g.emit(1, "}")
	g.emit(1, "return v")
	g.emit(0, "}")
	g.emit(0, "func setkk%d(site int, m map[*S]*S, u *S) {", c)
	g.emit(1, "if enter(%d, site) {", g.newFid())
	g.emit(2, "return")
	g.emit(1, "}")
	g.emit(1, "m[u] = u")
	g.emit(0, "}")
	g.emit(0, "func set2%d(site int, h *S, u *S) {", c)
	g.emit(1, "if enter(%d, site) {", g.newFid())
	g.emit(2, "return")
	g.emit(1, "}")
	g.emit(1, "h.p = u")
	g.emit(1, "h.q = u")
	g.emit(0, "}")
	g.emit(0, "func twice%d(site int, f func(int, *S) *S, x *S) *S {", c)
	g.emit(1, "if enter(%d, site) {", g.newFid())
	g.emit(2, "return x")
	g.emit(1, "}")
	g.emit(1, "a := f(%d, x)", g.newSite())
	g.emit(1, "if a == nil {")
	g.emit(2, "a = x")
	g.emit(1, "}")
	g.probeP(1, "a")
	g.emit(1, "b := f(%d, a)", g.newSite())
	g.emit(1, "if b == nil {")
	g.emit(2, "b = a")
	g.emit(1, "}")
	g.emit(1, "return b")
	g.emit(0, "}")
	g.emit(0, "func echopp%d(site int, x **S) **S {", c)
	g.emit(1, "if enter(%d, site) {", g.newFid())
	g.emit(2, "return x")
	g.emit(1, "}")
	g.emit(1, "if x == nil {")
	g.emit(2, "return &G%d", c)
	g.emit(1, "}")
	g.emit(1, "return x")
	g.emit(0, "}")
	g.emit(0, "func gap%d[T any](site int, f func(int, T) T, x T) T {", c)
	g.emit(1, "if enter(%d, site) {", g.newFid())
	g.emit(2, "return x")
	g.emit(1, "}")
	g.emit(1, "var keepT [1]T")
	g.emit(1, "keepT[0] = f(%d, x)", g.newSite())
	g.emit(1, "return keepT[0]")
	g.emit(0, "}")
	g.emit(0, "func pub%d(site int, x *S, c chan *S) {", c)
	g.emit(1, "if enter(%d, site) {", g.newFid())
	g.emit(2, "return")
	g.emit(1, "}")
	g.emit(1, "if len(c) < cap(c) {")
	g.emit(2, "c <- x")
	g.emit(1, "}")
	g.emit(0, "}")
	// panic with a pointer payload, recovered by a deferred closure that publishes it through the named result
	g.emit(0, "func pan%d(site int, x *S) (r *S) {", c)
	g.emit(1, "if enter(%d, site) {", g.newFid())
	g.emit(2, "return x")
	g.emit(1, "}")
	g.emit(1, "defer func() {")
	g.emit(2, "if v := recover(); v != nil {")
	g.emit(3, "if p, ok := v.(*S); ok {")
	g.probeP(4, "p")
	g.emit(4, "r = p")
	g.emit(3, "}")
	g.emit(2, "}")
	g.emit(1, "}()")
	g.emit(1, "if %s {", g.newCond())
	g.emit(2, "panic(x)")
	g.emit(1, "}")
	g.emit(1, "return x")
	g.emit(0, "}")
	// methods
	for _, m := range []struct{ recv, name string }{{"A", "M"}, {"B", "M"}} {
		g.emit(0, "func (r *%s%d) %s(site int, x *S) *S {", m.recv, c, m.name)
		g.emit(1, "if enter(%d, site) {", g.newFid())
		g.emit(2, "return x")
		g.emit(1, "}")
		e := &pvars{P: []string{"x"}}
		g.emit(1, "rs := r.s")
		g.emit(1, "if rs == nil {\n\t\trs = x\n\t}")
		g.probeP(1, "rs")
		e.P = append(e.P, "rs")
		if m.recv == "A" {
			g.emit(1, "r.t = x")
		}
		g.depth = 1
		g.body(e, 2+g.r.Intn(3))
		g.depth = 0
		g.emit(0, "}")
	}
	g.emit(0, "func (r *A%d) N(site int) *S {", c)
	g.emit(1, "if enter(%d, site) {", g.newFid())
	g.emit(2, "return nil")
	g.emit(1, "}")
	g.emit(1, "if r.t != nil {\n\t\treturn r.t\n\t}")
	g.emit(1, "return &S{id: %d}", c)
	g.emit(0, "}")
	// named functions, each may call the previous ones
	for j := 0; j < g.o.Funcs; j++ {
		name := fmt.Sprintf("c%df%d", c, j)
		g.emit(0, "func %s(site int, x *S) *S {", name)
		g.emit(1, "if enter(%d, site) {", g.newFid())
		g.emit(2, "return x")
		g.emit(1, "}")
		e := &pvars{P: []string{"x"}}
		g.body(e, g.o.Stmts/2+g.r.Intn(g.o.Stmts))
		g.emit(0, "}")
		g.callable = append(g.callable, name)
	}
	// the case entry: guarded against run-time panics
	g.emit(0, "func case%d(site int) {", c)
	g.emit(1, "if enter(%d, site) {", g.newFid())
	g.emit(2, "return")
	g.emit(1, "}")
	g.emit(1, "defer guard(%d)", g.newSite())
	g.emit(1, "x := &S{id: %d}", c)
	g.probeP(1, "x")
	e := &pvars{P: []string{"x"}}
	n := g.o.Stmts/2 + g.r.Intn(g.o.Stmts)
	for i := 0; i < n; i++ {
		g.stmt(1, e)
	}
	// every named function and method of the case is called at least once (reachable and executed)
	for _, fn := range g.callable {
		v := g.v("p")
		g.emit(1, "%s := %s(%d, %s)", v, fn, g.newSite(), g.pick(e.P))
		g.defP(1, e, v, true)
	}
	for _, t := range []string{"A", "B"} {
		iv, v := g.v("iv"), g.v("p")
		g.emit(1, "var %s I = &%s%d{s: %s}", iv, t, c, g.pick(e.P))
		g.emit(1, "%s := %s.M(%d, %s)", v, iv, g.newSite(), g.pick(e.P))
		g.defP(1, e, v, true)
	}
	g.emit(0, "}")
}

const ptrPrelude = `package main

// S is the one heap node type: pointers of every kind behind pointer-typed fields.
type S struct {
	id int
	p  *S
	q  *S
	pp **S
	s  []*S
	m  map[int]*S
	c  chan *S
	f  func(int, *S) *S
	i  I
	e  any
	a  [2]*S
	v  V
	w  W
	vs []V
	vm map[int]V
}

// V is copied by value: two pointer leaves around a scalar.
type V struct {
	a *S
	n int
	b *S
}

// W nests a V.
type W struct {
	v V
	z *S
}

// D embeds the interface: (*D).M is a synthetic wrapper that invokes the inner value.
type D struct {
	n int
	I
}

// VV implements I with a value receiver: an interface holding a VV has a struct payload.
type VV struct {
	a *S
	n int
}

func (r VV) M(site int, x *S) *S {
	if enter(-1, site) {
		return x
	}
	if r.a != nil {
		probeP(0, r.a)
		if cond(r.n) {
			return r.a
		}
	}
	return x
}

type I interface{ M(site int, x *S) *S }

// K has a method with two pointer parameters.
type K interface{ M2(site int, x, y *S) *S }

type J interface {
	I
	N(site int) *S
}

var bits int

func cond(n int) bool { return bits&(1<<uint(n)) != 0 }

func guard(site int) {
	if enter(0, site) {
		return
	}
	recover()
}

`

// pkgSrc renders one of the two sibling packages: a type with an UNEXPORTED method m, an interface
// naming that method, and a function that invokes it.  Both packages use the same method name, so the
// two methods differ only by their package.
func pkgSrc(pkg, typ string, fidM, fidDo, site int) string {
	return fmt.Sprintf(`package %[1]s

import "vprog/rt"

type %[2]s struct {
	N int
	P *int
}

func (a *%[2]s) m(site int) *int {
	if rt.Enter(%[3]d, site) {
		return nil
	}
	return a.P
}

type I interface{ m(site int) *int }

func Do(site int, x I) *int {
	if rt.Enter(%[4]d, site) {
		return nil
	}
	return x.m(%[5]d)
}
`, pkg, typ, fidM, fidDo, site)
}

// multiPkgMain: a type embedding the types of both packages, invoked through each package's interface.
const multiPkgMain = `
type T3 struct {
	pa.A
	pb.B
}

func multipkg(site int) {
	if enter(900015, site) {
		return
	}
	v, w := 7, 8
	t := &T3{}
	t.A.P = &v
	t.B.P = &w
	p := pa.Do(900003, t)
	q := pb.Do(900004, t)
	if p != nil && q != nil {
		*p = *q
	}
}
`

const ptrStub = `package main

func enter(fid, site int) bool         { return bits == -12345 }
func probeP(id int, p *S)             {}
func probePP(id int, p **S)           {}
func probeSL(id int, p []*S)          {}
func probeM(id int, p map[int]*S)     {}
func probeMK(id int, p map[*S]*S)     {}
func probeC(id int, p chan *S)        {}
func yield()                          {}
func waitAll()                        {}
func setup()                          {}
func want(c int) bool                 { return bits >= 0 }
`

const ptrNative = `package main

import (
	"bufio"
	"fmt"
	"os"
	"runtime"
	"strconv"
)

var out = bufio.NewWriterSize(os.Stdout, 1<<20)
var keep []any
var from, to = 0, 1 << 30
var calls int

func setup() {
	runtime.GOMAXPROCS(1)
	if len(os.Args) > 1 {
		n, _ := strconv.Atoi(os.Args[1])
		bits = n
	}
	if len(os.Args) > 3 {
		from, _ = strconv.Atoi(os.Args[2])
		to, _ = strconv.Atoi(os.Args[3])
	}
}

func want(c int) bool { calls = 0; return from <= c && c < to }

// enter logs the call event. When a case has made too many calls (unbounded mutual recursion through
// function values) it answers true and every function returns at once until the next case starts.
func enter(fid, site int) bool {
	if calls > 20000 {
		if calls == 20001 {
			fmt.Fprintf(out, "X budget\n")
		}
		calls++
		return true
	}
	fmt.Fprintf(out, "E %d %d\n", fid, site)
	calls++
	return false
}

func probeP(id int, p *S)         { keep = append(keep, p); fmt.Fprintf(out, "P %d %p\n", id, p) }
func probePP(id int, p **S) {
	keep = append(keep, p)
	fmt.Fprintf(out, "P %d %p\n", id, p)
	if p != nil {
		fmt.Fprintf(out, "Q %d %p\n", id, *p) // what the cell holds: ground truth for IndirectQueries
	}
}
func probeSL(id int, p []*S)      { keep = append(keep, p); fmt.Fprintf(out, "P %d %p\n", id, p) }
func probeM(id int, p map[int]*S) { keep = append(keep, p); fmt.Fprintf(out, "P %d %p\n", id, p) }
func probeMK(id int, p map[*S]*S) { keep = append(keep, p); fmt.Fprintf(out, "P %d %p\n", id, p) }
func probeC(id int, p chan *S)    { keep = append(keep, p); fmt.Fprintf(out, "P %d %p\n", id, p) }

func yield() {
	for i := 0; i < 4; i++ {
		runtime.Gosched()
	}
}

func waitAll() {
	for i := 0; i < 100000 && runtime.NumGoroutine() > 1; i++ {
		runtime.Gosched()
	}
	out.Flush()
}
`

// GenPtrProg generates one program.
func GenPtrProg(r *rand.Rand, o PtrOpts) *PtrProg {
	g := &pgen{r: r, o: o, stats: map[string]int{}}
	g.b.WriteString(ptrPrelude)
	for c := 0; c < o.Cases; c++ {
		g.genCase(c)
	}
	g.b.WriteString(multiPkgMain)
	g.emit(0, "func main() {")
	g.emit(1, "setup()")
	g.emit(1, "multipkg(%d)", g.newSite())
	for c := 0; c < o.Cases; c++ {
		g.emit(1, "if want(%d) {", c)
		g.emit(2, "case%d(%d)", c, g.newSite())
		g.emit(1, "}")
	}
	g.emit(1, "waitAll()")
	g.emit(0, "}")
	return &PtrProg{Shared: map[string]string{"pa/pa.go": pkgSrc("pa", "A", 900011, 900013, 900001), "pb/pb.go": pkgSrc("pb", "B", 900012, 900014, 900002)},
		StubFiles:   map[string]string{"rt/rt.go": "package rt\n\nvar Flag bool\n\nfunc Enter(fid, site int) bool { return Flag }\n"},
		NativeFiles: map[string]string{"rt/rt.go": "package rt\n\nimport \"fmt\"\n\nfunc Enter(fid, site int) bool {\n\tfmt.Printf(\"E %d %d\\n\", fid, site)\n\treturn false\n}\n"},
		Main:        strings.Replace(g.b.String(), "package main\n", "package main\n\nimport (\n\t\"vprog/pa\"\n\t\"vprog/pb\"\n)\n", 1), Stub: ptrStub, Native: ptrNative, NCases: o.Cases,
		NFuncs: g.fid, NSites: g.site, NProbes: g.probe, Stats: g.stats}
}
