package gen

// Generator of concurrent taint programs for C13: in every scenario one goroutine obtains source
// data and puts it into a carrier (field, map, slice element, channel, global, captured variable,
// interface box) that another goroutine reads and passes to a sink. Import-free; the ground truth
// is obtained by running the program (sinks print what markers they receive).

import (
	"fmt"
	"math/rand"
	"strings"
)

// Dimensions of a scenario.
var (
	CTDirs       = []string{"g2m", "m2g"} // goroutine writes & main sinks / main writes & goroutine sinks
	CTTransports = []string{"field", "map", "slice", "chan", "global", "captured", "box", "nested", "copy", "append", "selectsend"}
	CTShares     = []string{"goarg", "closure", "global", "chanptr", "holder", "spawn", "spawniface"}
	CTVias       = []string{"direct", "callee", "method", "deferred", "inline", "srchelper", "ifacecall"}
)

// TScenario is one generated case.
type TScenario struct {
	ID        int
	Dir       string
	Transport string
	Share     string
	Via       string // how the writing side performs the store
	Sync      bool   // reader waits for the writer (deterministic flow) or not (schedule dependent)
	SrcLine   int
	SinkLine  int
}

// Key is the shape of the scenario.
func (s TScenario) Key() string {
	return fmt.Sprintf("dir=%s,transport=%s,share=%s,via=%s,sync=%v", s.Dir, s.Transport, s.Share, s.Via, s.Sync)
}

const ctPrelude = `package main

type C struct {
	str  string
	ms   map[string]string
	ss   []string
	ch   chan string
	box  interface{}
	next *C
	bs   []byte
}

type Holder struct{ c *C }

type CRunner interface{ Run() }

var spinSink int
`

const ctNewC = "&C{ms: map[string]string{}, ss: make([]string, 2, 4), ch: make(chan string, 1), next: &C{}, bs: make([]byte, 8)}"

// put / get statements for a transport on carrier expression c (a *C), value expression v
func ctPut(tr, c, v string, n int) string {
	switch tr {
	case "field":
		return fmt.Sprintf("%s.str = %s", c, v)
	case "map":
		return fmt.Sprintf("%s.ms[\"k\"] = %s", c, v)
	case "slice":
		return fmt.Sprintf("%s.ss[0] = %s", c, v)
	case "chan":
		return fmt.Sprintf("%s.ch <- %s", c, v)
	case "selectsend":
		return fmt.Sprintf("select {\n\tcase %s.ch <- %s:\n\tdefault:\n\t}", c, v)
	case "global":
		return fmt.Sprintf("gs%d = %s", n, v)
	case "captured":
		return fmt.Sprintf("*cap%d = %s", n, v)
	case "box":
		return fmt.Sprintf("%s.box = %s", c, v)
	case "nested":
		return fmt.Sprintf("%s.next.str = %s", c, v)
	case "copy":
		return fmt.Sprintf("copy(%s.bs, %s)", c, v)
	case "append":
		return fmt.Sprintf("%s.ss = append(%s.ss[:1], %s)", c, c, v)
	}
	panic(tr)
}

// ctGet returns statements that leave the transported value in the local variable x
func ctGet(tr, c string, n int) string {
	switch tr {
	case "field":
		return "x := " + c + ".str"
	case "map":
		return "x := " + c + ".ms[\"k\"]"
	case "slice":
		return "x := " + c + ".ss[0]"
	case "chan", "selectsend":
		return "x := \"\"\n\tselect {\n\tcase v := <-" + c + ".ch:\n\t\tx = v\n\tdefault:\n\t}"
	case "global":
		return fmt.Sprintf("x := gs%d", n)
	case "captured":
		return fmt.Sprintf("x := *cap%d", n)
	case "box":
		return "x, _ := " + c + ".box.(string)"
	case "nested":
		return "x := " + c + ".next.str"
	case "copy":
		return "x := string(" + c + ".bs)"
	case "append":
		return "x := \"\"\n\tif len(" + c + ".ss) > 1 {\n\t\tx = " + c + ".ss[1]\n\t}"
	}
	panic(tr)
}

// RenderConcTaint renders the scenarios into one program (fills SrcLine / SinkLine).
func RenderConcTaint(scs []*TScenario) string {
	var b strings.Builder
	b.WriteString(ctPrelude)
	line := strings.Count(b.String(), "\n") + 1
	w := func(format string, args ...any) {
		s := fmt.Sprintf(format, args...)
		b.WriteString(s)
		line += strings.Count(s, "\n")
	}
	for _, sc := range scs {
		n := sc.ID
		w("\n// scenario %d: %s\n", n, sc.Key())
		w("func source_%d() string { return \"@S%d@\" }\n", n, n)
		w("func sink_%d(x string) {\n\tconst m = \"@S%d@\"\n\tfor i := 0; i+len(m) <= len(x); i++ {\n\t\tif x[i:i+len(m)] == m {\n\t\t\tprintln(\"OBS\", %d, %d)\n\t\t\treturn\n\t\t}\n\t}\n}\n", n, n, n, n)
		if sc.Transport == "global" {
			w("var gs%d string\n", n)
		}
		if sc.Transport == "captured" {
			w("var cap%d *string\n", n) // the captured cell is reached through a package-level pointer set by the scenario
		}
		if sc.Share == "global" {
			w("var gc%d *C\n", n)
		}
		// writing side: a function `put<n>(c *C)`, possibly through a helper
		if sc.Via == "srchelper" {
			w("func getsrc_%d() string {\n\treturn source_%d()\n", n, n)
			sc.SrcLine = line - 1
			w("}\n")
		}
		if sc.Via == "ifacecall" {
			w("type WI%d interface{ Store(c *C, v string) }\ntype wi%d struct{}\nfunc (x *wi%d) Store(c *C, v string) {\n\t%s\n}\n", n, n, n, ctPut(sc.Transport, "c", "v", n))
		}
		putStmt := func(indent string) {
			if sc.Via == "ifacecall" {
				w("%sv := source_%d()\n", indent, n)
				sc.SrcLine = line - 1
				w("%svar wv WI%d = &wi%d{}\n%swv.Store(c, v)\n", indent, n, n, indent)
				return
			}
			if sc.Via == "srchelper" {
				w("%sv := getsrc_%d()\n", indent, n)
			} else {
				w("%sv := source_%d()\n", indent, n)
				sc.SrcLine = line - 1
			}
			w("%s%s\n", indent, ctPut(sc.Transport, "c", "v", n))
		}
		switch sc.Via {
		case "inline", "srchelper", "ifacecall":
			// the creating goroutine's side is written directly into the scenario function (below)
			if sc.Dir == "g2m" {
				w("func put%d(c *C) {\n", n)
				putStmt("\t")
				w("}\n")
			}
		case "direct":
			w("func put%d(c *C) {\n", n)
			putStmt("\t")
			w("}\n")
		case "callee":
			w("func store%d(c *C, v string) {\n\t%s\n}\n", n, ctPut(sc.Transport, "c", "v", n))
			w("func put%d(c *C) {\n\tv := source_%d()\n", n, n)
			sc.SrcLine = line - 1
			w("\tstore%d(c, v)\n}\n", n)
		case "method":
			w("type W%d struct{ c *C }\nfunc (r W%d) store(v string) {\n\tc := r.c\n\t_ = c\n\t%s\n}\n", n, n, ctPut(sc.Transport, "c", "v", n))
			w("func put%d(c *C) {\n\tv := source_%d()\n", n, n)
			sc.SrcLine = line - 1
			w("\tW%d{c}.store(v)\n}\n", n)
		case "deferred":
			w("func put%d(c *C) {\n\tv := source_%d()\n", n, n)
			sc.SrcLine = line - 1
			w("\tdefer func() {\n\t\t%s\n\t}()\n}\n", ctPut(sc.Transport, "c", "v", n))
		}
		// reading side
		inl := sc.Via == "inline" || sc.Via == "srchelper" || sc.Via == "ifacecall"
		if !(inl && sc.Dir == "g2m") {
			w("func get%d(c *C) {\n\t%s\n\tsink_%d(x)\n", n, ctGet(sc.Transport, "c", n), n)
			sc.SinkLine = line - 1
			w("}\n")
		}
		// the other goroutine gets the carrier through the sharing mechanism
		other := "put"
		mine := "get"
		if sc.Dir == "m2g" {
			other, mine = "get", "put"
		}
		obtain, params := "", ""
		switch sc.Share {
		case "goarg":
			params = "c *C, done chan bool"
		case "closure":
		case "global":
			params, obtain = "done chan bool", fmt.Sprintf("c := gc%d", n)
		case "chanptr":
			params, obtain = "pc chan *C, done chan bool", "c := <-pc"
		case "holder":
			params, obtain = "h *Holder, done chan bool", "c := h.c"
		}
		wait := ""
		if sc.Dir == "m2g" && sc.Sync {
			// the goroutine must read after main wrote: main signals through `ready`
			params = strings.Replace(params, "done chan bool", "ready, done chan bool", 1)
			wait = "<-ready"
		}
		if sc.Share == "spawn" {
			w("func spawn%d(f func()) {\n\tgo f()\n}\n", n)
		}
		if sc.Share == "spawniface" {
			w("type RN%d struct {\n\tc     *C\n\tready chan bool\n\tdone  chan bool\n}\nfunc (r *RN%d) Run() {\n", n, n)
			if wait != "" {
				w("\t<-r.ready\n")
			}
			w("\t%s%d(r.c)\n\tr.done <- true\n}\nfunc start%d(r CRunner) {\n\tgo r.Run()\n}\n", other, n, n)
		}
		if sc.Share != "closure" && sc.Share != "spawn" && sc.Share != "spawniface" {
			w("func other%d(%s) {\n", n, params)
			if obtain != "" {
				w("\t%s\n", obtain)
			}
			if wait != "" {
				w("\t%s\n", wait)
			}
			w("\t%s%d(c)\n\tdone <- true\n}\n", other, n)
		}
		w("func scen%d() {\n\tc := %s\n\tdone := make(chan bool)\n", n, ctNewC)
		if sc.Transport == "captured" {
			w("\tvar cell string\n\tcap%d = &cell\n", n)
		}
		readyArg := ""
		if wait != "" {
			w("\tready := make(chan bool)\n")
			readyArg = "ready, "
		}
		switch sc.Share {
		case "goarg":
			w("\tgo other%d(c, %sdone)\n", n, readyArg)
		case "closure":
			w("\tgo func() {\n")
			if wait != "" {
				w("\t\t<-ready\n")
			}
			w("\t\t%s%d(c)\n\t\tdone <- true\n\t}()\n", other, n)
		case "spawn":
			w("\tspawn%d(func() {\n", n)
			if wait != "" {
				w("\t\t<-ready\n")
			}
			w("\t\t%s%d(c)\n\t\tdone <- true\n\t})\n", other, n)
		case "spawniface":
			if wait != "" {
				w("\tstart%d(&RN%d{c, ready, done})\n", n, n)
			} else {
				w("\tstart%d(&RN%d{c, nil, done})\n", n, n)
			}
		case "global":
			w("\tgc%d = c\n\tgo other%d(%sdone)\n", n, n, readyArg)
		case "chanptr":
			w("\tpc := make(chan *C, 1)\n\tpc <- c\n\tgo other%d(pc, %sdone)\n", n, readyArg)
		case "holder":
			w("\th := &Holder{}\n\th.c = c\n\tgo other%d(h, %sdone)\n", n, readyArg)
		}
		mineInline := func() {
			if sc.Dir == "m2g" {
				putStmt("\t")
			} else {
				w("\t%s\n\tsink_%d(x)\n", ctGet(sc.Transport, "c", n), n)
				sc.SinkLine = line - 1
			}
		}
		if inl {
			if sc.Dir == "g2m" {
				if sc.Sync {
					w("\t<-done\n")
					mineInline()
				} else {
					w("\tfor i := 0; i < 20000; i++ {\n\t\tspinSink += i\n\t}\n")
					mineInline()
					w("\t<-done\n")
				}
			} else {
				mineInline()
				if wait != "" {
					w("\tready <- true\n")
				}
				w("\t<-done\n")
			}
		} else if sc.Dir == "g2m" {
			if sc.Sync {
				w("\t<-done\n\t%s%d(c)\n", mine, n)
			} else {
				w("\tfor i := 0; i < 20000; i++ {\n\t\tspinSink += i\n\t}\n\t%s%d(c)\n\t<-done\n", mine, n)
			}
		} else {
			w("\t%s%d(c)\n", mine, n)
			if wait != "" {
				w("\tready <- true\n")
			}
			w("\t<-done\n")
		}
		w("}\n")
	}
	w("\nfunc main() {\n")
	for _, sc := range scs {
		w("\tscen%d()\n", sc.ID)
	}
	w("}\n")
	return b.String()
}

// RandTScenarios draws n scenarios.
func RandTScenarios(r *rand.Rand, n int) []*TScenario {
	var out []*TScenario
	for len(out) < n {
		sc := &TScenario{ID: len(out), Dir: CTDirs[r.Intn(2)], Transport: CTTransports[r.Intn(len(CTTransports))],
			Share: CTShares[r.Intn(len(CTShares))], Via: CTVias[r.Intn(len(CTVias))], Sync: r.Intn(4) != 0}
		out = append(out, sc)
	}
	return out
}
