package gen

// Generator of small concurrent Go programs for C14 (and C13): every scenario creates an object,
// shares it with a new goroutine through one sharing mechanism, lets the goroutine write it, and
// performs one access on it in the creating goroutine (directly or through a helper). The access is
// alone on its line, so a race report on that line identifies it. Import-free.

import (
	"fmt"
	"math/rand"
	"strings"
)

// Sharing mechanisms.
var ConcShares = []string{"goarg", "closure", "global", "chan", "field", "iface", "map", "slice", "publish", "funcval", "none"}

// Access forms (the instruction under test).
var ConcAccesses = []string{"store", "load", "mapupdate", "lookup", "delete", "maplen", "elemstore", "elemload",
	"append", "copy", "rangemap", "structstore", "structload", "chain", "clear", "commaok", "tostring", "cap", "slicelen"}

// Helper indirections.
var ConcVias = []string{"direct", "callee", "closure", "method", "iface", "deferred", "nested"}

// Scenario is one generated case.
type Scenario struct {
	ID     int
	Share  string
	Access string
	Via    string
	Root   string // "call": main calls the scenario function; "go": main launches it as a goroutine and waits
	Line   int // line of the access under test (filled by RenderConc)
	WLine  int // line of the goroutine's conflicting write
}

// Key identifies the shape (not the id) of a scenario.
func (s Scenario) Key() string {
	root := s.Root
	if root == "" {
		root = "call"
	}
	return fmt.Sprintf("share=%s,access=%s,via=%s,root=%s", s.Share, s.Access, s.Via, root)
}

// ConcPrelude declares the shared types.
const ConcPrelude = `package main

type T struct {
	x    int
	next *T
	m    map[int]int
	s    []int
	b    []byte
}

type H struct{ t *T }

type I interface{ Get() *T }

func (t *T) Get() *T { return t }

type A interface{ Do(k int) }

var sinkI int
var sinkS string

//go:noinline
func use(v int, vs string, vb bool) {
	if vb {
		sinkI += v + len(vs)
	}
}

func newT() *T {
	return &T{next: &T{}, m: map[int]int{1: 1, 2: 2}, s: make([]int, 4, 8), b: make([]byte, 4)}
}
`

// accessStmt returns the access statement on object expression `p` (a *T) and the conflicting
// write on alias `q`.
func accessStmt(a string, p, q string) (pre []string, access string, write string) {
	switch a {
	case "store":
		return nil, p + ".x = 1", q + ".x = 2"
	case "load":
		return nil, "v = " + p + ".x", q + ".x = 2"
	case "mapupdate":
		return []string{"pm := " + p + ".m"}, "pm[1] = 7", q + ".m[2] = 2"
	case "lookup":
		return []string{"pm := " + p + ".m"}, "v = pm[1]", q + ".m[2] = 2"
	case "commaok":
		return []string{"pm := " + p + ".m"}, "_, vb = pm[1]", q + ".m[2] = 2"
	case "delete":
		return []string{"pm := " + p + ".m"}, "delete(pm, 1)", q + ".m[2] = 2"
	case "clear":
		return []string{"pm := " + p + ".m"}, "clear(pm)", q + ".m[2] = 2"
	case "maplen":
		return []string{"pm := " + p + ".m"}, "v = len(pm)", q + ".m[3] = 2"
	case "elemstore":
		return []string{"ps := " + p + ".s"}, "ps[0] = 1", q + ".s[0] = 2"
	case "elemload":
		return []string{"ps := " + p + ".s"}, "v = ps[0]", q + ".s[0] = 2"
	case "append":
		return []string{"ps := " + p + ".s"}, "ps = append(ps[:1], 5); _ = ps", q + ".s[1] = 2"
	case "copy":
		return []string{"ps := " + p + ".s", "src := []int{9, 9}"}, "copy(ps, src)", q + ".s[0] = 2"
	case "rangemap":
		return []string{"pm := " + p + ".m"}, "for k := range pm { v += k }", q + ".m[2] = 3"
	case "structstore":
		return nil, "*" + p + " = T{}", q + ".x = 2"
	case "structload":
		return nil, "cp := *" + p + "; v = cp.x", q + ".x = 2"
	case "tostring":
		return []string{"pb := " + p + ".b"}, "vs = string(pb)", q + ".b[0] = 2"
	case "cap":
		return []string{"ps := " + p + ".s"}, "v = cap(ps)", q + ".s[0] = 2"
	case "slicelen":
		return []string{"ps := " + p + ".s"}, "v = len(ps)", q + ".s[0] = 2"
	case "chain":
		return []string{"pn := " + p + ".next"}, "pn.x = 1", q + ".next.x = 2"
	}
	panic("unknown access " + a)
}

// RenderConc renders the scenarios into one program; fills Line/WLine.
func RenderConc(scs []*Scenario) string {
	var b strings.Builder
	b.WriteString(ConcPrelude)
	line := strings.Count(ConcPrelude, "\n") + 1
	w := func(format string, args ...any) {
		s := fmt.Sprintf(format, args...)
		b.WriteString(s)
		line += strings.Count(s, "\n")
	}
	for _, sc := range scs {
		n := sc.ID
		pre, acc, wr := accessStmt(sc.Access, "p", "q")
		w("\n// scenario %d: %s\n", n, sc.Key())
		// the goroutine side: obtains q, writes, signals
		obtain := ""
		params := ""
		switch sc.Share {
		case "goarg":
			params, obtain = "q *T, done chan bool", ""
		case "closure":
		case "global", "publish":
			w("var g%d *T\n", n)
			params, obtain = "done chan bool", fmt.Sprintf("q := g%d", n)
		case "chan":
			params, obtain = "ch chan *T, done chan bool", "q := <-ch"
		case "field":
			params, obtain = "h *H, done chan bool", "q := h.t"
		case "iface":
			params, obtain = "i I, done chan bool", "q := i.Get()"
		case "map":
			params, obtain = "mm map[int]*T, done chan bool", "q := mm[0]"
		case "slice":
			params, obtain = "ss []*T, done chan bool", "q := ss[0]"
		case "funcval":
			params, obtain = "f func() *T, done chan bool", "q := f()"
		case "none":
			params, obtain = "done chan bool", "q := newT()"
		}
		if sc.Share == "publish" {
			w("func publish%d(p *T) {\n\tg%d = p\n}\n", n, n)
		}
		if sc.Share != "closure" {
			w("func writer%d(%s) {\n", n, params)
			if obtain != "" {
				w("\t%s\n", obtain)
			}
			sc.WLine = line
			w("\t%s\n\tdone <- true\n}\n", wr)
		}
		// helper for the access
		body := func(indent string) {
			w("%svar v int\n%svar vs string\n%svar vb bool\n", indent, indent, indent)
			for _, p := range pre {
				w("%s%s\n", indent, p)
			}
			sc.Line = line
			w("%s%s // ACCESS %d\n", indent, acc, n)
			w("%suse(v, vs, vb)\n", indent)
		}
		switch sc.Via {
		case "callee":
			w("func acc%d(p *T) {\n", n)
			body("\t")
			w("}\n")
		case "nested":
			w("func acc%d(p *T) {\n", n)
			body("\t")
			w("}\nfunc outer%d(p *T) {\n\tacc%d(p)\n}\n", n, n)
		case "method":
			w("type M%d struct{ t *T }\nfunc (r M%d) do() {\n\tp := r.t\n", n, n)
			body("\t")
			w("}\n")
		case "iface":
			w("type D%d struct{ t *T }\nfunc (r *D%d) Do(k int) {\n\tp := r.t\n", n, n)
			body("\t")
			w("}\n")
		}
		if sc.Root == "go" {
			w("func scen%d(fin chan bool) {\n\tdefer func() { fin <- true }()\n\tp := newT()\n\tdone := make(chan bool)\n", n)
		} else {
			w("func scen%d() {\n\tp := newT()\n\tdone := make(chan bool)\n", n)
		}
		switch sc.Share {
		case "goarg":
			w("\tgo writer%d(p, done)\n", n)
		case "closure":
			w("\tgo func() {\n")
			sc.WLine = line
			w("\t\t%s\n\t\tdone <- true\n\t}()\n", strings.ReplaceAll(wr, "q", "p"))
		case "global":
			w("\tg%d = p\n\tgo writer%d(done)\n", n, n)
		case "publish":
			w("\tpublish%d(p)\n\tgo writer%d(done)\n", n, n)
		case "chan":
			w("\tch := make(chan *T, 1)\n\tch <- p\n\tgo writer%d(ch, done)\n", n)
		case "field":
			w("\th := &H{}\n\th.t = p\n\tgo writer%d(h, done)\n", n)
		case "iface":
			w("\tvar i I = p\n\tgo writer%d(i, done)\n", n)
		case "map":
			w("\tmm := map[int]*T{0: p}\n\tgo writer%d(mm, done)\n", n)
		case "slice":
			w("\tss := []*T{p}\n\tgo writer%d(ss, done)\n", n)
		case "funcval":
			w("\tf := func() *T { return p }\n\tgo writer%d(f, done)\n", n)
		case "none":
			w("\tgo writer%d(done)\n", n)
		}
		switch sc.Via {
		case "direct":
			body("\t")
		case "callee":
			w("\tacc%d(p)\n", n)
		case "nested":
			w("\touter%d(p)\n", n)
		case "closure":
			w("\tfunc() {\n")
			body("\t\t")
			w("\t}()\n")
		case "deferred":
			w("\tfunc() {\n\t\tdefer func() {\n")
			body("\t\t\t")
			w("\t\t}()\n\t}()\n")
		case "method":
			w("\tM%d{p}.do()\n", n)
		case "iface":
			w("\tvar a A = &D%d{p}\n\ta.Do(0)\n", n)
		}
		w("\t<-done\n}\n")
	}
	w("\nfunc main() {\n\tfin := make(chan bool)\n\t_ = fin\n")
	for _, sc := range scs {
		if sc.Root == "go" {
			w("\tgo scen%d(fin)\n\t<-fin\n", sc.ID)
		} else {
			w("\tscen%d()\n", sc.ID)
		}
	}
	w("}\n")
	return b.String()
}

// RandScenarios draws n scenarios; avoid(key) filters shapes the caller does not want.
func RandScenarios(r *rand.Rand, n int, avoid func(*Scenario) bool) []*Scenario {
	var out []*Scenario
	for len(out) < n {
		sc := &Scenario{ID: len(out), Share: ConcShares[r.Intn(len(ConcShares))],
			Access: ConcAccesses[r.Intn(len(ConcAccesses))], Via: ConcVias[r.Intn(len(ConcVias))], Root: []string{"call", "go"}[r.Intn(2)]}
		if avoid != nil && avoid(sc) {
			continue
		}
		out = append(out, sc)
	}
	return out
}
