package gen

// Generator of small concurrent Go programs for C14 (and C13): every scenario creates an object,
// shares it with a new goroutine through one sharing mechanism, lets the goroutine write it, and
// performs one access on it in the creating goroutine (directly or through a helper). The access is
// alone on its line, so a race report on that line identifies it. Import-free.

import (
	"fmt"
	"math/rand"
	"strings"
)

// Sharing mechanisms.
var ConcShares = []string{"goarg", "closure", "global", "chan", "field", "iface", "map", "slice", "publish", "funcval", "none", "structarg", "spawn", "spawniface", "ring"}

// Access forms (the instruction under test).
var ConcAccesses = []string{"store", "load", "mapupdate", "lookup", "delete", "maplen", "elemstore", "elemload",
	"append", "copy", "rangemap", "structstore", "structload", "chain", "clear", "commaok", "tostring", "cap", "slicelen", "namedptrload"}

// Helper indirections.
var ConcVias = []string{"direct", "callee", "closure", "method", "iface", "deferred", "nested", "closurevar", "closurefield", "ifaceparam", "twoholders", "gorunhelper"}

// Scenario is one generated case.
type Scenario struct {
	ID     int
	Share  string
	Access string
	Via    string
	Root   string // "call": main calls the scenario function; "go": main launches it as a goroutine and waits; "loop": like call, but access and sharing are in a loop, the sharing after the access
	Line   int // line of the access under test (filled by RenderConc)
	WLine  int // line of the goroutine's conflicting write
}

// Key identifies the shape (not the id) of a scenario.
func (s Scenario) Key() string {
	root := s.Root
	if root == "" {
		root = "call"
	}
	return fmt.Sprintf("share=%s,access=%s,via=%s,root=%s", s.Share, s.Access, s.Via, root)
}

// ConcPrelude declares the shared types.
const ConcPrelude = `package main

type T struct {
	x    int
	next *T
	m    map[int]int
	s    []int
	b    []byte
}

type H struct{ t *T }

type S struct{ t *T }

type PI *int

type FH struct{ f func() }

type Runner interface{ Run() }

type AP interface{ DoP(p *T) }

type I interface{ Get() *T }

func (t *T) Get() *T { return t }

type A interface{ Do(k int) }

var sinkI int
var sinkS string

//go:noinline
func use(v int, vs string, vb bool) {
	if vb {
		sinkI += v + len(vs)
	}
}

func newT() *T {
	return &T{next: &T{}, m: map[int]int{1: 1, 2: 2}, s: make([]int, 4, 8), b: make([]byte, 4)}
}
`

// accessStmt returns the access statement on object expression `p` (a *T) and the conflicting
// write on alias `q`.
func accessStmt(a string, p, q string) (pre []string, access string, write string) {
	switch a {
	case "store":
		return nil, p + ".x = 1", q + ".x = 2"
	case "load":
		return nil, "v = " + p + ".x", q + ".x = 2"
	case "mapupdate":
		return []string{"pm := " + p + ".m"}, "pm[1] = 7", q + ".m[2] = 2"
	case "lookup":
		return []string{"pm := " + p + ".m"}, "v = pm[1]", q + ".m[2] = 2"
	case "commaok":
		return []string{"pm := " + p + ".m"}, "_, vb = pm[1]", q + ".m[2] = 2"
	case "delete":
		return []string{"pm := " + p + ".m"}, "delete(pm, 1)", q + ".m[2] = 2"
	case "clear":
		return []string{"pm := " + p + ".m"}, "clear(pm)", q + ".m[2] = 2"
	case "maplen":
		return []string{"pm := " + p + ".m"}, "v = len(pm)", q + ".m[3] = 2"
	case "elemstore":
		return []string{"ps := " + p + ".s"}, "ps[0] = 1", q + ".s[0] = 2"
	case "elemload":
		return []string{"ps := " + p + ".s"}, "v = ps[0]", q + ".s[0] = 2"
	case "append":
		return []string{"ps := " + p + ".s"}, "ps = append(ps[:1], 5); _ = ps", q + ".s[1] = 2"
	case "copy":
		return []string{"ps := " + p + ".s", "src := []int{9, 9}"}, "copy(ps, src)", q + ".s[0] = 2"
	case "rangemap":
		return []string{"pm := " + p + ".m"}, "for k := range pm { v += k }", q + ".m[2] = 3"
	case "structstore":
		return nil, "*" + p + " = T{}", q + ".x = 2"
	case "structload":
		return nil, "cp := *" + p + "; v = cp.x", q + ".x = 2"
	case "tostring":
		return []string{"pb := " + p + ".b"}, "vs = string(pb)", q + ".b[0] = 2"
	case "cap":
		return []string{"ps := " + p + ".s"}, "v = cap(ps)", q + ".s[0] = 2"
	case "slicelen":
		return []string{"ps := " + p + ".s"}, "v = len(ps)", q + ".s[0] = 2"
	case "namedptrload":
		return []string{"var q0 PI = PI(&" + p + ".x)"}, "v = *q0", q + ".x = 2"
	case "chain":
		return []string{"pn := " + p + ".next"}, "pn.x = 1", q + ".next.x = 2"
	}
	panic("unknown access " + a)
}

// RenderConc renders the scenarios into one program; fills Line/WLine.
func RenderConc(scs []*Scenario) string {
	var b strings.Builder
	b.WriteString(ConcPrelude)
	line := strings.Count(ConcPrelude, "\n") + 1
	w := func(format string, args ...any) {
		s := fmt.Sprintf(format, args...)
		b.WriteString(s)
		line += strings.Count(s, "\n")
	}
	for _, sc := range scs {
		n := sc.ID
		pre, acc, wr := accessStmt(sc.Access, "p", "q")
		w("\n// scenario %d: %s\n", n, sc.Key())
		// the goroutine side: obtains q, writes, signals
		obtain := ""
		params := ""
		switch sc.Share {
		case "goarg":
			params, obtain = "q *T, done chan bool", ""
		case "closure":
		case "global", "publish":
			w("var g%d *T\n", n)
			params, obtain = "done chan bool", fmt.Sprintf("q := g%d", n)
		case "chan":
			params, obtain = "ch chan *T, done chan bool", "q := <-ch"
		case "field":
			params, obtain = "h *H, done chan bool", "q := h.t"
		case "iface":
			params, obtain = "i I, done chan bool", "q := i.Get()"
		case "map":
			params, obtain = "mm map[int]*T, done chan bool", "q := mm[0]"
		case "slice":
			params, obtain = "ss []*T, done chan bool", "q := ss[0]"
		case "funcval":
			params, obtain = "f func() *T, done chan bool", "q := f()"
		case "none":
			params, obtain = "done chan bool", "q := newT()"
		case "structarg":
			params, obtain = "s S, done chan bool", "q := s.t"
		case "ring":
			params, obtain = "q0 *T, done chan bool", "q := q0.next"
		case "spawn":
			w("func spawn%d(f func()) {\n\tgo f()\n}\n", n)
		case "spawniface":
			w("type R%d struct {\n\tt    *T\n\tdone chan bool\n}\nfunc spawnI%d(r Runner) {\n\tgo r.Run()\n}\n", n, n)
		}
		if sc.Share == "publish" {
			w("func publish%d(p *T) {\n\tg%d = p\n}\n", n, n)
		}
		if sc.Share == "spawniface" {
			w("func (r *R%d) Run() {\n\tq := r.t\n", n)
			sc.WLine = line
			w("\t%s\n\tr.done <- true\n}\n", wr)
		} else if sc.Share != "closure" && sc.Share != "spawn" {
			w("func writer%d(%s) {\n", n, params)
			if obtain != "" {
				w("\t%s\n", obtain)
			}
			sc.WLine = line
			w("\t%s\n\tdone <- true\n}\n", wr)
		}
		// helper for the access
		body := func(indent string) {
			w("%svar v int\n%svar vs string\n%svar vb bool\n", indent, indent, indent)
			for _, p := range pre {
				w("%s%s\n", indent, p)
			}
			sc.Line = line
			w("%s%s // ACCESS %d\n", indent, acc, n)
			w("%suse(v, vs, vb)\n", indent)
		}
		switch sc.Via {
		case "callee":
			w("func acc%d(p *T) {\n", n)
			body("\t")
			w("}\n")
		case "nested":
			w("func acc%d(p *T) {\n", n)
			body("\t")
			w("}\nfunc outer%d(p *T) {\n\tacc%d(p)\n}\n", n, n)
		case "method":
			w("type M%d struct{ t *T }\nfunc (r M%d) do() {\n\tp := r.t\n", n, n)
			body("\t")
			w("}\n")
		case "iface":
			w("type D%d struct{ t *T }\nfunc (r *D%d) Do(k int) {\n\tp := r.t\n", n, n)
			body("\t")
			w("}\n")
		case "ifaceparam":
			w("type DP%d struct{}\nfunc (d *DP%d) DoP(p *T) {\n", n, n)
			body("\t")
			w("}\n")
		case "twoholders":
			w("func accTwo%d(h1, h2 *H) {\n\tp := h2.t\n\t_ = h1\n", n)
			body("\t")
			w("}\n")
		case "gorunhelper":
			// the access runs in a second goroutine, inside a closure that reaches it as a parameter
			w("func run%d(f func(), fin2 chan bool) {\n\tf()\n\tfin2 <- true\n}\n", n)
		}
		if sc.Root == "go" {
			w("func scen%d(fin chan bool) {\n\tdefer func() { fin <- true }()\n\tp := newT()\n\tdone := make(chan bool)\n", n)
		} else {
			w("func scen%d() {\n\tp := newT()\n\tdone := make(chan bool)\n", n)
		}
		ind := "\t"
		share := func() {
			switch sc.Share {
			case "goarg":
				w("%sgo writer%d(p, done)\n", ind, n)
			case "closure":
				w("%sgo func() {\n", ind)
				sc.WLine = line
				w("%s\t%s\n%s\tdone <- true\n%s}()\n", ind, strings.ReplaceAll(wr, "q", "p"), ind, ind)
			case "global":
				w("%sg%d = p\n%sgo writer%d(done)\n", ind, n, ind, n)
			case "publish":
				w("%spublish%d(p)\n%sgo writer%d(done)\n", ind, n, ind, n)
			case "chan":
				w("%sch := make(chan *T, 1)\n%sch <- p\n%sgo writer%d(ch, done)\n", ind, ind, ind, n)
			case "field":
				w("%sh := &H{}\n%sh.t = p\n%sgo writer%d(h, done)\n", ind, ind, ind, n)
			case "iface":
				w("%svar i I = p\n%sgo writer%d(i, done)\n", ind, ind, n)
			case "map":
				w("%smm := map[int]*T{0: p}\n%sgo writer%d(mm, done)\n", ind, ind, n)
			case "slice":
				w("%sss := []*T{p}\n%sgo writer%d(ss, done)\n", ind, ind, n)
			case "funcval":
				w("%sf := func() *T { return p }\n%sgo writer%d(f, done)\n", ind, ind, n)
			case "none":
				w("%sgo writer%d(done)\n", ind, n)
			case "structarg":
				w("%sgo writer%d(S{p}, done)\n", ind, n)
			case "ring":
				w("%sp.next = p\n%sgo writer%d(p, done)\n", ind, ind, n)
			case "spawn":
				w("%sspawn%d(func() {\n", ind, n)
				sc.WLine = line
				w("%s\t%s\n%s\tdone <- true\n%s})\n", ind, strings.ReplaceAll(wr, "q", "p"), ind, ind)
			case "spawniface":
				w("%sspawnI%d(&R%d{p, done})\n", ind, n, n)
			}
		}
		access := func() {
			switch sc.Via {
			case "direct":
				body(ind)
			case "callee":
				w("%sacc%d(p)\n", ind, n)
			case "nested":
				w("%souter%d(p)\n", ind, n)
			case "closure":
				w("%sfunc() {\n", ind)
				body(ind + "\t")
				w("%s}()\n", ind)
			case "closurevar":
				w("%scf := func() {\n", ind)
				body(ind + "\t")
				w("%s}\n%scf()\n", ind, ind)
			case "closurefield":
				w("%sfh := &FH{}\n%sfh.f = func() {\n", ind, ind)
				body(ind + "\t")
				w("%s}\n%scg := fh.f\n%scg()\n", ind, ind, ind)
			case "deferred":
				w("%sfunc() {\n%s\tdefer func() {\n", ind, ind)
				body(ind + "\t\t")
				w("%s\t}()\n%s}()\n", ind, ind)
			case "method":
				w("%sM%d{p}.do()\n", ind, n)
			case "iface":
				w("%svar a A = &D%d{p}\n%sa.Do(0)\n", ind, n, ind)
			case "ifaceparam":
				w("%svar ap AP = &DP%d{}\n%sap.DoP(p)\n", ind, n, ind)
			case "twoholders":
				w("%sh1, h2 := &H{p}, &H{p}\n%saccTwo%d(h1, h2)\n", ind, ind, n)
			case "gorunhelper":
				w("%sfin2 := make(chan bool)\n%sgo run%d(func() {\n", ind, ind, n)
				body(ind + "\t")
				w("%s}, fin2)\n%s<-fin2\n", ind, ind)
			}
		}
		if sc.Root == "delayed" {
			// delayed hand-off: the object is picked up into a loop-carried variable in one round and
			// handed to the goroutine in the next; the access of the third round touches shared memory
			w("\tvar pending *T\n\tfor i := 0; i < 3; i++ {\n")
			ind = "\t\t"
			access()
			w("\t\tif i == 1 && pending != nil {\n\t\t\tgo writer%d(pending, done)\n\t\t}\n\t\tpending = p\n\t}\n", n)
		} else if sc.Root == "loop" {
			// the access comes first in the loop body; the object is shared at the end of the first
			// round, so the access of the second round touches shared memory
			w("\tfor i := 0; i < 2; i++ {\n")
			ind = "\t\t"
			access()
			w("\t\tif i == 0 {\n")
			ind = "\t\t\t"
			share()
			w("\t\t}\n\t}\n")
		} else {
			share()
			access()
		}
		w("\t<-done\n}\n")
	}
	w("\nfunc main() {\n\tfin := make(chan bool)\n\t_ = fin\n")
	for _, sc := range scs {
		if sc.Root == "go" {
			w("\tgo scen%d(fin)\n\t<-fin\n", sc.ID)
		} else {
			w("\tscen%d()\n", sc.ID)
		}
	}
	w("}\n")
	return b.String()
}

// RandScenarios draws n scenarios; avoid(key) filters shapes the caller does not want.
func RandScenarios(r *rand.Rand, n int, avoid func(*Scenario) bool) []*Scenario {
	var out []*Scenario
	for len(out) < n {
		sc := &Scenario{ID: len(out), Share: ConcShares[r.Intn(len(ConcShares))],
			Access: ConcAccesses[r.Intn(len(ConcAccesses))], Via: ConcVias[r.Intn(len(ConcVias))], Root: []string{"call", "go", "go", "loop"}[r.Intn(4)]}
		if r.Intn(12) == 0 {
			sc.Root, sc.Share = "delayed", "goarg"
		}
		if avoid != nil && avoid(sc) {
			continue
		}
		out = append(out, sc)
	}
	return out
}
