package gen

// Generator of call-free pointer-manipulating functions (C14, tie M11): allocations, field stores
// and loads, stores and loads through pointers to pointers, phis, go statements. The functions are
// only analysed, never run.

import (
	"fmt"
	"math/rand"
	"strings"
)

// PtrPrelude declares the node type; all three fields are named f<i> so that a field index is its name.
const PtrPrelude = `package main

type N struct {
	f0 *N
	f1 *N
	f2 int
}

func use(p *N) {}

func main() {}
`

// RandPtrFunc renders one function `name(a, b *N, c bool) *N` with n statements.
func RandPtrFunc(r *rand.Rand, name string, n int) string {
	var b strings.Builder
	fmt.Fprintf(&b, "func %s(a *N, b *N, c bool) *N {\n", name)
	vars := []string{"a", "b"}
	pps := []string{}
	fresh := 0
	nv := func() string { fresh++; return fmt.Sprintf("v%d", fresh) }
	pick := func() string { return vars[r.Intn(len(vars))] }
	for i := 0; i < n; i++ {
		switch r.Intn(10) {
		case 0, 1:
			v := nv()
			if r.Intn(2) == 0 {
				fmt.Fprintf(&b, "\t%s := &N{}\n", v)
			} else {
				fmt.Fprintf(&b, "\t%s := new(N)\n", v)
			}
			vars = append(vars, v)
		case 2, 3:
			fmt.Fprintf(&b, "\t%s.f%d = %s\n", pick(), r.Intn(2), pick())
		case 4, 5:
			v := nv()
			fmt.Fprintf(&b, "\t%s := %s.f%d\n", v, pick(), r.Intn(2))
			vars = append(vars, v)
		case 6:
			v := nv()
			x, y := pick(), pick()
			fmt.Fprintf(&b, "\tvar %s *N\n\tif c {\n\t\t%s = %s\n\t} else {\n\t\t%s = %s\n\t}\n", v, v, x, v, y)
			vars = append(vars, v)
		case 7:
			fmt.Fprintf(&b, "\tgo use(%s)\n", pick())
		case 8:
			// pointer to pointer: address-taken variable
			v := nv()
			pp := "p" + v
			fmt.Fprintf(&b, "\t%s := %s\n\t%s := &%s\n\t*%s = %s\n", v, pick(), pp, v, pp, pick())
			vars = append(vars, v)
			pps = append(pps, pp)
		case 9:
			if len(pps) > 0 {
				v := nv()
				fmt.Fprintf(&b, "\t%s := *%s\n", v, pps[r.Intn(len(pps))])
				vars = append(vars, v)
			} else {
				fmt.Fprintf(&b, "\t%s.f2 = 1\n", pick())
			}
		}
	}
	for _, v := range vars[2:] {
		fmt.Fprintf(&b, "\t_ = %s\n", v)
	}
	for _, v := range pps {
		fmt.Fprintf(&b, "\t_ = %s\n", v)
	}
	fmt.Fprintf(&b, "\treturn %s\n}\n", pick())
	return b.String()
}
