package gen

// Escape-graph generator (C15/C14): well-formed graphs over a small node universe, and
// weakened variants of a given graph. Plain data; the drivers turn it into real
// escape.EscapeGraph values through the verif hook and into oracle lines.

import (
	"fmt"
	"math/rand"
	"strings"
)

// EG is an escape graph over nodes 0..N-1.
type EG struct {
	N     int
	Kinds []int   // node kinds (escape.nodeKind values 0..8)
	Dom   []bool  // node has a status (and an edge row)
	St    []int   // status 0..2 (0 outside Dom)
	Fl    [][]int // flags 0..7 (0 = no edge)
}

// Intrinsic mirrors Node.IntrinsicEscape.
func Intrinsic(kind int) int {
	switch kind {
	case 1, 2:
		return 1
	case 3, 8:
		return 2
	}
	return 0
}

// RandKinds picks node kinds with a bias towards the local kinds.
func RandKinds(r *rand.Rand, n int) []int {
	ks := make([]int, n)
	for i := range ks {
		switch r.Intn(10) {
		case 0:
			ks[i] = 1 // param
		case 1:
			ks[i] = 2 // load
		case 2:
			ks[i] = 3 // global
		case 3:
			ks[i] = 8 // unknown
		case 4:
			ks[i] = 6 // paramvar
		case 5, 6:
			ks[i] = 0 // alloc
		default:
			ks[i] = 5 // var
		}
	}
	return ks
}

// NewEG returns the empty graph over the universe.
func NewEG(kinds []int) *EG {
	n := len(kinds)
	g := &EG{N: n, Kinds: kinds, Dom: make([]bool, n), St: make([]int, n), Fl: make([][]int, n)}
	for i := range g.Fl {
		g.Fl[i] = make([]int, n)
	}
	return g
}

// Clone copies g.
func (g *EG) Clone() *EG {
	h := NewEG(g.Kinds)
	copy(h.Dom, g.Dom)
	copy(h.St, g.St)
	for i := range g.Fl {
		copy(h.Fl[i], g.Fl[i])
	}
	return h
}

// Close raises statuses to the intrinsic ones and propagates them along edges (least fixpoint).
func (g *EG) Close() {
	for i := 0; i < g.N; i++ {
		if g.Dom[i] && g.St[i] < Intrinsic(g.Kinds[i]) {
			g.St[i] = Intrinsic(g.Kinds[i])
		}
		if !g.Dom[i] {
			g.St[i] = 0
		}
	}
	for changed := true; changed; {
		changed = false
		for a := 0; a < g.N; a++ {
			for b := 0; b < g.N; b++ {
				if g.Fl[a][b] != 0 && g.St[a] > g.St[b] {
					g.St[b] = g.St[a]
					changed = true
				}
			}
		}
	}
}

// RandWF generates a well-formed graph: random node subset, random edges with random flags,
// random raised statuses, closed.
func RandWF(r *rand.Rand, kinds []int) *EG {
	g := NewEG(kinds)
	pNode := 0.4 + 0.6*r.Float64()
	for i := 0; i < g.N; i++ {
		g.Dom[i] = r.Float64() < pNode
	}
	pEdge := r.Float64() * 0.5
	for a := 0; a < g.N; a++ {
		for b := 0; b < g.N; b++ {
			if g.Dom[a] && g.Dom[b] && r.Float64() < pEdge {
				switch r.Intn(6) {
				case 0:
					g.Fl[a][b] = 2
				case 1:
					g.Fl[a][b] = 4
				case 2:
					g.Fl[a][b] = 1 + r.Intn(7)
				default:
					g.Fl[a][b] = 1
				}
			}
		}
	}
	for i := 0; i < g.N; i++ {
		if g.Dom[i] && r.Intn(5) == 0 {
			g.St[i] = 1 + r.Intn(2)
		}
	}
	g.Close()
	return g
}

// Weaken returns a well-formed graph below g: some nodes, edges, flag bits and status raises
// are dropped, then the result is closed again.
func (g *EG) Weaken(r *rand.Rand) *EG {
	h := g.Clone()
	for i := 0; i < h.N; i++ {
		if h.Dom[i] && r.Intn(6) == 0 {
			h.Dom[i] = false
			h.St[i] = 0
			for j := 0; j < h.N; j++ {
				h.Fl[i][j] = 0
				h.Fl[j][i] = 0
			}
		}
	}
	for a := 0; a < h.N; a++ {
		for b := 0; b < h.N; b++ {
			if h.Fl[a][b] != 0 {
				switch r.Intn(4) {
				case 0:
					h.Fl[a][b] = 0
				case 1:
					h.Fl[a][b] &= 1 + r.Intn(7)
				}
			}
		}
	}
	for i := 0; i < h.N; i++ {
		if h.Dom[i] && r.Intn(2) == 0 {
			h.St[i] = 0
		}
	}
	h.Close()
	return h
}

// Leq is the lattice order on EG values (ground truth for the driver).
func (g *EG) Leq(h *EG) bool {
	for a := 0; a < g.N; a++ {
		if g.Dom[a] && (!h.Dom[a] || g.St[a] > h.St[a]) {
			return false
		}
		for b := 0; b < g.N; b++ {
			if g.Fl[a][b]&^h.Fl[a][b] != 0 {
				return false
			}
		}
	}
	return true
}

// Edges counts the edges of g.
func (g *EG) Edges() int {
	n := 0
	for a := range g.Fl {
		for _, f := range g.Fl[a] {
			if f != 0 {
				n++
			}
		}
	}
	return n
}

// Nodes counts the nodes of g.
func (g *EG) Nodes() int {
	n := 0
	for _, d := range g.Dom {
		if d {
			n++
		}
	}
	return n
}

// Line renders the oracle's `g` record (also the canonical text of the graph).
func (g *EG) Line(name string) string {
	var st, out, es []string
	for i := 0; i < g.N; i++ {
		if g.Dom[i] {
			st = append(st, fmt.Sprintf("%d:%d", i, g.St[i]))
			out = append(out, fmt.Sprint(i))
		}
		for j := 0; j < g.N; j++ {
			if g.Fl[i][j] != 0 {
				es = append(es, fmt.Sprintf("%d>%d:%d", i, j, g.Fl[i][j]))
			}
		}
	}
	d := func(l []string) string {
		if len(l) == 0 {
			return "-"
		}
		return strings.Join(l, ",")
	}
	return fmt.Sprintf("g %s st=%s out=%s e=%s", name, d(st), d(out), d(es))
}

// KindString is the oracle's digit string of the universe.
func KindString(kinds []int) string {
	var sb strings.Builder
	for _, k := range kinds {
		sb.WriteByte(byte('0' + k))
	}
	return sb.String()
}

// SubRel is one registered field-subnode relation: Child is the subnode `Field` of Parent.
type SubRel struct{ Parent, Field, Child int }

// RandSubs registers a random forest of field subnodes over the universe (a child has a larger
// index than its parent, one parent per child, one child per (parent, field)); children get the kind
// of their parent, as FieldSubnode creates them.
func RandSubs(r *rand.Rand, kinds []int) []SubRel {
	var subs []SubRel
	used := map[[2]int]bool{}
	for c := 1; c < len(kinds); c++ {
		if r.Intn(3) != 0 {
			continue
		}
		p, f := r.Intn(c), r.Intn(2)
		if used[[2]int{p, f}] {
			continue
		}
		used[[2]int{p, f}] = true
		subs = append(subs, SubRel{p, f, c})
		kinds[c] = kinds[p]
	}
	return subs
}

// Root returns the root of n in the subnode forest.
func Root(subs []SubRel, n int) int {
	for {
		found := false
		for _, s := range subs {
			if s.Child == n {
				n = s.Parent
				found = true
				break
			}
		}
		if !found {
			return n
		}
	}
}

// FixSubFlags makes the subnode bit of every edge agree with the registered relations: cleared on
// unrelated pairs, set (with probability 3/4 when both ends are present) on related pairs.
func (g *EG) FixSubFlags(r *rand.Rand, subs []SubRel) {
	rel := map[[2]int]bool{}
	for _, s := range subs {
		rel[[2]int{s.Parent, s.Child}] = true
	}
	for a := 0; a < g.N; a++ {
		for b := 0; b < g.N; b++ {
			g.Fl[a][b] &^= 4
			if rel[[2]int{a, b}] && g.Dom[a] && g.Dom[b] && r.Intn(4) != 0 {
				g.Fl[a][b] |= 4
			}
		}
	}
	g.Close()
}

// Pointees lists the nodes a points to.
func (g *EG) Pointees(a int) []int {
	var ps []int
	for b := 0; b < g.N; b++ {
		if g.Fl[a][b] != 0 {
			ps = append(ps, b)
		}
	}
	return ps
}
