// Package gen holds the seeded generators. cfg.go: control-flow skeletons with defers.
package gen

import (
	"fmt"
	"math/rand"
	"strings"
)

// Stmt kinds of the control-flow skeleton language.
const (
	SDefer = iota
	SIf
	SIfElse
	SFor
	SForInf // for { ... } (exit only via break/return)
	SSwitch
	SReturn
	SBreak
	SContinue
	SPanic
	SNop
	SGotoTop // backward goto to a label at the start of the function
	SGotoEnd // forward goto to a label at the end of the function
	SDeferClosure
	SRange // for range n {...}
	nKinds
)

// Stmt is one statement of a skeleton.
type Stmt struct {
	Kind int
	A, B []Stmt // bodies (if: then/else; for: body; switch: two cases in A,B + default empty)
}

// Size counts nodes.
func Size(b []Stmt) int {
	n := 0
	for _, s := range b {
		n += 1 + Size(s.A) + Size(s.B)
	}
	return n
}

var leafKinds = []int{SDefer, SReturn, SBreak, SContinue, SPanic, SNop, SGotoTop, SGotoEnd, SDeferClosure}

// EnumBodies enumerates every body with exactly n nodes (inLoop: break/continue allowed).
func EnumBodies(n int, inLoop bool, emit func([]Stmt)) {
	if n == 0 {
		emit(nil)
		return
	}
	// first statement takes k nodes, rest n-k
	for k := 1; k <= n; k++ {
		EnumStmt(k, inLoop, func(s Stmt) {
			EnumBodies(n-k, inLoop, func(rest []Stmt) {
				body := append([]Stmt{s}, rest...)
				emit(body)
			})
		})
	}
}

// EnumStmt enumerates every statement with exactly n nodes.
func EnumStmt(n int, inLoop bool, emit func(Stmt)) {
	if n == 1 {
		for _, k := range leafKinds {
			if (k == SBreak || k == SContinue) && !inLoop {
				continue
			}
			if k == SDeferClosure || k == SNop {
				continue // same CFG shape as SDefer / nothing: only in the random stream
			}
			emit(Stmt{Kind: k})
		}
		return
	}
	// one-body compounds
	for _, k := range []int{SIf, SFor, SForInf} {
		EnumBodies(n-1, inLoop || k != SIf, func(a []Stmt) { emit(Stmt{Kind: k, A: a}) })
	}
	// two-body compounds
	for i := 0; i <= n-1; i++ {
		EnumBodies(i, inLoop, func(a []Stmt) {
			EnumBodies(n-1-i, inLoop, func(b []Stmt) {
				emit(Stmt{Kind: SIfElse, A: a, B: b})
			})
		})
	}
}

// RandBody draws a random body of about n nodes.
func RandBody(r *rand.Rand, n int, inLoop bool, depth int) []Stmt {
	var body []Stmt
	for n > 0 {
		s := RandStmt(r, n, inLoop, depth)
		body = append(body, s)
		n -= 1 + Size(s.A) + Size(s.B)
	}
	return body
}

// RandStmt draws a random statement of at most n nodes.
func RandStmt(r *rand.Rand, n int, inLoop bool, depth int) Stmt {
	if n <= 1 || depth > 4 || r.Intn(100) < 35 {
		for {
			k := leafKinds[r.Intn(len(leafKinds))]
			if (k == SBreak || k == SContinue) && !inLoop {
				continue
			}
			if (k == SReturn || k == SPanic || k == SGotoEnd || k == SGotoTop) && r.Intn(3) != 0 {
				continue // fewer abrupt exits, more defers
			}
			if k == SNop && r.Intn(2) == 0 {
				k = SDefer
			}
			return Stmt{Kind: k}
		}
	}
	k := []int{SIf, SIfElse, SFor, SForInf, SSwitch, SRange, SIfElse, SFor}[r.Intn(8)]
	rest := n - 1
	switch k {
	case SIf:
		return Stmt{Kind: k, A: RandBody(r, r.Intn(rest)+1, inLoop, depth+1)}
	case SFor, SForInf, SRange:
		return Stmt{Kind: k, A: RandBody(r, r.Intn(rest)+1, true, depth+1)}
	default:
		a := r.Intn(rest + 1)
		b := rest - a
		if b > 0 {
			b = r.Intn(b + 1)
		}
		// break inside a switch leaves the switch, which is fine (still valid Go)
		return Stmt{Kind: k, A: RandBody(r, a, inLoop, depth+1), B: RandBody(r, b, inLoop, depth+1)}
	}
}

type renderer struct {
	sb            strings.Builder
	nd            int
	usesTop, usesEnd bool
	inRangeFunc   bool
}

func usesGoto(b []Stmt, kind int) bool {
	for _, s := range b {
		if s.Kind == kind || usesGoto(s.A, kind) || usesGoto(s.B, kind) {
			return true
		}
	}
	return false
}

// Render prints `func name() { body }`. Conditions call the opaque c(); deferred calls call d(k).
// named: declare a named result (adds loads between RunDefers and Return).
func Render(name string, body []Stmt, named bool) string {
	r := &renderer{}
	sig := "()"
	if named {
		sig = "() (res int)"
	}
	fmt.Fprintf(&r.sb, "func %s%s {\n", name, sig)
	top, end := usesGoto(body, SGotoTop), usesGoto(body, SGotoEnd)
	if top {
		r.sb.WriteString("Top:\n")
	}
	r.body(body, 1)
	if end {
		r.sb.WriteString("End:\n\tnop()\n")
	}
	if named {
		r.sb.WriteString("\treturn\n")
	}
	r.sb.WriteString("}\n")
	return r.sb.String()
}

func (r *renderer) body(b []Stmt, ind int) {
	tab := strings.Repeat("\t", ind)
	for _, s := range b {
		switch s.Kind {
		case SDefer:
			r.nd++
			fmt.Fprintf(&r.sb, "%sdefer d(%d)\n", tab, r.nd)
		case SDeferClosure:
			r.nd++
			fmt.Fprintf(&r.sb, "%sdefer func() { d(%d) }()\n", tab, r.nd)
		case SIf:
			fmt.Fprintf(&r.sb, "%sif c() {\n", tab)
			r.body(s.A, ind+1)
			fmt.Fprintf(&r.sb, "%s}\n", tab)
		case SIfElse:
			fmt.Fprintf(&r.sb, "%sif c() {\n", tab)
			r.body(s.A, ind+1)
			fmt.Fprintf(&r.sb, "%s} else {\n", tab)
			r.body(s.B, ind+1)
			fmt.Fprintf(&r.sb, "%s}\n", tab)
		case SFor:
			fmt.Fprintf(&r.sb, "%sfor c() {\n", tab)
			r.body(s.A, ind+1)
			fmt.Fprintf(&r.sb, "%s}\n", tab)
		case SForInf:
			fmt.Fprintf(&r.sb, "%sfor {\n", tab)
			r.body(s.A, ind+1)
			fmt.Fprintf(&r.sb, "%s}\n", tab)
		case SRange:
			fmt.Fprintf(&r.sb, "%sfor range n() {\n", tab)
			r.body(s.A, ind+1)
			fmt.Fprintf(&r.sb, "%s}\n", tab)
		case SSwitch:
			fmt.Fprintf(&r.sb, "%sswitch n() {\n%scase 0:\n", tab, tab)
			r.body(s.A, ind+1)
			fmt.Fprintf(&r.sb, "%scase 1:\n", tab)
			r.body(s.B, ind+1)
			fmt.Fprintf(&r.sb, "%sdefault:\n%s\tnop()\n%s}\n", tab, tab, tab)
		case SReturn:
			fmt.Fprintf(&r.sb, "%sif always() {\n%s\treturn\n%s}\n", tab, tab, tab)
		case SBreak:
			fmt.Fprintf(&r.sb, "%sif always() {\n%s\tbreak\n%s}\n", tab, tab, tab)
		case SContinue:
			fmt.Fprintf(&r.sb, "%sif always() {\n%s\tcontinue\n%s}\n", tab, tab, tab)
		case SPanic:
			fmt.Fprintf(&r.sb, "%sif always() {\n%s\tpanic(\"p\")\n%s}\n", tab, tab, tab)
		case SGotoTop:
			fmt.Fprintf(&r.sb, "%sif c() {\n%s\tgoto Top\n%s}\n", tab, tab, tab)
		case SGotoEnd:
			fmt.Fprintf(&r.sb, "%sif c() {\n%s\tgoto End\n%s}\n", tab, tab, tab)
		case SNop:
			fmt.Fprintf(&r.sb, "%snop()\n", tab)
		}
	}
}

// Prelude is the support code of a generated defer package.
const Prelude = `package main

var cond, cnt int

//go:noinline
func c() bool { cnt++; return (cond>>(uint(cnt)%30))&1 == 1 }

//go:noinline
func always() bool { return c() }

//go:noinline
func n() int { cnt++; return (cond >> (uint(cnt) % 30)) & 3 }

//go:noinline
func nop() {}

//go:noinline
func d(k int) { cnt += k }
`

// NestBody builds `depth` nested if/else statements; every level may carry defers before the
// branch, in either arm and after the join (so inner join blocks survive), the innermost arms
// hold defers. Exercises fixpoints that need many sweeps in dominator preorder.
func NestBody(r *rand.Rand, depth int) []Stmt {
	leaf := func() []Stmt {
		switch r.Intn(4) {
		case 0:
			return nil
		case 1:
			return []Stmt{{Kind: SNop}}
		case 2:
			return []Stmt{{Kind: SDefer}}
		default:
			return []Stmt{{Kind: SDefer}, {Kind: SNop}}
		}
	}
	if depth == 0 {
		return leaf()
	}
	var body []Stmt
	body = append(body, leaf()...)
	a, b := NestBody(r, depth-1), leaf()
	if r.Intn(2) == 0 {
		a, b = b, a
	}
	if r.Intn(5) == 0 {
		b = NestBody(r, depth-1)
	}
	body = append(body, Stmt{Kind: SIfElse, A: a, B: b})
	body = append(body, leaf()...)
	return body
}

// SeqBody: k defers in a row, then a branch (if/else or switch) whose arms hold different defers,
// optionally inside/after loops without defers. Exercises stack sharing and ordering.
func SeqBody(r *rand.Rand, k int) []Stmt {
	var body []Stmt
	for i := 0; i < k; i++ {
		body = append(body, Stmt{Kind: []int{SDefer, SDefer, SDeferClosure}[r.Intn(3)]})
		if r.Intn(6) == 0 {
			body = append(body, Stmt{Kind: SFor, A: []Stmt{{Kind: SNop}}})
		}
	}
	arm := func() []Stmt {
		n := r.Intn(3)
		var a []Stmt
		for i := 0; i < n; i++ {
			a = append(a, Stmt{Kind: SDefer})
		}
		return a
	}
	kind := []int{SIfElse, SSwitch, SIf}[r.Intn(3)]
	body = append(body, Stmt{Kind: kind, A: arm(), B: arm()})
	if r.Intn(2) == 0 {
		body = append(body, Stmt{Kind: SDefer})
	}
	return body
}

// LoopBody: loops whose body is a single basic block or a few, with a defer inside, entered
// through different shapes (do-while style `for { …; if c { break } }`, goto back-edge, range).
func LoopBody(r *rand.Rand) []Stmt {
	inner := []Stmt{{Kind: SDefer}}
	if r.Intn(2) == 0 {
		inner = append(inner, Stmt{Kind: SNop})
	}
	if r.Intn(3) == 0 {
		inner = append([]Stmt{{Kind: SNop}}, inner...)
	}
	var body []Stmt
	if r.Intn(2) == 0 {
		body = append(body, Stmt{Kind: SDefer})
	}
	switch r.Intn(4) {
	case 0:
		body = append(body, Stmt{Kind: SForInf, A: append(inner, Stmt{Kind: SBreak})})
	case 1:
		body = append(body, Stmt{Kind: SFor, A: inner})
	case 2:
		body = append(body, Stmt{Kind: SRange, A: inner})
	default:
		body = append(body, inner...)
		body = append(body, Stmt{Kind: SGotoTop})
	}
	if r.Intn(2) == 0 {
		body = append(body, Stmt{Kind: SDefer})
	}
	return body
}

// SparseNestBody: a deep if/else nest (every level followed by a statement so that inner join
// blocks survive) with only `nd` defers, placed at random leaves. Few defers + deep nesting is
// the shape on which "iteration count proportional to the number of defers" shortcuts fail.
func SparseNestBody(r *rand.Rand, depth, nd int) []Stmt {
	var leaves []*Stmt
	var build func(d int) []Stmt
	build = func(d int) []Stmt {
		if d == 0 {
			b := []Stmt{{Kind: SNop}}
			return b
		}
		deep, shallow := build(d-1), []Stmt{{Kind: SNop}}
		if r.Intn(4) == 0 {
			shallow = build(d - 1)
		}
		st := Stmt{Kind: SIfElse}
		if r.Intn(2) == 0 {
			st.A, st.B = shallow, deep
		} else {
			st.A, st.B = deep, shallow
		}
		return []Stmt{st, {Kind: SNop}}
	}
	body := build(depth)
	var collect func(b []Stmt)
	collect = func(b []Stmt) {
		for i := range b {
			if b[i].Kind == SNop {
				leaves = append(leaves, &b[i])
			}
			collect(b[i].A)
			collect(b[i].B)
		}
	}
	collect(body)
	for i := 0; i < nd && len(leaves) > 0; i++ {
		leaves[r.Intn(len(leaves))].Kind = SDefer
	}
	return body
}
