// Package lib holds what every property driver shares: environment, scratch directories,
// program loading through the repository's own loader, the oracle pipe, evidence and
// VIOLATION / KNOWN-FINDING reporting.
package lib

import (
	"bytes"
	"encoding/json"
	"fmt"
	"math/rand"
	"os"
	"os/exec"
	"path/filepath"
	"sort"
	"strconv"
	"strings"
	"time"

	"github.com/awslabs/ar-go-tools/analysis"
	"golang.org/x/tools/go/packages"
	"golang.org/x/tools/go/ssa"
)

var start = time.Now()

// Root is /verif (or wherever the check script lives).
func Root() string {
	if r := os.Getenv("VERIF_ROOT"); r != "" {
		return r
	}
	return "/verif"
}

// RepoDir is the tree under verification.
func RepoDir() string {
	if r := os.Getenv("VERIF_REPO"); r != "" {
		return r
	}
	return "/repo"
}

// Seed is VERIF_SEED (default 1).
func Seed() int64 {
	if s := os.Getenv("VERIF_SEED"); s != "" {
		if n, err := strconv.ParseInt(s, 10, 64); err == nil {
			return n
		}
	}
	return 1
}

// Tier is "quick" or "thorough".
func Tier() string {
	if os.Getenv("VERIF_TIER") == "thorough" {
		return "thorough"
	}
	return "quick"
}

// Thorough reports whether the thorough tier was requested.
func Thorough() bool { return Tier() == "thorough" }

// ProofBroken is set by the check script when a Lean obligation of this property no longer
// checks; drivers may search harder in that case.
func ProofBroken() bool { return os.Getenv("VERIF_PROOF_BROKEN") == "1" }

// Rand returns the single PRNG of a run, derived from the seed and a stream name.
func Rand(stream string) *rand.Rand {
	h := int64(1469598103934665603)
	for _, c := range stream {
		h = (h ^ int64(c)) * 1099511628211
	}
	return rand.New(rand.NewSource(Seed()*1000003 + h))
}

// WorkDir returns (and creates, emptied) a scratch directory for a property.
func WorkDir(prop string, sub string) string {
	d := filepath.Join(Root(), ".work", prop, sub)
	os.RemoveAll(d)
	if err := os.MkdirAll(d, 0o755); err != nil {
		panic(err)
	}
	return d
}

// ReplayDir returns the persistent directory where replay files of a property are written.
func ReplayDir(prop string) string {
	d := filepath.Join(Root(), ".work", "replay", prop)
	os.MkdirAll(d, 0o755)
	return d
}

// WriteProgram writes files (relative path -> content) plus a go.mod for module `mod`.
func WriteProgram(dir, mod string, files map[string]string) {
	for name, content := range files {
		p := filepath.Join(dir, name)
		os.MkdirAll(filepath.Dir(p), 0o755)
		if err := os.WriteFile(p, []byte(content), 0o644); err != nil {
			panic(err)
		}
	}
	if _, ok := files["go.mod"]; !ok {
		os.WriteFile(filepath.Join(dir, "go.mod"), []byte("module "+mod+"\n\ngo 1.22\n"), 0o644)
	}
}

// LoadSSA loads the packages matching patterns in dir with the repository's own loader.
func LoadSSA(dir string, mode ssa.BuilderMode, rewrites bool, patterns ...string) (*ssa.Program, []*packages.Package, error) {
	cfg := &packages.Config{Mode: analysis.PkgLoadMode, Tests: false, Dir: dir,
		Env: append(os.Environ(), "GOFLAGS=-mod=mod", "GOPROXY=off", "GOSUMDB=off", "GOTOOLCHAIN=local", "GOWORK=off")}
	return analysis.LoadProgram(analysis.LoadProgramOptions{BuildMode: mode, ApplyRewrites: rewrites, PackageConfig: cfg}, patterns)
}

// RunOracle pipes input into the compiled Lean oracle `exe` and returns its output lines.
func RunOracle(exe string, input []byte) ([]string, error) {
	bin := filepath.Join(Root(), "lean", ".lake", "build", "bin", exe)
	cmd := exec.Command(bin)
	cmd.Stdin = bytes.NewReader(input)
	var out, errb bytes.Buffer
	cmd.Stdout = &out
	cmd.Stderr = &errb
	if err := cmd.Run(); err != nil {
		return nil, fmt.Errorf("oracle %s: %v: %s", exe, err, errb.String())
	}
	s := strings.TrimRight(out.String(), "\n")
	if s == "" {
		return nil, nil
	}
	return strings.Split(s, "\n"), nil
}

// GoRun builds and runs the main package in dir natively (offline), with a timeout in seconds.
func GoRun(dir string, timeoutS int, args ...string) (string, error) {
	env := append(os.Environ(), "GOFLAGS=-mod=mod", "GOPROXY=off", "GOSUMDB=off", "GOTOOLCHAIN=local", "GOWORK=off")
	bin := filepath.Join(dir, "prog.bin")
	b := exec.Command("go", "build", "-o", bin, ".")
	b.Dir = dir
	b.Env = env
	if out, err := b.CombinedOutput(); err != nil {
		return string(out), fmt.Errorf("go build: %v", err)
	}
	c := exec.Command("timeout", fmt.Sprint(timeoutS), bin)
	c.Args = append(c.Args, args...)
	c.Dir = dir
	c.Env = env
	out, err := c.CombinedOutput()
	return string(out), err
}

// ---------------------------------------------------------------------------------------------
// Findings

// Finding is one entry of known_findings.json.
type Finding struct {
	Property  string `json:"property"`
	ID        string `json:"id"`
	Key       string `json:"key"` // identifies the specific failing input / call site / history
	Replay    string `json:"replay"`
	WhatFails string `json:"what_fails"`
	Status    string `json:"status"` // "open" | "fixed"
	Commit    string `json:"commit,omitempty"`
}

// KnownFindings loads the committed file (never written at run time).
func KnownFindings(prop string) []Finding {
	var all struct {
		Findings []Finding `json:"findings"`
	}
	b, err := os.ReadFile(filepath.Join(Root(), "known_findings.json"))
	if err != nil {
		return nil
	}
	if err := json.Unmarshal(b, &all); err != nil {
		panic("known_findings.json: " + err.Error())
	}
	var r []Finding
	for _, f := range all.Findings {
		if f.Property == prop {
			r = append(r, f)
		}
	}
	return r
}

// Report collects what a driver found and writes the driver result file.
type Report struct {
	Prop        string
	Evaluations int
	Distinct    map[string]bool // distinct non-trivial cases, by canonical key
	Rule        string
	Samples     []any
	Dist        map[string]int // measured input distribution
	Extra       map[string]any
	Violations  int
	Known       int
	Notes       []string
	known       []Finding
	seenKnown   map[string]bool
}

// NewReport starts a report for a property.
func NewReport(prop string) *Report {
	return &Report{Prop: prop, Distinct: map[string]bool{}, Dist: map[string]int{}, Extra: map[string]any{},
		known: KnownFindings(prop), seenKnown: map[string]bool{}}
}

// Count bumps a distribution counter.
func (r *Report) Count(key string) { r.Dist[key]++ }

// Sample keeps up to 8 written-out cases.
func (r *Report) Sample(s any) {
	if len(r.Samples) < 8 {
		r.Samples = append(r.Samples, s)
	}
}

// Case records one evaluated case; key=="" means trivial.
func (r *Report) Case(key string) {
	r.Evaluations++
	if key != "" {
		r.Distinct[key] = true
	}
}

// Fail reports a failing input. `key` identifies the specific input (matched against
// known_findings.json: an open finding with the same key turns it into KNOWN-FINDING).
// content is written as the replay file. noInput marks "proof/correspondence broken but no
// concrete failing input found".
func (r *Report) Fail(key, what string, content []byte, noInput bool) {
	for _, f := range r.known {
		if f.Status == "open" && f.Key == key {
			if !r.seenKnown[key] {
				r.seenKnown[key] = true
				r.Known++
				fmt.Printf("KNOWN-FINDING: property=%s %s (%s)\n", r.Prop, f.WhatFails, f.ID)
			}
			return
		}
	}
	r.Violations++
	if r.Violations > 20 {
		return
	}
	name := sanitize(key)
	if len(name) > 80 {
		name = name[:80]
	}
	p := filepath.Join(ReplayDir(r.Prop), fmt.Sprintf("%s_%d.txt", name, r.Violations))
	hdr := fmt.Sprintf("# property=%s\n# key=%s\n# what=%s\n# seed=%d tier=%s repo=%s\n", r.Prop, key, what, Seed(), Tier(), RepoDir())
	os.WriteFile(p, append([]byte(hdr), content...), 0o644)
	suffix := ""
	if noInput {
		suffix = " no-failing-input-found"
	}
	fmt.Printf("VIOLATION property=%s replay=%s%s\n", r.Prop, p, suffix)
	fmt.Printf("  what: %s\n", what)
}

func sanitize(s string) string {
	var b strings.Builder
	for _, c := range s {
		if (c >= 'a' && c <= 'z') || (c >= 'A' && c <= 'Z') || (c >= '0' && c <= '9') || c == '-' || c == '_' {
			b.WriteRune(c)
		} else {
			b.WriteByte('_')
		}
	}
	return b.String()
}

// Finish writes .work/<prop>/driver.json and exits with 1 if there was any violation.
func (r *Report) Finish() {
	if len(r.Samples) == 0 {
		r.Samples = []any{"(none)"}
	}
	keys := make([]string, 0, len(r.Dist))
	for k := range r.Dist {
		keys = append(keys, k)
	}
	sort.Strings(keys)
	out := map[string]any{
		"property_id":         r.Prop,
		"evaluations":         r.Evaluations,
		"distinct_nontrivial": len(r.Distinct),
		"rule":                r.Rule,
		"samples":             r.Samples,
		"distribution":        r.Dist,
		"violations":          r.Violations,
		"known_findings":      r.Known,
		"notes":               r.Notes,
		"driver_wall_s":       time.Since(start).Seconds(),
	}
	for k, v := range r.Extra {
		out[k] = v
	}
	b, _ := json.MarshalIndent(out, "", " ")
	d := filepath.Join(Root(), ".work", r.Prop)
	os.MkdirAll(d, 0o755)
	os.WriteFile(filepath.Join(d, "driver.json"), b, 0o644)
	fmt.Printf("driver %s: evaluations=%d distinct=%d violations=%d known=%d\n", r.Prop, r.Evaluations, len(r.Distinct), r.Violations, r.Known)
	if r.Violations > 0 {
		os.Exit(1)
	}
}
