package mugo

import (
	"bytes"
	"context"
	"fmt"
	"os"
	"os/exec"
	"path/filepath"
	"strings"
	"time"
)

// Pair is an observed or reported (source id, sink id) pair.
type Pair struct{ Source, Sink int }

func mangle(i int) string { return fmt.Sprintf("walk%d", i) }

// gtFile renders the native ground-truth variant: sinks walk their argument looking for markers
// "@S<id>@", main runs every case over all valuations of its branch bits (exhaustive up to 2^10,
// 1024 pseudo-random words beyond), from reset globals, recovering panics, and prints the
// observed pairs as "OBS <source> <sink>" lines with the builtin println (stderr).
func (g *gen) gtFile(cs []Case, resets [][]string) string {
	var b strings.Builder
	b.WriteString("//go:build gt\n\n// Ground-truth variant (native execution with marker observation).\npackage main\n\n")
	b.WriteString(`var obs = map[[2]int]bool{}

func scan(sink int, s string) {
	for i := 0; i+3 < len(s); i++ {
		if s[i] == '@' && s[i+1] == 'S' {
			n, j := 0, i+2
			for j < len(s) && s[j] >= '0' && s[j] <= '9' {
				n = n*10 + int(s[j]-'0')
				j++
			}
			if j > i+2 && j < len(s) && s[j] == '@' {
				obs[[2]int{n, sink}] = true
			}
		}
	}
}

`)
	idx := map[string]int{}
	for i, s := range g.walkOrd {
		idx[s] = i
	}
	// the dynamic walker over the whole type universe of the program
	b.WriteString("func walk(sink int, x any, d int) {\n\tif d > 12 || x == nil {\n\t\treturn\n\t}\n\tswitch v := x.(type) {\n")
	for i, s := range g.walkOrd {
		if g.walkTys[s].K == KAny {
			continue
		}
		fmt.Fprintf(&b, "\tcase %s:\n\t\t%s(sink, v, d)\n", s, mangle(i))
	}
	b.WriteString("\t}\n}\n\n")
	for i, s := range g.walkOrd {
		t := g.walkTys[s]
		if t.K == KAny {
			continue
		}
		fmt.Fprintf(&b, "func %s(sink int, v %s, d int) {\n\tif d > 12 {\n\t\treturn\n\t}\n", mangle(i), s)
		sub := func(expr string, e *Ty) string {
			if e.K == KAny {
				return fmt.Sprintf("walk(sink, %s, d+1)", expr)
			}
			return fmt.Sprintf("%s(sink, %s, d+1)", mangle(idx[e.String()]), expr)
		}
		switch t.K {
		case KString:
			b.WriteString("\tscan(sink, v)\n")
		case KBytes:
			b.WriteString("\tscan(sink, string(v))\n")
		case KPtr:
			fmt.Fprintf(&b, "\tif v != nil {\n\t\t%s\n\t}\n", sub("*v", t.Elem))
		case KSlice:
			fmt.Fprintf(&b, "\tfor _, e := range v {\n\t\t%s\n\t}\n", sub("e", t.Elem))
		case KMap:
			fmt.Fprintf(&b, "\tfor k, e := range v {\n\t\tscan(sink, k)\n\t\t%s\n\t}\n", sub("e", t.Elem))
		case KMapKey:
			b.WriteString("\tfor k := range v {\n\t\tscan(sink, k)\n\t}\n")
		case KStruct:
			fmt.Fprintf(&b, "\t%s\n", sub("v."+t.Hot, t.Elem))
		case KEmbed:
			fmt.Fprintf(&b, "\t%s\n", sub("v."+t.Elem.Name, t.Elem))
		case KFunc:
			b.WriteString("\t_ = v // function values are not memory reachable from the argument\n")
		}
		b.WriteString("}\n\n")
	}
	for _, d := range g.sinkDecl {
		id := 0
		fmt.Sscanf(d, "sink_%d(", &id)
		fmt.Fprintf(&b, "func %s { walk(%d, x, 0) }\n", d, id)
	}
	if g.has(FSanitize) {
		for _, c := range cs {
			fmt.Fprintf(&b, "func sanitize_%d(x string) string { return x }\n", c.ID)
		}
	}
	b.WriteString(`
func runCase(bits int, reset func(), f func()) {
	n := 1 << uint(bits)
	sampled := false
	if bits > 10 {
		n, sampled = 1024, true
	}
	lcg := uint64(88172645463325252)
	for w := 0; w < n; w++ {
		W = w
		if sampled {
			lcg = lcg*6364136223846793005 + 1442695040888963407
			W = int(lcg >> 20)
		}
		reset()
		func() {
			defer func() { recover() }()
			f()
		}()
	}
}

func main() {
`)
	for i, c := range cs {
		fmt.Fprintf(&b, "\trunCase(%d, func() {\n", c.Bits)
		for _, r := range resets[i] {
			fmt.Fprintf(&b, "\t\t%s\n", r)
		}
		fmt.Fprintf(&b, "\t}, case_%d)\n", c.ID)
	}
	b.WriteString("\tfor p := range obs {\n\t\tprintln(\"OBS\", p[0], p[1])\n\t}\n\tprintln(\"DONE\")\n}\n")
	return b.String()
}

func goEnv() []string {
	return append(os.Environ(), "GOFLAGS=-mod=mod", "GOPROXY=off", "GOSUMDB=off", "GOTOOLCHAIN=local", "GOWORK=off")
}

// GroundTruth builds the program in dir with `-tags gt`, runs it natively and returns the set of
// (source id, sink id) pairs observed at run time over all explored valuations. An error means
// the program did not build or did not finish (then nothing can be concluded).
func GroundTruth(dir string) (map[Pair]bool, error) {
	bin := filepath.Join(dir, "gt.bin")
	ctx, cancel := context.WithTimeout(context.Background(), 3*time.Hour) // generous: the sandbox is often overloaded; generated programs have bounded loops
	defer cancel()
	cmd := exec.CommandContext(ctx, "go", "build", "-tags", "gt", "-o", bin, ".")
	cmd.Dir, cmd.Env = dir, goEnv()
	if out, err := cmd.CombinedOutput(); err != nil {
		return nil, fmt.Errorf("go build -tags gt: %v\n%s", err, out)
	}
	defer os.Remove(bin)
	run := exec.CommandContext(ctx, bin)
	var errb bytes.Buffer
	run.Stderr = &errb
	run.Dir = dir
	if err := run.Run(); err != nil {
		return nil, fmt.Errorf("ground-truth run: %v\n%s", err, tail(errb.String()))
	}
	res := map[Pair]bool{}
	done := false
	for _, l := range strings.Split(errb.String(), "\n") {
		var a, c int
		if n, _ := fmt.Sscanf(l, "OBS %d %d", &a, &c); n == 2 {
			res[Pair{a, c}] = true
		}
		if l == "DONE" {
			done = true
		}
	}
	if !done {
		return nil, fmt.Errorf("ground-truth run did not finish:\n%s", tail(errb.String()))
	}
	return res, nil
}

func tail(s string) string {
	if len(s) > 2000 {
		return s[len(s)-2000:]
	}
	return s
}
