// Package mugo generates small type-correct Go programs ("µGo") made of many independent
// source-to-sink cases, and computes their marker ground truth by native execution.
// See README.md in this directory for the API contract.
package mugo

import (
	"fmt"
	"go/format"
	"math/rand"
	"os"
	"path/filepath"
	"sort"
	"strings"
)

// Feature is a bit set of generator step kinds.
type Feature uint64

// Step kinds. Every case is a chain of such steps from `source_i()` to `sink_i(x)`.
const (
	FAssign      Feature = 1 << iota // v2 := v1
	FConcat                          // string concatenation / append of bytes
	FConv                            // string <-> []byte, []rune round trip
	FField                           // struct field store / load
	FPtr                             // pointer store / load
	FSlice                           // slice literal, index store, append, index / range load
	FMap                             // map value put / get / range
	FMapKey                          // taint in a map key, read back by range
	FBox                             // interface boxing, type assertion, type switch
	FClosure                         // closure capture (func() T), closure writing a captured variable
	FCall                            // static call returning its argument
	FMultiRet                        // call with several results
	FOutParam                        // call writing through a pointer parameter
	FMethod                          // value / pointer receiver methods
	FIface                           // interface method call (two implementations)
	FFuncVal                         // function values, higher-order apply, immediately applied literal
	FGlobal                          // package-level variable relay (plain load / store)
	FEmbed                           // embedded struct, promoted field
	FPhi                             // merge through opaque branches cond(k) (if / switch / loop)
	FDescend                         // continue the chain inside a callee (static, method, interface, func value)
	FAscend                          // return the carrier to the caller and continue there
	FVariadic                        // variadic call
	FDefer                           // deferred closure assigning a named result; deferred call descending
	FRecursion                       // identity self-recursion (NOT the F1 rotation shape)
	FSanitize                        // pass through `sanitize_i` (identity at run time; for C02)
	FGlobalAgg                       // aggregate globals (struct field / array element of a global): F4 territory
	FCommaOk                         // comma-ok type assertion / type switch (finding C08b when the datum is call result #k, k != 0)
	FGlobalField                     // store into a field of a global struct, read back by a function that only selects the field (on-demand: lang.FnReadsFrom)
	FDeepSource                      // the source call sits in a helper reached through a chain of 7 call nodes and through a short one (entry-point contexts)
	FTuple3                          // calls with three results (finding C08a before its fix)
)

// DefaultFeatures is everything except the shapes that are recorded known findings on the
// current tree or need extra configuration: recursion (F1 territory), array globals (F4), sanitizers
// (C02). Comma-ok assertions (C08b) and three-result calls (C08a) are generated since their fixes.
const DefaultFeatures = FAssign | FConcat | FConv | FField | FPtr | FSlice | FMap | FMapKey | FBox | FClosure |
	FCall | FMultiRet | FOutParam | FMethod | FIface | FFuncVal | FGlobal | FEmbed | FPhi | FDescend | FAscend |
	FVariadic | FDefer | FCommaOk | FGlobalField | FDeepSource | FTuple3

// Options of Generate.
type Options struct {
	Cases       int     // number of cases (default 40)
	MinSteps    int     // default 1
	MaxSteps    int     // default 8
	NegativePct int     // percentage of cases whose datum does NOT reach the sink (default 15)
	Features    Feature // default DefaultFeatures
	MaxDepth    int     // maximal nesting depth of carrier types (default 3)
	FirstID     int     // id of the first case (default 1)
}

// Case describes one generated case.
type Case struct {
	ID       int      // source_<ID>, sink_<ID>, case_<ID>
	Positive bool     // the generator intends the datum to reach the sink on some valuation
	Steps    []string // step kinds applied, in order
	Bits     int      // number of opaque branch bits cond(0..Bits-1) used by the case
	Funcs    int      // number of functions of the case (excluding source / sink)
	SinkType string   // static type of the sink parameter
	Src      string   // the Go text of the case alone (declarations + functions), for replay files
}

// Program is a generated package `main`.
type Program struct {
	Files map[string]string // main.go, rt_stub.go (//go:build !gt), rt_gt.go (//go:build gt), go.mod
	Cases []Case
}

// Module is the module path of generated programs.
const Module = "vprog"

type gen struct {
	r        *rand.Rand
	o        Options
	walkTys  map[string]*Ty // every carrier type ever used, by Go type string (for the walkers)
	walkOrd  []string
	sinkDecl []string // "func sink_3(x T)" heads
}

type frame struct {
	name      string
	recvDecl  string   // "(r c1_R2)" for methods
	params    []string // "x T"
	results   []string
	body      []string
	parent    *frame
	callIdx   int  // index in parent.body of the call statement
	noAscend  bool // called by defer
	extraDecl func(f *frame) string
}

type caseB struct {
	g      *gen
	id     int
	pre    string
	frames []*frame
	fr     *frame
	root   *frame
	decls  []string
	resets []string // statements resetting the case's globals
	n      int
	bits   int
	steps  []string
	cur    string // carrier variable
	ty     *Ty
	reuse  map[string][]string // carrier type -> call formats ("h(\"k\", %s)") of identity helpers already declared
}

func (g *gen) has(f Feature) bool { return g.o.Features&f != 0 }

func (g *gen) reg(t *Ty) *Ty {
	for x := t; x != nil; x = x.Elem {
		s := x.String()
		if _, ok := g.walkTys[s]; !ok {
			g.walkTys[s] = x
			g.walkOrd = append(g.walkOrd, s)
		}
	}
	return t
}

func (b *caseB) remember(ts, callFmt string) {
	if b.reuse == nil {
		b.reuse = map[string][]string{}
	}
	b.reuse[ts] = append(b.reuse[ts], callFmt)
}

func (b *caseB) fresh(p string) string { b.n++; return fmt.Sprintf("%s%d", p, b.n) }
func (b *caseB) v() string             { return b.fresh("v") }
func (b *caseB) top(p string) string   { b.n++; return fmt.Sprintf("%s%s%d", b.pre, p, b.n) }
func (b *caseB) emit(f string, a ...any) {
	b.fr.body = append(b.fr.body, fmt.Sprintf(f, a...))
}
func (b *caseB) decl(f string, a ...any) { b.decls = append(b.decls, fmt.Sprintf(f, a...)) }
func (b *caseB) bit() int                { b.bits++; return b.bits - 1 }
func (b *caseB) set(v string, t *Ty)     { b.cur, b.ty = v, b.g.reg(t) }
func (b *caseB) pick(n int) int          { return b.g.r.Intn(n) }
func (b *caseB) ts() string              { return b.ty.String() }

// step applies one random applicable step; returns its name.
func (b *caseB) step() string {
	type cand struct {
		name string
		w    int
		f    func()
	}
	var cs []cand
	add := func(feat Feature, name string, w int, ok bool, f func()) {
		if ok && b.g.has(feat) {
			cs = append(cs, cand{name, w, f})
		}
	}
	t, c, ts := b.ty, b.cur, b.ts()
	canWrap := t.Depth() < b.g.o.MaxDepth
	deep := t.Depth() >= 2
	uw := 9 // unwrapping steps are only applicable to one carrier kind each: weigh them up
	if deep {
		uw = 18
	}

	add(FAssign, "assign", 2, true, func() { v := b.v(); b.emit("%s := %s", v, c); b.set(v, t) })
	add(FConcat, "concat", 4, t.K == KString, func() {
		v := b.v()
		switch b.pick(4) {
		case 0:
			b.emit(`%s := "p" + %s`, v, c)
		case 1:
			b.emit(`%s := %s + "q"`, v, c)
		case 2:
			b.emit(`%s := "a"`, v)
			b.emit(`%s += %s`, v, c)
		default:
			b.emit(`%s := "<" + %s + ">"`, v, c)
		}
		b.set(v, t)
	})
	add(FConcat, "append-bytes", 3, t.K == KBytes, func() {
		v := b.v()
		if b.pick(2) == 0 {
			b.emit(`%s := append([]byte("p"), %s...)`, v, c)
		} else {
			b.emit(`%s := make([]byte, len(%s))`, v, c)
			b.emit(`copy(%s, %s)`, v, c)
		}
		b.set(v, t)
	})
	add(FConv, "conv-bytes", 3, t.K == KString, func() { v := b.v(); b.emit("%s := []byte(%s)", v, c); b.set(v, &Ty{K: KBytes}) })
	add(FConv, "conv-string", 4, t.K == KBytes, func() { v := b.v(); b.emit("%s := string(%s)", v, c); b.set(v, &Ty{K: KString}) })
	add(FConv, "conv-runes", 1, t.K == KString, func() { v := b.v(); b.emit("%s := string([]rune(%s))", v, c); b.set(v, t) })

	// wrappers
	add(FPtr, "ptr-wrap", 3, canWrap, func() {
		v := b.v()
		if b.pick(2) == 0 {
			b.emit("%s := &%s", v, c)
		} else {
			b.emit("%s := new(%s)", v, ts)
			b.emit("*%s = %s", v, c)
		}
		b.set(v, &Ty{K: KPtr, Elem: t})
	})
	add(FPtr, "ptr-load", uw, t.K == KPtr, func() { v := b.v(); b.emit("%s := *%s", v, c); b.set(v, t.Elem) })
	add(FSlice, "slice-wrap", 3, canWrap, func() {
		v := b.v()
		switch b.pick(3) {
		case 0:
			b.emit("%s := []%s{%s, %s}", v, ts, clean(t), c)
		case 1:
			b.emit("%s := make([]%s, 2)", v, ts)
			b.emit("%s[1] = %s", v, c)
		default:
			b.emit("var %s []%s", v, ts)
			b.emit("%s = append(%s, %s)", v, v, c)
		}
		b.set(v, &Ty{K: KSlice, Elem: t})
	})
	add(FSlice, "slice-load", uw, t.K == KSlice, func() {
		v := b.v()
		if b.pick(2) == 0 {
			b.emit("%s := %s[len(%s)-1]", v, c, c)
		} else {
			b.emit("var %s %s", v, t.Elem.String())
			b.emit("for _, e := range %s { %s = e }", c, v)
		}
		b.set(v, t.Elem)
	})
	add(FMap, "map-wrap", 3, canWrap, func() {
		v := b.v()
		if b.pick(2) == 0 {
			b.emit(`%s := map[string]%s{"k": %s}`, v, ts, c)
		} else {
			b.emit(`%s := map[string]%s{}`, v, ts)
			b.emit(`%s["k"] = %s`, v, c)
		}
		b.set(v, &Ty{K: KMap, Elem: t})
	})
	add(FMap, "map-load", uw, t.K == KMap, func() {
		v := b.v()
		if k := b.pick(3); k == 0 {
			b.emit(`%s := %s["k"]`, v, c)
		} else if k == 1 && b.g.has(FCommaOk) {
			b.emit(`%s, _ := %s["k"]`, v, c)
		} else {
			b.emit("var %s %s", v, t.Elem.String())
			b.emit("for _, e := range %s { %s = e }", c, v)
		}
		b.set(v, t.Elem)
	})
	add(FMapKey, "mapkey-wrap", 2, t.K == KString && canWrap, func() {
		v := b.v()
		b.emit(`%s := map[string]bool{%s: true}`, v, c)
		b.set(v, &Ty{K: KMapKey, Elem: t})
	})
	add(FMapKey, "mapkey-load", uw, t.K == KMapKey, func() {
		v := b.v()
		b.emit("var %s string", v)
		b.emit("for k := range %s { %s = k }", c, v)
		b.set(v, t.Elem)
	})
	add(FField, "field-wrap", 4, canWrap, func() {
		st := b.newStruct(t)
		v := b.v()
		if b.pick(2) == 0 {
			b.emit("%s := %s{%s: %s}", v, st.Name, st.Hot, c)
		} else {
			b.emit("var %s %s", v, st.Name)
			b.emit("%s.%s = %s", v, st.Hot, c)
		}
		b.set(v, st)
	})
	add(FField, "field-load", uw, t.K == KStruct, func() { v := b.v(); b.emit("%s := %s.%s", v, c, t.Hot); b.set(v, t.Elem) })
	add(FField, "field-load-ptr", uw, t.K == KPtr && t.Elem.K == KStruct, func() {
		v := b.v()
		b.emit("%s := %s.%s", v, c, t.Elem.Hot)
		b.set(v, t.Elem.Elem)
	})
	add(FEmbed, "embed-wrap", 3, t.K == KStruct && canWrap, func() {
		name := b.top("E")
		et := &Ty{K: KEmbed, Elem: t, Name: name}
		et.Decl = fmt.Sprintf("type %s struct {\n\t%s\n\textra string\n}", name, t.Name)
		b.decl("%s", et.Decl)
		v := b.v()
		b.emit("%s := %s{%s: %s}", v, name, t.Name, c)
		b.set(v, et)
	})
	add(FEmbed, "embed-load", uw, t.K == KEmbed, func() {
		v := b.v()
		if b.pick(2) == 0 {
			b.emit("%s := %s.%s", v, c, t.Elem.Name)
			b.set(v, t.Elem)
		} else { // promoted field
			b.emit("%s := %s.%s", v, c, t.Elem.Hot)
			b.set(v, t.Elem.Elem)
		}
	})
	add(FBox, "box", 3, canWrap && t.K != KAny, func() {
		v := b.v()
		b.emit("var %s any = %s", v, c)
		b.set(v, &Ty{K: KAny, Elem: t})
	})
	add(FBox, "unbox", uw, t.K == KAny, func() {
		v := b.v()
		es := t.Elem.String()
		nv := 1
		if b.g.has(FCommaOk) {
			nv = 3
		}
		switch b.pick(nv) {
		case 0:
			b.emit("%s := %s.(%s)", v, c, es)
		case 1:
			b.emit("%s, _ := %s.(%s)", v, c, es)
		default:
			b.emit("var %s %s", v, es)
			b.emit("switch x := %s.(type) {\ncase %s:\n%s = x\n}", c, es, v)
		}
		b.set(v, t.Elem)
	})
	add(FClosure, "closure-wrap", 3, canWrap, func() {
		v := b.v()
		b.emit("%s := func() %s { return %s }", v, ts, c)
		b.set(v, &Ty{K: KFunc, Elem: t})
	})
	add(FClosure, "closure-call", uw+4, t.K == KFunc, func() { v := b.v(); b.emit("%s := %s()", v, c); b.set(v, t.Elem) })
	add(FClosure, "closure-write", 3, true, func() {
		v, f := b.v(), b.v()
		b.emit("var %s %s", v, ts)
		b.emit("%s := func() { %s = %s }", f, v, c)
		b.emit("%s()", f)
		b.set(v, t)
	})

	// relays through functions (type preserved)
	add(FCall, "call-id", 4, true, func() {
		h, v := b.top("h"), b.v()
		if b.pick(2) == 0 {
			b.decl("func %s(a string, x %s) %s { return x }", h, ts, ts)
			b.emit(`%s := %s("k", %s)`, v, h, c)
			b.remember(ts, h+`("k", %s)`)
		} else {
			b.decl("func %s(x %s, a string) %s {\n\ty := x\n\treturn y\n}", h, ts, ts)
			b.emit(`%s := %s(%s, "k")`, v, h, c)
			b.remember(ts, h+`(%s, "k")`)
		}
		if b.pick(2) == 0 { // call the same helper again with its own result: two contexts of one function
			fs := b.reuse[ts]
			v2 := b.v()
			b.emit("%s := "+fs[len(fs)-1], v2, v)
			b.steps = append(b.steps, "call-twice")
			b.set(v2, t)
			return
		}
		b.set(v, t)
	})
	add(FCall, "call-reuse", 6, len(b.reuse[ts]) > 0, func() {
		// a second call site of a helper of this case: the flow needs the call-stack context
		fs := b.reuse[ts]
		v := b.v()
		b.emit("%s := "+fs[b.pick(len(fs))], v, c)
		b.set(v, t)
	})
	add(FMultiRet, "multi-ret", 3, true, func() {
		h, v := b.top("h"), b.v()
		if b.pick(2) == 0 {
			b.decl(`func %s(x %s) (string, %s) { return "k", x }`, h, ts, ts)
			b.emit(`_, %s := %s(%s)`, v, h, c)
		} else {
			b.decl(`func %s(x %s) (%s, string) { return x, "k" }`, h, ts, ts)
			b.emit(`%s, _ := %s(%s)`, v, h, c)
		}
		b.set(v, t)
	})
	add(FOutParam, "out-param", 3, true, func() {
		h, v := b.top("h"), b.v()
		b.decl("func %s(x %s, o *%s) { *o = x }", h, ts, ts)
		b.emit("var %s %s", v, ts)
		b.emit("%s(%s, &%s)", h, c, v)
		b.set(v, t)
	})
	add(FMethod, "method-val", 3, true, func() {
		r, a, v := b.top("R"), b.v(), b.v()
		b.decl("type %s struct {\n\tf %s\n\tz string\n}", r, ts)
		b.decl("func (r %s) get() %s { return r.f }", r, ts)
		b.emit("%s := %s{f: %s}", a, r, c)
		b.emit("%s := %s.get()", v, a)
		b.set(v, t)
	})
	add(FMethod, "method-ptr", 3, true, func() {
		r, a, v := b.top("R"), b.v(), b.v()
		b.decl("type %s struct {\n\tz string\n\tf %s\n}", r, ts)
		b.decl("func (r *%s) set(x %s) { r.f = x }", r, ts)
		b.decl("func (r *%s) get() %s { return r.f }", r, ts)
		b.emit("%s := &%s{}", a, r)
		b.emit("%s.set(%s)", a, c)
		b.emit("%s := %s.get()", v, a)
		b.set(v, t)
	})
	add(FIface, "iface-get", 3, true, func() {
		i, r, q, a, v := b.top("I"), b.top("R"), b.top("Q"), b.v(), b.v()
		b.decl("type %s interface{ get() %s }", i, ts)
		b.decl("type %s struct{ f %s }", r, ts)
		b.decl("type %s struct{ z string }", q)
		b.decl("func (r %s) get() %s { return r.f }", r, ts)
		b.decl("func (q %s) get() %s { return %s }", q, ts, clean(t))
		b.emit("var %s %s = %s{f: %s}", a, i, r, c)
		b.emit("if cond(%d) { %s = %s{} }", b.bit(), a, q)
		b.emit("%s := %s.get()", v, a)
		b.set(v, t)
	})
	add(FIface, "iface-id", 3, true, func() {
		i, r, a, v := b.top("I"), b.top("R"), b.v(), b.v()
		b.decl("type %s interface{ id(x %s) %s }", i, ts, ts)
		b.decl("type %s struct{ z string }", r)
		b.decl("func (r %s) id(x %s) %s { return x }", r, ts, ts)
		b.emit("var %s %s = %s{}", a, i, r)
		b.emit("%s := %s.id(%s)", v, a, c)
		b.set(v, t)
	})
	add(FFuncVal, "func-val", 3, true, func() {
		h, a, v := b.top("h"), b.v(), b.v()
		b.decl("func %s(x %s) %s { return x }", h, ts, ts)
		b.emit("%s := %s", a, h)
		b.emit("%s := %s(%s)", v, a, c)
		b.remember(ts, h+"(%s)")
		b.set(v, t)
	})
	add(FFuncVal, "apply", 3, true, func() {
		ap, v := b.top("ap"), b.v()
		b.decl("func %s(f func(%s) %s, x %s) %s { return f(x) }", ap, ts, ts, ts, ts)
		if b.pick(2) == 0 {
			h := b.top("h")
			b.decl("func %s(x %s) %s { return x }", h, ts, ts)
			b.emit("%s := %s(%s, %s)", v, ap, h, c)
		} else {
			b.emit("%s := %s(func(y %s) %s { return y }, %s)", v, ap, ts, ts, c)
		}
		b.set(v, t)
	})
	add(FFuncVal, "lit-call", 2, true, func() {
		v := b.v()
		b.emit("%s := func(y %s) %s { return y }(%s)", v, ts, ts, c)
		b.set(v, t)
	})
	add(FGlobal, "global", 4, true, func() {
		g, v := b.top("g"), b.v()
		b.decl("var %s %s", g, ts)
		b.resets = append(b.resets, fmt.Sprintf("%s = *new(%s)", g, ts))
		k := b.pick(4)
		if k&1 == 0 {
			b.emit("%s = %s", g, c)
		} else {
			w := b.top("wr")
			b.decl("func %s(x %s) { %s = x }", w, ts, g)
			b.emit("%s(%s)", w, c)
		}
		if k&2 == 0 {
			b.emit("%s := %s", v, g)
		} else {
			rd := b.top("rd")
			b.decl("func %s() %s { return %s }", rd, ts, g)
			b.emit("%s := %s()", v, rd)
		}
		b.set(v, t)
	})
	add(FGlobalAgg, "global-agg", 3, true, func() {
		// element / field STORES into a global aggregate: missed by every configuration (finding C01f)
		g, v, rd := b.top("g"), b.v(), b.top("rd")
		if b.pick(2) == 0 {
			b.decl("var %s [2]%s", g, ts)
			b.resets = append(b.resets, fmt.Sprintf("%s = [2]%s{}", g, ts))
			b.emit("%s[1] = %s", g, c)
			b.decl("func %s() %s { return %s[1] }", rd, ts, g)
		} else {
			b.decl("var %s struct {\n\ta string\n\tf %s\n}", g, ts)
			b.resets = append(b.resets, fmt.Sprintf("%s.f = *new(%s)", g, ts))
			b.emit("%s.f = %s", g, c)
			b.decl("func %s() %s { return %s.f }", rd, ts, g)
		}
		b.emit("%s := %s()", v, rd)
		b.set(v, t)
	})
	add(FGlobalField, "global-field", 4, true, func() {
		// whole-struct store into a global; the reader only selects the field and is not otherwise on
		// the path of the datum: in on-demand mode its summary is built only because lang.FnReadsFrom
		// says it reads the global (through FieldAddr)
		gt, g, v, rd := b.top("G"), b.top("g"), b.v(), b.top("rd")
		b.decl("type %s struct {\n\ta string\n\tf %s\n}", gt, ts)
		b.decl("var %s %s", g, gt)
		b.resets = append(b.resets, fmt.Sprintf("%s = %s{}", g, gt))
		if b.pick(2) == 0 {
			tmp := b.v()
			b.emit("%s := %s{f: %s}", tmp, gt, c)
			b.emit("%s = %s", g, tmp)
		} else {
			w := b.top("wr")
			b.decl("func %s(s %s) { %s = s }", w, gt, g)
			b.emit("%s(%s{f: %s})", w, gt, c)
		}
		b.decl("func %s() %s { return %s.f }", rd, ts, g)
		b.emit("%s := %s()", v, rd)
		b.set(v, t)
	})
	add(FCommaOk, "tuple-lookup", 3, true, func() {
		// `_, table := load(); v, ok := table[k]`: the map is built in the callee and comes back as call
		// result #1 (no alias on the caller's side), then a comma-ok lookup
		h, a, v := b.top("h"), b.v(), b.v()
		b.decl(`func %s(x %s) (string, map[string]%s) { return "k", map[string]%s{"k": x} }`, h, ts, ts, ts)
		b.emit("_, %s := %s(%s)", a, h, c)
		b.emit(`%s, _ := %s["k"]`, v, a)
		b.set(v, t)
	})
	add(FCommaOk, "tuple-assert", 3, t.K != KAny, func() {
		// `_, e := load(); v, ok := e.(T)`: boxed in the callee, call result #1, comma-ok assertion (C08b)
		h, a, v := b.top("h"), b.v(), b.v()
		b.decl(`func %s(x %s) (string, any) { return "k", x }`, h, ts)
		b.emit("_, %s := %s(%s)", a, h, c)
		b.emit("%s, _ := %s.(%s)", v, a, ts)
		b.set(v, t)
	})
	add(FTuple3, "multi-ret3", 2, true, func() {
		h, v := b.top("h"), b.v()
		b.decl(`func %s(x %s) (string, int, %s) { return "k", 1, x }`, h, ts, ts)
		b.emit("_, _, %s := %s(%s)", v, h, c)
		b.set(v, t)
	})
	add(FVariadic, "variadic", 2, true, func() {
		h, v := b.top("h"), b.v()
		b.decl("func %s(xs ...%s) %s { return xs[len(xs)-1] }", h, ts, ts)
		b.emit("%s := %s(%s, %s)", v, h, clean(t), c)
		b.set(v, t)
	})
	add(FDefer, "defer-result", 2, true, func() {
		h, v := b.top("h"), b.v()
		b.decl("func %s(x %s) (r %s) {\n\tdefer func() { r = x }()\n\treturn %s\n}", h, ts, ts, clean(t))
		b.emit("%s := %s(%s)", v, h, c)
		b.set(v, t)
	})
	add(FRecursion, "rec-id", 2, true, func() {
		h, v := b.top("h"), b.v()
		b.decl("func %s(x %s, n int) %s {\n\tif n <= 0 {\n\t\treturn x\n\t}\n\treturn %s(x, n-1)\n}", h, ts, ts, h)
		b.emit("%s := %s(%s, 2)", v, h, c)
		b.set(v, t)
	})
	add(FSanitize, "sanitize", 3, t.K == KString, func() {
		v := b.v()
		b.emit("%s := sanitize_%d(%s)", v, b.id, c)
		b.set(v, t)
	})

	// merges
	add(FPhi, "phi", 5, true, func() {
		v := b.v()
		switch b.pick(4) {
		case 0:
			b.emit("var %s %s", v, ts)
			b.emit("if cond(%d) {\n%s = %s\n} else {\n%s = %s\n}", b.bit(), v, c, v, clean(t))
		case 1:
			b.emit("%s := %s", v, clean(t))
			b.emit("if cond(%d) {\n%s = %s\n}", b.bit(), v, c)
		case 2:
			b.emit("%s := %s", v, clean(t))
			b.emit("for i := 0; i < 2; i++ {\nif cond(%d) {\n%s = %s\n}\n}", b.bit(), v, c)
		default:
			b.emit("%s := %s", v, clean(t))
			k1, k2 := b.bit(), b.bit()
			b.emit("switch {\ncase cond(%d):\n%s = %s\ncase cond(%d):\n%s = %s\n}", k1, v, clean(t), k2, v, c)
		}
		b.set(v, t)
	})

	// structure
	add(FDescend, "descend", 6, len(b.frames) < 6, func() { b.descend() })
	add(FAscend, "ascend", 5, !b.fr.noAscend && len(b.frames) < 7, func() { b.ascend() })

	tot := 0
	for _, x := range cs {
		tot += x.w
	}
	k := b.pick(tot)
	for _, x := range cs {
		if k < x.w {
			x.f()
			return x.name
		}
		k -= x.w
	}
	panic("no step")
}

func (b *caseB) newStruct(elem *Ty) *Ty {
	name := b.top("S")
	hot := []string{"f", "g", "h"}[b.pick(3)]
	st := &Ty{K: KStruct, Elem: elem, Name: name, Hot: hot}
	var fs []string
	pos := b.pick(3)
	for i := 0; i < 3; i++ {
		if i == pos {
			fs = append(fs, fmt.Sprintf("\t%s %s", hot, elem.String()))
		} else {
			fs = append(fs, fmt.Sprintf("\tc%d string", i))
		}
	}
	st.Decl = fmt.Sprintf("type %s struct {\n%s\n}", name, strings.Join(fs, "\n"))
	b.decl("%s", st.Decl)
	return st
}

// descend continues the chain in a new callee that receives the carrier as a parameter.
func (b *caseB) descend() {
	ts, c := b.ts(), b.cur
	name := b.top("f")
	nf := &frame{name: name, parent: b.fr}
	p := b.v()
	kinds := []int{0, 0, 1}
	if b.g.has(FIface) {
		kinds = append(kinds, 2)
	}
	if b.g.has(FFuncVal) {
		kinds = append(kinds, 3)
	}
	if b.g.has(FDefer) {
		kinds = append(kinds, 4)
	}
	switch kinds[b.pick(len(kinds))] {
	case 0: // static call, extra clean parameter first or last
		if b.pick(2) == 0 {
			nf.params = []string{"a string", p + " " + ts}
			b.emit(`%s("k", %s)`, name, c)
		} else {
			nf.params = []string{p + " " + ts, "a string"}
			b.emit(`%s(%s, "k")`, name, c)
		}
	case 1: // method on a value receiver
		r := b.top("R")
		b.decl("type %s struct{ z string }", r)
		nf.name, nf.recvDecl = "m", fmt.Sprintf("(r %s)", r)
		nf.params = []string{p + " " + ts}
		b.emit(`%s{}.m(%s)`, r, c)
	case 2: // interface method
		r, i, a := b.top("R"), b.top("I"), b.v()
		b.decl("type %s struct{ z string }", r)
		nf.name, nf.recvDecl = "m", fmt.Sprintf("(r %s)", r)
		nf.params = []string{p + " " + ts}
		nf.extraDecl = func(f *frame) string {
			return fmt.Sprintf("type %s interface{ m(%s) %s }", i, ts, resultSig(f.results))
		}
		b.emit("var %s %s = %s{}", a, i, r)
		b.emit(`%s.m(%s)`, a, c)
	case 3: // function value
		a := b.v()
		nf.params = []string{p + " " + ts}
		b.emit("%s := %s", a, name)
		b.emit(`%s(%s)`, a, c)
	case 4: // deferred static call
		nf.params = []string{p + " " + ts}
		nf.noAscend = true
		b.emit(`defer %s(%s)`, name, c)
	}
	nf.callIdx = len(b.fr.body) - 1
	b.frames = append(b.frames, nf)
	b.fr = nf
	b.set(p, b.ty)
}

func resultSig(rs []string) string {
	switch len(rs) {
	case 0:
		return ""
	case 1:
		return rs[0]
	}
	return "(" + strings.Join(rs, ", ") + ")"
}

// ascend returns the carrier from the current function and continues in its caller.
func (b *caseB) ascend() {
	ts, c := b.ts(), b.cur
	f := b.fr
	v := b.v()
	two := b.g.has(FMultiRet) && b.pick(3) == 0
	if two {
		f.results = []string{ts, "string"}
		f.body = append(f.body, fmt.Sprintf(`return %s, "k"`, c))
	} else {
		f.results = []string{ts}
		f.body = append(f.body, "return "+c)
	}
	lhs := v
	if two {
		lhs = v + ", _"
	}
	if f.parent == nil {
		// the current function was the entry of the case: wrap it in a new entry
		f.name = b.top("f")
		nr := &frame{name: fmt.Sprintf("case_%d", b.id)}
		nr.body = []string{fmt.Sprintf("%s := %s()", lhs, f.name)}
		f.parent, f.callIdx = nr, 0
		b.frames = append(b.frames, nr)
		b.root = nr
	} else {
		f.parent.body[f.callIdx] = lhs + " := " + f.parent.body[f.callIdx]
	}
	b.fr = f.parent
	b.set(v, b.ty)
}

func (g *gen) genCase(id int) (Case, string, []string) {
	b := &caseB{g: g, id: id, pre: fmt.Sprintf("c%d_", id)}
	root := &frame{name: fmt.Sprintf("case_%d", id)}
	b.frames, b.fr, b.root = []*frame{root}, root, root
	v := b.v()
	if g.has(FDeepSource) && g.r.Intn(8) == 0 {
		// entry-point contexts: fetch() holds the source call and is reached through the short chain
		// case -> shallow -> fetch and through the long chain case -> l1 -> ... -> l5 -> fetch;
		// only the long one leads to the sink
		p := b.pre
		b.decl("func %sfetch() string { return source_%d() }", p, id)
		b.decl("func %sshallow() { _ = %sfetch() }", p, p)
		for i := 5; i >= 1; i-- {
			next := fmt.Sprintf("%sl%d", p, i+1)
			if i == 5 {
				next = p + "fetch"
			}
			b.decl("func %sl%d() string { return %s() }", p, i, next)
		}
		b.emit("%sshallow()", p)
		b.emit("%s := %sl1()", v, p)
		b.steps = append(b.steps, "deep-source")
	} else {
		b.emit("%s := source_%d()", v, id)
	}
	b.set(v, &Ty{K: KString})
	n := g.o.MinSteps + g.r.Intn(g.o.MaxSteps-g.o.MinSteps+1)
	for i := 0; i < n; i++ {
		b.steps = append(b.steps, b.step())
	}
	// a function value is not memory: call it before the sink
	for b.ty.hasFunc() {
		b.unwrapOnce()
	}
	positive := g.r.Intn(100) >= g.o.NegativePct
	anySink := g.r.Intn(2) == 0
	sinkTy := b.ts()
	if anySink {
		sinkTy = "any"
	}
	if positive {
		b.emit("sink_%d(%s)", id, b.cur)
	} else {
		switch b.pick(3) {
		case 0:
			b.emit("_ = %s", b.cur)
			b.emit("sink_%d(%s)", id, clean(b.ty))
			b.steps = append(b.steps, "neg-clean-arg")
		case 1:
			w := b.v()
			b.emit("%s := %s", w, b.cur)
			b.emit("%s = %s", w, clean(b.ty))
			b.emit("sink_%d(%s)", id, w)
			b.steps = append(b.steps, "neg-overwrite")
		default:
			w := b.v()
			b.emit("%s := %s", w, clean(b.ty))
			b.emit("sink_%d(%s)", id, w)
			b.emit("%s = %s", w, b.cur)
			b.emit("_ = %s", w)
			b.steps = append(b.steps, "neg-sink-before")
		}
	}
	g.sinkDecl = append(g.sinkDecl, fmt.Sprintf("sink_%d(x %s)", id, sinkTy))

	var sb strings.Builder
	fmt.Fprintf(&sb, "// ---- case %d: %s\n", id, strings.Join(b.steps, " "))
	fmt.Fprintf(&sb, "func source_%d() string { return \"@S%d@\" }\n\n", id, id)
	for _, d := range b.decls {
		sb.WriteString(d + "\n\n")
	}
	// the entry first, then the other functions in creation order
	ord := []*frame{b.root}
	for _, f := range b.frames {
		if f != b.root {
			ord = append(ord, f)
		}
	}
	for _, f := range ord {
		if f.extraDecl != nil {
			sb.WriteString(f.extraDecl(f) + "\n\n")
		}
		recv := ""
		if f.recvDecl != "" {
			recv = f.recvDecl + " "
		}
		fmt.Fprintf(&sb, "func %s%s(%s) %s {\n%s\n}\n\n", recv, f.name, strings.Join(f.params, ", "), resultSig(f.results), strings.Join(f.body, "\n"))
	}
	c := Case{ID: id, Positive: positive, Steps: b.steps, Bits: b.bits, Funcs: len(b.frames), SinkType: sinkTy}
	return c, sb.String(), b.resets
}

// unwrapOnce removes one layer of the carrier type (used to get rid of function values).
func (b *caseB) unwrapOnce() {
	t, c, v := b.ty, b.cur, b.v()
	switch t.K {
	case KFunc:
		b.emit("%s := %s()", v, c)
		b.steps = append(b.steps, "closure-call")
	case KPtr:
		b.emit("%s := *%s", v, c)
		b.steps = append(b.steps, "ptr-load")
	case KSlice:
		b.emit("%s := %s[len(%s)-1]", v, c, c)
		b.steps = append(b.steps, "slice-load")
	case KMap:
		b.emit(`%s := %s["k"]`, v, c)
		b.steps = append(b.steps, "map-load")
	case KStruct:
		b.emit("%s := %s.%s", v, c, t.Hot)
		b.steps = append(b.steps, "field-load")
	case KEmbed:
		b.emit("%s := %s.%s", v, c, t.Elem.Name)
		b.steps = append(b.steps, "embed-load")
	case KAny:
		b.emit("%s := %s.(%s)", v, c, t.Elem.String())
		b.steps = append(b.steps, "unbox")
	default:
		panic("unwrapOnce: " + t.String())
	}
	b.set(v, t.Elem)
}

const prelude = `// Code generated by verif/harness/mugo. DO NOT EDIT.
package main

// W is the opaque branch word; cond(k) reads bit k.
var W int

func cond(k int) bool { return (W>>uint(k))&1 == 1 }

`

// Generate builds a program; every random choice comes from r.
func Generate(r *rand.Rand, o Options) *Program {
	if o.Cases <= 0 {
		o.Cases = 40
	}
	if o.MinSteps <= 0 {
		o.MinSteps = 1
	}
	if o.MaxSteps < o.MinSteps {
		o.MaxSteps = o.MinSteps + 7
	}
	if o.NegativePct == 0 {
		o.NegativePct = 15
	}
	if o.NegativePct < 0 {
		o.NegativePct = 0
	}
	if o.Features == 0 {
		o.Features = DefaultFeatures
	}
	if o.MaxDepth <= 0 {
		o.MaxDepth = 3
	}
	if o.FirstID <= 0 {
		o.FirstID = 1
	}
	g := &gen{r: r, o: o, walkTys: map[string]*Ty{}}
	p := &Program{Files: map[string]string{}}
	var main strings.Builder
	main.WriteString(prelude)
	var resets [][]string
	for i := 0; i < o.Cases; i++ {
		c, src, rs := g.genCase(o.FirstID + i)
		c.Src = gofmt(src)
		main.WriteString(c.Src)
		p.Cases = append(p.Cases, c)
		resets = append(resets, rs)
	}
	p.Files["main.go"] = gofmt(main.String())
	p.Files["rt_stub.go"] = gofmt(g.stubFile(p.Cases))
	p.Files["rt_gt.go"] = gofmt(g.gtFile(p.Cases, resets))
	p.Files["go.mod"] = "module " + Module + "\n\ngo 1.22\n"
	return p
}

func gofmt(s string) string {
	b, err := format.Source([]byte(s))
	if err != nil {
		panic(fmt.Sprintf("mugo: generated text does not parse: %v\n%s", err, s))
	}
	return string(b)
}

func (g *gen) stubFile(cs []Case) string {
	var b strings.Builder
	b.WriteString("//go:build !gt\n\n// Analysis variant: sinks are empty, main calls every case once.\npackage main\n\n")
	for _, d := range g.sinkDecl {
		fmt.Fprintf(&b, "func %s {}\n", d)
	}
	if g.has(FSanitize) {
		for _, c := range cs {
			fmt.Fprintf(&b, "func sanitize_%d(x string) string { return x }\n", c.ID)
		}
	}
	b.WriteString("\nfunc main() {\n")
	for _, c := range cs {
		fmt.Fprintf(&b, "\tcase_%d()\n", c.ID)
	}
	b.WriteString("}\n")
	return b.String()
}

// Write writes the program into dir (created if needed).
func (p *Program) Write(dir string) error {
	if err := os.MkdirAll(dir, 0o755); err != nil {
		return err
	}
	names := make([]string, 0, len(p.Files))
	for n := range p.Files {
		names = append(names, n)
	}
	sort.Strings(names)
	for _, n := range names {
		if err := os.WriteFile(filepath.Join(dir, n), []byte(p.Files[n]), 0o644); err != nil {
			return err
		}
	}
	return nil
}

// CaseByID returns the case with the given id (nil if absent).
func (p *Program) CaseByID(id int) *Case {
	for i := range p.Cases {
		if p.Cases[i].ID == id {
			return &p.Cases[i]
		}
	}
	return nil
}
