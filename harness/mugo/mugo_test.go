package mugo

import (
	"math/rand"
	"testing"

	"verif/harness/lib"
)

func TestGenerateBuildsAndObserves(t *testing.T) {
	for seed := int64(1); seed <= 3; seed++ {
		p := Generate(rand.New(rand.NewSource(seed)), Options{Cases: 60})
		dir := lib.WorkDir("mugo-test", "p")
		if err := p.Write(dir); err != nil {
			t.Fatal(err)
		}
		gt, err := GroundTruth(dir)
		if err != nil {
			t.Fatalf("seed %d: %v", seed, err)
		}
		pos, hit := 0, 0
		for _, c := range p.Cases {
			if c.Positive {
				pos++
				if gt[Pair{c.ID, c.ID}] {
					hit++
				}
			} else if gt[Pair{c.ID, c.ID}] {
				t.Errorf("seed %d: negative case %d observed at run time:\n%s", seed, c.ID, c.Src)
			}
		}
		for pr := range gt {
			if pr.Source != pr.Sink {
				t.Errorf("seed %d: cross-case observation %v", seed, pr)
			}
		}
		t.Logf("seed %d: %d cases, %d positive, %d observed", seed, len(p.Cases), pos, hit)
		if hit*10 < pos*9 {
			t.Errorf("seed %d: only %d of %d positive cases observed", seed, hit, pos)
		}
	}
}

func TestDeterministic(t *testing.T) {
	a := Generate(rand.New(rand.NewSource(7)), Options{Cases: 20})
	b := Generate(rand.New(rand.NewSource(7)), Options{Cases: 20})
	if a.Files["main.go"] != b.Files["main.go"] || a.Files["rt_gt.go"] != b.Files["rt_gt.go"] {
		t.Fatal("generator is not a function of the PRNG")
	}
}
