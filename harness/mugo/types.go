package mugo

import "fmt"

// Kind of a carrier type.
type Kind int

// Carrier type kinds. A carrier is the variable that currently holds the tainted datum of a case.
const (
	KString Kind = iota // string
	KBytes              // []byte
	KPtr                // *Elem
	KSlice              // []Elem
	KMap                // map[string]Elem   (taint in a value)
	KMapKey             // map[string]bool   (taint in a key)
	KStruct             // named struct with one "hot" field of type Elem
	KEmbed              // named struct embedding the KStruct Elem
	KAny                // any, dynamic type Elem
	KFunc               // func() Elem  (closure capturing the datum)
)

// Ty is a carrier type.
type Ty struct {
	K    Kind
	Elem *Ty
	Name string // KStruct / KEmbed: type name
	Hot  string // KStruct: name of the field of type Elem that carries the datum
	Decl string // KStruct / KEmbed: the type declaration
}

// String renders the Go type.
func (t *Ty) String() string {
	switch t.K {
	case KString:
		return "string"
	case KBytes:
		return "[]byte"
	case KPtr:
		return "*" + t.Elem.String()
	case KSlice:
		return "[]" + t.Elem.String()
	case KMap:
		return "map[string]" + t.Elem.String()
	case KMapKey:
		return "map[string]bool"
	case KStruct, KEmbed:
		return t.Name
	case KAny:
		return "any"
	case KFunc:
		return "func() " + t.Elem.String()
	}
	panic("kind")
}

// Depth is the nesting depth of the type.
func (t *Ty) Depth() int {
	if t.Elem == nil {
		return 0
	}
	return 1 + t.Elem.Depth()
}

// hasFunc reports whether a function value occurs in the type (such data is not "memory reachable"
// for the marker walker, so it must be unwrapped before reaching a sink).
func (t *Ty) hasFunc() bool {
	for x := t; x != nil; x = x.Elem {
		if x.K == KFunc {
			return true
		}
	}
	return false
}

// clean renders an expression of type t that carries no marker.
func clean(t *Ty) string {
	switch t.K {
	case KString:
		return `"k"`
	case KBytes:
		return `[]byte("k")`
	case KSlice:
		return fmt.Sprintf("%s{%s}", t.String(), clean(t.Elem))
	case KMap:
		return fmt.Sprintf("%s{\"k\": %s}", t.String(), clean(t.Elem))
	case KMapKey:
		return `map[string]bool{"k": true}`
	case KAny:
		return fmt.Sprintf("any(%s)", clean(t.Elem))
	case KFunc:
		return fmt.Sprintf("func() %s { return %s }", t.Elem.String(), clean(t.Elem))
	case KStruct:
		return fmt.Sprintf("%s{%s: %s}", t.Name, t.Hot, clean(t.Elem))
	case KEmbed:
		return fmt.Sprintf("%s{%s: %s}", t.Name, t.Elem.Name, clean(t.Elem))
	case KPtr:
		if t.Elem.K == KStruct || t.Elem.K == KEmbed || t.Elem.K == KSlice || t.Elem.K == KMap || t.Elem.K == KMapKey {
			return "&" + clean(t.Elem)
		}
		return fmt.Sprintf("new(%s)", t.Elem.String())
	}
	panic("kind")
}
