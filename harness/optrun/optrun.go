// Package optrun (owner: C20/C06/C05) runs the REAL taint / backtrace analyses of the repository under
// verification in-process on a loaded program under a chosen combination of configuration
// options, and returns canonicalised results (position pairs, sorted).  Options are applied by
// rewriting the `options:` block of the program's own configuration file text and loading it with
// config.Load, so load-time work (regex compilation, reports dir) happens exactly as in the tool.
package optrun

import (
	"fmt"
	"go/token"
	"os"
	"path/filepath"
	"runtime/debug"
	"sort"
	"strings"
	"sync"

	"github.com/awslabs/ar-go-tools/analysis"
	"github.com/awslabs/ar-go-tools/analysis/backtrace"
	"github.com/awslabs/ar-go-tools/analysis/config"
	"github.com/awslabs/ar-go-tools/analysis/dataflow"
	"github.com/awslabs/ar-go-tools/analysis/taint"
	"golang.org/x/tools/go/packages"
	"golang.org/x/tools/go/ssa"
	"verif/harness/lib"
)

// Program is a loaded program plus the text of its configuration file.
type Program struct {
	Name    string
	Dir     string
	CfgPath string // path used for relative file names inside the config
	YAML    string // configuration text (yaml)
	Prog    *ssa.Program
	Pkgs    []*packages.Package
}

func goEnv() []string {
	return append(os.Environ(), "GOFLAGS=-mod=mod", "GOPROXY=off", "GOSUMDB=off", "GOTOOLCHAIN=local", "GOWORK=off")
}

// Load loads the top-level .go files of dir the way the repository's tests do (file= patterns,
// package name command-line-arguments) and attaches the configuration text.
func Load(name, dir, cfgPath, yaml string, rewrites bool) (p *Program, err error) {
	defer func() {
		if r := recover(); r != nil {
			p, err = nil, fmt.Errorf("panic while loading %s: %v", dir, r)
		}
	}()
	ents, err := os.ReadDir(dir)
	if err != nil {
		return nil, err
	}
	var patterns []string
	for _, e := range ents {
		if !e.IsDir() && strings.HasSuffix(e.Name(), ".go") && !strings.HasSuffix(e.Name(), "_test.go") {
			patterns = append(patterns, "file="+filepath.Join(dir, e.Name()))
		}
	}
	if len(patterns) == 0 {
		return nil, fmt.Errorf("no go files in %s", dir)
	}
	pcfg := &packages.Config{Mode: analysis.PkgLoadMode, Tests: false, Dir: dir, Env: goEnv()}
	prog, pkgs, err := analysis.LoadProgram(analysis.LoadProgramOptions{
		BuildMode: ssa.InstantiateGenerics, ApplyRewrites: rewrites, PackageConfig: pcfg}, patterns)
	if err != nil {
		return nil, err
	}
	return &Program{Name: name, Dir: dir, CfgPath: cfgPath, YAML: yaml, Prog: prog, Pkgs: pkgs}, nil
}

// LoadTestdata loads analysis/<analysis>/testdata/<name> of the repository under verification with its config.yaml.
func LoadTestdata(analysisName, name string) (*Program, error) {
	dir := filepath.Join(lib.RepoDir(), "analysis", analysisName, "testdata", name)
	cfgPath := filepath.Join(dir, "config.yaml")
	b, err := os.ReadFile(cfgPath)
	if err != nil {
		return nil, err
	}
	return Load(analysisName+"/"+name, dir, cfgPath, string(b), true)
}

// Opts: option overrides. Keys are yaml names of config.Options fields ("summarize-on-demand",
// "pkg-filter", "max-alarms", "report-summaries", "report-coverage", "report-paths",
// "report-no-callee-sites", "reports-dir", "log-level", "coverage-filter", "silence-warn", …);
// values are yaml scalars as text (strings must be quoted by the caller).
type Opts map[string]string

// Name is a stable label.
func (o Opts) Name() string {
	var ks []string
	for k := range o {
		if k == "reports-dir" || k == "log-level" {
			continue
		}
		ks = append(ks, k)
	}
	sort.Strings(ks)
	var parts []string
	for _, k := range ks {
		parts = append(parts, k+"="+o[k])
	}
	if len(parts) == 0 {
		return "default"
	}
	return strings.Join(parts, ",")
}

// With returns a copy with one more override.
func (o Opts) With(k, v string) Opts {
	c := Opts{}
	for a, b := range o {
		c[a] = b
	}
	c[k] = v
	return c
}

// ApplyOpts rewrites the `options:` block of a yaml configuration text.
func ApplyOpts(yaml string, o Opts) string {
	lines := strings.Split(yaml, "\n")
	start := -1
	for i, l := range lines {
		if strings.HasPrefix(l, "options:") {
			start = i
			break
		}
	}
	keys := make([]string, 0, len(o))
	for k := range o {
		keys = append(keys, k)
	}
	sort.Strings(keys)
	if start < 0 {
		var b strings.Builder
		b.WriteString("options:\n")
		for _, k := range keys {
			fmt.Fprintf(&b, "  %s: %s\n", k, o[k])
		}
		return b.String() + yaml
	}
	// block extent and indentation
	end := len(lines)
	indent := ""
	for i := start + 1; i < len(lines); i++ {
		l := lines[i]
		t := strings.TrimSpace(l)
		if t == "" || strings.HasPrefix(t, "#") {
			continue
		}
		if !strings.HasPrefix(l, " ") && !strings.HasPrefix(l, "\t") {
			end = i
			break
		}
		if indent == "" {
			indent = l[:len(l)-len(strings.TrimLeft(l, " \t"))]
		}
	}
	if indent == "" {
		indent = "  "
	}
	var out []string
	out = append(out, lines[:start+1]...)
	for _, k := range keys {
		out = append(out, indent+k+": "+o[k])
	}
	for i := start + 1; i < end; i++ {
		l := lines[i]
		drop := false
		if strings.HasPrefix(l, indent) && !strings.HasPrefix(l[len(indent):], " ") {
			for _, k := range keys {
				if strings.HasPrefix(l[len(indent):], k+":") {
					drop = true
				}
			}
		}
		if !drop {
			out = append(out, l)
		}
	}
	out = append(out, lines[end:]...)
	return strings.Join(out, "\n")
}

// Config builds the configuration for o.
func (p *Program) Config(o Opts) (*config.Config, error) {
	if _, ok := o["log-level"]; !ok {
		o = o.With("log-level", "1")
	}
	cfg, err := config.Load(p.CfgPath, []byte(ApplyOpts(p.YAML, o)))
	if err != nil {
		return nil, err
	}
	if cfg.EscapeConfigFile != "" {
		b, err := os.ReadFile(cfg.RelPath(cfg.EscapeConfigFile))
		if err != nil {
			return nil, err
		}
		if err := config.LoadEscape(cfg, b); err != nil {
			return nil, err
		}
	}
	return cfg, nil
}

// Result of one analysis run, canonicalised.
type Result struct {
	Flows     []string // taint: "srcpos->sinkpos" (positions file:line:col, contexts collapsed), sorted, unique
	FlowsCtx  []string // taint: with the context strings of source and sink nodes
	Escapes   []string // taint with escape analysis: "escpos<-srcpos"
	Endpoints []string // backtrace: "entrypos<=firstnodepos" per trace, sorted, unique
	Err       string
	Panic     string
	CfgErr    error
	State     *dataflow.AnalyzerState
}

// OK: ran to completion.
func (r *Result) OK() bool { return r.CfgErr == nil && r.Panic == "" }

// Canon is the canonical text compared across runs.
func (r *Result) Canon() string {
	return "flows:" + strings.Join(r.Flows, ";") + "|escapes:" + strings.Join(r.Escapes, ";") +
		"|endpoints:" + strings.Join(r.Endpoints, ";") + "|panic:" + firstLine(r.Panic)
}

func firstLine(s string) string {
	if i := strings.IndexByte(s, '\n'); i >= 0 {
		return s[:i]
	}
	return s
}

// KeepState makes Taint keep the analyzer state in Result.State (large: holds the whole flow graph and
// the pointer analysis). Off by default.
var KeepState = false

var stdoutMu sync.Mutex

// quiet runs f with os.Stdout redirected to /dev/null (the tool logs to os.Stdout).
func quiet(f func()) {
	stdoutMu.Lock()
	defer stdoutMu.Unlock()
	saved := os.Stdout
	if null, err := os.OpenFile(os.DevNull, os.O_WRONLY, 0); err == nil {
		os.Stdout = null
		defer func() { os.Stdout = saved; null.Close() }()
	}
	f()
}

func pos(prog *ssa.Program, ins ssa.Instruction) string {
	if ins == nil {
		return "?"
	}
	p := prog.Fset.Position(ins.Pos())
	fn := ""
	if ins.Parent() != nil {
		fn = ins.Parent().Name()
	}
	return fmt.Sprintf("%s:%d:%d(%s)", filepath.Base(p.Filename), p.Line, p.Column, fn)
}

func uniq(xs []string) []string {
	sort.Strings(xs)
	var out []string
	for i, x := range xs {
		if i == 0 || x != xs[i-1] {
			out = append(out, x)
		}
	}
	return out
}

// Taint runs taint.Analyze under o.
func (p *Program) Taint(o Opts) (res *Result) {
	res = &Result{}
	cfg, err := p.Config(o)
	if err != nil {
		res.CfgErr = err
		return res
	}
	quiet(func() {
		defer func() {
			if r := recover(); r != nil {
				res.Panic = fmt.Sprintf("%v\n%s", r, debug.Stack())
			}
		}()
		ar, err := taint.Analyze(cfg, p.Prog, p.Pkgs)
		if err != nil {
			res.Err = err.Error()
		}
		if KeepState {
			res.State = ar.State
		}
		if ar.TaintFlows == nil {
			return
		}
		for snk, srcs := range ar.TaintFlows.Sinks {
			for src := range srcs {
				res.Flows = append(res.Flows, pos(p.Prog, src.Instr)+"->"+pos(p.Prog, snk.Instr))
				res.FlowsCtx = append(res.FlowsCtx, pos(p.Prog, src.Instr)+"["+src.Trace+"]->"+pos(p.Prog, snk.Instr)+"["+snk.Trace+"]")
			}
		}
		for esc, srcs := range ar.TaintFlows.Escapes {
			for src := range srcs {
				res.Escapes = append(res.Escapes, pos(p.Prog, esc)+"<-"+pos(p.Prog, src))
			}
		}
	})
	res.Flows, res.FlowsCtx, res.Escapes = uniq(res.Flows), uniq(res.FlowsCtx), uniq(res.Escapes)
	return res
}

// Backtrace runs backtrace.Analyze under o; endpoints = (entry node position, first node of the trace).
func (p *Program) Backtrace(o Opts) (res *Result) {
	res = &Result{}
	cfg, err := p.Config(o)
	if err != nil {
		res.CfgErr = err
		return res
	}
	quiet(func() {
		defer func() {
			if r := recover(); r != nil {
				res.Panic = fmt.Sprintf("%v\n%s", r, debug.Stack())
			}
		}()
		ar, err := backtrace.Analyze(config.NewLogGroup(cfg), cfg, p.Prog, p.Pkgs)
		if err != nil {
			res.Err = err.Error()
		}
		for entry, traces := range ar.Traces {
			for _, tr := range traces {
				if len(tr) == 0 {
					continue
				}
				res.Endpoints = append(res.Endpoints,
					fmtPos(entry.Position(ar.Graph.AnalyzerState), entry)+"<="+fmtPos(tr[0].Pos, tr[0].GraphNode))
			}
		}
	})
	res.Endpoints = uniq(res.Endpoints)
	return res
}

func fmtPos(pp token.Position, n dataflow.GraphNode) string {
	fn := ""
	if n != nil && n.Graph() != nil && n.Graph().Parent != nil {
		fn = n.Graph().Parent.Name()
	}
	kind := strings.TrimPrefix(fmt.Sprintf("%T", n), "*dataflow.")
	return fmt.Sprintf("%s:%d:%d(%s){%s}", filepath.Base(pp.Filename), pp.Line, pp.Column, fn, kind)
}
