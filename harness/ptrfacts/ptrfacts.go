// Package ptrfacts dumps, for the C11 / C12 oracles, the first-order SSA facts of a loaded program
// together with the REAL result of the repository's pointer analysis (points-to label sets of every
// queried value, call-graph edges per call site, reachable functions).  The line protocol is
// documented in lean/Argot/Model/PtrFacts.lean; the instruction mapping in lean/Argot/Model/Ptr.lean.
package ptrfacts

import (
	"fmt"
	"go/token"
	"go/types"
	"sort"
	"strings"

	"github.com/awslabs/ar-go-tools/analysis/dataflow"
	"golang.org/x/tools/go/callgraph"
	"golang.org/x/tools/go/ssa"
	"golang.org/x/tools/go/types/typeutil"
)

// PanicGlobal is the pseudo global that carries panic values (internal/pointer's panicNode).
const PanicGlobal = 0

// Dump is the result of dumping one analysed program.
type Dump struct {
	State *dataflow.AnalyzerState
	Funcs []*ssa.Function
	FnID  map[*ssa.Function]int
	Reg   map[*ssa.Function]map[ssa.Value]int
	// per function: the dumped instruction list (index = position in the oracle's code list) with its SSA origin
	Code     map[int][]ssa.Instruction
	CallSite map[ssa.CallInstruction]int // call-site id (unique per function)
	SiteOf   map[ssa.Value]int           // allocation-like instruction -> alloc site id
	GlobOf   map[*ssa.Global]int
	IfaceOf  map[*ssa.MakeInterface]int
	TypeOf   typeutil.Map // concrete type -> type id
	nType    int
	MethOf   map[string]int
	FieldOf  map[string]int
	unknown  map[string]int
	Lines    []string
	// problems
	Unsupported  []string // constructs outside the modelled fragment in reachable functions
	MissingQuery []string // pointer-like operands of reachable functions without a Queries entry
	LeafShaped   []string // reachable functions the solver clones per call site (criterion not applicable)
	Kinds        map[string]int
	nextDead     int
	allTypes     []types.Type
	unsup        []unsup
	vregs        map[ssa.Value]map[string]int
	nextVreg     int
}

// CanPoint mirrors internal/pointer.CanPoint (an external module cannot import internal packages).
func CanPoint(T types.Type) bool {
	switch T := T.(type) {
	case *types.Named:
		if obj := T.Obj(); obj.Name() == "Value" && obj.Pkg() != nil && obj.Pkg().Path() == "reflect" {
			return true
		}
		return CanPoint(T.Underlying())
	case *types.Alias:
		return CanPoint(types.Unalias(T))
	case *types.Pointer, *types.Interface, *types.Map, *types.Chan, *types.Signature, *types.Slice:
		return true
	}
	return false
}

// HasPointers: does a value of type T contain pointer-like parts (directly or inside structs / arrays / tuples)?
func HasPointers(T types.Type) bool {
	if CanPoint(T) {
		return true
	}
	switch U := T.Underlying().(type) {
	case *types.Struct:
		for i := 0; i < U.NumFields(); i++ {
			if HasPointers(U.Field(i).Type()) {
				return true
			}
		}
	case *types.Array:
		return HasPointers(U.Elem())
	case *types.Tuple:
		for i := 0; i < U.Len(); i++ {
			if HasPointers(U.At(i).Type()) {
				return true
			}
		}
	}
	return false
}

// leafShaped mirrors shouldUseContext of internal/pointer/gen.go (without intrinsics).
func leafShaped(fn *ssa.Function) bool {
	if len(fn.Blocks) != 1 {
		return false
	}
	blk := fn.Blocks[0]
	if len(blk.Instrs) > 10 {
		return false
	}
	if fn.Synthetic != "" && (fn.Pkg == nil || fn != fn.Pkg.Func("init")) {
		return true
	}
	for _, instr := range blk.Instrs {
		if c, ok := instr.(ssa.CallInstruction); ok {
			if _, ok := c.Common().Value.(*ssa.Builtin); !ok {
				return false
			}
		}
	}
	return true
}

func (d *Dump) fn(f *ssa.Function) int {
	if id, ok := d.FnID[f]; ok {
		return id
	}
	id := len(d.Funcs)
	d.FnID[f] = id
	d.Funcs = append(d.Funcs, f)
	return id
}

func (d *Dump) site(v ssa.Value) int {
	if id, ok := d.SiteOf[v]; ok {
		return id
	}
	id := len(d.SiteOf) + 1
	d.SiteOf[v] = id
	return id
}

func (d *Dump) glob(g *ssa.Global) int {
	if id, ok := d.GlobOf[g]; ok {
		return id
	}
	id := len(d.GlobOf) + 1 // 0 is the panic pseudo global
	d.GlobOf[g] = id
	return id
}

func (d *Dump) typ(t types.Type) int {
	if id := d.TypeOf.At(t); id != nil {
		return id.(int)
	}
	d.nType++
	d.TypeOf.Set(t, d.nType)
	return d.nType
}

func (d *Dump) iface(m *ssa.MakeInterface) int {
	if id, ok := d.IfaceOf[m]; ok {
		return id
	}
	id := len(d.IfaceOf) + 1
	d.IfaceOf[m] = id
	return id
}

func intern(m map[string]int, s string) int {
	if id, ok := m[s]; ok {
		return id
	}
	id := len(m) + 1
	m[s] = id
	return id
}

// regs numbers the local values of f.
func (d *Dump) regs(f *ssa.Function) map[ssa.Value]int {
	if m, ok := d.Reg[f]; ok {
		return m
	}
	m := map[ssa.Value]int{}
	for _, p := range f.Params {
		m[p] = len(m)
	}
	for _, p := range f.FreeVars {
		m[p] = len(m)
	}
	for _, b := range f.Blocks {
		for _, ins := range b.Instrs {
			if v, ok := ins.(ssa.Value); ok {
				m[v] = len(m)
			}
		}
	}
	d.Reg[f] = m
	return m
}

// opnd renders an operand; non-pointer-like operands are constants for the machine.
func (d *Dump) opnd(f *ssa.Function, v ssa.Value) string {
	switch v := v.(type) {
	case *ssa.Const:
		return "c"
	case *ssa.Global:
		return fmt.Sprintf("g%d", d.glob(v))
	case *ssa.Function:
		return fmt.Sprintf("f%d", d.fn(v))
	case *ssa.Builtin:
		return "c"
	}
	if !CanPoint(v.Type()) {
		if HasPointers(v.Type()) {
			d.unsupported(f, nil, "aggregate-valued operand "+v.Name()+" : "+v.Type().String())
		}
		return "c"
	}
	r, ok := d.regs(f)[v]
	if !ok {
		d.unsupported(f, nil, "operand from another function: "+v.Name())
		return "c"
	}
	return fmt.Sprintf("r%d", r)
}

func (d *Dump) unsupported(f *ssa.Function, ins ssa.Instruction, why string) {
	s := f.String() + ": " + why
	if ins != nil {
		s += " in `" + ins.String() + "`"
	}
	d.unsup = append(d.unsup, unsup{f, s})
}

type unsup struct {
	fn   *ssa.Function
	text string
}

func (d *Dump) emit(f int, ins ssa.Instruction, format string, args ...any) {
	d.Lines = append(d.Lines, fmt.Sprintf("i %d ", f)+fmt.Sprintf(format, args...))
	d.Code[f] = append(d.Code[f], ins)
}

func (d *Dump) dead() int { d.nextDead++; return 1000000 + d.nextDead }

// ---- aggregates ------------------------------------------------------------------------------
// A struct-valued SSA register cannot be queried (CanPoint is false) and the solver gives it one node
// per flattened field.  It is dumped as a group of VIRTUAL registers, one per pointer-like leaf
// (numbers >= VBase); the oracle derives their points-to sets and `ptrClosed` checks them against the
// real sets of the queryable registers they flow into.  Arrays / tuples with pointers held BY VALUE
// are outside the fragment.

// VBase is the first virtual register number (must equal `vbase` of Argot/Model/PtrFacts.lean).
const VBase = 2000000

type leaf struct {
	path []string // field names
	typ  types.Type
}

// leavesOf: the pointer-like leaves of a value of type T. ok=false: pointers in a by-value array/tuple.
func leavesOf(T types.Type) ([]leaf, bool) {
	if CanPoint(T) {
		return []leaf{{nil, T}}, true
	}
	switch U := T.Underlying().(type) {
	case *types.Struct:
		var out []leaf
		for i := 0; i < U.NumFields(); i++ {
			ls, ok := leavesOf(U.Field(i).Type())
			if !ok {
				return nil, false
			}
			for _, l := range ls {
				out = append(out, leaf{append([]string{U.Field(i).Name()}, l.path...), l.typ})
			}
		}
		return out, true
	case *types.Array, *types.Tuple:
		return nil, !HasPointers(T)
	}
	return nil, true
}

func isAgg(T types.Type) bool { return !CanPoint(T) && HasPointers(T) }

func (d *Dump) pathStr(prefix string, path []string) string {
	var ss []string
	if prefix != "" {
		ss = append(ss, prefix)
	}
	for _, n := range path {
		ss = append(ss, fmt.Sprintf("F%d", intern(d.FieldOf, n)))
	}
	if len(ss) == 0 {
		return "-"
	}
	return strings.Join(ss, ".")
}

func (d *Dump) vreg(v ssa.Value, path []string) int {
	key := strings.Join(path, ".")
	m := d.vregs[v]
	if m == nil {
		m = map[string]int{}
		d.vregs[v] = m
	}
	if r, ok := m[key]; ok {
		return r
	}
	d.nextVreg++
	r := VBase + d.nextVreg
	m[key] = r
	return r
}

// slotPaths: the slots a value of type T occupies in a parameter / result / binding list: one per
// pointer-like leaf for an aggregate, exactly one otherwise.
func (d *Dump) slotPaths(fn *ssa.Function, T types.Type, where ssa.Instruction) [][]string {
	if isAgg(T) {
		ls, ok := leavesOf(T)
		if !ok {
			d.unsupported(fn, where, "array / tuple with pointers held by value: "+T.String())
			return nil
		}
		var out [][]string
		for _, l := range ls {
			out = append(out, l.path)
		}
		return out
	}
	return [][]string{nil}
}

// srcSlots: the operands of a value used as a source (argument, result, binding, stored value).
func (d *Dump) srcSlots(fn *ssa.Function, v ssa.Value, where ssa.Instruction) []string {
	if isAgg(v.Type()) {
		var out []string
		for _, p := range d.slotPaths(fn, v.Type(), where) {
			if _, isConst := v.(*ssa.Const); isConst {
				out = append(out, "c")
			} else {
				out = append(out, fmt.Sprintf("r%d", d.vreg(v, p)))
			}
		}
		return out
	}
	return []string{d.opnd(fn, v)}
}

// dstSlots: the registers of a value used as a destination (nil value: as many dead registers as the type has slots).
func (d *Dump) dstSlots(fn *ssa.Function, v ssa.Value, T types.Type, where ssa.Instruction) []int {
	paths := d.slotPaths(fn, T, where)
	var out []int
	for _, p := range paths {
		switch {
		case v == nil:
			out = append(out, d.dead())
		case isAgg(T):
			out = append(out, d.vreg(v, p))
		default:
			out = append(out, d.regs(fn)[v])
		}
	}
	return out
}

// component returns the `extract #i` value of a tuple-valued instruction (nil if never extracted).
func (d *Dump) component(fn *ssa.Function, v ssa.Value, i int) ssa.Value {
	var found ssa.Value
	if refs := v.Referrers(); refs != nil {
		for _, r := range *refs {
			if e, ok := r.(*ssa.Extract); ok {
				if e.Index == i {
					if found != nil {
						d.unsupported(fn, e, "component extracted twice")
					}
					found = e
				}
			} else if _, isDbg := r.(*ssa.DebugRef); !isDbg {
				d.unsupported(fn, r, "tuple used other than by extract")
			}
		}
	}
	return found
}

// target: the value that receives the result of a possibly comma-ok instruction.
func (d *Dump) target(fn *ssa.Function, v ssa.Value, commaOk bool) ssa.Value {
	if commaOk {
		return d.component(fn, v, 0)
	}
	return v
}

func joinInts(xs []int) string {
	if len(xs) == 0 {
		return "-"
	}
	var ss []string
	for _, x := range xs {
		ss = append(ss, fmt.Sprint(x))
	}
	return strings.Join(ss, ",")
}

func joinStrs(xs []string) string {
	if len(xs) == 0 {
		return "-"
	}
	return strings.Join(xs, ",")
}

// loadInto emits the loads of a value of type T from the cell(s) `sel` below pointer operand x.
func (d *Dump) loadInto(fn *ssa.Function, f int, ins ssa.Instruction, dst ssa.Value, T types.Type, x string, sel string) bool {
	if !HasPointers(T) {
		return false
	}
	paths := d.slotPaths(fn, T, ins)
	regs := d.dstSlots(fn, dst, T, ins)
	for i, p := range paths {
		d.emit(f, ins, "load %d %s %s", regs[i], x, d.pathStr(sel, p))
	}
	return true
}

// storeFrom emits the stores of value v into the cell(s) `sel` below pointer operand x.
func (d *Dump) storeFrom(fn *ssa.Function, f int, ins ssa.Instruction, v ssa.Value, x string, sel string) bool {
	if !HasPointers(v.Type()) {
		return false
	}
	paths := d.slotPaths(fn, v.Type(), ins)
	srcs := d.srcSlots(fn, v, ins)
	for i, p := range paths {
		d.emit(f, ins, "store %s %s %s", x, d.pathStr(sel, p), srcs[i])
	}
	return true
}

// copyInto emits dst := src slot by slot.
func (d *Dump) copyInto(fn *ssa.Function, f int, ins ssa.Instruction, dst ssa.Value, src ssa.Value) bool {
	if !HasPointers(dst.Type()) {
		return false
	}
	regs := d.dstSlots(fn, dst, dst.Type(), ins)
	srcs := d.srcSlots(fn, src, ins)
	if len(regs) != len(srcs) {
		d.unsupported(fn, ins, "copy between differently shaped values")
		return false
	}
	for i := range regs {
		d.emit(f, ins, "copy %d %s", regs[i], srcs[i])
	}
	return true
}

func (d *Dump) instr(fn *ssa.Function, f int, ins ssa.Instruction) {
	reg := d.regs(fn)
	switch ins := ins.(type) {
	case *ssa.Alloc, *ssa.MakeSlice, *ssa.MakeMap, *ssa.MakeChan:
		v := ins.(ssa.Value)
		d.emit(f, ins, "alloc %d %d", reg[v], d.site(v))
		d.Kinds[fmt.Sprintf("%T", ins)]++
	case *ssa.Phi:
		if HasPointers(ins.Type()) {
			for _, e := range ins.Edges {
				d.copyInto(fn, f, ins, ins, e)
			}
			d.kind("Phi", ins.Type())
		}
	case *ssa.ChangeType:
		if d.copyInto(fn, f, ins, ins, ins.X) {
			d.kind("ChangeType", ins.Type())
		}
	case *ssa.ChangeInterface:
		if d.copyInto(fn, f, ins, ins, ins.X) {
			d.Kinds["ChangeInterface"]++
		}
	case *ssa.Slice:
		if d.copyInto(fn, f, ins, ins, ins.X) {
			d.Kinds["Slice"]++
		}
	case *ssa.SliceToArrayPointer:
		if d.copyInto(fn, f, ins, ins, ins.X) {
			d.Kinds["SliceToArrayPointer"]++
		}
	case *ssa.Convert:
		if isAgg(ins.Type()) {
			d.copyInto(fn, f, ins, ins, ins.X)
			return
		}
		if !CanPoint(ins.Type()) {
			return
		}
		_, srcBasic := ins.X.Type().Underlying().(*types.Basic)
		if _, isSlice := ins.Type().Underlying().(*types.Slice); isSlice && srcBasic {
			d.emit(f, ins, "alloc %d %d", reg[ins], d.site(ins)) // string -> []byte / []rune
			d.Kinds["Convert-alloc"]++
			return
		}
		d.unsupported(fn, ins, "pointer-like conversion (unsafe)")
	case *ssa.FieldAddr:
		st := ins.X.Type().Underlying().(*types.Pointer).Elem().Underlying().(*types.Struct)
		d.emit(f, ins, "addr %d %s F%d", reg[ins], d.opnd(fn, ins.X), intern(d.FieldOf, st.Field(ins.Field).Name()))
		d.Kinds["FieldAddr"]++
	case *ssa.IndexAddr:
		d.emit(f, ins, "addr %d %s E", reg[ins], d.opnd(fn, ins.X))
		d.Kinds["IndexAddr"]++
	case *ssa.Field:
		if !HasPointers(ins.Type()) {
			return
		}
		st := ins.X.Type().Underlying().(*types.Struct)
		name := st.Field(ins.Field).Name()
		paths := d.slotPaths(fn, ins.Type(), ins)
		regs := d.dstSlots(fn, ins, ins.Type(), ins)
		for i, p := range paths {
			src := "c"
			if _, isConst := ins.X.(*ssa.Const); !isConst {
				src = fmt.Sprintf("r%d", d.vreg(ins.X, append([]string{name}, p...)))
			}
			d.emit(f, ins, "copy %d %s", regs[i], src)
		}
		d.kind("Field", ins.Type())
	case *ssa.UnOp:
		switch ins.Op {
		case token.MUL:
			if d.loadInto(fn, f, ins, ins, ins.Type(), d.opnd(fn, ins.X), "") {
				d.kind("Load", ins.Type())
			}
		case token.ARROW:
			elem := ins.X.Type().Underlying().(*types.Chan).Elem()
			if d.loadInto(fn, f, ins, d.target(fn, ins, ins.CommaOk), elem, d.opnd(fn, ins.X), "B") {
				d.kind("Recv", elem)
			}
		}
	case *ssa.Lookup:
		if m, ok := ins.X.Type().Underlying().(*types.Map); ok {
			if d.loadInto(fn, f, ins, d.target(fn, ins, ins.CommaOk), m.Elem(), d.opnd(fn, ins.X), "V") {
				d.kind("Lookup", m.Elem())
			}
		}
	case *ssa.Next:
		if ins.IsString {
			return
		}
		rng, ok := ins.Iter.(*ssa.Range)
		if !ok {
			d.unsupported(fn, ins, "next of non-range")
			return
		}
		m := rng.X.Type().Underlying().(*types.Map)
		d.loadInto(fn, f, ins, d.component(fn, ins, 1), m.Key(), d.opnd(fn, rng.X), "K")
		d.loadInto(fn, f, ins, d.component(fn, ins, 2), m.Elem(), d.opnd(fn, rng.X), "V")
		d.Kinds["Next"]++
	case *ssa.Store:
		if d.storeFrom(fn, f, ins, ins.Val, d.opnd(fn, ins.Addr), "") {
			d.kind("Store", ins.Val.Type())
		}
	case *ssa.MapUpdate:
		a := d.storeFrom(fn, f, ins, ins.Key, d.opnd(fn, ins.Map), "K")
		b := d.storeFrom(fn, f, ins, ins.Value, d.opnd(fn, ins.Map), "V")
		if a || b {
			d.kind("MapUpdate", ins.Value.Type())
		}
	case *ssa.Send:
		if d.storeFrom(fn, f, ins, ins.X, d.opnd(fn, ins.Chan), "B") {
			d.kind("Send", ins.X.Type())
		}
	case *ssa.MakeInterface:
		var pay []string
		if HasPointers(ins.X.Type()) {
			paths := d.slotPaths(fn, ins.X.Type(), ins)
			srcs := d.srcSlots(fn, ins.X, ins)
			for i, p := range paths {
				ps := d.pathStr("", p)
				if ps == "-" {
					ps = ""
				}
				pay = append(pay, ps+"="+srcs[i])
			}
		}
		d.emit(f, ins, "mkiface %d %d %d %s", reg[ins], d.iface(ins), d.typ(ins.X.Type()), joinStrs(pay))
		d.kind("MakeInterface", ins.X.Type())
	case *ssa.TypeAssert:
		d.typeAssert(fn, f, ins)
	case *ssa.MakeClosure:
		g := ins.Fn.(*ssa.Function)
		var bs []string
		for _, b := range ins.Bindings {
			bs = append(bs, d.srcSlots(fn, b, ins)...)
		}
		d.emit(f, ins, "mkclosure %d %d %s", reg[ins], d.fn(g), joinStrs(bs))
		d.Kinds["MakeClosure"]++
	case ssa.CallInstruction:
		d.call(fn, f, ins)
	case *ssa.Return:
		var vs []string
		for _, r := range ins.Results {
			vs = append(vs, d.srcSlots(fn, r, ins)...)
		}
		d.emit(f, ins, "ret %s", joinStrs(vs))
	case *ssa.Panic:
		d.emit(f, ins, "store g%d - %s", PanicGlobal, d.opnd(fn, ins.X))
		d.Kinds["Panic"]++
	case *ssa.Extract:
		// folded into the producer
	case *ssa.Index:
		if HasPointers(ins.Type()) {
			d.unsupported(fn, ins, "index of an array value with pointers")
		}
	case *ssa.Select:
		k := 0
		for _, st := range ins.States {
			elem := st.Chan.Type().Underlying().(*types.Chan).Elem()
			if st.Dir == types.RecvOnly {
				d.loadInto(fn, f, ins, d.component(fn, ins, 2+k), elem, d.opnd(fn, st.Chan), "B")
				k++
			} else {
				d.storeFrom(fn, f, ins, st.Send, d.opnd(fn, st.Chan), "B")
			}
		}
		d.Kinds["Select"]++
	case *ssa.Range, *ssa.BinOp, *ssa.If, *ssa.Jump, *ssa.RunDefers, *ssa.DebugRef:
	default:
		d.unsupported(fn, ins, fmt.Sprintf("instruction kind %T", ins))
	}
}

// kind counts an instruction kind, separating the aggregate-valued variants.
func (d *Dump) kind(name string, T types.Type) {
	if isAgg(T) {
		name += "-struct"
	}
	d.Kinds[name]++
}

func (d *Dump) typeAssert(fn *ssa.Function, f int, ins *ssa.TypeAssert) {
	dst := d.target(fn, ins, ins.CommaOk)
	if types.IsInterface(ins.AssertedType) {
		var ts []int
		for _, t := range d.allTypes {
			if types.AssignableTo(t, ins.AssertedType) {
				ts = append(ts, d.typ(t))
			}
		}
		r := d.dstSlots(fn, dst, ins.AssertedType, ins)
		d.Kinds["TypeAssert-iface"]++
		d.emit(f, ins, "tfilter %d %s %s", r[0], d.opnd(fn, ins.X), joinInts(ts))
		return
	}
	if !HasPointers(ins.AssertedType) {
		return
	}
	paths := d.slotPaths(fn, ins.AssertedType, ins)
	regs := d.dstSlots(fn, dst, ins.AssertedType, ins)
	for i, p := range paths {
		d.emit(f, ins, "tassert %d %s %d %s", regs[i], d.opnd(fn, ins.X), d.typ(ins.AssertedType), d.pathStr("", p))
	}
	d.kind("TypeAssert-concrete", ins.AssertedType)
}

func (d *Dump) call(fn *ssa.Function, f int, ins ssa.CallInstruction) {
	reg := d.regs(fn)
	cc := ins.Common()
	val := ins.Value() // nil for go / defer
	if b, ok := cc.Value.(*ssa.Builtin); ok {
		switch b.Name() {
		case "append":
			z := reg[val]
			d.emit(f, ins, "copy %d %s", z, d.opnd(fn, cc.Args[0]))
			if len(cc.Args) == 2 {
				n := d.site(val)
				d.emit(f, ins, "alloc %d %d", z, n)
				elem := cc.Args[0].Type().Underlying().(*types.Slice).Elem()
				if HasPointers(elem) {
					for _, p := range d.slotPaths(fn, elem, ins) {
						ps := d.pathStr("E", p)
						if _, isStr := cc.Args[1].Type().Underlying().(*types.Basic); !isStr {
							d.emit(f, ins, "hcopy r%d %s %s %s -", z, ps, d.opnd(fn, cc.Args[1]), ps)
						}
						d.emit(f, ins, "hcopy r%d %s %s %s a%d", z, ps, d.opnd(fn, cc.Args[0]), ps, n)
					}
				}
			}
			d.Kinds["append"]++
		case "copy":
			elem := cc.Args[0].Type().Underlying().(*types.Slice).Elem()
			if HasPointers(elem) {
				for _, p := range d.slotPaths(fn, elem, ins) {
					ps := d.pathStr("E", p)
					d.emit(f, ins, "hcopy %s %s %s %s -", d.opnd(fn, cc.Args[0]), ps, d.opnd(fn, cc.Args[1]), ps)
				}
			}
			d.Kinds["copy"]++
		case "panic":
			d.emit(f, ins, "store g%d - %s", PanicGlobal, d.opnd(fn, cc.Args[0]))
		case "recover":
			if val != nil {
				d.emit(f, ins, "load %d g%d -", reg[val], PanicGlobal)
				d.Kinds["recover"]++
			}
		case "ssa:wrapnilchk":
			if val != nil && CanPoint(val.Type()) {
				d.emit(f, ins, "copy %d %s", reg[val], d.opnd(fn, cc.Args[0]))
			}
		}
		return
	}
	c := len(d.CallSite) + 1
	d.CallSite[ins] = c
	var callee string
	args := cc.Args
	kind := ""
	switch {
	case cc.IsInvoke():
		callee = fmt.Sprintf("invoke:%s:%d", d.opnd(fn, cc.Value), intern(d.MethOf, cc.Method.Id()))
		kind = "invoke"
	case cc.StaticCallee() != nil:
		if _, isClosure := cc.Value.(*ssa.MakeClosure); isClosure {
			callee = "dyn:" + d.opnd(fn, cc.Value) // the machine binds the captured values through the closure
			kind = "static-closure"
		} else {
			callee = fmt.Sprintf("static:%d", d.fn(cc.StaticCallee()))
			kind = "static"
		}
	default:
		callee = "dyn:" + d.opnd(fn, cc.Value)
		kind = "dynamic"
	}
	var as []string
	for _, a := range args {
		if isAgg(a.Type()) {
			kind += "+struct-arg"
		}
		as = append(as, d.srcSlots(fn, a, ins)...)
	}
	var dsts []int
	spawn := 1
	if val != nil {
		spawn = 0
		res := cc.Signature().Results()
		switch {
		case res.Len() == 1:
			if isAgg(res.At(0).Type()) {
				kind += "+struct-result"
			}
			dsts = d.dstSlots(fn, val, res.At(0).Type(), ins)
		case res.Len() > 1:
			for i := 0; i < res.Len(); i++ {
				dsts = append(dsts, d.dstSlots(fn, d.component(fn, val, i), res.At(i).Type(), ins)...)
			}
		}
	}
	switch ins.(type) {
	case *ssa.Go:
		kind = "go-" + kind
	case *ssa.Defer:
		kind = "defer-" + kind
	}
	d.Kinds["call-"+kind]++
	d.emit(f, ins, "call %d %s %s %s %d", c, callee, joinStrs(as), joinInts(dsts), spawn)
}

func parsePath(d *Dump, p string) string {
	if p == "" {
		return ""
	}
	var sels []string
	for len(p) > 0 {
		switch {
		case strings.HasPrefix(p, "[*]"):
			sels = append(sels, "E")
			p = p[3:]
		case p[0] == '.' || p[0] == '#':
			j := 1
			for j < len(p) && p[j] != '.' && p[j] != '[' && p[j] != '#' {
				j++
			}
			name := p[1:j]
			if p[0] == '#' {
				name = "#" + name
			}
			sels = append(sels, fmt.Sprintf("F%d", intern(d.FieldOf, name)))
			p = p[j:]
		default:
			sels = append(sels, fmt.Sprintf("F%d", intern(d.FieldOf, "?"+p)))
			p = ""
		}
	}
	return strings.Join(sels, ".")
}

// Label renders one label of the real result.
func (d *Dump) Label(val ssa.Value, path string, str string) string {
	site := ""
	switch v := val.(type) {
	case *ssa.Global:
		site = fmt.Sprintf("g%d", d.glob(v))
	case *ssa.Function:
		site = fmt.Sprintf("f%d", d.fn(v))
	case *ssa.MakeInterface:
		site = fmt.Sprintf("i%d.%d", d.iface(v), d.typ(v.X.Type()))
	case nil:
		site = fmt.Sprintf("a%d", 900000+intern(d.unknown, str))
	default:
		site = fmt.Sprintf("a%d", d.site(v))
	}
	return site + "/" + parsePath(d, path)
}

// Labels returns the rendered, sorted label set of a queried value (ok=false: not queried).
func (d *Dump) Labels(v ssa.Value) ([]string, bool) {
	p, ok := d.State.PointerAnalysis.Queries[v]
	if !ok {
		return nil, false
	}
	seen := map[string]bool{}
	var ls []string
	for _, l := range p.PointsTo().Labels() {
		s := d.Label(l.Value(), l.Path(), l.String())
		if !seen[s] {
			seen[s] = true
			ls = append(ls, s)
		}
	}
	sort.Strings(ls)
	return ls, true
}

// New dumps the program of an analyzer state whose pointer analysis has run.
func New(state *dataflow.AnalyzerState) *Dump {
	d := &Dump{State: state, FnID: map[*ssa.Function]int{}, Reg: map[*ssa.Function]map[ssa.Value]int{},
		Code: map[int][]ssa.Instruction{}, CallSite: map[ssa.CallInstruction]int{}, SiteOf: map[ssa.Value]int{},
		GlobOf: map[*ssa.Global]int{}, IfaceOf: map[*ssa.MakeInterface]int{}, MethOf: map[string]int{},
		FieldOf: map[string]int{}, unknown: map[string]int{}, Kinds: map[string]int{}, vregs: map[ssa.Value]map[string]int{}}
	pa := state.PointerAnalysis
	reach := state.ReachableFunctions()
	// function table: call-graph nodes in a deterministic order, then whatever else is referenced
	var nodes []*ssa.Function
	for f := range pa.CallGraph.Nodes {
		if f != nil && f != pa.CallGraph.Root.Func {
			nodes = append(nodes, f)
		}
	}
	sort.Slice(nodes, func(i, j int) bool {
		if nodes[i].String() != nodes[j].String() {
			return nodes[i].String() < nodes[j].String()
		}
		return nodes[i].Pos() < nodes[j].Pos()
	})
	for _, f := range nodes {
		d.fn(f)
	}
	// pre-pass: every concrete type that is put into an interface anywhere in the table
	for i := 0; i < len(d.Funcs); i++ {
		for _, b := range d.Funcs[i].Blocks {
			for _, ins := range b.Instrs {
				if m, ok := ins.(*ssa.MakeInterface); ok {
					if d.TypeOf.At(m.X.Type()) == nil {
						d.allTypes = append(d.allTypes, m.X.Type())
					}
					d.typ(m.X.Type())
				}
			}
		}
	}
	// instructions (the table may grow while dumping: functions referenced as values / callees)
	for i := 0; i < len(d.Funcs); i++ {
		fn := d.Funcs[i]
		for _, b := range fn.Blocks {
			for _, ins := range b.Instrs {
				d.instr(fn, i, ins)
			}
		}
	}
	// methods: every (concrete type, invoked method) pair
	type mkey struct {
		pkg  *types.Package
		name string
		id   int
	}
	var meths []mkey
	seenM := map[int]bool{}
	for ins := range d.CallSite {
		cc := ins.Common()
		if cc.IsInvoke() {
			id := intern(d.MethOf, cc.Method.Id())
			if !seenM[id] {
				seenM[id] = true
				meths = append(meths, mkey{cc.Method.Pkg(), cc.Method.Name(), id})
			}
		}
	}
	sort.Slice(meths, func(i, j int) bool { return meths[i].id < meths[j].id })
	prog := state.Program
	for _, t := range d.allTypes {
		for _, m := range meths {
			sel := prog.MethodSets.MethodSet(t).Lookup(m.pkg, m.name)
			if sel == nil {
				continue
			}
			if g := prog.MethodValue(sel); g != nil {
				var ps []string
				if isAgg(t) {
					ls, ok := leavesOf(t)
					if !ok {
						d.unsupported(g, nil, "receiver with pointers in a by-value array")
					}
					for _, l := range ls {
						ps = append(ps, d.pathStr("", l.path))
					}
				} else {
					ps = []string{"@"}
				}
				d.Lines = append(d.Lines, fmt.Sprintf("method %d %d %d %s", d.typ(t), m.id, d.fn(g), strings.ReplaceAll(joinStrs(ps), ",", ";")))
			}
		}
	}
	// roots
	for _, pkg := range prog.AllPackages() {
		if pkg.Pkg.Name() == "main" {
			for _, n := range []string{"init", "main"} {
				if g := pkg.Func(n); g != nil {
					d.Lines = append(d.Lines, fmt.Sprintf("root %d", d.fn(g)))
				}
			}
		}
	}
	// constructs outside the fragment matter only in reachable functions (the criteria look at nothing else)
	for _, u := range d.unsup {
		if reach[u.fn] {
			d.Unsupported = append(d.Unsupported, u.text)
		}
	}
	// real result: reach, call graph, points-to sets
	for i := 0; i < len(d.Funcs); i++ {
		fn := d.Funcs[i]
		if reach[fn] {
			d.Lines = append(d.Lines, fmt.Sprintf("reach %d", i))
			if leafShaped(fn) && d.hasStoreLike(i) {
				d.LeafShaped = append(d.LeafShaped, fn.String())
			}
		}
	}
	for _, fn := range nodes {
		node := pa.CallGraph.Nodes[fn]
		seen := map[string]bool{}
		for _, e := range node.Out {
			d.cgEdge(fn, e, seen)
		}
	}
	for i := 0; i < len(d.Funcs); i++ {
		fn := d.Funcs[i]
		if !reach[fn] {
			continue
		}
		type rv struct {
			r int
			v ssa.Value
		}
		var rvs []rv
		for v, r := range d.regs(fn) {
			rvs = append(rvs, rv{r, v})
		}
		sort.Slice(rvs, func(a, b int) bool { return rvs[a].r < rvs[b].r })
		for _, x := range rvs {
			if !CanPoint(x.v.Type()) {
				continue
			}
			if ls, ok := d.Labels(x.v); ok {
				s := "-"
				if len(ls) > 0 {
					s = strings.Join(ls, ";")
				}
				d.Lines = append(d.Lines, fmt.Sprintf("pt %d %d %s", i, x.r, s))
			}
			if ip, ok := pa.IndirectQueries[x.v]; ok {
				seen := map[string]bool{}
				var ls []string
				for _, l := range ip.PointsTo().Labels() {
					t := d.Label(l.Value(), l.Path(), l.String())
					if !seen[t] {
						seen[t] = true
						ls = append(ls, t)
					}
				}
				sort.Strings(ls)
				t := "-"
				if len(ls) > 0 {
					t = strings.Join(ls, ";")
				}
				d.Lines = append(d.Lines, fmt.Sprintf("ipt %d %d %s", i, x.r, t))
				d.Kinds["indirect-query"]++
			}
		}
		// every pointer-like operand of a reachable function must have been queried
		for _, b := range fn.Blocks {
			for _, ins := range b.Instrs {
				if _, dbg := ins.(*ssa.DebugRef); dbg {
					continue
				}
				for _, op := range ins.Operands(nil) {
					if *op == nil {
						continue
					}
					switch (*op).(type) {
					case *ssa.Const, *ssa.Global, *ssa.Function, *ssa.Builtin:
						continue
					}
					if CanPoint((*op).Type()) {
						if _, ok := pa.Queries[*op]; !ok {
							d.MissingQuery = append(d.MissingQuery, fn.String()+": "+(*op).Name()+" in `"+ins.String()+"`")
						}
					}
				}
			}
		}
	}
	return d
}

func (d *Dump) cgEdge(fn *ssa.Function, e *callgraph.Edge, seen map[string]bool) {
	if e.Site == nil {
		return
	}
	c, ok := d.CallSite[e.Site]
	if !ok {
		return
	}
	s := fmt.Sprintf("cg %d %d %d", d.fn(fn), c, d.fn(e.Callee.Func))
	if !seen[s] {
		seen[s] = true
		d.Lines = append(d.Lines, s)
	}
}

// hasStoreLike: does function i have facts that pair with loads through the derived heap table?
func (d *Dump) hasStoreLike(i int) bool {
	pre := fmt.Sprintf("i %d ", i)
	for _, l := range d.Lines {
		if strings.HasPrefix(l, pre) {
			rest := l[len(pre):]
			if strings.HasPrefix(rest, "store ") || strings.HasPrefix(rest, "hcopy ") || strings.HasPrefix(rest, "mkiface ") {
				return true
			}
		}
	}
	return false
}

// Text returns the oracle input: function table first, then facts and the real result.
func (d *Dump) Text() string {
	var out []string
	for i, fn := range d.Funcs {
		var ps, fvs []int
		for _, p := range fn.Params {
			ps = append(ps, d.dstSlots(fn, p, p.Type(), nil)...)
		}
		for _, p := range fn.FreeVars {
			fvs = append(fvs, d.dstSlots(fn, p, p.Type(), nil)...)
		}
		out = append(out, fmt.Sprintf("func %d %s %s", i, joinInts(ps), joinInts(fvs)))
	}
	return strings.Join(out, "\n") + "\n" + strings.Join(d.Lines, "\n") + "\n"
}
