// Package ptrfacts dumps, for the C11 / C12 oracles, the first-order SSA facts of a loaded program
// together with the REAL result of the repository's pointer analysis (points-to label sets of every
// queried value, call-graph edges per call site, reachable functions).  The line protocol is
// documented in lean/Argot/Model/PtrFacts.lean; the instruction mapping in lean/Argot/Model/Ptr.lean.
package ptrfacts

import (
	"fmt"
	"go/token"
	"go/types"
	"sort"
	"strings"

	"github.com/awslabs/ar-go-tools/analysis/dataflow"
	"golang.org/x/tools/go/callgraph"
	"golang.org/x/tools/go/ssa"
	"golang.org/x/tools/go/types/typeutil"
)

// PanicGlobal is the pseudo global that carries panic values (internal/pointer's panicNode).
const PanicGlobal = 0

// Dump is the result of dumping one analysed program.
type Dump struct {
	State *dataflow.AnalyzerState
	Funcs []*ssa.Function
	FnID  map[*ssa.Function]int
	Reg   map[*ssa.Function]map[ssa.Value]int
	// per function: the dumped instruction list (index = position in the oracle's code list) with its SSA origin
	Code     map[int][]ssa.Instruction
	CallSite map[ssa.CallInstruction]int // call-site id (unique per function)
	SiteOf   map[ssa.Value]int           // allocation-like instruction -> alloc site id
	GlobOf   map[*ssa.Global]int
	IfaceOf  map[*ssa.MakeInterface]int
	TypeOf   typeutil.Map // concrete type -> type id
	nType    int
	MethOf   map[string]int
	FieldOf  map[string]int
	unknown  map[string]int
	Lines    []string
	// problems
	Unsupported  []string // constructs outside the modelled fragment in reachable functions
	MissingQuery []string // pointer-like operands of reachable functions without a Queries entry
	LeafShaped   []string // reachable functions the solver clones per call site (criterion not applicable)
	Kinds        map[string]int
	nextDead     int
	allTypes     []types.Type
	unsup        []unsup
}

// CanPoint mirrors internal/pointer.CanPoint (an external module cannot import internal packages).
func CanPoint(T types.Type) bool {
	switch T := T.(type) {
	case *types.Named:
		if obj := T.Obj(); obj.Name() == "Value" && obj.Pkg() != nil && obj.Pkg().Path() == "reflect" {
			return true
		}
		return CanPoint(T.Underlying())
	case *types.Alias:
		return CanPoint(types.Unalias(T))
	case *types.Pointer, *types.Interface, *types.Map, *types.Chan, *types.Signature, *types.Slice:
		return true
	}
	return false
}

// HasPointers: does a value of type T contain pointer-like parts (directly or inside structs / arrays / tuples)?
func HasPointers(T types.Type) bool {
	if CanPoint(T) {
		return true
	}
	switch U := T.Underlying().(type) {
	case *types.Struct:
		for i := 0; i < U.NumFields(); i++ {
			if HasPointers(U.Field(i).Type()) {
				return true
			}
		}
	case *types.Array:
		return HasPointers(U.Elem())
	case *types.Tuple:
		for i := 0; i < U.Len(); i++ {
			if HasPointers(U.At(i).Type()) {
				return true
			}
		}
	}
	return false
}

// leafShaped mirrors shouldUseContext of internal/pointer/gen.go (without intrinsics).
func leafShaped(fn *ssa.Function) bool {
	if len(fn.Blocks) != 1 {
		return false
	}
	blk := fn.Blocks[0]
	if len(blk.Instrs) > 10 {
		return false
	}
	if fn.Synthetic != "" && (fn.Pkg == nil || fn != fn.Pkg.Func("init")) {
		return true
	}
	for _, instr := range blk.Instrs {
		if c, ok := instr.(ssa.CallInstruction); ok {
			if _, ok := c.Common().Value.(*ssa.Builtin); !ok {
				return false
			}
		}
	}
	return true
}

func (d *Dump) fn(f *ssa.Function) int {
	if id, ok := d.FnID[f]; ok {
		return id
	}
	id := len(d.Funcs)
	d.FnID[f] = id
	d.Funcs = append(d.Funcs, f)
	return id
}

func (d *Dump) site(v ssa.Value) int {
	if id, ok := d.SiteOf[v]; ok {
		return id
	}
	id := len(d.SiteOf) + 1
	d.SiteOf[v] = id
	return id
}

func (d *Dump) glob(g *ssa.Global) int {
	if id, ok := d.GlobOf[g]; ok {
		return id
	}
	id := len(d.GlobOf) + 1 // 0 is the panic pseudo global
	d.GlobOf[g] = id
	return id
}

func (d *Dump) typ(t types.Type) int {
	if id := d.TypeOf.At(t); id != nil {
		return id.(int)
	}
	d.nType++
	d.TypeOf.Set(t, d.nType)
	return d.nType
}

func (d *Dump) iface(m *ssa.MakeInterface) int {
	if id, ok := d.IfaceOf[m]; ok {
		return id
	}
	id := len(d.IfaceOf) + 1
	d.IfaceOf[m] = id
	return id
}

func intern(m map[string]int, s string) int {
	if id, ok := m[s]; ok {
		return id
	}
	id := len(m) + 1
	m[s] = id
	return id
}

// regs numbers the local values of f.
func (d *Dump) regs(f *ssa.Function) map[ssa.Value]int {
	if m, ok := d.Reg[f]; ok {
		return m
	}
	m := map[ssa.Value]int{}
	for _, p := range f.Params {
		m[p] = len(m)
	}
	for _, p := range f.FreeVars {
		m[p] = len(m)
	}
	for _, b := range f.Blocks {
		for _, ins := range b.Instrs {
			if v, ok := ins.(ssa.Value); ok {
				m[v] = len(m)
			}
		}
	}
	d.Reg[f] = m
	return m
}

// opnd renders an operand; non-pointer-like operands are constants for the machine.
func (d *Dump) opnd(f *ssa.Function, v ssa.Value) string {
	switch v := v.(type) {
	case *ssa.Const:
		return "c"
	case *ssa.Global:
		return fmt.Sprintf("g%d", d.glob(v))
	case *ssa.Function:
		return fmt.Sprintf("f%d", d.fn(v))
	case *ssa.Builtin:
		return "c"
	}
	if !CanPoint(v.Type()) {
		if HasPointers(v.Type()) {
			d.unsupported(f, nil, "aggregate-valued operand "+v.Name()+" : "+v.Type().String())
		}
		return "c"
	}
	r, ok := d.regs(f)[v]
	if !ok {
		d.unsupported(f, nil, "operand from another function: "+v.Name())
		return "c"
	}
	return fmt.Sprintf("r%d", r)
}

func (d *Dump) unsupported(f *ssa.Function, ins ssa.Instruction, why string) {
	s := f.String() + ": " + why
	if ins != nil {
		s += " in `" + ins.String() + "`"
	}
	d.unsup = append(d.unsup, unsup{f, s})
}

type unsup struct {
	fn   *ssa.Function
	text string
}

func (d *Dump) emit(f int, ins ssa.Instruction, format string, args ...any) {
	d.Lines = append(d.Lines, fmt.Sprintf("i %d ", f)+fmt.Sprintf(format, args...))
	d.Code[f] = append(d.Code[f], ins)
}

func (d *Dump) dead() int { d.nextDead++; return 1000000 + d.nextDead }

// extracts returns, for a tuple-valued instruction, the register of `extract #i` (a fresh dead register if
// that component is never extracted or not pointer-like).
func (d *Dump) extracts(f *ssa.Function, v ssa.Value, n int) []int {
	res := make([]int, n)
	for i := range res {
		res[i] = -1
	}
	if refs := v.Referrers(); refs != nil {
		for _, r := range *refs {
			if e, ok := r.(*ssa.Extract); ok {
				if CanPoint(e.Type()) {
					if res[e.Index] >= 0 {
						d.unsupported(f, e, "component extracted twice")
					}
					res[e.Index] = d.regs(f)[e]
				} else if HasPointers(e.Type()) {
					d.unsupported(f, e, "aggregate-valued extract")
				}
			} else if _, isDbg := r.(*ssa.DebugRef); !isDbg {
				d.unsupported(f, r, "tuple used other than by extract")
			}
		}
	}
	for i := range res {
		if res[i] < 0 {
			res[i] = d.dead()
		}
	}
	return res
}

func joinInts(xs []int) string {
	if len(xs) == 0 {
		return "-"
	}
	var ss []string
	for _, x := range xs {
		ss = append(ss, fmt.Sprint(x))
	}
	return strings.Join(ss, ",")
}

func joinStrs(xs []string) string {
	if len(xs) == 0 {
		return "-"
	}
	return strings.Join(xs, ",")
}

// dst returns the destination register of a value-producing instruction with an optional comma-ok tuple.
func (d *Dump) dst(f *ssa.Function, v ssa.Value, commaOk bool, elem types.Type) (int, bool) {
	if !CanPoint(elem) {
		if HasPointers(elem) {
			d.unsupported(f, v.(ssa.Instruction), "aggregate-valued result")
		}
		return 0, false
	}
	if commaOk {
		return d.extracts(f, v, 2)[0], true
	}
	return d.regs(f)[v], true
}

func (d *Dump) instr(fn *ssa.Function, f int, ins ssa.Instruction) {
	reg := d.regs(fn)
	switch ins := ins.(type) {
	case *ssa.Alloc, *ssa.MakeSlice, *ssa.MakeMap, *ssa.MakeChan:
		v := ins.(ssa.Value)
		d.emit(f, ins, "alloc %d %d", reg[v], d.site(v))
		d.Kinds[fmt.Sprintf("%T", ins)]++
	case *ssa.Phi:
		if CanPoint(ins.Type()) {
			for _, e := range ins.Edges {
				d.emit(f, ins, "copy %d %s", reg[ins], d.opnd(fn, e))
			}
			d.Kinds["Phi"]++
		} else if HasPointers(ins.Type()) {
			d.unsupported(fn, ins, "aggregate-valued phi")
		}
	case *ssa.ChangeType:
		d.copyLike(fn, f, ins, ins, ins.X)
	case *ssa.ChangeInterface:
		d.copyLike(fn, f, ins, ins, ins.X)
	case *ssa.Slice:
		d.copyLike(fn, f, ins, ins, ins.X)
	case *ssa.SliceToArrayPointer:
		d.copyLike(fn, f, ins, ins, ins.X)
	case *ssa.Convert:
		if !CanPoint(ins.Type()) {
			return
		}
		_, srcBasic := ins.X.Type().Underlying().(*types.Basic)
		if _, isSlice := ins.Type().Underlying().(*types.Slice); isSlice && srcBasic {
			d.emit(f, ins, "alloc %d %d", reg[ins], d.site(ins)) // string -> []byte / []rune
			d.Kinds["Convert-alloc"]++
			return
		}
		d.unsupported(fn, ins, "pointer-like conversion (unsafe)")
	case *ssa.FieldAddr:
		st := ins.X.Type().Underlying().(*types.Pointer).Elem().Underlying().(*types.Struct)
		d.emit(f, ins, "addr %d %s F%d", reg[ins], d.opnd(fn, ins.X), intern(d.FieldOf, st.Field(ins.Field).Name()))
		d.Kinds["FieldAddr"]++
	case *ssa.IndexAddr:
		d.emit(f, ins, "addr %d %s E", reg[ins], d.opnd(fn, ins.X))
		d.Kinds["IndexAddr"]++
	case *ssa.UnOp:
		switch ins.Op {
		case token.MUL:
			if r, ok := d.dst(fn, ins, false, ins.Type()); ok {
				d.emit(f, ins, "load %d %s -", r, d.opnd(fn, ins.X))
				d.Kinds["Load"]++
			}
		case token.ARROW:
			elem := ins.X.Type().Underlying().(*types.Chan).Elem()
			if r, ok := d.dst(fn, ins, ins.CommaOk, elem); ok {
				d.emit(f, ins, "load %d %s B", r, d.opnd(fn, ins.X))
				d.Kinds["Recv"]++
			}
		}
	case *ssa.Lookup:
		if m, ok := ins.X.Type().Underlying().(*types.Map); ok {
			if r, ok := d.dst(fn, ins, ins.CommaOk, m.Elem()); ok {
				d.emit(f, ins, "load %d %s V", r, d.opnd(fn, ins.X))
				d.Kinds["Lookup"]++
			}
		}
	case *ssa.Next:
		if ins.IsString {
			return
		}
		rng, ok := ins.Iter.(*ssa.Range)
		if !ok {
			d.unsupported(fn, ins, "next of non-range")
			return
		}
		m := rng.X.Type().Underlying().(*types.Map)
		ex := d.extracts(fn, ins, 3)
		if CanPoint(m.Key()) {
			d.emit(f, ins, "load %d %s K", ex[1], d.opnd(fn, rng.X))
		} else if HasPointers(m.Key()) {
			d.unsupported(fn, ins, "aggregate map key")
		}
		if CanPoint(m.Elem()) {
			d.emit(f, ins, "load %d %s V", ex[2], d.opnd(fn, rng.X))
		} else if HasPointers(m.Elem()) {
			d.unsupported(fn, ins, "aggregate map value")
		}
		d.Kinds["Next"]++
	case *ssa.Store:
		if CanPoint(ins.Val.Type()) {
			d.emit(f, ins, "store %s - %s", d.opnd(fn, ins.Addr), d.opnd(fn, ins.Val))
			d.Kinds["Store"]++
		} else if HasPointers(ins.Val.Type()) {
			d.unsupported(fn, ins, "aggregate-valued store")
		}
	case *ssa.MapUpdate:
		m := ins.Map.Type().Underlying().(*types.Map)
		if CanPoint(m.Key()) {
			d.emit(f, ins, "store %s K %s", d.opnd(fn, ins.Map), d.opnd(fn, ins.Key))
		} else if HasPointers(m.Key()) {
			d.unsupported(fn, ins, "aggregate map key")
		}
		if CanPoint(m.Elem()) {
			d.emit(f, ins, "store %s V %s", d.opnd(fn, ins.Map), d.opnd(fn, ins.Value))
		} else if HasPointers(m.Elem()) {
			d.unsupported(fn, ins, "aggregate map value")
		}
		d.Kinds["MapUpdate"]++
	case *ssa.Send:
		if CanPoint(ins.X.Type()) {
			d.emit(f, ins, "store %s B %s", d.opnd(fn, ins.Chan), d.opnd(fn, ins.X))
			d.Kinds["Send"]++
		} else if HasPointers(ins.X.Type()) {
			d.unsupported(fn, ins, "aggregate-valued send")
		}
	case *ssa.MakeInterface:
		x := "c"
		if CanPoint(ins.X.Type()) {
			x = d.opnd(fn, ins.X)
		} else if HasPointers(ins.X.Type()) {
			d.unsupported(fn, ins, "aggregate in interface")
		}
		d.emit(f, ins, "mkiface %d %d %d %s", reg[ins], d.iface(ins), d.typ(ins.X.Type()), x)
		d.Kinds["MakeInterface"]++
	case *ssa.TypeAssert:
		d.emit(f, ins, "%s", d.typeAssert(fn, ins, d.allTypes))
	case *ssa.MakeClosure:
		g := ins.Fn.(*ssa.Function)
		var bs []string
		for _, b := range ins.Bindings {
			bs = append(bs, d.opnd(fn, b))
		}
		d.emit(f, ins, "mkclosure %d %d %s", reg[ins], d.fn(g), joinStrs(bs))
		d.Kinds["MakeClosure"]++
	case ssa.CallInstruction:
		d.call(fn, f, ins)
	case *ssa.Return:
		var vs []string
		for _, r := range ins.Results {
			vs = append(vs, d.opnd(fn, r))
		}
		d.emit(f, ins, "ret %s", joinStrs(vs))
	case *ssa.Panic:
		d.emit(f, ins, "store g%d - %s", PanicGlobal, d.opnd(fn, ins.X))
		d.Kinds["Panic"]++
	case *ssa.Extract:
		// folded into the producer
	case *ssa.Field, *ssa.Index:
		v := ins.(ssa.Value)
		if HasPointers(v.Type()) {
			d.unsupported(fn, ins, "field / index of an aggregate value")
		}
	case *ssa.Select:
		nrecv := 0
		for _, st := range ins.States {
			if st.Dir == types.RecvOnly {
				nrecv++
			}
		}
		ex := d.extracts(fn, ins, 2+nrecv)
		k := 0
		for _, st := range ins.States {
			elem := st.Chan.Type().Underlying().(*types.Chan).Elem()
			if !CanPoint(elem) && HasPointers(elem) {
				d.unsupported(fn, ins, "select on a channel of aggregates with pointers")
			}
			if st.Dir == types.RecvOnly {
				if CanPoint(elem) {
					d.emit(f, ins, "load %d %s B", ex[2+k], d.opnd(fn, st.Chan))
				}
				k++
			} else if CanPoint(elem) {
				d.emit(f, ins, "store %s B %s", d.opnd(fn, st.Chan), d.opnd(fn, st.Send))
			}
		}
		d.Kinds["Select"]++
	case *ssa.Range, *ssa.BinOp, *ssa.If, *ssa.Jump, *ssa.RunDefers, *ssa.DebugRef:
	default:
		d.unsupported(fn, ins, fmt.Sprintf("instruction kind %T", ins))
	}
}

func (d *Dump) copyLike(fn *ssa.Function, f int, ins ssa.Instruction, v ssa.Value, x ssa.Value) {
	if CanPoint(v.Type()) {
		d.emit(f, ins, "copy %d %s", d.regs(fn)[v], d.opnd(fn, x))
		d.Kinds[strings.TrimPrefix(fmt.Sprintf("%T", ins), "*ssa.")]++
	} else if HasPointers(v.Type()) {
		d.unsupported(fn, ins, "aggregate-valued copy")
	}
}

func (d *Dump) typeAssert(fn *ssa.Function, ins *ssa.TypeAssert, allTypes []types.Type) string {
	reg := d.regs(fn)
	if types.IsInterface(ins.AssertedType) {
		r := reg[ins]
		if ins.CommaOk {
			r = d.extracts(fn, ins, 2)[0]
		}
		var ts []int
		for _, t := range allTypes {
			if types.AssignableTo(t, ins.AssertedType) {
				ts = append(ts, d.typ(t))
			}
		}
		d.Kinds["TypeAssert-iface"]++
		return fmt.Sprintf("tfilter %d %s %s", r, d.opnd(fn, ins.X), joinInts(ts))
	}
	if !CanPoint(ins.AssertedType) {
		if HasPointers(ins.AssertedType) {
			d.unsupported(fn, ins, "assertion to an aggregate type")
		}
		return "ret -" // no effect on pointers (placeholder keeps the instruction index)
	}
	r := reg[ins]
	if ins.CommaOk {
		r = d.extracts(fn, ins, 2)[0]
	}
	d.Kinds["TypeAssert-concrete"]++
	return fmt.Sprintf("tassert %d %s %d", r, d.opnd(fn, ins.X), d.typ(ins.AssertedType))
}

func (d *Dump) call(fn *ssa.Function, f int, ins ssa.CallInstruction) {
	reg := d.regs(fn)
	cc := ins.Common()
	val := ins.Value() // nil for go / defer
	if b, ok := cc.Value.(*ssa.Builtin); ok {
		switch b.Name() {
		case "append":
			z := reg[val]
			d.emit(f, ins, "copy %d %s", z, d.opnd(fn, cc.Args[0]))
			if len(cc.Args) == 2 {
				n := d.site(val)
				d.emit(f, ins, "alloc %d %d", z, n)
				elem := cc.Args[0].Type().Underlying().(*types.Slice).Elem()
				if CanPoint(elem) {
					if _, isStr := cc.Args[1].Type().Underlying().(*types.Basic); !isStr {
						d.emit(f, ins, "hcopy r%d E %s E -", z, d.opnd(fn, cc.Args[1]))
					}
					d.emit(f, ins, "hcopy r%d E %s E a%d", z, d.opnd(fn, cc.Args[0]), n)
				} else if HasPointers(elem) {
					d.unsupported(fn, ins, "append of aggregates with pointers")
				}
			}
			d.Kinds["append"]++
		case "copy":
			elem := cc.Args[0].Type().Underlying().(*types.Slice).Elem()
			if CanPoint(elem) {
				d.emit(f, ins, "hcopy %s E %s E -", d.opnd(fn, cc.Args[0]), d.opnd(fn, cc.Args[1]))
			} else if HasPointers(elem) {
				d.unsupported(fn, ins, "copy of aggregates with pointers")
			}
			d.Kinds["copy"]++
		case "panic":
			d.emit(f, ins, "store g%d - %s", PanicGlobal, d.opnd(fn, cc.Args[0]))
		case "recover":
			if val != nil {
				d.emit(f, ins, "load %d g%d -", reg[val], PanicGlobal)
				d.Kinds["recover"]++
			}
		case "ssa:wrapnilchk":
			if val != nil && CanPoint(val.Type()) {
				d.emit(f, ins, "copy %d %s", reg[val], d.opnd(fn, cc.Args[0]))
			}
		}
		return
	}
	c := len(d.CallSite) + 1
	d.CallSite[ins] = c
	var callee string
	args := cc.Args
	kind := ""
	switch {
	case cc.IsInvoke():
		callee = fmt.Sprintf("invoke:%s:%d", d.opnd(fn, cc.Value), intern(d.MethOf, cc.Method.Id()))
		kind = "invoke"
	case cc.StaticCallee() != nil:
		if _, isClosure := cc.Value.(*ssa.MakeClosure); isClosure {
			callee = "dyn:" + d.opnd(fn, cc.Value) // the machine binds the captured values through the closure
			kind = "static-closure"
		} else {
			callee = fmt.Sprintf("static:%d", d.fn(cc.StaticCallee()))
			kind = "static"
		}
	default:
		callee = "dyn:" + d.opnd(fn, cc.Value)
		kind = "dynamic"
	}
	var as []string
	for _, a := range args {
		as = append(as, d.opnd(fn, a))
	}
	var dsts []int
	spawn := 1
	if val != nil {
		spawn = 0
		res := cc.Signature().Results()
		switch {
		case res.Len() == 1:
			if CanPoint(res.At(0).Type()) {
				dsts = []int{reg[val]}
			} else if HasPointers(res.At(0).Type()) {
				d.unsupported(fn, ins, "aggregate-valued call result")
			}
		case res.Len() > 1:
			dsts = d.extracts(fn, val, res.Len())
		}
	}
	switch ins.(type) {
	case *ssa.Go:
		kind = "go-" + kind
	case *ssa.Defer:
		kind = "defer-" + kind
	}
	d.Kinds["call-"+kind]++
	d.emit(f, ins, "call %d %s %s %s %d", c, callee, joinStrs(as), joinInts(dsts), spawn)
}

func parsePath(d *Dump, p string) string {
	if p == "" {
		return ""
	}
	var sels []string
	for len(p) > 0 {
		switch {
		case strings.HasPrefix(p, "[*]"):
			sels = append(sels, "E")
			p = p[3:]
		case p[0] == '.' || p[0] == '#':
			j := 1
			for j < len(p) && p[j] != '.' && p[j] != '[' && p[j] != '#' {
				j++
			}
			name := p[1:j]
			if p[0] == '#' {
				name = "#" + name
			}
			sels = append(sels, fmt.Sprintf("F%d", intern(d.FieldOf, name)))
			p = p[j:]
		default:
			sels = append(sels, fmt.Sprintf("F%d", intern(d.FieldOf, "?"+p)))
			p = ""
		}
	}
	return strings.Join(sels, ".")
}

// Label renders one label of the real result.
func (d *Dump) Label(val ssa.Value, path string, str string) string {
	site := ""
	switch v := val.(type) {
	case *ssa.Global:
		site = fmt.Sprintf("g%d", d.glob(v))
	case *ssa.Function:
		site = fmt.Sprintf("f%d", d.fn(v))
	case *ssa.MakeInterface:
		site = fmt.Sprintf("i%d.%d", d.iface(v), d.typ(v.X.Type()))
	case nil:
		site = fmt.Sprintf("a%d", 900000+intern(d.unknown, str))
	default:
		site = fmt.Sprintf("a%d", d.site(v))
	}
	return site + "/" + parsePath(d, path)
}

// Labels returns the rendered, sorted label set of a queried value (ok=false: not queried).
func (d *Dump) Labels(v ssa.Value) ([]string, bool) {
	p, ok := d.State.PointerAnalysis.Queries[v]
	if !ok {
		return nil, false
	}
	seen := map[string]bool{}
	var ls []string
	for _, l := range p.PointsTo().Labels() {
		s := d.Label(l.Value(), l.Path(), l.String())
		if !seen[s] {
			seen[s] = true
			ls = append(ls, s)
		}
	}
	sort.Strings(ls)
	return ls, true
}

// New dumps the program of an analyzer state whose pointer analysis has run.
func New(state *dataflow.AnalyzerState) *Dump {
	d := &Dump{State: state, FnID: map[*ssa.Function]int{}, Reg: map[*ssa.Function]map[ssa.Value]int{},
		Code: map[int][]ssa.Instruction{}, CallSite: map[ssa.CallInstruction]int{}, SiteOf: map[ssa.Value]int{},
		GlobOf: map[*ssa.Global]int{}, IfaceOf: map[*ssa.MakeInterface]int{}, MethOf: map[string]int{},
		FieldOf: map[string]int{}, unknown: map[string]int{}, Kinds: map[string]int{}}
	pa := state.PointerAnalysis
	reach := state.ReachableFunctions()
	// function table: call-graph nodes in a deterministic order, then whatever else is referenced
	var nodes []*ssa.Function
	for f := range pa.CallGraph.Nodes {
		if f != nil && f != pa.CallGraph.Root.Func {
			nodes = append(nodes, f)
		}
	}
	sort.Slice(nodes, func(i, j int) bool {
		if nodes[i].String() != nodes[j].String() {
			return nodes[i].String() < nodes[j].String()
		}
		return nodes[i].Pos() < nodes[j].Pos()
	})
	for _, f := range nodes {
		d.fn(f)
	}
	// pre-pass: every concrete type that is put into an interface anywhere in the table
	for i := 0; i < len(d.Funcs); i++ {
		for _, b := range d.Funcs[i].Blocks {
			for _, ins := range b.Instrs {
				if m, ok := ins.(*ssa.MakeInterface); ok {
					if d.TypeOf.At(m.X.Type()) == nil {
						d.allTypes = append(d.allTypes, m.X.Type())
					}
					d.typ(m.X.Type())
				}
			}
		}
	}
	// instructions (the table may grow while dumping: functions referenced as values / callees)
	for i := 0; i < len(d.Funcs); i++ {
		fn := d.Funcs[i]
		for _, b := range fn.Blocks {
			for _, ins := range b.Instrs {
				d.instr(fn, i, ins)
			}
		}
	}
	// methods: every (concrete type, invoked method) pair
	type mkey struct {
		pkg  *types.Package
		name string
		id   int
	}
	var meths []mkey
	seenM := map[int]bool{}
	for ins := range d.CallSite {
		cc := ins.Common()
		if cc.IsInvoke() {
			id := intern(d.MethOf, cc.Method.Id())
			if !seenM[id] {
				seenM[id] = true
				meths = append(meths, mkey{cc.Method.Pkg(), cc.Method.Name(), id})
			}
		}
	}
	sort.Slice(meths, func(i, j int) bool { return meths[i].id < meths[j].id })
	prog := state.Program
	for _, t := range d.allTypes {
		for _, m := range meths {
			sel := prog.MethodSets.MethodSet(t).Lookup(m.pkg, m.name)
			if sel == nil {
				continue
			}
			if g := prog.MethodValue(sel); g != nil {
				d.Lines = append(d.Lines, fmt.Sprintf("method %d %d %d", d.typ(t), m.id, d.fn(g)))
			}
		}
	}
	// roots
	for _, pkg := range prog.AllPackages() {
		if pkg.Pkg.Name() == "main" {
			for _, n := range []string{"init", "main"} {
				if g := pkg.Func(n); g != nil {
					d.Lines = append(d.Lines, fmt.Sprintf("root %d", d.fn(g)))
				}
			}
		}
	}
	// constructs outside the fragment matter only in reachable functions (the criteria look at nothing else)
	for _, u := range d.unsup {
		if reach[u.fn] {
			d.Unsupported = append(d.Unsupported, u.text)
		}
	}
	// real result: reach, call graph, points-to sets
	for i := 0; i < len(d.Funcs); i++ {
		fn := d.Funcs[i]
		if reach[fn] {
			d.Lines = append(d.Lines, fmt.Sprintf("reach %d", i))
			if leafShaped(fn) && d.hasStoreLike(i) {
				d.LeafShaped = append(d.LeafShaped, fn.String())
			}
		}
	}
	for _, fn := range nodes {
		node := pa.CallGraph.Nodes[fn]
		seen := map[string]bool{}
		for _, e := range node.Out {
			d.cgEdge(fn, e, seen)
		}
	}
	for i := 0; i < len(d.Funcs); i++ {
		fn := d.Funcs[i]
		if !reach[fn] {
			continue
		}
		type rv struct {
			r int
			v ssa.Value
		}
		var rvs []rv
		for v, r := range d.regs(fn) {
			rvs = append(rvs, rv{r, v})
		}
		sort.Slice(rvs, func(a, b int) bool { return rvs[a].r < rvs[b].r })
		for _, x := range rvs {
			if !CanPoint(x.v.Type()) {
				continue
			}
			if ls, ok := d.Labels(x.v); ok {
				s := "-"
				if len(ls) > 0 {
					s = strings.Join(ls, ";")
				}
				d.Lines = append(d.Lines, fmt.Sprintf("pt %d %d %s", i, x.r, s))
			}
		}
		// every pointer-like operand of a reachable function must have been queried
		for _, b := range fn.Blocks {
			for _, ins := range b.Instrs {
				if _, dbg := ins.(*ssa.DebugRef); dbg {
					continue
				}
				for _, op := range ins.Operands(nil) {
					if *op == nil {
						continue
					}
					switch (*op).(type) {
					case *ssa.Const, *ssa.Global, *ssa.Function, *ssa.Builtin:
						continue
					}
					if CanPoint((*op).Type()) {
						if _, ok := pa.Queries[*op]; !ok {
							d.MissingQuery = append(d.MissingQuery, fn.String()+": "+(*op).Name()+" in `"+ins.String()+"`")
						}
					}
				}
			}
		}
	}
	return d
}

func (d *Dump) cgEdge(fn *ssa.Function, e *callgraph.Edge, seen map[string]bool) {
	if e.Site == nil {
		return
	}
	c, ok := d.CallSite[e.Site]
	if !ok {
		return
	}
	s := fmt.Sprintf("cg %d %d %d", d.fn(fn), c, d.fn(e.Callee.Func))
	if !seen[s] {
		seen[s] = true
		d.Lines = append(d.Lines, s)
	}
}

// hasStoreLike: does function i have facts that pair with loads through the derived heap table?
func (d *Dump) hasStoreLike(i int) bool {
	pre := fmt.Sprintf("i %d ", i)
	for _, l := range d.Lines {
		if strings.HasPrefix(l, pre) {
			rest := l[len(pre):]
			if strings.HasPrefix(rest, "store ") || strings.HasPrefix(rest, "hcopy ") || strings.HasPrefix(rest, "mkiface ") {
				return true
			}
		}
	}
	return false
}

// Text returns the oracle input: function table first, then facts and the real result.
func (d *Dump) Text() string {
	var out []string
	for i, fn := range d.Funcs {
		reg := d.regs(fn)
		var ps, fvs []int
		for _, p := range fn.Params {
			ps = append(ps, reg[p])
		}
		for _, p := range fn.FreeVars {
			fvs = append(fvs, reg[p])
		}
		out = append(out, fmt.Sprintf("func %d %s %s", i, joinInts(ps), joinInts(fvs)))
	}
	return strings.Join(out, "\n") + "\n" + strings.Join(d.Lines, "\n") + "\n"
}
