// Package ptrrun is the part shared by the C11 and C12 drivers: write a generated pointer program,
// analyse it with the repository's own analyzer state (real pointer analysis + call graph), dump the
// facts, run the Lean oracle, build and run the program natively and collect the ground truth
// (probe addresses, call events).
package ptrrun

import (
	"bufio"
	"bytes"
	"context"
	"fmt"
	"go/types"
	"os"
	"os/exec"
	"path/filepath"
	"regexp"
	"sort"
	"strconv"
	"strings"
	"time"

	"github.com/awslabs/ar-go-tools/analysis/config"
	"github.com/awslabs/ar-go-tools/analysis/dataflow"
	"golang.org/x/tools/go/packages"
	"golang.org/x/tools/go/ssa"
	"golang.org/x/tools/go/ssa/ssautil"
	"verif/harness/gen"
	"verif/harness/lib"
	"verif/harness/ptrfacts"
)

// Probe is one probe call of the analysed program.
type Probe struct {
	ID   int
	Fn   *ssa.Function
	Val  ssa.Value
	Call ssa.CallInstruction
}

// Fail is one failing rule instance reported by the oracle.
type Fail struct {
	Kind string // ptr | cg | root
	Fn   int
	Idx  int
}

// Result of analysing and running one generated program.
type Result struct {
	Prop       string
	Prog       *gen.PtrProg
	Dir        string
	State      *dataflow.AnalyzerState
	Dump       *ptrfacts.Dump
	FactsOf    map[int][]string
	NFacts     int
	PtrClosed  bool
	CgClosed   bool
	IqClosed   bool
	BadRecords int
	Fails      []Fail
	FailCases  []int
	OracleOut  []string
	Probes     map[int]*Probe
	ProbeDeref map[int]map[uint64]bool // probe id of a **T probe -> what the cell held (same address encoding)
	ProbeAddrs map[int]map[uint64]bool // probe id -> (run number << 48 | address): addresses are comparable within one run only
	// call events of the native runs: (function id, site id)
	Events     map[[2]int]bool
	SiteInstr  map[int][]ssa.CallInstruction // several when the site lies in a generic function with several instances
	FidFn      map[int][]*ssa.Function
	NativeRuns int
	NativeNote []string
	// filled by MissedAliases
	IndirectObserved int
	PairsObserved    int
	AllocObserved    int
	AliasAgree       int
	AliasDiffer      int
	Samples          []any
	Timing           map[string]float64
	ssaProg          *ssa.Program
	pkgs             []*packages.Package
}

var goEnv = append(os.Environ(), "GOFLAGS=-mod=mod", "GOPROXY=off", "GOSUMDB=off", "GOTOOLCHAIN=local", "GOWORK=off")

var caseRe = regexp.MustCompile(`(?:case|swap|rec|\*A|\*B|\bc)(\d+)`)

// CaseOf guesses the generated case a function belongs to (-1 if none).
func CaseOf(fn *ssa.Function) int {
	for f := fn; f != nil; f = f.Parent() {
		if f.Parent() == nil {
			name := f.String()
			if i := strings.LastIndex(name, "vprog."); i >= 0 {
				name = name[i+len("vprog."):]
			}
			if m := caseRe.FindStringSubmatch(name); m != nil {
				n, _ := strconv.Atoi(m[1])
				return n
			}
		}
	}
	return -1
}

func constInt(v ssa.Value) (int, bool) {
	c, ok := v.(*ssa.Const)
	if !ok || c.Value == nil {
		return 0, false
	}
	if b, ok := c.Type().Underlying().(*types.Basic); !ok || b.Info()&types.IsInteger == 0 {
		return 0, false
	}
	return int(c.Int64()), true
}

func isHelper(name string) bool {
	return strings.HasPrefix(name, "probe") || name == "enter" || name == "Enter" || name == "yield" || name == "waitAll" ||
		name == "setup" || name == "want" || name == "cond"
}

// Run does everything up to (and including) the native runs. nil on a harness failure (already reported).
func Run(prop, sub string, pp *gen.PtrProg, rep *lib.Report) *Result {
	return RunWith(prop, sub, pp, rep, "oracle_c11", nil)
}

// RunWith is Run with a chosen oracle and extra oracle input lines computed from the dump.
func RunWith(prop, sub string, pp *gen.PtrProg, rep *lib.Report, oracle string, extra func(*Result) string) *Result {
	res := &Result{Prop: prop, Prog: pp, FactsOf: map[int][]string{}, Probes: map[int]*Probe{},
		ProbeAddrs: map[int]map[uint64]bool{}, ProbeDeref: map[int]map[uint64]bool{}, Events: map[[2]int]bool{}, SiteInstr: map[int][]ssa.CallInstruction{},
		FidFn: map[int][]*ssa.Function{}, Timing: map[string]float64{}}
	t0 := time.Now()
	lap := func(name string) {
		res.Timing[name] = time.Since(t0).Seconds()
		t0 = time.Now()
	}
	dir := lib.WorkDir(prop, sub)
	res.Dir = dir
	anFiles := map[string]string{"main.go": pp.Main, "helpers.go": pp.Stub}
	natFiles := map[string]string{"main.go": pp.Main, "helpers.go": pp.Native}
	for k, v := range pp.Shared {
		anFiles[k], natFiles[k] = v, v
	}
	for k, v := range pp.StubFiles {
		anFiles[k] = v
	}
	for k, v := range pp.NativeFiles {
		natFiles[k] = v
	}
	lib.WriteProgram(filepath.Join(dir, "an"), "vprog", anFiles)
	lib.WriteProgram(filepath.Join(dir, "nat"), "vprog", natFiles)

	// native build in the background
	natBin := filepath.Join(dir, "nat", "prog")
	natDone := make(chan error, 1)
	go func() {
		cmd := exec.Command("go", "build", "-o", natBin, ".")
		cmd.Dir = filepath.Join(dir, "nat")
		cmd.Env = goEnv
		out, err := cmd.CombinedOutput()
		if err != nil {
			err = fmt.Errorf("%v: %s", err, out)
		}
		natDone <- err
	}()

	prog, pkgs, err := lib.LoadSSA(filepath.Join(dir, "an"), ssa.InstantiateGenerics, false, ".")
	if err != nil {
		rep.Fail("harness-load", "generated pointer program does not load: "+err.Error(), []byte(pp.Main), true)
		<-natDone
		return nil
	}
	lap("load")
	cfg := config.NewDefault()
	cfg.LogLevel = int(config.ErrLevel)
	state, err := dataflow.NewInitializedAnalyzerState(prog, pkgs, config.NewLogGroup(cfg), cfg)
	if err != nil || state.PointerAnalysis == nil {
		rep.Fail("analysis-error", fmt.Sprintf("the analyzer state could not be built on a well-typed program: %v", err), []byte(pp.Main), false)
		<-natDone
		return nil
	}
	res.State = state
	res.ssaProg, res.pkgs = prog, pkgs
	lap("analyze")
	d := ptrfacts.New(state)
	res.Dump = d
	for _, l := range d.Lines {
		if strings.HasPrefix(l, "i ") {
			var f int
			fmt.Sscanf(l, "i %d", &f)
			res.FactsOf[f] = append(res.FactsOf[f], l[strings.Index(l[2:], " ")+3:])
			res.NFacts++
		}
	}
	// probes, sites, function ids (over every function of the program, analysed or not)
	var allFns []*ssa.Function
	for fn := range ssautil.AllFunctions(prog) {
		if fn.TypeParams().Len() > 0 && len(fn.TypeArgs()) == 0 {
			continue // body of a generic function: never executed, only its instances are
		}
		if fn.Blocks != nil && (fn.Pkg == nil || strings.HasPrefix(fn.Pkg.Pkg.Path(), "vprog")) {
			allFns = append(allFns, fn)
		}
	}
	sort.Slice(allFns, func(i, j int) bool { return allFns[i].String() < allFns[j].String() })
	for _, fn := range allFns {
		for _, b := range fn.Blocks {
			for _, ins := range b.Instrs {
				call, ok := ins.(ssa.CallInstruction)
				if !ok {
					continue
				}
				cc := call.Common()
				name := ""
				if sc := cc.StaticCallee(); sc != nil {
					name = sc.Name()
				}
				switch {
				case strings.HasPrefix(name, "probe") && len(cc.Args) == 2:
					if id, ok := constInt(cc.Args[0]); ok {
						res.Probes[id] = &Probe{ID: id, Fn: fn, Val: cc.Args[1], Call: call}
					}
				case (name == "enter" || name == "Enter") && len(cc.Args) == 2:
					if id, ok := constInt(cc.Args[0]); ok {
						dup := false
						for _, g := range res.FidFn[id] {
							dup = dup || g == fn
						}
						if !dup {
							res.FidFn[id] = append(res.FidFn[id], fn)
						}
					}
				case isHelper(name):
				default:
					if _, isB := cc.Value.(*ssa.Builtin); isB {
						continue
					}
					for _, a := range cc.Args {
						if b, ok := a.Type().Underlying().(*types.Basic); ok && b.Kind() == types.Int {
							if id, ok := constInt(a); ok {
								res.SiteInstr[id] = append(res.SiteInstr[id], call)
							}
							break
						}
					}
				}
			}
		}
	}
	lap("dump")
	input := d.Text()
	if extra != nil {
		input += extra(res)
	}
	os.WriteFile(filepath.Join(dir, "oracle_in.txt"), []byte(input), 0o644)
	out, err := lib.RunOracle(oracle, []byte(input))
	if err != nil || len(out) == 0 || !strings.HasPrefix(out[0], "closed ") {
		rep.Fail("oracle-run", fmt.Sprintf("oracle failed: %v %v", err, out), nil, true)
		<-natDone
		return nil
	}
	res.OracleOut = out
	var p, c int
	iq := 1
	fmt.Sscanf(out[0], "closed ptr=%d cg=%d bad=%d iq=%d", &p, &c, &res.BadRecords, &iq)
	res.PtrClosed, res.CgClosed, res.IqClosed = p == 1, c == 1, iq == 1
	seenCase := map[int]bool{}
	for _, l := range out[1:] {
		var f Fail
		if n, _ := fmt.Sscanf(l, "fail ptr %d %d", &f.Fn, &f.Idx); n == 2 {
			f.Kind = "ptr"
		} else if n, _ := fmt.Sscanf(l, "fail cg %d %d", &f.Fn, &f.Idx); n == 2 {
			f.Kind = "cg"
		} else if n, _ := fmt.Sscanf(l, "fail iq %d %d", &f.Fn, &f.Idx); n == 2 {
			f.Kind = "iq"
		} else if n, _ := fmt.Sscanf(l, "fail root %d", &f.Fn); n == 1 {
			f.Kind = "root"
		} else {
			continue
		}
		res.Fails = append(res.Fails, f)
		if f.Fn < len(d.Funcs) {
			if cs := CaseOf(d.Funcs[f.Fn]); cs >= 0 && !seenCase[cs] {
				seenCase[cs] = true
				res.FailCases = append(res.FailCases, cs)
			}
		}
	}
	lap("oracle")

	// native runs
	if err := <-natDone; err != nil {
		rep.Fail("harness-native-build", "generated program does not build natively: "+err.Error(), []byte(pp.Main), true)
		return nil
	}
	lap("native-build-wait")
	r := lib.Rand(prop + "-bits-" + sub)
	bitsList := []int{0, 1<<24 - 1, r.Intn(1 << 24), r.Intn(1 << 24)}
	if lib.Thorough() {
		for i := 0; i < 6; i++ {
			bitsList = append(bitsList, r.Intn(1<<24))
		}
	}
	chunk := 20
	for _, bits := range bitsList {
		for from := 0; from < pp.NCases; from += chunk {
			res.native(natBin, bits, from, from+chunk)
		}
	}
	lap("native-run")
	if os.Getenv("VERIF_TIMING") != "" {
		fmt.Fprintf(os.Stderr, "timing %s: %v\n", sub, res.Timing)
	}
	return res
}

func (res *Result) native(bin string, bits, from, to int) {
	ctx, cancel := context.WithTimeout(context.Background(), 30*time.Second)
	defer cancel()
	cmd := exec.CommandContext(ctx, bin, fmt.Sprint(bits), fmt.Sprint(from), fmt.Sprint(to))
	cmd.Env = append(os.Environ(), "GODEBUG=asyncpreemptoff=1")
	var stderr bytes.Buffer
	cmd.Stderr = &stderr
	out, err := cmd.Output()
	res.NativeRuns++
	if err != nil {
		msg := stderr.String()
		if len(msg) > 300 {
			msg = msg[:300]
		}
		res.NativeNote = append(res.NativeNote, fmt.Sprintf("run bits=%d cases=%d..%d: %v %s", bits, from, to, err, msg))
	}
	sc := bufio.NewScanner(bytes.NewReader(out))
	sc.Buffer(make([]byte, 1<<20), 1<<20)
	for sc.Scan() {
		f := strings.Fields(sc.Text())
		if len(f) < 2 {
			continue
		}
		switch f[0] {
		case "P":
			if len(f) == 3 {
				id, _ := strconv.Atoi(f[1])
				a, err := strconv.ParseUint(strings.TrimPrefix(f[2], "0x"), 16, 64)
				if err != nil || a == 0 {
					continue
				}
				a = a&(1<<48-1) | uint64(res.NativeRuns)<<48
				if res.ProbeAddrs[id] == nil {
					res.ProbeAddrs[id] = map[uint64]bool{}
				}
				res.ProbeAddrs[id][a] = true
			}
		case "Q":
			if len(f) == 3 {
				id, _ := strconv.Atoi(f[1])
				a, err := strconv.ParseUint(strings.TrimPrefix(f[2], "0x"), 16, 64)
				if err != nil || a == 0 {
					continue
				}
				a = a&(1<<48-1) | uint64(res.NativeRuns)<<48
				if res.ProbeDeref[id] == nil {
					res.ProbeDeref[id] = map[uint64]bool{}
				}
				res.ProbeDeref[id][a] = true
			}
		case "E":
			if len(f) == 3 {
				fid, _ := strconv.Atoi(f[1])
				site, _ := strconv.Atoi(f[2])
				res.Events[[2]int{fid, site}] = true
			}
		case "X":
			res.NativeNote = append(res.NativeNote, fmt.Sprintf("run bits=%d cases=%d..%d stopped: %s", bits, from, to, sc.Text()))
		}
	}
}

// Missed is an alias that happened at run time and that the analysis denies.
type Missed struct {
	Key   string
	Short string
	Text  string
	Case  int
}

func isAllocLike(v ssa.Value) bool {
	switch v.(type) {
	case *ssa.Alloc, *ssa.MakeMap, *ssa.MakeChan, *ssa.MakeSlice:
		return true
	}
	return false
}

func (res *Result) describe(p *Probe) string {
	ls, _ := res.Dump.Labels(p.Val)
	var raw []string
	if q, ok := res.State.PointerAnalysis.Queries[p.Val]; ok {
		seen := map[string]bool{}
		for _, l := range q.PointsTo().Labels() {
			s := l.String()
			if v := l.Value(); v != nil && v.Parent() != nil {
				s += "@" + v.Parent().Name() + ":" + v.Name()
			}
			if !seen[s] {
				seen[s] = true
				raw = append(raw, s)
			}
		}
	}
	sort.Strings(raw)
	if len(raw) > 12 {
		raw = append(raw[:12], fmt.Sprintf("… %d more", len(raw)-12))
	}
	return fmt.Sprintf("probe %d in %s: value %s = `%s` : %s   points-to {%s}  (%s)", p.ID, p.Fn.String(), p.Val.Name(), p.Val.String(),
		p.Val.Type(), strings.Join(raw, ", "), strings.Join(ls, ";"))
}

func intersects(a, b []string) bool {
	m := map[string]bool{}
	for _, x := range a {
		m[x] = true
	}
	for _, x := range b {
		if m[x] {
			return true
		}
	}
	return false
}

// MissedAliases compares the observed addresses with the real MayAlias / label sets.
func MissedAliases(res *Result) []Missed {
	pa := res.State.PointerAnalysis
	byAddr := map[uint64][]int{}
	for id, as := range res.ProbeAddrs {
		for a := range as {
			byAddr[a] = append(byAddr[a], id)
		}
	}
	addrs := make([]uint64, 0, len(byAddr))
	for a := range byAddr {
		addrs = append(addrs, a)
	}
	sort.Slice(addrs, func(i, j int) bool { return addrs[i] < addrs[j] })
	var missed []Missed
	seenPair := map[[2]int]bool{}
	for _, a := range addrs {
		ids := byAddr[a]
		sort.Ints(ids)
		if len(ids) < 2 {
			continue
		}
		for x := 0; x < len(ids); x++ {
			for y := x + 1; y < len(ids) && y < x+40; y++ {
				pi, pj := res.Probes[ids[x]], res.Probes[ids[y]]
				if pi == nil || pj == nil || seenPair[[2]int{ids[x], ids[y]}] {
					continue
				}
				seenPair[[2]int{ids[x], ids[y]}] = true
				if !types.Identical(pi.Val.Type(), pj.Val.Type()) {
					continue
				}
				qi, oki := pa.Queries[pi.Val]
				qj, okj := pa.Queries[pj.Val]
				res.PairsObserved++
				real := oki && okj && qi.MayAlias(qj)
				li, _ := res.Dump.Labels(pi.Val)
				lj, _ := res.Dump.Labels(pj.Val)
				if intersects(li, lj) == real {
					res.AliasAgree++
				} else {
					res.AliasDiffer++
				}
				if len(res.Samples) < 3 && x == 0 && y == 1 {
					res.Samples = append(res.Samples, map[string]any{"address": fmt.Sprintf("%#x", a),
						"probe_a": res.describe(pi), "probe_b": res.describe(pj), "real_MayAlias": real})
				}
				if !real {
					missed = append(missed, Missed{
						Key:   fmt.Sprintf("%s/%s", pi.Val.String(), pj.Val.String()),
						Short: fmt.Sprintf("address %#x was observed at probes %d and %d (type %s), MayAlias=false", a, ids[x], ids[y], pi.Val.Type()),
						Text:  fmt.Sprintf("address %#x observed at both probes\n  %s\n  %s\nMayAlias = false\n", a, res.describe(pi), res.describe(pj)),
						Case:  sameCase(pi.Fn, pj.Fn)})
				}
				// allocation-site membership
				for _, pq := range [][2]*Probe{{pi, pj}, {pj, pi}} {
					if isAllocLike(pq[0].Val) {
						res.AllocObserved++
						found := false
						if q, ok := pa.Queries[pq[1].Val]; ok {
							for _, l := range q.PointsTo().Labels() {
								if l.Value() == pq[0].Val && l.Path() == "" {
									found = true
								}
							}
						}
						if !found {
							missed = append(missed, Missed{
								Key:   fmt.Sprintf("site:%s/%s", pq[0].Val.String(), pq[1].Val.String()),
								Short: fmt.Sprintf("the object allocated at probe %d was observed at probe %d, whose label set lacks that allocation site", pq[0].ID, pq[1].ID),
								Text:  fmt.Sprintf("address %#x: allocated at\n  %s\nobserved at\n  %s\nallocation site not in the label set\n", a, res.describe(pq[0]), res.describe(pq[1])),
								Case:  CaseOf(pq[1].Fn)})
						}
					}
				}
			}
		}
	}
	// report first the misses whose two probes lie in one generated case (the replay is then that case alone)
	defer func() {
		sort.SliceStable(missed, func(i, j int) bool { return missed[i].Case >= 0 && missed[j].Case < 0 })
	}()
	// IndirectQueries: what a probed **T cell held is an object probed elsewhere as *T
	ids := make([]int, 0, len(res.ProbeDeref))
	for id := range res.ProbeDeref {
		ids = append(ids, id)
	}
	sort.Ints(ids)
	for _, id := range ids {
		pp := res.Probes[id]
		if pp == nil {
			continue
		}
		ptrT, ok := pp.Val.Type().Underlying().(*types.Pointer)
		if !ok {
			continue
		}
		iq, hasIQ := pa.IndirectQueries[pp.Val]
		as := make([]uint64, 0, len(res.ProbeDeref[id]))
		for a := range res.ProbeDeref[id] {
			as = append(as, a)
		}
		sort.Slice(as, func(i, j int) bool { return as[i] < as[j] })
		for _, a := range as {
			others := byAddr[a]
			for k, oid := range others {
				if k >= 6 {
					break
				}
				po := res.Probes[oid]
				if po == nil || !types.Identical(po.Val.Type(), ptrT.Elem()) || seenPair[[2]int{-id, oid}] {
					continue
				}
				seenPair[[2]int{-id, oid}] = true
				q, okq := pa.Queries[po.Val]
				res.IndirectObserved++
				if !(hasIQ && okq && iq.MayAlias(q)) {
					missed = append(missed, Missed{
						Key:   fmt.Sprintf("indirect:%s/%s", pp.Val.String(), po.Val.String()),
						Short: fmt.Sprintf("the cell probed at %d held the object probed at %d, but IndirectQueries of the former does not alias the latter", id, oid),
						Text:  fmt.Sprintf("address %#x: held by the cell of\n  %s\nobserved at\n  %s\nIndirectQueries(%s) present=%v does not intersect\n", a, res.describe(pp), res.describe(po), pp.Val.Name(), hasIQ),
						Case:  CaseOf(pp.Fn)})
				}
			}
		}
	}
	return missed
}

func sameCase(f, g *ssa.Function) int {
	if c := CaseOf(f); c == CaseOf(g) {
		return c
	}
	return -1
}

// FailText renders up to n failing rule instances.
func (res *Result) FailText(n int) []string {
	var out []string
	for i, f := range res.Fails {
		if i >= n {
			out = append(out, fmt.Sprintf("… %d more", len(res.Fails)-n))
			break
		}
		s := fmt.Sprintf("%s rule", f.Kind)
		if f.Kind == "iq" {
			if f.Fn < len(res.Dump.Funcs) {
				s += fmt.Sprintf(" for register %d of %s", f.Idx, res.Dump.Funcs[f.Fn].String())
			}
			out = append(out, s)
			continue
		}
		if f.Fn < len(res.Dump.Funcs) {
			s += " in " + res.Dump.Funcs[f.Fn].String()
			if code := res.Dump.Code[f.Fn]; f.Idx < len(code) && code[f.Idx] != nil {
				s += " at `" + code[f.Idx].String() + "`"
			}
			if facts := res.FactsOf[f.Fn]; f.Idx < len(facts) {
				s += " [" + facts[f.Idx] + "]"
			}
		}
		out = append(out, s)
	}
	return out
}

// ExtractCase cuts a single case out of the generated source (prelude + that case + a main calling it).
func ExtractCase(pp *gen.PtrProg, c int) string {
	src := pp.Main
	start := strings.Index(src, fmt.Sprintf("// ---- case %d\n", c))
	if c < 0 || start < 0 {
		return src
	}
	end := strings.Index(src[start+1:], "// ---- case ")
	if end < 0 {
		end = strings.Index(src[start:], "func main() {") - 1
	}
	pre := src[:strings.Index(src, "// ---- case 0\n")]
	site := 0
	if i := strings.Index(src, fmt.Sprintf("\t\tcase%d(", c)); i >= 0 {
		fmt.Sscanf(src[i:], fmt.Sprintf("\t\tcase%d(%%d)", c), &site)
	}
	return pre + src[start:start+1+end] + fmt.Sprintf("\nfunc main() {\n\tsetup()\n\tif want(%d) {\n\t\tcase%d(%d)\n\t}\n\twaitAll()\n}\n", c, c, site)
}

// Replay renders a replay file: what failed, the (single-case) program and the helper files.
func Replay(res *Result, c int, what string) []byte {
	var b strings.Builder
	b.WriteString(what)
	b.WriteString("\n# how to replay: put main.go + helpers_stub.go in a module `vprog`, run the analysis (argot / dataflow.NewInitializedAnalyzerState),\n")
	b.WriteString("# inspect state.PointerAnalysis.Queries / CallGraph at the named values; for the ground truth build main.go + helpers_native.go and run `./prog <bits>`.\n")
	if len(res.NativeNote) > 0 {
		b.WriteString("# native notes: " + strings.Join(res.NativeNote, "; ") + "\n")
	}
	b.WriteString("\n==== main.go" + map[bool]string{true: fmt.Sprintf(" (case %d extracted from the generated program)", c), false: ""}[c >= 0] + "\n")
	b.WriteString(ExtractCase(res.Prog, c))
	b.WriteString("\n==== helpers_stub.go\n" + res.Prog.Stub + "\n==== helpers_native.go\n" + res.Prog.Native)
	for _, m := range []map[string]string{res.Prog.Shared, res.Prog.StubFiles} {
		for k, v := range m {
			b.WriteString("\n==== " + k + "\n" + v)
		}
	}
	return []byte(b.String())
}

// Cleanup removes the big scratch files of a run that found nothing.
func (res *Result) Cleanup() {
	os.Remove(filepath.Join(res.Dir, "nat", "prog"))
}

// Canary re-runs the real pointer analysis with one generated function listed as an
// `unsafe-no-effect-function` (the documented unsound option: the function's body generates no
// constraints) and evaluates the criteria on that result.  The criterion must then FAIL, and only inside
// that function or at call instructions that can call it.  This is a sensitivity self-check of the whole
// tie (dumper + oracle) performed on every run; it says nothing about the unchanged configuration.
// Returns (number of failing rule instances, number of them at unexpected places, description).
func Canary(res *Result, victim *ssa.Function) (int, int, string) {
	cfg := config.NewDefault()
	cfg.LogLevel = int(config.ErrLevel)
	cfg.PointerConfig.UnsafeNoEffectFunctions = []string{victim.String()}
	state, err := dataflow.NewInitializedAnalyzerState(res.ssaProg, res.pkgs, config.NewLogGroup(cfg), cfg)
	if err != nil || state.PointerAnalysis == nil {
		return 0, 0, fmt.Sprintf("analysis with a no-effect function failed: %v", err)
	}
	d := ptrfacts.New(state)
	out, err := lib.RunOracle("oracle_c11", []byte(d.Text()))
	if err != nil || len(out) == 0 {
		return 0, 0, fmt.Sprintf("oracle failed: %v", err)
	}
	cg := state.PointerAnalysis.CallGraph
	fails, stray := 0, 0
	var strays []string
	for _, l := range out[1:] {
		var f, idx int
		kind := ""
		if n, _ := fmt.Sscanf(l, "fail ptr %d %d", &f, &idx); n == 2 {
			kind = "ptr"
		} else if n, _ := fmt.Sscanf(l, "fail cg %d %d", &f, &idx); n == 2 {
			kind = "cg"
		} else {
			continue
		}
		fails++
		if f >= len(d.Funcs) {
			stray++
			continue
		}
		fn := d.Funcs[f]
		ok := fn == victim || fn.Parent() == victim
		if !ok && idx < len(d.Code[f]) {
			if call, isCall := d.Code[f][idx].(ssa.CallInstruction); isCall {
				if n := cg.Nodes[fn]; n != nil {
					for _, e := range n.Out {
						if e.Site == call && e.Callee.Func == victim {
							ok = true
						}
					}
				}
			}
		}
		if !ok {
			stray++
			if len(strays) < 3 {
				strays = append(strays, fmt.Sprintf("%s rule in %s #%d", kind, fn.String(), idx))
			}
		}
	}
	return fails, stray, fmt.Sprintf("no-effect(%s): %s; %d failing rule instances, %d elsewhere %v", victim.String(), out[0], fails, stray, strays)
}

// FocusOf maps the failing rule instances to the round-trip kinds of the generator that exercise
// the same instruction kinds (for the targeted search after a criterion failure).
func FocusOf(res *Result) []string {
	seen := map[string]bool{}
	var out []string
	add := func(ks ...string) {
		for _, k := range ks {
			if !seen[k] {
				seen[k] = true
				out = append(out, k)
			}
		}
	}
	d := res.Dump
	for _, f := range res.Fails {
		if f.Kind == "iq" { // Idx is a register here, not an instruction
			add("pp", "field", "struct")
			continue
		}
		if f.Fn >= len(d.Funcs) || f.Idx >= len(d.Code[f.Fn]) {
			continue
		}
		if facts := res.FactsOf[f.Fn]; f.Idx < len(facts) && strings.Contains(facts[f.Idx], "2000") {
			add("struct")
		}
		switch ins := d.Code[f.Fn][f.Idx].(type) {
		case *ssa.Send, *ssa.Select:
			add("chan", "select", "go")
		case *ssa.UnOp:
			if ins.Op.String() == "<-" {
				add("chan", "select", "go")
			} else {
				add("field", "pp", "global", "array", "slice", "append")
			}
		case *ssa.MapUpdate, *ssa.Lookup, *ssa.Next:
			add("map", "mapk", "map-range", "mapk-range")
		case *ssa.Store:
			add("field", "pp", "global", "array", "slice", "closure")
		case *ssa.FieldAddr:
			add("field", "pp")
		case *ssa.IndexAddr, *ssa.Slice:
			add("slice", "array", "append", "copy")
		case *ssa.Phi:
			add("phi")
		case *ssa.MakeInterface, *ssa.TypeAssert, *ssa.ChangeInterface:
			add("iface", "any", "anyfield", "assert-iface", "invoke")
		case *ssa.MakeClosure:
			add("closure", "bound")
		case *ssa.Field:
			add("struct-rvalue", "struct")
		case *ssa.Panic:
			add("panic")
		case *ssa.Return:
			add("static", "results", "dyncall", "invoke")
		case ssa.CallInstruction:
			cc := ins.Common()
			if b, ok := cc.Value.(*ssa.Builtin); ok {
				switch b.Name() {
				case "append":
					add("append")
				case "copy":
					add("copy")
				default:
					add("panic")
				}
				break
			}
			switch {
			case cc.IsInvoke():
				add("invoke", "iface", "assert-iface")
			case cc.StaticCallee() == nil:
				add("dyncall", "closure", "bound", "funcfield")
			default:
				add("static", "results", "panic", "bound")
			}
			if _, isGo := ins.(*ssa.Go); isGo {
				add("go")
			}
		}
	}
	if len(out) > 10 {
		out = out[:10]
	}
	return out
}
