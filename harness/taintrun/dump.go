package taintrun

import (
	"fmt"
	"sort"
	"strings"

	"github.com/awslabs/ar-go-tools/analysis/config"
	df "github.com/awslabs/ar-go-tools/analysis/dataflow"
	"github.com/awslabs/ar-go-tools/analysis/taint"
	"golang.org/x/tools/go/ssa"
)

// GraphDump is the linked inter-procedural summary graph of a finished run in the line protocol
// of lean/Oracle/C01.lean (model Argot.TaintVisit), with the tables needed to map model node
// ids back to source positions.
type GraphDump struct {
	Lines   []string       // graph / node / edge / rel records (no run records)
	NodeID  map[df.GraphNode]int
	Nodes   []df.GraphNode // by id
	Entries []Entry        // entry points (source nodes with their calling contexts) of problem 0
	// Stats for evidence
	NGraphs, NNodes, NEdges, NRelEdges int
	Kinds                              map[string]int
	Warnings                           []string
}

// Entry is one entry point of the traversal: RunVisitorOnEntryPoints calls Visit once per entry.
type Entry struct {
	Node  int
	Trace []int // call nodes, innermost first
	Instr ssa.Instruction
}

type recorder struct{ entries []df.NodeWithTrace }

func (r *recorder) Visit(_ *df.AnalyzerState, e df.NodeWithTrace) { r.entries = append(r.entries, e) }

func kindOf(n df.GraphNode) string {
	switch n.(type) {
	case *df.ParamNode:
		return "param"
	case *df.CallNodeArg:
		return "callArg"
	case *df.CallNode:
		return "call"
	case *df.ReturnValNode:
		return "ret"
	case *df.ClosureNode:
		return "closure"
	case *df.BoundVarNode:
		return "boundVar"
	case *df.FreeVarNode:
		return "freeVar"
	case *df.AccessGlobalNode:
		return "global"
	case *df.SyntheticNode:
		return "synthetic"
	case *df.BoundLabelNode:
		return "boundLabel"
	case *df.IfNode:
		return "ifNode"
	}
	return "other"
}

func ints(l []int) string {
	if len(l) == 0 {
		return "-"
	}
	s := make([]string, len(l))
	for i, x := range l {
		s[i] = fmt.Sprint(x)
	}
	return strings.Join(s, ",")
}

func optInts(l []int) string { // -1 = none
	if len(l) == 0 {
		return "-"
	}
	s := make([]string, len(l))
	for i, x := range l {
		if x < 0 {
			s[i] = "_"
		} else {
			s[i] = fmt.Sprint(x)
		}
	}
	return strings.Join(s, ",")
}

func opt(x int) string {
	if x < 0 {
		return "_"
	}
	return fmt.Sprint(x)
}

func b01(b bool) string {
	if b {
		return "1"
	}
	return "0"
}

func esc(s string) string {
	return "=" + strings.NewReplacer(" ", "\\s", "\n", "\\n", "\t", "\\t").Replace(s)
}

// DumpGraph serialises the linked graph of a finished run (state after taint.Analyze) and
// recomputes the traversal's entry points with the repository's own RunVisitorOnEntryPoints.
// Only taint-tracking problem 0 is considered. It recovers from panics (error returned).
func DumpGraph(r *Result) (d *GraphDump, err error) {
	defer func() {
		if p := recover(); p != nil {
			d, err = nil, fmt.Errorf("panic while dumping: %v", p)
		}
	}()
	state := r.Analysis.State
	if state == nil || state.FlowGraph == nil {
		return nil, fmt.Errorf("no analyzer state")
	}
	if len(state.Config.TaintTrackingProblems) == 0 {
		return nil, fmt.Errorf("no taint-tracking problem")
	}
	var ts *config.TaintSpec = &state.Config.TaintTrackingProblems[0]
	d = &GraphDump{NodeID: map[df.GraphNode]int{}, Kinds: map[string]int{}}

	// summaries in a deterministic order
	type sg struct {
		f *ssa.Function
		g *df.SummaryGraph
	}
	var sums []sg
	for f, g := range state.FlowGraph.Summaries {
		if g != nil {
			sums = append(sums, sg{f, g})
		}
	}
	sort.Slice(sums, func(i, j int) bool {
		if a, b := sums[i].f.String(), sums[j].f.String(); a != b {
			return a < b
		}
		return sums[i].g.ID < sums[j].g.ID
	})
	graphID := map[*df.SummaryGraph]int{}
	for i, s := range sums {
		graphID[s.g] = i
	}
	fnID := map[*ssa.Function]int{}
	fid := func(f *ssa.Function) int {
		if f == nil {
			return 0
		}
		if id, ok := fnID[f]; ok {
			return id
		}
		fnID[f] = len(fnID) + 1
		return fnID[f]
	}
	for _, s := range sums { // stable function ids
		fid(s.f)
	}
	siteID := map[ssa.CallInstruction]int{}
	sid := func(c ssa.CallInstruction) int {
		if c == nil {
			return 0
		}
		if id, ok := siteID[c]; ok {
			return id
		}
		siteID[c] = len(siteID) + 1
		return siteID[c]
	}
	classID := map[string]int{}
	cid := func(s string) int {
		if id, ok := classID[s]; ok {
			return id
		}
		classID[s] = len(classID) + 1
		return classID[s]
	}

	// nodes: per graph, sorted by node id
	addNode := func(n df.GraphNode) {
		if _, ok := d.NodeID[n]; !ok {
			d.NodeID[n] = len(d.Nodes)
			d.Nodes = append(d.Nodes, n)
		}
	}
	for _, s := range sums {
		var ns []df.GraphNode
		s.g.ForAllNodes(func(n df.GraphNode) { ns = append(ns, n) })
		for _, n := range s.g.Ifs {
			ns = append(ns, n)
		}
		sort.SliceStable(ns, func(i, j int) bool { return ns[i].ID() < ns[j].ID() })
		for _, n := range ns {
			addNode(n)
		}
	}
	// nodes only reachable through edges / links (defensive)
	for i := 0; i < len(d.Nodes); i++ {
		for dst := range d.Nodes[i].Out() {
			if _, ok := d.NodeID[dst]; !ok {
				d.Warnings = append(d.Warnings, "node only reachable through an edge: "+dst.String())
				addNode(dst)
			}
		}
	}
	nid := func(n df.GraphNode) int {
		if id, ok := d.NodeID[n]; ok {
			return id
		}
		d.Warnings = append(d.Warnings, "unknown node "+n.String())
		return -1
	}
	gid := func(g *df.SummaryGraph) int {
		if g == nil {
			return -1
		}
		if id, ok := graphID[g]; ok {
			return id
		}
		d.Warnings = append(d.Warnings, "summary not in FlowGraph.Summaries: "+g.Parent.String())
		return -1
	}
	sortedIDs := func(l []int) []int { sort.Ints(l); return l }

	for _, s := range sums {
		g := s.g
		var cs, ref []int
		for _, c := range g.Callsites {
			cs = append(cs, nid(c))
		}
		for _, c := range g.ReferringMakeClosures {
			ref = append(ref, nid(c))
		}
		var ps, fvs []int
		if g.Parent != nil {
			for _, p := range g.Parent.Params {
				if pn := g.Params[p]; pn != nil {
					ps = append(ps, nid(pn))
				} else {
					ps = append(ps, -1)
				}
			}
			for _, fv := range g.Parent.FreeVars {
				if fn := g.FreeVars[fv]; fn != nil {
					fvs = append(fvs, nid(fn))
				} else {
					fvs = append(fvs, -1)
				}
			}
		}
		d.Lines = append(d.Lines, fmt.Sprintf("graph %d %s %s %s %s %s", fid(g.Parent), b01(g.Constructed),
			ints(sortedIDs(cs)), optInts(ps), optInts(fvs), ints(sortedIDs(ref))))
	}
	d.NGraphs = len(sums)

	for _, n := range d.Nodes {
		k := kindOf(n)
		d.Kinds[k]++
		g := gid(n.Graph())
		if g < 0 {
			g = 0
		}
		idx, par, callee, site, csum, cls, clsum, dcn := 0, 0, 0, 0, -1, 0, -1, -1
		var args, bvs, rl []int
		w := false
		switch x := n.(type) {
		case *df.ParamNode:
			idx = x.Index()
		case *df.FreeVarNode:
			idx = x.Index()
		case *df.ReturnValNode:
			idx = x.Index()
		case *df.CallNodeArg:
			idx, par = x.Index(), nid(x.ParentNode())
		case *df.CallNode:
			callee, site, csum, cls = fid(x.Callee()), sid(x.CallSite()), gid(x.CalleeSummary), cid(x.String())
			for _, a := range x.Args() {
				args = append(args, nid(a))
			}
		case *df.ClosureNode:
			clsum, cls = gid(x.ClosureSummary), cid(x.String())
			for _, b := range x.BoundVars() {
				bvs = append(bvs, nid(b))
			}
		case *df.BoundVarNode:
			idx, par = x.Index(), nid(x.ParentNode())
		case *df.AccessGlobalNode:
			w = x.IsWrite
			if w {
				for r := range x.Global.ReadLocations {
					rl = append(rl, nid(r))
				}
				sort.Ints(rl)
			}
		case *df.BoundLabelNode:
			idx = x.Index()
			if dc := x.DestClosure(); dc != nil {
				if cn := dc.ReferringMakeClosures[x.DestInfo().MakeClosure]; cn != nil {
					dcn = nid(cn)
				}
			}
		}
		if idx < 0 {
			d.Warnings = append(d.Warnings, fmt.Sprintf("negative index at %s", n.String()))
			idx = 0
		}
		if par < 0 {
			par = 0
		}
		d.Lines = append(d.Lines, fmt.Sprintf("node %s %d %d %d %s %s 0 %d %d %s %s %d %s %s %s %s %s",
			k, g, idx, par, b01(taint.VerifIsSink(state, ts, n)), b01(taint.VerifIsSanitizer(state, ts, n)),
			callee, site, opt(csum), ints(args), cls, opt(clsum), ints(bvs), b01(w), ints(rl), opt(dcn)))
	}
	d.NNodes = len(d.Nodes)

	for src, n := range d.Nodes {
		type ed struct {
			dst int
			ei  df.EdgeInfo
		}
		var es []ed
		for dst, infos := range n.Out() {
			for _, ei := range infos {
				es = append(es, ed{nid(dst), ei})
			}
		}
		relOf := func(ei df.EdgeInfo) [][2]string {
			var ps [][2]string
			for in, outs := range ei.RelPath {
				for out, ok := range outs {
					if !ok {
						d.Warnings = append(d.Warnings, "RelPath entry with value false")
					}
					ps = append(ps, [2]string{in, out})
				}
			}
			sort.Slice(ps, func(i, j int) bool {
				if ps[i][0] != ps[j][0] {
					return ps[i][0] < ps[j][0]
				}
				return ps[i][1] < ps[j][1]
			})
			return ps
		}
		sort.SliceStable(es, func(i, j int) bool {
			if es[i].dst != es[j].dst {
				return es[i].dst < es[j].dst
			}
			if es[i].ei.Index != es[j].ei.Index {
				return es[i].ei.Index < es[j].ei.Index
			}
			return fmt.Sprint(relOf(es[i].ei)) < fmt.Sprint(relOf(es[j].ei))
		})
		for _, e := range es {
			if e.dst < 0 {
				continue
			}
			validated := false
			if e.ei.Cond != nil {
				for _, c := range e.ei.Cond.Conditions {
					if taint.VerifIsValidatorCondition(ts, c.Value, c.IsPositive) {
						validated = true
					}
				}
			}
			d.Lines = append(d.Lines, fmt.Sprintf("edge %d %d %d %s", src, e.dst, e.ei.Index, b01(validated)))
			d.NEdges++
			ps := relOf(e.ei)
			if len(ps) > 0 {
				d.NRelEdges++
			}
			for _, p := range ps {
				d.Lines = append(d.Lines, fmt.Sprintf("rel %s %s", esc(p[0]), esc(p[1])))
			}
		}
	}

	// entry points, computed by the repository's own scan
	rec := &recorder{}
	state.FlowGraph.RunVisitorOnEntryPoints(rec, func(n ssa.Node) bool { return taint.IsSourceNode(state, ts, n) }, nil)
	for _, e := range rec.entries {
		en := Entry{Node: nid(e.Node), Instr: df.Instr(e.Node)}
		if e.ClosureTrace != nil {
			d.Warnings = append(d.Warnings, "entry with a closure trace")
		}
		tr := e.Trace.ToSlice() // root first
		for i := len(tr) - 1; i >= 0; i-- {
			en.Trace = append(en.Trace, nid(tr[i]))
		}
		if en.Node >= 0 {
			d.Entries = append(d.Entries, en)
		}
	}
	sort.Slice(d.Entries, func(i, j int) bool {
		if d.Entries[i].Node != d.Entries[j].Node {
			return d.Entries[i].Node < d.Entries[j].Node
		}
		return fmt.Sprint(d.Entries[i].Trace) < fmt.Sprint(d.Entries[j].Trace)
	})
	return d, nil
}

// RunLines renders one `run` record per entry (id = index in Entries).
func (d *GraphDump) RunLines(fuel int) []string {
	var l []string
	for i, e := range d.Entries {
		l = append(l, fmt.Sprintf("run %d %d %d %s", i, e.Node, fuel, ints(e.Trace)))
	}
	return l
}
