// Package taintrun runs the REAL taint analysis of the repository under verification
// (github.com/awslabs/ar-go-tools/analysis/taint + dataflow + config, resolved through the harness
// module's `replace` directive) in-process on a program directory and returns what it reported.
// See README.md in this directory for the API contract.
package taintrun

import (
	"fmt"
	"os"
	"path/filepath"
	"regexp"
	"runtime/debug"
	"sort"
	"strings"
	"sync"
	"time"

	"github.com/awslabs/ar-go-tools/analysis"
	"github.com/awslabs/ar-go-tools/analysis/config"
	"github.com/awslabs/ar-go-tools/analysis/taint"
	"golang.org/x/tools/go/packages"
	"golang.org/x/tools/go/ssa"
)

// Options selects one configuration of the sweep. The zero value is the tool's default
// (field-insensitive, eager summaries) with rewrites OFF; the CLI default has Rewrites=true.
type Options struct {
	FieldSensitive bool // config option `field-sensitive`
	OnDemand       bool // config option `summarize-on-demand`
	Rewrites       bool // analysis.LoadProgramOptions.ApplyRewrites (sort.Slice / sync.Once rewrites)

	// SourceRe / SinkRe / SanitizerRe / ValidatorRe are `method:` regexes of one taint-tracking
	// problem ("" = DefaultSourceRe / DefaultSinkRe / none / none). The package field is left
	// empty (= any package).
	SourceRe, SinkRe, SanitizerRe, ValidatorRe string

	// ExtraYAML is appended verbatim inside the generated `options:` block (2 spaces of
	// indentation expected), e.g. "  max-alarms: 1\n  pkg-filter: \"vprog\"\n".
	ExtraYAML string
	// ProblemYAML is appended verbatim inside the single taint-tracking problem (4 spaces of
	// indentation expected), e.g. "    fail-on-implicit-flow: true\n".
	ProblemYAML string
	// YAML, when non-empty, replaces the whole generated configuration file.
	YAML string

	// Patterns are the package patterns to load in dir (default ".").
	Patterns []string
	// KeepLog keeps the tool's log output in Result.Log (level LogLevel, default 2 = warnings).
	KeepLog  bool
	LogLevel int
}

// Default code identifiers of harness/mugo programs.
const (
	DefaultSourceRe = `^source_?\d*$`
	DefaultSinkRe   = `^sink_?\d*$`
)

// Flow is one reported (source call site, sink call site) pair.
type Flow struct {
	SrcCallee  string // name of the called source function, e.g. "source_12" ("" if not a static call)
	SinkCallee string // name of the called sink function, e.g. "sink_12"
	SrcFile    string // base name of the file
	SrcLine    int
	SinkFile   string
	SinkLine   int
	SrcFunc    string // enclosing function of the source call
	SinkFunc   string // enclosing function of the sink call
}

// Key is "srcCallee@file:line->sinkCallee@file:line".
func (f Flow) Key() string {
	return fmt.Sprintf("%s@%s:%d->%s@%s:%d", f.SrcCallee, f.SrcFile, f.SrcLine, f.SinkCallee, f.SinkFile, f.SinkLine)
}

// Result of one run. Exactly one of {LoadErr, Panic, (Flows, Err)} describes the outcome:
// LoadErr != nil: the program did not load; Panic != "": the analysis panicked (recovered);
// otherwise Flows/Escapes are what the tool reported and Err is the error returned by
// taint.Analyze (nil or the joined analysis errors; flows may still be present).
type Result struct {
	Flows   []Flow   // sorted by Key, de-duplicated (call-stack contexts collapsed)
	Escapes []string // "file:line<-file:line" escape reports (only with use-escape-analysis)
	Err     error
	LoadErr error
	Panic   string // panic value + stack if the analysis panicked
	// Failed mirrors the CLI exit status: true iff Sinks or Escapes are non-empty (cmd/argot/taint).
	Failed bool

	// For drivers that need to look at the analysis state (graph dumps): the raw result, program
	// and config of this run. Analysis.State may be nil after a load error or panic.
	Analysis taint.AnalysisResult
	Prog     *ssa.Program
	Pkgs     []*packages.Package
	Config   *config.Config

	LoadSeconds, AnalyzeSeconds float64
	Log                         string
}

// OK reports whether the run completed (loaded, no panic).
func (r *Result) OK() bool { return r.LoadErr == nil && r.Panic == "" }

// PairsByCallee returns the set of (source callee name, sink callee name) pairs.
func (r *Result) PairsByCallee() map[[2]string]bool {
	m := map[[2]string]bool{}
	for _, f := range r.Flows {
		m[[2]string{f.SrcCallee, f.SinkCallee}] = true
	}
	return m
}

// PairsByLine returns the set of (source line, sink line) pairs (single-file programs).
func (r *Result) PairsByLine() map[[2]int]bool {
	m := map[[2]int]bool{}
	for _, f := range r.Flows {
		m[[2]int{f.SrcLine, f.SinkLine}] = true
	}
	return m
}

var idRe = regexp.MustCompile(`(\d+)$`)

// IDPairs maps callee names "source_<i>" / "sink_<j>" to integer pairs (i, j); flows whose
// callees do not end in digits are skipped.
func (r *Result) IDPairs() map[[2]int]bool {
	m := map[[2]int]bool{}
	for _, f := range r.Flows {
		a, b := idRe.FindString(f.SrcCallee), idRe.FindString(f.SinkCallee)
		if a == "" || b == "" {
			continue
		}
		var i, j int
		fmt.Sscan(a, &i)
		fmt.Sscan(b, &j)
		m[[2]int{i, j}] = true
	}
	return m
}

// ConfigYAML renders the configuration file used for o.
func ConfigYAML(o Options) string {
	if o.YAML != "" {
		return o.YAML
	}
	src, snk := o.SourceRe, o.SinkRe
	if src == "" {
		src = DefaultSourceRe
	}
	if snk == "" {
		snk = DefaultSinkRe
	}
	lvl := o.LogLevel
	if lvl == 0 {
		lvl = 2
		if !o.KeepLog {
			lvl = 1
		}
	}
	var b strings.Builder
	b.WriteString("options:\n")
	fmt.Fprintf(&b, "  log-level: %d\n", lvl)
	fmt.Fprintf(&b, "  field-sensitive: %v\n", o.FieldSensitive)
	fmt.Fprintf(&b, "  summarize-on-demand: %v\n", o.OnDemand)
	b.WriteString(o.ExtraYAML)
	b.WriteString("taint-tracking-problems:\n")
	fmt.Fprintf(&b, "  - sources:\n      - method: %q\n", src)
	fmt.Fprintf(&b, "    sinks:\n      - method: %q\n", snk)
	if o.SanitizerRe != "" {
		fmt.Fprintf(&b, "    sanitizers:\n      - method: %q\n", o.SanitizerRe)
	}
	if o.ValidatorRe != "" {
		fmt.Fprintf(&b, "    validators:\n      - method: %q\n", o.ValidatorRe)
	}
	b.WriteString(o.ProblemYAML)
	return b.String()
}

// Name is a short stable label of the swept options, e.g. "fs=0,od=1,rw=0".
func (o Options) Name() string {
	b := func(x bool) int {
		if x {
			return 1
		}
		return 0
	}
	return fmt.Sprintf("fs=%d,od=%d,rw=%d", b(o.FieldSensitive), b(o.OnDemand), b(o.Rewrites))
}

// Sweep returns the 2x2x2 configurations {field-sensitive, on-demand, rewrites} derived from base.
func Sweep(base Options) []Options {
	var r []Options
	for i := 0; i < 8; i++ {
		o := base
		o.FieldSensitive, o.OnDemand, o.Rewrites = i&1 != 0, i&2 != 0, i&4 != 0
		r = append(r, o)
	}
	return r
}

var stdoutMu sync.Mutex

func goEnv() []string {
	return append(os.Environ(), "GOFLAGS=-mod=mod", "GOPROXY=off", "GOSUMDB=off", "GOTOOLCHAIN=local", "GOWORK=off")
}

// Loaded is a program loaded once (with or without rewrites) that several configurations can be
// analysed on (loading dominates the cost of a run; taint.Analyze builds a fresh analyzer state on
// every call and does not modify the SSA program).
type Loaded struct {
	Dir         string
	Rewrites    bool
	Prog        *ssa.Program
	Pkgs        []*packages.Package
	LoadSeconds float64
}

// Load loads the packages `patterns` (default ".") of the module in dir with the repository's own
// loader. It never panics.
func Load(dir string, rewrites bool, patterns ...string) (l *Loaded, err error) {
	defer func() {
		if p := recover(); p != nil {
			l, err = nil, fmt.Errorf("panic while loading: %v\n%s", p, debug.Stack())
		}
	}()
	if len(patterns) == 0 {
		patterns = []string{"."}
	}
	t0 := time.Now()
	pcfg := &packages.Config{Mode: analysis.PkgLoadMode, Tests: false, Dir: dir, Env: goEnv()}
	prog, pkgs, err := analysis.LoadProgram(analysis.LoadProgramOptions{
		BuildMode: ssa.InstantiateGenerics, ApplyRewrites: rewrites, PackageConfig: pcfg}, patterns)
	if err != nil {
		return nil, err
	}
	return &Loaded{Dir: dir, Rewrites: rewrites, Prog: prog, Pkgs: pkgs, LoadSeconds: time.Since(t0).Seconds()}, nil
}

// Run = Load(dir, o.Rewrites, o.Patterns...) followed by Analyze. It never panics.
func Run(dir string, o Options) *Result {
	l, err := Load(dir, o.Rewrites, o.Patterns...)
	if err != nil {
		return &Result{LoadErr: err}
	}
	return l.Analyze(o)
}

// Analyze runs taint.Analyze with configuration o on the loaded program (o.Rewrites and
// o.Patterns are ignored: they were fixed by Load). It never panics.
// The analysis logs to os.Stdout; Analyze swaps os.Stdout for the duration of the call
// (serialised by a mutex), so do not print concurrently from other goroutines.
func (l *Loaded) Analyze(o Options) (res *Result) {
	o.Rewrites = l.Rewrites
	dir := l.Dir
	res = &Result{Prog: l.Prog, Pkgs: l.Pkgs, LoadSeconds: l.LoadSeconds}
	cfg, err := config.Load(filepath.Join(dir, "verif-config.yaml"), []byte(ConfigYAML(o)))
	if err != nil {
		res.LoadErr = fmt.Errorf("config: %w", err)
		return res
	}
	res.Config = cfg

	stdoutMu.Lock()
	saved := os.Stdout
	logPath := filepath.Join(dir, ".taintrun.log")
	sink, ferr := os.Create(logPath)
	if ferr == nil {
		os.Stdout = sink
	}
	defer func() {
		os.Stdout = saved
		if ferr == nil {
			sink.Close()
			if o.KeepLog {
				if b, e := os.ReadFile(logPath); e == nil {
					res.Log = string(b)
				}
			}
			os.Remove(logPath)
		}
		stdoutMu.Unlock()
	}()
	defer func() {
		if p := recover(); p != nil {
			res.Panic = fmt.Sprintf("%v\n%s", p, debug.Stack())
		}
	}()

	prog, pkgs := l.Prog, l.Pkgs
	t1 := time.Now()
	ar, err := taint.Analyze(cfg, prog, pkgs)
	res.AnalyzeSeconds = time.Since(t1).Seconds()
	res.Analysis, res.Err = ar, err
	if ar.TaintFlows == nil {
		if err == nil {
			res.Err = fmt.Errorf("taint.Analyze returned no flows object")
		}
		return res
	}
	res.Failed = len(ar.TaintFlows.Sinks) > 0 || len(ar.TaintFlows.Escapes) > 0
	seen := map[string]bool{}
	for snk, srcs := range ar.TaintFlows.Sinks {
		for src := range srcs {
			f := Flow{}
			f.SrcCallee, f.SrcFunc, f.SrcFile, f.SrcLine = describe(prog, src.Instr)
			f.SinkCallee, f.SinkFunc, f.SinkFile, f.SinkLine = describe(prog, snk.Instr)
			if !seen[f.Key()] {
				seen[f.Key()] = true
				res.Flows = append(res.Flows, f)
			}
		}
	}
	sort.Slice(res.Flows, func(i, j int) bool { return res.Flows[i].Key() < res.Flows[j].Key() })
	for esc, srcs := range ar.TaintFlows.Escapes {
		for src := range srcs {
			_, _, f1, l1 := describe(prog, esc)
			_, _, f2, l2 := describe(prog, src)
			res.Escapes = append(res.Escapes, fmt.Sprintf("%s:%d<-%s:%d", f1, l1, f2, l2))
		}
	}
	sort.Strings(res.Escapes)
	return res
}

func describe(prog *ssa.Program, ins ssa.Instruction) (callee, fn, file string, line int) {
	if ins == nil {
		return
	}
	if ins.Parent() != nil {
		fn = ins.Parent().String()
	}
	if c, ok := ins.(ssa.CallInstruction); ok {
		cc := c.Common()
		if sc := cc.StaticCallee(); sc != nil {
			callee = sc.Name()
		} else if cc.IsInvoke() {
			callee = cc.Method.Name()
		} else {
			callee = cc.Value.Name()
		}
	}
	if p := ins.Pos(); p.IsValid() {
		pos := prog.Fset.Position(p)
		file, line = filepath.Base(pos.Filename), pos.Line
	}
	return
}
