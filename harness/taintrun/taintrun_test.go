package taintrun

import (
	"os"
	"path/filepath"
	"testing"

	"verif/harness/lib"
)

func prog(t *testing.T, name, src string) string {
	dir := lib.WorkDir("taintrun-test", name)
	lib.WriteProgram(dir, "vprog", map[string]string{"main.go": src})
	return dir
}

func TestSimpleFlow(t *testing.T) {
	dir := prog(t, "simple", `package main
func source_1() string { return "x" }
func sink_1(s any)     {}
func source_2() string { return "y" }
func sink_2(s any)     {}
func main() {
	a := source_1()
	sink_1(a + "!")
	_ = source_2()
	sink_2("clean")
}
`)
	for _, o := range Sweep(Options{}) {
		r := Run(dir, o)
		if !r.OK() || r.Err != nil {
			t.Fatalf("%s: load=%v panic=%s err=%v", o.Name(), r.LoadErr, r.Panic, r.Err)
		}
		p := r.IDPairs()
		if len(p) != 1 || !p[[2]int{1, 1}] || !r.Failed {
			t.Fatalf("%s: flows %v", o.Name(), r.Flows)
		}
		if r.Flows[0].SrcLine != 7 || r.Flows[0].SinkLine != 8 {
			t.Fatalf("lines %+v", r.Flows[0])
		}
	}
}

func TestCorpusF1Missed(t *testing.T) {
	b, err := os.ReadFile(filepath.Join(lib.Root(), "corpus/findings/F01_lasso_rotation/main.go"))
	if err != nil {
		t.Skip(err)
	}
	r := Run(prog(t, "f1", string(b)), Options{})
	if !r.OK() {
		t.Fatalf("load=%v panic=%s", r.LoadErr, r.Panic)
	}
	t.Logf("F1 flows: %v (expected none at the pinned commit) load=%.2fs analyze=%.2fs", r.Flows, r.LoadSeconds, r.AnalyzeSeconds)
}
