-- Root of the `Argot` library: models (core only), specs, proofs and property theorems.
import Argot.Props.C16
import Argot.Props.C19
import Argot.Props.C20
import Argot.Props.C15
import Argot.Props.C09
import Argot.Props.C03
import Argot.Props.C08
import Argot.Props.C11
import Argot.Props.C04
import Argot.Props.C12
import Argot.Props.C01
import Argot.Props.C14
import Argot.Props.C02
import Argot.Props.C10
import Argot.Props.C18
import Argot.Props.C07
import Argot.Props.C17
