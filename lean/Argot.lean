-- Root of the `Argot` library: models (core only), specs, proofs and property theorems.
import Argot.Props.C16
