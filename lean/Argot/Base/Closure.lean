/- Generic worklist closure theory (core Lean only, no imports: the executable part is linked into oracles).

   Models the loop shared by the Go visitors:

     que := roots ; seen := seen0
     while que != []: cur := pop(que)
        for each candidate next in succ(cur)   (arbitrary order)
           if seen[key(next)] { skip } else { que = append(que,next); seen[key(next)] = true }

   The successors of an item may depend on data of the item that is not part of its key, so two items
   with the same key may have different successors; the first one offered wins.

   `Step` is one iteration for ANY choice of the popped element, ANY order of its successors and ANY
   placement of the new items in the queue; all theorems are about arbitrary `Steps` executions.
   `bfs`/`run` is the executable FIFO instance. -/

namespace Argot.Closure

/-! ### definitions that need no decidable equality -/

section Basic
variable {α κ : Type}

structure State (α κ : Type) where
  queue : List α
  seen : List κ
  /-- popped (expanded) items, most recent first -/
  visited : List α

/-- reflexive-transitive closure of `R` from the keys `roots` -/
inductive Reach (R : κ → κ → Prop) (roots : List κ) : κ → Prop
  | root {k : κ} : k ∈ roots → Reach R roots k
  | step {k k' : κ} : Reach R roots k → R k k' → Reach R roots k'

/-- item-level reachability: closure of `a' ∈ succ a` from the items `roots` -/
inductive IReach (succ : α → List α) (roots : List α) : α → Prop
  | root {a : α} : a ∈ roots → IReach succ roots a
  | step {a a' : α} : IReach succ roots a → a' ∈ succ a → IReach succ roots a'

/-- the "possible successor" relation on keys: SOME item with key `k` has a successor with key `k'` -/
def Poss (key : α → κ) (succ : α → List α) (k k' : κ) : Prop :=
  ∃ a, key a = k ∧ ∃ a' ∈ succ a, key a' = k'

/-- initial state with no key marked -/
def init (roots : List α) : State α κ := ⟨roots, [], []⟩

theorem Reach.mono {R R' : κ → κ → Prop} {roots roots' : List κ}
    (hr : ∀ k ∈ roots, k ∈ roots') (hR : ∀ k k', R k k' → R' k k') :
    ∀ {k}, Reach R roots k → Reach R' roots' k := by
  intro k h
  induction h with
  | root h => exact Reach.root (hr _ h)
  | step _ hk ih => exact Reach.step ih (hR _ _ hk)

/-- `Reach` is the least set containing the roots and closed under `R` -/
theorem Reach.least {R : κ → κ → Prop} {roots : List κ} (S : κ → Prop)
    (hroot : ∀ k ∈ roots, S k) (hclosed : ∀ k k', S k → R k k' → S k') :
    ∀ {k}, Reach R roots k → S k := by
  intro k h
  induction h with
  | root h => exact hroot _ h
  | step _ hk ih => exact hclosed _ _ ih hk

theorem IReach.mono {succ : α → List α} {roots roots' : List α} (hr : ∀ a ∈ roots, a ∈ roots') :
    ∀ {a}, IReach succ roots a → IReach succ roots' a := by
  intro a h
  induction h with
  | root h => exact IReach.root (hr _ h)
  | step _ hk ih => exact IReach.step ih hk

/-- item reachability implies key reachability along possible successors -/
theorem IReach.reach_poss (key : α → κ) {succ : α → List α} {roots : List α} :
    ∀ {a}, IReach succ roots a → Reach (Poss key succ) (roots.map key) (key a) := by
  intro a h
  induction h with
  | root h => exact Reach.root (List.mem_map_of_mem h)
  | @step a a' _ hk ih => exact Reach.step ih ⟨a, rfl, a', hk, rfl⟩

end Basic

variable {α κ : Type} [DecidableEq κ]

/-! ### offering candidates -/

/-- offer candidates one after the other: keep those whose key is not yet seen, marking them seen.
    Result: (new seen list, kept candidates in offer order). -/
def offer (key : α → κ) : List κ → List α → List κ × List α
  | seen, [] => (seen, [])
  | seen, c :: cs =>
    if key c ∈ seen then offer key seen cs
    else
      let r := offer key (key c :: seen) cs
      (r.1, c :: r.2)

theorem offer_nil (key : α → κ) (seen : List κ) : offer key seen [] = (seen, []) := rfl

theorem offer_cons_seen (key : α → κ) {seen : List κ} {c : α} (cs : List α) (h : key c ∈ seen) :
    offer key seen (c :: cs) = offer key seen cs := by
  simp [offer, h]

theorem offer_cons_new (key : α → κ) {seen : List κ} {c : α} (cs : List α) (h : key c ∉ seen) :
    offer key seen (c :: cs) =
      ((offer key (key c :: seen) cs).1, c :: (offer key (key c :: seen) cs).2) := by
  simp [offer, h]

/-- a kept candidate was offered and its key was not seen before -/
theorem offer_new_mem (key : α → κ) : ∀ (cs : List α) (seen : List κ) (a : α),
    a ∈ (offer key seen cs).2 → a ∈ cs ∧ key a ∉ seen
  | [], _, _, h => by simp [offer] at h
  | c :: cs, seen, a, h => by
    by_cases hc : key c ∈ seen
    · rw [offer_cons_seen key cs hc] at h
      have := offer_new_mem key cs seen a h
      exact ⟨List.mem_cons_of_mem _ this.1, this.2⟩
    · rw [offer_cons_new key cs hc] at h
      simp only [List.mem_cons] at h
      rcases h with rfl | h
      · exact ⟨List.mem_cons_self, hc⟩
      · have := offer_new_mem key cs _ a h
        exact ⟨List.mem_cons_of_mem _ this.1, fun hn => this.2 (List.mem_cons_of_mem _ hn)⟩

/-- the new seen set is the old one plus the keys of the kept candidates -/
theorem offer_seen_iff_new (key : α → κ) : ∀ (cs : List α) (seen : List κ) (k : κ),
    k ∈ (offer key seen cs).1 ↔ k ∈ seen ∨ ∃ a ∈ (offer key seen cs).2, key a = k
  | [], _, _ => by simp [offer]
  | c :: cs, seen, k => by
    by_cases hc : key c ∈ seen
    · rw [offer_cons_seen key cs hc]; exact offer_seen_iff_new key cs seen k
    · rw [offer_cons_new key cs hc]
      simp only [offer_seen_iff_new key cs (key c :: seen) k, List.mem_cons, exists_eq_or_imp]
      constructor
      · rintro ((h | h) | h)
        · exact Or.inr (Or.inl h.symm)
        · exact Or.inl h
        · exact Or.inr (Or.inr h)
      · rintro (h | h | h)
        · exact Or.inl (Or.inr h)
        · exact Or.inl (Or.inl h.symm)
        · exact Or.inr h

/-- the new seen set is the old one plus the keys of ALL candidates (independent of their order) -/
theorem offer_seen_iff (key : α → κ) : ∀ (cs : List α) (seen : List κ) (k : κ),
    k ∈ (offer key seen cs).1 ↔ k ∈ seen ∨ ∃ a ∈ cs, key a = k
  | [], _, _ => by simp [offer]
  | c :: cs, seen, k => by
    by_cases hc : key c ∈ seen
    · rw [offer_cons_seen key cs hc, offer_seen_iff key cs seen k]
      simp only [List.mem_cons, exists_eq_or_imp]
      constructor
      · rintro (h | h)
        · exact Or.inl h
        · exact Or.inr (Or.inr h)
      · rintro (h | h | h)
        · exact Or.inl h
        · exact Or.inl (h ▸ hc)
        · exact Or.inr h
    · rw [offer_cons_new key cs hc]
      simp only [offer_seen_iff key cs (key c :: seen) k, List.mem_cons, exists_eq_or_imp]
      constructor
      · rintro ((h | h) | h)
        · exact Or.inr (Or.inl h.symm)
        · exact Or.inl h
        · exact Or.inr (Or.inr h)
      · rintro (h | h | h)
        · exact Or.inl (Or.inr h)
        · exact Or.inl (Or.inl h.symm)
        · exact Or.inr h

theorem offer_seen_mono (key : α → κ) (cs : List α) (seen : List κ) {k : κ} (h : k ∈ seen) :
    k ∈ (offer key seen cs).1 :=
  (offer_seen_iff key cs seen k).2 (Or.inl h)

theorem offer_seen_length (key : α → κ) : ∀ (cs : List α) (seen : List κ),
    (offer key seen cs).1.length = seen.length + (offer key seen cs).2.length
  | [], _ => by simp [offer]
  | c :: cs, seen => by
    by_cases hc : key c ∈ seen
    · rw [offer_cons_seen key cs hc]; exact offer_seen_length key cs seen
    · rw [offer_cons_new key cs hc]
      simp only [offer_seen_length key cs (key c :: seen), List.length_cons]
      omega

theorem offer_seen_nodup (key : α → κ) : ∀ (cs : List α) (seen : List κ),
    seen.Nodup → (offer key seen cs).1.Nodup
  | [], _, h => by simpa [offer] using h
  | c :: cs, seen, h => by
    by_cases hc : key c ∈ seen
    · rw [offer_cons_seen key cs hc]; exact offer_seen_nodup key cs seen h
    · rw [offer_cons_new key cs hc]
      exact offer_seen_nodup key cs _ (List.nodup_cons.2 ⟨hc, h⟩)

/-! ### executions -/

/-- one iteration, for ANY choice of the popped element, ANY order of its successors, ANY placement
    of the new items in the queue -/
inductive Step (key : α → κ) (succ : α → List α) : State α κ → State α κ → Prop
  | pop {q : List α} {seen : List κ} {vis : List α} {a : α} {rest cands q' : List α} :
      q.Perm (a :: rest) → cands.Perm (succ a) →
      q'.Perm (rest ++ (offer key seen cands).2) →
      Step key succ ⟨q, seen, vis⟩ ⟨q', (offer key seen cands).1, a :: vis⟩

/-- inversion / introduction form of `Step` on arbitrary states -/
theorem step_iff (key : α → κ) (succ : α → List α) (s t : State α κ) :
    Step key succ s t ↔ ∃ a rest cands, s.queue.Perm (a :: rest) ∧ cands.Perm (succ a) ∧
      t.queue.Perm (rest ++ (offer key s.seen cands).2) ∧
      t.seen = (offer key s.seen cands).1 ∧ t.visited = a :: s.visited := by
  constructor
  · intro h
    cases h with
    | pop h1 h2 h3 => exact ⟨_, _, _, h1, h2, h3, rfl, rfl⟩
  · rintro ⟨a, rest, cands, h1, h2, h3, h4, h5⟩
    obtain ⟨q, seen, vis⟩ := s
    obtain ⟨q', seen', vis'⟩ := t
    simp only at h1 h3 h4 h5
    subst h4 h5
    exact Step.pop h1 h2 h3

/-- reflexive-transitive closure of `Step` -/
inductive Steps (key : α → κ) (succ : α → List α) : State α κ → State α κ → Prop
  | refl {s : State α κ} : Steps key succ s s
  | tail {s t u : State α κ} : Steps key succ s t → Step key succ t u → Steps key succ s u

/-- executions of exactly `n` iterations -/
inductive StepsN (key : α → κ) (succ : α → List α) : Nat → State α κ → State α κ → Prop
  | refl {s : State α κ} : StepsN key succ 0 s s
  | tail {n : Nat} {s t u : State α κ} :
      StepsN key succ n s t → Step key succ t u → StepsN key succ (n + 1) s u

theorem steps_iff_stepsN (key : α → κ) (succ : α → List α) (s t : State α κ) :
    Steps key succ s t ↔ ∃ n, StepsN key succ n s t := by
  constructor
  · intro h
    induction h with
    | refl => exact ⟨0, StepsN.refl⟩
    | tail _ hs ih => obtain ⟨n, hn⟩ := ih; exact ⟨n + 1, StepsN.tail hn hs⟩
  · rintro ⟨n, h⟩
    induction h with
    | refl => exact Steps.refl
    | tail _ hs ih => exact Steps.tail ih hs

theorem StepsN.steps {key : α → κ} {succ : α → List α} {n : Nat} {s t : State α κ}
    (h : StepsN key succ n s t) : Steps key succ s t :=
  (steps_iff_stepsN key succ s t).2 ⟨n, h⟩

theorem Steps.single {key : α → κ} {succ : α → List α} {s t : State α κ}
    (h : Step key succ s t) : Steps key succ s t :=
  Steps.tail Steps.refl h

theorem Steps.trans {key : α → κ} {succ : α → List α} {s t u : State α κ}
    (h1 : Steps key succ s t) (h2 : Steps key succ t u) : Steps key succ s u := by
  induction h2 with
  | refl => exact h1
  | tail _ hs ih => exact Steps.tail ih hs

theorem Steps.head {key : α → κ} {succ : α → List α} {s t u : State α κ}
    (h1 : Step key succ s t) (h2 : Steps key succ t u) : Steps key succ s u :=
  Steps.trans (Steps.single h1) h2

theorem StepsN.head {key : α → κ} {succ : α → List α} {n : Nat} {s t u : State α κ}
    (h1 : Step key succ s t) (h2 : StepsN key succ n t u) : StepsN key succ (n + 1) s u := by
  induction h2 with
  | refl => exact StepsN.tail StepsN.refl h1
  | tail _ hs ih => exact StepsN.tail (ih h1) hs

/-! ### theorem 1: everything reachable along guaranteed successors is visited -/

/-- the completeness invariant of the loop -/
structure Closed (key : α → κ) (succ : α → List α) (roots : List α) (s : State α κ) : Prop where
  /-- the roots are never lost -/
  roots_in : ∀ a ∈ roots, a ∈ s.visited ∨ a ∈ s.queue
  /-- every successor key of an expanded item is marked seen -/
  succ_seen : ∀ a ∈ s.visited, ∀ a' ∈ succ a, key a' ∈ s.seen
  /-- every seen key is the key of an item that was or will be expanded -/
  seen_in : ∀ k ∈ s.seen, ∃ a, (a ∈ s.visited ∨ a ∈ s.queue) ∧ key a = k

omit [DecidableEq κ] in
theorem closed_init (key : α → κ) (succ : α → List α) {roots : List α} {seen0 : List κ}
    (h0 : ∀ k ∈ seen0, k ∈ roots.map key) : Closed key succ roots ⟨roots, seen0, []⟩ := by
  refine ⟨fun a h => Or.inr h, fun a h => by simp at h, fun k hk => ?_⟩
  obtain ⟨a, ha, rfl⟩ := List.mem_map.1 (h0 k hk)
  exact ⟨a, Or.inr ha, rfl⟩

theorem closed_step (key : α → κ) (succ : α → List α) {roots : List α} {s t : State α κ}
    (I : Closed key succ roots s) (h : Step key succ s t) : Closed key succ roots t := by
  cases h with
  | @pop q seen vis a rest cands q' h1 h2 h3 =>
    have hq : ∀ x, x ∈ q → x = a ∨ x ∈ rest := fun x hx => by
      simpa using (h1.mem_iff (a := x)).1 hx
    have hq' : ∀ x, x ∈ q' ↔ x ∈ rest ∨ x ∈ (offer key seen cands).2 := fun x => by
      simpa using (h3.mem_iff (a := x))
    refine ⟨?_, ?_, ?_⟩
    · intro x hx
      rcases I.roots_in x hx with h | h
      · exact Or.inl (List.mem_cons_of_mem _ h)
      · rcases hq x h with rfl | h
        · exact Or.inl List.mem_cons_self
        · exact Or.inr ((hq' x).2 (Or.inl h))
    · intro x hx x' hx'
      simp only [List.mem_cons] at hx
      rcases hx with rfl | hx
      · exact (offer_seen_iff key cands seen _).2 (Or.inr ⟨x', (h2.mem_iff).2 hx', rfl⟩)
      · exact offer_seen_mono key cands seen (I.succ_seen x hx x' hx')
    · intro k hk
      rcases (offer_seen_iff_new key cands seen k).1 hk with h | ⟨x, hx, rfl⟩
      · obtain ⟨x, hx, rfl⟩ := I.seen_in k h
        rcases hx with hx | hx
        · exact ⟨x, Or.inl (List.mem_cons_of_mem _ hx), rfl⟩
        · rcases hq x hx with rfl | hx
          · exact ⟨x, Or.inl List.mem_cons_self, rfl⟩
          · exact ⟨x, Or.inr ((hq' x).2 (Or.inl hx)), rfl⟩
      · exact ⟨x, Or.inr ((hq' x).2 (Or.inr hx)), rfl⟩

theorem closed_steps (key : α → κ) (succ : α → List α) {roots : List α} {s t : State α κ}
    (I : Closed key succ roots s) (h : Steps key succ s t) : Closed key succ roots t := by
  induction h with
  | refl => exact I
  | tail _ hs ih => exact closed_step key succ ih hs

omit [DecidableEq κ] in
/-- a final `Closed` state has visited every key reachable along guaranteed successors -/
theorem Closed.complete {key : α → κ} {succ : α → List α} {roots : List α} {s : State α κ}
    (I : Closed key succ roots s) (hq : s.queue = [])
    (G : κ → κ → Prop) (hG : ∀ a k', G (key a) k' → ∃ a' ∈ succ a, key a' = k') :
    ∀ k, Reach G (roots.map key) k → k ∈ s.visited.map key := by
  intro k hk
  induction hk with
  | root h =>
    obtain ⟨a, ha, rfl⟩ := List.mem_map.1 h
    rcases I.roots_in a ha with h | h
    · exact List.mem_map_of_mem h
    · rw [hq] at h; simp at h
  | @step k k' _ hg ih =>
    obtain ⟨a, ha, rfl⟩ := List.mem_map.1 ih
    obtain ⟨a', ha', rfl⟩ := hG a k' hg
    obtain ⟨b, hb, hkb⟩ := I.seen_in _ (I.succ_seen a ha a' ha')
    rcases hb with hb | hb
    · rw [← hkb]; exact List.mem_map_of_mem hb
    · rw [hq] at hb; simp at hb

/-- **Theorem 1.** Whatever the traversal order: when the queue is empty, every key reachable from
    the root keys along successors that are guaranteed whatever the auxiliary data (`G`) has been
    visited. -/
theorem visited_contains_guaranteed (key : α → κ) (succ : α → List α)
    (G : κ → κ → Prop) (hG : ∀ a k', G (key a) k' → ∃ a' ∈ succ a, key a' = k')
    {roots : List α} {seen0 : List κ} (h0 : ∀ k ∈ seen0, k ∈ roots.map key)
    {s : State α κ} (hs : Steps key succ ⟨roots, seen0, []⟩ s) (hq : s.queue = []) :
    ∀ k, Reach G (roots.map key) k → k ∈ s.visited.map key :=
  (closed_steps key succ (closed_init key succ h0) hs).complete hq G hG

/-! ### theorem 2: everything visited or queued is reachable -/

theorem sound_step (key : α → κ) (succ : α → List α) {roots : List α} {s t : State α κ}
    (I : ∀ a, a ∈ s.visited ++ s.queue → IReach succ roots a) (h : Step key succ s t) :
    ∀ a, a ∈ t.visited ++ t.queue → IReach succ roots a := by
  cases h with
  | @pop q seen vis a rest cands q' h1 h2 h3 =>
    have ha : IReach succ roots a :=
      I a (List.mem_append.2 (Or.inr ((h1.mem_iff).2 List.mem_cons_self)))
    intro x hx
    simp only [List.mem_append, List.mem_cons] at hx
    rcases hx with (rfl | hx) | hx
    · exact ha
    · exact I x (List.mem_append.2 (Or.inl hx))
    · rcases List.mem_append.1 ((h3.mem_iff).1 hx) with hx | hx
      · exact I x (List.mem_append.2 (Or.inr ((h1.mem_iff).2 (List.mem_cons_of_mem _ hx))))
      · exact IReach.step ha ((h2.mem_iff).1 (offer_new_mem key cands seen x hx).1)

theorem sound_steps (key : α → κ) (succ : α → List α) {roots : List α} {s t : State α κ}
    (I : ∀ a, a ∈ s.visited ++ s.queue → IReach succ roots a) (h : Steps key succ s t) :
    ∀ a, a ∈ t.visited ++ t.queue → IReach succ roots a := by
  induction h with
  | refl => exact I
  | tail _ hs ih => exact sound_step key succ ih hs

/-- **Theorem 2.** Whatever the traversal order, at any time: every visited or queued item is
    reachable from the root items along `succ`. -/
theorem visited_sound (key : α → κ) (succ : α → List α) {roots : List α} {seen0 : List κ}
    {s : State α κ} (hs : Steps key succ ⟨roots, seen0, []⟩ s) :
    ∀ a, a ∈ s.visited ++ s.queue → IReach succ roots a :=
  sound_steps key succ (fun a ha => IReach.root (by simpa using ha)) hs

/-- visited keys are reachable from the root keys along possible successors -/
theorem visited_subset_poss (key : α → κ) (succ : α → List α) {roots : List α} {seen0 : List κ}
    {s : State α κ} (hs : Steps key succ ⟨roots, seen0, []⟩ s) :
    ∀ a ∈ s.visited, Reach (Poss key succ) (roots.map key) (key a) :=
  fun a ha => (visited_sound key succ hs a (List.mem_append.2 (Or.inl ha))).reach_poss key

/-! ### theorem 3: key-determined successors: the visited key set is THE closure -/

/-- **Theorem 3.** If the successor keys of an item are determined by its key, every final state
    has visited exactly the keys reachable from the root keys. -/
theorem visited_eq_closure (key : α → κ) (succ : α → List α)
    (hdet : ∀ a b, key a = key b → ∀ a' ∈ succ a, ∃ b' ∈ succ b, key b' = key a')
    {roots : List α} {seen0 : List κ} (h0 : ∀ k ∈ seen0, k ∈ roots.map key)
    {s : State α κ} (hs : Steps key succ ⟨roots, seen0, []⟩ s) (hq : s.queue = []) (k : κ) :
    k ∈ s.visited.map key ↔ Reach (Poss key succ) (roots.map key) k := by
  constructor
  · intro hk
    obtain ⟨a, ha, rfl⟩ := List.mem_map.1 hk
    exact visited_subset_poss key succ hs a ha
  · refine visited_contains_guaranteed key succ (Poss key succ) ?_ h0 hs hq k
    rintro a k' ⟨b, hb, b', hb', rfl⟩
    exact hdet b a hb b' hb'

/-- two complete traversals from the same roots visit the same keys, whatever their orders -/
theorem order_independent (key : α → κ) (succ : α → List α)
    (hdet : ∀ a b, key a = key b → ∀ a' ∈ succ a, ∃ b' ∈ succ b, key b' = key a')
    {roots : List α} {seen1 seen2 : List κ}
    (h1 : ∀ k ∈ seen1, k ∈ roots.map key) (h2 : ∀ k ∈ seen2, k ∈ roots.map key)
    {s₁ s₂ : State α κ}
    (hs1 : Steps key succ ⟨roots, seen1, []⟩ s₁) (hq1 : s₁.queue = [])
    (hs2 : Steps key succ ⟨roots, seen2, []⟩ s₂) (hq2 : s₂.queue = []) :
    ∀ k, k ∈ s₁.visited.map key ↔ k ∈ s₂.visited.map key := fun k =>
  (visited_eq_closure key succ hdet h1 hs1 hq1 k).trans
    (visited_eq_closure key succ hdet h2 hs2 hq2 k).symm

/-- the visited keys are contained in every key set that contains the root keys and is closed under
    possible successors (holds at any time, without `hdet`) -/
theorem closure_least (key : α → κ) (succ : α → List α) {roots : List α} {seen0 : List κ}
    {s : State α κ} (hs : Steps key succ ⟨roots, seen0, []⟩ s)
    (S : κ → Prop) (hroot : ∀ a ∈ roots, S (key a))
    (hclosed : ∀ k k', S k → Poss key succ k k' → S k') :
    ∀ k ∈ s.visited.map key, S k := by
  intro k hk
  obtain ⟨a, ha, rfl⟩ := List.mem_map.1 hk
  refine Reach.least S ?_ hclosed (visited_subset_poss key succ hs a ha)
  intro k hk
  obtain ⟨r, hr, rfl⟩ := List.mem_map.1 hk
  exact hroot r hr

/-- more roots, more visited keys: `s` any state of a traversal from `roots`, `s'` a final state of a
    traversal from `roots' ⊇ roots` -/
theorem closure_mono_roots (key : α → κ) (succ : α → List α)
    (hdet : ∀ a b, key a = key b → ∀ a' ∈ succ a, ∃ b' ∈ succ b, key b' = key a')
    {roots roots' : List α} (hsub : ∀ a ∈ roots, a ∈ roots') {seen0 seen0' : List κ}
    (h0' : ∀ k ∈ seen0', k ∈ roots'.map key) {s s' : State α κ}
    (hs : Steps key succ ⟨roots, seen0, []⟩ s)
    (hs' : Steps key succ ⟨roots', seen0', []⟩ s') (hq' : s'.queue = []) :
    ∀ k ∈ s.visited.map key, k ∈ s'.visited.map key := by
  intro k hk
  obtain ⟨a, ha, rfl⟩ := List.mem_map.1 hk
  refine (visited_eq_closure key succ hdet h0' hs' hq' _).2 ?_
  refine Reach.mono ?_ (fun _ _ h => h) (visited_subset_poss key succ hs a ha)
  intro k hk
  obtain ⟨r, hr, rfl⟩ := List.mem_map.1 hk
  exact List.mem_map_of_mem (hsub r hr)

/-! ### theorem 4: the executable FIFO instance (the Go loop) -/

/-- `n` iterations (at most) of the Go loop: pop the head, offer its successors in list order, append
    the kept ones at the end of the queue -/
def bfs (key : α → κ) (succ : α → List α) : Nat → State α κ → State α κ
  | 0, s => s
  | n + 1, s =>
    match s.queue with
    | [] => s
    | a :: rest =>
      let r := offer key s.seen (succ a)
      bfs key succ n ⟨rest ++ r.2, r.1, a :: s.visited⟩

def run (key : α → κ) (succ : α → List α) (fuel : Nat) (roots : List α) : State α κ :=
  bfs key succ fuel (init roots)

theorem bfs_zero (key : α → κ) (succ : α → List α) (s : State α κ) : bfs key succ 0 s = s := rfl

theorem bfs_nil (key : α → κ) (succ : α → List α) (n : Nat) {s : State α κ} (h : s.queue = []) :
    bfs key succ n s = s := by
  cases n with
  | zero => rfl
  | succ n => simp [bfs, h]

theorem bfs_cons (key : α → κ) (succ : α → List α) (n : Nat) {s : State α κ} {a : α} {rest : List α}
    (h : s.queue = a :: rest) :
    bfs key succ (n + 1) s =
      bfs key succ n ⟨rest ++ (offer key s.seen (succ a)).2, (offer key s.seen (succ a)).1,
        a :: s.visited⟩ := by
  simp [bfs, h]

/-- one iteration of the Go loop is a `Step` -/
theorem bfs_step (key : α → κ) (succ : α → List α) {s : State α κ} {a : α} {rest : List α}
    (h : s.queue = a :: rest) :
    Step key succ s ⟨rest ++ (offer key s.seen (succ a)).2, (offer key s.seen (succ a)).1,
      a :: s.visited⟩ := by
  obtain ⟨q, seen, vis⟩ := s
  simp only at h
  subst h
  exact Step.pop (List.Perm.refl _) (List.Perm.refl _) (List.Perm.refl _)

/-- **Theorem 4.** The Go loop is one of the executions covered by the theorems above. -/
theorem bfs_steps (key : α → κ) (succ : α → List α) : ∀ (n : Nat) (s : State α κ),
    Steps key succ s (bfs key succ n s)
  | 0, _ => Steps.refl
  | n + 1, s => by
    cases hq : s.queue with
    | nil => rw [bfs_nil key succ _ hq]; exact Steps.refl
    | cons a rest =>
      rw [bfs_cons key succ n hq]
      exact Steps.head (bfs_step key succ hq) (bfs_steps key succ n _)

/-- either the loop has stopped, or it made exactly `n` iterations -/
theorem bfs_stepsN (key : α → κ) (succ : α → List α) : ∀ (n : Nat) (s : State α κ),
    (bfs key succ n s).queue = [] ∨ StepsN key succ n s (bfs key succ n s)
  | 0, _ => Or.inr StepsN.refl
  | n + 1, s => by
    cases hq : s.queue with
    | nil => rw [bfs_nil key succ _ hq]; exact Or.inl hq
    | cons a rest =>
      rw [bfs_cons key succ n hq]
      rcases bfs_stepsN key succ n
        ⟨rest ++ (offer key s.seen (succ a)).2, (offer key s.seen (succ a)).1, a :: s.visited⟩ with h | h
      · exact Or.inl h
      · exact Or.inr (StepsN.head (bfs_step key succ hq) h)

/-- once the queue is empty more fuel changes nothing -/
theorem bfs_stable (key : α → κ) (succ : α → List α) : ∀ (n m : Nat) (s : State α κ),
    (bfs key succ n s).queue = [] → n ≤ m → bfs key succ m s = bfs key succ n s
  | 0, m, s, h, _ => bfs_nil key succ m h
  | n + 1, 0, _, _, hm => by omega
  | n + 1, m + 1, s, h, hm => by
    cases hq : s.queue with
    | nil => rw [bfs_nil key succ _ hq, bfs_nil key succ _ hq]
    | cons a rest =>
      rw [bfs_cons key succ n hq] at h ⊢
      rw [bfs_cons key succ m hq]
      exact bfs_stable key succ n m _ h (by omega)

/-! ### theorem 5: termination when the reachable items have finitely many keys -/

/-- number of elements of `K` (with multiplicity) that are not in `seen` -/
def missing : List κ → List κ → Nat
  | [], _ => 0
  | k :: K, seen => (if k ∈ seen then 0 else 1) + missing K seen

theorem missing_le_length : ∀ (K seen : List κ), missing K seen ≤ K.length
  | [], _ => by simp [missing]
  | k :: K, seen => by
    have := missing_le_length K seen
    simp only [missing, List.length_cons]
    split <;> omega

theorem missing_cons_le (x : κ) : ∀ (K seen : List κ), missing K (x :: seen) ≤ missing K seen
  | [], _ => by simp [missing]
  | k :: K, seen => by
    have := missing_cons_le x K seen
    simp only [missing, List.mem_cons]
    by_cases h1 : k ∈ seen
    · simp only [h1, or_true, if_true]; omega
    · by_cases h2 : k = x
      · simp only [h2, true_or, if_true]; omega
      · simp only [h1, h2, or_self, if_false]; omega

theorem missing_cons_lt {x : κ} : ∀ {K : List κ} {seen : List κ}, x ∈ K → x ∉ seen →
    missing K (x :: seen) + 1 ≤ missing K seen
  | [], _, h, _ => by simp at h
  | k :: K, seen, h, hx => by
    simp only [missing, List.mem_cons]
    by_cases h2 : k = x
    · subst h2
      have := missing_cons_le k K seen
      simp only [hx, true_or, if_true, if_false]; omega
    · have hxK : x ∈ K := by
        rcases List.mem_cons.1 h with h | h
        · exact absurd h.symm h2
        · exact h
      have := missing_cons_lt hxK hx
      by_cases h1 : k ∈ seen
      · simp only [h1, or_true, if_true]; omega
      · simp only [h1, h2, or_self, if_false]; omega

/-- every kept candidate with key in `K` uses up one missing key -/
theorem offer_missing (key : α → κ) (K : List κ) : ∀ (cs : List α) (seen : List κ),
    (∀ c ∈ cs, key c ∈ K) →
    missing K (offer key seen cs).1 + (offer key seen cs).2.length ≤ missing K seen
  | [], _, _ => by simp [offer]
  | c :: cs, seen, h => by
    have hcs : ∀ c ∈ cs, key c ∈ K := fun x hx => h x (List.mem_cons_of_mem _ hx)
    by_cases hc : key c ∈ seen
    · rw [offer_cons_seen key cs hc]; exact offer_missing key K cs seen hcs
    · rw [offer_cons_new key cs hc]
      have h1 := offer_missing key K cs (key c :: seen) hcs
      have h2 := missing_cons_lt (h c List.mem_cons_self) hc
      simp only [List.length_cons]
      omega

/-- the termination measure `queue.length + missing K seen` drops by one per iteration -/
theorem bounded_step (key : α → κ) (succ : α → List α) (P : α → Prop)
    (hsucc : ∀ a, P a → ∀ a' ∈ succ a, P a') (K : List κ) (hK : ∀ a, P a → key a ∈ K)
    {s t : State α κ} (hP : ∀ a ∈ s.queue, P a) (h : Step key succ s t) :
    (∀ a ∈ t.queue, P a) ∧
      t.queue.length + missing K t.seen + 1 ≤ s.queue.length + missing K s.seen := by
  cases h with
  | @pop q seen vis a rest cands q' h1 h2 h3 =>
    have ha : P a := hP a ((h1.mem_iff).2 List.mem_cons_self)
    have hc : ∀ c ∈ cands, P c := fun c hc => hsucc a ha c ((h2.mem_iff).1 hc)
    constructor
    · intro x hx
      rcases List.mem_append.1 ((h3.mem_iff).1 hx) with hx | hx
      · exact hP x ((h1.mem_iff).2 (List.mem_cons_of_mem _ hx))
      · exact hc x (offer_new_mem key cands seen x hx).1
    · have l1 := h1.length_eq
      have l3 := h3.length_eq
      have hm := offer_missing key K cands seen (fun c h => hK c (hc c h))
      simp only [List.length_cons, List.length_append] at l1 l3 ⊢
      omega

theorem bounded_stepsN (key : α → κ) (succ : α → List α) (P : α → Prop)
    (hsucc : ∀ a, P a → ∀ a' ∈ succ a, P a') (K : List κ) (hK : ∀ a, P a → key a ∈ K)
    {n : Nat} {s t : State α κ} (hP : ∀ a ∈ s.queue, P a) (h : StepsN key succ n s t) :
    (∀ a ∈ t.queue, P a) ∧
      n + t.queue.length + missing K t.seen ≤ s.queue.length + missing K s.seen := by
  induction h with
  | refl => exact ⟨hP, by omega⟩
  | tail _ hs ih =>
    have ih := ih hP
    have := bounded_step key succ P hsucc K hK ih.1 hs
    exact ⟨this.1, by omega⟩

/-- **Theorem 5a.** If all items reachable from the roots (those satisfying the item invariant `P`)
    have their keys in the finite list `K`, every execution of `n` iterations satisfies
    `n + |queue| + |K \ seen| ≤ |roots| + |K \ seen0|`. -/
theorem steps_bounded (key : α → κ) (succ : α → List α) (P : α → Prop)
    (hsucc : ∀ a, P a → ∀ a' ∈ succ a, P a') (K : List κ) (hK : ∀ a, P a → key a ∈ K)
    {roots : List α} (hroot : ∀ a ∈ roots, P a) {seen0 : List κ} {n : Nat} {s : State α κ}
    (h : StepsN key succ n ⟨roots, seen0, []⟩ s) :
    n + s.queue.length + missing K s.seen ≤ roots.length + missing K seen0 :=
  (bounded_stepsN key succ P hsucc K hK (s := ⟨roots, seen0, []⟩) hroot h).2

/-- no execution is longer than `|roots| + |K|` iterations -/
theorem steps_le (key : α → κ) (succ : α → List α) (P : α → Prop)
    (hsucc : ∀ a, P a → ∀ a' ∈ succ a, P a') (K : List κ) (hK : ∀ a, P a → key a ∈ K)
    {roots : List α} (hroot : ∀ a ∈ roots, P a) {seen0 : List κ} {n : Nat} {s : State α κ}
    (h : StepsN key succ n ⟨roots, seen0, []⟩ s) : n ≤ roots.length + K.length := by
  have h1 := steps_bounded key succ P hsucc K hK hroot h
  have h2 := missing_le_length K seen0
  omega

/-- **Theorem 5b.** With fuel `≥ |roots| + |K|` the Go loop stops with an empty queue. -/
theorem bfs_terminates (key : α → κ) (succ : α → List α) (P : α → Prop)
    (hsucc : ∀ a, P a → ∀ a' ∈ succ a, P a') (K : List κ) (hK : ∀ a, P a → key a ∈ K)
    {roots : List α} (hroot : ∀ a ∈ roots, P a) (seen0 : List κ) {fuel : Nat}
    (hfuel : roots.length + K.length ≤ fuel) :
    (bfs key succ fuel ⟨roots, seen0, []⟩).queue = [] := by
  rcases bfs_stepsN key succ fuel ⟨roots, seen0, []⟩ with h | h
  · exact h
  · have h1 := steps_bounded key succ P hsucc K hK hroot h
    have h2 := missing_le_length K seen0
    exact List.eq_nil_of_length_eq_zero (by omega)

theorem run_terminates (key : α → κ) (succ : α → List α) (P : α → Prop)
    (hsucc : ∀ a, P a → ∀ a' ∈ succ a, P a') (K : List κ) (hK : ∀ a, P a → key a ∈ K)
    {roots : List α} (hroot : ∀ a ∈ roots, P a) {fuel : Nat}
    (hfuel : roots.length + K.length ≤ fuel) : (run key succ fuel roots).queue = [] :=
  bfs_terminates key succ P hsucc K hK hroot [] hfuel

/-- the seen list stays duplicate free -/
theorem steps_seen_nodup (key : α → κ) (succ : α → List α) {s t : State α κ}
    (h : Steps key succ s t) (hn : s.seen.Nodup) : t.seen.Nodup := by
  induction h with
  | refl => exact hn
  | tail _ hs ih =>
    cases hs with
    | pop h1 h2 h3 => exact offer_seen_nodup key _ _ ih

/-- with enough fuel `run` computes the closure (theorems 3, 4 and 5 together) -/
theorem run_eq_closure (key : α → κ) (succ : α → List α)
    (hdet : ∀ a b, key a = key b → ∀ a' ∈ succ a, ∃ b' ∈ succ b, key b' = key a')
    (P : α → Prop) (hsucc : ∀ a, P a → ∀ a' ∈ succ a, P a') (K : List κ)
    (hK : ∀ a, P a → key a ∈ K) {roots : List α} (hroot : ∀ a ∈ roots, P a) {fuel : Nat}
    (hfuel : roots.length + K.length ≤ fuel) (k : κ) :
    k ∈ (run key succ fuel roots).visited.map key ↔ Reach (Poss key succ) (roots.map key) k :=
  visited_eq_closure key succ hdet (seen0 := []) (fun _ h => by simp at h)
    (bfs_steps key succ fuel _) (run_terminates key succ P hsucc K hK hroot hfuel) k

/-! ### non-vacuity -/

namespace Example

/-- items are (node, aux); the key is the node -/
def key : Nat × Nat → Nat := Prod.fst

/-- a graph on nodes: 0 → 1,2 ; 1 → 2,3 ; 3 → 0 ; 4 → 0 (4 is not reachable from 0) -/
def nodesA : Nat → List Nat
  | 0 => [1, 2]
  | 1 => [2, 3]
  | 3 => [0]
  | 4 => [0]
  | _ => []

/-- key-determined successors: the aux component records the predecessor (like the visitors' `Prev`) -/
def succA (p : Nat × Nat) : List (Nat × Nat) := (nodesA p.1).map (fun n => (n, p.1))

/-- (i) the Go loop computes the closure of {0}, in BFS order, and stops. The root is not marked seen,
    so it is expanded a second time when the cycle 0 → 1 → 3 → 0 comes back to it (as in the Go code). -/
example : (run key succA 10 [(0, 0)]).visited.map key = [0, 3, 2, 1, 0] ∧
    (run key succA 10 [(0, 0)]).queue = [] ∧ (run key succA 10 [(0, 0)]).seen = [0, 3, 2, 1] := by
  decide

/-- with the root pre-marked every key is expanded once -/
example : (bfs key succA 10 ⟨[(0, 0)], [0], []⟩).visited.map key = [3, 2, 1, 0] ∧
    (bfs key succA 10 ⟨[(0, 0)], [0], []⟩).queue = [] := by decide

/-- the hypotheses of `run_eq_closure` are satisfiable: `succA` is key-determined, keys stay in 0..4 -/
example : ∀ k, k ∈ (run key succA 6 [(0, 0)]).visited.map key ↔
    Reach (Poss key succA) ([(0, 0)].map key) k := by
  have hn : ∀ m n, n ∈ nodesA m → n < 5 := by
    intro m n h
    unfold nodesA at h
    split at h <;> simp at h <;> omega
  refine run_eq_closure key succA ?_ (fun a => a.1 < 5) ?_ [0, 1, 2, 3, 4] ?_ (by simp) (by simp)
  · intro a b h a' ha'
    obtain ⟨n, hn, rfl⟩ := List.mem_map.1 ha'
    have h' : a.1 = b.1 := h
    exact ⟨(n, b.1), List.mem_map.2 ⟨n, h' ▸ hn, rfl⟩, rfl⟩
  · intro a _ a' ha'
    obtain ⟨n, h, rfl⟩ := List.mem_map.1 ha'
    exact hn _ _ h
  · rintro ⟨a, x⟩ h
    simp only [key] at h ⊢
    have : a = 0 ∨ a = 1 ∨ a = 2 ∨ a = 3 ∨ a = 4 := by omega
    simpa using this

/-- aux-dependent successors: item (1,1) leads to node 2, item (1,0) does not -/
def succB : Nat × Nat → List (Nat × Nat)
  | (0, _) => [(1, 0), (1, 1)]
  | (1, 1) => [(2, 0)]
  | _ => []

/-- (ii) the Go order offers (1,0) first, (1,1) is dropped, node 2 is never visited … -/
example : (run key succB 10 [(0, 0)]).queue = [] ∧
    2 ∉ (run key succB 10 [(0, 0)]).visited.map key := by decide

/-- … although node 2 is reachable along possible successors (even item-reachable): theorem 1 does
    not hold with `Poss` in place of a guaranteed relation `G` -/
example : Reach (Poss key succB) ([(0, 0)].map key) 2 ∧ IReach succB [(0, 0)] (2, 0) := by
  refine ⟨Reach.step (Reach.step (Reach.root (by simp [key])) ⟨(0, 0), rfl, (1, 1), by simp [succB], rfl⟩)
    ⟨(1, 1), rfl, (2, 0), by simp [succB], rfl⟩, ?_⟩
  have h0 : IReach succB [(0, 0)] (0, 0) := IReach.root (by simp)
  have h1 : IReach succB [(0, 0)] (1, 1) := IReach.step h0 (by simp [succB])
  exact IReach.step h1 (by simp [succB])

/-- … and another order of the same successors does visit node 2: without `hdet` the visited key
    set depends on the order -/
example : ∃ s, Steps key succB (init [(0, 0)]) s ∧ s.queue = [] ∧ 2 ∈ s.visited.map key := by
  refine ⟨⟨[], [2, 1], [(2, 0), (1, 1), (0, 0)]⟩, ?_, rfl, by decide⟩
  have s1 : Step key succB (init [(0, 0)]) ⟨[(1, 1)], [1], [(0, 0)]⟩ :=
    Step.pop (a := (0, 0)) (rest := []) (cands := [(1, 1), (1, 0)]) (List.Perm.refl _)
      (List.Perm.swap _ _ _) (List.Perm.refl _)
  have s2 : Step key succB ⟨[(1, 1)], [1], [(0, 0)]⟩ ⟨[(2, 0)], [2, 1], [(1, 1), (0, 0)]⟩ :=
    Step.pop (a := (1, 1)) (rest := []) (cands := [(2, 0)]) (List.Perm.refl _)
      (List.Perm.refl _) (List.Perm.refl _)
  have s3 : Step key succB ⟨[(2, 0)], [2, 1], [(1, 1), (0, 0)]⟩
      ⟨[], [2, 1], [(2, 0), (1, 1), (0, 0)]⟩ :=
    Step.pop (a := (2, 0)) (rest := []) (cands := []) (List.Perm.refl _)
      (List.Perm.refl _) (List.Perm.refl _)
  exact Steps.tail (Steps.tail (Steps.single s1) s2) s3

/-- the guaranteed relation of `succB` (edges present whatever the aux): only 0 → 1; theorem 1 applies -/
example : ∀ s, Steps key succB (init [(0, 0)]) s → s.queue = [] → 1 ∈ s.visited.map key := by
  intro s hs hq
  refine visited_contains_guaranteed key succB (fun k k' => k = 0 ∧ k' = 1) ?_
    (seen0 := []) (fun _ h => by simp at h) hs hq 1 (Reach.step (Reach.root (by simp [key])) ⟨rfl, rfl⟩)
  rintro ⟨n, x⟩ k' ⟨h1, rfl⟩
  simp only [key] at h1
  subst h1
  exact ⟨(1, 0), by simp [succB], rfl⟩

end Example

end Argot.Closure
