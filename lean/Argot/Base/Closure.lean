/- Generic worklist closure theory (core Lean only, no imports: the executable part is linked into oracles).

   Models the loop shared by the Go visitors:

     que := roots ; seen := seen0
     while que != []: cur := pop(que)
        for each candidate next in succ(cur)   (arbitrary order)
           if seen[key(next)] { skip } else { que = append(que,next); seen[key(next)] = true }

   The successors of an item may depend on data of the item that is not part of its key, so two items
   with the same key may have different successors; the first one offered wins.

   `Step` is one iteration for ANY choice of the popped element, ANY order of its successors and ANY
   placement of the new items in the queue; all theorems are about arbitrary `Steps` executions.
   `bfs`/`run` is the executable FIFO instance. -/

namespace Argot.Closure

/-! ### definitions that need no decidable equality -/

section Basic
variable {α κ : Type}

structure State (α κ : Type) where
  queue : List α
  seen : List κ
  /-- popped (expanded) items, most recent first -/
  visited : List α

/-- reflexive-transitive closure of `R` from the keys `roots` -/
inductive Reach (R : κ → κ → Prop) (roots : List κ) : κ → Prop
  | root {k : κ} : k ∈ roots → Reach R roots k
  | step {k k' : κ} : Reach R roots k → R k k' → Reach R roots k'

/-- item-level reachability: closure of `a' ∈ succ a` from the items `roots` -/
inductive IReach (succ : α → List α) (roots : List α) : α → Prop
  | root {a : α} : a ∈ roots → IReach succ roots a
  | step {a a' : α} : IReach succ roots a → a' ∈ succ a → IReach succ roots a'

/-- the "possible successor" relation on keys: SOME item with key `k` has a successor with key `k'` -/
def Poss (key : α → κ) (succ : α → List α) (k k' : κ) : Prop :=
  ∃ a, key a = k ∧ ∃ a' ∈ succ a, key a' = k'

/-- initial state with no key marked -/
def init (roots : List α) : State α κ := ⟨roots, [], []⟩

theorem Reach.mono {R R' : κ → κ → Prop} {roots roots' : List κ}
    (hr : ∀ k ∈ roots, k ∈ roots') (hR : ∀ k k', R k k' → R' k k') :
    ∀ {k}, Reach R roots k → Reach R' roots' k := by
  intro k h
  induction h with
  | root h => exact Reach.root (hr _ h)
  | step _ hk ih => exact Reach.step ih (hR _ _ hk)

/-- `Reach` is the least set containing the roots and closed under `R` -/
theorem Reach.least {R : κ → κ → Prop} {roots : List κ} (S : κ → Prop)
    (hroot : ∀ k ∈ roots, S k) (hclosed : ∀ k k', S k → R k k' → S k') :
    ∀ {k}, Reach R roots k → S k := by
  intro k h
  induction h with
  | root h => exact hroot _ h
  | step _ hk ih => exact hclosed _ _ ih hk

theorem IReach.mono {succ : α → List α} {roots roots' : List α} (hr : ∀ a ∈ roots, a ∈ roots') :
    ∀ {a}, IReach succ roots a → IReach succ roots' a := by
  intro a h
  induction h with
  | root h => exact IReach.root (hr _ h)
  | step _ hk ih => exact IReach.step ih hk

/-- item reachability implies key reachability along possible successors -/
theorem IReach.reach_poss (key : α → κ) {succ : α → List α} {roots : List α} :
    ∀ {a}, IReach succ roots a → Reach (Poss key succ) (roots.map key) (key a) := by
  intro a h
  induction h with
  | root h => exact Reach.root (List.mem_map_of_mem h)
  | @step a a' _ hk ih => exact Reach.step ih ⟨a, rfl, a', hk, rfl⟩

end Basic

variable {α κ : Type} [DecidableEq κ]

/-! ### offering candidates -/

/-- offer candidates one after the other: keep those whose key is not yet seen, marking them seen.
    Result: (new seen list, kept candidates in offer order). -/
def offer (key : α → κ) : List κ → List α → List κ × List α
  | seen, [] => (seen, [])
  | seen, c :: cs =>
    if key c ∈ seen then offer key seen cs
    else
      let r := offer key (key c :: seen) cs
      (r.1, c :: r.2)

theorem offer_nil (key : α → κ) (seen : List κ) : offer key seen [] = (seen, []) := rfl

theorem offer_cons_seen (key : α → κ) {seen : List κ} {c : α} (cs : List α) (h : key c ∈ seen) :
    offer key seen (c :: cs) = offer key seen cs := by
  simp [offer, h]

theorem offer_cons_new (key : α → κ) {seen : List κ} {c : α} (cs : List α) (h : key c ∉ seen) :
    offer key seen (c :: cs) =
      ((offer key (key c :: seen) cs).1, c :: (offer key (key c :: seen) cs).2) := by
  simp [offer, h]

/-- a kept candidate was offered and its key was not seen before -/
theorem offer_new_mem (key : α → κ) : ∀ (cs : List α) (seen : List κ) (a : α),
    a ∈ (offer key seen cs).2 → a ∈ cs ∧ key a ∉ seen
  | [], _, _, h => by simp [offer] at h
  | c :: cs, seen, a, h => by
    by_cases hc : key c ∈ seen
    · rw [offer_cons_seen key cs hc] at h
      have := offer_new_mem key cs seen a h
      exact ⟨List.mem_cons_of_mem _ this.1, this.2⟩
    · rw [offer_cons_new key cs hc] at h
      simp only [List.mem_cons] at h
      rcases h with rfl | h
      · exact ⟨List.mem_cons_self, hc⟩
      · have := offer_new_mem key cs _ a h
        exact ⟨List.mem_cons_of_mem _ this.1, fun hn => this.2 (List.mem_cons_of_mem _ hn)⟩

/-- the new seen set is the old one plus the keys of the kept candidates -/
theorem offer_seen_iff_new (key : α → κ) : ∀ (cs : List α) (seen : List κ) (k : κ),
    k ∈ (offer key seen cs).1 ↔ k ∈ seen ∨ ∃ a ∈ (offer key seen cs).2, key a = k
  | [], _, _ => by simp [offer]
  | c :: cs, seen, k => by
    by_cases hc : key c ∈ seen
    · rw [offer_cons_seen key cs hc]; exact offer_seen_iff_new key cs seen k
    · rw [offer_cons_new key cs hc]
      simp only [offer_seen_iff_new key cs (key c :: seen) k, List.mem_cons, exists_eq_or_imp]
      constructor
      · rintro ((h | h) | h)
        · exact Or.inr (Or.inl h.symm)
        · exact Or.inl h
        · exact Or.inr (Or.inr h)
      · rintro (h | h | h)
        · exact Or.inl (Or.inr h)
        · exact Or.inl (Or.inl h.symm)
        · exact Or.inr h

/-- the new seen set is the old one plus the keys of ALL candidates (independent of their order) -/
theorem offer_seen_iff (key : α → κ) : ∀ (cs : List α) (seen : List κ) (k : κ),
    k ∈ (offer key seen cs).1 ↔ k ∈ seen ∨ ∃ a ∈ cs, key a = k
  | [], _, _ => by simp [offer]
  | c :: cs, seen, k => by
    by_cases hc : key c ∈ seen
    · rw [offer_cons_seen key cs hc, offer_seen_iff key cs seen k]
      simp only [List.mem_cons, exists_eq_or_imp]
      constructor
      · rintro (h | h)
        · exact Or.inl h
        · exact Or.inr (Or.inr h)
      · rintro (h | h | h)
        · exact Or.inl h
        · exact Or.inl (h ▸ hc)
        · exact Or.inr h
    · rw [offer_cons_new key cs hc]
      simp only [offer_seen_iff key cs (key c :: seen) k, List.mem_cons, exists_eq_or_imp]
      constructor
      · rintro ((h | h) | h)
        · exact Or.inr (Or.inl h.symm)
        · exact Or.inl h
        · exact Or.inr (Or.inr h)
      · rintro (h | h | h)
        · exact Or.inl (Or.inr h)
        · exact Or.inl (Or.inl h.symm)
        · exact Or.inr h

theorem offer_seen_mono (key : α → κ) (cs : List α) (seen : List κ) {k : κ} (h : k ∈ seen) :
    k ∈ (offer key seen cs).1 :=
  (offer_seen_iff key cs seen k).2 (Or.inl h)

theorem offer_seen_length (key : α → κ) : ∀ (cs : List α) (seen : List κ),
    (offer key seen cs).1.length = seen.length + (offer key seen cs).2.length
  | [], _ => by simp [offer]
  | c :: cs, seen => by
    by_cases hc : key c ∈ seen
    · rw [offer_cons_seen key cs hc]; exact offer_seen_length key cs seen
    · rw [offer_cons_new key cs hc]
      simp only [offer_seen_length key cs (key c :: seen), List.length_cons]
      omega

theorem offer_seen_nodup (key : α → κ) : ∀ (cs : List α) (seen : List κ),
    seen.Nodup → (offer key seen cs).1.Nodup
  | [], _, h => by simpa [offer] using h
  | c :: cs, seen, h => by
    by_cases hc : key c ∈ seen
    · rw [offer_cons_seen key cs hc]; exact offer_seen_nodup key cs seen h
    · rw [offer_cons_new key cs hc]
      exact offer_seen_nodup key cs _ (List.nodup_cons.2 ⟨hc, h⟩)

/-! ### executions -/

/-- one iteration, for ANY choice of the popped element, ANY order of its successors, ANY placement
    of the new items in the queue -/
inductive Step (key : α → κ) (succ : α → List α) : State α κ → State α κ → Prop
  | pop {q : List α} {seen : List κ} {vis : List α} {a : α} {rest cands q' : List α} :
      q.Perm (a :: rest) → cands.Perm (succ a) →
      q'.Perm (rest ++ (offer key seen cands).2) →
      Step key succ ⟨q, seen, vis⟩ ⟨q', (offer key seen cands).1, a :: vis⟩

/-- inversion / introduction form of `Step` on arbitrary states -/
theorem step_iff (key : α → κ) (succ : α → List α) (s t : State α κ) :
    Step key succ s t ↔ ∃ a rest cands, s.queue.Perm (a :: rest) ∧ cands.Perm (succ a) ∧
      t.queue.Perm (rest ++ (offer key s.seen cands).2) ∧
      t.seen = (offer key s.seen cands).1 ∧ t.visited = a :: s.visited := by
  constructor
  · intro h
    cases h with
    | pop h1 h2 h3 => exact ⟨_, _, _, h1, h2, h3, rfl, rfl⟩
  · rintro ⟨a, rest, cands, h1, h2, h3, h4, h5⟩
    obtain ⟨q, seen, vis⟩ := s
    obtain ⟨q', seen', vis'⟩ := t
    simp only at h1 h3 h4 h5
    subst h4 h5
    exact Step.pop h1 h2 h3

/-- reflexive-transitive closure of `Step` -/
inductive Steps (key : α → κ) (succ : α → List α) : State α κ → State α κ → Prop
  | refl {s : State α κ} : Steps key succ s s
  | tail {s t u : State α κ} : Steps key succ s t → Step key succ t u → Steps key succ s u

/-- executions of exactly `n` iterations -/
inductive StepsN (key : α → κ) (succ : α → List α) : Nat → State α κ → State α κ → Prop
  | refl {s : State α κ} : StepsN key succ 0 s s
  | tail {n : Nat} {s t u : State α κ} :
      StepsN key succ n s t → Step key succ t u → StepsN key succ (n + 1) s u

theorem steps_iff_stepsN (key : α → κ) (succ : α → List α) (s t : State α κ) :
    Steps key succ s t ↔ ∃ n, StepsN key succ n s t := by
  constructor
  · intro h
    induction h with
    | refl => exact ⟨0, StepsN.refl⟩
    | tail _ hs ih => obtain ⟨n, hn⟩ := ih; exact ⟨n + 1, StepsN.tail hn hs⟩
  · rintro ⟨n, h⟩
    induction h with
    | refl => exact Steps.refl
    | tail _ hs ih => exact Steps.tail ih hs

theorem StepsN.steps {key : α → κ} {succ : α → List α} {n : Nat} {s t : State α κ}
    (h : StepsN key succ n s t) : Steps key succ s t :=
  (steps_iff_stepsN key succ s t).2 ⟨n, h⟩

theorem Steps.single {key : α → κ} {succ : α → List α} {s t : State α κ}
    (h : Step key succ s t) : Steps key succ s t :=
  Steps.tail Steps.refl h

theorem Steps.trans {key : α → κ} {succ : α → List α} {s t u : State α κ}
    (h1 : Steps key succ s t) (h2 : Steps key succ t u) : Steps key succ s u := by
  induction h2 with
  | refl => exact h1
  | tail _ hs ih => exact Steps.tail ih hs

theorem Steps.head {key : α → κ} {succ : α → List α} {s t u : State α κ}
    (h1 : Step key succ s t) (h2 : Steps key succ t u) : Steps key succ s u :=
  Steps.trans (Steps.single h1) h2

theorem StepsN.head {key : α → κ} {succ : α → List α} {n : Nat} {s t u : State α κ}
    (h1 : Step key succ s t) (h2 : StepsN key succ n t u) : StepsN key succ (n + 1) s u := by
  induction h2 with
  | refl => exact StepsN.tail StepsN.refl h1
  | tail _ hs ih => exact StepsN.tail (ih h1) hs

/-! ### theorem 1: everything reachable along guaranteed successors is visited -/

/-- the completeness invariant of the loop -/
structure Closed (key : α → κ) (succ : α → List α) (roots : List α) (s : State α κ) : Prop where
  /-- the roots are never lost -/
  roots_in : ∀ a ∈ roots, a ∈ s.visited ∨ a ∈ s.queue
  /-- every successor key of an expanded item is marked seen -/
  succ_seen : ∀ a ∈ s.visited, ∀ a' ∈ succ a, key a' ∈ s.seen
  /-- every seen key is the key of an item that was or will be expanded -/
  seen_in : ∀ k ∈ s.seen, ∃ a, (a ∈ s.visited ∨ a ∈ s.queue) ∧ key a = k

omit [DecidableEq κ] in
theorem closed_init (key : α → κ) (succ : α → List α) {roots : List α} {seen0 : List κ}
    (h0 : ∀ k ∈ seen0, k ∈ roots.map key) : Closed key succ roots ⟨roots, seen0, []⟩ := by
  refine ⟨fun a h => Or.inr h, fun a h => by simp at h, fun k hk => ?_⟩
  obtain ⟨a, ha, rfl⟩ := List.mem_map.1 (h0 k hk)
  exact ⟨a, Or.inr ha, rfl⟩

theorem closed_step (key : α → κ) (succ : α → List α) {roots : List α} {s t : State α κ}
    (I : Closed key succ roots s) (h : Step key succ s t) : Closed key succ roots t := by
  cases h with
  | @pop q seen vis a rest cands q' h1 h2 h3 =>
    have hq : ∀ x, x ∈ q → x = a ∨ x ∈ rest := fun x hx => by
      simpa using (h1.mem_iff (a := x)).1 hx
    have hq' : ∀ x, x ∈ q' ↔ x ∈ rest ∨ x ∈ (offer key seen cands).2 := fun x => by
      simpa using (h3.mem_iff (a := x))
    refine ⟨?_, ?_, ?_⟩
    · intro x hx
      rcases I.roots_in x hx with h | h
      · exact Or.inl (List.mem_cons_of_mem _ h)
      · rcases hq x h with rfl | h
        · exact Or.inl List.mem_cons_self
        · exact Or.inr ((hq' x).2 (Or.inl h))
    · intro x hx x' hx'
      simp only [List.mem_cons] at hx
      rcases hx with rfl | hx
      · exact (offer_seen_iff key cands seen _).2 (Or.inr ⟨x', (h2.mem_iff).2 hx', rfl⟩)
      · exact offer_seen_mono key cands seen (I.succ_seen x hx x' hx')
    · intro k hk
      rcases (offer_seen_iff_new key cands seen k).1 hk with h | ⟨x, hx, rfl⟩
      · obtain ⟨x, hx, rfl⟩ := I.seen_in k h
        rcases hx with hx | hx
        · exact ⟨x, Or.inl (List.mem_cons_of_mem _ hx), rfl⟩
        · rcases hq x hx with rfl | hx
          · exact ⟨x, Or.inl List.mem_cons_self, rfl⟩
          · exact ⟨x, Or.inr ((hq' x).2 (Or.inl hx)), rfl⟩
      · exact ⟨x, Or.inr ((hq' x).2 (Or.inr hx)), rfl⟩

theorem closed_steps (key : α → κ) (succ : α → List α) {roots : List α} {s t : State α κ}
    (I : Closed key succ roots s) (h : Steps key succ s t) : Closed key succ roots t := by
  induction h with
  | refl => exact I
  | tail _ hs ih => exact closed_step key succ ih hs

omit [DecidableEq κ] in
/-- a final `Closed` state has visited every key reachable along guaranteed successors -/
theorem Closed.complete {key : α → κ} {succ : α → List α} {roots : List α} {s : State α κ}
    (I : Closed key succ roots s) (hq : s.queue = [])
    (G : κ → κ → Prop) (hG : ∀ a k', G (key a) k' → ∃ a' ∈ succ a, key a' = k') :
    ∀ k, Reach G (roots.map key) k → k ∈ s.visited.map key := by
  intro k hk
  induction hk with
  | root h =>
    obtain ⟨a, ha, rfl⟩ := List.mem_map.1 h
    rcases I.roots_in a ha with h | h
    · exact List.mem_map_of_mem h
    · rw [hq] at h; simp at h
  | @step k k' _ hg ih =>
    obtain ⟨a, ha, rfl⟩ := List.mem_map.1 ih
    obtain ⟨a', ha', rfl⟩ := hG a k' hg
    obtain ⟨b, hb, hkb⟩ := I.seen_in _ (I.succ_seen a ha a' ha')
    rcases hb with hb | hb
    · rw [← hkb]; exact List.mem_map_of_mem hb
    · rw [hq] at hb; simp at hb

/-- **Theorem 1.** Whatever the traversal order: when the queue is empty, every key reachable from
    the root keys along successors that are guaranteed whatever the auxiliary data (`G`) has been
    visited. -/
theorem visited_contains_guaranteed (key : α → κ) (succ : α → List α)
    (G : κ → κ → Prop) (hG : ∀ a k', G (key a) k' → ∃ a' ∈ succ a, key a' = k')
    {roots : List α} {seen0 : List κ} (h0 : ∀ k ∈ seen0, k ∈ roots.map key)
    {s : State α κ} (hs : Steps key succ ⟨roots, seen0, []⟩ s) (hq : s.queue = []) :
    ∀ k, Reach G (roots.map key) k → k ∈ s.visited.map key :=
  (closed_steps key succ (closed_init key succ h0) hs).complete hq G hG

end Argot.Closure
