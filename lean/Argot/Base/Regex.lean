/-
Regular expressions (the RE2 subset used by code-identifier specifications): syntax, denotational
matching with beginning/end-of-text assertions, a Brzozowski-derivative matcher proved equal to the
denotation, and *unanchored search* (what Go's `regexp.MatchString` decides), proved to be
"some substring matches".  Core Lean only (linked into the oracles).

Quantifiers of the theorems: every expression, every text, every context.
-/
namespace Argot.Regex

/-- Abstract syntax.  `r+` is `cat r (star r)`, `r?` is `alt r eps`; groups are transparent. -/
inductive RE where
  | empty : RE                              -- matches nothing
  | eps : RE                                -- the empty word
  | chr : Char → RE
  | any : RE                                -- `.` : every character except '\n'
  | cls : Bool → List (Char × Char) → RE    -- `[a-z0-9]` / `[^...]` (negated?, inclusive ranges)
  | bol : RE                                -- `^`  (beginning of text; no multi-line flag)
  | eol : RE                                -- `$`  (end of text)
  | alt : RE → RE → RE
  | cat : RE → RE → RE
  | star : RE → RE
  deriving DecidableEq, Repr, Inhabited

def inRanges (c : Char) (rs : List (Char × Char)) : Bool :=
  rs.any fun r => decide (r.1 ≤ c) && decide (c ≤ r.2)

/-- `M re l w r`: `re` matches the word `w`, where `l` says that `w` starts at the beginning of the
text and `r` that it ends at the end of the text (needed for `^` and `$`). -/
inductive M : RE → Bool → List Char → Bool → Prop where
  | eps {l r} : M .eps l [] r
  | chr {c l r} : M (.chr c) l [c] r
  | any {c l r} : c ≠ '\n' → M .any l [c] r
  | cls {neg rs c l r} : (inRanges c rs != neg) = true → M (.cls neg rs) l [c] r
  | bol {r} : M .bol true [] r
  | eol {l} : M .eol l [] true
  | altL {a b l w r} : M a l w r → M (.alt a b) l w r
  | altR {a b l w r} : M b l w r → M (.alt a b) l w r
  | cat {a b l w1 w2 r} : M a l w1 (r && w2.isEmpty) → M b (l && w1.isEmpty) w2 r →
      M (.cat a b) l (w1 ++ w2) r
  | starNil {a l r} : M (.star a) l [] r
  | starCons {a l w1 w2 r} : M a l w1 (r && w2.isEmpty) → M (.star a) (l && w1.isEmpty) w2 r →
      M (.star a) l (w1 ++ w2) r

/-- **Unanchored search** (the meaning of `regexp.MatchString`): some substring of the text matches. -/
def Search (re : RE) (s : List Char) : Prop :=
  ∃ pre w post, s = pre ++ w ++ post ∧ M re pre.isEmpty w post.isEmpty

/-! ### the executable matcher -/

/-- does `re` match the empty word in context (`l` = at beginning of text, `r` = at end of text) -/
def nullable : RE → Bool → Bool → Bool
  | .empty, _, _ => false
  | .eps, _, _ => true
  | .chr _, _, _ => false
  | .any, _, _ => false
  | .cls _ _, _, _ => false
  | .bol, l, _ => l
  | .eol, _, r => r
  | .alt a b, l, r => nullable a l r || nullable b l r
  | .cat a b, l, r => nullable a l r && nullable b l r
  | .star _, _, _ => true

def mkAlt (a b : RE) : RE :=
  if a = .empty then b else if b = .empty then a else if a = b then a else .alt a b

def mkCat (a b : RE) : RE :=
  if a = .empty then .empty else if b = .empty then .empty else if a = .eps then b else .cat a b

/-- Brzozowski derivative w.r.t. a character read at a position that is (`l`) / is not at the
beginning of the text. -/
def der (l : Bool) (c : Char) : RE → RE
  | .empty => .empty
  | .eps => .empty
  | .chr d => if c = d then .eps else .empty
  | .any => if c = '\n' then .empty else .eps
  | .cls neg rs => if inRanges c rs != neg then .eps else .empty
  | .bol => .empty
  | .eol => .empty
  | .alt a b => mkAlt (der l c a) (der l c b)
  | .cat a b => mkAlt (mkCat (der l c a) b) (if nullable a l false then der l c b else .empty)
  | .star a => mkCat (der l c a) (.star a)

/-- some prefix of the word matches (`l`: the word starts at the beginning of the text; the word
extends to the end of the text) -/
def prefixMatch : List Char → RE → Bool → Bool
  | [], re, l => nullable re l true
  | c :: t, re, l => nullable re l false || prefixMatch t (der l c re) false

def searchFrom : List Char → RE → Bool → Bool
  | [], re, l => nullable re l true
  | c :: t, re, l => prefixMatch (c :: t) re l || searchFrom t re false

/-- the matcher run by the oracle -/
def search (re : RE) (s : List Char) : Bool := searchFrom s re true

/-- whole-text match (used for examples) -/
def fullMatch : List Char → RE → Bool → Bool
  | [], re, l => nullable re l true
  | c :: t, re, l => fullMatch t (der l c re) false

/-! ### correctness -/

theorem not_M_empty {l w r} : ¬ M .empty l w r := by
  intro h; cases h

theorem nullable_iff (re : RE) (l r : Bool) : nullable re l r = true ↔ M re l [] r := by
  induction re generalizing l r with
  | empty => simp [nullable, not_M_empty]
  | eps => simp [nullable]; exact .eps
  | chr c => simp [nullable]; intro h; cases h
  | any => simp [nullable]; intro h; cases h
  | cls n rs => simp [nullable]; intro h; cases h
  | bol =>
    simp only [nullable]
    constructor
    · intro h; subst h; exact .bol
    · intro h; cases h; rfl
  | eol =>
    simp only [nullable]
    constructor
    · intro h; subst h; exact .eol
    · intro h; cases h; rfl
  | alt a b iha ihb =>
    simp only [nullable, Bool.or_eq_true, iha, ihb]
    constructor
    · rintro (h | h)
      · exact .altL h
      · exact .altR h
    · intro h; cases h with
      | altL h => exact .inl h
      | altR h => exact .inr h
  | cat a b iha ihb =>
    simp only [nullable, Bool.and_eq_true, iha, ihb]
    constructor
    · rintro ⟨h1, h2⟩
      have : M (.cat a b) l ([] ++ []) r := .cat (by simpa using h1) (by simpa using h2)
      simpa using this
    · intro h
      generalize hw : ([] : List Char) = w at h
      cases h with
      | cat h1 h2 =>
        rename_i w1 w2
        have h0 : w1 = [] ∧ w2 = [] := List.append_eq_nil_iff.1 hw.symm
        obtain ⟨rfl, rfl⟩ := h0
        exact ⟨by simpa using h1, by simpa using h2⟩
  | star a _ => simp [nullable]; exact .starNil

theorem mkAlt_iff (a b : RE) (l : Bool) (w : List Char) (r : Bool) :
    M (mkAlt a b) l w r ↔ M (.alt a b) l w r := by
  unfold mkAlt
  split
  · rename_i h; subst h
    exact ⟨.altR, fun h => by cases h with | altL h => exact absurd h not_M_empty | altR h => exact h⟩
  · split
    · rename_i h; subst h
      exact ⟨.altL, fun h => by cases h with | altL h => exact h | altR h => exact absurd h not_M_empty⟩
    · split
      · rename_i h; subst h
        exact ⟨.altL, fun h => by cases h with | altL h => exact h | altR h => exact h⟩
      · exact Iff.rfl

theorem mkCat_iff (a b : RE) (l : Bool) (w : List Char) (r : Bool) :
    M (mkCat a b) l w r ↔ M (.cat a b) l w r := by
  unfold mkCat
  split
  · rename_i h; subst h
    exact ⟨fun h => absurd h not_M_empty, fun h => by cases h with | cat h1 _ => exact absurd h1 not_M_empty⟩
  · split
    · rename_i h; subst h
      exact ⟨fun h => absurd h not_M_empty, fun h => by cases h with | cat _ h2 => exact absurd h2 not_M_empty⟩
    · split
      · rename_i h; subst h
        constructor
        · intro h
          have : M (.cat .eps b) l ([] ++ w) r := .cat .eps (by simpa using h)
          simpa using this
        · intro h
          cases h with
          | cat h1 h2 =>
            cases h1
            simpa using h2
      · exact Iff.rfl

/-- a non-empty match of `star a` starts with a non-empty match of `a` -/
theorem star_cons_inv {a : RE} {l : Bool} {c : Char} {w : List Char} {r : Bool}
    (h : M (.star a) l (c :: w) r) :
    ∃ w1 w2, w = w1 ++ w2 ∧ M a l (c :: w1) (r && w2.isEmpty) ∧ M (.star a) false w2 r := by
  generalize hre : RE.star a = re at h
  generalize hw : c :: w = w' at h
  induction h with
  | eps | chr | any | cls | bol | eol | altL | altR | cat => cases hre
  | starNil => cases hw
  | @starCons a' l' w1 w2 r' h1 h2 _ ih2 =>
    cases hre
    cases w1 with
    | nil =>
      have hw' : c :: w = w2 := hw
      have ih2' := ih2 rfl hw'
      simpa using ih2'
    | cons d w1' =>
      simp only [List.cons_append, List.cons.injEq] at hw
      obtain ⟨rfl, rfl⟩ := hw
      refine ⟨w1', w2, rfl, h1, ?_⟩
      simpa using h2

theorem der_iff (re : RE) (l : Bool) (c : Char) (w : List Char) (r : Bool) :
    M (der l c re) false w r ↔ M re l (c :: w) r := by
  induction re generalizing l w r with
  | empty => simp [der, not_M_empty]
  | eps => simp only [der]; exact ⟨fun h => absurd h not_M_empty, fun h => by cases h⟩
  | chr d =>
    simp only [der]
    split
    · rename_i h; subst h
      exact ⟨fun h => by cases h; exact .chr, fun h => by cases h; exact .eps⟩
    · rename_i h
      exact ⟨fun h' => absurd h' not_M_empty, fun h' => by cases h'; exact absurd rfl h⟩
  | any =>
    simp only [der]
    split
    · rename_i h
      exact ⟨fun h' => absurd h' not_M_empty, fun h' => by cases h' with | any hn => exact absurd h hn⟩
    · rename_i h
      exact ⟨fun h' => by cases h'; exact .any h, fun h' => by cases h'; exact .eps⟩
  | cls n rs =>
    simp only [der]
    split
    · rename_i h
      exact ⟨fun h' => by cases h'; exact .cls h, fun h' => by cases h'; exact .eps⟩
    · rename_i h
      exact ⟨fun h' => absurd h' not_M_empty, fun h' => by cases h' with | cls hc => exact absurd hc h⟩
  | bol => simp only [der]; exact ⟨fun h => absurd h not_M_empty, fun h => by cases h⟩
  | eol => simp only [der]; exact ⟨fun h => absurd h not_M_empty, fun h => by cases h⟩
  | alt a b iha ihb =>
    simp only [der, mkAlt_iff]
    constructor
    · intro h; cases h with
      | altL h => exact .altL ((iha ..).1 h)
      | altR h => exact .altR ((ihb ..).1 h)
    · intro h; cases h with
      | altL h => exact .altL ((iha ..).2 h)
      | altR h => exact .altR ((ihb ..).2 h)
  | cat a b iha ihb =>
    simp only [der, mkAlt_iff]
    constructor
    · intro h
      cases h with
      | altL h =>
        rw [mkCat_iff] at h
        cases h with
        | cat h1 h2 =>
          rename_i w1 w2
          have h1' := (iha ..).1 h1
          have : M (.cat a b) l ((c :: w1) ++ w2) r := .cat h1' (by simpa using h2)
          simpa using this
      | altR h =>
        split at h
        · rename_i hn
          have h1 := (nullable_iff a l false).1 hn
          have h2 := (ihb ..).1 h
          have : M (.cat a b) l ([] ++ (c :: w)) r := .cat (by simpa using h1) (by simpa using h2)
          simpa using this
        · exact absurd h not_M_empty
    · intro h
      generalize hw : c :: w = w' at h
      cases h with
      | cat h1 h2 =>
        rename_i w1 w2
        cases w1 with
        | nil =>
          simp only [List.nil_append] at hw
          subst hw
          simp only [List.isEmpty_nil, Bool.and_true, List.isEmpty_cons, Bool.and_false] at h1 h2
          apply M.altR
          rw [if_pos ((nullable_iff a l false).2 h1)]
          exact (ihb ..).2 h2
        | cons d w1' =>
          simp only [List.cons_append, List.cons.injEq] at hw
          obtain ⟨rfl, rfl⟩ := hw
          apply M.altL
          rw [mkCat_iff]
          exact .cat ((iha ..).2 h1) (by simpa using h2)
  | star a iha =>
    simp only [der, mkCat_iff]
    constructor
    · intro h
      cases h with
      | cat h1 h2 =>
        rename_i w1 w2
        have h1' := (iha ..).1 h1
        have : M (.star a) l ((c :: w1) ++ w2) r := .starCons h1' (by simpa using h2)
        simpa using this
    · intro h
      obtain ⟨w1, w2, rfl, h1, h2⟩ := star_cons_inv h
      exact .cat ((iha ..).2 h1) (by simpa using h2)

theorem prefixMatch_iff (s : List Char) (re : RE) (l : Bool) :
    prefixMatch s re l = true ↔ ∃ w post, s = w ++ post ∧ M re l w post.isEmpty := by
  induction s generalizing re l with
  | nil =>
    simp only [prefixMatch, nullable_iff]
    constructor
    · intro h; exact ⟨[], [], rfl, h⟩
    · rintro ⟨w, post, hs, h⟩
      have : w = [] ∧ post = [] := by cases w <;> cases post <;> simp_all
      obtain ⟨rfl, rfl⟩ := this
      exact h
  | cons c t ih =>
    simp only [prefixMatch, Bool.or_eq_true, nullable_iff, ih]
    constructor
    · rintro (h | ⟨w, post, rfl, h⟩)
      · exact ⟨[], c :: t, rfl, h⟩
      · exact ⟨c :: w, post, rfl, (der_iff ..).1 h⟩
    · rintro ⟨w, post, hs, h⟩
      cases w with
      | nil =>
        simp only [List.nil_append] at hs
        subst hs
        exact .inl h
      | cons d w' =>
        simp only [List.cons_append, List.cons.injEq] at hs
        obtain ⟨rfl, rfl⟩ := hs
        exact .inr ⟨w', post, rfl, (der_iff ..).2 h⟩

theorem searchFrom_iff (s : List Char) (re : RE) (l : Bool) :
    searchFrom s re l = true ↔
      ∃ pre w post, s = pre ++ w ++ post ∧ M re (l && pre.isEmpty) w post.isEmpty := by
  induction s generalizing l with
  | nil =>
    simp only [searchFrom, nullable_iff]
    constructor
    · intro h; exact ⟨[], [], [], rfl, by simpa using h⟩
    · rintro ⟨pre, w, post, hs, h⟩
      have : pre = [] ∧ w = [] ∧ post = [] := by
        cases pre <;> cases w <;> cases post <;> simp_all
      obtain ⟨rfl, rfl, rfl⟩ := this
      simpa using h
  | cons c t ih =>
    simp only [searchFrom, Bool.or_eq_true, prefixMatch_iff, ih]
    constructor
    · rintro (⟨w, post, hs, h⟩ | ⟨pre, w, post, rfl, h⟩)
      · exact ⟨[], w, post, by simpa using hs, by simpa using h⟩
      · exact ⟨c :: pre, w, post, by simp, by simpa using h⟩
    · rintro ⟨pre, w, post, hs, h⟩
      cases pre with
      | nil =>
        exact .inl ⟨w, post, by simpa using hs, by simpa using h⟩
      | cons d pre' =>
        simp only [List.cons_append, List.cons.injEq] at hs
        obtain ⟨rfl, rfl⟩ := hs
        exact .inr ⟨pre', w, post, rfl, by simpa using h⟩

/-- **The matcher decides unanchored search**, for every expression and every text. -/
theorem search_iff (re : RE) (s : List Char) : search re s = true ↔ Search re s := by
  simp only [search, searchFrom_iff, Search, Bool.true_and]

theorem fullMatch_iff (s : List Char) (re : RE) (l : Bool) :
    fullMatch s re l = true ↔ M re l s true := by
  induction s generalizing re l with
  | nil => simp only [fullMatch, nullable_iff]
  | cons c t ih => simp only [fullMatch, ih, der_iff]

instance (re : RE) (s : List Char) : Decidable (Search re s) :=
  decidable_of_iff _ (search_iff re s)

/-! ### consequences used by the code-identifier theorems -/

/-- an expression that matches the empty word in every context is found in every text
(the empty pattern `""` compiles to `eps`): an empty specification field constrains nothing -/
theorem search_eps (s : List Char) : search .eps s = true :=
  (search_iff _ _).2 ⟨[], [], s, by simp, .eps⟩

/-- search is monotone under extension of the text on both sides, for expressions without assertions;
for all expressions: a match found in a text is found when the match is in the *middle* only if
it did not use `^`/`$` — so only the assertion-free statement is universally true. -/
def assertionFree : RE → Bool
  | .bol | .eol => false
  | .alt a b | .cat a b => assertionFree a && assertionFree b
  | .star a => assertionFree a
  | _ => true

theorem M_flags_irrelevant {re : RE} (hf : assertionFree re = true) {l w r} (l' r' : Bool)
    (h : M re l w r) : M re l' w r' := by
  induction h generalizing l' r' with
  | eps => exact .eps
  | chr => exact .chr
  | any hn => exact .any hn
  | cls hc => exact .cls hc
  | bol => simp [assertionFree] at hf
  | eol => simp [assertionFree] at hf
  | altL _ ih => simp [assertionFree] at hf; exact .altL (ih hf.1 _ _)
  | altR _ ih => simp [assertionFree] at hf; exact .altR (ih hf.2 _ _)
  | cat _ _ ih1 ih2 => simp [assertionFree] at hf; exact .cat (ih1 hf.1 _ _) (ih2 hf.2 _ _)
  | starNil => exact .starNil
  | @starCons a0 _ _ _ _ _ _ ih1 ih2 =>
    have hf' : assertionFree a0 = true := by simpa [assertionFree] using hf
    exact .starCons (ih1 hf' _ _) (ih2 hf _ _)

/-- **Unanchored**: for an assertion-free pattern, a match inside `s` is a match inside every text
containing `s` (so `sink` also identifies `mysink2`, `a/b` also `x/a/b/c`). -/
theorem search_mono {re : RE} (hf : assertionFree re = true) (a s b : List Char)
    (h : search re s = true) : search re (a ++ s ++ b) = true := by
  rw [search_iff] at h ⊢
  obtain ⟨pre, w, post, rfl, hm⟩ := h
  exact ⟨a ++ pre, w, post ++ b, by simp, M_flags_irrelevant hf _ _ hm⟩

end Argot.Regex
