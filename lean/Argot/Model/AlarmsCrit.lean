/- C05: the decidable criterion `max_alarms` demands of a pair of real results. Core Lean only. -/
namespace Argot.AlarmsCrit

/-- result with `max-alarms = k > 0` vs unlimited result (sets of "source->sink" strings):
subset, at most `k` pairs, non-empty when the unlimited one is -/
def maxAlarmsOK (k : Nat) (rk rinf : List String) : Bool :=
  rk.all (fun x => rinf.contains x) && decide (rk.eraseDups.length ≤ k) && (rinf.isEmpty || !rk.isEmpty)

def why (k : Nat) (rk rinf : List String) : String :=
  if !(rk.all fun x => rinf.contains x) then
    "not-subset:" ++ ",".intercalate (rk.filter fun x => !rinf.contains x)
  else if rk.eraseDups.length > k then s!"more-than-k:{rk.eraseDups.length}"
  else if !rinf.isEmpty && rk.isEmpty then "empty-although-unlimited-nonempty"
  else "ok"

end Argot.AlarmsCrit
