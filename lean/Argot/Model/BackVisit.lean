/-
Model of the backward traversal of analysis/backtrace/backtrace.go (`Visitor.visit`, `addNext`,
`isBaseCase`, `findTrace`, `addTrace`) over a *dumped* linked summary graph. Core Lean only.

Go                                         Lean
------------------------------------------------------------------------------------------
df.GraphNode (11 kinds)                    node id : Nat, `Node.kind : NKind`
n.In()  (map source -> ONE EdgeInfo)       `Node.ins  : List (Nat × Int)`   (source, EdgeInfo.Index)
n.Out() (map dest -> []EdgeInfo)           `Node.outs : List (Nat × Int)`   (dest, EdgeInfo.Index), flattened
CallNodeArg.ParentNode / Index             `parent`, `index`
lang.IsNillableType(arg.Type())            `nillable`
s.BoundingInfo[arg.Value()]                `bound`
CallNode.CalleeSummary (+ .Constructed)    `calleeGraph : Option Nat` (+ `GraphInfo.constructed`)
CalleeSummary.Params[Parent.Params[i]]     `calleeParam : List (Option Nat)` (per argument position)
CalleeSummary.Returns (all tuples)         `rets`
(CallSite(), Callee()) of a call node      `siteKey`   (what UnwindCallstackFromCallee compares)
ClosureNode.BoundVars()                    `bvs`
ClosureSummary.FreeVars[Parent.FreeVars[i]] `closFvs : List (Option Nat)`
AccessGlobalNode.Global.WriteLocations     `writes`
SummaryGraph.Callsites / ReferringMakeClosures   `GraphInfo.callsites / refClosures`
df.VisitorNode{Node,Trace,ClosureTrace,Status.Kind,Prev}   `VNode` (`prevs` = the Prev chain's nodes)
VisitorNode.Key()                          `VNode.key`
v.prevEdgeInfos                            `St.pei : List (Nat × Int)`
NodeTree.GetLassoHandle() != nil           `lasso`
the DFS `for len(stack) != 0`              `loop` (fuel = number of pops; `St.stack = []` ⇔ the Go loop ended)

Every `range` over a Go map is modelled by an arbitrary reordering `ρ` of the candidate list (the
theorems quantify over it). The depth limit (`UnsafeMaxDepth`, default -1 = off) is not modelled.
On-demand summarisation is not modelled as graph mutation: the dump is taken after the analysis,
when every summary the traversal asked for has been built.
-/
namespace Argot.BackVisit

inductive NKind where
  | param | arg | call | ret | synth | gread | gwrite | boundVar | freeVar | closure | boundLabel | ifn
  deriving DecidableEq, Repr, Inhabited

structure Node where
  kind : NKind := .synth
  graph : Nat := 0
  index : Nat := 0
  parent : Nat := 0
  nillable : Bool := false
  bound : Bool := false
  ins : List (Nat × Int) := []
  outs : List (Nat × Int) := []
  calleeGraph : Option Nat := none
  args : List Nat := []
  calleeParam : List (Option Nat) := []
  rets : List Nat := []
  siteKey : Nat := 0
  bvs : List Nat := []
  closGraph : Option Nat := none
  closFvs : List (Option Nat) := []
  writes : List Nat := []
  /-- the call instruction is a `go`/`defer` (only used by entry-point selection) -/
  goDefer : Bool := false
  /-- the callee matches the backtrace-point specification -/
  isPoint : Bool := false
  deriving Repr, Inhabited

structure GraphInfo where
  constructed : Bool := true
  callsites : List Nat := []
  refClosures : List Nat := []
  deriving Repr, Inhabited

structure LGraph where
  nodes : Array Node
  graphs : Array GraphInfo
  deriving Repr, Inhabited

structure Cfg where
  onDemand : Bool := false
  skipBoundLabels : Bool := false
  /-- NOT in the current code (`false`, the default, models the code as it is): the repair proposed
  in /verif/fixes/C03_closure_trace_mismatch.patch — the FreeVarNode case uses the closure on top of
  ClosureTrace only if it is a closure of the free variable's own function. It was applied as /repo
  commit 7ab5f0c and reverted by 63e2416 (the repaired traversal explores far more contexts on
  programs with bound-method closures); the flag is kept so that `trace_wellformed_fixed` states what
  such a repair restores. -/
  closureCheck : Bool := false
  deriving Repr, Inhabited

def LGraph.node (G : LGraph) (i : Nat) : Node := G.nodes.getD i default
def LGraph.ginfo (G : LGraph) (g : Nat) : GraphInfo := G.graphs.getD g default
def LGraph.kind (G : LGraph) (i : Nat) : NKind := (G.node i).kind
def LGraph.graphOf (G : LGraph) (i : Nat) : Nat := (G.node i).graph

/-- `VisitorNode.Key()` = LongID ! Trace.Key ! ClosureTrace.Key _ Status.Kind (access paths are
empty for every node of this traversal). -/
abbrev Key := Nat × List Nat × List Nat × Nat

structure VNode where
  node : Nat
  trace : List Nat := []     -- call stack, head = innermost call
  ctrace : List Nat := []    -- closure stack
  skind : Nat := 0           -- Status.Kind: 0 DefaultTracing, 1 ClosureTracing
  prevs : List Nat := []     -- nodes of the Prev chain, head = cur.Prev.Node
  deriving Repr, Inhabited, DecidableEq

def VNode.key (v : VNode) : Key := (v.node, v.trace, v.ctrace, v.skind)

/-- A request `addNext(cur, next…, edgeInfo)`; `recIdx = some i` when the caller appends the edge
info `i` to `prevEdgeInfos[cur.node]` if the node was added. -/
structure Cand where
  node : Nat
  trace : List Nat
  ctrace : List Nat
  skind : Nat
  eidx : Int := 0
  recIdx : Option Int := none
  deriving Repr, Inhabited, DecidableEq

def Cand.key (c : Cand) : Key := (c.node, c.trace, c.ctrace, c.skind)

/-- `GetLassoHandle() != nil`: the top label occurs again below. -/
def lasso : List Nat → Bool
  | [] => false
  | a :: rest => rest.contains a

structure St where
  stack : List VNode := []
  seen : List Key := []
  pei : List (Nat × Int) := []
  traces : List (List Nat) := []
  /-- set when the free-variable case used a closure-trace label whose closure is not the
  free variable's own function (the jump is then not a dataflow link, see `Linked`) -/
  incoherent : Bool := false
  /-- set where the Go code panics (missing bound variable / parameter) -/
  panicked : Bool := false
  deriving Repr, Inhabited

def peiHas (pei : List (Nat × Int)) (a : Nat) : Bool := pei.any (fun p => p.1 == a)
def peiOf (pei : List (Nat × Int)) (a : Nat) : List Int := (pei.filter (fun p => p.1 == a)).map (·.2)

/-- The tuple-sensitivity test at the top of `addNext`. -/
def tupleReject (G : LGraph) (pei : List (Nat × Int)) (cur : VNode) (c : Cand) : Bool :=
  G.kind c.node == .ret &&
    match cur.prevs with
    | [] => false
    | p :: _ => G.kind p == .arg && peiHas pei p && decide (((G.node c.node).index : Int) ≠ c.eidx)

def mkNext (cur : VNode) (c : Cand) : VNode :=
  { node := c.node, trace := c.trace, ctrace := c.ctrace, skind := c.skind, prevs := cur.node :: cur.prevs }

/-- `addNext`; the Boolean is `added`. -/
def addNext (G : LGraph) (cur : VNode) (st : St) (c : Cand) : St × Bool :=
  if tupleReject G st.pei cur c then (st, false)
  else if st.seen.contains c.key then (st, false)
  else if lasso c.trace || lasso c.ctrace then (st, false)
  else
    ({ st with
        stack := mkNext cur c :: st.stack
        seen := c.key :: st.seen
        pei := match c.recIdx with
          | some i => (cur.node, i) :: st.pei
          | none => st.pei }, true)

def addAll (G : LGraph) (cur : VNode) : St → List Cand → St × Bool
  | st, [] => (st, false)
  | st, c :: cs =>
    let r := addNext G cur st c
    let r2 := addAll G cur r.1 cs
    (r2.1, r.2 || r2.2)

/-- `isBaseCase`. -/
def isBase (G : LGraph) (cfg : Cfg) (n : Nat) : Bool :=
  let nd := G.node n
  match nd.kind with
  | .param | .call | .arg | .closure | .boundVar | .freeVar => false
  | .gread => !cfg.onDemand && nd.ins.isEmpty && nd.writes.isEmpty
  | _ => nd.ins.isEmpty

def mk (cur : VNode) (n : Nat) : Cand := { node := n, trace := cur.trace, ctrace := cur.ctrace, skind := cur.skind }

def inCands (G : LGraph) (cur : VNode) : List Cand := (G.node cur.node).ins.map fun e => mk cur e.1

/-- `UnwindCallstackFromCallee`. -/
def unwind (G : LGraph) (g : Nat) (trace : List Nat) : Option Nat :=
  match trace with
  | [] => none
  | top :: _ => (G.ginfo g).callsites.find? fun x => (G.node x).siteKey == (G.node top).siteKey

def prevKind (G : LGraph) (cur : VNode) : Option NKind := cur.prevs.head?.map G.kind
def prevGraph (G : LGraph) (cur : VNode) : Option Nat := cur.prevs.head?.map G.graphOf

/-- What one iteration of the `switch` asks `addNext` for. `baseIfStuck`: the kinds with a
"no new node was pushed ⇒ report the trace" epilogue. `skip`: the `break`/`continue` exits. -/
structure Expand where
  cands : List Cand := []
  baseIfStuck : Bool := false
  incoherent : Bool := false
  panics : Bool := false
  deriving Repr, Inhabited

def argAt (G : LGraph) (call idx : Nat) : Option Nat := (G.node call).args[idx]?

def callsiteCands (G : LGraph) (cur : VNode) : List Cand :=
  (G.ginfo (G.node cur.node).graph).callsites.filterMap fun c => (argAt G c (G.node cur.node).index).map (mk cur)

def intraCands (G : LGraph) (cur : VNode) : List Cand :=
  if prevGraph G cur != some (G.node cur.node).graph then inCands G cur else []

def expandParam (G : LGraph) (cur : VNode) : Expand :=
  let nd := G.node cur.node
  let fromBound := prevKind G cur == some .boundLabel || prevKind G cur == some .boundVar
  let noCtx : Expand :=
    { cands := intraCands G cur ++ callsiteCands G cur,
      panics := (G.ginfo nd.graph).callsites.any fun c => (argAt G c nd.index).isNone }
  match unwind G nd.graph cur.trace with
  | some cs =>
    if !fromBound then
      match argAt G cs nd.index with
      | some a => { cands := intraCands G cur ++ [mk cur a] }
      | none => { cands := intraCands G cur, panics := true }   -- CheckIndex error: `return err`
    else noCtx
  | none => noCtx

def argToParam (G : LGraph) (cur : VNode) : List Cand :=
  let nd := G.node cur.node
  if nd.nillable then
    match (G.node nd.parent).calleeParam[nd.index]? with
    | some (some p) => [{ mk cur p with trace := nd.parent :: cur.trace }]
    | _ => []
  else []

def argOut (G : LGraph) (cur : VNode) : List Cand :=
  let nd := G.node cur.node
  if nd.bound then nd.outs.map fun e => { mk cur e.1 with recIdx := some e.2 } else []

/-- the guard of the `for … range graphNode.In()` loop of the CallNodeArg case -/
def argInOk (G : LGraph) (cur : VNode) : Bool :=
  match cur.prevs with
  | [] => true
  | p :: _ => G.graphOf p != G.graphOf (G.node cur.node).parent ||
      (G.kind p == .param && G.graphOf p == G.graphOf (G.node cur.node).parent)

def argIn (G : LGraph) (cur : VNode) : List Cand :=
  if argInOk G cur then
    (G.node cur.node).ins.map fun e => { mk cur e.1 with trace := cur.trace.tail, recIdx := some e.2 }
  else []

/-- nillable argument of a call whose callee summary is missing / not constructed, eager mode:
`ReportMissingOrNotConstructedSummary` and `break` out of the switch (nothing is pushed or reported) -/
def argDropped (G : LGraph) (cfg : Cfg) (n : Nat) : Bool :=
  let nd := G.node n
  let calleeOk := match (G.node nd.parent).calleeGraph with
    | some g => (G.ginfo g).constructed
    | none => false
  nd.nillable && !calleeOk && !cfg.onDemand

def expandArg (G : LGraph) (cfg : Cfg) (cur : VNode) : Expand :=
  let nd := G.node cur.node
  if argDropped G cfg cur.node then {}
  else
    { cands := argToParam G cur ++ argOut G cur ++ argIn G cur, baseIfStuck := true,
      panics := nd.nillable && (match (G.node nd.parent).calleeParam[nd.index]? with
        | some (some _) => false | _ => true) }

/-- `prevEdges` of the CallNode case -/
def prevEdges (G : LGraph) (pei : List (Nat × Int)) (cur : VNode) : List Int :=
  match cur.prevs with
  | p :: _ => if G.kind p == .arg then peiOf pei p else []
  | [] => []

def retCand (cur : VNode) (r : Nat) : Cand := { mk cur r with trace := cur.node :: cur.trace }

def retCands (G : LGraph) (pei : List (Nat × Int)) (cur : VNode) : List Cand :=
  (G.node cur.node).rets.flatMap fun r =>
    if (prevEdges G pei cur).isEmpty then [retCand cur r]
    else (prevEdges G pei cur).map fun i => { retCand cur r with eidx := i }

def expandCall (G : LGraph) (pei : List (Nat × Int)) (cur : VNode) : Expand :=
  { cands := retCands G pei cur ++ inCands G cur, baseIfStuck := true,
    panics := (G.node cur.node).calleeGraph.isNone }

def expandBoundVar (G : LGraph) (cur : VNode) : Expand :=
  let nd := G.node cur.node
  match (G.node nd.parent).closFvs[nd.index]? with
  | some (some fv) => { cands := inCands G cur ++ [{ mk cur fv with ctrace := nd.parent :: cur.ctrace }] }
  | _ => { cands := inCands G cur, panics := true }

/-- the "no calling context" branch of the FreeVarNode case: every MakeClosure site of the function -/
def fvNoCtx (G : LGraph) (cur : VNode) : Expand :=
  let nd := G.node cur.node
  let cl := (G.ginfo nd.graph).refClosures
  { cands := cl.filterMap fun c => ((G.node c).bvs[nd.index]?).map fun bv => { mk cur bv with ctrace := [] },
    baseIfStuck := true,
    panics := cl.isEmpty || cl.any fun c => ((G.node c).bvs[nd.index]?).isNone }

def expandFreeVar (G : LGraph) (cfg : Cfg) (cur : VNode) : Expand :=
  let nd := G.node cur.node
  if prevGraph G cur != some nd.graph then { cands := inCands G cur, baseIfStuck := true }
  else match cur.ctrace with
    | c :: rest =>
      if cfg.closureCheck && (G.node c).closGraph != some nd.graph then fvNoCtx G cur
      else match (G.node c).bvs[nd.index]? with
      | some bv =>
        { cands := [{ node := bv, trace := [], ctrace := rest, skind := 1 }], baseIfStuck := true,
          incoherent := (G.node c).closGraph != some nd.graph }
      | none => { baseIfStuck := true, panics := true }
    | [] => fvNoCtx G cur

def expand (G : LGraph) (cfg : Cfg) (pei : List (Nat × Int)) (cur : VNode) : Expand :=
  match G.kind cur.node with
  | .param => expandParam G cur
  | .arg => expandArg G cfg cur
  | .ret => { cands := inCands G cur }
  | .call => expandCall G pei cur
  | .synth => { cands := inCands G cur }
  | .gwrite => { cands := inCands G cur }
  | .gread => { cands := (G.node cur.node).writes.map fun w => { mk cur w with trace := [] } }
  | .boundVar => expandBoundVar G cur
  | .freeVar => expandFreeVar G cfg cur
  | .closure => { cands := (G.node cur.node).bvs.map (mk cur) }
  | .boundLabel => if cfg.skipBoundLabels then {} else { cands := inCands G cur }
  | .ifn => { panics := true }

/-- `findTrace`: the node followed by its Prev chain (origin first, entry argument last). -/
def traceOf (cur : VNode) : List Nat := cur.node :: cur.prevs

/-- `addTrace`: no duplicates. -/
def addTrace (ts : List (List Nat)) (t : List Nat) : List (List Nat) := if ts.contains t then ts else ts ++ [t]

/-- One iteration of the DFS loop for the popped node `cur` (`st.stack` is the rest). `ρ`
reorders the candidate list (Go map iteration order); it must not invent candidates. -/
def stepNode (G : LGraph) (cfg : Cfg) (ρ : VNode → List Cand → List Cand) (cur : VNode) (st : St) : St :=
  if !(G.ginfo (G.graphOf cur.node)).constructed && !cfg.onDemand then st
  else if isBase G cfg cur.node then { st with traces := addTrace st.traces (traceOf cur) }
  else
    let e := expand G cfg st.pei cur
    if e.panics then { st with stack := [], panicked := true }
    else
      let r := addAll G cur st (ρ cur e.cands)
      let st' := { r.1 with incoherent := r.1.incoherent || e.incoherent }
      if e.baseIfStuck && !r.2 then { st' with traces := addTrace st'.traces (traceOf cur) } else st'

def loop (G : LGraph) (cfg : Cfg) (ρ : VNode → List Cand → List Cand) : Nat → St → St
  | 0, st => st
  | fuel + 1, st =>
    match st.stack with
    | [] => st
    | cur :: rest => loop G cfg ρ fuel (stepNode G cfg ρ cur { st with stack := rest })

def rootOf (entry : Nat) : VNode := { node := entry }

/-- `Visitor.visit(s, entrypoint)` for one backtrace-point argument, starting from the
`prevEdgeInfos` accumulated by earlier visits. -/
def run (G : LGraph) (cfg : Cfg) (ρ : VNode → List Cand → List Cand) (fuel : Nat) (entry : Nat)
    (pei0 : List (Nat × Int) := []) : St :=
  loop G cfg ρ fuel { stack := [rootOf entry], pei := pei0 }

def St.finished (st : St) : Bool := st.stack.isEmpty && !st.panicked

/-- identity order -/
def idOrder : VNode → List Cand → List Cand := fun _ l => l

/-- `scanEntryPoints` + `Visitor.Visit`: the arguments from which the analysis starts are the
arguments of call nodes whose call instruction is an `*ssa.Call` (`callSite.Value()` is nil for
`go`/`defer`) to a function matching the specification. -/
def entryArgs (G : LGraph) : List Nat :=
  (List.range G.nodes.size).flatMap fun i =>
    let nd := G.node i
    if nd.kind == .call && nd.isPoint && !nd.goDefer then nd.args else []

/-- What the property quantifies over: arguments of *every* call to a backtrace point. -/
def pointArgs (G : LGraph) : List Nat :=
  (List.range G.nodes.size).flatMap fun i =>
    let nd := G.node i
    if nd.kind == .call && nd.isPoint then nd.args else []


/-! ### decidable link test (used on REAL traces by the oracle; `linkedB_iff` in Proofs) -/

def closureOfB (G : LGraph) (c g : Nat) : Bool :=
  (G.ginfo g).refClosures.contains c || (G.node c).closGraph == some g

/-- `next` is one backward dataflow step from `cur` (Spec `Linked`). -/
def linkedB (G : LGraph) (cur next : Nat) : Bool :=
  let nd := G.node cur
  nd.ins.any (fun e => e.1 == next) ||
  (match nd.kind with
   | .param => (G.ginfo nd.graph).callsites.any fun cs => (G.node cs).args[nd.index]? == some next
   | .arg => (G.node nd.parent).calleeParam[nd.index]? == some (some next) ||
       (nd.bound && nd.outs.any (fun e => e.1 == next))
   | .call => nd.rets.contains next
   | .gread => nd.writes.contains next
   | .boundVar => (G.node nd.parent).closFvs[nd.index]? == some (some next)
   | .freeVar => (List.range G.nodes.size).any fun c =>
       closureOfB G c nd.graph && (G.node c).bvs[nd.index]? == some next
   | .closure => nd.bvs.contains next
   | _ => false)

/-- the extra jump of `LinkedW` -/
def ctxJumpB (G : LGraph) (cur next : Nat) : Bool :=
  G.kind cur == .freeVar &&
    (List.range G.nodes.size).any fun c => (G.node c).bvs[(G.node cur).index]? == some next

def chainB (R : Nat → Nat → Bool) : List Nat → Bool
  | [] => true
  | [_] => true
  | a :: b :: rest => R b a && chainB R (b :: rest)

/-- decidable `TraceWF (Linked G) entry t` -/
def traceWFB (G : LGraph) (entry : Nat) (t : List Nat) : Bool :=
  t.getLast? == some entry && chainB (linkedB G) t


/-! ### replay of a REAL trace in the model (tie M7)

A reported trace (origin first) is accepted when, starting from the root visitor node of its
last element, each next element is the node of some candidate `expand` produces for one of the
visitor nodes (contexts) reached so far; `seen`, the lasso cut and the tuple filter only remove
candidates, so they are not part of acceptance. The head must be a node at which the code reports. -/

def replayStep (G : LGraph) (cfg : Cfg) (vs : List VNode) (n : Nat) : List VNode :=
  (vs.flatMap fun v => ((expand G cfg [] v).cands.filter (fun c => c.node == n)).map (mkNext v)).eraseDups

/-- `rev` = the trace reversed (entry first), without the entry. -/
def replayFrom (G : LGraph) (cfg : Cfg) : List VNode → List Nat → List VNode
  | vs, [] => vs
  | vs, n :: rest => replayFrom G cfg (replayStep G cfg vs n) rest

def reportsAt (G : LGraph) (cfg : Cfg) (v : VNode) : Bool :=
  isBase G cfg v.node || (expand G cfg [] v).baseIfStuck

def replayB (G : LGraph) (cfg : Cfg) (t : List Nat) : Bool :=
  match t.reverse with
  | [] => false
  | entry :: rest => (replayFrom G cfg [rootOf entry] rest).any (reportsAt G cfg)

/-! ### guaranteed predecessors (what `back_visits_closure` is about)

The successors of a visitor node depend on its `Prev` (which is not part of the `seen` key), so
only the part of `expand` that is produced for EVERY `Prev` is guaranteed to be explored from a key
(cf. F14 for the forward visitor). `gsucc` is that part, with the rejections of `addNext` that do
not depend on the state already applied (lasso), and with a return value of a call included only
when every edge leaving the call carries that return's tuple index (`retOk`: then whichever
argument the call was reached from recorded exactly that index in `prevEdgeInfos`). -/

def keyV (k : Key) : VNode := { node := k.1, trace := k.2.1, ctrace := k.2.2.1, skind := k.2.2.2 }

/-- every edge out of call `c` (as a source in some `In()` / a target in some `Out()`) has index `j` -/
def retOk (G : LGraph) (c : Nat) (j : Int) : Bool :=
  (List.range G.nodes.size).all fun a =>
    ((G.node a).ins.all fun e => e.1 != c || e.2 == j) && ((G.node a).outs.all fun e => e.1 != c || e.2 == j)

/-- argument node `a` is the source of no in-edge and the target of no out-edge of a bound argument
(the only out-edges the traversal follows): the only way to reach it is from a parameter of the
callee (through the call site's argument list), and then the guard of the `In()` loop of the
CallNodeArg case (`argInOk`) holds. -/
def argOnlyFromParam (G : LGraph) (a : Nat) : Bool :=
  (List.range G.nodes.size).all fun m =>
    ((G.node m).ins.all fun e => e.1 != a) &&
    (!(G.kind m == .arg && (G.node m).bound) || (G.node m).outs.all fun e => e.1 != a)

def argInAll (G : LGraph) (cur : VNode) : List Cand :=
  (G.node cur.node).ins.map fun e => { mk cur e.1 with trace := cur.trace.tail, recIdx := some e.2 }

def gcands (G : LGraph) (cfg : Cfg) (v : VNode) : List Cand :=
  let nd := G.node v.node
  if !(G.ginfo nd.graph).constructed && !cfg.onDemand then []
  else if isBase G cfg v.node then []
  else match nd.kind with
  | .param =>
    match unwind G nd.graph v.trace with
    | some cs => match argAt G cs nd.index with
      | some a => [mk v a]
      | none => []
    | none => callsiteCands G v
  | .arg => if argDropped G cfg v.node then []
      else argToParam G v ++ argOut G v ++ (if argOnlyFromParam G v.node then argInAll G v else [])
  | .ret | .synth | .gwrite => inCands G v
  | .call =>
    ((G.node v.node).rets.filter fun r => retOk G v.node (G.node r).index).map (retCand v) ++
      (inCands G v).filter fun c => G.kind c.node != .ret
  | .gread => nd.writes.map fun w => { mk v w with trace := [] }
  | .boundVar => (expandBoundVar G v).cands
  | .freeVar =>
    match v.ctrace with
    | [] => (G.ginfo nd.graph).refClosures.filterMap fun c =>
        ((G.node c).bvs[nd.index]?).map fun bv => { mk v bv with ctrace := [] }
    | _ :: _ => []
  | .closure => nd.bvs.map (mk v)
  | .boundLabel => if cfg.skipBoundLabels then [] else inCands G v
  | .ifn => []

/-- nodes at which the traversal reports whatever the state: `isBaseCase` nodes, and argument nodes
with no predecessor at all (constants passed to calls). -/
def staticLeaf (G : LGraph) (cfg : Cfg) (n : Nat) : Bool :=
  ((G.ginfo (G.graphOf n)).constructed || cfg.onDemand) &&
  (isBase G cfg n ||
    (G.kind n == .arg && (G.node n).ins.isEmpty && !(G.node n).nillable && !(G.node n).bound))

def okKey (k : Key) : Bool := !lasso k.2.1 && !lasso k.2.2.1

/-- the tuple filter of `addNext` concerns return nodes only; outside the call case a candidate
that is a return node (never the case in a real graph) is not counted as guaranteed -/
def notRetUnlessCall (G : LGraph) (v : VNode) (c : Cand) : Bool :=
  G.kind v.node == .call || G.kind c.node != .ret

/-- guaranteed successor keys of a key -/
def gsucc (G : LGraph) (cfg : Cfg) (k : Key) : List Key :=
  (((gcands G cfg (keyV k)).filter (notRetUnlessCall G (keyV k))).map Cand.key).filter okKey

/-- successor keys of the root visitor node (its `Prev` is nil, so everything counts) -/
def rsucc (G : LGraph) (cfg : Cfg) (entry : Nat) : List Key :=
  if !(G.ginfo (G.graphOf entry)).constructed && !cfg.onDemand then []
  else if isBase G cfg entry then []
  else (((expand G cfg [] (rootOf entry)).cands.map Cand.key).filter okKey)

/-- worklist closure of `gsucc` from `rsucc entry` (fuel = number of expansions) -/
def greachLoop (G : LGraph) (cfg : Cfg) : Nat → List Key → List Key → List Key
  | 0, _, acc => acc
  | _ + 1, [], acc => acc
  | fuel + 1, k :: todo, acc =>
    let new := ((gsucc G cfg k).filter fun k' => !acc.contains k').eraseDups
    greachLoop G cfg fuel (new ++ todo) (acc ++ new)

def greach (G : LGraph) (cfg : Cfg) (fuel entry : Nat) : List Key :=
  let r := (rsucc G cfg entry).eraseDups
  greachLoop G cfg fuel r r

/-- graph hypotheses under which the free-variable part of `gsucc` is guaranteed: in/out edges
stay inside one summary, and the tables point at nodes of the right kind. -/
def intraEdges (G : LGraph) : Bool :=
  (List.range G.nodes.size).all fun n =>
    ((G.node n).ins.all fun e => G.graphOf e.1 == G.graphOf n) &&
    ((G.node n).outs.all fun e => G.graphOf e.1 == G.graphOf n)

def wellKinded (G : LGraph) : Bool :=
  (List.range G.nodes.size).all fun n =>
    let nd := G.node n
    nd.args.all (fun a => G.kind a == .arg) &&
    nd.calleeParam.all (fun p => match p with | some p => G.kind p == .param | none => true) &&
    nd.rets.all (fun r => G.kind r == .ret) &&
    nd.bvs.all (fun b => G.kind b == .boundVar) &&
    nd.closFvs.all (fun f => match f with | some f => G.kind f == .freeVar | none => true) &&
    nd.writes.all (fun w => G.kind w == .gwrite)

/-- in-edge index consistency (C17 `inv_index`, F10): every out-edge info `(dst, i)` of a node is
the one recorded in `dst.In()` for that source. -/
def tupleConsistent (G : LGraph) : Bool :=
  (List.range G.nodes.size).all fun n =>
    (G.node n).outs.all fun e => (G.node e.1).ins.contains (n, e.2)

end Argot.BackVisit
