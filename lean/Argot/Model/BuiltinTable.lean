/-
Types and evaluation of the regenerated table T5 (analysis/dataflow/builtins.go), core Lean only.
The data (`Argot.Gen.T5.handled`, `.rows`, `.identifiedByName`, `.identifiedByType`) is written by
`harness/extract T5` on every check run.
-/
import Argot.Model.Intra

namespace Argot.BuiltinTable

/-- an operand of `simpleTransfer` in `doBuiltinCall`. -/
inductive Ref where
  | arg (k : Nat)   -- `callCommon.Args[k]` (directly or through a local variable)
  | allArgs         -- the loop variable of `for _, arg := range callCommon.Args`
  | result          -- `callValue`
  | recv            -- `callCommon.Value` (receiver of the invoke-mode `Error()`)
  deriving DecidableEq, Repr

structure Handled where
  names : List String
  arity : Option Nat          -- `if len(Args) == n { return true }; return false`
  deriving DecidableEq, Repr

structure Row where
  names     : List String
  arity     : Option Nat      -- `if len(callCommon.Args) == n { …transfers…; return true }; return false`
  transfers : List (Ref × Ref)
  deriving DecidableEq, Repr

def guardOK (g : Option Nat) (n : Nat) : Bool := match g with | none => true | some k => k == n

/-- is a call to `name` with `n` arguments declared handled (so that no call node is created)? -/
def handledAt (hs : List Handled) (name : String) (n : Nat) : Bool :=
  hs.any fun h => h.names.contains name && guardOK h.arity n

/-- argument positions transferred to the result by the code for `name` at arity `n`
(the invoke-mode `Error()` is modelled with its receiver as operand 0). -/
def transfersOf (rows : List Row) (name : String) (n : Nat) : List Nat :=
  rows.flatMap fun r =>
    if r.names.contains name && guardOK r.arity n then
      r.transfers.flatMap fun (s, d) =>
        if d = .result then
          match s with
          | .arg k => if k < n then [k] else []
          | .allArgs => List.range n
          | .recv => [0]
          | .result => []
        else []
    else []

/-- at arity `n`, if `name` is declared handled then every operand position the property needs
(`Intra.builtinNeeds`) is transferred to the result. -/
def covers (hs : List Handled) (rows : List Row) (name : String) (n : Nat) : Bool :=
  !handledAt hs name n || (Argot.Intra.builtinNeeds name n).all fun k => (transfersOf rows name n).contains k

/-- the (name, arity) combinations x/tools SSA can produce for the fixed-arity builtins
(`append` is always `append(s, xs...)`; `Error` stands for the invoke-mode `Error()` with its receiver). -/
def fixedCases : List (String × Nat) :=
  [("append", 2), ("copy", 2), ("len", 1), ("cap", 1), ("complex", 2), ("real", 1), ("imag", 1),
   ("ssa:wrapnilchk", 2), ("ssa:wrapnilchk", 1), ("min", 2), ("max", 2), ("Error", 1),
   ("close", 1), ("delete", 2), ("clear", 1), ("recover", 0),
   ("print", 0), ("print", 1), ("print", 2), ("print", 3), ("println", 0), ("println", 1), ("println", 2), ("println", 3)]

/-- sufficient (decidable) condition for `covers … name n` at *every* arity `n`: some row for `name`
without arity guard transfers the whole argument list to the result. -/
def coversAllArities (rows : List Row) (name : String) : Bool :=
  rows.any fun r => r.names.contains name && r.arity.isNone && r.transfers.contains (.allArgs, .result)

/-- the known shape of F3: `min`/`max` transferred only under an exactly-two-operands guard. -/
def pinnedMinMaxDefect (rows : List Row) : Bool :=
  rows.any fun r => r.names.contains "min" && r.names.contains "max" && r.arity == some 2 &&
    r.transfers.contains (.arg 0, .result) && r.transfers.contains (.arg 1, .result)

end Argot.BuiltinTable
