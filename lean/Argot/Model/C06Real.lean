/- C06 on the real taint visitor: the decidable per-run criterion evaluated by `oracle_c01`
   (record `c06run`) and proved sufficient for order independence in `Props/C06Real.lean`.
   Core Lean only (linked into the oracle). -/
import Argot.Model.TaintVisit

namespace Argot.C06Real
open Argot.Closure Argot.TaintVisit

/-- successors are key-determined on everything offered in the run: each offered candidate is
    `equiv` (all fields but `Prev` equal, same `Prev`-dependent flag) to every visited item with its key -/
def keyDetOn (G : LGraph) (src : Nat) (tr : List Nat) (s : State Item Key) : Bool :=
  (offered G src tr s).all fun o => s.visited.all fun w => !decide (key w = key o) || equiv G w o

/-- the per-run criterion the oracle prints (`term`, `ebe`, `keydet` all 1) -/
def flagsOf (G : LGraph) (src : Nat) (tr : List Nat) (s : State Item Key) : Bool :=
  s.queue.isEmpty && entryBeforeExit G src tr s && keyDetOn G src tr s

/-- … evaluated on the model's own run with the given iteration budget -/
def inProvedDomain (G : LGraph) (src : Nat) (tr : List Nat) (fuel : Nat) : Bool :=
  flagsOf G src tr (run G src tr fuel)

end Argot.C06Real
