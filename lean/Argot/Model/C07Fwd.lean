/-
Model of `lang.RunForwardIterative` (analysis/lang/visitors.go), the worklist of the intra-procedural pass,
core Lean only.

Go                                                        Lean
------------------------------------------------------------------------------------------
worklist = append(worklist, function.Blocks[0])           initial worklist [0]
block := worklist[0]; worklist = worklist[1:]             pop at the head
op.NewBlock / Pre / InstrSwitch / Post                    (not modelled: the transfer functions)
if op.ChangedOnEndBlock() {                               next element of `chg` (the successive answers)
  for _, nextBlock := range function.Blocks {             scan `List.range n` in order
    if HasPathTo(block, nextBlock, pathMem) {             `reach block nextBlock`
      if !funcutil.Contains(worklist, nextBlock) {
        worklist = append(worklist, nextBlock) } } } }    addReach
-/
namespace Argot.C07

def addReach (reach : Nat → Nat → Bool) (b : Nat) : List Nat → List Nat → List Nat
  | [], w => w
  | nb :: nbs, w =>
    if reach b nb && !w.contains nb then addReach reach b nbs (w ++ [nb]) else addReach reach b nbs w

/-- (number of blocks processed, did the loop exit by itself). -/
def fwdRun (n : Nat) (reach : Nat → Nat → Bool) : Nat → List Bool → List Nat → Nat → Nat × Bool
  | 0, _, _, c => (c, false)
  | _ + 1, _, [], c => (c, true)
  | fuel + 1, chg, b :: w, c =>
    match chg with
    | true :: rest => fwdRun n reach fuel rest (addReach reach b (List.range n) w) (c + 1)
    | false :: rest => fwdRun n reach fuel rest w (c + 1)
    | [] => fwdRun n reach fuel [] w (c + 1)

end Argot.C07
