/-
Model of `lang.HasPathTo` (analysis/lang/blocks.go) as it is called by `lang.RunForwardIterative`
(analysis/lang/visitors.go: `pathMem` is never allocated, so `mem == nil`), core Lean only.

Two models: `stepFix` / `hasPathFix` is the code since commit 2099ce8 ("fix: lang.HasPathTo marks blocks when
enqueued", finding F7); `stepOld` / `hasPathOld` is the code before it, kept with its theorems as the witness of
the defect. Table T11 (regenerated) says which one the working tree contains.

Go (before 2099ce8)                             Lean
---------------------------------------------------------------------------------------
vis := map[*ssa.BasicBlock]bool{}               vis : List Nat         (block indices)
que := []*ssa.BasicBlock{b1}                    que : List Nat         (FIFO, head = que[0])
for len(que) > 0 {                              one call of `stepOld` per loop iteration
  cur := que[0]
  if cur == b2 { return true }                  .found
  vis[cur] = true                               cur :: vis             (marked when DEQUEUED)
  que = que[1:]
  for _, nb := range cur.Succs {
    if !vis[nb] { que = append(que, nb) } } }   rest ++ succs.filter (· ∉ cur :: vis)
return false                                    .exhausted

`stepFix` (the code now): `vis := {b1: true}` and `if !vis[nb] { vis[nb] = true; que = append(que, nb) }` — a block
is marked when it is ENQUEUED, so it enters the queue at most once.

A CFG is the list of successor lists, indexed by block index.
-/
namespace Argot.C07

abbrev Cfg := List (List Nat)

def succs (g : Cfg) (b : Nat) : List Nat := g.getD b []

/-- successors are block indices -/
def wf (g : Cfg) : Bool := g.all (fun ss => ss.all (· < g.length))

/-- largest out-degree -/
def maxDeg (g : Cfg) : Nat := g.foldr (fun ss m => max ss.length m) 0

structure PState where
  que : List Nat
  vis : List Nat
  deriving Repr, DecidableEq

inductive Outcome where
  | found      -- `return true`
  | exhausted  -- queue empty, `return false`
  | cont (s : PState)
  deriving Repr, DecidableEq

/-- one iteration of the loop of `HasPathTo` before the repair (mem = nil). -/
def stepOld (g : Cfg) (tgt : Nat) (s : PState) : Outcome :=
  match s.que with
  | [] => .exhausted
  | cur :: rest =>
    if cur = tgt then .found
    else .cont { que := rest ++ (succs g cur).filter (fun nb => !(cur :: s.vis).contains nb),
                 vis := cur :: s.vis }

/-- enqueue-and-mark loop of the repaired code: `if !vis[nb] { vis[nb] = true; que = append(que, nb) }` -/
def enqueueNew : List Nat → PState → PState
  | [], s => s
  | nb :: nbs, s =>
    if s.vis.contains nb then enqueueNew nbs s
    else enqueueNew nbs { que := s.que ++ [nb], vis := nb :: s.vis }

/-- one iteration of the loop of the current code (mark on enqueue). -/
def stepFix (g : Cfg) (tgt : Nat) (s : PState) : Outcome :=
  match s.que with
  | [] => .exhausted
  | cur :: rest =>
    if cur = tgt then .found
    else .cont (enqueueNew (succs g cur) { que := rest, vis := s.vis })

structure PResult where
  answer : Bool
  steps  : Nat      -- number of loop iterations started (dequeue attempts that found the queue non-empty)
  done   : Bool     -- the loop exited by itself within the fuel
  deriving Repr, DecidableEq

/-- run a step function with fuel, counting iterations that looked at a queue head. -/
def runWith (step : PState → Outcome) : Nat → PState → Nat → PResult
  | 0, _, n => { answer := false, steps := n, done := false }
  | fuel + 1, s, n =>
    match step s with
    | .found => { answer := true, steps := n + 1, done := true }
    | .exhausted => { answer := false, steps := n, done := true }
    | .cont s' => runWith step fuel s' (n + 1)

def initOld (src : Nat) : PState := { que := [src], vis := [] }
def initFix (src : Nat) : PState := { que := [src], vis := [src] }

/-- `HasPathTo(b1, b2, nil)` before commit 2099ce8. -/
def hasPathOld (g : Cfg) (src tgt fuel : Nat) : PResult := runWith (stepOld g tgt) fuel (initOld src) 0

/-- `HasPathTo(b1, b2, nil)` of the current code (after the repair). -/
def hasPathFix (g : Cfg) (src tgt fuel : Nat) : PResult := runWith (stepFix g tgt) fuel (initFix src) 0

/-- geometric sum 1 + d + … + d^u : the step bound of the old code (`u` = number of blocks). -/
def geo (d : Nat) : Nat → Nat
  | 0 => 1
  | u + 1 => 1 + d * geo d u

/-- chain of `n` diamonds with the block numbering x/tools gives `n` sequential `if/else` statements:
block 0 is the first `if`; for diamond `i` (0-based) block `3i+1` is the `then` arm, `3i+3` the `else`
arm and `3i+2` the join (`if.done`), which holds the next `if` (successors `3i+4`, `3i+6`) or, for the
last diamond, the `return`.  `3n+1` blocks.  (The driver compares this with the real SSA on every run.) -/
def diaTail (i : Nat) : Nat → Cfg
  | 0 => []
  | k + 1 => [3 * i + 2] :: (if k = 0 then [] else [3 * i + 4, 3 * i + 6]) :: [3 * i + 2] :: diaTail (i + 1) k

def diamonds (n : Nat) : Cfg := if n = 0 then [[]] else [1, 3] :: diaTail 0 n

end Argot.C07
