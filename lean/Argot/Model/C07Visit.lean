/-
Models of the trace structures and worklists the inter-procedural traversals terminate by, core Lean only.

analysis/dataflow/trace.go
  NodeTree[T] (a path root … node)        Trace = List Label, HEAD = the current node (`n.Label`), tail = parents
  n.Add(x)                                x :: t
  n.Parent                                t.tail   (any ancestor: a suffix of the list)
  n.GetLassoHandle() != nil               lasso t      (label of the current node occurs among its ancestors)
  n.Key()                                 the list itself

analysis/taint/dataflow_visitor.go `addNext`, analysis/backtrace/backtrace.go `addNext`
  v.seen / seen map                       WL.seen
  que = append(que, next) / stack         WL.queue (pop at the head; `lifo` chooses where pushes go)
  stop conditions: seen[key] || depth;    `accept`: not seen ∧ extra ∧ ¬ lasso trace ∧ ¬ lasso closureTrace
  lasso on Trace or ClosureTrace

analysis/dataflow/callctx.go `GetAllCallingContexts`
  reversedCallStack                       Trace (HEAD = the outermost call found so far)
  queInserted[key]                        WL.seen
  isRecursive(elt, callNode)              callNode ∈ elt
  hasReachedContextLimit(elt, limit)      limit > 0 ∧ elt.length ≥ limit
-/
namespace Argot.C07

/-! ### traces -/

abbrev Trace (β : Type) := List β

/-- `GetLassoHandle() != nil` -/
def lasso {β} [DecidableEq β] : Trace β → Bool
  | [] => false
  | x :: rest => rest.contains x

/-- the handle itself: the ancestors from the nearest earlier occurrence of the current label (root side). -/
def lassoHandle {β} [DecidableEq β] : Trace β → Option (Trace β)
  | [] => none
  | x :: rest => if rest.contains x then some (rest.dropWhile (· ≠ x)) else none

/-- `t'` is `t` or one of its ancestors (`t.Parent`, `UnwindCallStackToFunc(t, f)`, `nil`). -/
def isAncestor {β} [DecidableEq β] (t' : Trace β) : Trace β → Bool
  | [] => t' == []
  | x :: r => t' == x :: r || isAncestor t' r

/-- how the visitors derive the next trace from the current one: the trace itself or an ancestor of it
(unchanged, `.Parent`, `UnwindCallStackToFunc`, `nil`), or `.Add(x)` (table T12 lists every expression used). -/
def traceStep {β} [DecidableEq β] (t t' : Trace β) : Bool :=
  isAncestor t' t || (match t' with | [] => false | _ :: r => r == t)

/-! ### generic worklist with a `seen` set (both visitors, `GetAllCallingContexts`) -/

structure WL (ε κ : Type) where
  queue : List ε
  seen  : List κ

/-- the body of `addNext` for each candidate successor of the popped element `cur`, in order. -/
def pushAll {ε κ} [DecidableEq κ] (key : ε → κ) (accept : ε → ε → Bool) (lifo : Bool) (cur : ε) :
    List ε → WL ε κ → WL ε κ
  | [], s => s
  | e :: es, s =>
    if !s.seen.contains (key e) && accept cur e then
      pushAll key accept lifo cur es
        { queue := if lifo then e :: s.queue else s.queue ++ [e], seen := key e :: s.seen }
    else pushAll key accept lifo cur es s

structure WLResult (ε κ : Type) where
  final : WL ε κ
  pops  : Nat
  done  : Bool

/-- the loop `for len(que) != 0 { cur := pop; for each successor: addNext }`. -/
def wlRun {ε κ} [DecidableEq κ] (key : ε → κ) (succ : ε → List ε) (accept : ε → ε → Bool) (lifo : Bool) :
    Nat → WL ε κ → Nat → WLResult ε κ
  | 0, s, n => { final := s, pops := n, done := false }
  | fuel + 1, s, n =>
    match s.queue with
    | [] => { final := s, pops := n, done := true }
    | cur :: rest =>
      wlRun key succ accept lifo fuel
        (pushAll key accept lifo cur (succ cur) { queue := rest, seen := s.seen }) (n + 1)

/-! ### the visitors' elements -/

/-- what `VisitorNode.Key()` is made of: graph node, call trace, closure trace, (status kind, access paths). -/
structure VKey (ν β χ : Type) where
  node   : ν
  trace  : Trace β
  ctrace : Trace β
  extra  : χ
  deriving DecidableEq

/-- the second set of stop conditions of `addNext` (escape analysis off): neither trace is a lasso. -/
def vAccept {ν β χ} [DecidableEq β] (extraOk : VKey ν β χ → Bool) (_cur next : VKey ν β χ) : Bool :=
  extraOk next && !lasso next.trace && !lasso next.ctrace

/-! ### GetAllCallingContexts -/

/-- successors of a reversed stack: push every call site of the function containing the outermost call,
unless it already occurs in the stack (`isRecursive`); entry points and stacks at the limit are results. -/
def ctxSucc {β} [DecidableEq β] (callers : β → List β) (isEntry : β → Bool) (limit : Nat) (elt : Trace β) :
    List (Trace β) :=
  match elt with
  | [] => []
  | top :: _ =>
    if isEntry top then []
    else if limit > 0 && elt.length ≥ limit then []
    else ((callers top).filter (fun c => !elt.contains c)).map (· :: elt)

def ctxRun {β} [DecidableEq β] (callers : β → List β) (isEntry : β → Bool) (limit : Nat) (n : β) (fuel : Nat) :
    WLResult (Trace β) (Trace β) :=
  wlRun id (ctxSucc callers isEntry limit) (fun _ _ => true) false fuel { queue := [[n]], seen := [[n]] } 0

/-- number of repetition-free lists over `n` labels: a(0) = 1, a(n+1) = 1 + (n+1)·a(n). -/
def numNodup : Nat → Nat
  | 0 => 1
  | n + 1 => 1 + (n + 1) * numNodup n

end Argot.C07
