/-
C12 — executable models of the call-graph clients in analysis/dataflow (core Lean only).

Go                                              Lean
----------------------------------------------------------------------------------------
dataflow.CallGraphReachable(cg, false, false)   Cg.reach edges roots   (worklist of Base/Closure.lean)
  findCallgraphEntryPoints                        roots (main / init of package main: dumped)
AnalyzerState.ResolveCallee(instr, false)       Cg.resolveCallee static cgCallees byType
  callee := StaticCallee()                        static : Option Nat
  edges of CallGraph.Nodes[parent] at the site    cgCallees
  ImplementationsByType[method key]               byType
-/
import Argot.Base.Closure
import Argot.Model.Ptr

namespace Argot.Cg
open Argot

/-- callees of `f` (any site) -/
def succs (edges : List (Nat × Nat)) (f : Nat) : List Nat :=
  (edges.filter fun e => e.1 == f).map fun e => e.2

def nodes (edges : List (Nat × Nat)) (roots : List Nat) : List Nat := roots ++ edges.map fun e => e.2

/-- `CallGraphReachable`: functions popped by the worklist started at the entry points -/
def reach (edges : List (Nat × Nat)) (roots : List Nat) : List Nat :=
  (Closure.run id (succs edges) (roots.length + (nodes edges roots).length) roots).visited

/-- `ResolveCallee` without contracts: static callee, else the call-graph callees at the site if
there are any, else every implementation of the method key -/
def resolveCallee (static : Option Nat) (cgCallees byType : List Nat) : List Nat :=
  match static with
  | some g => [g]
  | none => if cgCallees.isEmpty then byType else cgCallees

def staticOf : Ptr.Callee → Option Nat
  | .static g => some g
  | _ => none

end Argot.Cg
