/-
Model of `analysis/config/code_identifier.go`: the code identifier record, the compilation of its
fields into regular expressions (`compileRegexes`, via a parser for the RE2 subset of Base/Regex) and
the match `equalOnNonEmptyFields` — the conjunction the Go code really computes (table T10 checks
that the (regex, tested field, emptiness field) triples below are the ones in the source).
Core Lean only.
-/
import Argot.Base.Regex

namespace Argot.CodeId
open Argot.Regex

/-! ### parsing the pattern syntax (RE2 subset; everything else is reported as `unsupported`) -/

inductive PErr where
  | invalid       -- `regexp.Compile` returns an error
  | unsupported   -- outside the modelled subset (the generators never emit it)
  deriving DecidableEq, Repr

abbrev PR := Except PErr

def isRepOp (c : Char) : Bool := c == '*' || c == '+' || c == '?'

def isAlnum (c : Char) : Bool :=
  ('0' ≤ c && c ≤ '9') || ('a' ≤ c && c ≤ 'z') || ('A' ≤ c && c ≤ 'Z')

def digitR : List (Char × Char) := [('0', '9')]
def wordR : List (Char × Char) := [('0', '9'), ('A', 'Z'), ('_', '_'), ('a', 'z')]
def spaceR : List (Char × Char) := [('\t', '\n'), ('\x0c', '\r'), (' ', ' ')]

/-- escape after a backslash, outside a class: the expression and the rest -/
def pEscape : List Char → PR (RE × List Char)
  | [] => .error .invalid                    -- trailing backslash
  | c :: t =>
    if c.toNat < 128 && !isAlnum c then .ok (.chr c, t)
    else match c with
      | 'd' => .ok (.cls false digitR, t)
      | 'D' => .ok (.cls true digitR, t)
      | 'w' => .ok (.cls false wordR, t)
      | 'W' => .ok (.cls true wordR, t)
      | 's' => .ok (.cls false spaceR, t)
      | 'S' => .ok (.cls true spaceR, t)
      | 'A' => .ok (.bol, t)
      | 'z' => .ok (.eol, t)
      | 't' => .ok (.chr '\t', t)
      | 'n' => .ok (.chr '\n', t)
      | 'r' => .ok (.chr '\r', t)
      | _ => .error .unsupported

/-- one class character (possibly escaped): the ranges it denotes when it is a perl class, or the char -/
def pClassChar : List Char → PR ((Option (List (Char × Char)) × Char) × List Char)
  | [] => .error .invalid                    -- missing closing ]
  | '\\' :: [] => .error .invalid
  | '\\' :: c :: t =>
    if c.toNat < 128 && !isAlnum c then .ok ((none, c), t)
    else match c with
      | 'd' => .ok ((some digitR, 'd'), t)
      | 'w' => .ok ((some wordR, 'w'), t)
      | 's' => .ok ((some spaceR, 's'), t)
      | 't' => .ok ((none, '\t'), t)
      | 'n' => .ok ((none, '\n'), t)
      | 'r' => .ok ((none, '\r'), t)
      | _ => .error .unsupported
  | c :: t => .ok ((none, c), t)

/-- class body after `[` and the optional `^` (first = no item read yet) -/
def pClassItems : Nat → List Char → Bool → List (Char × Char) → PR (List (Char × Char) × List Char)
  | 0, _, _, _ => .error .unsupported
  | _ + 1, [], _, _ => .error .invalid
  | n + 1, c :: t, first, acc =>
    if c == ']' && !first then .ok (acc.reverse, t)
    else if c == '[' && t.head? == some ':' then .error .unsupported
    else do
      let ((cl, lo), t1) ← pClassChar (c :: t)
      match cl with
      | some rs => pClassItems n t1 false (rs.reverse ++ acc)
      | none =>
        match t1 with
        | '-' :: d :: t2 =>
          if d == ']' then pClassItems n t1 false ((lo, lo) :: acc)
          else do
            let ((cl2, hi), t3) ← pClassChar (d :: t2)
            match cl2 with
            | some _ => .error .unsupported
            | none => if hi < lo then .error .invalid else pClassItems n t3 false ((lo, hi) :: acc)
        | _ => pClassItems n t1 false ((lo, lo) :: acc)

def applyRep (op : Char) (a : RE) : RE :=
  if op == '*' then .star a else if op == '+' then .cat a (.star a) else .alt a .eps

mutual
/-- alternation, up to `)` or the end -/
def pAlt : Nat → List Char → PR (RE × List Char)
  | 0, _ => .error .unsupported
  | n + 1, s => do
    let (a, rest) ← pCat n s .eps
    match rest with
    | '|' :: rest' => do
      let (b, rest'') ← pAlt n rest'
      .ok (.alt a b, rest'')
    | _ => .ok (a, rest)

/-- concatenation of repeated atoms -/
def pCat : Nat → List Char → RE → PR (RE × List Char)
  | 0, _, _ => .error .unsupported
  | _ + 1, [], acc => .ok (acc, [])
  | n + 1, c :: t, acc =>
    if c == '|' || c == ')' then .ok (acc, c :: t)
    else do
      let (a, rest) ← pAtom n (c :: t)
      -- repetition operator, optional laziness mark, no stacked operator
      let (a', rest') ← (match rest with
        | op :: r1 =>
          if isRepOp op then
            let r2 := match r1 with | '?' :: r => r | _ => r1
            match r2 with
            | x :: _ => if isRepOp x then .error .invalid
                        else if x == '{' then .error .unsupported else .ok (applyRep op a, r2)
            | [] => .ok (applyRep op a, r2)
          else if op == '{' then .error .unsupported
          else .ok (a, rest)
        | [] => .ok (a, rest) : PR (RE × List Char))
      pCat n rest' (if acc = .eps then a' else .cat acc a')

def pAtom : Nat → List Char → PR (RE × List Char)
  | 0, _ => .error .unsupported
  | _ + 1, [] => .error .invalid
  | n + 1, c :: t =>
    match c with
    | '(' =>
      (match t with
        | '?' :: ':' :: t' => do
          let (a, rest) ← pAlt n t'
          match rest with
          | ')' :: rest' => .ok (a, rest')
          | _ => .error .invalid
        | '?' :: _ => .error .unsupported
        | _ => do
          let (a, rest) ← pAlt n t
          match rest with
          | ')' :: rest' => .ok (a, rest')
          | _ => .error .invalid)
    | '[' =>
      (match t with
        | '^' :: t' => do
          let (rs, rest) ← pClassItems n t' true []
          .ok (.cls true rs, rest)
        | _ => do
          let (rs, rest) ← pClassItems n t true []
          .ok (.cls false rs, rest))
    | '.' => .ok (.any, t)
    | '^' => .ok (.bol, t)
    | '$' => .ok (.eol, t)
    | '\\' => pEscape t
    | '*' | '+' | '?' => .error .invalid      -- missing argument to repetition operator
    | '{' => .error .unsupported
    | _ => .ok (.chr c, t)
end

/-- `regexp.Compile` on the subset: the expression, `invalid` (Go returns an error) or `unsupported`. -/
def parse (p : List Char) : PR RE :=
  match pAlt (4 * p.length + 8) p with
  | .ok (a, []) => .ok a
  | .ok (_, _ :: _) => .error .invalid         -- unexpected `)`
  | .error e => .error e

/-! ### the identifier record -/

structure CodeId where
  ctx : String := ""
  pkg : String := ""
  iface : String := ""
  meth : String := ""
  recv : String := ""
  fld : String := ""
  typ : String := ""
  label : String := ""
  kind : String := ""
  vmatch : String := ""
  deriving DecidableEq, Repr, Inhabited

inductive Fld where
  | context | package | interface | method | receiver | field | type | label | kind | valueMatch
  deriving DecidableEq, Repr

def CodeId.get (c : CodeId) : Fld → String
  | .context => c.ctx | .package => c.pkg | .interface => c.iface | .method => c.meth
  | .receiver => c.recv | .field => c.fld | .type => c.typ | .label => c.label
  | .kind => c.kind | .valueMatch => c.vmatch

def Fld.name : Fld → String
  | .context => "Context" | .package => "Package" | .interface => "Interface" | .method => "Method"
  | .receiver => "Receiver" | .field => "Field" | .type => "Type" | .label => "Label"
  | .kind => "Kind" | .valueMatch => "ValueMatch"

/-- The conjuncts of `equalOnNonEmptyFields`, in source order:
(field of the specification whose compiled regex is used, field of the identifier it is run on,
field of the specification whose emptiness disables the conjunct).
Note the third line: the *package* regex is run on the identifier's `Interface`. -/
def conjTable : List (Fld × Fld × Fld) :=
  [ (.context, .context, .context),
    (.package, .package, .package),
    (.package, .interface, .interface),
    (.method, .method, .method),
    (.receiver, .receiver, .receiver),
    (.field, .field, .field),
    (.type, .type, .type),
    (.valueMatch, .valueMatch, .valueMatch) ]

/-- The fields compiled by `compileRegexes`, in source order (all eight are compiled whether or
not they are used). -/
def compiledFields : List Fld :=
  [.context, .package, .interface, .type, .method, .field, .receiver, .valueMatch]

/-- Outcome of running the Go code (`panic` is kept for the behaviour before the repair of F13: no model function
produces it any more). -/
inductive Outcome where
  | val (b : Bool)
  | panic
  | unsupported
  deriving DecidableEq, Repr

/-- one conjunct `(matchRegex(regex, cid.f)) || (spec.e == "")`.  A pattern that failed to compile left a nil
regex; `matchRegex` (repair of finding F13, commit e35b228) makes it match nothing — before the repair the first
use dereferenced the nil regex and panicked.  `res` gives the compiled regex of every field (`compileRegexes`). -/
def conjunctR (res : Fld → PR RE) (spec cid : CodeId) (t : Fld × Fld × Fld) : Outcome :=
  match res t.1 with
  | .ok re => .val (search re (cid.get t.2.1).toList || (spec.get t.2.2 == ""))
  | .error .invalid => .val (spec.get t.2.2 == "")
  | .error .unsupported => .unsupported

/-- left-to-right `&&` with short-circuit -/
def evalConjR (res : Fld → PR RE) (spec cid : CodeId) : List (Fld × Fld × Fld) → Outcome
  | [] => .val (spec.kind == cid.kind)
  | t :: ts =>
    match conjunctR res spec cid t with
    | .val true => evalConjR res spec cid ts
    | o => o

/-- `compileRegexes`: every field is compiled from its own text -/
def compile (spec : CodeId) : Fld → PR RE := fun f => parse (spec.get f).toList

def conjunct (spec cid : CodeId) (t : Fld × Fld × Fld) : Outcome := conjunctR (compile spec) spec cid t

def evalConj (spec cid : CodeId) (ts : List (Fld × Fld × Fld)) : Outcome := evalConjR (compile spec) spec cid ts

/-- `cid.equalOnNonEmptyFields(spec)` for a specification loaded by `config.Load` -/
def matchesO (spec cid : CodeId) : Outcome := evalConj spec cid conjTable

/-- boolean view (no panic, inside the subset) -/
def matchB (spec cid : CodeId) : Bool := matchesO spec cid == .val true

/-- `ExistsCid(specs, cid.equalOnNonEmptyFields)`: first specification that matches or panics -/
def existsO (specs : List CodeId) (cid : CodeId) : Outcome :=
  match specs with
  | [] => .val false
  | s :: ss =>
    match matchesO s cid with
    | .val false => existsO ss cid
    | o => o

/-- every pattern of the specification compiles (and is inside the subset) -/
def specOk (spec : CodeId) : Bool :=
  compiledFields.all fun f => match parse (spec.get f).toList with | .ok _ => true | .error _ => false

end Argot.CodeId
