/-
Model of user dataflow specifications (contracts), core Lean only.

Part A — which summary a call node is linked to.
Go                                                               Lean
-----------------------------------------------------------------------------------------------------
dataflow.Contract, (Contract).Key                                Contract, Contract.key
AnalyzerState.DataFlowContracts : map[string]*SummaryGraph       Env.contracts : key ↦ absent | nil | graph
AnalyzerState.keys (implementation ↦ interface-method key)       Env.keys
(*AnalyzerState).ResolveCallee                                   resolveCallee
(*AnalyzerState).LoadExternalContractSummary                     loadExternal
BuildGraph STEP 2 (contracts) then STEP 3 (resolveCalleeSummary) linkCallee
(*AnalyzerState).HasExternalContractSummary / ShouldBuildSummary hasExternalContract / shouldBuildSummary

Part B — the taint visitor (analysis/taint/dataflow_visitor.go, Visit/addNext) on the linked graph of a
one-call program   a_i := source(); r… := f(a…); sink(r_j) …; sink(a_k) …   where f's summary is the
graph built from a contract by `Summ.apply`:   `visitOneCall`.
-/
import Argot.Model.Summ

namespace Argot.Contract
open Argot.Summ Argot.SGraph

/-! ## Part A -/

structure Contract where
  interfaceID : String
  objectPath  : String
  methods     : List (String × Summary)
  deriving Repr

def Contract.key (c : Contract) (method : String) : String :=
  if c.interfaceID ≠ "" then c.interfaceID ++ "." ++ method
  else if c.objectPath ≠ "" then c.objectPath ++ "." ++ method
  else method

/-- `LoadDefinitions` accepts a file only if every contract has exactly one of the two identifiers. -/
def Contract.wellFormed (c : Contract) : Bool :=
  (c.interfaceID ≠ "" || c.objectPath ≠ "") && !(c.interfaceID ≠ "" && c.objectPath ≠ "")

/-- a summary graph created for a contract: the function it was created on and the specification it was
populated from (`PopulateGraphFromSummary(spec, isInterface)`). -/
structure CGraph where
  parent      : String
  spec        : Summary
  isInterface : Bool
  deriving Repr, DecidableEq

inductive CalleeType where
  | static | callGraph | interfaceContract | interfaceMethod
  deriving Repr, DecidableEq

/-- what the linking step sees of a call instruction. -/
structure Call where
  static    : Option String   -- StaticCallee().String()
  invoke    : Bool            -- Common().IsInvoke()
  methodKey : String          -- receiver interface type ++ "." ++ method name ("" when not a method call)
  cg        : List String     -- callees of the pointer-analysis call graph at this site
  deriving Repr

structure Env (B : Type) where
  contracts : String → Option (Option CGraph)  -- DataFlowContracts[key]: absent / nil / graph
  keys      : String → Option String            -- implementation name ↦ interface-method key
  impls     : String → List String              -- ImplementationsByType
  built     : String → Option B                 -- FlowGraph.Summaries (summaries computed from bodies)
  predef    : String → Option Summary           -- summaries.SummaryOfFunc

/-- `ResolveCallee(instr, useContracts)`. -/
def resolveCallee {B} (env : Env B) (c : Call) (useContracts : Bool) : List (String × CalleeType) :=
  match c.static with
  | some f => [(f, .static)]
  | none =>
    match (if useContracts then env.contracts c.methodKey else none) with
    | some (some g) => [(g.parent, .interfaceContract)]
    | _ =>
      if c.cg ≠ [] then c.cg.map (·, .callGraph)
      else (env.impls c.methodKey).map (·, .interfaceMethod)

/-- `LoadExternalContractSummary(node)`: interface contracts first, then function contracts.
`some none` = the map has the key with a nil graph (returned as is by the Go code). -/
def loadExternal {B} (env : Env B) (c : Call) (callee : String × CalleeType) : Option CGraph :=
  match (if c.invoke && callee.2 = .interfaceContract then env.contracts c.methodKey else none) with
  | some r => r
  | none =>
    match env.contracts callee.1 with
    | some r => r
    | none => none

/-- the summary a call node ends up linked to. -/
inductive Linked (B : Type) where
  | contract (g : CGraph)
  | body (b : B)
  | predefined (s : Summary)
  | none
  deriving Repr

/-- BuildGraph: STEP 2 links the contract when there is one; only otherwise STEP 3 looks at the summaries
computed from bodies (never for an `InterfaceContract` callee) and at the predefined table. -/
def linkCallee {B} (env : Env B) (c : Call) (callee : String × CalleeType) : Linked B :=
  match loadExternal env c callee with
  | some g => .contract g
  | none =>
    match (if callee.2 ≠ .interfaceContract then env.built callee.1 else none) with
    | some b => .body b
    | none =>
      match env.predef callee.1 with
      | some s => .predefined s
      | none => .none

def hasExternalContract {B} (env : Env B) (f : String) : Bool :=
  match env.keys f with
  | some k => match env.contracts k with | some (some _) => true | _ => false
  | none => (env.contracts f).isSome

/-- `ShouldBuildSummary` in the default configuration (eager, no package filter, function not in
`requiredSummaries`, package without predefined summaries). -/
def shouldBuildSummary {B} (env : Env B) (f : String) : Bool := !hasExternalContract env f

/-! ## Part B: the visitor on a one-call program -/

/-- nodes of the linked graph: in the caller — the source call node, the argument nodes of the call to
`f`, the call node of `f` (only as the intermediate of a return), the sink arguments; in the callee —
parameter and return nodes of the contract graph. -/
inductive VN where
  | src
  | carg (k : Nat)
  | cparam (k : Nat)
  | cret (j : Nat)
  | sinkR (j : Nat)
  | sinkA (k : Nat)
  deriving Repr, DecidableEq, Inhabited

/-- where the previous visitor node lives (all the `switch` in `Visit` looks at). -/
inductive PrevK where
  | none | caller | callerArg | callee
  deriving Repr, DecidableEq, Inhabited

structure VS where
  node    : VN
  inCall  : Bool     -- call stack = [call to f] (true) or empty (false)
  prev    : PrevK
  deriving Repr, DecidableEq, Inhabited

/-- `VisitorNode.Key()`: node and call stack (status and access paths are constant here). -/
def VS.key (s : VS) : VN × Bool := (s.node, s.inCall)

/-- the program family. `i`: tainted argument; `ptr k`: the intra-procedural pass of the caller draws
an edge from the call-site argument `k` to its later use (pointer-like arguments); `resIdx j`: the tuple
index it puts on the edge from the call node to the use of result `j` (both read off the real caller
graph by the driver). -/
structure OneCall where
  sg     : Sig
  spec   : Summary
  i      : Nat
  ptr    : Nat → Bool
  resIdx : Nat → Int   -- tuple index on the caller's edge  call node → use of result j

def OneCall.callee (p : OneCall) : Edges PNode := (apply p.sg true p.spec).g

def isSinkNode : VN → Bool
  | .sinkR _ | .sinkA _ => true
  | _ => false

/-- successors considered by `Visit` for the current visitor node (before the `seen` filter of `addNext`). -/
def succ (p : OneCall) (s : VS) : List VS :=
  match s.node with
  | .src => [⟨.carg p.i, false, .caller⟩]
  | .carg k =>
    -- "Flow to next call": the callee's parameter, with the call pushed on the stack
    (if k < p.sg.nParams then [⟨.cparam k, true, .callerArg⟩] else []) ++
    -- the caller's own out edges only when we come back from the callee
    (if s.prev = .none || s.prev = .callee then (if p.ptr k && k ≠ p.i then [⟨.sinkA k, false, .callerArg⟩] else []) else [])
  | .cparam k =>
    -- out edges inside the callee only when entered from outside (or from the matching call argument)
    (if s.prev = .caller || s.prev = .callerArg then
      (p.callee.out.filter (fun e => e.1 = PNode.param k)).map fun e =>
        match e.2.1 with
        | .param k' => (⟨.cparam k', s.inCall, .callee⟩ : VS)
        | .ret j => ⟨.cret j, s.inCall, .callee⟩
     else []) ++
    -- back to the argument at the call site on the stack
    (if s.inCall then [⟨.carg k, false, .callee⟩] else [])
  | .cret j =>
    if s.inCall then
      ((List.range p.sg.nResults).filter fun j' => !(decide ((j : Int) ≥ 0) && decide (p.resIdx j' ≥ 0) && decide ((j : Int) ≠ p.resIdx j'))).map
        fun j' => ⟨.sinkR j', false, .caller⟩
    else []
  | .sinkR _ => []
  | .sinkA _ => []

/-- `addNext` for a list of candidate successors: append those whose key has not been seen. -/
def enqueueAll : List VS → List (VN × Bool) → List VS × List (VN × Bool)
  | [], seen => ([], seen)
  | y :: ys, seen =>
    if y.key ∈ seen then enqueueAll ys seen
    else let r := enqueueAll ys (seen ++ [y.key]); (y :: r.1, r.2)

structure Run where
  visited   : List VS := []
  converged : Bool := false
  deriving Repr

/-- the FIFO loop of `Visit`. Sinks are recorded and not expanded. -/
def bfs (p : OneCall) : Nat → List VS → List (VN × Bool) → List VS → Run
  | 0, q, _, acc => { visited := acc, converged := q.isEmpty }
  | _ + 1, [], _, acc => { visited := acc, converged := true }
  | f + 1, x :: q, seen, acc =>
    if isSinkNode x.node then bfs p f q seen (acc ++ [x])
    else
      let r := enqueueAll (succ p x) seen
      bfs p f (q ++ r.1) r.2 (acc ++ [x])

def visitOneCall (p : OneCall) (fuel : Nat) : Run := bfs p fuel [⟨.src, false, .none⟩] [] []

/-- sink slots reached: `inl j` = `sink(r_j)`, `inr k` = `sink(a_k)`. -/
def VS.slot (s : VS) : Option (Nat ⊕ Nat) :=
  match s.node with
  | .sinkR j => some (.inl j)
  | .sinkA k => some (.inr k)
  | _ => none

def Run.reported (r : Run) : List (Nat ⊕ Nat) := r.visited.filterMap VS.slot

def defaultFuel (p : OneCall) : Nat := 4 * p.sg.nParams + 2 * p.sg.nResults + 8

end Argot.Contract
