/-
Model of analysis/defers/defer.go (AnalyzeFunction and its helpers), core Lean only.

Go                               Lean
--------------------------------------------------------------
InstrIndices{Block,Ins}          Site = Nat × Nat
Stack, StackSet                  Stack, StackSet (lists)
stackCompare                     stackCompare (Ordering)
stackSetUnion                    stackSetUnion
dataflowTransfer                 transfer
AnalyzeFunction                  analyze (fuel = max number of outer iterations)

A CFG is the list of blocks in index order; each block is the list of its
instruction kinds (only Defer / RunDefers / other matter) and the indices of its successors.
-/
namespace Argot.Defers

abbrev Site := Nat × Nat
abbrev Stack := List Site
abbrev StackSet := List Stack

inductive IK where
  | defer | runDefers | other
  deriving DecidableEq, Repr, Inhabited

structure Block where
  instrs : List IK
  succs  : List Nat
  deriving Repr, Inhabited

abbrev Cfg := List Block

def siteCompare (a b : Site) : Ordering :=
  if a.1 < b.1 then .lt else if a.1 > b.1 then .gt
  else if a.2 < b.2 then .lt else if a.2 > b.2 then .gt else .eq

/-- `stackCompare`: lexicographic on sites over the common prefix, then by length. -/
def stackCompare : Stack → Stack → Ordering
  | [], [] => .eq
  | [], _ :: _ => .lt
  | _ :: _, [] => .gt
  | a :: as, b :: bs =>
    match siteCompare a b with
    | .lt => .lt
    | .gt => .gt
    | .eq => stackCompare as bs

/-- `stackSetUnion`: the sorted merge; second component is `sameAsA`. -/
def stackSetUnion : StackSet → StackSet → StackSet × Bool
  | [], [] => ([], true)
  | a :: as, [] => (a :: as, true)
  | [], b :: bs => (b :: bs, false)
  | a :: as, b :: bs =>
    match stackCompare a b with
    | .lt => let r := stackSetUnion as (b :: bs); (a :: r.1, r.2)
    | .gt => let r := stackSetUnion (a :: as) bs; (b :: r.1, false)
    | .eq => let r := stackSetUnion as bs; (a :: r.1, r.2)
termination_by a b => a.length + b.length

/-- insertion into a sorted, duplicate-free list (the net effect of `sort.Slice` followed by the
adjacent-duplicate removal of `dataflowTransfer`, because `stackCompare a b = .eq ↔ a = b`). -/
def insertStack (s : Stack) : StackSet → StackSet
  | [] => [s]
  | t :: ts =>
    match stackCompare s t with
    | .lt => s :: t :: ts
    | .eq => t :: ts
    | .gt => t :: insertStack s ts

def sortDedup (l : StackSet) : StackSet := l.foldr insertStack []

/-- push unless the site is already on the stack (what the analysis does). -/
def pushUnless (d : Site) (s : Stack) : Stack := if d ∈ s then s else s ++ [d]

/-- `dataflowTransfer`: (final, repeated). -/
def transfer (b j : Nat) (ik : IK) (initial : StackSet) : StackSet × Bool :=
  match ik with
  | .defer => (sortDedup (initial.map (pushUnless (b, j))), initial.any (fun s => decide ((b, j) ∈ s)))
  | .runDefers => ([[]], false)
  | .other => (initial, false)

structure State where
  init      : List StackSet          -- dataflowBlockInitialStates
  changed   : List Bool              -- dataflowBlockChanged
  processed : List (Option StackSet) -- per block: its initial state when it was last processed.
                                     -- `runDeferSets[r]` for the RunDefers `r` at (b, j) is the value
                                     -- obtained by walking the first j instructions from it (`setAt`).
  anyRep    : Bool
  deriving Repr

/-- value after walking the instruction list `iks` (first element has index `j`) of block `b`. -/
def walkVal (b : Nat) : Nat → List IK → StackSet → StackSet
  | _, [], v => v
  | j, ik :: iks, v => walkVal b (j + 1) iks (transfer b j ik v).1

/-- did any instruction of the walk report `repeated`. -/
def walkRep (b : Nat) : Nat → List IK → StackSet → Bool
  | _, [], _ => false
  | j, ik :: iks, v => (transfer b j ik v).2 || walkRep b (j + 1) iks (transfer b j ik v).1

/-- propagate `value` into the successors. -/
def propagate (value : StackSet) : List Nat → List StackSet → List Bool → List StackSet × List Bool
  | [], init, ch => (init, ch)
  | c :: cs, init, ch =>
    let u := stackSetUnion (init.getD c []) value
    propagate value cs (init.set c u.1) (ch.set c (ch.getD c false || !u.2))

/-- one processing of block `i` (the body of the inner loop when the change flag is set). -/
def processBlock (g : Cfg) (i : Nat) (σ : State) : State :=
  let blk := g.getD i default
  let v0 := σ.init.getD i []
  let p := propagate (walkVal i 0 blk.instrs v0) blk.succs σ.init (σ.changed.set i false)
  { init := p.1, changed := p.2, processed := σ.processed.set i (some v0),
    anyRep := σ.anyRep || walkRep i 0 blk.instrs v0 }

/-- inner loop over the block order; second component is `iterationChanged`. -/
def round (g : Cfg) : List Nat → State → State × Bool
  | [], σ => (σ, false)
  | i :: is, σ =>
    if σ.changed.getD i false then
      let r := round g is (processBlock g i σ)
      (r.1, true)
    else round g is σ

def initState (g : Cfg) : State :=
  { init := (List.replicate g.length ([] : StackSet)).set 0 [[]],
    changed := (List.replicate g.length false).set 0 true,
    processed := List.replicate g.length none, anyRep := false }

/-- outer loop with fuel; second component: did the loop exit by itself (`!iterationChanged`). -/
def iterate (g : Cfg) (ord : List Nat) : Nat → State → State × Bool
  | 0, σ => (σ, false)
  | n + 1, σ =>
    let r := round g ord σ
    if r.2 then iterate g ord n r.1 else (r.1, true)

structure Result where
  bounded   : Bool
  final     : State
  converged : Bool
  deriving Repr

def analyze (g : Cfg) (ord : List Nat) (fuel : Nat) : Result :=
  let r := iterate g ord fuel (initState g)
  { bounded := !r.1.anyRep, final := r.1, converged := r.2 }

/-- the set reported for the RunDefers at site `p` (Go: map lookup; `none` = no entry). -/
def Result.setAt (g : Cfg) (r : Result) (p : Site) : Option StackSet :=
  (r.final.processed.getD p.1 none).map
    (fun v0 => walkVal p.1 0 ((g.getD p.1 default).instrs.take p.2) v0)

/-- structural well-formedness the dumper guarantees: successors are block indices. -/
def wf (g : Cfg) : Bool := g.all (fun blk => blk.succs.all (· < g.length))

end Argot.Defers
