/-
Model of analysis/escape/graph.go (the lattice part of `EscapeGraph`), core Lean only.

Go                                         Lean
---------------------------------------------------------------------------------------------
*Node (pointer identity)                   Node = Nat (index in the node universe)
Node.IntrinsicEscape()                     `I : Node → Nat` (parameter: intrinsic status by kind)
EscapeStatus Local<Escaped<Leaked          Nat 0 < 1 < 2
edgeFlags (3 bits)                         Flags (int, ext, sub)
EscapeGraph.status  map[*Node]EscapeStatus dom : List Node (the keys)  +  st : Node → Nat
                                           (a missing key reads as 0, exactly Go's zero value)
EscapeGraph.edges   map[*Node]map[*Node]fl out : Node → Bool (outer key present) + fl : Node → Node → Flags
                                           (missing inner key = Flags.none)
AddNode / AddEdge / computeEdgeClosure     addNode / addEdge / closeEdge (+ propagate, bump)
MergeNodeStatus / Merge                    mergeNodeStatus / merge
LessEqual / Matches                        lessEqual / matchesG (`matches` is a Lean keyword)
rationales                                 not modelled ("first writer wins", outside the order,
                                           ignored by Matches and LessEqual as well)

Iteration over a Go map is modelled as iteration in `dom` order; the theorems characterise every
result declaratively (least closed status), so no result depends on that order.
`propagate` takes fuel; `propagate_converges` (Proofs/EGraph.lean) shows that the fuel handed to it by
`closeEdge` always suffices on graphs whose statuses are ≤ 2.
-/
namespace Argot.EGraph

abbrev Node := Nat

structure Flags where
  int : Bool
  ext : Bool
  sub : Bool
  deriving DecidableEq, Repr, Inhabited

namespace Flags
def none : Flags := ⟨false, false, false⟩
def internal : Flags := ⟨true, false, false⟩
def external : Flags := ⟨false, true, false⟩
def subnode : Flags := ⟨false, false, true⟩
def or (a b : Flags) : Flags := ⟨a.int || b.int, a.ext || b.ext, a.sub || b.sub⟩
def and (a b : Flags) : Flags := ⟨a.int && b.int, a.ext && b.ext, a.sub && b.sub⟩
def any (a : Flags) : Bool := a.int || a.ext || a.sub
/-- bitwise inclusion -/
def le (a b : Flags) : Bool := (!a.int || b.int) && (!a.ext || b.ext) && (!a.sub || b.sub)
/-- Go encoding: EdgeInternal = 1, EdgeExternal = 2, EdgeSubnode = 4 -/
def toNat (a : Flags) : Nat := (if a.int then 1 else 0) + (if a.ext then 2 else 0) + (if a.sub then 4 else 0)
def ofNat (n : Nat) : Flags := ⟨n % 2 = 1, (n / 2) % 2 = 1, (n / 4) % 2 = 1⟩
/-- the single-bit masks of `Edges(nil, nil, EdgeAll)`, in the order the Go code emits them -/
def bits (a : Flags) : List Flags :=
  (if a.ext then [external] else []) ++ (if a.int then [internal] else []) ++ (if a.sub then [subnode] else [])
end Flags

structure EGraph where
  dom : List Node
  st  : Node → Nat
  out : Node → Bool
  fl  : Node → Node → Flags

namespace EGraph

def empty : EGraph := ⟨[], fun _ => 0, fun _ => false, fun _ _ => Flags.none⟩

def upd {α : Type} (f : Node → α) (n : Node) (v : α) : Node → α := fun m => if m = n then v else f m

def upd2 {α : Type} (f : Node → Node → α) (a b : Node) (v : α) : Node → Node → α :=
  fun x y => if x = a then (if y = b then v else f x y) else f x y

/-- `for succ := range g.edges[n]` (inner keys; they all have a status in a well-formed graph) -/
def succs (g : EGraph) (n : Node) : List Node := g.dom.filter fun d => (g.fl n d).any

/-- `AddNode`: only when `n` has no status: fresh empty edge row, intrinsic status. -/
def addNode (I : Node → Nat) (g : EGraph) (n : Node) : EGraph :=
  if n ∈ g.dom then g else
    { dom := g.dom ++ [n], st := upd g.st n (I n), out := upd g.out n true,
      fl := fun a b => if a = n then Flags.none else g.fl a b }

/-- inner loop of `computeEdgeClosure` for one popped node with status `v`:
`for succ := range g.edges[node] { if v > status[succ] { status[succ] = v; push succ } }` -/
def bump (v : Nat) : List Node → (Node → Nat) × List Node → (Node → Nat) × List Node
  | [], acc => acc
  | s :: ss, (st, wl) => if v > st s then bump v ss (upd st s v, s :: wl) else bump v ss (st, wl)

/-- the worklist loop of `computeEdgeClosure` (head of the list = top of the Go stack).
Returns the status map and whether the worklist was emptied within the fuel. -/
def propagate (g : EGraph) : Nat → (Node → Nat) → List Node → (Node → Nat) × Bool
  | 0, st, wl => (st, wl.isEmpty)
  | _ + 1, st, [] => (st, true)
  | f + 1, st, n :: wl =>
    let r := bump (st n) (g.succs n) (st, wl)
    propagate g f r.1 r.2

def fuel (g : EGraph) : Nat := 2 * g.dom.length + 2

/-- `computeEdgeClosure(a, b)` -/
def closeEdge (g : EGraph) (a b : Node) : EGraph :=
  if g.st a > g.st b then
    { g with st := (propagate g g.fuel (upd g.st b (g.st a)) [b]).1 }
  else g

/-- did the worklist of `computeEdgeClosure(a, b)` empty itself within the fuel -/
def closeEdgeConv (g : EGraph) (a b : Node) : Bool :=
  if g.st a > g.st b then (propagate g g.fuel (upd g.st b (g.st a)) [b]).2 else true

/-- `AddEdge(src, dest, newFlag)` -/
def addEdge (I : Node → Nat) (g : EGraph) (src dst : Node) (f : Flags) : EGraph :=
  let g1 := if g.out src then g else
    let g' := addNode I g src
    { g' with out := upd g'.out src true, fl := fun a b => if a = src then Flags.none else g'.fl a b }
  let g2 := addNode I g1 dst
  let g3 := { g2 with fl := upd2 g2.fl src dst ((g2.fl src dst).or f) }
  closeEdge g3 src dst

/-- `MergeNodeStatus(n, s, _)` -/
def mergeNodeStatus (g : EGraph) (n : Node) (s : Nat) : EGraph :=
  if n ∉ g.dom ∨ s > g.st n then
    let g1 := { g with dom := if n ∈ g.dom then g.dom else g.dom ++ [n], st := upd g.st n s }
    (g1.succs n).foldl (fun g p => closeEdge g n p) g1
  else g

/-- `h.Edges(nil, nil, EdgeAll)`: one entry per (src, dst, single bit) -/
def edgeList (h : EGraph) : List (Node × Node × Flags) :=
  h.dom.flatMap fun a => if h.out a then
    h.dom.flatMap fun b => (h.fl a b).bits.map fun m => (a, b, m)
  else []

/-- `g.Merge(h)` -/
def merge (I : Node → Nat) (g h : EGraph) : EGraph :=
  let g1 := h.edgeList.foldl (fun g e => addEdge I g e.1 e.2.1 e.2.2) g
  h.dom.foldl (fun g n => mergeNodeStatus (addNode I g n) n (h.st n)) g1

/-- `g.LessEqual(h)`: every (src, dst, bit) of g is in h; every node of g is a node of h with a
status at least as large. -/
def lessEqual (g h : EGraph) : Bool :=
  (g.edgeList.all fun e => ((h.fl e.1 e.2.1).and e.2.2).any) &&
  (g.dom.all fun n => decide (n ∈ h.dom) && decide (g.st n ≤ h.st n))

/-- `g.Matches(h)`: `reflect.DeepEqual` of the two maps. -/
def matchesG (g h : EGraph) : Bool :=
  (g.dom.all fun n => decide (n ∈ h.dom) && decide (g.st n = h.st n)) &&
  (h.dom.all fun n => decide (n ∈ g.dom)) &&
  ((g.dom ++ h.dom).all fun a => g.out a == h.out a &&
    ((g.dom ++ h.dom).all fun b => decide (g.fl a b = h.fl a b)))

/-- representation conditions the oracle demands of every input graph (they are part of `WF`):
statuses ≤ 2, edge rows only for nodes with a status, edge ends have a status, no duplicates. -/
def repOk (g : EGraph) (N : Nat) : Bool :=
  (g.dom.all fun n => decide (n < N) && decide (g.st n ≤ 2)) &&
  ((List.range N).all fun a =>
    (decide (a ∈ g.dom) || (decide (g.st a = 0) && !g.out a)) &&
    ((List.range N).all fun b => !(g.fl a b).any || (g.out a && decide (a ∈ g.dom) && decide (b ∈ g.dom))))

/-- status closed along edges (the invariant maintained by computeEdgeClosure) -/
def closedB (g : EGraph) : Bool :=
  g.dom.all fun a => g.dom.all fun b => !(g.fl a b).any || decide (g.st a ≤ g.st b)

/-- the repository's `wellFormedEscapeGraph` plus status ≥ intrinsic -/
def wfB (I : Node → Nat) (g : EGraph) (N : Nat) : Bool :=
  g.repOk N && g.closedB && (g.dom.all fun n => g.out n && decide (I n ≤ g.st n))

/-! ### operations that involve the node group (subnodes, load nodes)

Go                                              Lean
------------------------------------------------------------------------------------------
globalNodeGroup.subnodes / .parent              NG.sub / NG.par (field subnodes only: the reasons of
  (fieldSubnodeReason)                          implementation subnodes need go/types and are outside the model)
globalNodeGroup.nextNode (fresh *Node)          NG.next (fresh index)
Node.kind of a new subnode = kind of the base   NG.intr (new subnode inherits the intrinsic status)
NodeGroup.loadChild / loadBase / loadOps        NG.loadChild / loadBase / loadOps
FieldSubnode / AnalogousSubnode                 fieldSubnode / (inside weakAssign)
WeakAssign / StoreField / LoadField             weakAssign / storeField / loadField
EnsureLoadNode / getHistoryNodeOfOp             ensureLoadNode / historyNode
CallUnknown (no return nodes)                   callUnknown
-/

structure NG where
  next : Nat
  intr : Node → Nat
  sub : Node → Nat → Option Node
  par : Node → Option (Node × Nat)
  loadChild : Node → Option Node
  loadBase : Node → Option Node
  loadOps : Node → List Nat

/-- `FieldSubnode(base, field, _)` -/
def fieldSubnode (ng : NG) (g : EGraph) (base : Node) (f : Nat) : NG × EGraph × Node :=
  match ng.sub base f with
  | some c => (ng, addEdge ng.intr g base c Flags.subnode, c)
  | none =>
    let c := ng.next
    let ng' : NG := { ng with next := c + 1, intr := upd ng.intr c (ng.intr base),
                              sub := fun b x => if b = base ∧ x = f then some c else ng.sub b x,
                              par := upd ng.par c (some (base, f)) }
    (ng', addEdge ng'.intr g base c Flags.subnode, c)

/-- `g.Pointees(src)` (a snapshot) -/
def pointees (g : EGraph) (src : Node) : List Node := g.succs src

/-- `WeakAssign(dest, src)`; the first component of the fuel-indexed recursion follows subnode edges. -/
def weakAssign : Nat → NG → EGraph → Node → Node → NG × EGraph
  | 0, ng, g, _, _ => (ng, g)
  | fuel + 1, ng, g, dest, src =>
    let g1 := addNode ng.intr g dest
    -- `g.Edges(src, nil, EdgeAll)` is evaluated once, before the loop
    let es : List (Node × Flags) := (pointees g1 src).map fun d => (d, g1.fl src d)
    es.foldl (fun (acc : NG × EGraph) e =>
      let a1 := if e.2.ext then (acc.1, addEdge acc.1.intr acc.2 dest e.1 Flags.internal) else acc
      let a2 := if e.2.int then (a1.1, addEdge a1.1.intr a1.2 dest e.1 Flags.internal) else a1
      if e.2.sub then
        match a2.1.par e.1 with
        | some (_, f) =>
          let r := fieldSubnode a2.1 a2.2 dest f
          weakAssign fuel r.1 r.2.1 r.2.2 e.1
        | none => a2   -- the Go code panics ("Subnode argument is not a subnode")
      else a2) (ng, g1)

/-- no subnode edge leaves `s` (then `WeakAssign(_, s)` does not touch the node group) -/
def NoSubOut (g : EGraph) (s : Node) : Prop := ∀ p, (g.fl s p).sub = false

/-- the loop body of `WeakAssign` for an edge that is not a subnode edge -/
def waStep (I : Node → Nat) (dest : Node) (g : EGraph) (e : Node × Flags) : EGraph :=
  let a1 := if e.2.ext then addEdge I g dest e.1 Flags.internal else g
  if e.2.int then addEdge I a1 dest e.1 Flags.internal else a1

/-- the graph computed by `WeakAssign(dest, src)` on the flat fragment
(`weakAssign_flat_eq`, Props/C15.lean) -/
def waFlat (I : Node → Nat) (g : EGraph) (dest src : Node) : EGraph :=
  ((pointees (addNode I g dest) src).map fun d => (d, (addNode I g dest).fl src d)).foldl
    (waStep I dest) (addNode I g dest)

/-- `getHistoryNodeOfOp`: walk up through parents / load bases, remember the last node that has the op -/
def historyNode (ng : NG) (op : Nat) : Nat → Option Node → Option Node → Option Node
  | 0, _, acc => acc
  | _ + 1, none, acc => acc
  | fuel + 1, some n, acc =>
    let acc' := if (ng.loadOps n).contains op then some n else acc
    match ng.par n with
    | some (p, _) => historyNode ng op fuel (some p) acc'
    | none => historyNode ng op fuel (ng.loadBase n) acc'

/-- `EnsureLoadNode(loadOp, nil, base)` -/
def ensureLoadNode (ng : NG) (g : EGraph) (op : Nat) (base : Node) : NG × EGraph :=
  if g.st base = 0 then (ng, g) else
  match historyNode ng op (ng.next + 1) (some base) none with
  | some h => (ng, addEdge ng.intr g base h Flags.external)
  | none =>
    match ng.loadChild base with
    | some l =>
      let g1 := addEdge ng.intr g base l Flags.external
      ({ ng with loadOps := fun n => if n = l then op :: ng.loadOps l else ng.loadOps n }, g1)
    | none =>
      let l := ng.next
      let ng1 : NG := { ng with next := l + 1, intr := upd ng.intr l 1,
                                loadChild := upd ng.loadChild base (some l), loadBase := upd ng.loadBase l (some base),
                                loadOps := fun n => if n = l then [] else ng.loadOps n }
      let g1 := addEdge ng1.intr g base l Flags.external
      let g2 := addEdge ng1.intr g1 base l Flags.external
      ({ ng1 with loadOps := fun n => if n = l then op :: ng1.loadOps l else ng1.loadOps n }, g2)

/-- `StoreField(addr, val, field, nil)`; `field = none` is the empty field name -/
def storeField (ng : NG) (g : EGraph) (addr val : Node) (field : Option Nat) : NG × EGraph :=
  (pointees g addr).foldl (fun (acc : NG × EGraph) p =>
    match field with
    | some f =>
      let r := fieldSubnode acc.1 acc.2 p f
      weakAssign (r.1.next + 2) r.1 r.2.1 r.2.2 val
    | none => weakAssign (acc.1.next + 2) acc.1 acc.2 p val) (ng, g)

/-- `LoadField(val, addr, op, field, nil)` -/
def loadField (ng : NG) (g : EGraph) (val addr : Node) (op : Nat) (field : Option Nat) : NG × EGraph :=
  (pointees g addr).foldl (fun (acc : NG × EGraph) p =>
    let r : NG × EGraph × Node := match field with
      | some f => fieldSubnode acc.1 acc.2 p f
      | none => (acc.1, acc.2, p)
    let e := ensureLoadNode r.1 r.2.1 op r.2.2
    weakAssign (e.1.next + 2) e.1 e.2 val r.2.2) (ng, g)

/-- `CallUnknown(args, [], _)`: the pointees of every argument are leaked -/
def callUnknown (g : EGraph) (args : List Node) : EGraph :=
  args.foldl (fun g a => (pointees g a).foldl (fun g n => mergeNodeStatus g n 2) g) g

end EGraph
end Argot.EGraph
