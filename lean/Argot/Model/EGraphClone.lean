/-
Model of `EscapeGraph.CloneReachable` (analysis/escape/graph.go), the trimming step of
`functionAnalysisState.Resummarize` (analysis/escape/escape.go): the function summary keeps only the
nodes reachable from the formals, free variables and return nodes.  Core Lean only.

Go                                                   Lean
-------------------------------------------------------------------------------------------------
reachable := map[*Node]bool ; worklist (LIFO)        `reachFrom g roots` — the visited list of the generic
for d := range g.edges[n] { mark, push }             worklist of Base/Closure.lean with `key = id` and
                                                     `succ = g.succs`.  The Go loop pops from the END of the
                                                     slice and ranges over a map; `Closure.Step` allows any
                                                     popped element, any successor order and any placement,
                                                     so the Go loop is one of its executions and
                                                     `Closure.order_independent` makes the visited SET the
                                                     same for all of them (Props/C15Clone.lean).
gg.edges[src] = copy of g.edges[src] if reachable    `out`, `fl` restricted to reachable sources
gg.status[n] = g.status[n] if reachable              `dom` filtered, `st` restricted
rationales                                           not modelled (outside the order)
-/
import Argot.Base.Closure
import Argot.Model.EGraph

namespace Argot.EGraph
namespace EGraph

/-- fuel that always empties the worklist (`Closure.run_terminates`): every root is pushed once at the
start, every node with a status at most once afterwards, and a root may be re-offered once. -/
def reachFuel (g : EGraph) (roots : List Node) : Nat := 2 * roots.length + g.dom.length

/-- the key set of the Go map `reachable` when the worklist is empty -/
def reachFrom (g : EGraph) (roots : List Node) : List Node :=
  (Closure.run (fun a : Node => a) g.succs (g.reachFuel roots) roots).visited

/-- did the worklist empty itself within the fuel (always `true`: `reachFrom_converges`) -/
def reachConv (g : EGraph) (roots : List Node) : Bool :=
  (Closure.run (fun a : Node => a) g.succs (g.reachFuel roots) roots).queue.isEmpty

/-- `g.CloneReachable(roots)` -/
def cloneReachable (g : EGraph) (roots : List Node) : EGraph :=
  let R := g.reachFrom roots
  { dom := g.dom.filter fun n => decide (n ∈ R)
    st := fun n => if n ∈ R then g.st n else 0
    out := fun n => decide (n ∈ R) && g.out n
    fl := fun a b => if a ∈ R then g.fl a b else Flags.none }

end EGraph
end Argot.EGraph
