/-
Model of `simplifySummary` (analysis/escape/escape.go), the last step of `functionAnalysisState.Resummarize`
after `CloneReachable`: escaped load nodes that nothing inside the summary depends on are dropped, and leaked
nodes lose their purely internal out-edges.  Core Lean only.

Go                                                         Lean
------------------------------------------------------------------------------------------------------
node.kind == KindLoad                                      `isLoad : Node → Bool` (parameter)
g.IsSubnode(node)  (globalNodes.parent has the node)       `isSub : Node → Bool` (parameter; `NG.par n ≠ none`)
candidatesForRemoval, first loop over g.status             `cands0`
second loop over g.edges (incoming internal edge, or       `cands1`
  subnode edge between different statuses)
removeNodesReachingNonCandidate (repeat until unchanged)   `prune` — the greatest subset of the candidates closed
                                                           under successors; the Go loop deletes while it ranges
                                                           over the map, the result is that same greatest subset
removeNodesInSet                                           `removeSet` (rows, statuses, in-edges of the removed
                                                           nodes; then `status == EdgeInternal` out-edges of
                                                           Leaked nodes: flags EXACTLY internal)
-/
import Argot.Model.EGraph

namespace Argot.EGraph
namespace EGraph

/-- load nodes that are Escaped (or Leaked subnodes) without outgoing internal edges -/
def cands0 (isLoad isSub : Node → Bool) (g : EGraph) : List Node :=
  g.dom.filter fun n =>
    isLoad n && (g.st n == 1 || (g.st n == 2 && isSub n)) && !(g.dom.any fun d => (g.fl n d).int)

/-- drop candidates with an incoming internal edge, or an incoming subnode edge from a node of another status -/
def cands1 (g : EGraph) (c : List Node) : List Node :=
  c.filter fun d => !(g.dom.any fun s => g.out s &&
    ((g.fl s d).int || ((g.fl s d).sub && g.st s != g.st d)))

/-- one sweep of `removeNodesReachingNonCandidate` -/
def pruneStep (g : EGraph) (c : List Node) : List Node :=
  c.filter fun s => (g.succs s).all fun d => decide (d ∈ c)

/-- `removeNodesReachingNonCandidate` -/
def prune (g : EGraph) : Nat → List Node → List Node
  | 0, c => c
  | f + 1, c =>
    let c' := pruneStep g c
    if c'.length = c.length then c else prune g f c'

/-- `removeNodesInSet` -/
def removeSet (g : EGraph) (C : List Node) : EGraph :=
  { dom := g.dom.filter fun n => decide (n ∉ C)
    st := fun n => if n ∈ C then 0 else g.st n
    out := fun n => decide (n ∉ C) && g.out n
    fl := fun a b =>
      if a ∈ C ∨ b ∈ C then Flags.none
      else if g.st a = 2 ∧ g.fl a b = Flags.internal then Flags.none
      else g.fl a b }

/-- the set of nodes `simplifySummary` removes -/
def removed (isLoad isSub : Node → Bool) (g : EGraph) : List Node :=
  prune g (g.dom.length + 1) (cands1 g (cands0 isLoad isSub g))

/-- `simplifySummary(g)` -/
def simplifySummary (isLoad isSub : Node → Bool) (g : EGraph) : EGraph :=
  removeSet g (removed isLoad isSub g)

end EGraph
end Argot.EGraph
