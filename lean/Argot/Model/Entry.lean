/-
Model of the places where the analyses turn a code location into a code identifier:

* `analysisutil.IsEntrypointNode` (sources of the taint analysis, backtrace points): `entryCids`
  for calls, `nodeCids` for field reads / allocations / field stores / channel receives;
* `taint.IsMatchingCodeIDWithCallee` (sinks, sanitizers, validators on a call instruction with a
  resolved callee): `sinkCids`; `taint.isMatchingCodeID` on a call-argument graph node: `argCids`;
* `factsOf`: what the SSA form of each *source-level call form* looks like (static function, static
  method, invoke, function value, bound method, method expression, closure call, generic instance;
  as Call / Go / Defer) — the facts the Go code reads from the instruction.

Two layers: `Facts` is what the Go functions read from an `ssa.CallInstruction`; `Site` is what the
program generator knows about the source-level call.  The driver checks `factsOf site` against the
facts dumped from the real SSA, and the identifiers against those recorded from the real functions.
Core Lean only.
-/
import Argot.Model.CodeId

namespace Argot.Entry
open Argot.CodeId

/-- a declared function or method: a possible callee -/
structure Fn where
  pkgPath : String
  name : String
  recv : String := ""      -- receiver type name (no `*`, no package), "" for plain functions
  deriving DecidableEq, Repr, Inhabited

inductive Kind where | call | go | defer
  deriving DecidableEq, Repr, Inhabited

inductive Form where
  | staticFn        -- `f(x)`, `pkg.F(x)`
  | staticMethod    -- `v.M(x)` with `v` of concrete type
  | invoke          -- `i.M(x)` with `i` of interface type
  | funcValue       -- `fv(x)`, `fv` a variable holding declared functions
  | boundMethod     -- `bm := v.M; bm(x)` / `bi := i.M; bi(x)`  (closure over a `$bound` wrapper)
  | methodExpr      -- `me := T.M; me(v, x)`  (call of a `$thunk` wrapper)
  | closureCall     -- `cl := func(..){..}; cl(x)`
  | generic         -- `G[T](x)`, an instantiated generic function
  deriving DecidableEq, Repr, Inhabited

/-- What the Go code reads from a call instruction. -/
structure Facts where
  kind : Kind
  parent : String                 -- `instr.Parent().String()`
  instr : String                  -- `instr.String()`
  isInvoke : Bool
  valueName : String              -- `Call.Value.Name()`
  valueType : String := ""        -- `Call.Value.Type().String()` (read in invoke mode)
  methodName : String := ""       -- `Call.Method.Name()` (invoke mode)
  calleePkg : Option String       -- `FindSafeCalleePkg`
  sigRecv : String := ""          -- `ReceiverStr(Signature().Recv().Type())`, "" without receiver
  aliases : List (Option String × String) := []
    -- per label of `pointer.Queries[Call.Value]`: (package path of the labelled function if `FindValuePackage`
    -- finds one, `Value().Name()`)
  deriving DecidableEq, Repr, Inhabited

/-- `IsEntrypointNode` on a call instruction: the identifiers handed to the predicate (the Go code stops
at the first one accepted; as a disjunction that is `List.any`).  `withPtr`: a pointer result is passed.
`aliasPrefix`: `FindValuePackage` returns the package *path* of an alias label (prefix ""); before the repair of
commit 95e1c24 it rendered it with `ssa.Package.String()`, i.e. "package <path>".  The prefix is observed from the
real identifiers on every run and must be "". -/
def entryCids (withPtr : Bool) (aliasPrefix : String) (f : Facts) : List CodeId :=
  match f.kind with
  | .go | .defer => []          -- no case for *ssa.Go / *ssa.Defer in the type switch
  | .call =>
    if f.isInvoke then
      match f.calleePkg with
      | some p => [{ ctx := f.parent, pkg := p, meth := f.methodName, recv := f.valueName }]
      | none => []
    else
      (match f.calleePkg with
        | some p => [{ ctx := f.parent, pkg := p, meth := f.valueName }]
        | none => []) ++
      (if withPtr then
        f.aliases.filterMap fun a => a.1.map fun p => ({ pkg := aliasPrefix ++ p, meth := a.2 } : CodeId)
       else [])

/-- `IsMatchingCodeIDWithCallee(oracle, callee, instr)` for Call / Go / Defer; `calleePkg` is
`PackageNameFromFunction(callee)` when a callee is supplied. -/
def sinkCids (f : Facts) (calleePkg : Option String) : List CodeId :=
  let name := if f.isInvoke then f.methodName else f.valueName
  let recv := if f.isInvoke then f.valueType else f.sigRecv
  match f.calleePkg with
  | some p => [{ ctx := f.parent, pkg := p, meth := name, recv := recv, vmatch := f.instr }]
  | none =>
    match calleePkg with
    | some p => [{ ctx := f.parent, pkg := p, meth := name, recv := recv, vmatch := f.instr }]
    | none => []

/-- `IsMatchingCodeIDWithCallee(oracle, _, fn)` for a function: used for the parameter nodes of the
callee summary (`full` is `fn.String()`). -/
def fnCid (c : Fn) (full : String) : CodeId := { pkg := c.pkgPath, meth := c.name, vmatch := full }

/-- `isMatchingCodeID` on a `CallNodeArg`: the call node of the argument, then (when the callee has a
summary) the callee as a function. -/
def argCids (f : Facts) (callee : Option (Fn × String)) (hasSummary : Bool) : List CodeId :=
  sinkCids f (callee.map (·.1.pkgPath)) ++
  (match callee, hasSummary with
   | some (c, full), true => [fnCid c full]
   | _, _ => [])

/-! ### non-call locations -/

/-- shape of the type of the accessed / allocated / received value -/
inductive Ty where
  | named (pkgName : String) (name : String)     -- declared type (package *name*, "" for universe)
  | basic (name : String)
  | pointer (t : Ty)
  | slice (t : Ty)
  | array (n : Nat) (t : Ty)
  | chan (t : Ty)
  | map (key : String) (t : Ty)
  | other                                        -- struct / interface / signature / tuple literal types
  deriving DecidableEq, Repr, Inhabited

/-- `FindEltTypePackage(t, "%s")`: (package name, formatted type name) or an error -/
def eltTypePackage : Ty → (String → String) → Option (String × String)
  | .named p n, fmt => some (p, fmt n)
  | .basic _, _ => none
  | .pointer t, fmt => eltTypePackage t (fun s => fmt ("*" ++ s))
  | .slice t, fmt => eltTypePackage t (fun s => fmt ("[]" ++ s))
  | .array n t, fmt => eltTypePackage t (fun s => fmt ("[" ++ toString n ++ "]" ++ s))
  | .chan t, fmt => eltTypePackage t (fun s => fmt ("chan " ++ s))
  | .map k t, fmt => eltTypePackage t (fun s => fmt ("map[" ++ k ++ "]" ++ s))
  | .other, _ => none

inductive NodeKind where
  | fieldRead      -- *ssa.Field / *ssa.FieldAddr
  | alloc          -- *ssa.Alloc
  | fieldStore     -- *ssa.Store whose address is a *ssa.FieldAddr
  | chanRecv       -- *ssa.UnOp with token.ARROW
  deriving DecidableEq, Repr, Inhabited

structure NodeFacts where
  nk : NodeKind
  parent : String
  ty : Ty                    -- type of `X` (field access, receive) / of the allocation
  field : String := ""       -- name of the accessed field
  deriving DecidableEq, Repr, Inhabited

def nodeCids (n : NodeFacts) : List CodeId :=
  match eltTypePackage n.ty id with
  | none => []
  | some (p, t) =>
    match n.nk with
    | .fieldRead => [{ ctx := n.parent, pkg := p, fld := n.field, typ := t }]
    | .alloc => [{ ctx := n.parent, pkg := p, typ := t }]
    | .fieldStore => [{ ctx := n.parent, pkg := p, fld := n.field, typ := t, kind := "store" }]
    | .chanRecv => [{ ctx := n.parent, pkg := p, typ := t, kind := "channel receive" }]

/-! ### source-level call sites -/

structure Site where
  form : Form
  kind : Kind
  parent : String
  instr : String
  reg : String := ""             -- name of the called value when it is a register / parameter
  callee : Fn                    -- static forms: the callee; invoke: the interface method
                                 -- (package of the interface, method name, interface type name)
  impls : List Fn := []          -- invoke / function value / bound: the functions that can run
  ifaceType : String := ""       -- invoke: `types.TypeString` of the interface type
  addrTaken : Bool := false      -- static function that is also used as a value somewhere
  wrapperName : String := ""     -- bound / thunk / generic instance: name of the synthetic function
  aliasPrefix : String := ""   -- see `entryCids`; "package " before commit 95e1c24
  deriving DecidableEq, Repr, Inhabited

/-- x/tools SSA form of every call form (checked against the dump of the real SSA for every site) -/
def factsOf (s : Site) : Facts :=
  match s.form with
  | .staticFn =>
    { kind := s.kind, parent := s.parent, instr := s.instr, isInvoke := false, valueName := s.callee.name,
      calleePkg := some s.callee.pkgPath,
      aliases := if s.addrTaken then [(some s.callee.pkgPath, s.callee.name)] else [] }
  | .staticMethod =>
    { kind := s.kind, parent := s.parent, instr := s.instr, isInvoke := false, valueName := s.callee.name,
      calleePkg := some s.callee.pkgPath, sigRecv := s.callee.recv }
  | .invoke =>
    { kind := s.kind, parent := s.parent, instr := s.instr, isInvoke := true, valueName := s.reg,
      valueType := s.ifaceType, methodName := s.callee.name, calleePkg := some s.callee.pkgPath }
  | .funcValue =>
    { kind := s.kind, parent := s.parent, instr := s.instr, isInvoke := false, valueName := s.reg,
      calleePkg := none,
      aliases := s.impls.map fun c => (some c.pkgPath, c.name) }
  | .boundMethod =>
    { kind := s.kind, parent := s.parent, instr := s.instr, isInvoke := false, valueName := s.reg,
      calleePkg := none, aliases := [(none, s.wrapperName)] }
  | .methodExpr =>
    { kind := s.kind, parent := s.parent, instr := s.instr, isInvoke := false, valueName := s.wrapperName,
      calleePkg := none }
  | .closureCall =>
    { kind := s.kind, parent := s.parent, instr := s.instr, isInvoke := false, valueName := s.reg,
      calleePkg := some s.callee.pkgPath,
      aliases := [(some s.callee.pkgPath, s.callee.name)] }
  | .generic =>
    { kind := s.kind, parent := s.parent, instr := s.instr, isInvoke := false, valueName := s.wrapperName,
      calleePkg := none }

/-- is the site an analysis entry point (source / backtrace point) for one of the specifications -/
def isEntry (specs : List CodeId) (s : Site) : Bool :=
  (entryCids true s.aliasPrefix (factsOf s)).any fun cid => specs.any fun sp => matchB sp cid

/-- is the call, with the callee `c` resolved for it, a sink / sanitizer / validator -/
def isSink (specs : List CodeId) (s : Site) (c : Fn) : Bool :=
  (sinkCids (factsOf s) (some c.pkgPath)).any fun cid => specs.any fun sp => matchB sp cid

def kindSelects (specs : List CodeId) (n : NodeFacts) : Bool :=
  (nodeCids n).any fun cid => specs.any fun sp => matchB sp cid

end Argot.Entry
