/-
`EscCore`: the call-free, field-insensitive core of the escape transfer function
(analysis/escape/escape.go `transferFunction`) over the escape-graph model, and a pointer machine to
state its soundness.  Core Lean only.

SSA instruction (escape.go case)                         EscCore.Instr / transfer
------------------------------------------------------------------------------------------------
Alloc / MakeMap / MakeChan / MakeSlice                    alloc v site   : AddEdge(v, site, internal)
Phi / ChangeType / Convert / MakeInterface / Slice …      copy v w       : WeakAssign(v, w)
Store of a pointer-like value                             store a v      : StoreField(a, v, "")
UnOp * (load of a pointer-like value)                     load v a       : LoadField(v, a, _, "") without
                                                                           the load nodes it adds for
                                                                           non-local bases (more edges only)
Go                                                        goCall v       : CallUnknown([v], [])
instructionLocality on Store / load                       derefsAreLocal g a

On this fragment no subnode edge exists, so `WeakAssign` is `waFlat` (Props/C15:
`weakAssign_flat_eq`).
-/
import Argot.Model.EGraph

namespace Argot.EscCore
open Argot.EGraph Argot.EGraph.EGraph

abbrev Obj := Nat

inductive Instr where
  | alloc (v site : Node)
  | copy (v w : Node)
  | store (a v : Node)
  | load (v a : Node)
  | goCall (v : Node)
  deriving DecidableEq, Repr

def foldPairs (I : Node → Nat) (g : EGraph) (ps : List (Node × Node)) : EGraph :=
  ps.foldl (fun g pr => waFlat I g pr.1 pr.2) g

def transfer (I : Node → Nat) (g : EGraph) : Instr → EGraph
  | .alloc v a => addEdge I g v a Flags.internal
  | .copy v w => waFlat I g v w
  | .store a v => foldPairs I g ((pointees g a).map fun p => (p, v))
  | .load v a => foldPairs I g ((pointees g a).map fun p => (v, p))
  | .goCall v => (pointees g v).foldl (fun g n => mergeNodeStatus g n 2) g

/-- `derefsAreLocal(g, ptr) == nil`: every pointee of `ptr` is Local -/
def derefsAreLocal (g : EGraph) (ptr : Node) : Bool := (pointees g ptr).all fun n => g.st n == 0

/-- locality of the memory-accessing instructions of the fragment -/
def isLocal (g : EGraph) : Instr → Bool
  | .store a _ => derefsAreLocal g a
  | .load _ a => derefsAreLocal g a
  | _ => true

end Argot.EscCore
