/-
`EscCore2`: the call-free core of the escape transfer function (analysis/escape/escape.go
`transferFunction`) extended with struct fields, globals and panic.  Core Lean only.

SSA instruction (escape.go case)                 EscCore2.Instr2 / transfer2
------------------------------------------------------------------------------------------------
Alloc / Phi / Store / UnOp * / Go                alloc / copy / store / load / goCall : as `EscCore.transfer`
FieldAddr                                        fieldAddr v p f : for q in Pointees(p):
                                                   fn := FieldSubnode(q, f); AddEdge(v, fn, internal)
operand *ssa.Global (addGlobalObjectNodes)       global v gn : AddEdge(v, GlobalNode, external); the global
                                                   node has intrinsic status Leaked (`GlobOk`)
Panic                                            panic v : CallUnknown([v], [])
instructionLocality                              isLocal2: Store / load consult derefsAreLocal on the
                                                   address operand; FieldAddr, Panic, Go, Alloc are "local"

Field subnodes: `Cfg.sub base f` is the subnode of `base` for field `f` (the node group's `subnodes`
map); `fieldSub` is `EGraph.fieldSubnode` on a node group that already holds that subnode
(`fieldSubnode_eq_fieldSub`, Proofs/EscCore2.lean), which keeps the intrinsic-status function fixed.
Store / load use the flat `WeakAssign` (`waFlat`): a typed program stores and loads pointer-like values
whose value nodes carry no subnode edge, where `WeakAssign` = `waFlat` (Props/C15 `weakAssign_flat_eq`);
whole-struct copies (`copyStruct`) are outside the fragment.
-/
import Argot.Model.EscCore

namespace Argot.EscCore2
open Argot.EGraph Argot.EGraph.EGraph Argot.EscCore

/-- the static part of the node group: intrinsic status by node kind, field subnodes -/
structure Cfg where
  I : Node → Nat
  sub : Node → Nat → Node

inductive Instr2 where
  | alloc (v site : Node)
  | copy (v w : Node)
  | store (a v : Node)
  | load (v a : Node)
  | goCall (v : Node)
  | fieldAddr (v p : Node) (f : Nat)
  | global (v gn : Node)
  | panic (v : Node)
  deriving DecidableEq, Repr

/-- `FieldSubnode(base, f, _)` when the node group holds the subnode: the subnode edge is (re)added -/
def fieldSub (c : Cfg) (g : EGraph) (base : Node) (f : Nat) : EGraph :=
  addEdge c.I g base (c.sub base f) Flags.subnode

/-- loop body of the `FieldAddr` case -/
def fieldAddrStep (c : Cfg) (v : Node) (f : Nat) (g : EGraph) (q : Node) : EGraph :=
  addEdge c.I (fieldSub c g q f) v (c.sub q f) Flags.internal

def transfer2 (c : Cfg) (g : EGraph) : Instr2 → EGraph
  | .alloc v a => transfer c.I g (.alloc v a)
  | .copy v w => transfer c.I g (.copy v w)
  | .store a v => transfer c.I g (.store a v)
  | .load v a => transfer c.I g (.load v a)
  | .goCall v => transfer c.I g (.goCall v)
  | .fieldAddr v p f => (pointees g p).foldl (fieldAddrStep c v f) g
  | .global v gn => addEdge c.I g v gn Flags.external
  | .panic v => callUnknown g [v]

/-- `instructionLocality` on the fragment -/
def isLocal2 (g : EGraph) : Instr2 → Bool
  | .store a _ => derefsAreLocal g a
  | .load _ a => derefsAreLocal g a
  | _ => true

/-- the global node of a `global` instruction has intrinsic status Leaked (`KindGlobal`) -/
def GlobOk (c : Cfg) : Instr2 → Prop
  | .global _ gn => c.I gn = 2
  | _ => True

/-- the pointer operand whose nil value makes the instruction a no-op (a nil-dereference panic in Go) -/
def ptrOperand : Instr2 → Option Node
  | .store a _ => some a
  | .load _ a => some a
  | .goCall v => some v
  | .fieldAddr _ p _ => some p
  | .panic v => some v
  | _ => none

end Argot.EscCore2
