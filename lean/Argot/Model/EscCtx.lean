/-
Model of the escape-context bookkeeping of the taint visitor
(analysis/taint/dataflow_visitor.go: initEscapeAnalysisInfo, manageEscapeContexts, storeEscapeGraph,
storeEscapeGraphInContext), core Lean only.

Go                                             Lean
------------------------------------------------------------------------------------------
v.escapeGraphs[f][key] (exists or not)         stored : List (Fn × Key)
key of a call stack (CallStack.Key())          Key = List Site (innermost call site first)
initEscapeAnalysisInfo(source)                 init f        (arbitrary context for the source's function)
addNext → manageEscapeContexts, by the kind of the current node and the trace of the next:
  next node in the same function, same trace   Move.stay
  CallNodeArg / CallNode → callee parameter    Move.down c g   (storeEscapeGraph, then the look-up)
  return to the caller on top of the trace     Move.up
  return with no matching frame: the visitor   Move.upUnknown g k
    continues in some caller g under key k
    that no earlier step has stored
the look-up `escapeGraphs[f][nKey]`; its       Except.error "missing escape …"
  failure is the code's own error
  "missing escape for f in context k"
-/
namespace Argot.EscCtx

abbrev Fn := Nat
abbrev Site := Nat
abbrev Key := List Site

inductive Move where
  | stay
  | down (c : Site) (g : Fn)
  | up
  | upUnknown (g : Fn) (k : Key)
  deriving DecidableEq, Repr

structure State where
  fn : Fn
  stack : List (Site × Fn)
  stored : List (Fn × Key)
  deriving DecidableEq, Repr

def key (stack : List (Site × Fn)) : Key := stack.map (·.1)

def init (f : Fn) : State := ⟨f, [], [(f, [])]⟩

def step (s : State) : Move → Except String State
  | .stay => if (s.fn, key s.stack) ∈ s.stored then .ok s else .error "missing escape"
  | .down c g =>
    let st := (c, s.fn) :: s.stack
    .ok ⟨g, st, (g, key st) :: s.stored⟩
  | .up =>
    match s.stack with
    | (_, f) :: rest => if (f, key rest) ∈ s.stored then .ok ⟨f, rest, s.stored⟩ else .error "missing escape"
    | [] => .error "no frame"
  | .upUnknown g k => if (g, k) ∈ s.stored then .ok ⟨g, [], s.stored⟩ else .error "missing escape"

def run (s : State) : List Move → Except String State
  | [] => .ok s
  | m :: ms => match step s m with
    | .ok s' => run s' ms
    | .error e => .error e

/-- the moves never return past the function in which the traversal started -/
def balanced : Nat → List Move → Bool
  | _, [] => true
  | d, .stay :: ms => balanced d ms
  | d, .down _ _ :: ms => balanced (d + 1) ms
  | 0, .up :: _ => false
  | d + 1, .up :: ms => balanced d ms
  | _, .upUnknown _ _ :: _ => false

end Argot.EscCtx
