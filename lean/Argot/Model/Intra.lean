/-
C08 — result-validation criterion `Intra.closed` for the intra-procedural dataflow pass
(analysis/dataflow/intra_procedural*.go), core Lean only (linked into `oracle_c08`).

The Go pass computes, for every instruction `i` and SSA value `v` of a function, a set of marks
(`FlowInformation.MarkedValues[i*NumValues+v]`) and then builds summary edges from the marks found
at the boundary uses (returns, call arguments, closure bindings, `If` conditions).  We do not
re-implement the pass (alias marking through the pointer analysis, access paths, defers simulation);
we *validate its final result*: `closed f S E R` is a decidable predicate on

  f : first-order image of the SSA function (instruction-level CFG, operands, results, kinds),
      the origins (parameters, free variables, call results per tuple index) with the identity of
      the mark the pass uses for each, and the boundary targets with their summary nodes;
  S : the REAL final state restricted to origin marks  (instruction ↦ list of (value, mark));
  E : the REAL summary edges (source node, target node, tuple index + 1 or 0);
  R : a set of instructions containing the entry and closed under CFG successors.

Go                                              Lean
---------------------------------------------------------------------------------------
ssa.Instruction (non-DebugRef), flat index      index into `Func.instrs`
FlowInformation.ValueID + 1                     value ids (0 = absent operand)
*Mark of type Parameter/FreeVar/CallReturn      `Origin.mark`
MarkedValues[i*n+v].AllMarks()                  `S i` = list of `(v, m)`
Pre(): join of predecessors                     rule `carryOK`
DoBinOp/DoUnOp/…/DoPhi/doBuiltinCall            rule `xferOK`   (per kind: `dataOps`, `passes`)
initialize()/callCommonMark()                   rule `initOK`
makeEdgesAt{Return,CallSite,Closure,If}         rule `edgesOK`
-/
namespace Argot.Intra

/-- instruction kinds that matter (everything else is `other`). `call` = Call/Go/Defer that is not a
handled builtin; `builtin n` = call to the language builtin named `n` (or the invoke-mode `Error()` of the
builtin error interface); `range`/`next` = map/string iteration; `select`: operands = the channels of
its receive cases. -/
inductive IK where
  | binop | unop | convert | changeType | changeInterface | makeInterface | sliceToArrayPtr
  | field | fieldAddr | index | indexAddr | lookup | phi | extract | typeAssert | slice
  | builtin (name : String)
  | range | next | select
  | call | ret | ifc | makeClosure | other
  deriving DecidableEq, Repr, Inhabited

structure Instr where
  kind  : IK
  res   : Nat := 0        -- value id of the result, 0 if the instruction is not a value
  ops   : List Nat := [] -- operands in `Operands()` order (calls: the arguments only), 0 = nil operand
  aux   : Nat := 0        -- Extract: tuple index
  succs : List Nat := [] -- instruction-level CFG successors
  deriving Repr

instance : Inhabited Instr := ⟨{ kind := .other }⟩

structure Origin where
  mark  : Nat            -- identity of the mark the pass uses for this origin
  val   : Nat            -- the SSA value it is attached to
  loc   : Nat            -- instruction where it is attached (0 for parameters / free variables)
  idx   : Option Nat     -- tuple index of a call result, `none` for parameters / free variables
  nodes : List Nat       -- summary-graph nodes standing for it (one call node per resolved callee)
  deriving Repr, Inhabited

structure Target where
  loc   : Nat            -- the using instruction (Return / Call / Go / Defer / MakeClosure / If)
  val   : Nat            -- the used value
  nodes : List Nat       -- summary-graph nodes of this use (one argument node per resolved callee)
  deriving Repr, Inhabited

structure Func where
  instrs  : Array Instr
  origins : List Origin
  targets : List Target
  deriving Repr, Inhabited

abbrev Fact  := Nat × Nat          -- (value, mark)
abbrev State := Nat → List Fact
abbrev Edge  := Nat × Nat × Nat    -- (source node, target node, tuple index + 1 | 0)

/-! ### the operands the property lists as carrying data, per kind -/

/-- Operand positions a *handled builtin* must transfer to its result (the expectation side of the
regenerated table T5): `append(s, xs…)`, `min`/`max`/`complex` every operand, `len`/`real`/`imag`/
`ssa:wrapnilchk`/`Error()` their first operand.  `cap`, `copy`, `close`, `delete`, `clear`,
`print`, `println`, `recover` compute no value from their operands that the property lists. -/
def builtinNeeds (name : String) (nargs : Nat) : List Nat :=
  if name = "append" then (List.range nargs).take 2
  else if name = "min" ∨ name = "max" ∨ name = "complex" then List.range nargs
  else if name = "len" ∨ name = "real" ∨ name = "imag" ∨ name = "ssa:wrapnilchk" ∨ name = "Error" then
    (List.range nargs).take 1
  else []

/-- the data operands of an instruction (values, 0 removed). -/
def dataOps (x : Instr) : List Nat :=
  (match x.kind with
   | .binop | .index | .indexAddr | .lookup => x.ops.take 2
   | .unop | .convert | .changeType | .changeInterface | .makeInterface | .sliceToArrayPtr
   | .field | .fieldAddr | .extract | .typeAssert | .slice | .range | .next => x.ops.take 1
   | .phi | .select => x.ops
   | .builtin n => (builtinNeeds n x.ops.length).filterMap (x.ops[·]?)
   | _ => []).filter (· != 0)

/-- kind of the instruction defining value `t`. -/
def defKind (f : Func) (t : Nat) : Option IK :=
  (f.instrs.find? (fun y => y.res == t)).map (·.kind)

/-- Does origin `o` pass from operand `a` to the result of `x`?  Only `Extract` filters:
from the tuple of the origin call itself only the origin's own index; from a comma-ok tuple
(TypeAssert / UnOp receive / Lookup) component 0 (the data component); from an iterator step
(`Next`) the key and the value; from a `Select` the received values. -/
def passes (f : Func) (o : Origin) (x : Instr) (a : Nat) : Bool :=
  if x.kind = .extract then
    match defKind f a with
    | some .call => a == o.val && o.idx == some x.aux
    | some .typeAssert | some .unop | some .lookup => x.aux == 0
    | some .next => decide (1 ≤ x.aux)     -- (ok, key, value): key and value
    | some .select => decide (2 ≤ x.aux)   -- (index, recvOk, received values…)
    | _ => false
  else true

/-! ### sorted-list helpers (sound without any sortedness assumption) -/

/-- `subsetS lt a b = true` implies every element of `a` is in `b` (merge walk; complete when both
lists are sorted by `lt`). -/
def subsetS {α} [BEq α] (lt : α → α → Bool) : List α → List α → Bool
  | [], _ => true
  | a :: as, bs =>
    match bs.dropWhile (fun b => lt b a) with
    | [] => false
    | b :: bs' => a == b && subsetS lt as (b :: bs')

def factLt (p q : Fact) : Bool := p.1 < q.1 || (p.1 == q.1 && p.2 < q.2)

def marksOf (l : List Fact) (v : Nat) : List Nat := (l.filter (·.1 == v)).map (·.2)

def has (S : State) (i v m : Nat) : Bool := (S i).contains (v, m)

/-! ### the criterion -/

/-- `R` contains the entry and is closed under successors. -/
def reachOK (f : Func) (R : Array Bool) : Bool :=
  R.getD 0 false &&
  (List.range f.instrs.size).all fun i =>
    !R.getD i false || (f.instrs.getD i default).succs.all fun j => R.getD j false

/-- every origin is attached where it is created (if that point is reachable from the entry). -/
def initOK (f : Func) (S : State) (R : Array Bool) : Bool :=
  f.origins.all fun o => !R.getD o.loc false || has S o.loc o.val o.mark

/-- the state is carried along every CFG edge. -/
def carryOK (f : Func) (S : State) : Bool :=
  (List.range f.instrs.size).all fun i =>
    (f.instrs.getD i default).succs.all fun j => subsetS factLt (S i) (S j)

def markPasses (f : Func) (x : Instr) (a m : Nat) : Bool :=
  x.kind != .extract || f.origins.any fun o => o.mark == m && passes f o x a

/-- one inclusion per (value-computing instruction, data operand). -/
def xferOK (f : Func) (S : State) : Bool :=
  (List.range f.instrs.size).all fun i =>
    let x := f.instrs.getD i default
    x.res == 0 || (dataOps x).all fun a =>
      subsetS (· < ·) ((marksOf (S i) a).filter (markPasses f x a)) (marksOf (S i) x.res)

def eidx (o : Origin) : Nat := match o.idx with | none => 0 | some k => k + 1

/-- set of instructions reachable from the seeds (worklist with fuel; only its *closure* is relied
upon, through `closedFrom` / `reachOK`). -/
def reachLoop (f : Func) : Nat → List Nat → Array Bool → Array Bool
  | 0, _, vis => vis
  | _, [], vis => vis
  | fuel + 1, i :: stack, vis =>
    if vis.getD i true then reachLoop f fuel stack vis
    else reachLoop f fuel ((f.instrs.getD i default).succs ++ stack) (vis.setIfInBounds i true)

def reachSeeds (f : Func) (seeds : List Nat) : Array Bool :=
  let edges := f.instrs.foldl (fun n x => n + x.succs.length) 0
  reachLoop f (f.instrs.size + edges + seeds.length + 1) seeds (Array.replicate f.instrs.size false)

def reachFrom (f : Func) (i : Nat) : Array Bool := reachSeeds f [i]

/-- instructions reachable from `i` by at least one CFG step. -/
def reachPlus (f : Func) (i : Nat) : Array Bool := reachSeeds f (f.instrs.getD i default).succs

/-- `P` contains the seeds and is closed under successors. -/
def closedFrom (f : Func) (P : Array Bool) (seeds : List Nat) : Bool :=
  seeds.all (fun j => P.getD j false) &&
  (List.range f.instrs.size).all fun i =>
    !P.getD i false || (f.instrs.getD i default).succs.all fun j => P.getD j false

/-- the program points at which an edge from origin `o` is demanded: for parameters and free
variables every reachable point, for a call result every point reachable from the call by at least
one step (the pass drops marks that cannot have flowed forward: `checkFlow`). -/
def originReach (f : Func) (R : Array Bool) : List (Origin × Array Bool) :=
  f.origins.map fun o => (o, match o.idx with | none => R | some _ => reachPlus f o.loc)

/-- every origin found on a boundary use has its summary edge(s). -/
def edgesOK (f : Func) (S : State) (E : List Edge) (R : Array Bool) : Bool :=
  let OR := originReach f R
  (OR.all fun (o, P) =>
    o.idx.isNone ||
      ((f.instrs.getD o.loc default).kind == .call && closedFrom f P (f.instrs.getD o.loc default).succs)) &&
  f.targets.all fun t =>
    let ms := marksOf (S t.loc) t.val
    OR.all fun (o, P) =>
      !ms.contains o.mark || !(P.getD t.loc false || (t.loc == o.loc && t.val == o.val)) ||
        o.nodes.all fun sn => t.nodes.all fun tn => E.contains (sn, tn, eidx o)

def closed (f : Func) (S : State) (E : List Edge) (R : Array Bool) : Bool :=
  reachOK f R && initOK f S R && carryOK f S && xferOK f S && edgesOK f S E R

/-! ### SSA sanity used by the value-level corollary: every operand's definition reaches its use -/

/-- the instruction defining value `v` (0, the entry, for parameters, free variables, constants…). -/
def defLoc (f : Func) (v : Nat) : Nat :=
  (f.instrs.findIdx? (fun y => y.res == v)).getD 0

/-- SSA sanity (decidable, evaluated per function by the oracle: `ssa=1`):
  * every origin is defined where it is attached, every reachable value-computing instruction is the
    (first) definition of its result;
  * every data operand of a reachable value-computing instruction, and every boundary value of a
    reachable target, is defined at an instruction from which the use is reachable in the CFG
    (x/tools SSA: definitions dominate uses; a phi's operand reaches it through the predecessor). -/
def ssaOK (f : Func) (R : Array Bool) : Bool :=
  (f.origins.all fun o => defLoc f o.val == o.loc) &&
  ((List.range f.instrs.size).all fun i =>
    !R.getD i false ||
      (((f.instrs.getD i default).res == 0 || defLoc f (f.instrs.getD i default).res == i) &&
       (dataOps (f.instrs.getD i default)).all fun a => (reachFrom f (defLoc f a)).getD i false)) &&
  f.targets.all fun t => !R.getD t.loc false || (reachFrom f (defLoc f t.val)).getD t.loc false

end Argot.Intra
