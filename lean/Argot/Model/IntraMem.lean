/-
C08 / C01-L2 — the memory rows of the intra-procedural result-validation criterion: `Intra.closedMem`.
Core Lean only (linked into `oracle_c08`).

`Intra.closed` (Model/Intra.lean) covers register def-use chains only.  The Go pass also moves marks through
memory, and it does so in exactly three places
(analysis/dataflow/intra_procedural_instruction_ops.go, intra_procedural_monotone_analysis.go):

Go                                                             Lean (rule of `closedMem`)
-------------------------------------------------------------------------------------------------------------
DoStore      transfer(Val → Addr)  (+ FieldAddr base)          `storeOK`   marks(val) ⊆ marks(addr)   at the store
DoMapUpdate  transferPre(Key/Value → Map)                      `storeOK`
DoSend / DoSelect(send state)  simpleTransfer(X → Chan)        `storeOK`
markValue(i, v, m):  for ptr ∈ findAllPointers(v):             `aliasOK`   marks(addr) ⊆ marks(b) at the store,
   markPtrAliases(i, m, ptr)  — every value of the function                for every b with alias addr b
   whose Queries/IndirectQueries pointer MayAlias ptr is
   marked AT THE SAME INSTRUCTION i; afterwards the per-value
   state is carried by Pre() (rule `carryOK` of `closed`)
markValue(i, IndexAddr/FieldAddr/Slice v) → markValue(i, v.X)   the dumper emits one more store row whose
                                                                address is the container (so the same two rules)
DoUnOp(*, <-) / DoLookup / DoIndex / DoRange / DoSelect(recv)   `loadOK`    marks(addr) ⊆ marks(result) at the load

What the code does NOT do, and what the criterion therefore does not demand: `initialize()` attaches the
mark of a parameter / free variable to that value with `FlowInformation.AddMark` directly (no `markValue`),
and `markValue` returns early when the value already carries the mark (`HasMarkAt`).  So the own initial
mark of a parameter `p` is never pushed to the aliases of `p`, not even by a later `*p = …p…`
(`selfInit`).  The aliasing of parameters is handled by a different mechanism (`paramAliases`,
`addParamAliases`: summary edges into the aliased parameter nodes), which is outside this criterion.

`alias` is dumped from the REAL pointer analysis: `alias a b` iff both values have an entry in
`state.PointerAnalysis.Queries` and the two `pointer.Pointer`s `MayAlias` (their points-to label sets
intersect); the criterion uses its reflexive closure (a store through `a` followed by a load through the
same SSA value needs no pointer analysis).  Only direct queries are used: this is the relation C11 proves
sound (`may_alias_sound`) and a subset of what the code consults (it also tries `IndirectQueries`), so
the demand is implied by what the code does.
-/
import Argot.Spec.Intra

namespace Argot.Intra

/-- a write into memory at instruction `loc`: `*addr = v` (Store), `addr[k] = v` (MapUpdate: `vals = [k, v]`),
`addr <- v` (Send, send state of a Select), or the same write seen from a container of the address
(`addr` = base of the `FieldAddr`/`IndexAddr`/`Slice` the address was computed from). -/
structure StoreRow where
  loc  : Nat
  addr : Nat
  vals : List Nat
  deriving Repr, Inhabited

/-- a read from memory at instruction `loc`: `res = *addr`, `res = <-addr`, `res = addr[k]` (Lookup, Index),
`res = range addr`, `res = select{… <-addr …}`. -/
structure LoadRow where
  loc  : Nat
  addr : Nat
  res  : Nat
  deriving Repr, Inhabited

/-- memory facts of one function. `al` lists, per store address, the values the REAL pointer analysis says
may alias it. -/
structure Mem where
  stores : List StoreRow
  loads  : List LoadRow
  al     : List (Nat × List Nat)
  deriving Repr, Inhabited

/-- the values that may alias `a` (reflexive). -/
def Mem.aliases (M : Mem) (a : Nat) : List Nat :=
  a :: (M.al.filter (·.1 == a)).flatMap (·.2)

/-- the may-alias relation `alias : Value → Value → Bool`. -/
def Mem.alias (M : Mem) (a b : Nat) : Bool := (M.aliases a).contains b

/-- `m` is the initial mark of the parameter / free variable `a` itself (attached by `initialize()` with
`AddMark`, never alias-marked). -/
def selfInit (f : Func) (a m : Nat) : Bool :=
  f.origins.any fun o => o.idx.isNone && o.val == a && o.mark == m

/-- every mark of a stored value is on the address at the store. -/
def storeOK (M : Mem) (S : State) : Bool :=
  M.stores.all fun r => r.vals.all fun d =>
    subsetS (· < ·) (marksOf (S r.loc) d) (marksOf (S r.loc) r.addr)

/-- every mark on the address of a store (other than the address's own initial mark) is, at the store, on every
value that may alias the address. -/
def aliasOK (f : Func) (M : Mem) (S : State) : Bool :=
  M.stores.all fun r =>
    let ms := (marksOf (S r.loc) r.addr).filter fun m => !selfInit f r.addr m
    (M.aliases r.addr).all fun b => subsetS (· < ·) ms (marksOf (S r.loc) b)

/-- every mark on the address of a load is on the loaded value at the load. -/
def loadOK (M : Mem) (S : State) : Bool :=
  M.loads.all fun r => subsetS (· < ·) (marksOf (S r.loc) r.addr) (marksOf (S r.loc) r.res)

def closedMem (f : Func) (M : Mem) (S : State) : Bool :=
  storeOK M S && aliasOK f M S && loadOK M S

/-- number of (store row, mark) pairs excused by `selfInit` (reported as evidence). -/
def exemptCount (f : Func) (M : Mem) (S : State) : Nat :=
  M.stores.foldl (fun n r => n + ((marksOf (S r.loc) r.addr).filter (selfInit f r.addr)).length) 0

/-! ### specification side: chains that may go through memory -/

/-- `MChain f M o i v`: at program point `i`, value `v` derives from origin `o` through def-use steps,
CFG steps, and memory hops `store ; may-alias ; … ; load`.  The alias hop is only taken at a store
instruction, on the address of that store (this is where the code performs it); the marked alias is then
carried along the CFG to a later load like any other value. -/
inductive MChain (f : Func) (M : Mem) (o : Origin) : Nat → Nat → Prop
  | base : MChain f M o o.loc o.val
  | carry {i j v : Nat} : MChain f M o i v → j ∈ (f.instr i).succs → MChain f M o j v
  | step {i a : Nat} : MChain f M o i a → StepOK f o (f.instr i) a → MChain f M o i (f.instr i).res
  | store {d : Nat} {r : StoreRow} : r ∈ M.stores → d ∈ r.vals → MChain f M o r.loc d → MChain f M o r.loc r.addr
  | alias {b : Nat} {r : StoreRow} : r ∈ M.stores → M.alias r.addr b = true → selfInit f r.addr o.mark = false →
      MChain f M o r.loc r.addr → MChain f M o r.loc b
  | load {r : LoadRow} : r ∈ M.loads → MChain f M o r.loc r.addr → MChain f M o r.loc r.res

/-- the def-use tail of a chain, started at an arbitrary (program point, value). -/
inductive Tail (f : Func) (o : Origin) (i0 v0 : Nat) : Nat → Nat → Prop
  | refl : Tail f o i0 v0 i0 v0
  | carry {i j v : Nat} : Tail f o i0 v0 i v → j ∈ (f.instr i).succs → Tail f o i0 v0 j v
  | step {i a : Nat} : Tail f o i0 v0 i a → StepOK f o (f.instr i) a → Tail f o i0 v0 i (f.instr i).res

end Argot.Intra
