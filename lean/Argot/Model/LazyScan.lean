/-
C05 — on-demand summarisation at global nodes. Core Lean only (linked into oracle_c05).

Eager mode: `NewSummaryGraph` (function_summary_graph.go:214-229) adds an access-global node to a function
for EVERY instruction one of whose `Operands()` is the global.  On-demand mode: when the traversal
reaches a write (taint) / read (backtrace) node of a global, it builds the summaries of the reachable
functions `f` with `lang.FnReadsFrom(f, g)` / `lang.FnWritesTo(f, g)` — hand-written type switches
that compare chosen operand fields with the global — and then follows the read / write locations
recorded by the BUILT summaries.  `scan` is that switch, driven by the regenerated table T2.
-/

namespace Argot.LazyScan

/-- an SSA instruction: kind and operands as (operand field name, value id) -/
structure Instr where
  kind : String
  ops : List (String × Nat)
  deriving Repr, DecidableEq

abbrev Fn := List Instr

/-- eager: the function has an access node for global `g` -/
def hasAccessNode (f : Fn) (g : Nat) : Bool :=
  f.any fun i => i.ops.any fun o => o.2 == g

/-- on-demand: `FnReadsFrom` / `FnWritesTo` as (kind, field) table, or the generic `Operands()` scan -/
def scan (tbl : List (String × String)) (generic : Bool) (f : Fn) (g : Nat) : Bool :=
  f.any fun i => i.ops.any fun o => o.2 == g && (generic || tbl.contains (i.kind, o.1))

/-- every operand position of every instruction kind (table T1 `ssaOperands`) is recognised -/
def tableCompleteB (opsTbl : List (String × List String)) (tbl : List (String × String)) (generic : Bool) : Bool :=
  generic || opsTbl.all fun kf => kf.2.all fun fld => tbl.contains (kf.1, fld)

/-- the operand positions that are not recognised -/
def missing (opsTbl : List (String × List String)) (tbl : List (String × String)) (generic : Bool) : List (String × String) :=
  if generic then [] else
  opsTbl.flatMap fun kf => (kf.2.filter fun fld => !tbl.contains (kf.1, fld)).map fun fld => (kf.1, fld)

/-- instructions use operand fields of their kind -/
def WF (opsTbl : List (String × List String)) (f : Fn) : Prop :=
  ∀ i ∈ f, ∀ o ∈ i.ops, ∃ fs, (i.kind, fs) ∈ opsTbl ∧ o.1 ∈ fs

/-- successors of a global node of `g`: the access locations in the functions considered -/
def succAt {ν : Type} (fns : List Fn) (locs : Nat → Nat → List ν) (pick : Fn → Bool) (g : Nat) : List ν :=
  (fns.zipIdx.filter fun p => pick p.1).flatMap fun p => locs p.2 g

def eagerSucc {ν : Type} (fns : List Fn) (locs : Nat → Nat → List ν) (g : Nat) : List ν :=
  succAt fns locs (fun _ => true) g

def lazySucc {ν : Type} (tbl : List (String × String)) (generic : Bool) (fns : List Fn)
    (locs : Nat → Nat → List ν) (g : Nat) : List ν :=
  succAt fns locs (fun f => scan tbl generic f g) g

end Argot.LazyScan
