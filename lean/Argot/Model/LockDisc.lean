/-
Lock discipline of the state shared by the parallel summary workers (C20, memory-level part).

Code modelled (analysis/dataflow/globals.go, state.go): a struct carries one `sync.Mutex` /
`sync.RWMutex` field and some fields guarded by it; functions access a guarded field either bare
or between `x.mu.Lock()` / `x.mu.RLock()` and the matching (deferred) unlock:

    func (g *GlobalNode) addReadLoc(n GraphNode) { g.mutex.Lock(); defer g.mutex.Unlock(); g.ReadLocations[n] = true }

A `Site` is one such access as the translator T13 (harness/extract/t13_locks.go) tabulates it.
The LTS: any number of workers (indexed by `Nat`); each worker repeatedly picks a site of the table
and an instance `n` of the struct (instance `n` has its own mutex and its own copy of each field),
acquires what the site takes (`Lock` exclusive, `RLock` shared, nothing), begins the memory access,
ends it, releases. `Lock` is enabled only while no other worker holds the same mutex in any mode,
`RLock` only while no other worker holds it exclusively (sync.RWMutex; a plain Mutex has no RLock).
A *race* is a state in which two different workers are both in the middle of an access to the same
field of the same instance and at least one of them writes.

Not modelled: writer preference/starvation of RWMutex (irrelevant to safety), aliases of a guarded
map obtained by an earlier read, accesses outside the tabulated functions.
-/

namespace Argot.LockDisc

inductive Acc | read | write
  deriving DecidableEq, Repr

/-- what the function holds around the access -/
inductive Held | none | rlock | lock
  deriving DecidableEq, Repr

/-- one tabulated access: field id, mutex id, kind of access, lock mode held at that point -/
structure Site where
  field : Nat
  mu : Nat
  acc : Acc
  held : Held
  deriving DecidableEq, Repr

/-- a table row: `Site` + provenance (function, line) + "may run while another goroutine runs" -/
structure Row where
  fn : String
  line : Nat
  site : Site
  conc : Bool
  deriving Repr

/-- worker control state; the `Nat` is the struct instance the worker operates on -/
inductive W
  | idle
  | held (s : Site) (n : Nat)   -- lock (if any) acquired, access not begun
  | acc (s : Site) (n : Nat)    -- in the middle of the memory access
  | post (s : Site) (n : Nat)   -- access finished, lock (if any) not yet released
  deriving DecidableEq, Repr

/-- the mode in which worker state `w` holds mutex `(m, n)` -/
def holds (w : W) (m n : Nat) : Held :=
  match w with
  | .idle => .none
  | .held s k | .acc s k | .post s k => if s.mu = m ∧ k = n then s.held else .none

abbrev State := Nat → W

def init : State := fun _ => .idle

def upd (σ : State) (i : Nat) (w : W) : State := fun j => if j = i then w else σ j

/-- sync.(RW)Mutex: may worker `i` acquire mutex `(m, n)` in mode `h` now? -/
def canAcquire (σ : State) (i : Nat) (m n : Nat) : Held → Prop
  | .none => True
  | .rlock => ∀ j, j ≠ i → holds (σ j) m n ≠ .lock
  | .lock => ∀ j, j ≠ i → holds (σ j) m n = .none

inductive Step (tbl : List Site) : State → State → Prop
  | acquire (i : Nat) (s : Site) (n : Nat) : σ i = .idle → s ∈ tbl → canAcquire σ i s.mu n s.held →
      Step tbl σ (upd σ i (.held s n))
  | begin (i : Nat) (s : Site) (n : Nat) : σ i = .held s n → Step tbl σ (upd σ i (.acc s n))
  | finish (i : Nat) (s : Site) (n : Nat) : σ i = .acc s n → Step tbl σ (upd σ i (.post s n))
  | release (i : Nat) (s : Site) (n : Nat) : σ i = .post s n → Step tbl σ (upd σ i .idle)

inductive Reachable (tbl : List Site) : State → Prop
  | init : Reachable tbl init
  | step : Reachable tbl σ → Step tbl σ σ' → Reachable tbl σ'

/-- two different workers in the middle of an access to the same field of the same instance, one writing -/
def Race (σ : State) : Prop :=
  ∃ i j s t n, i ≠ j ∧ σ i = .acc s n ∧ σ j = .acc t n ∧ s.field = t.field ∧ (s.acc = .write ∨ t.acc = .write)

/-- the field is written by some site of the table -/
def written (tbl : List Site) (f : Nat) : Bool := tbl.any (fun w => w.field == f && w.acc == .write)

/-- lock requirement of one site: write ⇒ `Lock`; read ⇒ `Lock` or `RLock` -/
def siteOK (s : Site) : Bool :=
  match s.acc with
  | .write => s.held == .lock
  | .read => s.held != .none

/-- The discipline (decidable): every site of a field that some site writes satisfies `siteOK`,
and all sites of one field name the same mutex. Fields no site writes need no lock. -/
def disciplineOK (tbl : List Site) : Bool :=
  tbl.all (fun s => (!written tbl s.field || siteOK s) && tbl.all (fun t => t.field != s.field || t.mu == s.mu))

/-- the sites workers can execute concurrently -/
def concSites (rows : List Row) : List Site := (rows.filter (·.conc)).map (·.site)

/-! ### invariant -/

/-- exclusive holder excludes every other holder; every non-idle worker runs a site of the table -/
structure Inv (tbl : List Site) (σ : State) : Prop where
  excl : ∀ i j m n, i ≠ j → holds (σ i) m n = .lock → holds (σ j) m n = .none
  mem : ∀ i s n, (σ i = .held s n ∨ σ i = .acc s n ∨ σ i = .post s n) → s ∈ tbl

theorem holds_held (s : Site) (n : Nat) : holds (.held s n) s.mu n = s.held := by simp [holds]
theorem holds_acc (s : Site) (n : Nat) : holds (.acc s n) s.mu n = s.held := by simp [holds]

theorem inv_init (tbl : List Site) : Inv tbl init :=
  ⟨by intro i j m n _ h; simp [init, holds] at h, by intro i s n h; simp [init] at h⟩

/-- a step that changes worker `i` from `w` to `w'` without changing what it holds keeps `excl` -/
theorem excl_same {σ : State} {i : Nat} {w' : W}
    (hex : ∀ i j m n, i ≠ j → holds (σ i) m n = .lock → holds (σ j) m n = .none)
    (hh : ∀ m n, holds w' m n = holds (σ i) m n) :
    ∀ a b m n, a ≠ b → holds (upd σ i w' a) m n = .lock → holds (upd σ i w' b) m n = .none := by
  intro a b m n hab h
  have e : ∀ c, holds (upd σ i w' c) m n = holds (σ c) m n := by
    intro c
    by_cases hc : c = i
    · subst hc; simp [upd, hh]
    · simp [upd, hc]
  rw [e] at h ⊢
  exact hex a b m n hab h

theorem inv_step {tbl : List Site} {σ σ' : State} (I : Inv tbl σ) (st : Step tbl σ σ') : Inv tbl σ' := by
  cases st with
  | acquire i s n hi hs hc =>
    constructor
    · intro a b m k hab h
      by_cases ha : a = i
      · -- the acquiring worker holds exclusively: the guard says nobody else holds
        subst ha
        have hb : b ≠ a := fun e => hab e.symm
        simp only [upd, if_true, if_neg hb] at h ⊢
        simp only [holds] at h
        split at h
        · rename_i hmk
          obtain ⟨rfl, rfl⟩ := hmk
          rw [h] at hc
          exact hc b hb
        · cases h
      · by_cases hb : b = i
        · -- somebody else holds exclusively, `i` acquires: impossible unless it takes nothing
          subst hb
          simp only [upd, if_true, if_neg ha] at h ⊢
          simp only [holds]
          split
          · rename_i hmk
            obtain ⟨rfl, rfl⟩ := hmk
            cases hh : s.held with
            | none => rfl
            | rlock => rw [hh] at hc; exact absurd h (hc a ha)
            | lock => rw [hh] at hc; rw [hc a ha] at h; cases h
          · rfl
        · simp only [upd, if_neg ha, if_neg hb] at h ⊢
          exact I.excl a b m k hab h
    · intro a t k h
      by_cases ha : a = i
      · subst ha
        simp [upd] at h
        obtain ⟨rfl, _⟩ := h
        exact hs
      · simp only [upd, if_neg ha] at h
        exact I.mem a t k h
  | begin i s n hi =>
    constructor
    · exact excl_same I.excl (by intro m k; rw [hi]; rfl)
    · intro a t k h
      by_cases ha : a = i
      · subst ha
        simp [upd] at h
        obtain ⟨rfl, _⟩ := h
        exact I.mem a _ n (Or.inl hi)
      · simp only [upd, if_neg ha] at h
        exact I.mem a t k h
  | finish i s n hi =>
    constructor
    · exact excl_same I.excl (by intro m k; rw [hi]; rfl)
    · intro a t k h
      by_cases ha : a = i
      · subst ha
        simp [upd] at h
        obtain ⟨rfl, _⟩ := h
        exact I.mem a _ n (Or.inr (Or.inl hi))
      · simp only [upd, if_neg ha] at h
        exact I.mem a t k h
  | release i s n hi =>
    constructor
    · intro a b m k hab h
      by_cases ha : a = i
      · subst ha; simp [upd, holds] at h
      · by_cases hb : b = i
        · subst hb; simp [upd, holds]
        · simp only [upd, if_neg ha, if_neg hb] at h ⊢
          exact I.excl a b m k hab h
    · intro a t k h
      by_cases ha : a = i
      · subst ha; simp [upd] at h
      · simp only [upd, if_neg ha] at h
        exact I.mem a t k h

theorem inv_reachable {tbl : List Site} {σ : State} (h : Reachable tbl σ) : Inv tbl σ := by
  induction h with
  | init => exact inv_init tbl
  | step _ st ih => exact inv_step ih st

end Argot.LockDisc
