/-
Model of `internal/funcutil.MapParallel` (collections.go:83-125) as a labelled transition system.
Core Lean only (linked into `oracle_c20`).

```go
func MapParallel[T any, S any](a []T, f func(T) S, numRoutines int) []S {
	in := make(chan elt[T])                       // unbuffered
	go func() { defer close(in); for i, x := range a { in <- elt[T]{i, x} } }()      // producer
	out := make(chan elt[S])                      // unbuffered
	wg := &sync.WaitGroup{}
	if numRoutines <= 0 { numRoutines = 1 }
	wg.Add(numRoutines)
	for i := 0; i < numRoutines; i++ {
		go func() { defer wg.Done(); for x := range in { out <- elt[S]{x.idx, f(x.x)} } }()   // worker
	}
	go func() { wg.Wait(); close(out) }()         // closer
	xs := make([]elt[S], 0, len(out))
	for x := range out { xs = append(xs, x) }     // collector (the calling goroutine)
	res := make([]S, len(xs))
	for _, x := range xs { res[x.idx] = x.x }     // placement by index
	return res
}
```

Processes: the calling goroutine (`Main`: spawns, collects, places, returns), the producer, the
workers (the list grows as they are spawned), the closer.  Unbuffered channels are rendezvous:
one transition moves the element from the sender to the receiver.  Run-time crashes of the Go
program are transitions into `err := true` (send on a closed channel, negative WaitGroup counter,
index out of range in the placement, close of a closed channel); `no_crash` proves none is reachable.
-/

namespace Argot.MapPar

/-- a worker goroutine: at `range in` | running `f` on element `i` | blocked on `out <- (i, y)` | returned -/
inductive W (β : Type) where
  | idle
  | busy (i : Nat)
  | hold (i : Nat) (y : β)
  | done
  deriving Repr, DecidableEq

/-- the calling goroutine -/
inductive Main (β : Type) where
  | start                          -- before `go producer`
  | addWg                          -- before `wg.Add(numRoutines)`
  | spawnW                         -- in the spawning loop (number spawned = length of `ws`), then `go closer`
  | collect                        -- `for x := range out`
  | place (todo : List (Nat × β))  -- `for _, x := range xs { res[x.idx] = x.x }`
  | ret
  deriving Repr, DecidableEq

/-- the producer goroutine: not yet started | about to send element `i` (or to close when `i = len`) | returned -/
inductive Prod where
  | unspawned
  | loop (i : Nat)
  | done
  deriving Repr, DecidableEq

/-- the closer goroutine: not yet started | in `wg.Wait()` | before `close(out)` | returned -/
inductive Closer where
  | unspawned
  | waiting
  | closing
  | done
  deriving Repr, DecidableEq

structure State (β : Type) where
  main : Main β := .start
  prod : Prod := .unspawned
  inClosed : Bool := false
  ws : List (W β) := []
  wg : Nat := 0
  closer : Closer := .unspawned
  outClosed : Bool := false
  xs : List (Nat × β) := []          -- what the collector has appended so far
  res : List (Option β) := []        -- `none` = the zero value left by `make`
  err : Bool := false                -- the Go program crashed
  deriving Repr

/-- `if numRoutines <= 0 { numRoutines = 1 }` -/
def effWorkers (n : Int) : Nat := if n ≤ 0 then 1 else n.toNat

inductive Label where
  | spawnProd
  | wgAdd
  | spawnWorker
  | spawnCloser
  | send (w : Nat)       -- producer hands its next element to worker `w` (rendezvous on `in`)
  | closeIn
  | compute (w : Nat)    -- worker `w` finishes `f`
  | recvOut (w : Nat)    -- worker `w` hands its result to the collector (rendezvous on `out`)
  | workerExit (w : Nat) -- worker `w` sees `in` closed, leaves the loop, `wg.Done()`
  | closerPass           -- `wg.Wait()` returns
  | closeOut
  | collectEnd           -- the collector sees `out` closed; `res := make([]S, len(xs))`
  | placeOne
  | return
  | sendOnClosed (w : Nat)   -- crash: worker `w` sends on the closed `out`
  deriving Repr, DecidableEq

variable {α β : Type}

/-- One transition. `none` = the label is not enabled in this state. -/
def step (f : α → β) (a : List α) (n : Int) (l : Label) (σ : State β) : Option (State β) :=
  if σ.err then none else
  match l with
  | .spawnProd =>
    match σ.main with
    | .start => some { σ with main := .addWg, prod := .loop 0 }
    | _ => none
  | .wgAdd =>
    match σ.main with
    | .addWg => some { σ with main := .spawnW, wg := σ.wg + effWorkers n }
    | _ => none
  | .spawnWorker =>
    match σ.main with
    | .spawnW => if σ.ws.length < effWorkers n then some { σ with ws := σ.ws ++ [.idle] } else none
    | _ => none
  | .spawnCloser =>
    match σ.main, σ.closer with
    | .spawnW, .unspawned =>
      if σ.ws.length < effWorkers n then none else some { σ with main := .collect, closer := .waiting }
    | _, _ => none
  | .send w =>
    match σ.prod, σ.ws[w]? with
    | .loop i, some .idle =>
      if i < a.length ∧ σ.inClosed = false then some { σ with prod := .loop (i + 1), ws := σ.ws.set w (.busy i) }
      else none
    | _, _ => none
  | .closeIn =>
    match σ.prod with
    | .loop i =>
      if i < a.length then none
      else if σ.inClosed then some { σ with err := true }
      else some { σ with prod := .done, inClosed := true }
    | _ => none
  | .compute w =>
    match σ.ws[w]? with
    | some (.busy i) =>
      match a[i]? with
      | some x => some { σ with ws := σ.ws.set w (.hold i (f x)) }
      | none => none
    | _ => none
  | .recvOut w =>
    match σ.main, σ.ws[w]? with
    | .collect, some (.hold i y) =>
      if σ.outClosed then none else some { σ with ws := σ.ws.set w .idle, xs := σ.xs ++ [(i, y)] }
    | _, _ => none
  | .sendOnClosed w =>
    match σ.ws[w]? with
    | some (.hold _ _) => if σ.outClosed then some { σ with err := true } else none
    | _ => none
  | .workerExit w =>
    match σ.ws[w]? with
    | some .idle =>
      if σ.inClosed then
        (if σ.wg = 0 then some { σ with err := true }      -- negative WaitGroup counter
         else some { σ with ws := σ.ws.set w .done, wg := σ.wg - 1 })
      else none
    | _ => none
  | .closerPass =>
    match σ.closer with
    | .waiting => if σ.wg = 0 then some { σ with closer := .closing } else none
    | _ => none
  | .closeOut =>
    match σ.closer with
    | .closing => if σ.outClosed then some { σ with err := true }
                  else some { σ with closer := .done, outClosed := true }
    | _ => none
  | .collectEnd =>
    match σ.main with
    | .collect => if σ.outClosed then some { σ with main := .place σ.xs, res := List.replicate σ.xs.length none }
                  else none
    | _ => none
  | .placeOne =>
    match σ.main with
    | .place ((i, y) :: rest) =>
      if i < σ.res.length then some { σ with main := .place rest, res := σ.res.set i (some y) }
      else some { σ with err := true }                    -- index out of range
    | _ => none
  | .return =>
    match σ.main with
    | .place [] => some { σ with main := .ret }
    | _ => none

def init : State β := {}

/-- the transition relation: some label is enabled and leads from `σ` to `σ'` -/
def Step (f : α → β) (a : List α) (n : Int) (σ σ' : State β) : Prop := ∃ l, step f a n l σ = some σ'

/-- every state some schedule can produce -/
inductive Reachable (f : α → β) (a : List α) (n : Int) : State β → Prop where
  | init : Reachable f a n init
  | step {σ σ'} : Reachable f a n σ → Step f a n σ σ' → Reachable f a n σ'

/-- `MapParallel` has returned -/
def Terminal (σ : State β) : Prop := σ.main = .ret ∧ σ.err = false

/-- the slice returned; a `none` would be a slot never written (zero value) -/
def State.result (σ : State β) : List (Option β) := σ.res

/-- every label, for enumeration by the oracle (`w` ranges over the workers) -/
def allLabels (nw : Nat) : List Label :=
  [.spawnProd, .wgAdd, .spawnWorker, .spawnCloser, .closeIn, .closerPass, .closeOut, .collectEnd, .placeOne, .return]
  ++ (List.range nw).flatMap fun w => [.send w, .compute w, .recvOut w, .workerExit w, .sendOnClosed w]

/-- strictly decreasing along every transition (`Proofs/MapPar.lean`) -/
def W.weight : W β → Nat
  | .idle => 1 | .busy _ => 4 | .hold _ _ => 3 | .done => 0

def wsWeight (ws : List (W β)) : Nat := (ws.map W.weight).sum

def measure (a : List α) (n : Int) (σ : State β) : Nat :=
  (if σ.err then 0 else 1)
  + (match σ.main with
     | .start => 6 + 2 * effWorkers n + 4 * a.length + σ.xs.length
     | .addWg => 4 + 2 * effWorkers n + σ.xs.length
     | .spawnW => 3 + 2 * (effWorkers n - σ.ws.length) + σ.xs.length
     | .collect => 2 + σ.xs.length
     | .place todo => 1 + todo.length
     | .ret => 0)
  + (match σ.prod with
     | .unspawned => 4 * a.length + 1
     | .loop i => 4 * (a.length - i) + 1
     | .done => 0)
  + wsWeight σ.ws
  + (match σ.closer with
     | .unspawned => 3 | .waiting => 2 | .closing => 1 | .done => 0)

/-! ### trace replay (tie M2)

The instrumented `f` of the driver records `start i g` / `end i g` events in one global order.
`start i g` is recorded by goroutine `g` *after* it received element `i`, so the rendezvous
itself happened earlier, in index order (the producer is sequential).  `replay` therefore fires,
at `start i _`, the sends of all not yet sent elements `≤ i` (each to the worker that the trace
later shows running it, `owner`), delivering a held result to the collector first when that worker
still holds one; `end i g` fires `compute g`.  Every fired transition goes through `step`,
so an accepted trace is a run of the LTS. -/

inductive Ev where
  | start (i w : Nat)
  | fin (i w : Nat)
  deriving Repr

/-- apply a list of labels, stop at the first that is not enabled -/
def runLabels (f : α → β) (a : List α) (n : Int) : List Label → State β → Except String (State β)
  | [], σ => .ok σ
  | l :: ls, σ =>
    match step f a n l σ with
    | some σ' => runLabels f a n ls σ'
    | none => .error s!"label {repr l} not enabled"

/-- owner table: element index ↦ worker that the trace shows running it (first `start` event) -/
def ownerTable (len : Nat) (evs : List Ev) : Array (Option Nat) :=
  evs.foldl (fun t e => match e with
    | .start j w => if j < t.size then (match t[j]! with | none => t.set! j (some w) | some _ => t) else t
    | _ => t) (Array.replicate len none)

def ownerOf (tbl : Array (Option Nat)) (i : Nat) : Option Nat := (tbl[i]?).join

/-- send elements `next … upto` (inclusive) to their owners -/
def sendUpTo (f : α → β) (a : List α) (n : Int) (evs : Array (Option Nat)) (upto : Nat) :
    Nat → State β → Except String (State β)
  | 0, σ => .ok σ
  | fuel + 1, σ =>
    match σ.prod with
    | .loop i =>
      if i > upto then .ok σ else
      match ownerOf evs i with
      | none => .error s!"element {i} is sent before element {upto} but no goroutine ever runs f on it"
      | some w =>
        let pre : List Label := match σ.ws[w]? with
          | some (.hold _ _) => [.recvOut w]
          | _ => []
        match runLabels f a n (pre ++ [.send w]) σ with
        | .ok σ' => sendUpTo f a n evs upto fuel σ'
        | .error e => .error s!"sending element {i} to worker {w}: {e}"
    | _ => .error "producer is not in its loop"

def replayEv (f : α → β) (a : List α) (n : Int) (evs : Array (Option Nat)) (σ : State β) : Ev → Except String (State β)
  | .start i w =>
    match sendUpTo f a n evs i (i + 1) σ with
    | .error e => .error e
    | .ok σ' =>
      match σ'.ws[w]? with
      | some (.busy j) => if j = i then .ok σ' else .error s!"start {i} on worker {w} which is running {j}"
      | _ => .error s!"start {i} on worker {w} which did not receive it"
  | .fin i w =>
    match σ.ws[w]? with
    | some (.busy j) =>
      if j = i then runLabels f a n [.compute w] σ else .error s!"end {i} on worker {w} which is running {j}"
    | _ => .error s!"end {i} on worker {w} which is not running f"

/-- fire enabled labels (first enabled in `allLabels` order) until none is; fuel from `measure` -/
def drain (f : α → β) (a : List α) (n : Int) : Nat → State β → State β
  | 0, σ => σ
  | fuel + 1, σ =>
    match (allLabels (effWorkers n)).findSome? (fun l => step f a n l σ) with
    | some σ' => drain f a n fuel σ'
    | none => σ

/-- all spawning steps first (always enabled), then the events, then drain to the end -/
def replay (f : α → β) (a : List α) (n : Int) (evs : List Ev) : Except String (State β) := do
  let spawn : List Label := [.spawnProd, .wgAdd] ++ List.replicate (effWorkers n) .spawnWorker ++ [.spawnCloser]
  let σ0 ← runLabels f a n spawn init
  let tbl := ownerTable a.length evs
  let σ1 ← evs.foldlM (fun σ e => replayEv f a n tbl σ e) σ0
  let σ2 := drain f a n (measure a n σ1 + 1) σ1
  .ok σ2

end Argot.MapPar
