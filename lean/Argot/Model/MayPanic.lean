/-
Model of analysis/maypanic/lightweight.go (MayPanicAnalyzer and its helpers), core Lean only.

Go                                   Lean
---------------------------------------------------------------------------
ssautil.AllFunctions(program)         Prog = List Fn (a function is its index)
*ssa.Go / *ssa.Defer / *ssa.Call      Site (position id, how the code sees the call value, target)
findGoFunctions                       goPairs        (function, creation position) pairs
doesRecover                           doesRecover
doesDeferRecover                      doesDeferRecover
allowListed + analysisutil.IsExcluded excludedFn     (only when f.Pkg != nil)
findErroredFunctions + report         isReported / creators / report

Which forms of call value each of the three scans handles is NOT hard-wired: it is the `Tables`
record, regenerated from the Go source on every run (Argot/Gen/MayPanic.lean, interpreted in
Argot/Model/MayPanicGen.lean).  Two entries (`goInvoke`, `goValue`) describe what a *complete*
analysis would do for the launch forms the current code ignores; no current code path sets them.
-/
namespace Argot.MayPanic

/-- How the code classifies `v.Call` of a Go / Defer / Call instruction. -/
inductive CallForm where
  | invoke    -- v.Call.IsInvoke()
  | fn        -- v.Call.Value is *ssa.Function (named function, method with receiver argument,
              -- capture-free literal, generic instance, $thunk, promoted-method wrapper)
  | closure   -- v.Call.Value is *ssa.MakeClosure (capturing literal, $bound method value)
  | builtin   -- v.Call.Value is *ssa.Builtin
  | value     -- any other ssa.Value (parameter, phi, load of a variable/field/element, call result …)
  deriving DecidableEq, Repr, Inhabited

structure Site where
  pos     : Nat            -- id of the source position of the instruction
  form    : CallForm
  target  : Option Nat     -- the *ssa.Function for `fn`, MakeClosure.Fn for `closure`
  builtin : String         -- name for `builtin`
  callees : List Nat       -- specification side: functions the call may enter (call graph)
  deriving Repr, Inhabited

structure Fn where
  pkg    : Option String   -- f.Pkg.Pkg.Path(); none when f.Pkg == nil (synthetic wrappers, instances)
  file   : String          -- file name of f.Pos()
  gos    : List Site
  defers : List Site
  calls  : List Site
  deriving Repr, Inhabited

abbrev Prog := List Fn

structure Tables where
  goFn           : Bool   -- findGoFunctions records a *ssa.Function call value
  goClosure      : Bool   -- … a *ssa.MakeClosure whose Fn is a *ssa.Function
  goInvoke       : Bool   -- … every callee of an invoke-mode go (not in the current code)
  goValue        : Bool   -- … every callee of a go through another function value (not in the current code)
  deferFn        : Bool   -- doesDeferRecover looks through a *ssa.Function call value
  deferClosure   : Bool   -- … through a *ssa.MakeClosure
  recoverBuiltin : Bool   -- doesRecover: non-invoke *ssa.Call of the builtin named "recover"
  allow          : List String
  deriving Repr, DecidableEq

/-- `findGoFunctions`, one go statement: the functions recorded for it. -/
def launchTargets (T : Tables) (s : Site) : List Nat :=
  match s.form with
  | .fn => if T.goFn then s.target.toList else []
  | .closure => if T.goClosure then s.target.toList else []
  | .invoke => if T.goInvoke then s.callees else []
  | .value => if T.goValue then s.callees else []
  | .builtin => []

/-- the form is handled by `findGoFunctions` -/
def handlesGo (T : Tables) : CallForm → Bool
  | .fn => T.goFn
  | .closure => T.goClosure
  | .invoke => T.goInvoke
  | .value => T.goValue
  | .builtin => true

/-- `findGoFunctions` over all functions: (launched function, position of the go statement). -/
def goPairs (T : Tables) (P : Prog) : List (Nat × Nat) :=
  P.flatMap fun h => h.gos.flatMap fun s => (launchTargets T s).map fun f => (f, s.pos)

def isRecoverCall (T : Tables) (c : Site) : Bool :=
  T.recoverBuiltin && c.form == .builtin && c.builtin == "recover"

/-- `doesRecover` -/
def doesRecover (T : Tables) (g : Fn) : Bool := g.calls.any (isRecoverCall T)

def fnAt (P : Prog) (f : Nat) : Fn := P.getD f default

/-- one Defer instruction of `doesDeferRecover` -/
def deferRecovers (T : Tables) (P : Prog) (d : Site) : Bool :=
  match d.form, d.target with
  | .fn, some t => T.deferFn && t < P.length && doesRecover T (fnAt P t)
  | .closure, some t => T.deferClosure && t < P.length && doesRecover T (fnAt P t)
  | _, _ => false

/-- `doesDeferRecover` -/
def doesDeferRecover (T : Tables) (P : Prog) (f : Nat) : Bool :=
  (fnAt P f).defers.any (deferRecovers T P)

/-- `allowListed` -/
def allowListed (T : Tables) (path : String) : Bool :=
  T.allow.any fun p => p == path || path.startsWith (p ++ "/")

/-- `isExcludedOne` on the file name of `f.Pos()` -/
def isExcludedOne (file excl : String) : Bool :=
  if excl.endsWith ".go" then file == excl
  else if excl.endsWith "/" then file.startsWith excl
  else file.startsWith (excl ++ "/")

def isExcluded (file : String) (excl : List String) : Bool := excl.any (isExcludedOne file)

/-- the filter of `MayPanicAnalyzer`: applies only when `f.Pkg != nil` -/
def excludedFn (T : Tables) (excl : List String) (P : Prog) (f : Nat) : Bool :=
  match (fnAt P f).pkg with
  | none => false
  | some p => allowListed T p || isExcluded (fnAt P f).file excl

def isReported (T : Tables) (excl : List String) (P : Prog) (f : Nat) : Bool :=
  (goPairs T P).any (fun p => p.1 == f) && !excludedFn T excl P f && !doesDeferRecover T P f

def creators (T : Tables) (P : Prog) (f : Nat) : List Nat :=
  ((goPairs T P).filter (fun p => p.1 == f)).map (·.2)

/-- the findings: reported function with the positions of its go statements -/
def report (T : Tables) (excl : List String) (P : Prog) : List (Nat × List Nat) :=
  ((List.range P.length).filter (isReported T excl P)).map fun f => (f, creators T P f)

/-! ### what the property asks for (decidable, evaluated by the oracle on every dumped program) -/

/-- the function contains a call of the builtin `recover` (syntactic, independent of the tables) -/
def callsRecover (g : Fn) : Bool :=
  g.calls.any fun c => c.form == .builtin && c.builtin == "recover"

/-- "f itself defers a function that calls recover": some defer statement of `f` may enter
(call graph) a function that contains a `recover()` call. -/
def defersRecoverSpec (P : Prog) (f : Nat) : Bool :=
  (fnAt P f).defers.any fun d => d.callees.any fun g => g < P.length && callsRecover (fnAt P g)

/-- everything the full-strength property demands: (launched function, creation position, launch form) -/
def needed (T : Tables) (excl : List String) (P : Prog) : List (Nat × Nat × CallForm) :=
  P.flatMap fun h => h.gos.flatMap fun s => (s.callees.filter fun f =>
    f < P.length && !excludedFn T excl P f && !defersRecoverSpec P f).map fun f => (f, s.pos, s.form)

def reportedPair (T : Tables) (excl : List String) (P : Prog) (f pos : Nat) : Bool :=
  isReported T excl P f && (creators T P f).contains pos

/-- demanded but not reported -/
def missing (T : Tables) (excl : List String) (P : Prog) : List (Nat × Nat × CallForm) :=
  (needed T excl P).filter fun n => !reportedPair T excl P n.1 n.2.1

/-- dumper guarantees: targets and callees are function indices; the call graph of a
static/closure call is its target. -/
def siteWf (n : Nat) (s : Site) : Bool :=
  s.callees.all (· < n) &&
  (match s.form, s.target with
   | .fn, some t => s.callees == [t]
   | .closure, some t => s.callees == [t]
   | .fn, none => false
   | .closure, none => false
   | .builtin, none => s.callees == []
   | _, some _ => false
   | _, none => true)

def wf (P : Prog) : Bool :=
  P.all fun f => f.gos.all (siteWf P.length) && f.defers.all (siteWf P.length) && f.calls.all (siteWf P.length)

end Argot.MayPanic
