/-
Interpretation of the regenerated table T4 (Argot/Gen/MayPanic.lean, guard paths of
analysis/maypanic/lightweight.go) as the `Tables` record of the model.

A guard path the model does not know makes `genKnown = false` (the obligation `gen_known` of
Props/C19 then fails): the model never guesses what changed code does.
-/
import Argot.Model.MayPanic
import Argot.Gen.MayPanic

namespace Argot.MayPanic
open Argot.Gen.MayPanic

/-! the paths of the code as modelled (loops are not part of the meaning of a path) -/

def dropLoops (p : List String) : List String := p.filter fun g => !(g.startsWith "range ")

def pGoFn : List String :=
  ["instr:*ssa.Go", "!(v.Call.IsInvoke())", "v.Call.Value:*ssa.Function", "addGoFunction(value, v.Pos(), result)"]
def pGoClosure : List String :=
  ["instr:*ssa.Go", "!(v.Call.IsInvoke())", "v.Call.Value:*ssa.MakeClosure", "value.Fn:*ssa.Function",
   "addGoFunction(fn, v.Pos(), result)"]
def pRecover : List String :=
  ["instr:*ssa.Call", "!(v.Call.IsInvoke())", "v.Call.Value:*ssa.Builtin", "builtinName{value.Name()}==\"recover\"",
   "return true"]
def pDeferFn : List String :=
  ["instr:*ssa.Defer", "!(v.Call.IsInvoke())", "v.Call.Value:*ssa.Function", "found{recoverFunctions[value]}", "return true"]
def pDeferClosure : List String :=
  ["instr:*ssa.Defer", "!(v.Call.IsInvoke())", "v.Call.Value:*ssa.MakeClosure", "value.Fn:*ssa.Function",
   "found{recoverFunctions[fn]}", "return true"]

/-- the parts of the code that are modelled as fixed logic (not as a table) -/
def fixedPartsAsModelled : Bool :=
  recoverSetPaths == [["range allFunctions", "doesRecover(f)", "result[f] = true"]] &&
  erroredPaths == [["range goFunctions", "!doesDeferRecover(f, recoverFunctions)", "result[f] = true"]] &&
  filterPaths == [["range goFunctions", "f.Pkg != nil",
    "allowListed(path) || analysisutil.IsExcluded(program, f, exclude)", "delete(goFunctions, f)"]] &&
  allowListedPaths == [["range allowList", "p == path || strings.HasPrefix(path, p+\"/\")", "return true"]] &&
  isExcludedOnePaths == [
    ["!(strings.HasSuffix(exclude, \".go\"))", "!(strings.HasSuffix(exclude, \"/\"))",
      "return strings.HasPrefix(filename, exclude+\"/\")"],
    ["!(strings.HasSuffix(exclude, \".go\"))", "strings.HasSuffix(exclude, \"/\")",
      "return strings.HasPrefix(filename, exclude)"],
    ["strings.HasSuffix(exclude, \".go\")", "return filename == exclude"]] &&
  isExcludedPaths == [["range exclude", "isExcludedOne(program, f, e)", "return true"], ["return false"]]

/-- every regenerated path is one the model interprets -/
def genKnown : Bool :=
  !unparsed &&
  (goPaths.map dropLoops).all (fun p => p == pGoFn || p == pGoClosure) &&
  (recoverPaths.map dropLoops).all (fun p => p == pRecover) &&
  (deferPaths.map dropLoops).all (fun p => p == pDeferFn || p == pDeferClosure) &&
  fixedPartsAsModelled

/-- the tables of the code as it is now -/
def genTables : Tables :=
  { goFn := (goPaths.map dropLoops).contains pGoFn
    goClosure := (goPaths.map dropLoops).contains pGoClosure
    goInvoke := false
    goValue := false
    deferFn := (deferPaths.map dropLoops).contains pDeferFn
    deferClosure := (deferPaths.map dropLoops).contains pDeferClosure
    recoverBuiltin := (recoverPaths.map dropLoops).contains pRecover
    allow := allowList }

end Argot.MayPanic
