/-
Model of the code that decides when a sanitizer / validator suppresses a taint flow (property C02),
core Lean only.

Go                                                        Lean
---------------------------------------------------------------------------------------------
dataflow.FindPathBetweenBlocks (path.go)                  findPath / search   (fuel = max pops)
lang.BlockTree + PathToLeaf().ToBlocks()                  Entry = (block, reversed ancestors); `pathOf`
dataflow.SimplePathCondition                              pathConds
dataflow.Condition{IsPositive, Value}                     Cond = (pol, value id)
IntraAnalysisState.checkPathBetweenInstructions           instrPathConds (same-block shortcut)
lang.MatchNilCheck / MatchNegation / ssa value shapes     VExpr (a value unfolded along the operands these
                                                          functions look at; every node keeps its value id)
lang.ValuesWithSameData                                   sameData
dataflow.isValuePredicateTo / ConditionInfo.AsPredicateTo isPredTo / asPredicateTo
taint.isValidatorCondition                                isValidatorCond
taint.(*Visitor).addNext "Check for validators"           dropEdge
IntraAnalysisState.checkFlow+makeEdgesAtCallSite cond     edgeConds

A CFG is the list of blocks in index order.  `isIf` says that the last instruction of the block is an
`*ssa.If` whose condition is the value with id `cond`; `succs` are the successor indices in order.
-/
namespace Argot.PathCond

structure Block where
  succs : List Nat
  isIf  : Bool
  cond  : Nat
  deriving Repr, Inhabited, DecidableEq

abbrev Cfg := List Block

def blockOf (g : Cfg) (b : Nat) : Block := g.getD b default

def succsOf (g : Cfg) (b : Nat) : List Nat := (blockOf g b).succs

/-- a `*lang.BlockTree` node: its block and the blocks of its ancestors, nearest first. -/
abbrev Entry := Nat × List Nat

/-- `PathToLeaf().ToBlocks()`: root … leaf, **then the leaf block once more** (the Go loop starts
from a list already holding `t.Block` and then prepends every node from `t` up to the root). -/
def pathOf (e : Entry) : List Nat := (e.1 :: e.2).reverse ++ [e.1]

/-- the children appended to the queue while expanding `e` (Go appends in successor order and pops
from the end, so the last unvisited successor ends up on top; the head of our list is the top). -/
def children (g : Cfg) (visited : List Nat) (e : Entry) : List Entry :=
  (((succsOf g e.1).filter (fun s => !visited.contains s)).map (fun s => (s, e.1 :: e.2))).reverse

inductive Res where
  | outOfFuel
  | notFound
  | found (path : List Nat)
  deriving Repr, DecidableEq, Inhabited

/-- the `for { … }` loop of `FindPathBetweenBlocks`; one unit of fuel per pop. -/
def search (g : Cfg) (target : Nat) : Nat → List Nat → List Entry → Res
  | 0, _, _ => .outOfFuel
  | _ + 1, _, [] => .notFound
  | n + 1, visited, cur :: rest =>
    if cur.1 = target then .found (pathOf cur)
    else search g target n (cur.1 :: visited) (children g (cur.1 :: visited) cur ++ rest)

/-- the queue before the loop: one child of the root per successor of `begin` (no visited test). -/
def initStack (g : Cfg) (b : Nat) : List Entry :=
  ((succsOf g b).map (fun s => (s, [b]))).reverse

def findPath (g : Cfg) (b e : Nat) (fuel : Nat) : Res := search g e fuel [] (initStack g b)

/-- number of pops after which the loop has certainly ended (see `search_terminates`). -/
def totalWeight (g : Cfg) : Nat :=
  ((List.range g.length).map (fun v => (succsOf g v).length + 1)).sum

def fuelBound (g : Cfg) : Nat := 2 * totalWeight g + 1

/-- structural well-formedness guaranteed by the dumper: successors are block indices. -/
def wf (g : Cfg) : Bool := g.all (fun blk => blk.succs.all (· < g.length))

/-- a collected condition: polarity and the id of the condition value. -/
abbrev Cond := Bool × Nat

/-- the condition contributed by the consecutive pair `(b, c)` of a block list. -/
def stepCond (g : Cfg) (b c : Nat) : List Cond :=
  let blk := blockOf g b
  if blk.isIf then
    if blk.succs[0]? = some c then [(true, blk.cond)]
    else if blk.succs[1]? = some c then [(false, blk.cond)]
    else []
  else []

/-- `SimplePathCondition`. -/
def pathConds (g : Cfg) : List Nat → List Cond
  | b :: c :: rest => stepCond g b c ++ pathConds g (c :: rest)
  | _ => []

/-- `FindIntraProceduralPath(...).Cond` for two blocks: `none` = unsatisfiable (no path). -/
def blockPathConds (g : Cfg) (b e : Nat) (fuel : Nat) : Option (List Cond) :=
  match findPath g b e fuel with
  | .found p => some (pathConds g p)
  | _ => none

/-- `checkPathBetweenInstructions`: source at (sb, si), destination at (db, di). -/
def instrPathConds (g : Cfg) (sb si db di : Nat) (fuel : Nat) : Option (List Cond) :=
  if sb = db ∧ si < di then some [] else blockPathConds g sb db fuel

/-! ### values: what `MatchNilCheck`, `MatchNegation`, `isValuePredicateTo`, `ValuesWithSameData`
and `isValidatorCondition` look at.  Every node carries the id of the SSA value it stands for;
Go's `v1 == v2` is identity of values, i.e. equality of ids. -/

inductive VExpr where
  /-- `*ssa.Call`: `pred` = the callee's signature is a predicate type (last result bool or error);
      `isVal` = the call matches a validator of the taint problem; `args` = `Call.Args`. -/
  | call (id : Nat) (pred isVal : Bool) (args : List VExpr)
  /-- `*ssa.BinOp` on which `MatchNilCheck` succeeds: `x == nil` (`isEq`) or `x != nil`. -/
  | nilCheck (id : Nat) (x : VExpr) (isEq : Bool)
  /-- any other `*ssa.BinOp`. -/
  | binOther (id : Nat)
  /-- `*ssa.UnOp` with `Op == token.NOT`. -/
  | not (id : Nat) (x : VExpr)
  /-- `*ssa.UnOp` with `Op == token.MUL` (load). -/
  | load (id : Nat) (x : VExpr)
  /-- any other `*ssa.UnOp`. -/
  | unOther (id : Nat)
  /-- `*ssa.FieldAddr`. -/
  | fieldAddr (id : Nat) (x : VExpr)
  /-- `*ssa.Extract`; `isLast` = `Index == tuple.Len()-1` (false also when the tuple type test fails). -/
  | extract (id : Nat) (t : VExpr) (isLast : Bool)
  /-- `*ssa.MakeInterface`. -/
  | makeIface (id : Nat) (x : VExpr)
  /-- anything else (parameters, constants, phis, allocs, …). -/
  | leaf (id : Nat)
  deriving Repr, Inhabited

def VExpr.id : VExpr → Nat
  | .call i .. | .nilCheck i .. | .binOther i | .not i _ | .load i _ | .unOther i
  | .fieldAddr i _ | .extract i .. | .makeIface i _ | .leaf i => i

def VExpr.size : VExpr → Nat
  | .call _ _ _ args => 1 + sizes args
  | .nilCheck _ x _ | .not _ x | .load _ x | .fieldAddr _ x | .extract _ x _ | .makeIface _ x => 1 + x.size
  | .binOther _ | .unOther _ | .leaf _ => 1
where sizes : List VExpr → Nat
  | [] => 0
  | a :: as => a.size + sizes as

/-- `lang.ValuesWithSameData` (with fuel ≥ size of both arguments it is the Go recursion).
`mem = true` is the Go function. `mem = false` switches off the two rules that look through memory
(`matchLoad`: two loads of the same pointer; `MatchLoadField`: a load of a field of the value) — the
rules that ignore stores between the two loads (finding C02a). -/
def sameDataG (mem : Bool) : Nat → VExpr → VExpr → Bool
  | 0, _, _ => false
  | n + 1, v1, v2 =>
    if v1.id = v2.id then true
    else
      -- matchLoad
      (mem && match v1, v2 with
        | .load _ x1, .load _ x2 => sameDataG mem n x1 x2
        | _, _ => false)
      -- MatchLoadField v2
      || (mem && match v2 with
        | .load _ (.fieldAddr _ z) => sameDataG mem n v1 z
        | _ => false)
      -- MatchExtract v2
      || (match v2 with
        | .extract _ t _ => sameDataG mem n v1 t
        | _ => false)
      -- matchConversion (v1 is tested first; v2 only if v1 is not a MakeInterface)
      || (match v1 with
        | .makeIface _ x => sameDataG mem n x v2
        | _ => match v2 with
          | .makeIface _ x => sameDataG mem n v1 x
          | _ => false)

abbrev sameData := sameDataG true

def sameDataFuel (v1 v2 : VExpr) : Nat := v1.size + v2.size + 1

/-- `isValuePredicateTo predicate val` (`mem` as in `sameDataG`). -/
def isPredToG (mem : Bool) (val : VExpr) : VExpr → Bool
  | .call _ pred _ args => pred && anyArg mem val args
  | .nilCheck _ x _ => isPredToG mem val x
  | .not _ x => isPredToG mem val x
  | .extract _ t isLast => isLast && isPredToG mem val t
  | _ => false
where anyArg (mem : Bool) (val : VExpr) : List VExpr → Bool
  | [] => false
  | a :: as => sameDataG mem (sameDataFuel a val) a val || anyArg mem val as

abbrev isPredTo := isPredToG true

/-- `isValidatorCondition ts v isPositive`. -/
def isValidatorCond : VExpr → Bool → Bool
  | .call _ _ isVal _, pos => pos && isVal
  | .nilCheck _ x isEq, pos => (pos == isEq) && isValidatorCond x true
  | .not _ x, pos => isValidatorCond x (!pos)
  | .extract _ t _, pos => isValidatorCond t pos
  | _, _ => false

/-- the table of condition values of a function: id of the `If.Cond` value ↦ its unfolding. -/
abbrev CondTable := List (Nat × VExpr)

def lookupCond (tbl : CondTable) (id : Nat) : VExpr :=
  match tbl.find? (fun p => p.1 = id) with
  | some p => p.2
  | none => .leaf id

/-- `ConditionInfo.AsPredicateTo arg`. -/
def asPredicateTo (tbl : CondTable) (arg : VExpr) (cs : List Cond) : List Cond :=
  cs.filter (fun c => isPredTo arg (lookupCond tbl c.2))

/-- what `makeEdgesAtCallSite` attaches to the edge mark → call argument:
`none` = no edge at all (unsatisfiable); `some []` = edge with a nil condition. -/
def edgeConds (g : Cfg) (tbl : CondTable) (sb si db di : Nat) (arg : VExpr) (fuel : Nat) :
    Option (List Cond) :=
  (instrPathConds g sb si db di fuel).map (asPredicateTo tbl arg)

/-- `addNext`, "Check for validators": the edge is not followed. -/
def dropEdge (tbl : CondTable) (cs : List Cond) : Bool :=
  cs.any (fun c => isValidatorCond (lookupCond tbl c.2) c.1)

/-! ### decidable criterion V3: the positive branch edge of a condition lies on every path -/

/-- remove every edge `a → c`. -/
def cutEdge (g : Cfg) (a c : Nat) : Cfg :=
  g.mapIdx (fun i blk => if i = a then { blk with succs := blk.succs.filter (· ≠ c) } else blk)

/-- the blocks whose `If` tests the value `v`. -/
def ifBlocksOf (g : Cfg) (v : Nat) : List Nat :=
  (List.range g.length).filter (fun a => (blockOf g a).isIf && (blockOf g a).cond == v)

/-- the branch edge a condition `(pol, v)` stands for, for the `If` in block `a`:
successor 0 when positive, successor 1 when negative; `none` if the two successors coincide
(then taking the edge says nothing about the outcome) or the block is malformed. -/
def branchTarget (g : Cfg) (a : Nat) (pol : Bool) : Option Nat :=
  match (blockOf g a).succs with
  | [t, f] => if t = f then none else some (if pol then t else f)
  | _ => none

/-- `mustPassDec g sb db a c`: after removing the edge `a → c`, `db` can no longer be reached from
`sb` by a non-empty path. -/
def mustPassDec (g : Cfg) (sb db a c : Nat) : Bool :=
  findPath (cutEdge g a c) sb db (fuelBound (cutEdge g a c)) == .notFound

/-- a condition `(pol, v)` must-passes: some `If` on `v` has its `pol` edge on every path. -/
def condMustPass (g : Cfg) (sb db : Nat) (c : Cond) : Bool :=
  (ifBlocksOf g c.2).any (fun a =>
    match branchTarget g a c.1 with
    | some t => mustPassDec g sb db a t
    | none => false)

/-- hypothesis of `validator_drop_sound_partial`, evaluated per edge: some condition that is
recognised as a validator check must-passes. -/
def dropJustified (g : Cfg) (tbl : CondTable) (sb db : Nat) (cs : List Cond) : Bool :=
  cs.any (fun c => isValidatorCond (lookupCond tbl c.2) c.1 && condMustPass g sb db c)

/-- the same, and moreover the validator was applied to the destination value itself up to tuple
projection / interface boxing (no "same data" through memory). -/
def dropJustifiedReg (g : Cfg) (tbl : CondTable) (sb db : Nat) (arg : VExpr) (cs : List Cond) : Bool :=
  cs.any (fun c => isValidatorCond (lookupCond tbl c.2) c.1 && condMustPass g sb db c &&
    isPredToG false arg (lookupCond tbl c.2))

end Argot.PathCond
