/-
First-order SSA facts for the pointer / call-graph properties (C11, C12) and the DECIDABLE closure
criteria evaluated on the REAL result of `internal/pointer` (tie kind V).  Core Lean only.

Go (x/tools SSA, internal/pointer)                         Lean
------------------------------------------------------------------------------------------------
pointer.Label = (allocating ssa.Value, subelement path)    Label = Site × List ASel
  Alloc/MakeSlice/MakeMap/MakeChan/append/Convert            Site.alloc n
  *ssa.Global                                                Site.glob n
  *ssa.Function (also the label of every closure of it)      Site.fn f
  *ssa.MakeInterface with concrete type t (tagged object)    Site.iface n t
  path ".f"  "[*]"                                           ASel.field f, ASel.elem
  (map key / map value / channel buffer / tagged payload cells are not addressable by a label of the
   public API; they are named here by the selectors key / val / buf / pay on the object's label)
Result.Queries[v].PointsTo().Labels()                      Res.pt f r : Option (List Label)   (none = not queried)
Result.CallGraph edge (caller, site, callee)               Res.cg f c g
AnalyzerState.ReachableFunctions()                         Res.reach f
(derived, computed by the oracle, checked closed)          Res.heap : cell label → labels

SSA instruction                                            Instr
  Alloc MakeSlice MakeMap MakeChan                          alloc r n
  Phi(edge) ChangeType ChangeInterface Slice Convert        copy r x
    SliceToArrayPointer ssa:wrapnilchk, append (z = x)
  FieldAddr / IndexAddr                                     addr r x (field f) / addr r x elem
  UnOp{*}  UnOp{<-}  Lookup(map)  Next(map)                 load r x [] / [buf] / [val] / [key] , [val]
  Store  Send  MapUpdate                                    store x [] v / [buf] / [key], [val]
  load / store of a struct VALUE                            one load / store per pointer-like leaf: path of fields
    (a struct-valued SSA register is a group of virtual registers, one per leaf; see harness/ptrfacts)
  append (new array, element copy), copy builtin            alloc, hcopy
  MakeInterface                                             mkiface r n t [(π, x)…]
  TypeAssert to concrete type / to interface                tassert r x t π / tfilter r x ts
  MakeClosure                                               mkclosure r f bindings
  Call / Go / Defer (static | value | invoke)               call c callee args dsts spawn
  Return                                                    ret vs
  Extract of a tuple is folded into the producing instruction by the dumper (dsts / r).
-/
namespace Argot.Ptr

inductive ASel where
  | field (n : Nat) | elem | key | val | buf | pay
  deriving DecidableEq, Repr, Inhabited, Hashable

inductive Site where
  | alloc (n : Nat) | glob (n : Nat) | fn (f : Nat) | iface (n : Nat) (t : Nat)
  deriving DecidableEq, Repr, Inhabited, Hashable

abbrev Label := Site × List ASel

inductive Opnd where
  | reg (r : Nat) | glob (g : Nat) | fn (f : Nat) | const
  deriving DecidableEq, Repr, Inhabited

inductive Callee where
  | static (g : Nat) | dyn (x : Opnd) | invoke (x : Opnd) (m : Nat)
  deriving DecidableEq, Repr, Inhabited

inductive Instr where
  | alloc (r : Nat) (n : Nat)
  | copy (r : Nat) (x : Opnd)
  | addr (r : Nat) (x : Opnd) (s : ASel)
  /-- `r := *(x.π)`: the cell at selector path `π` (empty: the cell itself) below the location `x` points to -/
  | load (r : Nat) (x : Opnd) (s : List ASel)
  | store (x : Opnd) (s : List ASel) (v : Opnd)
  /-- one element of `*y.sy` is copied into `*x.sx`; `only = some st`: only when `x` points into an object of site `st` -/
  | hcopy (x : Opnd) (sx : List ASel) (y : Opnd) (sy : List ASel) (only : Option Site)
  /-- tagged object of concrete type `t`; `pay`: the pointer-like parts of the payload (path inside the payload, operand) -/
  | mkiface (r : Nat) (n : Nat) (t : Nat) (pay : List (List ASel × Opnd))
  /-- `r :=` the part at path `π` of the payload, when the dynamic type is `t` -/
  | tassert (r : Nat) (x : Opnd) (t : Nat) (π : List ASel)
  | tfilter (r : Nat) (x : Opnd) (ts : List Nat)
  | mkclosure (r : Nat) (f : Nat) (bs : List Opnd)
  | call (c : Nat) (callee : Callee) (args : List Opnd) (dsts : List Nat) (spawn : Bool)
  | ret (vs : List Opnd)
  deriving DecidableEq, Repr, Inhabited

structure Func where
  params : List Nat
  fvs : List Nat
  code : List Instr
  deriving Repr, Inhabited

structure Prog where
  funcs : Array Func
  /-- (concrete type, method id, implementing function, pointer-like parts of a receiver of that type:
      `[[]]` for a pointer-like receiver, the leaf paths for a struct receiver passed by value) -/
  methods : List (Nat × Nat × Nat × List (List ASel))
  roots : List Nat
  deriving Inhabited

def Prog.func (P : Prog) (f : Nat) : Func := P.funcs.getD f ⟨[], [], []⟩
def Prog.code (P : Prog) (f : Nat) : List Instr := (P.func f).code
def Prog.params (P : Prog) (f : Nat) : List Nat := (P.func f).params
def Prog.fvs (P : Prog) (f : Nat) : List Nat := (P.func f).fvs

def Prog.method (P : Prog) (t m : Nat) : Option (Nat × List (List ASel)) :=
  (P.methods.find? fun e => e.1 == t && e.2.1 == m).map fun e => e.2.2

/-- The dumped real result (functions, so that the oracle can back them by hash maps). -/
structure Res where
  pt : Nat → Nat → Option (List Label)
  cg : Nat → Nat → Nat → Bool
  reach : Nat → Bool
  heap : Label → List Label
  /-- `Result.IndirectQueries[v].PointsTo().Labels()` : (function, register, labels of `*v`) -/
  iq : List (Nat × Nat × List Label) := []

/-- the cell named by selector `s` inside the object part labelled `l` -/
def ext (l : Label) (s : ASel) : Label := (l.1, l.2 ++ [s])
def extP (l : Label) (π : List ASel) : Label := (l.1, l.2 ++ π)

def ptOp (R : Res) (f : Nat) : Opnd → Option (List Label)
  | .reg r => R.pt f r
  | .glob g => some [(Site.glob g, [])]
  | .fn g => some [(Site.fn g, [])]
  | .const => some []

/-- `l ∈ S` where an unqueried destination places no demand -/
def memO (l : Label) : Option (List Label) → Bool
  | none => true
  | some S => S.contains l

def subL (A B : List Label) : Bool := A.all fun l => B.contains l

/-- `a ⊆ b`; an unqueried destination places no demand, an unqueried source cannot be bounded -/
def inclO : Option (List Label) → Option (List Label) → Bool
  | _, none => true
  | none, some _ => false
  | some A, some B => subL A B

/-- a source operand must be queried -/
def srcs (o : Option (List Label)) (k : List Label → Bool) : Bool :=
  match o with
  | none => false
  | some S => k S

def zipAll {α β : Type} (as : List α) (bs : List β) (p : α → β → Bool) : Bool :=
  (as.zip bs).all fun ab => p ab.1 ab.2

/-! ### C12: the call-graph criterion -/

/-- `(f, c, g)` is a call-graph edge to a reachable function of the dumped table -/
def edgeOK (P : Prog) (R : Res) (f c g : Nat) : Bool :=
  R.cg f c g && R.reach g && decide (g < P.funcs.size)

/-- every callee the call instruction can have, according to the points-to sets, is an edge at that
site and is in the reachable set -/
def calleeOK (P : Prog) (R : Res) (f c : Nat) : Callee → Bool
  | .static g => edgeOK P R f c g
  | .dyn x => srcs (ptOp R f x) fun S => S.all fun l =>
      match l with
      | (Site.fn g, []) => edgeOK P R f c g
      | _ => true
  | .invoke x m => srcs (ptOp R f x) fun S => S.all fun l =>
      match l with
      | (Site.iface _ t, []) =>
        match P.method t m with
        | some gp => edgeOK P R f c gp.1
        | none => true
      | _ => true

def cgInstrOK (P : Prog) (R : Res) (f : Nat) : Instr → Bool
  | .call c callee _ _ _ => calleeOK P R f c callee
  | _ => true

/-- `Cg.closed`: roots reachable; every reachable function's call sites are covered -/
def cgClosed (P : Prog) (R : Res) : Bool :=
  P.roots.all R.reach &&
  (List.range P.funcs.size).all fun f => !R.reach f || (P.code f).all (cgInstrOK P R f)

/-! ### C11: the points-to criterion -/

def retOK (P : Prog) (R : Res) (f g : Nat) (dsts : List Nat) : Bool :=
  (P.code g).all fun i =>
    match i with
    | .ret vs => zipAll dsts vs fun d v => inclO (ptOp R g v) (R.pt f d)
    | _ => true

/-- the points-to sets of the actual parameters are included in those of the formal parameters -/
def bindOK (R : Res) (g : Nat) (params : List Nat) (actuals : List (Option (List Label))) : Bool :=
  zipAll params actuals fun p a => inclO a (R.pt g p)

/-- parameter binding along the call-graph edge `(f, c, g)`; for an interface method call the receiver
parameters are bound from the payload cells of every tagged object of a type whose method is `g` -/
def argsOK (P : Prog) (R : Res) (f g : Nat) (callee : Callee) (args : List Opnd) : Bool :=
  match callee with
  | .static _ => bindOK R g (P.params g) (args.map (ptOp R f))
  | .dyn _ => bindOK R g (P.params g) (args.map (ptOp R f))
  | .invoke x m =>
    srcs (ptOp R f x) fun S => S.all fun l =>
      match l with
      | (Site.iface n t, []) =>
        match P.method t m with
        | some gp =>
          if gp.1 = g then
            bindOK R g (P.params g)
              ((gp.2.map fun π => some (R.heap (Site.iface n t, ASel.pay :: π))) ++ args.map (ptOp R f))
          else true
        | none => true
      | _ => true

def instrOK (P : Prog) (R : Res) (f : Nat) : Instr → Bool
  | .alloc r n => memO (Site.alloc n, []) (R.pt f r)
  | .copy r x => inclO (ptOp R f x) (R.pt f r)
  | .addr r x s => srcs (ptOp R f x) fun S => S.all fun l => memO (ext l s) (R.pt f r)
  | .load r x s => srcs (ptOp R f x) fun S => S.all fun l => inclO (some (R.heap (extP l s))) (R.pt f r)
  | .store x s v => srcs (ptOp R f x) fun S => srcs (ptOp R f v) fun V =>
      S.all fun l => subL V (R.heap (extP l s))
  | .hcopy x sx y sy only => srcs (ptOp R f x) fun S => srcs (ptOp R f y) fun Y =>
      S.all fun lx => (match only with | none => false | some st => lx.1 != st) ||
        Y.all fun ly => subL (R.heap (extP ly sy)) (R.heap (extP lx sx))
  | .mkiface r n t pay => memO (Site.iface n t, []) (R.pt f r) &&
      pay.all fun py => srcs (ptOp R f py.2) fun Y => subL Y (R.heap (Site.iface n t, ASel.pay :: py.1))
  | .tassert r x t π => srcs (ptOp R f x) fun S => S.all fun l =>
      match l with
      | (Site.iface n t', []) => t' != t || inclO (some (R.heap (Site.iface n t', ASel.pay :: π))) (R.pt f r)
      | _ => true
  | .tfilter r x ts => srcs (ptOp R f x) fun S => S.all fun l =>
      match l with
      | (Site.iface n t', []) => !ts.contains t' || memO (Site.iface n t', []) (R.pt f r)
      | _ => true
  | .mkclosure r g bs => memO (Site.fn g, []) (R.pt f r) &&
      zipAll (P.fvs g) bs fun fv b => inclO (ptOp R f b) (R.pt g fv)
  | .call c callee args dsts spawn =>
      (List.range P.funcs.size).all fun g => !R.cg f c g ||
        (argsOK P R f g callee args && (spawn || retOK P R f g dsts))
  | .ret _ => true

/-- `Ptr.closed`: every instruction of every reachable function satisfies its inclusion rule -/
def ptrClosed (P : Prog) (R : Res) : Bool :=
  (List.range P.funcs.size).all fun f => !R.reach f || (P.code f).all (instrOK P R f)

/-- `IndirectQueries`: the set recorded for `*v` contains the derived heap table at every label of `v` -/
def iqClosed (R : Res) : Bool :=
  R.iq.all fun e => !R.reach e.1 || srcs (R.pt e.1 e.2.1) fun S => S.all fun l => subL (R.heap l) e.2.2

/-- may-alias on label sets (the public `Pointer.MayAlias` intersects node sets) -/
def mayAlias (A B : List Label) : Bool := A.any fun l => B.contains l

end Argot.Ptr
