/- Line-protocol parser shared by the C11 / C12 oracles: SSA facts + dumped real pointer result.

   func <f> <params|-> <fvs|->
   i <f> alloc r n | copy r x | addr r x sel | load r x sel|- | store x sel|- v | hcopy x sel y sel site|-
        | mkiface r n t x | tassert r x t | tfilter r x t,t|- | mkclosure r g x,x|-
        | call c static:g|dyn:x|invoke:x:m args|- dsts|- 0|1 | ret xs|-
   method t m g      root g
   pt f r lab;lab|-  cg f c g      reach f
   operands: r<n> g<n> f<n> c     sites: a<n> g<n> f<n> i<n>.<t>     selectors: F<n> E K V B P
   label: site/sel.sel (site/ for the empty path)
-/
import Std.Data.HashMap
import Std.Data.HashSet
import Argot.Model.Ptr
open Argot.Ptr

namespace PtrFacts

def parseList {α : Type} (f : String → Option α) (s : String) : Option (List α) :=
  if s == "-" then some [] else (s.splitOn ",").mapM f

def parseOpnd (s : String) : Option Opnd :=
  if s == "c" then some .const else
  match s.toList with
  | 'r' :: rest => (String.ofList rest).toNat?.map .reg
  | 'g' :: rest => (String.ofList rest).toNat?.map .glob
  | 'f' :: rest => (String.ofList rest).toNat?.map .fn
  | _ => none

def parseSel (s : String) : Option ASel :=
  match s.toList with
  | ['E'] => some .elem
  | ['K'] => some .key
  | ['V'] => some .val
  | ['B'] => some .buf
  | ['P'] => some .pay
  | 'F' :: rest => (String.ofList rest).toNat?.map .field
  | _ => none

/-- selector path: `-` (empty) or `sel.sel…` -/
def parsePath (s : String) : Option (List ASel) :=
  if s == "-" || s == "" || s == "@" then some [] else (s.splitOn ".").mapM parseSel

/-- payload parts of a MakeInterface: `-` or `path=opnd,path=opnd` -/
def parsePay (parseOpnd : String → Option Opnd) (s : String) : Option (List (List ASel × Opnd)) :=
  if s == "-" then some [] else
  (s.splitOn ",").mapM fun it =>
    match it.splitOn "=" with
    | [p, x] => do some (← parsePath p, ← parseOpnd x)
    | _ => none

/-- receiver parts of a method: `-` (none) or `path;path` with `@` for the empty path -/
def parsePaths (s : String) : Option (List (List ASel)) :=
  if s == "-" then some [] else (s.splitOn ";").mapM parsePath

def parseSite (s : String) : Option Site :=
  match s.toList with
  | 'a' :: rest => (String.ofList rest).toNat?.map .alloc
  | 'g' :: rest => (String.ofList rest).toNat?.map .glob
  | 'f' :: rest => (String.ofList rest).toNat?.map .fn
  | 'i' :: rest =>
    match (String.ofList rest).splitOn "." with
    | [n, t] => do some (.iface (← n.toNat?) (← t.toNat?))
    | _ => none
  | _ => none

def parseSiteO (s : String) : Option (Option Site) :=
  if s == "-" then some none else (parseSite s).map some

def parseLabel (s : String) : Option Label :=
  match s.splitOn "/" with
  | [st, path] => do
    let site ← parseSite st
    let sels ← if path == "" then some [] else (path.splitOn ".").mapM parseSel
    some (site, sels)
  | _ => none

def parseLabels (s : String) : Option (List Label) :=
  if s == "-" then some [] else (s.splitOn ";").mapM parseLabel

def parseCallee (s : String) : Option Callee :=
  match s.splitOn ":" with
  | ["static", g] => g.toNat?.map .static
  | ["dyn", x] => (parseOpnd x).map .dyn
  | ["invoke", x, m] => do some (.invoke (← parseOpnd x) (← m.toNat?))
  | _ => none

def parseInstr (ws : List String) : Option Instr :=
  match ws with
  | ["alloc", r, n] => do some (.alloc (← r.toNat?) (← n.toNat?))
  | ["copy", r, x] => do some (.copy (← r.toNat?) (← parseOpnd x))
  | ["addr", r, x, s] => do some (.addr (← r.toNat?) (← parseOpnd x) (← parseSel s))
  | ["load", r, x, s] => do some (.load (← r.toNat?) (← parseOpnd x) (← parsePath s))
  | ["store", x, s, v] => do some (.store (← parseOpnd x) (← parsePath s) (← parseOpnd v))
  | ["hcopy", x, sx, y, sy, only] => do
      some (.hcopy (← parseOpnd x) (← parsePath sx) (← parseOpnd y) (← parsePath sy) (← parseSiteO only))
  | ["mkiface", r, n, t, pay] => do some (.mkiface (← r.toNat?) (← n.toNat?) (← t.toNat?) (← parsePay parseOpnd pay))
  | ["tassert", r, x, t, π] => do some (.tassert (← r.toNat?) (← parseOpnd x) (← t.toNat?) (← parsePath π))
  | ["tfilter", r, x, ts] => do some (.tfilter (← r.toNat?) (← parseOpnd x) (← parseList String.toNat? ts))
  | ["mkclosure", r, g, bs] => do some (.mkclosure (← r.toNat?) (← g.toNat?) (← parseList parseOpnd bs))
  | ["call", c, callee, args, dsts, sp] => do
      some (.call (← c.toNat?) (← parseCallee callee) (← parseList parseOpnd args) (← parseList String.toNat? dsts)
        (sp == "1"))
  | ["ret", vs] => do some (.ret (← parseList parseOpnd vs))
  | _ => none

structure Facts where
  funcs : Array Func := #[]
  methods : List (Nat × Nat × Nat × List (List ASel)) := []
  roots : List Nat := []
  pt : Std.HashMap (Nat × Nat) (List Label) := {}
  ipt : List (Nat × Nat × List Label) := []
  cg : Std.HashSet (Nat × Nat × Nat) := {}
  cgList : List (Nat × Nat × Nat) := []
  reach : Std.HashSet Nat := {}
  reachList : List Nat := []
  queries : List (Nat × Nat × Nat × Nat) := []
  /-- `resolve f c static|- byType|-` : inputs of the ResolveCallee model (C12) -/
  resolves : List (Nat × Nat × Option Nat × List Nat) := []
  bad : List String := []

def Facts.prog (F : Facts) : Prog :=
  { funcs := F.funcs.map fun fn => { fn with code := fn.code.reverse }, methods := F.methods, roots := F.roots }

def addInstr (F : Facts) (f : Nat) (i : Instr) : Facts :=
  if h : f < F.funcs.size then
    let fn := F.funcs[f]
    { F with funcs := F.funcs.set f { fn with code := i :: fn.code } }
  else { F with bad := s!"instr for unknown func {f}" :: F.bad }

def parseLine (F : Facts) (line : String) : Facts :=
  let ws := (line.trimAscii.toString.splitOn " ").filter (· ≠ "")
  let badline := { F with bad := line :: F.bad }
  match ws with
  | [] => F
  | ["func", f, ps, fvs] =>
    match f.toNat?, parseList String.toNat? ps, parseList String.toNat? fvs with
    | some f, some ps, some fvs =>
      if f == F.funcs.size then { F with funcs := F.funcs.push ⟨ps, fvs, []⟩ } else badline
    | _, _, _ => badline
  | "i" :: f :: rest =>
    match f.toNat?, parseInstr rest with
    | some f, some i => addInstr F f i
    | _, _ => badline
  | ["method", t, m, g, ps] =>
    match t.toNat?, m.toNat?, g.toNat?, parsePaths ps with
    | some t, some m, some g, some ps => { F with methods := (t, m, g, ps) :: F.methods }
    | _, _, _, _ => badline
  | ["root", g] =>
    match g.toNat? with
    | some g => { F with roots := F.roots ++ [g] }
    | none => badline
  | ["pt", f, r, labs] =>
    match f.toNat?, r.toNat?, parseLabels labs with
    | some f, some r, some ls => { F with pt := F.pt.insert (f, r) ls }
    | _, _, _ => badline
  | ["ipt", f, r, labs] =>
    match f.toNat?, r.toNat?, parseLabels labs with
    | some f, some r, some ls => { F with ipt := (f, r, ls) :: F.ipt }
    | _, _, _ => badline
  | ["cg", f, c, g] =>
    match f.toNat?, c.toNat?, g.toNat? with
    | some f, some c, some g => { F with cg := F.cg.insert (f, c, g), cgList := (f, c, g) :: F.cgList }
    | _, _, _ => badline
  | ["reach", f] =>
    match f.toNat? with
    | some f => { F with reach := F.reach.insert f, reachList := f :: F.reachList }
    | none => badline
  | ["alias", f1, r1, f2, r2] =>
    match f1.toNat?, r1.toNat?, f2.toNat?, r2.toNat? with
    | some a, some b, some c, some d => { F with queries := (a, b, c, d) :: F.queries }
    | _, _, _, _ => badline
  | ["resolve", f, c, st, bt] =>
    match f.toNat?, c.toNat?, parseList String.toNat? bt with
    | some f, some c, some bt =>
      if st == "-" then { F with resolves := (f, c, none, bt) :: F.resolves }
      else match st.toNat? with
        | some g => { F with resolves := (f, c, some g, bt) :: F.resolves }
        | none => badline
    | _, _, _ => badline
  | _ => badline

partial def readAll (h : IO.FS.Stream) (F : Facts) : IO Facts := do
  let line ← h.getLine
  if line.isEmpty then return F
  readAll h (parseLine F line)

/-! the derived tables: heap cells, and the points-to sets of VIRTUAL registers (register numbers
    `≥ vbase`: the pointer-like leaves of struct-valued SSA registers, which the public API cannot
    query).  Both are computed here as the least tables closed under the rules and then CHECKED by
    `ptrClosed`, so this computation is not trusted. -/

def vbase : Nat := 2000000

abbrev HeapTbl := Std.HashMap Label (List Label)
abbrev VregTbl := Std.HashMap (Nat × Nat) (List Label)

structure Derived where
  heap : HeapTbl := {}
  vreg : VregTbl := {}
  changed : Bool := false

def addNew (cur ls : List Label) : Option (List Label) :=
  let new := (ls.filter fun l => !cur.contains l).eraseDups
  if new.isEmpty then none else some (cur ++ new)

def Derived.addHeap (D : Derived) (c : Label) (ls : List Label) : Derived :=
  match addNew ((D.heap.get? c).getD []) ls with
  | none => D
  | some l => { D with heap := D.heap.insert c l, changed := true }

/-- only virtual registers are derived; the others come from the real result -/
def Derived.addReg (D : Derived) (f r : Nat) (ls : List Label) : Derived :=
  if r < vbase then D else
  match addNew ((D.vreg.get? (f, r)).getD []) ls with
  | none => D
  | some l => { D with vreg := D.vreg.insert (f, r) l, changed := true }

def ptReg (F : Facts) (D : Derived) (f r : Nat) : Option (List Label) :=
  if r < vbase then F.pt.get? (f, r) else some ((D.vreg.get? (f, r)).getD [])

def ptOpF (F : Facts) (D : Derived) (f : Nat) (x : Opnd) : List Label :=
  match x with
  | .reg r => (ptReg F D f r).getD []
  | .glob g => [(Site.glob g, [])]
  | .fn g => [(Site.fn g, [])]
  | .const => []

def heapOf (D : Derived) (c : Label) : List Label := (D.heap.get? c).getD []

def bindPass (_F : Facts) (D : Derived) (g : Nat) (params : List Nat) (actuals : List (List Label)) : Derived := Id.run do
  let mut D := D
  for (p, a) in params.zip actuals do
    D := D.addReg g p a
  return D

def onePass (F : Facts) (P : Prog) (callees : Std.HashMap (Nat × Nat) (List Nat)) (D0 : Derived) : Derived := Id.run do
  let mut D := { D0 with changed := false }
  for f in [0:P.funcs.size] do
    if F.reach.contains f then
      for i in P.code f do
        match i with
        | .alloc r n => D := D.addReg f r [(Site.alloc n, [])]
        | .copy r x => D := D.addReg f r (ptOpF F D f x)
        | .addr r x s => D := D.addReg f r ((ptOpF F D f x).map fun l => ext l s)
        | .load r x π =>
          for l in ptOpF F D f x do
            D := D.addReg f r (heapOf D (extP l π))
        | .store x π v =>
          for l in ptOpF F D f x do
            D := D.addHeap (extP l π) (ptOpF F D f v)
        | .hcopy x sx y sy only =>
          for lx in ptOpF F D f x do
            if (match only with | none => true | some st => lx.1 == st) then
              for ly in ptOpF F D f y do
                D := D.addHeap (extP lx sx) (heapOf D (extP ly sy))
        | .mkiface r n t pay =>
          D := D.addReg f r [(Site.iface n t, [])]
          for (π, y) in pay do
            D := D.addHeap (Site.iface n t, ASel.pay :: π) (ptOpF F D f y)
        | .tassert r x t π =>
          for l in ptOpF F D f x do
            match l with
            | (Site.iface n t', []) => if t' == t then D := D.addReg f r (heapOf D (Site.iface n t', ASel.pay :: π))
            | _ => pure ()
        | .tfilter r x ts =>
          D := D.addReg f r ((ptOpF F D f x).filter fun l =>
            match l with
            | (Site.iface _ t', []) => ts.contains t'
            | _ => false)
        | .mkclosure r g bs =>
          D := D.addReg f r [(Site.fn g, [])]
          D := bindPass F D g (P.fvs g) (bs.map (ptOpF F D f))
        | .call c callee args dsts spawn =>
          for g in (callees.get? (f, c)).getD [] do
            match callee with
            | .invoke x m =>
              for l in ptOpF F D f x do
                match l with
                | (Site.iface n t, []) =>
                  match P.method t m with
                  | some gp =>
                    if gp.1 == g then
                      D := bindPass F D g (P.params g)
                        ((gp.2.map fun π => heapOf D (Site.iface n t, ASel.pay :: π)) ++ args.map (ptOpF F D f))
                  | none => pure ()
                | _ => pure ()
            | _ => D := bindPass F D g (P.params g) (args.map (ptOpF F D f))
            if !spawn then
              for j in P.code g do
                match j with
                | .ret vs =>
                  for (d, v) in dsts.zip vs do
                    D := D.addReg f d (ptOpF F D g v)
                | _ => pure ()
        | .ret _ => pure ()
  return D

partial def fixpoint (F : Facts) (P : Prog) (callees : Std.HashMap (Nat × Nat) (List Nat)) (D : Derived) (fuel : Nat) : Derived :=
  if fuel == 0 then D else
  let D' := onePass F P callees D
  if D'.changed then fixpoint F P callees D' (fuel - 1) else D'

def Facts.res (F : Facts) (P : Prog) : Res :=
  let callees : Std.HashMap (Nat × Nat) (List Nat) :=
    F.cgList.foldl (fun m e => m.insert (e.1, e.2.1) (e.2.2 :: (m.get? (e.1, e.2.1)).getD [])) {}
  let D := fixpoint F P callees {} 10000
  { pt := fun f r => ptReg F D f r,
    cg := fun f c g => F.cg.contains (f, c, g),
    reach := fun f => F.reach.contains f,
    heap := fun l => heapOf D l,
    iq := F.ipt }

end PtrFacts
