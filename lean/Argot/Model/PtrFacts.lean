/- Line-protocol parser shared by the C11 / C12 oracles: SSA facts + dumped real pointer result.

   func <f> <params|-> <fvs|->
   i <f> alloc r n | copy r x | addr r x sel | load r x sel|- | store x sel|- v | hcopy x sel y sel site|-
        | mkiface r n t x | tassert r x t | tfilter r x t,t|- | mkclosure r g x,x|-
        | call c static:g|dyn:x|invoke:x:m args|- dsts|- 0|1 | ret xs|-
   method t m g      root g
   pt f r lab;lab|-  cg f c g      reach f
   operands: r<n> g<n> f<n> c     sites: a<n> g<n> f<n> i<n>.<t>     selectors: F<n> E K V B P
   label: site/sel.sel (site/ for the empty path)
-/
import Std.Data.HashMap
import Std.Data.HashSet
import Argot.Model.Ptr
open Argot.Ptr

namespace PtrFacts

def parseList {α : Type} (f : String → Option α) (s : String) : Option (List α) :=
  if s == "-" then some [] else (s.splitOn ",").mapM f

def parseOpnd (s : String) : Option Opnd :=
  if s == "c" then some .const else
  match s.toList with
  | 'r' :: rest => (String.ofList rest).toNat?.map .reg
  | 'g' :: rest => (String.ofList rest).toNat?.map .glob
  | 'f' :: rest => (String.ofList rest).toNat?.map .fn
  | _ => none

def parseSel (s : String) : Option ASel :=
  match s.toList with
  | ['E'] => some .elem
  | ['K'] => some .key
  | ['V'] => some .val
  | ['B'] => some .buf
  | ['P'] => some .pay
  | 'F' :: rest => (String.ofList rest).toNat?.map .field
  | _ => none

def parseSelO (s : String) : Option (Option ASel) :=
  if s == "-" then some none else (parseSel s).map some

def parseSite (s : String) : Option Site :=
  match s.toList with
  | 'a' :: rest => (String.ofList rest).toNat?.map .alloc
  | 'g' :: rest => (String.ofList rest).toNat?.map .glob
  | 'f' :: rest => (String.ofList rest).toNat?.map .fn
  | 'i' :: rest =>
    match (String.ofList rest).splitOn "." with
    | [n, t] => do some (.iface (← n.toNat?) (← t.toNat?))
    | _ => none
  | _ => none

def parseSiteO (s : String) : Option (Option Site) :=
  if s == "-" then some none else (parseSite s).map some

def parseLabel (s : String) : Option Label :=
  match s.splitOn "/" with
  | [st, path] => do
    let site ← parseSite st
    let sels ← if path == "" then some [] else (path.splitOn ".").mapM parseSel
    some (site, sels)
  | _ => none

def parseLabels (s : String) : Option (List Label) :=
  if s == "-" then some [] else (s.splitOn ";").mapM parseLabel

def parseCallee (s : String) : Option Callee :=
  match s.splitOn ":" with
  | ["static", g] => g.toNat?.map .static
  | ["dyn", x] => (parseOpnd x).map .dyn
  | ["invoke", x, m] => do some (.invoke (← parseOpnd x) (← m.toNat?))
  | _ => none

def parseInstr (ws : List String) : Option Instr :=
  match ws with
  | ["alloc", r, n] => do some (.alloc (← r.toNat?) (← n.toNat?))
  | ["copy", r, x] => do some (.copy (← r.toNat?) (← parseOpnd x))
  | ["addr", r, x, s] => do some (.addr (← r.toNat?) (← parseOpnd x) (← parseSel s))
  | ["load", r, x, s] => do some (.load (← r.toNat?) (← parseOpnd x) (← parseSelO s))
  | ["store", x, s, v] => do some (.store (← parseOpnd x) (← parseSelO s) (← parseOpnd v))
  | ["hcopy", x, sx, y, sy, only] => do
      some (.hcopy (← parseOpnd x) (← parseSel sx) (← parseOpnd y) (← parseSel sy) (← parseSiteO only))
  | ["mkiface", r, n, t, x] => do some (.mkiface (← r.toNat?) (← n.toNat?) (← t.toNat?) (← parseOpnd x))
  | ["tassert", r, x, t] => do some (.tassert (← r.toNat?) (← parseOpnd x) (← t.toNat?))
  | ["tfilter", r, x, ts] => do some (.tfilter (← r.toNat?) (← parseOpnd x) (← parseList String.toNat? ts))
  | ["mkclosure", r, g, bs] => do some (.mkclosure (← r.toNat?) (← g.toNat?) (← parseList parseOpnd bs))
  | ["call", c, callee, args, dsts, sp] => do
      some (.call (← c.toNat?) (← parseCallee callee) (← parseList parseOpnd args) (← parseList String.toNat? dsts)
        (sp == "1"))
  | ["ret", vs] => do some (.ret (← parseList parseOpnd vs))
  | _ => none

structure Facts where
  funcs : Array Func := #[]
  methods : List (Nat × Nat × Nat) := []
  roots : List Nat := []
  pt : Std.HashMap (Nat × Nat) (List Label) := {}
  cg : Std.HashSet (Nat × Nat × Nat) := {}
  cgList : List (Nat × Nat × Nat) := []
  reach : Std.HashSet Nat := {}
  reachList : List Nat := []
  queries : List (Nat × Nat × Nat × Nat) := []
  /-- `resolve f c static|- byType|-` : inputs of the ResolveCallee model (C12) -/
  resolves : List (Nat × Nat × Option Nat × List Nat) := []
  bad : List String := []

def Facts.prog (F : Facts) : Prog :=
  { funcs := F.funcs.map fun fn => { fn with code := fn.code.reverse }, methods := F.methods, roots := F.roots }

def addInstr (F : Facts) (f : Nat) (i : Instr) : Facts :=
  if h : f < F.funcs.size then
    let fn := F.funcs[f]
    { F with funcs := F.funcs.set f { fn with code := i :: fn.code } }
  else { F with bad := s!"instr for unknown func {f}" :: F.bad }

def parseLine (F : Facts) (line : String) : Facts :=
  let ws := (line.trimAscii.toString.splitOn " ").filter (· ≠ "")
  let badline := { F with bad := line :: F.bad }
  match ws with
  | [] => F
  | ["func", f, ps, fvs] =>
    match f.toNat?, parseList String.toNat? ps, parseList String.toNat? fvs with
    | some f, some ps, some fvs =>
      if f == F.funcs.size then { F with funcs := F.funcs.push ⟨ps, fvs, []⟩ } else badline
    | _, _, _ => badline
  | "i" :: f :: rest =>
    match f.toNat?, parseInstr rest with
    | some f, some i => addInstr F f i
    | _, _ => badline
  | ["method", t, m, g] =>
    match t.toNat?, m.toNat?, g.toNat? with
    | some t, some m, some g => { F with methods := (t, m, g) :: F.methods }
    | _, _, _ => badline
  | ["root", g] =>
    match g.toNat? with
    | some g => { F with roots := F.roots ++ [g] }
    | none => badline
  | ["pt", f, r, labs] =>
    match f.toNat?, r.toNat?, parseLabels labs with
    | some f, some r, some ls => { F with pt := F.pt.insert (f, r) ls }
    | _, _, _ => badline
  | ["cg", f, c, g] =>
    match f.toNat?, c.toNat?, g.toNat? with
    | some f, some c, some g => { F with cg := F.cg.insert (f, c, g), cgList := (f, c, g) :: F.cgList }
    | _, _, _ => badline
  | ["reach", f] =>
    match f.toNat? with
    | some f => { F with reach := F.reach.insert f, reachList := f :: F.reachList }
    | none => badline
  | ["alias", f1, r1, f2, r2] =>
    match f1.toNat?, r1.toNat?, f2.toNat?, r2.toNat? with
    | some a, some b, some c, some d => { F with queries := (a, b, c, d) :: F.queries }
    | _, _, _, _ => badline
  | ["resolve", f, c, st, bt] =>
    match f.toNat?, c.toNat?, parseList String.toNat? bt with
    | some f, some c, some bt =>
      if st == "-" then { F with resolves := (f, c, none, bt) :: F.resolves }
      else match st.toNat? with
        | some g => { F with resolves := (f, c, some g, bt) :: F.resolves }
        | none => badline
    | _, _, _ => badline
  | _ => badline

partial def readAll (h : IO.FS.Stream) (F : Facts) : IO Facts := do
  let line ← h.getLine
  if line.isEmpty then return F
  readAll h (parseLine F line)

/-! the derived heap table: least table closed under the store / mkiface / hcopy rules (computed here,
    CHECKED by `ptrClosed`, so this computation is not trusted) -/

abbrev HeapTbl := Std.HashMap Label (List Label)

def HeapTbl.addAll (T : HeapTbl) (c : Label) (ls : List Label) : HeapTbl × Bool :=
  let cur := (T.get? c).getD []
  let new := ls.filter fun l => !cur.contains l
  if new.isEmpty then (T, false) else (T.insert c (cur ++ new.eraseDups), true)

def ptOpF (F : Facts) (f : Nat) (x : Opnd) : List Label :=
  match x with
  | .reg r => (F.pt.get? (f, r)).getD []
  | .glob g => [(Site.glob g, [])]
  | .fn g => [(Site.fn g, [])]
  | .const => []

def heapPass (F : Facts) (P : Prog) (T : HeapTbl) : HeapTbl × Bool := Id.run do
  let mut T := T
  let mut changed := false
  for f in [0:P.funcs.size] do
    if F.reach.contains f then
      for i in P.code f do
        match i with
        | .store x s v =>
          for l in ptOpF F f x do
            let (T', c) := T.addAll (extO l s) (ptOpF F f v)
            T := T'; changed := changed || c
        | .mkiface _ n t y =>
          let (T', c) := T.addAll (Site.iface n t, [ASel.pay]) (ptOpF F f y)
          T := T'; changed := changed || c
        | .hcopy x sx y sy only =>
          for lx in ptOpF F f x do
            if (match only with | none => true | some st => lx.1 == st) then
              for ly in ptOpF F f y do
                let (T', c) := T.addAll (ext lx sx) ((T.get? (ext ly sy)).getD [])
                T := T'; changed := changed || c
        | _ => pure ()
  return (T, changed)

partial def heapFix (F : Facts) (P : Prog) (T : HeapTbl) (fuel : Nat) : HeapTbl :=
  if fuel == 0 then T else
  let (T', c) := heapPass F P T
  if c then heapFix F P T' (fuel - 1) else T'

def Facts.res (F : Facts) (P : Prog) : Res :=
  let T := heapFix F P {} 1000
  { pt := fun f r => F.pt.get? (f, r),
    cg := fun f c g => F.cg.contains (f, c, g),
    reach := fun f => F.reach.contains f,
    heap := fun l => (T.get? l).getD [] }

end PtrFacts
