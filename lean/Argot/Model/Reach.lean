/-
Model of analysis/reachability (reachable_functions.go, value_visitor.go), core Lean only.

Go                                        Lean
-------------------------------------------------------------------------------------------
ssautil.AllFunctions(program)              Prog.fns (a function is its index)
ssa.Instruction (kind, operand fields)     Instr (kind : String, ops : (field name, VRef))
findEntryPoints                            entryPoints
findInterfaceMethods                       ifaceMethods   (over the dumped type nodes)
findInterfaceCallees                       ifaceCallees
preTraversalVisitValuesInstruction /       vroots / vsucc : the traversal of the operand graph with its
  preTraversalVisitValues (seen map)         `seen` set is the generic worklist closure `Closure.run`
findCallees                                findCallees = goTargets ++ ifaceTargets ++ valueFns
FindReachable (frontier / reachable map)   closure = Closure.run over findCallees

Which operand fields each of the two switches of value_visitor.go visits, and which cases of the
first loop of `findCallees` do anything, is NOT hard-wired: it is the `Tables` record, regenerated from
the Go source on every run (Argot/Gen/Reach.lean, interpreted in Argot/Model/ReachGen.lean).
-/
import Argot.Base.Closure

namespace Argot.Reach

/-- an operand: an instruction (value) of the same function, a function, or anything else
(constant, global, parameter, free variable, builtin) -/
inductive VRef where
  | instr (i : Nat)
  | fn (g : Nat)
  | other
  deriving DecidableEq, Repr, Inhabited

structure CallInfo where
  invoke   : Bool
  method   : String          -- invoke mode: the method name
  jmethods : List String     -- invoke mode: all method names of the receiver's interface type
  deriving Repr, Inhabited, DecidableEq

structure MkIface where
  itype : Nat                -- type node of the interface type converted to (v.Type())
  mset  : List (String × Nat) -- method set of the operand's type: (name, program.MethodValue)
  deriving Repr, Inhabited, DecidableEq

inductive TypeNode where
  | named (underlying : Nat)
  | iface (explicit : List String) (embedded : List Nat)
  | other
  deriving Repr, Inhabited, DecidableEq

structure Instr where
  kind  : String                     -- "Call", "Defer", "Go", "Store", "MakeInterface", …
  ops   : List (String × VRef)       -- operand field name ("Value", "Args", "X", "Fn", …) and operand
  call  : Option CallInfo := none    -- Call / Defer / Go
  conv  : Option MkIface := none     -- MakeInterface
  widen : Bool := false              -- TypeAssert to an interface type that has methods
  deriving Repr, Inhabited, DecidableEq

structure Fn where
  name    : String     -- f.Name()
  hasPkg  : Bool       -- f.Pkg != nil
  pkgName : String     -- f.Pkg.Pkg.Name()
  instrs  : List Instr
  anon    : List Nat   -- f.AnonFuncs
  deriving Repr, Inhabited, DecidableEq

structure Prog where
  fns   : List Fn
  types : List TypeNode
  deriving Repr, Inhabited

structure Tables where
  instrOps      : List (String × String) -- (instruction kind, operand field) visited by preTraversalVisitValuesInstruction
  valueOps      : List (String × String) -- (value kind, operand field) visited by preTraversalVisitValues
  goFn          : Bool  -- first loop of findCallees: `go` of a *ssa.Function
  goClosure     : Bool  -- … of a *ssa.MakeClosure whose Fn is a *ssa.Function
  mkIface       : Bool  -- … MakeInterface -> findInterfaceCallees
  valueActionFn : Bool  -- valueAction reports *ssa.Function values
  instrLoop     : Bool  -- second loop: preTraversalVisitValuesInstruction on every instruction
  deriving Repr, DecidableEq

def fnAt (P : Prog) (f : Nat) : Fn := P.fns.getD f default

/-! ### findEntryPoints -/

def isEntry (exMain exInit : Bool) (f : Fn) : Bool :=
  (!exMain && f.name == "main" && f.hasPkg && f.pkgName == "main") ||
  (!exInit && f.name == "init" && f.hasPkg && f.pkgName == "main")

def entryPoints (P : Prog) (exMain exInit : Bool) : List Nat :=
  (List.range P.fns.length).filter fun i => isEntry exMain exInit (fnAt P i)

/-! ### findInterfaceMethods / findInterfaceCallees -/

def ifaceMethods (types : List TypeNode) : Nat → Nat → List String
  | 0, _ => []
  | k + 1, t =>
    match types.getD t .other with
    | .named u => ifaceMethods types k u
    | .iface ex em => ex ++ em.flatMap (ifaceMethods types k)
    | .other => []

def methodsOf (P : Prog) (m : MkIface) : List String := ifaceMethods P.types (P.types.length + 1) m.itype

def ifaceCallees (P : Prog) (m : MkIface) : List Nat :=
  let ms := methodsOf P m
  if ms.isEmpty then m.mset.map (·.2)
  else (m.mset.filter fun e => ms.contains e.1).map (·.2)

/-! ### the value visitor -/

inductive VNode where
  | instr (i : Nat)
  | fn (g : Nat)
  deriving DecidableEq, Repr, Inhabited

def nodeOf : VRef → List VNode
  | .instr i => [.instr i]
  | .fn g => [.fn g]
  | .other => []

/-- operands of `ins` the table `tab` says are visited -/
def visitedOps (tab : List (String × String)) (ins : Instr) : List VNode :=
  (ins.ops.filter fun o => tab.contains (ins.kind, o.1)).flatMap fun o => nodeOf o.2

/-- `preTraversalVisitValues`: children of a value -/
def vsucc (T : Tables) (P : Prog) (f : Fn) : VNode → List VNode
  | .instr i => visitedOps T.valueOps (f.instrs.getD i default)
  | .fn g => if T.valueOps.contains ("Function", "AnonFuncs") then (fnAt P g).anon.map .fn else []

/-- the values `preTraversalVisitValuesInstruction` starts from, over all instructions of `f` -/
def vroots (T : Tables) (f : Fn) : List VNode := f.instrs.flatMap (visitedOps T.instrOps)

def vfuel (T : Tables) (P : Prog) (f : Fn) : Nat := (vroots T f).length + (f.instrs.length + P.fns.length) + 1

def fnOf : VNode → Option Nat
  | .fn g => some g
  | .instr _ => none

/-- the functions the second loop of `findCallees` reports -/
def valueFns (T : Tables) (P : Prog) (f : Fn) : List Nat :=
  if T.instrLoop && T.valueActionFn then
    (Closure.run id (vsucc T P f) (vfuel T P f) (vroots T f)).visited.filterMap fnOf
  else []

/-! ### first loop of findCallees -/

def opsAt (ins : Instr) (field : String) : List VRef := (ins.ops.filter fun o => o.1 == field).map (·.2)

def goTargetsOf (T : Tables) (f : Fn) (ins : Instr) : List Nat :=
  if ins.kind == "Go" && !(ins.call.map (·.invoke)).getD false then
    (opsAt ins "Value").flatMap fun v =>
      match v with
      | .fn g => if T.goFn then [g] else []
      | .instr j =>
        let mc := f.instrs.getD j default
        if T.goClosure && mc.kind == "MakeClosure" then
          (opsAt mc "Fn").flatMap fun w => match w with | .fn g => [g] | _ => []
        else []
      | .other => []
  else []

def ifaceTargetsOf (T : Tables) (P : Prog) (ins : Instr) : List Nat :=
  match ins.conv with
  | some m => if T.mkIface && ins.kind == "MakeInterface" then ifaceCallees P m else []
  | none => []

/-- `findCallees` -/
def findCallees (T : Tables) (P : Prog) (f : Nat) : List Nat :=
  let fn := fnAt P f
  fn.instrs.flatMap (fun ins => goTargetsOf T fn ins ++ ifaceTargetsOf T P ins) ++ valueFns T P fn

/-! ### FindReachable -/

def fuel (P : Prog) (roots : List Nat) : Nat := roots.length + P.fns.length + 1

/-- the reachable set (as the list of expanded functions; may contain repetitions) -/
def closure (T : Tables) (P : Prog) (roots : List Nat) : List Nat :=
  (Closure.run id (findCallees T P) (fuel P roots) roots).visited

def findReachable (T : Tables) (P : Prog) (exMain exInit : Bool) : List Nat :=
  closure T P (entryPoints P exMain exInit)

/-! ### specification side, executable part (criterion evaluated by the oracle on every program) -/

def funcRefs (f : Fn) : List Nat :=
  f.instrs.flatMap fun ins => ins.ops.filterMap fun o => match o.2 with | .fn g => some g | _ => none

def hasWidening (P : Prog) : Bool := P.fns.any fun f => f.instrs.any (·.widen)

/-- may a value converted by `m` be the receiver of the invoke `c`?  The dynamic type must implement the
receiver's interface; and if the program contains no interface-to-interface widening (TypeAssert to an
interface with methods) the conversion's interface must have all methods of the receiver's interface
(or be the empty interface). -/
def canFlow (P : Prog) (m : MkIface) (c : CallInfo) : Bool :=
  c.jmethods.all (fun n => (m.mset.map (·.1)).contains n) &&
  (hasWidening P || (methodsOf P m).isEmpty || c.jmethods.all fun n => (methodsOf P m).contains n)

/-- invoke dispatch from function `f` over the conversions executed in `E` -/
def dispatch (P : Prog) (E : List Nat) (f : Nat) : List Nat :=
  (fnAt P f).instrs.flatMap fun ins =>
    match ins.call with
    | some c =>
      if c.invoke then
        E.flatMap fun f' => (fnAt P f').instrs.flatMap fun ins' =>
          match ins'.conv with
          | some m => if canFlow P m c then (m.mset.filter fun e => e.1 == c.method).map (·.2) else []
          | none => []
      else []
    | none => []

def specSucc (P : Prog) (E : List Nat) (f : Nat) : List Nat := funcRefs (fnAt P f) ++ dispatch P E f

def subsetB (a b : List Nat) : Bool := a.all fun x => b.contains x

/-- `E` contains the roots and is closed under the rules of `Exec` -/
def stable (P : Prog) (roots E : List Nat) : Bool :=
  subsetB roots E && E.all fun f => subsetB (specSucc P E f) E

def addNew (E : List Nat) : List Nat → List Nat
  | [] => E
  | x :: xs => if E.contains x then addNew E xs else addNew (E ++ [x]) xs

def rtaStep (P : Prog) (E : List Nat) : List Nat := addNew E (E.flatMap (specSucc P E))

def rtaIter (P : Prog) : Nat → List Nat → List Nat
  | 0, E => E
  | k + 1, E => let E' := rtaStep P E; if E'.length == E.length then E else rtaIter P k E'

/-- the RTA-style execution set, computed -/
def execSet (P : Prog) (roots : List Nat) : List Nat := rtaIter P (P.fns.length + 1) (addNew [] roots)

/-! ### well-formedness of dumped facts -/

/-- operand positions that can hold a `*ssa.Function` directly (what the property needs visited) -/
def canHoldFunc : List (String × String) :=
  [ ("Call", "Value"), ("Call", "Args"), ("Defer", "Value"), ("Defer", "Args"), ("Go", "Value"), ("Go", "Args"),
    ("Store", "Val"), ("MakeClosure", "Fn"), ("MakeClosure", "Bindings"), ("MakeInterface", "X"),
    ("Return", "Results"), ("Phi", "Edges"), ("Send", "X"), ("MapUpdate", "Value"), ("ChangeType", "X"),
    ("BinOp", "X"), ("BinOp", "Y"), ("Select", "Send") ]

def refWf (n ni : Nat) : VRef → Bool
  | .instr i => i < ni
  | .fn g => g < n
  | .other => true

def instrWf (n : Nat) (f : Fn) (ins : Instr) : Bool :=
  ins.ops.all (fun o => refWf n f.instrs.length o.2 &&
    (match o.2 with | .fn _ => canHoldFunc.contains (ins.kind, o.1) | _ => true)) &&
  (match ins.conv with | some m => ins.kind == "MakeInterface" && m.mset.all (·.2 < n) | none => true) &&
  (match ins.call with | some c => !c.invoke || c.jmethods.contains c.method | none => true)

def wf (P : Prog) : Bool :=
  P.fns.all fun f => f.anon.all (· < P.fns.length) && f.instrs.all (instrWf P.fns.length f)

end Argot.Reach
