/-
Interpretation of the regenerated table T3 (Argot/Gen/Reach.lean, guard paths of
analysis/reachability/value_visitor.go and reachable_functions.go) as the `Tables` record of the model.

A guard path the model does not know makes `genKnown = false` (obligation `gen_known` of Props/C18 fails):
the model never guesses what changed code does.
-/
import Argot.Model.Reach
import Argot.Gen.Reach

namespace Argot.Reach
open Argot.Gen.Reach

/-- the SSA kinds a case of the two switches may name -/
def ssaKinds : List String := ["Alloc", "BinOp", "Call", "ChangeInterface", "ChangeType", "Convert", "DebugRef", "Defer", "Extract", "Field", "FieldAddr", "Go", "If", "Index", "IndexAddr", "Jump", "Lookup", "MakeChan", "MakeClosure", "MakeInterface", "MakeMap", "MakeSlice", "MapUpdate", "MultiConvert", "Next", "Panic", "Phi", "Range", "Return", "RunDefers", "Select", "Send", "Slice", "SliceToArrayPointer", "Store", "TypeAssert", "UnOp", "Function", "Builtin", "Const", "Global", "Parameter", "FreeVar"]

/-- how a visited operand is written in the Go source -> operand field names -/
def visitForms : List (List String × List String) := [
  (["visit(x.X)"], ["X"]),
  (["visit(x.Y)"], ["Y"]),
  (["visit(x.Tuple)"], ["Tuple"]),
  (["visit(x.Cond)"], ["Cond"]),
  (["visit(x.Index)"], ["Index"]),
  (["visit(x.Size)"], ["Size"]),
  (["visit(x.Fn)"], ["Fn"]),
  (["visit(x.Reserve)"], ["Reserve"]),
  (["visit(x.Cap)"], ["Cap"]),
  (["visit(x.Len)"], ["Len"]),
  (["visit(x.Key)"], ["Key"]),
  (["visit(x.Map)"], ["Map"]),
  (["visit(x.Value)"], ["Value"]),
  (["visit(x.Iter)"], ["Iter"]),
  (["visit(x.Chan)"], ["Chan"]),
  (["visit(x.Addr)"], ["Addr"]),
  (["visit(x.Val)"], ["Val"]),
  (["visit(x.High)"], ["High"]),
  (["visit(x.Low)"], ["Low"]),
  (["visit(x.Max)"], ["Max"]),
  (["visit(common.Value)"], ["Value"]),
  (["range common.Args", "visit(common.Args[i])"], ["Args"]),
  (["visit(x.Call.Value)"], ["Value"]),
  (["range x.Call.Args", "visit(x.Call.Args[i])"], ["Args"]),
  (["range x.Bindings", "visit(x.Bindings[i])"], ["Bindings"]),
  (["range x.Edges", "visit(edge)"], ["Edges"]),
  (["range x.Results", "visit(x.Results[i])"], ["Results"]),
  (["range x.States", "visit(state.Chan)"], ["Chan"]),
  (["range x.States", "visit(state.Send)"], ["Send"]),
  (["range []ssa.Value{x.X, x.Low, x.High, x.Max}", "visit(val)"], ["X", "Low", "High", "Max"]),
  (["range x.AnonFuncs", "visit(x.AnonFuncs[i])"], ["AnonFuncs"]),
  (["range x.FreeVars", "visit(x.FreeVars[i])"], ["FreeVars"]),
  (["range x.Locals", "visit(x.Locals[i])"], ["Locals"]),
  (["range x.Params", "visit(x.Params[i])"], ["Params"])
]

def lookupForm (rest : List String) : Option (List String) := (visitForms.find? fun e => e.1 == rest).map (·.2)

/-- one guard path of a visitor switch -> the (kind, field) pairs it visits -/
def interpVisit (tag : String) (p : List String) : Option (List (String × String)) :=
  match p with
  | g :: rest =>
    match ssaKinds.find? (fun k => g == tag ++ ":*ssa." ++ k) with
    | some k => (lookupForm rest).map fun fs => fs.map fun f => (k, f)
    | none => none
  | [] => none

/-- paths of `preTraversalVisitValues` that are not case arms: the action on the node and the seen mark -/
def valuePrologue : List (List String) := [["action(value)"], ["seen[value] = true"]]

def valueCasePaths : List (List String) := valuePaths.filter fun p => !valuePrologue.contains p

def dropLoops (p : List String) : List String := p.filter fun g => !(g.startsWith "range ")

def pGoFn : List String := ["instr:*ssa.Go", "!(v.Call.IsInvoke())", "v.Call.Value:*ssa.Function", "action(value)"]
def pGoClosure : List String :=
  ["instr:*ssa.Go", "!(v.Call.IsInvoke())", "v.Call.Value:*ssa.MakeClosure", "ok{value.Fn.(*ssa.Function)}", "action(fn)"]
def pMkIface : List String := ["instr:*ssa.MakeInterface", "findInterfaceCallees(program, v.Type(), v.X, action)"]
def pValueAction : List String := ["func valueAction", "ok{v.(*ssa.Function)}", "action(x)"]
def pInstrLoop : List String := ["preTraversalVisitValuesInstruction(instr, seen, valueAction)"]

/-- the parts of the code that are modelled as fixed logic (not as a table) -/
def fixedPartsAsModelled : Bool :=
  ifaceCalleesPaths == [
    ["!(len(interfaceMethods) == 0)", "for i < methodSet.Len()", "need{methodsNeeded[selection.Obj().Name()]}", "action(f)"],
    ["!(len(interfaceMethods) == 0)", "methodsNeeded := make(map[string]bool, len(interfaceMethods))"],
    ["!(len(interfaceMethods) == 0)", "range interfaceMethods", "methodsNeeded[m.Name()] = true"],
    ["findInterfaceMethods(interfaceType, &interfaceMethods)"],
    ["len(interfaceMethods) == 0", "for i < methodSet.Len()", "action(f)"]] &&
  ifaceMethodsPaths == [
    ["interfaceType:*types.Interface", "for i < t.NumEmbeddeds()", "findInterfaceMethods(t.EmbeddedType(i), target)"],
    ["interfaceType:*types.Interface", "for i < t.NumExplicitMethods()", "*target = append(*target, m)"],
    ["interfaceType:*types.Named", "findInterfaceMethods(t.Underlying(), target)"]] &&
  entryPaths == [
    ["range allFunctions",
     "(!excludeMain && f.Name() == \"main\" && f.Pkg != nil && f.Pkg.Pkg.Name() == \"main\") || (!excludeInit && f.Name() == \"init\" && f.Pkg != nil && f.Pkg.Pkg.Name() == \"main\")",
     "entryPoints = append(entryPoints, f)"]] &&
  reachPaths == [
    ["for len(frontier) != 0", "f := frontier[len(frontier)-1]"],
    ["for len(frontier) != 0", "findCallees(state.Program, f, func(fnext *ssa.Function) { if graph != nil { from := lang.PackageNameFromFunction(f) to := lang.PackageNameFromFunction(fnext) if from != to && from != \"\" { graph.Add(from, to) } } if !reachable[fnext] { reachable[fnext] = true frontier = append(frontier, fnext) } })"],
    ["for len(frontier) != 0", "frontier = frontier[:len(frontier)-1]"],
    ["frontier := make([]*ssa.Function, 0)"],
    ["range entryPoints", "frontier = append(frontier, f)"],
    ["range entryPoints", "reachable[f] = true"],
    ["reachable := make(map[*ssa.Function]bool, len(allFunctions))"]] &&
  -- the dependencies tool counts a function as used iff FindReachable (default roots) reports it
  dependencyPaths == [
    ["range allFunctions", "ok || dc.IncludeStdlib", "!(isReachable{reachable[f]})", "entry.unreachableLocs += locs"],
    ["range allFunctions", "ok || dc.IncludeStdlib", "isReachable{reachable[f]}", "entry.reachableLocs += locs"],
    ["reachable := reachability.FindReachable(state, false, false, dependencyGraph)"]]

/-- every regenerated path is one the model interprets -/
def genKnown : Bool :=
  !unparsed &&
  instrPaths.all (fun p => (interpVisit "instruction" p).isSome) &&
  valuePrologue.all (fun p => valuePaths.contains p) &&
  valueCasePaths.all (fun p => (interpVisit "value" p).isSome) &&
  (calleePaths.map dropLoops).all (fun p => [pGoFn, pGoClosure, pMkIface, pValueAction, pInstrLoop].contains p) &&
  fixedPartsAsModelled

/-- the tables of the code as it is now -/
def genTables : Tables :=
  { instrOps := instrPaths.flatMap fun p => (interpVisit "instruction" p).getD []
    valueOps := valueCasePaths.flatMap fun p => (interpVisit "value" p).getD []
    goFn := (calleePaths.map dropLoops).contains pGoFn
    goClosure := (calleePaths.map dropLoops).contains pGoClosure
    mkIface := (calleePaths.map dropLoops).contains pMkIface
    valueActionFn := (calleePaths.map dropLoops).contains pValueAction
    instrLoop := (calleePaths.map dropLoops).contains pInstrLoop }

end Argot.Reach
