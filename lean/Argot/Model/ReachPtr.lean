/-
C18, pointer-call-graph inclusion: the executable provenance criterion (core Lean only, so that an oracle
can evaluate it on the dumped SSA facts + the real call graph).

A call-graph edge is `(f, site, g)`: caller, index of the call instruction in `f`, callee.  `R` is the
reachability set the tool computed (`Reach.findReachable`).  The edge is *justified by the facts* if

  static    the instruction at `site` of `f` is a non-invoke call whose callee operand is the function `g`,
            or a `MakeClosure` of `g` (what `ssa.CallCommon.StaticCallee` answers);
  named     `g` is *named* by a function of `R`: it is a function-value operand of one of its instructions
            (argument, stored / returned / captured / sent value, `MakeClosure.Fn` — this is where
            `$bound` and `$thunk` functions appear: x/tools puts the synthetic function itself in the
            operand), or it is the method (`program.MethodValue`, i.e. the wrapper itself for promoted /
            pointer-receiver wrappers) of a type converted to an interface whose method set names it
            (`ifaceCallees`: every method when the interface is empty);
  dispatch  the instruction at `site` of `f` is an invoke of method `n`, and a function of `R` converts to an
            interface a type that may flow to the receiver (`canFlow`) and whose method `n` is `g`.

`named` covers `static` of a caller in `R` and "the callee of a wrapper named in R" when `R` is the whole
reachability set (it is closed under `funcRefs`), so no separate wrapper table is needed.  The converse
reading — an edge to a wrapper `g` justified because the function `g` wraps is named — is NOT sufficient
(`Props/C18Ptr.wrapper_clause_unsound`).
-/
import Argot.Model.Reach
import Argot.Model.Cg

namespace Argot.Reach

/-- `(caller, site, callee)` -/
abbrev Edge := Nat × Nat × Nat

/-- the site-less edges `Cg.reach` (C12) runs on -/
def cgEdges (edges : List Edge) : List (Nat × Nat) := edges.map fun e => (e.1, e.2.2)

def instrAt (P : Prog) (f site : Nat) : Instr := (fnAt P f).instrs.getD site default

/-- `StaticCallee` of the call at `site` is `g` -/
def staticAt (P : Prog) (f site g : Nat) : Bool :=
  let ins := instrAt P f site
  match ins.call with
  | some c =>
    !c.invoke && (opsAt ins "Value").any fun v =>
      match v with
      | .fn g' => g' == g
      | .instr j => let mc := instrAt P f j
                    mc.kind == "MakeClosure" && (opsAt mc "Fn").contains (.fn g)
      | .other => false
  | none => false

/-- the methods the conversions of `f` make callable -/
def convCallees (P : Prog) (f : Fn) : List Nat :=
  f.instrs.flatMap fun ins => match ins.conv with | some m => ifaceCallees P m | none => []

/-- every function named by a function of `R` (computed once per program) -/
def namedBy (P : Prog) (R : List Nat) : List Nat :=
  R.flatMap fun f' => funcRefs (fnAt P f') ++ convCallees P (fnAt P f')

/-- invoke dispatch at `site` over the conversions of the functions of `R` -/
def dispatchAt (P : Prog) (R : List Nat) (f site g : Nat) : Bool :=
  match (instrAt P f site).call with
  | some c =>
    c.invoke && R.any fun f' => (fnAt P f').instrs.any fun ins' =>
      match ins'.conv with
      | some m => canFlow P m c && m.mset.contains (c.method, g)
      | none => false
  | none => false

/-- justified without looking at invoke dispatch (`N` = `namedBy P R`) -/
def edgeNamed (P : Prog) (N : List Nat) (e : Edge) : Bool :=
  staticAt P e.1 e.2.1 e.2.2 || N.contains e.2.2

def edgeOK (P : Prog) (R N : List Nat) (e : Edge) : Bool :=
  edgeNamed P N e || dispatchAt P R e.1 e.2.1 e.2.2

/-- **the strict criterion**: every edge is static or goes to a function named by `R` -/
def provNamed (P : Prog) (R : List Nat) (edges : List Edge) : Bool :=
  let N := namedBy P R
  edges.all (edgeNamed P N)

/-- **the provenance criterion**: every edge is static, goes to a function named by `R`, or is an invoke
dispatch to a method of a type some function of `R` converts to an interface -/
def provOK (P : Prog) (R : List Nat) (edges : List Edge) : Bool :=
  let N := namedBy P R
  edges.all (edgeOK P R N)

/-- the edges the criterion rejects (what an oracle would print) -/
def unjustified (P : Prog) (R : List Nat) (edges : List Edge) : List Edge :=
  let N := namedBy P R
  edges.filter fun e => !edgeOK P R N e

end Argot.Reach
