/-
Two small LTSs for the other goroutines the analyzer starts itself (C20). Core Lean only.

(1) `Writer`: the `report-summaries` writer of `InterProceduralFlowGraph.BuildGraph`
    (analysis/dataflow/inter_procedural.go:124-226):

```go
	summariesFile := openSummaries(c)
	if summariesFile != nil { defer summariesFile.Close() }       // runs when BuildGraph returns
	... STEP 1, STEP 2 ...
	if summariesFile != nil {
		go func() {                                               // the writer: NOT joined in the code
			for _, summary := range g.Summaries { ... summariesFile.WriteString(...); summary.Print(false, summariesFile) ... }
		}()
	}
	// STEP 3: link all the summaries together
	for _, summary := range g.Summaries { ... g.Summaries[node.Callee()] = calleeSummary ... }   // map writes
	g.built = true
}
```
    `Join` says where (if anywhere) the calling goroutine waits for the writer; it is read off the
    source on every run (table T9, `Argot.Gen.T9`).  `S` = the summaries present when the writer is
    spawned, `k` = number of map insertions of STEP 3.  `race` is raised when STEP 3 writes the map
    while the writer's iteration over the same map is in progress (no happens-before edge);
    a `WriteString` on the closed file fails and its error is discarded (`_, _ =`): the entry is lost.

(2) `Group`: `NewAnalyzerState`'s step group (analysis/dataflow/state.go:186-197):
    `for _, step := range steps { wg.Add(1); go func() { defer wg.Done(); step(state) }() }; wg.Wait()`.
-/

namespace Argot.ReportWriter

inductive Join where
  | none | beforeLink | beforeReturn
  deriving DecidableEq, Repr

inductive MainPc where
  | spawn | joinEarly | link (j : Nat) | joinLate | close | ret
  deriving DecidableEq, Repr

inductive WriterPc where
  | unspawned | iter (todo : List Nat) | done
  deriving DecidableEq, Repr

structure St where
  main : MainPc := .spawn
  writer : WriterPc := .unspawned
  written : List Nat := []
  lost : List Nat := []
  closed : Bool := false
  race : Bool := false
  deriving DecidableEq, Repr

inductive Lbl where
  | spawn | join | linkWrite | linkDone | close | write | writerEnd
  deriving DecidableEq, Repr

def WriterPc.iterating : WriterPc → Bool
  | .iter _ => true
  | _ => false

def step (jn : Join) (S : List Nat) (k : Nat) (l : Lbl) (σ : St) : Option St :=
  match l with
  | .spawn =>
    match σ.main with
    | .spawn => some { σ with main := (if jn = .beforeLink then .joinEarly else .link k), writer := .iter S }
    | _ => none
  | .join =>
    match σ.main, σ.writer with
    | .joinEarly, .done => some { σ with main := .link k }
    | .joinLate, .done => some { σ with main := .close }
    | _, _ => none
  | .linkWrite =>
    match σ.main with
    | .link (j + 1) => some { σ with main := .link j, race := σ.race || σ.writer.iterating }
    | _ => none
  | .linkDone =>
    match σ.main with
    | .link 0 => some { σ with main := (if jn = .beforeReturn then .joinLate else .close) }
    | _ => none
  | .close =>
    match σ.main with
    | .close => some { σ with main := .ret, closed := true }
    | _ => none
  | .write =>
    match σ.writer with
    | .iter (x :: t) =>
      if σ.closed then some { σ with writer := .iter t, lost := σ.lost ++ [x] }
      else some { σ with writer := .iter t, written := σ.written ++ [x] }
    | _ => none
  | .writerEnd =>
    match σ.writer with
    | .iter [] => some { σ with writer := .done }
    | _ => none

def init : St := {}

inductive Reachable (jn : Join) (S : List Nat) (k : Nat) : St → Prop where
  | init : Reachable jn S k init
  | step {σ σ' l} : Reachable jn S k σ → step jn S k l σ = some σ' → Reachable jn S k σ'

def runLabels (jn : Join) (S : List Nat) (k : Nat) : List Lbl → St → Option St
  | [], σ => some σ
  | l :: ls, σ => (step jn S k l σ).bind (runLabels jn S k ls)

/-- decode of the table datum: 0 = no join, 1 = joined before the next loop over `g.Summaries`, 2 = joined later -/
def Join.ofCode : Nat → Join
  | 0 => .none
  | 1 => .beforeLink
  | _ => .beforeReturn

end Argot.ReportWriter

namespace Argot.StepGroup

/-- a step goroutine -/
inductive T where
  | running | done
  deriving DecidableEq, Repr

inductive MainPc where
  | forking | waiting | after
  deriving DecidableEq, Repr

structure St where
  main : MainPc := .forking
  ts : List T := []
  wg : Nat := 0
  err : Bool := false
  deriving Repr

inductive Lbl where
  | fork            -- `wg.Add(1); go …`
  | endFork         -- loop over `steps` finished
  | finish (i : Nat) -- step `i` returns, deferred `wg.Done()`
  | pass            -- `wg.Wait()` returns
  deriving DecidableEq, Repr

def step (k : Nat) (l : Lbl) (σ : St) : Option St :=
  if σ.err then none else
  match l with
  | .fork =>
    match σ.main with
    | .forking => if σ.ts.length < k then some { σ with ts := σ.ts ++ [.running], wg := σ.wg + 1 } else none
    | _ => none
  | .endFork =>
    match σ.main with
    | .forking => if σ.ts.length < k then none else some { σ with main := .waiting }
    | _ => none
  | .finish i =>
    match σ.ts[i]? with
    | some .running =>
      if σ.wg = 0 then some { σ with err := true } else some { σ with ts := σ.ts.set i .done, wg := σ.wg - 1 }
    | _ => none
  | .pass =>
    match σ.main with
    | .waiting => if σ.wg = 0 then some { σ with main := .after } else none
    | _ => none

def init : St := {}

inductive Reachable (k : Nat) : St → Prop where
  | init : Reachable k init
  | step {σ σ' l} : Reachable k σ → step k l σ = some σ' → Reachable k σ'

end Argot.StepGroup
