/-
Model of the summary graphs and of the linked inter-procedural graph as a state machine, core Lean only
(analysis/dataflow/function_summary_graph.go, function_summary_graph_nodes.go, inter_procedural.go,
globals.go).  Nodes, summaries, call instructions, MakeClosure instructions and globals are numbers.

Go                                                                   Lean
------------------------------------------------------------------------------------------------------------
node.out / node.in                                                   State.e : Edges Nat        (SGraphEdges.lean)
updateEdgeInfo + addInEdge (addEdge, addCallArgEdge, …)              Op.addEdge
addParamEdgeByPos / addReturnEdgeByPos                               Op.appendEdge
AddAccessGlobalNode                                                  Op.addAccess
addGlobalEdge: node.IsWrite = true                                   Op.markWrite
BuildGraph STEP 2 / resolveCalleeSummary:                            Op.linkCallee
   node.CalleeSummary = S; if S.Callsites[site] == nil { … = node }    (guarded by node.CalleeSummary == nil)
BuildGraph / Sync: closureNode.ClosureSummary = S (nil is safe);     Op.linkClosure
   S.ReferringMakeClosures[instr] = closureNode
RunIntraProcedural end: SyncGlobals(); Constructed = true            Op.syncGlobals
CallNode.CalleeSummary                                               State.calleeSummary   (map call node ↦ summary)
SummaryGraph.Callsites                                               State.callsites       (map (summary, site) ↦ node)
ClosureNode.ClosureSummary                                           State.closureSummary  (map closure node ↦ summary)
SummaryGraph.ReferringMakeClosures                                   State.referring       (map (summary, instr) ↦ node)
SummaryGraph.AccessGlobalNodes (+ IsWrite)                           State.access
GlobalNode.ReadLocations / WriteLocations                            State.readLoc / writeLoc (sets of (global, node))
-/
import Argot.Model.SGraphEdges

namespace Argot.SGraph

/-- immutable facts about nodes: the call instruction of a call node, the MakeClosure instruction of a
closure node. -/
structure Static where
  site   : Nat → Nat
  cinstr : Nat → Nat

structure AccessNode where
  node    : Nat
  summary : Nat
  global  : Nat
  isWrite : Bool
  deriving Repr, DecidableEq, Inhabited

structure State where
  e              : Edges Nat := {}
  calleeSummary  : List (Nat × Nat) := []
  callsites      : List (Nat × Nat × Nat) := []
  closureSummary : List (Nat × Nat) := []
  referring      : List (Nat × Nat × Nat) := []
  access         : List AccessNode := []
  constructed    : List Nat := []
  readLoc        : List (Nat × Nat) := []
  writeLoc       : List (Nat × Nat) := []
  deriving Repr

inductive Op where
  | addEdge (s d : Nat) (i : Idx)
  | appendEdge (s d : Nat) (i : Idx)
  | addAccess (a S g : Nat)
  | markWrite (a : Nat)
  | linkCallee (n S : Nat)
  | linkClosure (c : Nat) (S : Option Nat)
  | syncGlobals (S : Nat)
  deriving Repr, DecidableEq

def hasOut (e : Edges Nat) (x : Nat) : Bool := e.out.any fun t => t.1 = x

def isAccess (st : State) (x : Nat) : Bool := st.access.any fun a => a.node = x

/-- the summary an access node belongs to has been constructed. -/
def accessConstructed (st : State) (x : Nat) : Bool :=
  st.access.any fun a => a.node = x && st.constructed.contains a.summary

def syncOne (st : State) (S : Nat) (acc : List (Nat × Nat) × List (Nat × Nat)) (a : AccessNode) :
    List (Nat × Nat) × List (Nat × Nat) :=
  if a.summary = S then
    if a.isWrite then (acc.1, acc.2 ++ [(a.global, a.node)])
    else if hasOut st.e a.node then (acc.1 ++ [(a.global, a.node)], acc.2)
    else acc
  else acc

def step (σ : Static) (st : State) : Op → State
  | .addEdge s d i => { st with e := st.e.addEdge s d i }
  | .appendEdge s d i => { st with e := st.e.appendEdge s d i }
  | .addAccess a S g =>
    if isAccess st a then st else { st with access := st.access ++ [⟨a, S, g, false⟩] }
  | .markWrite a => { st with access := st.access.map fun x => if x.node = a then { x with isWrite := true } else x }
  | .linkCallee n S =>
    if st.calleeSummary.any (fun p => p.1 = n) then st
    else { st with
      calleeSummary := st.calleeSummary ++ [(n, S)],
      callsites := if st.callsites.any (fun t => t.1 = S && t.2.1 = σ.site n) then st.callsites
                   else st.callsites ++ [(S, σ.site n, n)] }
  | .linkClosure c none => { st with closureSummary := st.closureSummary.filter fun p => !(p.1 = c) }
  | .linkClosure c (some S) => { st with
      closureSummary := (st.closureSummary.filter fun p => !(p.1 = c)) ++ [(c, S)],
      referring := (st.referring.filter fun t => !(t.1 = S && t.2.1 = σ.cinstr c)) ++ [(S, σ.cinstr c, c)] }
  | .syncGlobals S =>
    let r := st.access.foldl (syncOne st S) (st.readLoc, st.writeLoc)
    { st with readLoc := r.1, writeLoc := r.2, constructed := st.constructed ++ [S] }

/-- what the Go code takes for granted when it performs the operation (all decidable). -/
def Op.ok (σ : Static) (st : State) : Op → Bool
  -- edges out of a global-access node, and its IsWrite flag, change only while its summary is being built
  | .addEdge s _ _ => !accessConstructed st s
  | .appendEdge s _ _ => !accessConstructed st s
  | .addAccess _ S _ => !st.constructed.contains S
  | .markWrite a => !accessConstructed st a
  -- two different call nodes linked to one summary sit at different call instructions
  | .linkCallee n S => st.calleeSummary.all fun p => !(p.2 = S && σ.site p.1 = σ.site n && p.1 ≠ n)
  -- two different closure nodes linked to one summary come from different MakeClosure instructions
  | .linkClosure c (some S) => st.closureSummary.all fun p => !(p.2 = S && σ.cinstr p.1 = σ.cinstr c && p.1 ≠ c)
  | .linkClosure _ none => true
  | .syncGlobals _ => true

def run (σ : Static) : State → List Op → State
  | st, [] => st
  | st, op :: ops => run σ (step σ st op) ops

/-- all operations of the list are performed under their precondition. -/
def allOk (σ : Static) : State → List Op → Bool
  | _, [] => true
  | st, op :: ops => op.ok σ st && allOk σ (step σ st op) ops

/-! ### the invariant (decidable; the oracle evaluates it on every dumped real graph) -/

/-- (a) out/in agree on which pairs are connected; every in entry has its out entry with the same index; `in` is a map. -/
def InvEdges (st : State) : Prop :=
  (∀ t ∈ st.e.out, ∃ f ∈ st.e.inn, f.1 = t.2.1 ∧ f.2.1 = t.1) ∧
  (∀ f ∈ st.e.inn, ∃ t ∈ st.e.out, f.1 = t.2.1 ∧ f.2.1 = t.1 ∧ f.2.2 = t.2.2) ∧
  inKeysUnique st.e.inn = true

/-- (b) a linked call node is registered among its callee summary's call sites, and conversely. -/
def InvCalls (σ : Static) (st : State) : Prop :=
  (∀ p ∈ st.calleeSummary, (p.2, σ.site p.1, p.1) ∈ st.callsites) ∧
  (∀ t ∈ st.callsites, σ.site t.2.2 = t.2.1 ∧ (t.2.2, t.1) ∈ st.calleeSummary)

/-- (c) a closure node is registered with the summary of the closure it creates. -/
def InvClosures (σ : Static) (st : State) : Prop :=
  ∀ p ∈ st.closureSummary, (p.2, σ.cinstr p.1, p.1) ∈ st.referring

/-- (d) read / write location sets of globals = access nodes of constructed summaries
(written: `IsWrite`; read: not written and with an out edge — what `SyncGlobals` records). -/
def InvGlobals1 (st : State) : Prop :=
  ∀ a ∈ st.access, a.summary ∈ st.constructed →
      (a.isWrite = true → (a.global, a.node) ∈ st.writeLoc) ∧
      (a.isWrite = false → hasOut st.e a.node = true → (a.global, a.node) ∈ st.readLoc)

def InvGlobals2 (st : State) : Prop :=
  ∀ w ∈ st.writeLoc, ∃ a ∈ st.access, a.node = w.2 ∧ a.global = w.1 ∧ a.isWrite = true ∧ a.summary ∈ st.constructed

def InvGlobals3 (st : State) : Prop :=
  ∀ w ∈ st.readLoc, ∃ a ∈ st.access, a.node = w.2 ∧ a.global = w.1 ∧ a.isWrite = false ∧
      hasOut st.e a.node = true ∧ a.summary ∈ st.constructed

def InvGlobals (st : State) : Prop := InvGlobals1 st ∧ InvGlobals2 st ∧ InvGlobals3 st

/-- bookkeeping the proofs need: the maps are maps, access nodes are unique. -/
def InvMaps (st : State) : Prop :=
  (st.calleeSummary.map (·.1)).Nodup ∧ (st.closureSummary.map (·.1)).Nodup ∧ (st.access.map (·.node)).Nodup

instance (st : State) : Decidable (InvEdges st) := by unfold InvEdges; infer_instance
instance (σ : Static) (st : State) : Decidable (InvCalls σ st) := by unfold InvCalls; infer_instance
instance (σ : Static) (st : State) : Decidable (InvClosures σ st) := by unfold InvClosures; infer_instance
instance (st : State) : Decidable (InvGlobals1 st) := by unfold InvGlobals1; infer_instance
instance (st : State) : Decidable (InvGlobals2 st) := by unfold InvGlobals2; infer_instance
instance (st : State) : Decidable (InvGlobals3 st) := by unfold InvGlobals3; infer_instance
instance (st : State) : Decidable (InvGlobals st) := by unfold InvGlobals; infer_instance
instance (st : State) : Decidable (InvMaps st) := by unfold InvMaps; infer_instance

def invEdges (st : State) : Bool := decide (InvEdges st)
def invCalls (σ : Static) (st : State) : Bool := decide (InvCalls σ st)
def invClosures (σ : Static) (st : State) : Bool := decide (InvClosures σ st)
def invGlobals (st : State) : Bool := decide (InvGlobals st)
def invMaps (st : State) : Bool := decide (InvMaps st)

/-- the invariant the oracle evaluates on every dumped real graph. -/
def inv (σ : Static) (st : State) : Bool :=
  invEdges st && invCalls σ st && invClosures σ st && invGlobals st && invMaps st

/-- the property's "with the same tuple index", in full. -/
def invIndex (st : State) : Bool := st.e.indexConsistent

/-- each connected pair carries one index only (hypothesis of the partial theorem; decidable on dumps). -/
def singleIndex (st : State) : Bool :=
  st.e.out.all fun t => st.e.out.all fun u => !(t.1 = u.1 && t.2.1 = u.2.1) || t.2.2 = u.2.2

end Argot.SGraph
