/-
Converse registrations of the linked graph (core Lean only; `oracle_c17` evaluates these on every dumped
real graph).  C17's `inv` has (b) in both directions (`InvCalls`) but (c) in one direction only
(`InvClosures`: ClosureSummary ⊆ ReferringMakeClosures).  Here: the converse of (c), the converse half of
(b) on its own, and — outside the op machine, whose state has no notion of node ownership — the
registrations whose node is no longer owned by a summary (`Callees` / `CreatedClosures`).
-/
import Argot.Model.SGraph

namespace Argot.SGraph

/-- entries of `ReferringMakeClosures` that are stale: the registered closure node does not sit at the
registered MakeClosure instruction, or its `ClosureSummary` is not the registering summary. -/
def staleReferring (σ : Static) (st : State) : List (Nat × Nat × Nat) :=
  st.referring.filter fun t => !(σ.cinstr t.2.2 == t.2.1 && st.closureSummary.contains (t.2.2, t.1))

/-- **converse of (c)**: every entry of `ReferringMakeClosures` of summary `S` is a closure node at that
instruction whose `ClosureSummary` is `S`. -/
def InvRefConv (σ : Static) (st : State) : Prop :=
  ∀ t ∈ st.referring, σ.cinstr t.2.2 = t.2.1 ∧ (t.2.2, t.1) ∈ st.closureSummary

instance (σ : Static) (st : State) : Decidable (InvRefConv σ st) := by unfold InvRefConv; infer_instance

def invClosuresConv (σ : Static) (st : State) : Bool := decide (InvRefConv σ st)

/-- entries of `Callsites` that are stale (the converse half of (b), already part of `inv`). -/
def staleCallsites (σ : Static) (st : State) : List (Nat × Nat × Nat) :=
  st.callsites.filter fun t => !(σ.site t.2.2 == t.2.1 && st.calleeSummary.contains (t.2.2, t.1))

def InvSiteConv (σ : Static) (st : State) : Prop :=
  ∀ t ∈ st.callsites, σ.site t.2.2 = t.2.1 ∧ (t.2.2, t.1) ∈ st.calleeSummary

instance (σ : Static) (st : State) : Decidable (InvSiteConv σ st) := by unfold InvSiteConv; infer_instance

def invCallsConv (σ : Static) (st : State) : Bool := decide (InvSiteConv σ st)

/-- what the op machine must additionally respect for the converse of (c) to be preserved: a closure
node is never re-linked to a DIFFERENT summary, and never unlinked once linked. -/
def Op.okConv (st : State) : Op → Bool
  | .linkClosure c (some S) => st.closureSummary.all fun p => !(p.1 = c) || p.2 = S
  | .linkClosure c none => st.closureSummary.all fun p => !(p.1 = c)
  | _ => true

def allOkConv (σ : Static) : State → List Op → Bool
  | _, [] => true
  | st, op :: ops => op.okConv st && allOkConv σ (step σ st op) ops

/-- node ownership, dumped next to the state: the call nodes found in `Callees` of their own summary and
the closure nodes found in `CreatedClosures` of their own summary. -/
structure Owned where
  calls : List Nat := []
  closures : List Nat := []

/-- registered in a callee's `Callsites` but no longer a call node of any summary. -/
def orphanCallsites (o : Owned) (st : State) : List (Nat × Nat × Nat) :=
  st.callsites.filter fun t => !o.calls.contains t.2.2

/-- registered in a closure's `ReferringMakeClosures` but no longer a closure node of any summary. -/
def orphanReferring (o : Owned) (st : State) : List (Nat × Nat × Nat) :=
  st.referring.filter fun t => !o.closures.contains t.2.2

end Argot.SGraph
