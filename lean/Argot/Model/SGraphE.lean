/-
Crash model of the summary-graph construction, core Lean only: the node tables `NewSummaryGraph` fills
(analysis/dataflow/function_summary_graph.go) and the edge-adding entry points the intra-procedural pass calls
(analysis/dataflow/intra_procedural.go: makeEdgesAtCallSite / makeEdgesAtClosure / makeEdgesAtReturn), as an
`Except PanicSite`-returning wrapper around the C17 op machine (Argot/Model/SGraph.lean): every edge that is
really inserted is one `SGraph.Op.addEdge` (Go: updateEdgeInfo + addInEdge).

Go                                                                    Lean
--------------------------------------------------------------------------------------------------------------
g.Params / g.FreeVars (map ssa.Node ↦ node)                           Tables.params / freeVars
g.Callees (call instr ↦ callee ↦ *CallNode{args []*CallNodeArg})      Tables.callees
g.CreatedClosures (instr ↦ *ClosureNode{boundVars})                   Tables.closures
g.Returns (instr ↦ []*ReturnValNode, entries may be nil)              Tables.returns
NewSummaryGraph + initializeInnerNodes (addParam, addFreeVar,         buildE
  addReturn, addCallInstr, addClosure)
addEdge: mark ↦ source nodes (the `if source.Mark.IsXxx()` cascade)    srcs, keep
addCallArgEdge / addCallEdge / addBoundVarEdge / addReturnEdge /      OpE, stepE
  addParamEdge / addFreeVarEdge
makeEdgesAtCallSite / makeEdgesAtClosure / makeEdgesAtReturn          emitOps

ssa values, instructions, functions and graph nodes are numbers.  Node ids come from an arbitrary allocator
`Alloc` (Go: `newNodeID`, a counter; nothing below depends on ids being distinct).

NOT modelled: marks of type Synthetic / Global / If / BoundLabel as edge sources and the corresponding edge
functions (addSyntheticEdge, addIfEdge, addBoundLabelEdge, addGlobalEdge — none contains a panic site and all
return early on a missing node); the `*ssa.Global`-argument special case and `updateBoundVarEdges` of
makeEdgesAtCallSite (they call addCallArgEdge with an argument of `GetArgs(call)`, resp. addBoundVarEdge, which
cannot panic); condition infos and access paths on edges; `g.errors` (addError only records).
-/
import Argot.Model.SGraph

namespace Argot.SGraphE
open Argot.SGraph

/-- the places where the modelled Go code stops with a panic. -/
inductive PanicSite where
  /-- function_summary_graph.go:(*SummaryGraph).addCallArgEdge
      `panic("attempting to set call arg edge but no call arg node")`:
      some call node of the instruction has no argument node whose value is the argument. -/
  | callArgNoNode
  /-- function_summary_graph.go:addInEdge `panic(fmt.Sprintf("invalid dest node type: %T", dest))`:
      the destination's dynamic type is none of the eleven node types of the type switch. -/
  | invalidDestType
  /-- function_summary_graph.go:(*SummaryGraph).addCallInstr `panic("critical information missing in analysis")`:
      `ResolveCallee` returned an error (classified *reached*: known finding C07a). -/
  | calleeUnresolved
  /-- IMPLICIT (no `panic(` call, not in table T8): function_summary_graph.go:(*SummaryGraph).addParamEdge —
      when `g.Params[param]` is nil the function records an error and then FALLS THROUGH to
      `g.addEdge(mark, paramNode, cond)` with a nil `*ParamNode`; as soon as the mark resolves to a source node,
      updateEdgeInfo → addInEdge executes `node.in[source] = path` on the nil pointer: runtime nil dereference. -/
  | paramNilNode
  /-- IMPLICIT: the same fall-through in function_summary_graph.go:(*SummaryGraph).addFreeVarEdge. -/
  | freeVarNilNode
  deriving DecidableEq, Repr

/-- the panic a computation ended with, if any. -/
def panicOf {α : Type} : Except PanicSite α → Option PanicSite
  | .error e => some e
  | .ok _ => none

/-- dynamic types of `GraphNode` values (function_summary_graph_nodes.go); `other` = any type outside the type
switch of `addInEdge`. -/
inductive Kind where
  | param | call | callArg | freeVar | ret | closure | synthetic | accessGlobal | boundVar | boundLabel | ifNode
  | other
  deriving DecidableEq, Repr

/-- function_summary_graph.go:addInEdge — the cases of its type switch. -/
def addInEdgeHandles : Kind → Bool
  | .other => false
  | _ => true

/-- mark types that select a source node in function_summary_graph.go:(*SummaryGraph).addEdge (single type per
mark; `other` = the types not modelled here: they select no source). -/
inductive MarkTy where
  | param | callArg | callRet | freeVar | boundVar | closure | other
  deriving DecidableEq, Repr

/-- `MarkWithAccessPath`: type, `Mark.Node`, `Mark.Qualifier`, `Mark.Index.Value`, and
`relabel` = (`mark.Mark.Label != mark.AccessPath`), the second disjunct of `isDiffNode`. -/
structure Mark where
  ty      : MarkTy
  node    : Nat
  qual    : Nat := 0
  idx     : Idx := -1
  relabel : Bool := false
  deriving DecidableEq, Repr

/-- `*CallNode`: its node, callee, and one `(ssaValue, argument node)` per position. -/
structure CallN where
  node   : Nat
  callee : Nat
  args   : List (Nat × Nat)
  deriving DecidableEq, Repr

structure Tables where
  params   : List (Nat × Nat) := []
  freeVars : List (Nat × Nat) := []
  callees  : List (Nat × List CallN) := []
  closures : List (Nat × Nat × List (Nat × Nat)) := []
  returns  : List (Nat × List (Option Nat)) := []
  deriving Repr

/-- `(*CallNode).FindArg` / `(*ClosureNode).FindBoundVar`: first node whose value is `v`. -/
def findVal (l : List (Nat × Nat)) (v : Nat) : Option Nat := (l.find? fun p => p.1 == v).map (·.2)

/-- function_summary_graph.go:(*SummaryGraph).addEdge — the source nodes a mark selects. -/
def srcs (T : Tables) (m : Mark) : List Nat :=
  match m.ty with
  | .param => (T.params.lookup m.node).toList
  | .freeVar => (T.freeVars.lookup m.node).toList
  | .callArg => match T.callees.lookup m.node with
    | some cns => cns.filterMap fun cn => findVal cn.args m.qual
    | none => []
  | .callRet => match T.callees.lookup m.node with
    | some cns => cns.map (·.node)
    | none => []
  | .boundVar => match T.closures.lookup m.node with
    | some c => (findVal c.2 m.qual).toList
    | none => []
  | .closure => match T.closures.lookup m.node with
    | some c => [c.1]
    | none => []
  | .other => []

/-- the guard before each `updateEdgeInfo`: `isDiffNode` for parameter / free-variable sources,
`sourceNode != dest` for the others. -/
def keep (m : Mark) (s d : Nat) : Bool :=
  match m.ty with
  | .param | .freeVar => s != d || m.relabel
  | _ => s != d

/-- the C17 operations one `g.addEdge(mark, dest, cond)` performs. -/
def edgeOps (T : Tables) (m : Mark) (d : Nat) : List Op :=
  ((srcs T m).filter fun s => keep m s d).map fun s => Op.addEdge s d m.idx

/-- `g.addEdge(mark, dest, _)` with a destination of dynamic type `k`: each inserted edge goes through
`addInEdge`, which panics on a type outside its switch. -/
def addEdgeE (σ : Static) (T : Tables) (st : State) (m : Mark) (d : Nat) (k : Kind) : Except PanicSite State :=
  if edgeOps T m d = [] then .ok st
  else if addInEdgeHandles k then .ok (run σ st (edgeOps T m d))
  else .error .invalidDestType

/-- `g.addEdge` for each destination of a list, in order. -/
def addEdgesE (σ : Static) (T : Tables) (m : Mark) (k : Kind) : State → List Nat → Except PanicSite State
  | st, [] => .ok st
  | st, d :: ds => match addEdgeE σ T st m d k with
    | .ok st' => addEdgesE σ T m k st' ds
    | .error e => .error e

/-- the edge-adding entry points of the summary graph called by the intra-procedural pass. -/
inductive OpE where
  | callArg (m : Mark) (call arg : Nat)
  | call (m : Mark) (call : Nat)
  | boundVar (m : Mark) (closure v : Nat)
  | ret (m : Mark) (instr idx : Nat)
  | param (m : Mark) (x : Nat)
  | freeVar (m : Mark) (y : Nat)
  deriving DecidableEq, Repr

/-- static Go type of the destination each entry point hands to `addEdge`
(`*CallNodeArg`, `*CallNode`, `*BoundVarNode`, `*ReturnValNode`, `*ParamNode`, `*FreeVarNode`). -/
def OpE.destKind : OpE → Kind
  | .callArg .. => .callArg
  | .call .. => .call
  | .boundVar .. => .boundVar
  | .ret .. => .ret
  | .param .. => .param
  | .freeVar .. => .freeVar

/-- the argument nodes of a call node that carry value `a` (addCallArgEdge: "the same value may be passed at
several positions: every such argument node gets the edge"). -/
def argNodes (cn : CallN) (a : Nat) : List Nat := (cn.args.filter fun p => p.1 == a).map (·.2)

/-- function_summary_graph.go:(*SummaryGraph).addCallArgEdge, loop over the call nodes of the instruction. -/
def callArgE (σ : Static) (T : Tables) (m : Mark) (a : Nat) : State → List CallN → Except PanicSite State
  | st, [] => .ok st
  | st, cn :: cns =>
    if argNodes cn a = [] then .error .callArgNoNode
    else match addEdgesE σ T m .callArg st (argNodes cn a) with
      | .error e => .error e
      | .ok st' => callArgE σ T m a st' cns

/-- one entry point, as the Go code executes it. -/
def stepE (σ : Static) (T : Tables) (st : State) : OpE → Except PanicSite State
  -- addCallArgEdge: `callNodes == nil → return`
  | .callArg m c a => match T.callees.lookup c with
    | none => .ok st
    | some cns => callArgE σ T m a st cns
  -- addCallEdge
  | .call m c => match T.callees.lookup c with
    | none => .ok st
    | some cns => addEdgesE σ T m .call st (cns.map (·.node))
  -- addBoundVarEdge: missing closure node / bound-variable node → addError; return
  | .boundVar m x v => match T.closures.lookup x with
    | none => .ok st
    | some c => match findVal c.2 v with
      | none => .ok st
      | some d => addEdgeE σ T st m d .boundVar
  -- addReturnEdge: index out of range → return; nil entry → addError; return
  | .ret m r i => match T.returns.lookup r with
    | none => .ok st
    | some ns => match ns[i]? with
      | some (some d) => addEdgeE σ T st m d .ret
      | _ => .ok st
  -- addParamEdge: nil node → addError, then addEdge on the nil node all the same
  | .param m x => match T.params.lookup x with
    | some d => addEdgeE σ T st m d .param
    | none => if srcs T m = [] then .ok st else .error .paramNilNode
  -- addFreeVarEdge: the same
  | .freeVar m y => match T.freeVars.lookup y with
    | some d => addEdgeE σ T st m d .freeVar
    | none => if srcs T m = [] then .ok st else .error .freeVarNilNode

/-- exactly the conditions whose failure makes `stepE` (the Go code) panic. -/
def OpE.ok (T : Tables) : OpE → Bool
  | .callArg _ c a => match T.callees.lookup c with
    | none => true
    | some cns => cns.all fun cn => cn.args.any fun p => p.1 == a
  | .param m x => (T.params.lookup x).isSome || (srcs T m).isEmpty
  | .freeVar m y => (T.freeVars.lookup y).isSome || (srcs T m).isEmpty
  | _ => true

/-- the C17 operations an entry point performs when it does not panic. -/
def lower (T : Tables) : OpE → List Op
  | .callArg m c a => match T.callees.lookup c with
    | none => []
    | some cns => cns.flatMap fun cn => (argNodes cn a).flatMap fun d => edgeOps T m d
  | .call m c => match T.callees.lookup c with
    | none => []
    | some cns => cns.flatMap fun cn => edgeOps T m cn.node
  | .boundVar m x v => match T.closures.lookup x with
    | none => []
    | some c => match findVal c.2 v with
      | none => []
      | some d => edgeOps T m d
  | .ret m r i => match T.returns.lookup r with
    | none => []
    | some ns => match ns[i]? with
      | some (some d) => edgeOps T m d
      | _ => []
  | .param m x => match T.params.lookup x with
    | some d => edgeOps T m d
    | none => []
  | .freeVar m y => match T.freeVars.lookup y with
    | some d => edgeOps T m d
    | none => []

def runE (σ : Static) (T : Tables) : State → List OpE → Except PanicSite State
  | st, [] => .ok st
  | st, op :: ops => match stepE σ T st op with
    | .ok st' => runE σ T st' ops
    | .error e => .error e

def allOkE (T : Tables) (ops : List OpE) : Bool := ops.all (OpE.ok T)

/-! ### the SSA facts `NewSummaryGraph` reads, and the construction of the tables -/

/-- a call instruction that is not a handled builtin: `lang.GetArgs(instr)` (receiver first for an invoke),
`instr.Common().Value` when `Method == nil`, and the result of `ResolveCallee` (`none` = error). -/
structure CallF where
  instr   : Nat
  args    : List Nat
  fnValue : Option Nat := none
  callees : Option (List Nat)
  deriving DecidableEq, Repr

structure Facts where
  params   : List Nat                     -- f.Params
  freeVars : List Nat                     -- f.FreeVars
  calls    : List CallF                   -- in instruction order
  closures : List (Nat × List Nat)        -- MakeClosure instructions with their Bindings
  rets     : List (Nat × List Nat)        -- Return instructions with their Results
  nres     : Nat                          -- f.Signature.Results().Len()
  deriving Repr

/-- `newNodeID`, abstracted: any assignment of node ids. -/
structure Alloc where
  param    : Nat → Nat
  freeVar  : Nat → Nat
  callNode : Nat → Nat → Nat              -- call instr, callee
  argNode  : Nat → Nat → Nat → Nat        -- call instr, callee, position
  closure  : Nat → Nat
  boundVar : Nat → Nat → Nat              -- MakeClosure instr, position
  ret      : Nat → Nat                    -- tuple index

def enumFrom {α : Type} : Nat → List α → List (Nat × α)
  | _, [] => []
  | n, x :: xs => (n, x) :: enumFrom (n + 1) xs

/-- addCallInstr, after a successful `ResolveCallee`: one call node per callee, one argument node per position. -/
def mkCallNodes (A : Alloc) (c : CallF) (callees : List Nat) : List CallN :=
  callees.map fun f => ⟨A.callNode c.instr f, f, (enumFrom 0 c.args).map fun p => (p.2, A.argNode c.instr f p.1)⟩

/-- initializeInnerNodes, the `ssa.CallInstruction` case, over all call instructions: addCallInstr panics when the
callee cannot be resolved; an instruction already in `g.Callees` is skipped. -/
def buildCalls (A : Alloc) : List CallF → Except PanicSite (List (Nat × List CallN))
  | [] => .ok []
  | c :: cs => match c.callees with
    | none => .error .calleeUnresolved
    | some fs => match buildCalls A cs with
      | .error e => .error e
      | .ok t => .ok ((c.instr, mkCallNodes A c fs) :: t)

/-- NewSummaryGraph + initializeInnerNodes. (`g.Returns[instr]` has `nres` non-nil entries for every Return
instruction when `nres > 0`, and no entry — here: an empty one — otherwise.) -/
def buildE (A : Alloc) (F : Facts) : Except PanicSite Tables :=
  match buildCalls A F.calls with
  | .error e => .error e
  | .ok cs => .ok
    { params := F.params.map fun p => (p, A.param p)
      freeVars := F.freeVars.map fun v => (v, A.freeVar v)
      callees := cs
      closures := F.closures.map fun c => (c.1, A.closure c.1, (enumFrom 0 c.2).map fun b => (b.2, A.boundVar c.1 b.1))
      returns := F.rets.map fun r => (r.1, (List.range F.nres).map fun i => some (A.ret i)) }

/-- what the monotone pass hands to the edge construction: `getMarks(instr, value)` (with the flow check folded
in), the alias maps `state.paramAliases` / `state.freeVarAliases` (value ↦ parameters / free variables), and the
(mark, marked value) pairs of nillable type in the state at a Return instruction. -/
structure Intra where
  marks          : Nat → Nat → List Mark
  paramAliases   : List (Nat × List Nat) := []
  freeVarAliases : List (Nat × List Nat) := []
  atReturn       : Nat → List (Mark × Nat) := fun _ => []

def Intra.pa (I : Intra) (v : Nat) : List Nat := (I.paramAliases.lookup v).getD []
def Intra.fa (I : Intra) (v : Nat) : List Nat := (I.freeVarAliases.lookup v).getD []

/-- edges to the parameters / free variables a value aliases. -/
def aliasOps (I : Intra) (m : Mark) (v : Nat) : List OpE :=
  (I.pa v).map (OpE.param m ·) ++ (I.fa v).map (OpE.freeVar m ·)

/-- intra_procedural.go:(*IntraAnalysisState).makeEdgesAtCallSite -/
def emitCall (I : Intra) (c : CallF) : List OpE :=
  (match c.fnValue with
   | some v => (I.marks c.instr v).map (OpE.call · c.instr)
   | none => []) ++
  c.args.flatMap fun a => (I.marks c.instr a).flatMap fun m => OpE.callArg m c.instr a :: aliasOps I m a

/-- intra_procedural.go:(*IntraAnalysisState).makeEdgesAtClosure -/
def emitClosure (I : Intra) (x : Nat × List Nat) : List OpE :=
  x.2.flatMap fun b => (I.marks x.1 b).flatMap fun m => OpE.boundVar m x.1 b :: aliasOps I m b

/-- intra_procedural.go:(*IntraAnalysisState).makeEdgesAtReturn -/
def emitReturn (I : Intra) (r : Nat × List Nat) : List OpE :=
  ((I.atReturn r.1).flatMap fun mv => aliasOps I mv.1 mv.2) ++
  (enumFrom 0 r.2).flatMap fun iv => (I.marks r.1 iv.2).map (OpE.ret · r.1 iv.1)

/-- every edge request of the modelled part of `makeEdgesAtInstruction` over the function. -/
def emitOps (F : Facts) (I : Intra) : List OpE :=
  F.calls.flatMap (emitCall I) ++ F.closures.flatMap (emitClosure I) ++ F.rets.flatMap (emitReturn I)

/-- decidable well-formedness of the facts: call instructions are distinct, every callee was resolved, and the
alias maps only mention parameters / free variables of the function. -/
def factsWF (F : Facts) (I : Intra) : Bool :=
  decide (F.calls.map (·.instr)).Nodup &&
  F.calls.all (fun c => c.callees.isSome) &&
  I.paramAliases.all (fun e => e.2.all fun p => F.params.contains p) &&
  I.freeVarAliases.all (fun e => e.2.all fun v => F.freeVars.contains v)

end Argot.SGraphE
