/-
Edge layer of the summary-graph model (analysis/dataflow/function_summary_graph.go), core Lean only.
Shared by C09/C10 (`Summ.apply`) and C17 (`SGraph` op machine).

Go                                            Lean
------------------------------------------------------------------------------------------
node.out : map[GraphNode][]EdgeInfo           Edges.out : List (src × dst × idx), one element per
                                              EdgeInfo of `src.out[dst]`, in slice order
node.in  : map[GraphNode]EdgeInfo             Edges.inn : List (dst × src × idx), a Go map: at most one
                                              element per (dst, src) — assignment overwrites (`setIn`)
EdgeInfo.Index                                idx : Int   (−1 = "not an index")
EdgeInfo.RelPath, EdgeInfo.Cond               payload, not modelled (not part of the structural invariant)
updateEdgeInfo + addInEdge                    Edges.addEdge   (no new out entry when the index is present)
addParamEdgeByPos / addReturnEdgeByPos body   Edges.appendEdge (appends unconditionally)
-/
namespace Argot.SGraph

abbrev Idx := Int

structure Edges (α : Type) where
  out : List (α × α × Idx) := []
  inn : List (α × α × Idx) := []
  deriving Repr

variable {α : Type} [DecidableEq α]

/-- `dest.in[source] = EdgeInfo{…, i, …}` on a Go map. -/
def setIn (inn : List (α × α × Idx)) (d s : α) (i : Idx) : List (α × α × Idx) :=
  (inn.filter fun e => !(e.1 = d && e.2.1 = s)) ++ [(d, s, i)]

/-- the body of `addParamEdgeByPos` / `addReturnEdgeByPos` once the nodes are found. -/
def Edges.appendEdge (g : Edges α) (s d : α) (i : Idx) : Edges α :=
  { out := g.out ++ [(s, d, i)], inn := setIn g.inn d s i }

/-- `updateEdgeInfo` followed by `addInEdge`. -/
def Edges.addEdge (g : Edges α) (s d : α) (i : Idx) : Edges α :=
  { out := if (s, d, i) ∈ g.out then g.out else g.out ++ [(s, d, i)], inn := setIn g.inn d s i }

/-- (a) of the C17 invariant on the edge layer: `d ∈ out s ↔ s ∈ in d`. -/
def Edges.consistent (g : Edges α) : Bool :=
  (g.out.all fun e => g.inn.any fun f => f.1 = e.2.1 && f.2.1 = e.1) &&
  (g.inn.all fun f => g.out.any fun e => f.1 = e.2.1 && f.2.1 = e.1)

/-- the `in` side is a map: one entry per (dst, src). -/
def inKeysUnique : List (α × α × Idx) → Bool
  | [] => true
  | e :: es => (es.all fun f => !(f.1 = e.1 && f.2.1 = e.2.1)) && inKeysUnique es

/-- "with the same tuple index": every out entry has the in entry with that index (and conversely). -/
def Edges.indexConsistent (g : Edges α) : Bool :=
  (g.out.all fun e => g.inn.any fun f => f.1 = e.2.1 && f.2.1 = e.1 && f.2.2 = e.2.2) &&
  (g.inn.all fun f => g.out.any fun e => f.1 = e.2.1 && f.2.1 = e.1 && f.2.2 = e.2.2)

end Argot.SGraph
