/-
Model of predefined-summary instantiation, core Lean only.

Go                                                         Lean
------------------------------------------------------------------------------------------------
summaries.Summary{Args, Rets}                              Summary
len(g.Parent.Params), Signature.Results().Len()            Sig.nParams (receiver = parameter 0), Sig.nResults
len(g.Returns) > 0  (a Return instruction, or no body)     hasRet
(*SummaryGraph).addParamEdgeByPos(src, dest) bool          addParamEdgeByPos
(*SummaryGraph).addReturnEdgeByPos(src, pos) bool          addReturnEdgeByPos
(*SummaryGraph).PopulateGraphFromSummary                   apply   (graph + the positions for which the
                                                                    helper returned false: the silent drops)
one row of analysis/summaries/standard_library.go          StdEntry (regenerated: Argot/Gen/StdTable.lean)
-/
import Argot.Model.SGraphEdges

namespace Argot.Summ
open Argot.SGraph

structure Summary where
  args : List (List Int)
  rets : List (List Int)
  deriving Repr, DecidableEq, Inhabited

structure Sig where
  nParams  : Nat
  nResults : Nat
  deriving Repr, DecidableEq, Inhabited

/-- nodes of a summary graph built by `NewSummaryGraph(nil, f, …)`: parameters and the shared
return-value nodes (one per tuple position). -/
inductive PNode where
  | param (i : Nat)
  | ret (j : Nat)
  deriving Repr, DecidableEq, Inhabited

/-- a position pair written in a summary: `Args[src] ∋ dst` or `Rets[src] ∋ pos`. -/
inductive Pos where
  | arg (src dst : Int)
  | ret (src pos : Int)
  deriving Repr, DecidableEq, Inhabited

def inRange (n : Nat) (x : Int) : Bool := decide (0 ≤ x) && decide (x < (n : Int))

/-- rows with their index, as `for srcArg, dests := range matrix`. -/
def rowsFrom : Nat → List (List Int) → (Int → Int → Pos) → List Pos
  | _, [], _ => []
  | i, row :: rows, mk => row.map (mk (i : Int)) ++ rowsFrom (i + 1) rows mk

/-- every position written in the summary, in the order `PopulateGraphFromSummary` visits them. -/
def Summary.listed (s : Summary) : List Pos :=
  rowsFrom 0 s.args Pos.arg ++ rowsFrom 0 s.rets Pos.ret

/-- does the helper return `true` (edge created) for this position. -/
def Pos.ok (sg : Sig) (hasRet : Bool) : Pos → Bool
  | .arg src dst => inRange sg.nParams src && inRange sg.nParams dst
  | .ret src pos => inRange sg.nParams src && inRange sg.nResults pos && hasRet

/-- the edge created for a position (meaningful when `ok`). -/
def Pos.edge : Pos → PNode × PNode × Idx
  | .arg src dst => (.param src.toNat, .param dst.toNat, 0)
  | .ret src pos => (.param src.toNat, .ret pos.toNat, pos)

def addParamEdgeByPos (sg : Sig) (g : Edges PNode) (src dst : Int) : Edges PNode × Bool :=
  if inRange sg.nParams src && inRange sg.nParams dst then
    (g.appendEdge (.param src.toNat) (.param dst.toNat) 0, true)
  else (g, false)

def addReturnEdgeByPos (sg : Sig) (hasRet : Bool) (g : Edges PNode) (src pos : Int) : Edges PNode × Bool :=
  if inRange sg.nParams src && inRange sg.nResults pos && hasRet then
    (g.appendEdge (.param src.toNat) (.ret pos.toNat) pos, true)
  else (g, false)

structure Applied where
  g       : Edges PNode := {}
  dropped : List Pos := []
  deriving Repr

def applyPos (sg : Sig) (hasRet : Bool) (a : Applied) (p : Pos) : Applied :=
  let r := match p with
    | .arg src dst => addParamEdgeByPos sg a.g src dst
    | .ret src pos => addReturnEdgeByPos sg hasRet a.g src pos
  if r.2 then { a with g := r.1 } else { a with dropped := a.dropped ++ [p] }

/-- `PopulateGraphFromSummary` on a fresh graph. -/
def apply (sg : Sig) (hasRet : Bool) (s : Summary) : Applied :=
  s.listed.foldl (applyPos sg hasRet) {}

/-- nothing is dropped: every written position is in range for the signature. -/
def conforms (sg : Sig) (hasRet : Bool) (s : Summary) : Bool := s.listed.all (Pos.ok sg hasRet)

/-- the written positions that the loader discards. -/
def misfits (sg : Sig) (hasRet : Bool) (s : Summary) : List Pos := s.listed.filter (fun p => !p.ok sg hasRet)

/-- weaker, purely informative: no more rows than parameters. -/
def shapeOk (sg : Sig) (s : Summary) : Bool := s.args.length ≤ sg.nParams && s.rets.length ≤ sg.nParams

/-- one row of the regenerated table. `sig = none`: the key names no function of the installed library. -/
structure StdEntry where
  table : String
  key   : String
  summ  : Summary
  sig   : Option Sig
  ptr   : List Bool
  note  : String
  deriving Repr, Inhabited

def StdEntry.conforms (e : StdEntry) : Bool :=
  match e.sig with
  | none => true
  | some sg => Summ.conforms sg true e.summ

end Argot.Summ
