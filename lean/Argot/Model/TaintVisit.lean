/- Executable model of the inter-procedural taint visitor
   (`analysis/taint/dataflow_visitor.go`: `Visitor.Visit` + `addNext`, escape analysis off,
   eager summaries, no validators' path conditions beyond a per-edge flag) over a *dumped* linked
   summary graph.  Core Lean only: linked into `oracle_c01`.

   The worklist itself is the generic `Argot.Closure.bfs`; this file only defines the graph, the
   work item, its `seen` key and the successor function.

   Correspondence with the Go code (one definition per piece of code):
     `Item`        df.VisitorNode  (NodeWithTrace, Status.Kind, Status.TracingInfo, AccessPaths, Prev)
     `key`         VisitorNode.Key() = node ! trace ! closure-trace _ kind . access paths
                   (Prev and TracingInfo are NOT part of the key — that is what F14 is about)
     `nextPaths`   the access-path matching of addNext
     `lasso`       NodeTree.GetLassoHandle() != nil
     `mkNext`      addNext without the `seen` test (that is `Closure.offer`) and without the lasso test
     `stepRaw`     the big type switch of Visit, producing every candidate handed to addNext
     `stepSpec`    = stepRaw: the specification-side step relation (no lasso cut-off, Spec/Flow.lean)
     `succ`        = stepSpec filtered by `lassoFree`: what the code enqueues (addNext drops a candidate
                   whose call stack or closure stack has a lasso handle; escape analysis off)
-/
import Argot.Base.Closure

namespace Argot.TaintVisit

inductive NKind where
  | param | callArg | call | ret | closure | boundVar | freeVar | global | synthetic | boundLabel
  | ifNode | other
deriving DecidableEq, Repr, Inhabited

/-- one out-edge with its `EdgeInfo` -/
structure Edge where
  dst : Nat
  index : Int := -1                       -- EdgeInfo.Index (tuple index, < 0 = unused)
  rel : List (String × String) := []      -- EdgeInfo.RelPath flattened to (in, out) pairs
  validated : Bool := false               -- some condition of EdgeInfo.Cond is a validator condition
deriving DecidableEq, Repr, Inhabited

structure Node where
  kind : NKind := .other
  graph : Nat := 0                        -- id of the summary graph the node belongs to
  index : Nat := 0                        -- Index(): argument / result / free-variable / bound-variable position
  parent : Nat := 0                       -- callArg: its call node;  boundVar: its closure node
  out : List Edge := []
  sink : Bool := false
  sanitizer : Bool := false
  filtered : Bool := false
  callee : Nat := 0                       -- call: id of the callee ssa function
  callSite : Nat := 0                     -- call: id of the call instruction
  calleeSummary : Option Nat := none      -- call: CalleeSummary
  args : List Nat := []                   -- call: Args()
  lassoClass : Nat := 0                   -- call / closure: class of String() (used by GetLassoHandle)
  closureSummary : Option Nat := none     -- closure: ClosureSummary
  boundVars : List Nat := []              -- closure: BoundVars()
  isWrite : Bool := false                 -- global access
  readLocs : List Nat := []               -- global write: Global.ReadLocations
  destClosureNode : Option Nat := none    -- bound label: DestClosure().ReferringMakeClosures[DestInfo().MakeClosure]
deriving Repr, Inhabited

structure Graph where
  fn : Nat := 0                           -- Parent (ssa function id)
  constructed : Bool := true
  callsites : List Nat := []              -- Callsites (call nodes)
  params : List (Option Nat) := []        -- Params[Parent.Params[i]]
  freeVars : List (Option Nat) := []      -- FreeVars[Parent.FreeVars[i]]
  referring : List Nat := []              -- ReferringMakeClosures (closure nodes)
deriving Repr, Inhabited

structure LGraph where
  nodes : Array Node := #[]
  graphs : Array Graph := #[]
deriving Repr, Inhabited

def LGraph.node (G : LGraph) (i : Nat) : Node := G.nodes.getD i {}
def LGraph.graph (G : LGraph) (i : Nat) : Graph := G.graphs.getD i {}

/-- df.VisitorNode -/
structure Item where
  node : Nat
  trace : List Nat := []                  -- call stack (call nodes), innermost first
  ctrace : List Nat := []                 -- closure trace (closure nodes), innermost first
  ct : Bool := false                      -- Status.Kind == ClosureTracing
  tinfo : List (Nat × Nat) := []          -- Status.TracingInfo: (closure summary graph, bound index), innermost first
  paths : List String := [""]             -- AccessPaths
  prev : Option Nat := none               -- Prev.Node (the intermediate node when one was inserted)
deriving DecidableEq, Repr, Inhabited

abbrev Key := Nat × List Nat × List Nat × Bool × List String

/-- VisitorNode.Key() -/
def key (a : Item) : Key := (a.node, a.trace, a.ctrace, a.ct, a.paths)

def trivialRel (rel : List (String × String)) : Bool :=
  rel.isEmpty || (rel.all (fun p => p.1 == "") && rel.contains ("", ""))

/-- access-path matching of `addNext` -/
def nextPaths (cur : List String) (rel : List (String × String)) : List String :=
  if trivialRel rel then cur
  else rel.flatMap fun p => cur.filterMap fun ap => if ap.isPrefixOf p.1 then some p.2 else none

/-- `GetLassoHandle() != nil`: the innermost label occurs again further out -/
def lasso (G : LGraph) : List Nat → Bool
  | [] => false
  | [_] => false
  | h :: t => t.any fun x => (G.node x).lassoClass == (G.node h).lassoClass

/-- `addNext` without the `seen` test and without the lasso test (see `succ`).
    `np = true` is only used to *detect* candidates dropped by the access-path matching
    (`pathCut`): it keeps them, with the current access paths. The code is `np = false`. -/
def mkNext (np : Bool) (cur : Item) (inter : Option Nat) (node : Nat)
    (tr ctr : List Nat) (ct : Bool) (ti : List (Nat × Nat)) (e : Edge) : List Item :=
  if e.validated then [] else
  let ps := nextPaths cur.paths e.rel
  if ps.isEmpty then
    (if np then [{ node := node, trace := tr, ctrace := ctr, ct := ct, tinfo := ti, paths := cur.paths,
                   prev := some (inter.getD cur.node) }] else [])
  else
  [{ node := node, trace := tr, ctrace := ctr, ct := ct, tinfo := ti, paths := ps,
     prev := some (inter.getD cur.node) }]

def emptyEdge : Edge := { dst := 0, index := 0 }

/-- follow the out-edges of node `n` -/
def outs (np : Bool) (cur : Item) (n : Node) (inter : Option Nat)
    (tr ctr : List Nat) (ct : Bool) (ti : List (Nat × Nat)) (keep : Edge → Bool) : List Item :=
  n.out.flatMap fun e => if keep e then mkNext np cur inter e.dst tr ctr ct ti e else []

/-- UnwindCallstackFromCallee -/
def unwindCallee (G : LGraph) (g : Graph) : List Nat → Option Nat
  | [] => none
  | h :: _ => g.callsites.find? fun x =>
      (G.node x).callSite == (G.node h).callSite && (G.node x).callee == (G.node h).callee

/-- UnwindCallStackToFunc -/
def unwindToFunc (G : LGraph) (f : Nat) : List Nat → List Nat
  | [] => []
  | h :: t => if (G.node h).callee == f then h :: t else unwindToFunc G f t

/-- the only way `Prev` influences the successors: one boolean per node kind
    (param: "entered from outside or by a self-recursive call"; call argument: "root or entered
    from another function"; free variable: "root or entered from another function") -/
def flag (G : LGraph) (a : Item) : Bool :=
  let n := G.node a.node
  match n.kind with
  | .param =>
    match a.prev with
    | none => false
    | some p =>
      let pn := G.node p
      pn.graph != n.graph ||
        (pn.kind == .callArg && (G.node pn.parent).callee == (G.graph n.graph).fn)
  | .callArg =>
    match a.prev with
    | none => true
    | some p => n.graph != (G.node p).graph
  | .freeVar =>
    match a.prev with
    | none => true
    | some p => (G.node p).graph != n.graph
  | _ => true

/-- Status.PopClosure() -/
def popClosure (ct : Bool) (ti : List (Nat × Nat)) : Bool × List (Nat × Nat) :=
  if !ct then (false, ti) else
  match ti with
  | [] => (false, [])
  | _ :: [] => (false, [])
  | _ :: rest => (true, rest)

/-- The type switch of `Visit`, as a function of the item's fields and of `fl = flag G a`. -/
def stepRaw (G : LGraph) (src : Nat) (np : Bool) (a : Item) (fl : Bool) : List Item :=
  let n := G.node a.node
  if n.filtered then [] else
  if n.sink && !a.ct then [] else
  if n.sanitizer then [] else
  if !(G.graph n.graph).constructed then [] else
  let all : Edge → Bool := fun _ => true
  let same := outs np a n none a.trace a.ctrace a.ct a.tinfo all
  match n.kind with
  | .param =>
    let g := G.graph n.graph
    (if fl then same else []) ++
    (match unwindCallee G g a.trace with
     | some cs =>
       let c := G.node cs
       if n.index < c.args.length then
         mkNext np a none (c.args.getD n.index 0) a.trace.tail a.ctrace a.ct a.tinfo emptyEdge
       else []
     | none =>
       g.callsites.flatMap fun cs =>
         let c := G.node cs
         if n.index < c.args.length then
           outs np a (G.node (c.args.getD n.index 0)) none [] a.ctrace a.ct a.tinfo all
         else [])
  | .callArg =>
    let c := G.node n.parent
    match c.calleeSummary with
    | none => []
    | some cs =>
      (match (G.graph cs).params.getD n.index none with
       | some p => mkNext np a none p (n.parent :: a.trace) a.ctrace a.ct a.tinfo emptyEdge
       | none => []) ++
      (if fl then same else [])
  | .ret =>
    let g := G.graph n.graph
    match unwindCallee G g a.trace with
    | some cs =>
      outs np a (G.node cs) (some cs) a.trace.tail a.ctrace a.ct a.tinfo
        (fun e => !(e.index ≥ 0 && e.index != (n.index : Int)))
    | none =>
      match a.ctrace with
      | cl :: crest =>
        if (G.node cl).closureSummary == some n.graph then
          outs np a (G.node cl) (some cl) a.trace crest a.ct a.tinfo all
        else
          g.callsites.flatMap fun cs => outs np a (G.node cs) (some cs) [] a.ctrace a.ct a.tinfo all
      | [] =>
        g.callsites.flatMap fun cs => outs np a (G.node cs) (some cs) [] a.ctrace a.ct a.tinfo all
  | .call =>
    (match a.ct, a.tinfo, n.calleeSummary with
     | true, (cg, idx) :: _, some cs =>
       if cs == cg then
         match (G.graph cs).freeVars.getD idx none with
         | some fv =>
           let st := popClosure a.ct a.tinfo
           mkNext np a none fv (a.node :: a.trace) a.ctrace st.1 st.2 emptyEdge
         | none => []
       else []
     | _, _, _ => []) ++
    outs np a n none a.trace.tail a.ctrace a.ct a.tinfo all ++
    (if a.node == src then
       n.args.flatMap fun arg => mkNext np a none arg a.trace.tail a.ctrace a.ct a.tinfo emptyEdge
     else [])
  | .boundVar =>
    same ++
    (let cl := G.node n.parent
     match cl.closureSummary with
     | none => []
     | some cg =>
       mkNext np a none n.parent (unwindToFunc G (G.graph cl.graph).fn a.trace)
         (n.parent :: a.ctrace) true ((cg, n.index) :: a.tinfo) emptyEdge)
  | .freeVar =>
    if fl then same else
    match a.ctrace with
    | cl :: crest =>
      let bvs := (G.node cl).boundVars
      if n.index < bvs.length then
        mkNext np a none (bvs.getD n.index 0) a.trace.tail crest a.ct a.tinfo emptyEdge
      else []
    | [] =>
      (G.graph n.graph).referring.flatMap fun mc =>
        let bvs := (G.node mc).boundVars
        if n.index < bvs.length then
          mkNext np a none (bvs.getD n.index 0) a.trace [] a.ct a.tinfo emptyEdge
        else []
  | .closure => same
  | .synthetic => same
  | .global =>
    if n.isWrite then
      n.readLocs.flatMap fun r => mkNext np a none r [] a.ctrace a.ct a.tinfo emptyEdge
    else same
  | .boundLabel =>
    (match n.destClosureNode with
     | none => []
     | some clId =>
       let cl := G.node clId
       match cl.closureSummary with
       | none => []
       | some cg =>
         mkNext np a none clId (unwindToFunc G (G.graph cl.graph).fn a.trace)
           (clId :: a.ctrace) true ((cg, n.index) :: a.tinfo) emptyEdge)
  | .ifNode => []
  | .other => []

/-- `LassoFree` for one item: neither trace has a lasso handle -/
def lassoFree (G : LGraph) (a : Item) : Bool := !(lasso G a.trace) && !(lasso G a.ctrace)

/-- `Prev` erased: `stepRaw` never reads it (it only reaches the successors through `flag`) -/
def Item.core (a : Item) : Item := { a with prev := none }

/-- specification-side step: every candidate `Visit` hands to `addNext` (no lasso cut-off) -/
def stepSpec (G : LGraph) (src : Nat) (a : Item) : List Item := stepRaw G src false a.core (flag G a)

/-- the visitor's successor function (what the code enqueues, up to the `seen` test) -/
def succ (G : LGraph) (src : Nat) (a : Item) : List Item := (stepSpec G src a).filter (lassoFree G)

/-- the root item of `Visit(source)` -/
def root (src : Nat) (trace : List Nat) : Item := { node := src, trace := trace }

/-- one run of `Visit` (FIFO order, candidates in dump order) with a bound on the iterations -/
def run (G : LGraph) (src : Nat) (trace : List Nat) (fuel : Nat) : Closure.State Item Key :=
  Closure.run key (succ G src) fuel [root src trace]

/-- is this visited item reported? (`isSink && Status.Kind == DefaultTracing`, after the filter test) -/
def reported (G : LGraph) (a : Item) : Bool :=
  let n := G.node a.node
  !n.filtered && n.sink && !a.ct

/-- sink nodes reported by a finished run -/
def flowsOf (G : LGraph) (s : Closure.State Item Key) : List Nat :=
  (s.visited.filter (reported G)).map (·.node)

/-- two items that the visitor cannot tell apart: same fields except `Prev`, and the same
    `Prev`-dependent boolean -/
def equiv (G : LGraph) (a b : Item) : Bool :=
  a.node == b.node && a.trace == b.trace && a.ctrace == b.ctrace && a.ct == b.ct &&
  a.tinfo == b.tinfo && a.paths == b.paths && flag G a == flag G b

/-- every candidate ever offered during the run (root and all successors of visited items) -/
def offered (G : LGraph) (src : Nat) (trace : List Nat) (s : Closure.State Item Key) : List Item :=
  root src trace :: s.visited.flatMap (succ G src)

/-- `EntryBeforeExit`, decidable form: the set of offered candidates is closed under the
    successor function up to `equiv`.  It fails exactly when some candidate that was dropped by the
    `seen` test would have had successors that nobody else offers (finding F14). -/
def entryBeforeExit (G : LGraph) (src : Nat) (trace : List Nat) (s : Closure.State Item Key) : Bool :=
  let off := offered G src trace s
  off.all fun c => (succ G src c).all fun c' => off.any fun o => equiv G o c'

/-- did the lasso cut-off drop a candidate of some offered item? (per-run form of `LassoFree`:
    when false, every valid path from the source is lasso-free) -/
def lassoCut (G : LGraph) (src : Nat) (trace : List Nat) (s : Closure.State Item Key) : Bool :=
  (offered G src trace s).any fun a => (stepSpec G src a).any fun c => !lassoFree G c

/-- the `seen` key a repaired visitor would use: everything the successors depend on
    (the item without `Prev`, plus the one boolean through which `Prev` matters) -/
abbrev KeyFull := Item × Bool
def keyFull (G : LGraph) (a : Item) : KeyFull := (a.core, flag G a)

/-- the same traversal with the full key ("ideal" visitor): used to attribute a missed flow to the
    seen-key defect (F14 / C01a): the ideal run finds it, the real key loses it -/
def runIdeal (G : LGraph) (src : Nat) (trace : List Nat) (fuel : Nat) : Closure.State Item KeyFull :=
  Closure.run (keyFull G) (succ G src) fuel [root src trace]

def flowsOfIdeal (G : LGraph) (s : Closure.State Item KeyFull) : List Nat :=
  (s.visited.filter (reported G)).map (·.node)

/-- did the access-path matching of `addNext` drop a candidate of some offered item?
    (only possible on field-sensitive graphs) -/
def pathCut (G : LGraph) (src : Nat) (trace : List Nat) (s : Closure.State Item Key) : Bool :=
  (offered G src trace s).any fun a =>
    (stepRaw G src true a.core (flag G a)).length != (stepSpec G src a).length

end Argot.TaintVisit
