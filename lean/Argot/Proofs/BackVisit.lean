/- Helper lemmas for C03 (backward traversal): Prev-chain invariant. Property theorems are in
   Argot/Props/C03.lean. -/
import Argot.Spec.BackVisit

namespace Argot.BackVisit

/-! ### `addNext` / `addAll` only push `mkNext cur c` for requested candidates -/

theorem addNext_stack (G : LGraph) (cur : VNode) (st : St) (c : Cand) :
    (addNext G cur st c).1.stack = st.stack ∨ (addNext G cur st c).1.stack = mkNext cur c :: st.stack := by
  unfold addNext
  split
  · left; rfl
  · split
    · left; rfl
    · split
      · left; rfl
      · right; rfl

theorem addNext_traces (G : LGraph) (cur : VNode) (st : St) (c : Cand) :
    (addNext G cur st c).1.traces = st.traces ∧ (addNext G cur st c).1.incoherent = st.incoherent
      ∧ (addNext G cur st c).1.panicked = st.panicked := by
  unfold addNext
  split
  · simp
  · split
    · simp
    · split <;> simp

theorem addAll_traces (G : LGraph) (cur : VNode) : ∀ (cs : List Cand) (st : St),
    (addAll G cur st cs).1.traces = st.traces ∧ (addAll G cur st cs).1.incoherent = st.incoherent
      ∧ (addAll G cur st cs).1.panicked = st.panicked
  | [], st => by simp [addAll]
  | c :: cs, st => by
    have h1 := addNext_traces G cur st c
    have h2 := addAll_traces G cur cs (addNext G cur st c).1
    simp only [addAll]
    exact ⟨h2.1.trans h1.1, h2.2.1.trans h1.2.1, h2.2.2.trans h1.2.2⟩

theorem addAll_stack (G : LGraph) (cur : VNode) : ∀ (cs : List Cand) (st : St) (v : VNode),
    v ∈ (addAll G cur st cs).1.stack → v ∈ st.stack ∨ ∃ c ∈ cs, v = mkNext cur c
  | [], st, v, h => by left; simpa [addAll] using h
  | c :: cs, st, v, h => by
    simp only [addAll] at h
    rcases addAll_stack G cur cs _ v h with h1 | ⟨c', hc', rfl⟩
    · rcases addNext_stack G cur st c with e | e
      · rw [e] at h1; exact Or.inl h1
      · rw [e] at h1
        rcases List.mem_cons.mp h1 with rfl | h1
        · exact Or.inr ⟨c, List.mem_cons_self, rfl⟩
        · exact Or.inl h1
    · exact Or.inr ⟨c', List.mem_cons_of_mem _ hc', rfl⟩

/-! ### every candidate of `expand` is a link of the graph -/

theorem mem_inCands {G : LGraph} {cur : VNode} {c : Cand} (h : c ∈ inCands G cur) :
    ∃ i, (c.node, i) ∈ (G.node cur.node).ins := by
  simp only [inCands, List.mem_map] at h
  obtain ⟨e, he, rfl⟩ := h
  exact ⟨e.2, by simpa [mk] using he⟩

theorem mem_callsiteCands {G : LGraph} {cur : VNode} {c : Cand} (h : c ∈ callsiteCands G cur) :
    ∃ s ∈ (G.ginfo (G.node cur.node).graph).callsites,
      (G.node s).args[(G.node cur.node).index]? = some c.node := by
  simp only [callsiteCands, List.mem_filterMap, Option.map_eq_some_iff] at h
  obtain ⟨s, hs, a, ha, rfl⟩ := h
  exact ⟨s, hs, by simpa [argAt, mk] using ha⟩

theorem mem_intraCands {G : LGraph} {cur : VNode} {c : Cand} (h : c ∈ intraCands G cur) :
    ∃ i, (c.node, i) ∈ (G.node cur.node).ins := by
  unfold intraCands at h
  split at h
  · exact mem_inCands h
  · simp at h

theorem unwind_mem {G : LGraph} {g : Nat} {tr : List Nat} {cs : Nat} (h : unwind G g tr = some cs) :
    cs ∈ (G.ginfo g).callsites := by
  unfold unwind at h
  split at h
  · simp at h
  · exact List.mem_of_find?_eq_some h

theorem expandParam_cands (G : LGraph) (cur : VNode) (c : Cand) 
    (h : c ∈ (expandParam G cur).cands) :
    c ∈ intraCands G cur ∨ c ∈ callsiteCands G cur ∨ 
      ∃ cs a, unwind G (G.node cur.node).graph cur.trace = some cs ∧ argAt G cs (G.node cur.node).index = some a ∧ c = mk cur a := by
  unfold expandParam at h
  dsimp only at h
  repeat' split at h
  all_goals dsimp only at h
  all_goals (try simp only [List.mem_append, List.mem_singleton] at h)
  all_goals grind

theorem expandArg_cands (G : LGraph) (cfg : Cfg) (cur : VNode) (c : Cand)
    (h : c ∈ (expandArg G cfg cur).cands) :
    c ∈ argToParam G cur ∨ c ∈ argOut G cur ∨ c ∈ argIn G cur := by
  unfold expandArg at h
  dsimp only at h
  repeat' split at h
  all_goals dsimp only at h
  all_goals (try simp only [List.mem_append, List.mem_singleton] at h)
  all_goals grind

theorem mem_argToParam {G : LGraph} {cur : VNode} {c : Cand} (h : c ∈ argToParam G cur) :
    (G.node (G.node cur.node).parent).calleeParam[(G.node cur.node).index]? = some (some c.node)
    ∧ c.trace = (G.node cur.node).parent :: cur.trace ∧ c.ctrace = cur.ctrace ∧ c.skind = cur.skind := by
  unfold argToParam at h
  dsimp only at h
  repeat' split at h
  all_goals (try simp only [List.mem_singleton] at h)
  all_goals (try subst h)
  all_goals simp_all [mk]

theorem mem_argOut {G : LGraph} {cur : VNode} {c : Cand} (h : c ∈ argOut G cur) :
    (G.node cur.node).bound = true ∧ ∃ i, (c.node, i) ∈ (G.node cur.node).outs := by
  unfold argOut at h
  dsimp only at h
  split at h
  · rename_i hb
    simp only [List.mem_map] at h
    obtain ⟨e, he, rfl⟩ := h
    exact ⟨hb, e.2, by simpa [mk] using he⟩
  · simp at h

theorem mem_argIn {G : LGraph} {cur : VNode} {c : Cand} (h : c ∈ argIn G cur) :
    ∃ i, (c.node, i) ∈ (G.node cur.node).ins := by
  unfold argIn at h
  split at h
  · simp only [List.mem_map] at h
    obtain ⟨e, he, rfl⟩ := h
    exact ⟨e.2, by simpa [mk] using he⟩
  · simp at h

theorem mem_retCands {G : LGraph} {pei : List (Nat × Int)} {cur : VNode} {c : Cand}
    (h : c ∈ retCands G pei cur) : c.node ∈ (G.node cur.node).rets ∧ c.trace = cur.node :: cur.trace
      ∧ c.ctrace = cur.ctrace ∧ c.skind = cur.skind := by
  unfold retCands at h
  simp only [List.mem_flatMap] at h
  obtain ⟨r, hr, h⟩ := h
  split at h
  · simp only [List.mem_singleton] at h; subst h; exact ⟨by simpa [retCand, mk] using hr, rfl, rfl, rfl⟩
  · simp only [List.mem_map] at h
    obtain ⟨i, _, rfl⟩ := h; exact ⟨by simpa [retCand, mk] using hr, rfl, rfl, rfl⟩

theorem expandBoundVar_cands (G : LGraph) (cur : VNode) (c : Cand)
    (h : c ∈ (expandBoundVar G cur).cands) :
    c ∈ inCands G cur ∨ ∃ fv, (G.node (G.node cur.node).parent).closFvs[(G.node cur.node).index]? = some (some fv)
      ∧ c = { mk cur fv with ctrace := (G.node cur.node).parent :: cur.ctrace } := by
  unfold expandBoundVar at h
  dsimp only at h
  repeat' split at h
  all_goals dsimp only at h
  all_goals (try simp only [List.mem_append, List.mem_singleton] at h)
  all_goals grind

theorem mem_fvNoCtx {G : LGraph} {cur : VNode} {c : Cand} (h : c ∈ (fvNoCtx G cur).cands) :
    ∃ cl ∈ (G.ginfo (G.node cur.node).graph).refClosures, (G.node cl).bvs[(G.node cur.node).index]? = some c.node := by
  unfold fvNoCtx at h
  dsimp only at h
  simp only [List.mem_filterMap, Option.map_eq_some_iff] at h
  obtain ⟨cl, hcl, bv, hbv, rfl⟩ := h
  exact ⟨cl, hcl, by simpa [mk] using hbv⟩

theorem fvNoCtx_inc (G : LGraph) (cur : VNode) : (fvNoCtx G cur).incoherent = false := rfl

theorem expandFreeVar_cands (G : LGraph) (cfg : Cfg) (cur : VNode) (c : Cand)
    (h : c ∈ (expandFreeVar G cfg cur).cands) :
    c ∈ inCands G cur ∨
    (∃ cl rest bv, cur.ctrace = cl :: rest ∧ (G.node cl).bvs[(G.node cur.node).index]? = some bv ∧
      c.node = bv ∧ (expandFreeVar G cfg cur).incoherent = ((G.node cl).closGraph != some (G.node cur.node).graph) ∧
      (cfg.closureCheck = true → (G.node cl).closGraph = some (G.node cur.node).graph)) ∨
    ((∃ cl ∈ (G.ginfo (G.node cur.node).graph).refClosures, (G.node cl).bvs[(G.node cur.node).index]? = some c.node) ∧
      (expandFreeVar G cfg cur).incoherent = false) := by
  unfold expandFreeVar at h ⊢
  dsimp only at h ⊢
  split
  · rename_i hp; rw [if_pos hp] at h; exact Or.inl h
  · rename_i hp
    rw [if_neg hp] at h
    split
    · rename_i cl rest hct
      rw [hct] at h
      dsimp only at h
      split
      · rename_i hcc
        rw [if_pos hcc] at h
        exact Or.inr (Or.inr ⟨mem_fvNoCtx h, fvNoCtx_inc G cur⟩)
      · rename_i hcc
        rw [if_neg hcc] at h
        split
        · rename_i bv hbv
          rw [hbv] at h
          dsimp only at h
          simp only [List.mem_singleton] at h
          right; left
          refine ⟨cl, rest, bv, hct, hbv, by rw [h], rfl, ?_⟩
          intro hck
          simp only [hck, Bool.true_and, bne_iff_ne, ne_eq, Decidable.not_not] at hcc
          exact hcc
        · rename_i hbv
          rw [hbv] at h
          simp at h
    · rename_i hct
      rw [hct] at h
      exact Or.inr (Or.inr ⟨mem_fvNoCtx h, fvNoCtx_inc G cur⟩)

theorem expandParam_inc (G : LGraph) (cur : VNode) : (expandParam G cur).incoherent = false := by
  unfold expandParam
  dsimp only
  repeat' split
  all_goals rfl

theorem expandArg_inc (G : LGraph) (cfg : Cfg) (cur : VNode) : (expandArg G cfg cur).incoherent = false := by
  unfold expandArg
  dsimp only
  repeat' split
  all_goals rfl

theorem expandBoundVar_inc (G : LGraph) (cur : VNode) : (expandBoundVar G cur).incoherent = false := by
  unfold expandBoundVar
  dsimp only
  repeat' split
  all_goals rfl

theorem expandParam_linked (G : LGraph) (cur : VNode) (c : Cand) (hk : G.kind cur.node = .param)
    (h : c ∈ (expandParam G cur).cands) : Linked G cur.node c.node := by
  rcases expandParam_cands G cur c h with h | h | ⟨cs, a, hu, ha, rfl⟩
  · obtain ⟨i, hi⟩ := mem_intraCands h; exact .inEdge hi
  · obtain ⟨s, hs, ha⟩ := mem_callsiteCands h; exact .paramToArg hk hs ha
  · exact .paramToArg hk (unwind_mem hu) (by simpa [argAt, mk] using ha)

theorem expandArg_linked (G : LGraph) (cfg : Cfg) (cur : VNode) (c : Cand) (hk : G.kind cur.node = .arg)
    (h : c ∈ (expandArg G cfg cur).cands) : Linked G cur.node c.node := by
  rcases expandArg_cands G cfg cur c h with h | h | h
  · exact .argToParam hk (mem_argToParam h).1
  · obtain ⟨hb, i, hi⟩ := mem_argOut h; exact .argOut hk hb hi
  · obtain ⟨i, hi⟩ := mem_argIn h; exact .inEdge hi

theorem expandCall_linked (G : LGraph) (pei : List (Nat × Int)) (cur : VNode) (c : Cand)
    (hk : G.kind cur.node = .call) (h : c ∈ (expandCall G pei cur).cands) : Linked G cur.node c.node := by
  unfold expandCall at h
  simp only [List.mem_append] at h
  rcases h with h | h
  · exact .callToRet hk (mem_retCands h).1
  · obtain ⟨i, hi⟩ := mem_inCands h; exact .inEdge hi

theorem expandBoundVar_linked (G : LGraph) (cur : VNode) (c : Cand) (hk : G.kind cur.node = .boundVar)
    (h : c ∈ (expandBoundVar G cur).cands) : Linked G cur.node c.node := by
  rcases expandBoundVar_cands G cur c h with h | ⟨fv, hfv, rfl⟩
  · obtain ⟨i, hi⟩ := mem_inCands h; exact .inEdge hi
  · exact .bvToFv hk (by simpa [mk] using hfv)

theorem expandFreeVar_linked (G : LGraph) (cfg : Cfg) (cur : VNode) (c : Cand) (hk : G.kind cur.node = .freeVar)
    (h : c ∈ (expandFreeVar G cfg cur).cands) :
    LinkedW G cur.node c.node ∧ ((expandFreeVar G cfg cur).incoherent = false → Linked G cur.node c.node) := by
  rcases expandFreeVar_cands G cfg cur c h with h | ⟨cl, rest, bv, _, hbv, rfl, hinc, _⟩ | ⟨⟨cl, hcl, hbv⟩, _⟩
  · obtain ⟨i, hi⟩ := mem_inCands h
    exact ⟨.link (.inEdge hi), fun _ => .inEdge hi⟩
  · refine ⟨.ctxJump (c := cl) hk hbv, ?_⟩
    intro h0
    rw [hinc] at h0
    have hcg : (G.node cl).closGraph = some (G.node cur.node).graph := by simpa using h0
    exact .fvToBv (c := cl) hk (Or.inr hcg) hbv
  · have : Linked G cur.node c.node := .fvToBv (c := cl) hk (Or.inl hcl) hbv
    exact ⟨.link this, fun _ => this⟩

/-- with the repair (`closureCheck`), the free-variable case never takes a foreign closure -/
theorem expandFreeVar_inc_fixed (G : LGraph) (cfg : Cfg) (cur : VNode) (hc : cfg.closureCheck = true) :
    (expandFreeVar G cfg cur).incoherent = false := by
  unfold expandFreeVar
  dsimp only
  split
  · rfl
  · split
    · rename_i cl rest _
      split
      · rfl
      · rename_i hcc
        have hcg : ((G.node cl).closGraph != some (G.node cur.node).graph) = false := by
          simpa [hc] using hcc
        split
        · exact hcg
        · rfl
    · rfl

/-- Every candidate is weakly linked; it is strongly linked unless the expansion flagged the
closure-trace mismatch. -/
theorem expand_linked (G : LGraph) (cfg : Cfg) (pei : List (Nat × Int)) (cur : VNode) (c : Cand)
    (h : c ∈ (expand G cfg pei cur).cands) :
    LinkedW G cur.node c.node ∧ ((expand G cfg pei cur).incoherent = false → Linked G cur.node c.node) := by
  have strong : ∀ {e : Expand} {n : Nat}, Linked G cur.node n →
      LinkedW G cur.node n ∧ (e.incoherent = false → Linked G cur.node n) :=
    fun h => ⟨.link h, fun _ => h⟩
  have inC : c ∈ inCands G cur → Linked G cur.node c.node := by
    intro h; obtain ⟨i, hi⟩ := mem_inCands h; exact .inEdge hi
  unfold expand at h ⊢
  split at h <;> rename_i hk
  · exact strong (expandParam_linked G cur c hk h)
  · exact strong (expandArg_linked G cfg cur c hk h)
  · exact strong (inC h)
  · exact strong (expandCall_linked G pei cur c hk h)
  · exact strong (inC h)
  · exact strong (inC h)
  · simp only [List.mem_map] at h
    obtain ⟨w, hw, rfl⟩ := h
    exact strong (.readToWrite hk hw)
  · exact strong (expandBoundVar_linked G cur c hk h)
  · exact expandFreeVar_linked G cfg cur c hk h
  · simp only [List.mem_map] at h
    obtain ⟨b, hb, rfl⟩ := h
    exact strong (.closureToBv hk hb)
  · split at h
    · simp at h
    · exact strong (inC h)
  · simp at h

/-! ### chains -/

theorem ChainL.cons {R : Nat → Nat → Prop} {a b : Nat} {rest : List Nat}
    (h : R b a) (hc : ChainL R (b :: rest)) : ChainL R (a :: b :: rest) := ⟨h, hc⟩

theorem TraceWF.push {R : Nat → Nat → Prop} {entry : Nat} {cur : VNode} {n : Nat}
    (h : TraceWF R entry (traceOf cur)) (hl : R cur.node n) :
    TraceWF R entry (n :: cur.node :: cur.prevs) := by
  refine ⟨?_, ⟨hl, h.chain⟩⟩
  have := h.last
  simp only [traceOf] at this
  simpa [List.getLast?_cons_cons] using this

theorem TraceWF.mono {R S : Nat → Nat → Prop} (hRS : ∀ a b, R a b → S a b) {entry : Nat} :
    ∀ {t : List Nat}, TraceWF R entry t → TraceWF S entry t := by
  intro t h
  refine ⟨h.last, ?_⟩
  have := h.chain
  clear h
  induction t with
  | nil => trivial
  | cons a t ih =>
    cases t with
    | nil => trivial
    | cons b rest => exact ⟨hRS _ _ this.1, ih this.2⟩

theorem addTrace_mem {ts : List (List Nat)} {t u : List Nat} (h : u ∈ addTrace ts t) : u ∈ ts ∨ u = t := by
  unfold addTrace at h
  split at h
  · exact Or.inl h
  · simp only [List.mem_append, List.mem_singleton] at h
    exact h

/-! ### the Prev-chain invariant -/

/-- Every pending visitor node and every reported trace is an `R`-chain back to `entry`. -/
def ChainInv (R : Nat → Nat → Prop) (entry : Nat) (st : St) : Prop :=
  (∀ v ∈ st.stack, TraceWF R entry (traceOf v)) ∧ (∀ t ∈ st.traces, TraceWF R entry t)

theorem stepNode_chain_weak (G : LGraph) (cfg : Cfg) (ρ : VNode → List Cand → List Cand)
    (hρ : ∀ v l c, c ∈ ρ v l → c ∈ l) (entry : Nat) (cur : VNode) (st : St)
    (hcur : TraceWF (LinkedW G) entry (traceOf cur)) (hinv : ChainInv (LinkedW G) entry st) :
    ChainInv (LinkedW G) entry (stepNode G cfg ρ cur st) := by
  unfold stepNode
  split
  · exact hinv
  · split
    · refine ⟨hinv.1, ?_⟩
      intro t ht
      rcases addTrace_mem ht with h | rfl
      · exact hinv.2 t h
      · exact hcur
    · simp only
      split
      · exact ⟨by simp, hinv.2⟩
      · have hst := addAll_stack G cur (ρ cur (expand G cfg st.pei cur).cands) st
        have htr := addAll_traces G cur (ρ cur (expand G cfg st.pei cur).cands) st
        have hstack : ∀ v ∈ (addAll G cur st (ρ cur (expand G cfg st.pei cur).cands)).1.stack,
            TraceWF (LinkedW G) entry (traceOf v) := by
          intro v hv
          rcases hst v hv with h | ⟨c, hc, rfl⟩
          · exact hinv.1 v h
          · have := (expand_linked G cfg st.pei cur c (hρ _ _ _ hc)).1
            exact hcur.push this
        split
        · refine ⟨hstack, ?_⟩
          intro t ht
          rcases addTrace_mem ht with h | rfl
          · simp only [htr.1] at h; exact hinv.2 t h
          · exact hcur
        · refine ⟨hstack, ?_⟩
          intro t ht
          simp only [htr.1] at ht; exact hinv.2 t ht

theorem loop_chain_weak (G : LGraph) (cfg : Cfg) (ρ : VNode → List Cand → List Cand)
    (hρ : ∀ v l c, c ∈ ρ v l → c ∈ l) (entry : Nat) : ∀ (fuel : Nat) (st : St),
    ChainInv (LinkedW G) entry st → ChainInv (LinkedW G) entry (loop G cfg ρ fuel st)
  | 0, st, h => h
  | fuel + 1, st, h => by
    unfold loop
    split
    · exact h
    · rename_i cur rest hs
      apply loop_chain_weak G cfg ρ hρ entry fuel
      apply stepNode_chain_weak G cfg ρ hρ entry cur
      · exact h.1 cur (by rw [hs]; exact List.mem_cons_self)
      · exact ⟨fun v hv => h.1 v (by rw [hs]; exact List.mem_cons_of_mem _ hv), h.2⟩

/-- Strong version: as long as the mismatch flag is down, all chains are `Linked`. -/
def ChainInvS (G : LGraph) (entry : Nat) (st : St) : Prop :=
  st.incoherent = true ∨ ChainInv (Linked G) entry st

theorem stepNode_incoherent_mono (G : LGraph) (cfg : Cfg) (ρ : VNode → List Cand → List Cand)
    (cur : VNode) (st : St) (h : st.incoherent = true) : (stepNode G cfg ρ cur st).incoherent = true := by
  unfold stepNode
  split
  · exact h
  · split
    · exact h
    · simp only
      split
      · exact h
      · have htr := addAll_traces G cur (ρ cur (expand G cfg st.pei cur).cands) st
        split <;> simp [htr.2.1, h]

theorem stepNode_chain_strong (G : LGraph) (cfg : Cfg) (ρ : VNode → List Cand → List Cand)
    (hρ : ∀ v l c, c ∈ ρ v l → c ∈ l) (entry : Nat) (cur : VNode) (st : St)
    (hinv : st.incoherent = true ∨
      (TraceWF (Linked G) entry (traceOf cur) ∧ ChainInv (Linked G) entry st)) :
    ChainInvS G entry (stepNode G cfg ρ cur st) := by
  rcases hinv with h | ⟨hcur, hinv⟩
  · exact Or.inl (stepNode_incoherent_mono G cfg ρ cur st h)
  unfold stepNode
  split
  · exact Or.inr hinv
  · split
    · right
      refine ⟨hinv.1, ?_⟩
      intro t ht
      rcases addTrace_mem ht with h | rfl
      · exact hinv.2 t h
      · exact hcur
    · simp only
      split
      · exact Or.inr ⟨by simp, hinv.2⟩
      · have hst := addAll_stack G cur (ρ cur (expand G cfg st.pei cur).cands) st
        have htr := addAll_traces G cur (ρ cur (expand G cfg st.pei cur).cands) st
        by_cases hinc : (expand G cfg st.pei cur).incoherent = true
        · left
          split <;> simp [hinc]
        · have hinc' : (expand G cfg st.pei cur).incoherent = false := by simpa using hinc
          have hstack : ∀ v ∈ (addAll G cur st (ρ cur (expand G cfg st.pei cur).cands)).1.stack,
              TraceWF (Linked G) entry (traceOf v) := by
            intro v hv
            rcases hst v hv with h | ⟨c, hc, rfl⟩
            · exact hinv.1 v h
            · have := (expand_linked G cfg st.pei cur c (hρ _ _ _ hc)).2 hinc'
              exact hcur.push this
          right
          split
          · refine ⟨hstack, ?_⟩
            intro t ht
            rcases addTrace_mem ht with h | rfl
            · simp only [htr.1] at h; exact hinv.2 t h
            · exact hcur
          · refine ⟨hstack, ?_⟩
            intro t ht
            simp only [htr.1] at ht; exact hinv.2 t ht

theorem loop_chain_strong (G : LGraph) (cfg : Cfg) (ρ : VNode → List Cand → List Cand)
    (hρ : ∀ v l c, c ∈ ρ v l → c ∈ l) (entry : Nat) : ∀ (fuel : Nat) (st : St),
    ChainInvS G entry st → ChainInvS G entry (loop G cfg ρ fuel st)
  | 0, st, h => h
  | fuel + 1, st, h => by
    unfold loop
    split
    · exact h
    · rename_i cur rest hs
      apply loop_chain_strong G cfg ρ hρ entry fuel
      apply stepNode_chain_strong G cfg ρ hρ entry cur
      rcases h with h | h
      · exact Or.inl h
      · right
        exact ⟨h.1 cur (by rw [hs]; exact List.mem_cons_self),
          fun v hv => h.1 v (by rw [hs]; exact List.mem_cons_of_mem _ hv), h.2⟩

/-! ### with the proposed repair the mismatch flag never goes up -/

theorem expand_inc_fixed (G : LGraph) (cfg : Cfg) (pei : List (Nat × Int)) (cur : VNode)
    (hc : cfg.closureCheck = true) : (expand G cfg pei cur).incoherent = false := by
  unfold expand
  split
  · exact expandParam_inc G cur
  · exact expandArg_inc G cfg cur
  · rfl
  · rfl
  · rfl
  · rfl
  · rfl
  · exact expandBoundVar_inc G cur
  · exact expandFreeVar_inc_fixed G cfg cur hc
  · rfl
  · split <;> rfl
  · rfl

theorem stepNode_coherent_fixed (G : LGraph) (cfg : Cfg) (ρ : VNode → List Cand → List Cand)
    (hc : cfg.closureCheck = true) (cur : VNode) (st : St) (h : st.incoherent = false) :
    (stepNode G cfg ρ cur st).incoherent = false := by
  unfold stepNode
  split
  · exact h
  · split
    · exact h
    · dsimp only
      split
      · exact h
      · have htr := addAll_traces G cur (ρ cur (expand G cfg st.pei cur).cands) st
        have he := expand_inc_fixed G cfg st.pei cur hc
        split <;> simp [htr.2.1, h, he]

theorem loop_coherent_fixed (G : LGraph) (cfg : Cfg) (ρ : VNode → List Cand → List Cand)
    (hc : cfg.closureCheck = true) : ∀ (fuel : Nat) (st : St), st.incoherent = false →
    (loop G cfg ρ fuel st).incoherent = false
  | 0, _, h => h
  | fuel + 1, st, h => by
    unfold loop
    split
    · exact h
    · exact loop_coherent_fixed G cfg ρ hc fuel _ (stepNode_coherent_fixed G cfg ρ hc _ _ h)

theorem root_chain (R : Nat → Nat → Prop) (entry : Nat) (pei0 : List (Nat × Int)) :
    ChainInv R entry { stack := [rootOf entry], pei := pei0 } := by
  refine ⟨?_, by simp⟩
  intro v hv
  simp only [List.mem_singleton] at hv
  subst hv
  exact ⟨by simp [traceOf, rootOf], trivial⟩

end Argot.BackVisit
