/- C03: the DFS explores every guaranteed predecessor (`gsucc`) — helper lemmas for
   `back_visits_closure` in Argot/Props/C03.lean. -/
import Argot.Proofs.BackVisit

namespace Argot.BackVisit

/-! ### monotonicity and bookkeeping of `addNext` / `addAll` -/

theorem addNext_cases (G : LGraph) (cur : VNode) (st : St) (c : Cand) :
    (addNext G cur st c = (st, false)) ∨
    (addNext G cur st c = ({ st with
        stack := mkNext cur c :: st.stack
        seen := c.key :: st.seen
        pei := match c.recIdx with
          | some i => (cur.node, i) :: st.pei
          | none => st.pei }, true) ∧ tupleReject G st.pei cur c = false ∧ st.seen.contains c.key = false) := by
  unfold addNext
  split
  · left; rfl
  · split
    · left; rfl
    · split
      · left; rfl
      · right; rename_i h1 h2 h3; exact ⟨rfl, by simpa using h1, by simpa using h2⟩

theorem addNext_mono (G : LGraph) (cur : VNode) (st : St) (c : Cand) :
    (∀ k ∈ st.seen, k ∈ (addNext G cur st c).1.seen) ∧ (∀ e ∈ st.pei, e ∈ (addNext G cur st c).1.pei) ∧
    (∀ v ∈ st.stack, v ∈ (addNext G cur st c).1.stack) := by
  rcases addNext_cases G cur st c with h | ⟨h, _, _⟩
  · rw [h]; exact ⟨fun _ h => h, fun _ h => h, fun _ h => h⟩
  · rw [h]
    refine ⟨fun k hk => List.mem_cons_of_mem _ hk, ?_, fun v hv => List.mem_cons_of_mem _ hv⟩
    intro e he
    dsimp only
    split
    · exact List.mem_cons_of_mem _ he
    · exact he

/-- a key that `addNext` puts into `seen` comes with its visitor node on the stack and the recorded
edge info in `prevEdgeInfos` -/
theorem addNext_new (G : LGraph) (cur : VNode) (st : St) (c : Cand) :
    ∀ k ∈ (addNext G cur st c).1.seen, k ∈ st.seen ∨
      (k = c.key ∧ mkNext cur c ∈ (addNext G cur st c).1.stack) := by
  intro k hk
  rcases addNext_cases G cur st c with h | ⟨h, _, _⟩
  · rw [h] at hk; exact Or.inl hk
  · rw [h] at hk ⊢
    rcases List.mem_cons.mp hk with rfl | hk
    · exact Or.inr ⟨rfl, List.mem_cons_self⟩
    · exact Or.inl hk

/-- what is pushed: either nothing, or `mkNext cur c` together with its recorded edge info -/
theorem addNext_pushed (G : LGraph) (cur : VNode) (st : St) (c : Cand) :
    ∀ v ∈ (addNext G cur st c).1.stack, v ∈ st.stack ∨
      (v = mkNext cur c ∧ ∀ i, c.recIdx = some i → (cur.node, i) ∈ (addNext G cur st c).1.pei) := by
  intro v hv
  rcases addNext_cases G cur st c with h | ⟨h, _, _⟩
  · rw [h] at hv; exact Or.inl hv
  · rw [h] at hv ⊢
    rcases List.mem_cons.mp hv with rfl | hv
    · right
      refine ⟨rfl, ?_⟩
      intro i hi
      dsimp only
      rw [hi]
      exact List.mem_cons_self
    · exact Or.inl hv

theorem addNext_adds (G : LGraph) (cur : VNode) (st : St) (c : Cand)
    (ht : tupleReject G st.pei cur c = false) (hl : okKey c.key = true) :
    c.key ∈ (addNext G cur st c).1.seen := by
  unfold addNext
  rw [ht]
  simp only [Bool.false_eq_true, if_false]
  split
  · rename_i h; exact List.contains_iff_mem.mp h
  · have : (lasso c.trace || lasso c.ctrace) = false := by
      unfold okKey Cand.key at hl
      simp only [Bool.and_eq_true, Bool.not_eq_true'] at hl
      simp [hl.1, hl.2]
    rw [this]
    simp

theorem addNext_pei_none (G : LGraph) (cur : VNode) (st : St) (c : Cand) (h : c.recIdx = none) :
    (addNext G cur st c).1.pei = st.pei := by
  rcases addNext_cases G cur st c with e | ⟨e, _, _⟩
  · rw [e]
  · rw [e]; dsimp only; rw [h]

theorem addAll_mono (G : LGraph) (cur : VNode) : ∀ (cs : List Cand) (st : St),
    (∀ k ∈ st.seen, k ∈ (addAll G cur st cs).1.seen) ∧ (∀ e ∈ st.pei, e ∈ (addAll G cur st cs).1.pei) ∧
    (∀ v ∈ st.stack, v ∈ (addAll G cur st cs).1.stack)
  | [], st => by simp [addAll]
  | c :: cs, st => by
    have h1 := addNext_mono G cur st c
    have h2 := addAll_mono G cur cs (addNext G cur st c).1
    simp only [addAll]
    exact ⟨fun k hk => h2.1 k (h1.1 k hk), fun e he => h2.2.1 e (h1.2.1 e he), fun v hv => h2.2.2 v (h1.2.2 v hv)⟩

theorem addAll_new (G : LGraph) (cur : VNode) : ∀ (cs : List Cand) (st : St),
    ∀ k ∈ (addAll G cur st cs).1.seen, k ∈ st.seen ∨ ∃ v ∈ (addAll G cur st cs).1.stack, v.key = k
  | [], st, k, hk => by left; simpa [addAll] using hk
  | c :: cs, st, k, hk => by
    simp only [addAll] at hk ⊢
    rcases addAll_new G cur cs _ k hk with h | h
    · rcases addNext_new G cur st c k h with h | ⟨rfl, hm⟩
      · exact Or.inl h
      · exact Or.inr ⟨_, (addAll_mono G cur cs _).2.2 _ hm, rfl⟩
    · exact Or.inr h

theorem addAll_pushed (G : LGraph) (cur : VNode) : ∀ (cs : List Cand) (st : St),
    ∀ v ∈ (addAll G cur st cs).1.stack, v ∈ st.stack ∨
      ∃ c ∈ cs, v = mkNext cur c ∧ ∀ i, c.recIdx = some i → (cur.node, i) ∈ (addAll G cur st cs).1.pei
  | [], st, v, hv => by left; simpa [addAll] using hv
  | c :: cs, st, v, hv => by
    simp only [addAll] at hv ⊢
    rcases addAll_pushed G cur cs _ v hv with h | ⟨c', hc', rfl, hp⟩
    · rcases addNext_pushed G cur st c v h with h | ⟨rfl, hp⟩
      · exact Or.inl h
      · exact Or.inr ⟨c, List.mem_cons_self, rfl, fun i hi => (addAll_mono G cur cs _).2.1 _ (hp i hi)⟩
    · exact Or.inr ⟨c', List.mem_cons_of_mem _ hc', rfl, hp⟩

/-- a candidate that is never tuple-rejected and is not a lasso ends up in `seen` -/
theorem addAll_adds (G : LGraph) (cur : VNode) : ∀ (cs : List Cand) (st : St) (c : Cand),
    c ∈ cs → (∀ pei, tupleReject G pei cur c = false) → okKey c.key = true →
    c.key ∈ (addAll G cur st cs).1.seen
  | [], _, _, h, _, _ => by simp at h
  | c0 :: cs, st, c, h, ht, hl => by
    simp only [addAll]
    rcases List.mem_cons.mp h with rfl | h
    · exact (addAll_mono G cur cs _).1 _ (addNext_adds G cur st c (ht _) hl)
    · exact addAll_adds G cur cs _ c h ht hl

theorem addAll_pei_none (G : LGraph) (cur : VNode) : ∀ (cs : List Cand) (st : St),
    (∀ c ∈ cs, c.recIdx = none) → (addAll G cur st cs).1.pei = st.pei
  | [], st, _ => by simp [addAll]
  | c :: cs, st, h => by
    simp only [addAll]
    rw [addAll_pei_none G cur cs _ (fun c' hc' => h c' (List.mem_cons_of_mem _ hc')),
      addNext_pei_none G cur st c (h c List.mem_cons_self)]

/-- when no candidate records an edge info, `prevEdgeInfos` stays put and a candidate that is not
tuple-rejected under it ends up in `seen` -/
theorem addAll_adds_const (G : LGraph) (cur : VNode) : ∀ (cs : List Cand) (st : St) (c : Cand),
    (∀ c ∈ cs, c.recIdx = none) → c ∈ cs → tupleReject G st.pei cur c = false → okKey c.key = true →
    c.key ∈ (addAll G cur st cs).1.seen
  | [], _, _, _, h, _, _ => by simp at h
  | c0 :: cs, st, c, hn, h, ht, hl => by
    simp only [addAll]
    rcases List.mem_cons.mp h with rfl | h
    · exact (addAll_mono G cur cs _).1 _ (addNext_adds G cur st c ht hl)
    · refine addAll_adds_const G cur cs _ c (fun c' hc' => hn c' (List.mem_cons_of_mem _ hc')) h ?_ hl
      rw [addNext_pei_none G cur st c0 (hn c0 List.mem_cons_self)]
      exact ht

theorem tupleReject_notRet (G : LGraph) (pei : List (Nat × Int)) (cur : VNode) (c : Cand)
    (h : G.kind c.node ≠ .ret) : tupleReject G pei cur c = false := by
  unfold tupleReject
  have : (G.kind c.node == NKind.ret) = false := by simpa using h
  rw [this]; rfl

theorem tupleReject_noPrev (G : LGraph) (pei : List (Nat × Int)) (cur : VNode) (c : Cand)
    (h : cur.prevs = []) : tupleReject G pei cur c = false := by
  unfold tupleReject
  rw [h]; simp

/-! ### graph hypotheses unpacked -/

structure GraphHyp (G : LGraph) : Prop where
  wk : wellKinded G = true
  intra : intraEdges G = true

theorem node_default_of_ge' (G : LGraph) (c : Nat) (h : G.nodes.size ≤ c) : G.node c = default := by
  unfold LGraph.node
  simp [Array.getD, Nat.not_lt.mpr h]

theorem default_node_lists : (default : Node).ins = [] ∧ (default : Node).outs = [] ∧ (default : Node).args = []
    ∧ (default : Node).calleeParam = [] ∧ (default : Node).rets = [] ∧ (default : Node).bvs = []
    ∧ (default : Node).closFvs = [] ∧ (default : Node).writes = [] := ⟨rfl, rfl, rfl, rfl, rfl, rfl, rfl, rfl⟩

/-- a property of all nodes in range holds for every node whose relevant list is non-empty -/
theorem wk_at (G : LGraph) (h : wellKinded G = true) (n : Nat) :
    (∀ a ∈ (G.node n).args, G.kind a = .arg) ∧
    (∀ p, some p ∈ (G.node n).calleeParam → G.kind p = .param) ∧
    (∀ r ∈ (G.node n).rets, G.kind r = .ret) ∧
    (∀ b ∈ (G.node n).bvs, G.kind b = .boundVar) ∧
    (∀ f, some f ∈ (G.node n).closFvs → G.kind f = .freeVar) ∧
    (∀ w ∈ (G.node n).writes, G.kind w = .gwrite) := by
  by_cases hn : n < G.nodes.size
  · unfold wellKinded at h
    have := (List.all_eq_true.mp h) n (List.mem_range.mpr hn)
    simp only [Bool.and_eq_true, List.all_eq_true, beq_iff_eq] at this
    obtain ⟨⟨⟨⟨⟨h1, h2⟩, h3⟩, h4⟩, h5⟩, h6⟩ := this
    refine ⟨h1, ?_, h3, h4, ?_, h6⟩
    · intro p hp; simpa using h2 (some p) hp
    · intro f hf; simpa using h5 (some f) hf
  · rw [node_default_of_ge' G n (Nat.le_of_not_lt hn)]
    obtain ⟨_, _, h3, h4, h5, h6, h7, h8⟩ := default_node_lists
    rw [h3, h4, h5, h6, h7, h8]
    simp

theorem intra_at (G : LGraph) (h : intraEdges G = true) (n : Nat) :
    (∀ e ∈ (G.node n).ins, G.graphOf e.1 = G.graphOf n) ∧ (∀ e ∈ (G.node n).outs, G.graphOf e.1 = G.graphOf n) := by
  by_cases hn : n < G.nodes.size
  · unfold intraEdges at h
    have := (List.all_eq_true.mp h) n (List.mem_range.mpr hn)
    simp only [Bool.and_eq_true, List.all_eq_true, beq_iff_eq] at this
    exact this
  · rw [node_default_of_ge' G n (Nat.le_of_not_lt hn)]
    obtain ⟨h1, h2, _⟩ := default_node_lists
    rw [h1, h2]
    simp

/-! ### the two stack invariants -/

/-- a free-variable visitor node with an empty closure trace was entered from inside its function -/
def FvOk (G : LGraph) (v : VNode) : Prop :=
  G.kind v.node = .freeVar → v.ctrace = [] → prevGraph G v = some (G.node v.node).graph

/-- a call reached from an argument node has the index of the connecting edge in `prevEdgeInfos` -/
def PeiOk (G : LGraph) (pei : List (Nat × Int)) (v : VNode) : Prop :=
  ∀ p rest, v.prevs = p :: rest → G.kind p = .arg → G.kind v.node = .call →
    ∃ i, ((v.node, i) ∈ (G.node p).ins ∨ (v.node, i) ∈ (G.node p).outs) ∧ (p, i) ∈ pei

/-- classification of the candidates of any expansion (with well-kinded tables) -/
theorem cand_class (G : LGraph) (hG : GraphHyp G) (cfg : Cfg) (pei : List (Nat × Int)) (cur : VNode) (c : Cand)
    (h : c ∈ (expand G cfg pei cur).cands) :
    (∃ i, ((c.node, i) ∈ (G.node cur.node).ins ∨ (c.node, i) ∈ (G.node cur.node).outs) ∧
        (G.kind cur.node = .arg → c.recIdx = some i ∨ G.kind c.node = .param)) ∨
    (G.kind c.node ≠ .freeVar ∧ G.kind c.node ≠ .call) ∨ (c.ctrace ≠ [] ∧ G.kind c.node ≠ .call) := by
  have inC : ∀ {c : Cand}, c ∈ inCands G cur → G.kind cur.node ≠ .arg →
      (∃ i, ((c.node, i) ∈ (G.node cur.node).ins ∨ (c.node, i) ∈ (G.node cur.node).outs) ∧
        (G.kind cur.node = .arg → c.recIdx = some i ∨ G.kind c.node = .param)) := by
    intro c h hk; obtain ⟨i, hi⟩ := mem_inCands h; exact ⟨i, Or.inl hi, fun h => absurd h hk⟩
  unfold expand at h
  split at h <;> rename_i hk
  · -- param
    rcases expandParam_cands G cur c h with h | h | ⟨cs, a, hu, ha, rfl⟩
    · obtain ⟨i, hi⟩ := mem_intraCands h
      exact Or.inl ⟨i, Or.inl hi, fun h => by rw [hk] at h; cases h⟩
    · obtain ⟨s, _, ha⟩ := mem_callsiteCands h
      have := (wk_at G hG.wk s).1 c.node (List.mem_of_getElem? ha)
      exact Or.inr (Or.inl ⟨by rw [this]; simp, by rw [this]; simp⟩)
    · have ha' : (G.node cs).args[(G.node cur.node).index]? = some a := by simpa [argAt] using ha
      have := (wk_at G hG.wk cs).1 a (List.mem_of_getElem? ha')
      exact Or.inr (Or.inl ⟨by simp [mk, this], by simp [mk, this]⟩)
  · -- arg
    rcases expandArg_cands G cfg cur c h with h | h | h
    · have hp := (mem_argToParam h).1
      have := (wk_at G hG.wk (G.node cur.node).parent).2.1 c.node (List.mem_of_getElem? hp)
      exact Or.inr (Or.inl ⟨by rw [this]; simp, by rw [this]; simp⟩)
    · unfold argOut at h
      dsimp only at h
      split at h
      · simp only [List.mem_map] at h
        obtain ⟨e, he, rfl⟩ := h
        exact Or.inl ⟨e.2, Or.inr (by simpa [mk] using he), fun _ => Or.inl rfl⟩
      · simp at h
    · unfold argIn at h
      split at h
      · simp only [List.mem_map] at h
        obtain ⟨e, he, rfl⟩ := h
        exact Or.inl ⟨e.2, Or.inl (by simpa [mk] using he), fun _ => Or.inl rfl⟩
      · simp at h
  · exact Or.inl (inC h (by rw [hk]; simp))
  · -- call
    unfold expandCall at h
    simp only [List.mem_append] at h
    rcases h with h | h
    · have := (wk_at G hG.wk cur.node).2.2.1 c.node (mem_retCands h).1
      exact Or.inr (Or.inl ⟨by rw [this]; simp, by rw [this]; simp⟩)
    · exact Or.inl (inC h (by rw [hk]; simp))
  · exact Or.inl (inC h (by rw [hk]; simp))
  · exact Or.inl (inC h (by rw [hk]; simp))
  · -- gread
    simp only [List.mem_map] at h
    obtain ⟨w, hw, rfl⟩ := h
    have := (wk_at G hG.wk cur.node).2.2.2.2.2 w hw
    exact Or.inr (Or.inl ⟨by simp [mk, this], by simp [mk, this]⟩)
  · -- boundVar
    rcases expandBoundVar_cands G cur c h with h | ⟨fv, hfv, rfl⟩
    · exact Or.inl (inC h (by rw [hk]; simp))
    · have := (wk_at G hG.wk (G.node cur.node).parent).2.2.2.2.1 fv (List.mem_of_getElem? hfv)
      exact Or.inr (Or.inr ⟨by simp, by simp [mk, this]⟩)
  · -- freeVar
    rcases expandFreeVar_cands G cfg cur c h with h | ⟨cl, rest, bv, _, hbv, rfl, _⟩ | ⟨⟨cl, _, hbv⟩, _⟩
    · exact Or.inl (inC h (by rw [hk]; simp))
    · have := (wk_at G hG.wk cl).2.2.2.1 c.node (List.mem_of_getElem? hbv)
      exact Or.inr (Or.inl ⟨by rw [this]; simp, by rw [this]; simp⟩)
    · have := (wk_at G hG.wk cl).2.2.2.1 c.node (List.mem_of_getElem? hbv)
      exact Or.inr (Or.inl ⟨by rw [this]; simp, by rw [this]; simp⟩)
  · -- closure
    simp only [List.mem_map] at h
    obtain ⟨b, hb, rfl⟩ := h
    have := (wk_at G hG.wk cur.node).2.2.2.1 b hb
    exact Or.inr (Or.inl ⟨by simp [mk, this], by simp [mk, this]⟩)
  · split at h
    · simp at h
    · exact Or.inl (inC h (by rw [hk]; simp))
  · simp at h

/-- both invariants hold for every pushed node -/
theorem pushed_ok (G : LGraph) (hG : GraphHyp G) (cfg : Cfg) (pei pei' : List (Nat × Int)) (cur : VNode) (c : Cand)
    (h : c ∈ (expand G cfg pei cur).cands) (hrec : ∀ i, c.recIdx = some i → (cur.node, i) ∈ pei') :
    FvOk G (mkNext cur c) ∧ PeiOk G pei' (mkNext cur c) := by
  rcases cand_class G hG cfg pei cur c h with ⟨i, hi, hr⟩ | ⟨h1, h2⟩ | ⟨h1, h2⟩
  · constructor
    · intro _ _
      have hg : G.graphOf c.node = G.graphOf cur.node := by
        rcases hi with hi | hi
        · exact (intra_at G hG.intra cur.node).1 _ hi
        · exact (intra_at G hG.intra cur.node).2 _ hi
      simp only [prevGraph, mkNext, List.head?_cons, Option.map_some]
      exact congrArg some hg.symm
    · intro p rest hp hka hkc
      simp only [mkNext, List.cons.injEq] at hp
      obtain ⟨rfl, _⟩ := hp
      rcases hr hka with hr | hr
      · exact ⟨i, hi, hrec i hr⟩
      · simp only [mkNext] at hkc; rw [hr] at hkc; cases hkc
  · exact ⟨fun hk => absurd hk h1, fun _ _ _ _ hk => absurd hk h2⟩
  · exact ⟨fun _ hc => absurd hc h1, fun _ _ _ _ hk => absurd hk h2⟩

/-! ### third invariant: an argument node that only parameters lead to has its `In()` followed -/

theorem argOnlyFromParam_spec {G : LGraph} {a : Nat} (h : argOnlyFromParam G a = true) (m : Nat) (i : Int) :
    (a, i) ∉ (G.node m).ins ∧ (G.kind m = .arg → (G.node m).bound = true → (a, i) ∉ (G.node m).outs) := by
  by_cases hm : m < G.nodes.size
  · unfold argOnlyFromParam at h
    have := (List.all_eq_true.mp h) m (List.mem_range.mpr hm)
    simp only [Bool.and_eq_true, List.all_eq_true, bne_iff_ne, ne_eq, Bool.or_eq_true, Bool.not_eq_true',
      Bool.and_eq_false_imp, beq_iff_eq] at this
    refine ⟨fun hc => this.1 (a, i) hc rfl, ?_⟩
    intro hk hb hc
    rcases this.2 with h2 | h2
    · have := h2 hk; rw [hb] at this; cases this
    · exact h2 (a, i) hc rfl
  · rw [node_default_of_ge' G m (Nat.le_of_not_lt hm)]
    obtain ⟨h1, h2, _⟩ := default_node_lists
    rw [h1, h2]
    simp

def ArgOk (G : LGraph) (v : VNode) : Prop :=
  G.kind v.node = .arg → argOnlyFromParam G v.node = true → argInOk G v = true

theorem cand_arg_from_param (G : LGraph) (hG : GraphHyp G) (cfg : Cfg) (pei : List (Nat × Int)) (cur : VNode)
    (c : Cand) (h : c ∈ (expand G cfg pei cur).cands) (hk : G.kind c.node = .arg)
    (ho : argOnlyFromParam G c.node = true) : G.kind cur.node = .param := by
  have noIn : ∀ i, (c.node, i) ∉ (G.node cur.node).ins := fun i => (argOnlyFromParam_spec ho cur.node i).1
  have noOut : ∀ i, G.kind cur.node = .arg → (G.node cur.node).bound = true → (c.node, i) ∉ (G.node cur.node).outs :=
    fun i => (argOnlyFromParam_spec ho cur.node i).2
  have inC : ∀ {c' : Cand}, c' ∈ inCands G cur → c'.node = c.node → False := by
    intro c' h he; obtain ⟨i, hi⟩ := mem_inCands h; rw [he] at hi; exact noIn i hi
  have kindNe : ∀ {k : NKind}, G.kind c.node = k → k ≠ .arg → False := fun h hne => hne (by rw [← h, hk])
  unfold expand at h
  split at h <;> rename_i hkc
  · exact hkc
  · rcases expandArg_cands G cfg cur c h with h | h | h
    · have hp := (mem_argToParam h).1
      exact (kindNe ((wk_at G hG.wk (G.node cur.node).parent).2.1 c.node (List.mem_of_getElem? hp)) (by simp)).elim
    · obtain ⟨hb, i, hi⟩ := mem_argOut h; exact (noOut i hkc hb hi).elim
    · obtain ⟨i, hi⟩ := mem_argIn h; exact (noIn i hi).elim
  · exact (inC h rfl).elim
  · unfold expandCall at h
    simp only [List.mem_append] at h
    rcases h with h | h
    · exact (kindNe ((wk_at G hG.wk cur.node).2.2.1 c.node (mem_retCands h).1) (by simp)).elim
    · exact (inC h rfl).elim
  · exact (inC h rfl).elim
  · exact (inC h rfl).elim
  · simp only [List.mem_map] at h
    obtain ⟨w, hw, rfl⟩ := h
    exact (kindNe (k := .gwrite) (by simpa [mk] using (wk_at G hG.wk cur.node).2.2.2.2.2 w hw) (by simp)).elim
  · rcases expandBoundVar_cands G cur c h with h | ⟨fv, hfv, rfl⟩
    · exact (inC h rfl).elim
    · have := (wk_at G hG.wk (G.node cur.node).parent).2.2.2.2.1 fv (List.mem_of_getElem? hfv)
      exact (kindNe (k := .freeVar) (by simpa [mk] using this) (by simp)).elim
  · rcases expandFreeVar_cands G cfg cur c h with h | ⟨cl, rest, bv, _, hbv, rfl, _⟩ | ⟨⟨cl, _, hbv⟩, _⟩
    · exact (inC h rfl).elim
    · exact (kindNe ((wk_at G hG.wk cl).2.2.2.1 c.node (List.mem_of_getElem? hbv)) (by simp)).elim
    · exact (kindNe ((wk_at G hG.wk cl).2.2.2.1 c.node (List.mem_of_getElem? hbv)) (by simp)).elim
  · simp only [List.mem_map] at h
    obtain ⟨b, hb, rfl⟩ := h
    exact (kindNe (k := .boundVar) (by simpa [mk] using (wk_at G hG.wk cur.node).2.2.2.1 b hb) (by simp)).elim
  · split at h
    · simp at h
    · exact (inC h rfl).elim
  · simp at h

theorem pushed_argOk (G : LGraph) (hG : GraphHyp G) (cfg : Cfg) (pei : List (Nat × Int)) (cur : VNode) (c : Cand)
    (h : c ∈ (expand G cfg pei cur).cands) : ArgOk G (mkNext cur c) := by
  intro hk ho
  have hp := cand_arg_from_param G hG cfg pei cur c h hk ho
  unfold argInOk
  simp only [mkNext]
  by_cases hg : G.graphOf cur.node = G.graphOf (G.node c.node).parent
  · simp [hp, hg]
  · simp [hg]

end Argot.BackVisit
