/- C03: every guaranteed candidate is requested by `expand` (whatever the `Prev`), and the DFS
   invariant that turns this into "a finished traversal has seen the whole guaranteed closure and
   reported every static leaf it has seen". -/
import Argot.Proofs.BackVisitClosure

namespace Argot.BackVisit

/-! ### `gcands` of the key is requested by `expand` for every `Prev` -/

theorem keyV_key (cur : VNode) : (keyV cur.key).node = cur.node ∧ (keyV cur.key).trace = cur.trace ∧
    (keyV cur.key).ctrace = cur.ctrace ∧ (keyV cur.key).skind = cur.skind := ⟨rfl, rfl, rfl, rfl⟩

theorem mk_keyV (cur : VNode) (n : Nat) : mk (keyV cur.key) n = mk cur n := rfl
theorem inCands_keyV (G : LGraph) (cur : VNode) : inCands G (keyV cur.key) = inCands G cur := rfl
theorem callsiteCands_keyV (G : LGraph) (cur : VNode) : callsiteCands G (keyV cur.key) = callsiteCands G cur := rfl
theorem argToParam_keyV (G : LGraph) (cur : VNode) : argToParam G (keyV cur.key) = argToParam G cur := rfl
theorem argOut_keyV (G : LGraph) (cur : VNode) : argOut G (keyV cur.key) = argOut G cur := rfl
theorem retCand_keyV (cur : VNode) (r : Nat) : retCand (keyV cur.key) r = retCand cur r := rfl
theorem expandBoundVar_keyV (G : LGraph) (cur : VNode) : expandBoundVar G (keyV cur.key) = expandBoundVar G cur := rfl

/-- what the closure theorem needs of a requested candidate -/
def Requested (G : LGraph) (cfg : Cfg) (pei : List (Nat × Int)) (cur : VNode) (k : Key) : Prop :=
  ∃ c' ∈ (expand G cfg pei cur).cands, c'.key = k ∧
    ((∀ pei', tupleReject G pei' cur c' = false) ∨
     (tupleReject G pei cur c' = false ∧ ∀ c'' ∈ (expand G cfg pei cur).cands, c''.recIdx = none))

theorem requested_of_mem {G : LGraph} {cfg : Cfg} {pei : List (Nat × Int)} {cur : VNode} {c : Cand}
    (h : c ∈ (expand G cfg pei cur).cands) (hk : G.kind c.node ≠ .ret) : Requested G cfg pei cur c.key :=
  ⟨c, h, rfl, Or.inl fun pei' => tupleReject_notRet G pei' cur c hk⟩

theorem peiOf_mem {pei : List (Nat × Int)} {p : Nat} {i : Int} : i ∈ peiOf pei p ↔ (p, i) ∈ pei := by
  unfold peiOf
  simp only [List.mem_map, List.mem_filter, beq_iff_eq]
  constructor
  · rintro ⟨⟨a, b⟩, ⟨h, rfl⟩, rfl⟩; exact h
  · intro h; exact ⟨(p, i), ⟨h, rfl⟩, rfl⟩

theorem retOk_spec {G : LGraph} {c : Nat} {j : Int} (h : retOk G c j = true) (a : Nat) (i : Int)
    (hm : (c, i) ∈ (G.node a).ins ∨ (c, i) ∈ (G.node a).outs) : i = j := by
  by_cases ha : a < G.nodes.size
  · unfold retOk at h
    have := (List.all_eq_true.mp h) a (List.mem_range.mpr ha)
    simp only [Bool.and_eq_true, List.all_eq_true, Bool.or_eq_true, bne_iff_ne, ne_eq, beq_iff_eq] at this
    rcases hm with hm | hm
    · rcases this.1 (c, i) hm with h | h
      · exact absurd rfl h
      · exact h
    · rcases this.2 (c, i) hm with h | h
      · exact absurd rfl h
      · exact h
  · rw [node_default_of_ge' G a (Nat.le_of_not_lt ha)] at hm
    obtain ⟨h1, h2, _⟩ := default_node_lists
    rw [h1, h2] at hm
    simp at hm

/-- the call case: a return whose index every edge out of the call carries is requested and not
tuple-rejected, whichever argument the call was reached from -/
theorem call_ret_requested (G : LGraph) (cfg : Cfg) (pei : List (Nat × Int)) (cur : VNode)
    (hk : G.kind cur.node = .call) (hpei : PeiOk G pei cur) (r : Nat) (hr : r ∈ (G.node cur.node).rets)
    (hok : retOk G cur.node (G.node r).index = true) :
    Requested G cfg pei cur (retCand cur r).key := by
  have hexp : (expand G cfg pei cur) = expandCall G pei cur := by unfold expand; rw [hk]
  have hnone : ∀ c'' ∈ (expand G cfg pei cur).cands, c''.recIdx = none := by
    rw [hexp]
    intro c'' hc''
    unfold expandCall at hc''
    simp only [List.mem_append] at hc''
    rcases hc'' with h | h
    · unfold retCands at h
      simp only [List.mem_flatMap] at h
      obtain ⟨r', _, h⟩ := h
      split at h
      · simp only [List.mem_singleton] at h; subst h; rfl
      · simp only [List.mem_map] at h
        obtain ⟨i, _, rfl⟩ := h; rfl
    · simp only [inCands, List.mem_map] at h
      obtain ⟨e, _, rfl⟩ := h; rfl
  -- which candidate
  by_cases hpe : (prevEdges G pei cur).isEmpty = true
  · -- one candidate with eidx 0; the filter is off because prevEdgeInfos has nothing for Prev
    refine ⟨retCand cur r, ?_, rfl, Or.inr ⟨?_, hnone⟩⟩
    · rw [hexp]; unfold expandCall retCands
      simp only [List.mem_append, List.mem_flatMap]
      left; exact ⟨r, hr, by rw [if_pos hpe]; exact List.mem_singleton.mpr rfl⟩
    · unfold tupleReject
      cases hp : cur.prevs with
      | nil => simp
      | cons p rest =>
        simp only
        by_cases hpa : G.kind p = .arg
        · have : peiHas pei p = false := by
            unfold prevEdges at hpe
            rw [hp] at hpe
            simp only [hpa, beq_self_eq_true, if_true] at hpe
            unfold peiHas
            unfold peiOf at hpe
            simp only [List.isEmpty_iff, List.map_eq_nil_iff, List.filter_eq_nil_iff, beq_iff_eq] at hpe
            simp only [List.any_eq_false, beq_iff_eq]
            intro x hx; exact hpe x hx
          simp [this]
        · have : (G.kind p == NKind.arg) = false := by simpa using hpa
          simp [this]
  · -- Prev is an argument with recorded infos; the connecting edge's index is this return's index
    have hpe' : (prevEdges G pei cur).isEmpty = false := by simpa using hpe
    cases hp : cur.prevs with
    | nil => unfold prevEdges at hpe'; rw [hp] at hpe'; simp at hpe'
    | cons p rest =>
      have hpa : G.kind p = .arg := by
        unfold prevEdges at hpe'; rw [hp] at hpe'
        by_cases hpa : G.kind p = .arg
        · exact hpa
        · have : (G.kind p == NKind.arg) = false := by simpa using hpa
          simp [this] at hpe'
      obtain ⟨i, hi, hmem⟩ := hpei p rest hp hpa hk
      have hij : i = (G.node r).index := retOk_spec hok p i hi
      have hpeq : prevEdges G pei cur = peiOf pei p := by
        unfold prevEdges; rw [hp]; simp [hpa]
      refine ⟨{ retCand cur r with eidx := i }, ?_, rfl, Or.inr ⟨?_, hnone⟩⟩
      · rw [hexp]; unfold expandCall retCands
        simp only [List.mem_append, List.mem_flatMap]
        left
        refine ⟨r, hr, ?_⟩
        rw [if_neg hpe]
        simp only [List.mem_map]
        exact ⟨i, by rw [hpeq]; exact peiOf_mem.mpr hmem, rfl⟩
      · unfold tupleReject
        rw [hp]
        simp only [retCand, mk]
        simp [hij]

theorem expand_covers (G : LGraph) (hG : GraphHyp G) (cfg : Cfg) (pei : List (Nat × Int)) (cur : VNode)
    (hfv : FvOk G cur) (hpei : PeiOk G pei cur) (harg : ArgOk G cur)
    (c : Cand) (hc : c ∈ gcands G cfg (keyV cur.key)) (hnr : notRetUnlessCall G (keyV cur.key) c = true) :
    Requested G cfg pei cur c.key := by
  unfold gcands at hc
  dsimp only at hc
  split at hc
  · simp at hc
  split at hc
  · simp at hc
  have hnode : (keyV cur.key).node = cur.node := rfl
  have hnr' : G.kind cur.node = .call ∨ G.kind c.node ≠ .ret := by
    unfold notRetUnlessCall at hnr
    simpa [hnode] using hnr
  have viaMem : ∀ {c' : Cand}, c' ∈ (expand G cfg pei cur).cands → c'.key = c.key → G.kind cur.node ≠ .call →
      Requested G cfg pei cur c.key := by
    intro c' hm hkey hncall
    have hnode' : c'.node = c.node := congrArg Prod.fst hkey
    have : G.kind c'.node ≠ .ret := by
      rw [hnode']; rcases hnr' with h | h
      · exact absurd h hncall
      · exact h
    exact hkey ▸ requested_of_mem hm this
  rw [hnode] at hc
  split at hc <;> rename_i hk
  · -- param
    have hk' : G.kind cur.node = .param := hk
    have hexp : expand G cfg pei cur = expandParam G cur := by unfold expand; rw [hk']
    have hncall : G.kind cur.node ≠ .call := by rw [hk']; simp
    have htr : (keyV cur.key).trace = cur.trace := rfl
    rw [htr] at hc
    split at hc
    · rename_i cs hu
      split at hc
      · rename_i a ha
        simp only [List.mem_singleton] at hc
        subst hc
        refine viaMem (c' := mk cur a) ?_ rfl hncall
        rw [hexp]; unfold expandParam
        dsimp only
        rw [hu]
        dsimp only
        split
        · rw [ha]; simp
        · dsimp only
          simp only [List.mem_append]
          right
          unfold callsiteCands
          simp only [List.mem_filterMap, Option.map_eq_some_iff]
          exact ⟨cs, unwind_mem hu, a, ha, rfl⟩
      · simp at hc
    · rename_i hu
      rw [callsiteCands_keyV] at hc
      refine viaMem (c' := c) ?_ rfl hncall
      rw [hexp]; unfold expandParam
      dsimp only
      rw [hu]
      dsimp only
      exact List.mem_append_right _ hc
  · -- arg
    have hk' : G.kind cur.node = .arg := hk
    have hexp : expand G cfg pei cur = expandArg G cfg cur := by unfold expand; rw [hk']
    have hncall : G.kind cur.node ≠ .call := by rw [hk']; simp
    rw [argToParam_keyV, argOut_keyV] at hc
    split at hc
    · simp at hc
    · rename_i hd
      refine viaMem (c' := c) ?_ rfl hncall
      rw [hexp]
      unfold expandArg
      dsimp only
      rw [if_neg hd]
      dsimp only
      simp only [List.mem_append] at hc ⊢
      rcases hc with (h | h) | h
      · exact Or.inl (Or.inl h)
      · exact Or.inl (Or.inr h)
      · right
        split at h
        · rename_i ho
          unfold argIn
          rw [if_pos (harg hk' ho)]
          exact h
        · simp at h
  · -- ret
    have hk' : G.kind cur.node = .ret := hk
    refine viaMem (c' := c) ?_ rfl (by rw [hk']; simp)
    unfold expand; rw [hk']; exact hc
  · -- synth
    have hk' : G.kind cur.node = .synth := hk
    refine viaMem (c' := c) ?_ rfl (by rw [hk']; simp)
    unfold expand; rw [hk']; exact hc
  · -- gwrite
    have hk' : G.kind cur.node = .gwrite := hk
    refine viaMem (c' := c) ?_ rfl (by rw [hk']; simp)
    unfold expand; rw [hk']; exact hc
  · -- call
    have hk' : G.kind cur.node = .call := hk
    simp only [List.mem_append, List.mem_map, List.mem_filter] at hc
    rcases hc with ⟨r, ⟨hr, hok⟩, rfl⟩ | hc
    · rw [retCand_keyV]
      exact call_ret_requested G cfg pei cur hk' hpei r hr hok
    · rw [inCands_keyV] at hc
      obtain ⟨hc, hret⟩ := hc
      have hexp : expand G cfg pei cur = expandCall G pei cur := by unfold expand; rw [hk']
      refine ⟨c, ?_, rfl, Or.inl ?_⟩
      · rw [hexp]; unfold expandCall; exact List.mem_append_right _ hc
      · intro pei'
        exact tupleReject_notRet G pei' cur c (by simpa using hret)
  · -- gread
    have hk' : G.kind cur.node = .gread := hk
    refine viaMem (c' := c) ?_ rfl (by rw [hk']; simp)
    unfold expand; rw [hk']; exact hc
  · -- boundVar
    have hk' : G.kind cur.node = .boundVar := hk
    rw [expandBoundVar_keyV] at hc
    refine viaMem (c' := c) ?_ rfl (by rw [hk']; simp)
    unfold expand; rw [hk']; exact hc
  · -- freeVar
    have hk' : G.kind cur.node = .freeVar := hk
    have hct : (keyV cur.key).ctrace = cur.ctrace := rfl
    rw [hct] at hc
    split at hc
    · rename_i hnil
      refine viaMem (c' := c) ?_ rfl (by rw [hk']; simp)
      unfold expand; rw [hk']
      unfold expandFreeVar
      dsimp only
      have hpg := hfv hk' hnil
      rw [if_neg (by simp [hpg])]
      rw [hnil]
      unfold fvNoCtx
      exact hc
    · simp at hc
  · -- closure
    have hk' : G.kind cur.node = .closure := hk
    refine viaMem (c' := c) ?_ rfl (by rw [hk']; simp)
    unfold expand; rw [hk']; exact hc
  · -- boundLabel
    have hk' : G.kind cur.node = .boundLabel := hk
    split at hc
    · simp at hc
    · rename_i hs
      rw [inCands_keyV] at hc
      refine viaMem (c' := c) ?_ rfl (by rw [hk']; simp)
      unfold expand; rw [hk']; rw [if_neg hs]; exact hc
  · simp at hc

/-! ### the DFS invariant -/

/-- all guaranteed successors of `k` have been seen, and if `k` is a static leaf it is the head of a
reported trace -/
def Done (G : LGraph) (cfg : Cfg) (st : St) (k : Key) : Prop :=
  (∀ k' ∈ gsucc G cfg k, k' ∈ st.seen) ∧
  (staticLeaf G cfg k.1 = true → ∃ t ∈ st.traces, t.head? = some k.1)

structure DfsInv (G : LGraph) (cfg : Cfg) (entry : Nat) (st : St) : Prop where
  stackOk : ∀ v ∈ st.stack, FvOk G v ∧ PeiOk G st.pei v ∧ ArgOk G v
  seenOk : ∀ k ∈ st.seen, (∃ v ∈ st.stack, v.key = k) ∨ Done G cfg st k
  rootOk : (st.stack = [rootOf entry] ∧ st.seen = []) ∨
    ((∀ k ∈ rsucc G cfg entry, k ∈ st.seen) ∧
      (staticLeaf G cfg entry = true → ∃ t ∈ st.traces, t.head? = some entry))

theorem PeiOk.mono {G : LGraph} {pei pei' : List (Nat × Int)} {v : VNode} (h : PeiOk G pei v)
    (hsub : ∀ e ∈ pei, e ∈ pei') : PeiOk G pei' v := by
  intro p rest hp hka hkc
  obtain ⟨i, hi, hm⟩ := h p rest hp hka hkc
  exact ⟨i, hi, hsub _ hm⟩

theorem Done.mono {G : LGraph} {cfg : Cfg} {st st' : St} {k : Key} (h : Done G cfg st k)
    (hs : ∀ k ∈ st.seen, k ∈ st'.seen) (ht : ∀ t ∈ st.traces, t ∈ st'.traces) : Done G cfg st' k :=
  ⟨fun k' hk' => hs _ (h.1 k' hk'), fun hl => let ⟨t, htm, hh⟩ := h.2 hl; ⟨t, ht t htm, hh⟩⟩

theorem addTrace_sub (ts : List (List Nat)) (t : List Nat) : ∀ u ∈ ts, u ∈ addTrace ts t := by
  intro u hu
  unfold addTrace
  split
  · exact hu
  · exact List.mem_append_left _ hu

theorem addTrace_self (ts : List (List Nat)) (t : List Nat) : t ∈ addTrace ts t := by
  unfold addTrace
  split
  · rename_i h; exact List.contains_iff_mem.mp h
  · simp

theorem gsucc_nil_of_skip (G : LGraph) (cfg : Cfg) (k : Key)
    (h : (!(G.ginfo (G.graphOf k.1)).constructed && !cfg.onDemand) = true ∨ isBase G cfg k.1 = true) :
    gsucc G cfg k = [] := by
  unfold gsucc gcands
  dsimp only
  have hn : (keyV k).node = k.1 := rfl
  rw [hn]
  rcases h with h | h
  · have : (!(G.ginfo (G.node k.1).graph).constructed && !cfg.onDemand) = true := h
    rw [if_pos this]; rfl
  · split
    · rfl
    · first | rfl | (rw [if_pos h]; rfl)

theorem staticLeaf_arg_stuck (G : LGraph) (cfg : Cfg) (pei : List (Nat × Int)) (cur : VNode)
    (hl : staticLeaf G cfg cur.node = true) (hb : isBase G cfg cur.node = false) :
    (expand G cfg pei cur).cands = [] ∧ (expand G cfg pei cur).baseIfStuck = true ∧
      (expand G cfg pei cur).panics = false := by
  unfold staticLeaf at hl
  rw [hb] at hl
  simp only [Bool.false_or, Bool.and_eq_true, beq_iff_eq, List.isEmpty_iff, Bool.not_eq_true'] at hl
  obtain ⟨_, ⟨⟨hk, hins⟩, hnil⟩, hbd⟩ := hl
  have hexp : expand G cfg pei cur = expandArg G cfg cur := by unfold expand; rw [hk]
  rw [hexp]
  have hdrop : argDropped G cfg cur.node = false := by
    unfold argDropped; dsimp only; rw [hnil]; rfl
  unfold expandArg
  dsimp only
  rw [hdrop]
  simp only [Bool.false_eq_true, if_false]
  refine ⟨?_, ?_, ?_⟩
  · unfold argToParam argOut argIn
    dsimp only
    rw [hnil, hbd, hins]
    simp
  · first | rfl | trivial
  · first | (rw [hnil]; rfl) | simp [hnil]

theorem stepNode_panicked_mono (G : LGraph) (cfg : Cfg) (ρ : VNode → List Cand → List Cand)
    (cur : VNode) (st : St) (h : st.panicked = true) : (stepNode G cfg ρ cur st).panicked = true := by
  unfold stepNode
  split
  · exact h
  · split
    · exact h
    · dsimp only
      split
      · rfl
      · have htr := addAll_traces G cur (ρ cur (expand G cfg st.pei cur).cands) st
        split <;> simp [htr.2.2, h]

theorem loop_panicked (G : LGraph) (cfg : Cfg) (ρ : VNode → List Cand → List Cand) :
    ∀ (fuel : Nat) (st : St), st.panicked = true → (loop G cfg ρ fuel st).panicked = true
  | 0, _, h => h
  | fuel + 1, st, h => by
    unfold loop
    split
    · exact h
    · exact loop_panicked G cfg ρ fuel _ (stepNode_panicked_mono G cfg ρ _ _ h)

/-- one iteration preserves the invariant (or the model panics) -/
theorem stepNode_dfs (G : LGraph) (hG : GraphHyp G) (cfg : Cfg) (ρ : VNode → List Cand → List Cand)
    (hρ : ∀ v l c, c ∈ ρ v l → c ∈ l) (hρ' : ∀ v l c, c ∈ l → c ∈ ρ v l)
    (entry : Nat) (cur : VNode) (rest : List VNode) (st : St)
    (hstack : st.stack = cur :: rest) (hinv : DfsInv G cfg entry st) :
    (stepNode G cfg ρ cur { st with stack := rest }).panicked = true ∨
    DfsInv G cfg entry (stepNode G cfg ρ cur { st with stack := rest }) := by
  have hcurOk := hinv.stackOk cur (by rw [hstack]; exact List.mem_cons_self)
  have hrestOk : ∀ v ∈ rest, FvOk G v ∧ PeiOk G st.pei v ∧ ArgOk G v :=
    fun v hv => hinv.stackOk v (by rw [hstack]; exact List.mem_cons_of_mem _ hv)
  -- is `cur` the root being expanded for the first time?
  have hroot : (cur = rootOf entry ∧ rest = [] ∧ st.seen = []) ∨
      ((∀ k ∈ rsucc G cfg entry, k ∈ st.seen) ∧
        (staticLeaf G cfg entry = true → ∃ t ∈ st.traces, t.head? = some entry)) := by
    rcases hinv.rootOk with ⟨h1, h2⟩ | h
    · rw [hstack] at h1
      simp only [List.cons.injEq] at h1
      exact Or.inl ⟨h1.1, h1.2, h2⟩
    · exact Or.inr h
  -- generic re-establishment of `seenOk` for the skipped / base cases
  have seenSkip : ∀ (st' : St), st'.stack = rest → st'.seen = st.seen → (∀ t ∈ st.traces, t ∈ st'.traces) →
      Done G cfg st' cur.key → ∀ k ∈ st'.seen, (∃ v ∈ st'.stack, v.key = k) ∨ Done G cfg st' k := by
    intro st' hs hse htr hdone k hk
    rw [hse] at hk
    rcases hinv.seenOk k hk with ⟨v, hv, rfl⟩ | hd
    · rw [hstack] at hv
      rcases List.mem_cons.mp hv with rfl | hv
      · exact Or.inr hdone
      · exact Or.inl ⟨v, by rw [hs]; exact hv, rfl⟩
    · exact Or.inr (hd.mono (by rw [hse]; exact fun _ h => h) htr)
  unfold stepNode
  split
  · -- summary not constructed (eager): `continue`
    rename_i hnc
    right
    have hnc0 : (!(G.ginfo (G.graphOf cur.node)).constructed && !cfg.onDemand) = true := by simpa using hnc
    have hg : gsucc G cfg cur.key = [] := gsucc_nil_of_skip G cfg cur.key (Or.inl hnc0)
    have hnl : staticLeaf G cfg cur.node = false := by
      unfold staticLeaf
      have : ((G.ginfo (G.graphOf cur.node)).constructed || cfg.onDemand) = false := by
        simp only [Bool.and_eq_true, Bool.not_eq_true'] at hnc
        simp [hnc.1, hnc.2]
      rw [this, Bool.false_and]
    have hdone : Done G cfg { st with stack := rest } cur.key :=
      ⟨by rw [hg]; simp, fun h => by rw [show cur.key.1 = cur.node from rfl, hnl] at h; cases h⟩
    refine ⟨hrestOk, seenSkip _ rfl rfl (fun _ h => h) hdone, ?_⟩
    rcases hroot with ⟨rfl, _, _⟩ | h
    · right
      have hnc' : (!(G.ginfo (G.graphOf entry)).constructed && !cfg.onDemand) = true := by simpa [rootOf] using hnc
      refine ⟨?_, ?_⟩
      · unfold rsucc; rw [if_pos hnc']; simp
      · intro h; rw [show (rootOf entry).node = entry from rfl] at hnl; rw [hnl] at h; cases h
    · exact Or.inr h
  · split
    · -- base case: report
      rename_i hnc hb
      right
      have hg : gsucc G cfg cur.key = [] := gsucc_nil_of_skip G cfg cur.key (Or.inr hb)
      have hdone : Done G cfg { st with stack := rest, traces := addTrace st.traces (traceOf cur) } cur.key :=
        ⟨by rw [hg]; simp, fun _ => ⟨traceOf cur, addTrace_self _ _, rfl⟩⟩
      refine ⟨hrestOk, seenSkip _ rfl rfl (addTrace_sub _ _) hdone, ?_⟩
      rcases hroot with ⟨rfl, _, _⟩ | h
      · right
        refine ⟨?_, fun _ => ⟨traceOf (rootOf entry), addTrace_self _ _, rfl⟩⟩
        have hb' : isBase G cfg entry = true := hb
        intro k hk
        unfold rsucc at hk
        split at hk
        all_goals (first | (simp at hk; done) | (rw [if_pos hb'] at hk; simp at hk))
      · exact Or.inr ⟨h.1, fun hl => let ⟨t, ht, hh⟩ := h.2 hl; ⟨t, addTrace_sub _ _ t ht, hh⟩⟩
    · rename_i hnc hb
      dsimp only
      split
      · left; rfl
      · rename_i hnp
        right
        -- abbreviations
        generalize hE : expand G cfg st.pei cur = E at hnp ⊢
        generalize hR : addAll G cur { st with stack := rest } (ρ cur E.cands) = R
        have hmono := addAll_mono G cur (ρ cur E.cands) { st with stack := rest }
        have hnew := addAll_new G cur (ρ cur E.cands) { st with stack := rest }
        have hpushed := addAll_pushed G cur (ρ cur E.cands) { st with stack := rest }
        have htr := addAll_traces G cur (ρ cur E.cands) { st with stack := rest }
        rw [hR] at hmono hnew hpushed htr
        -- every guaranteed successor of cur's key is seen afterwards
        have hcover : ∀ k' ∈ gsucc G cfg cur.key, k' ∈ R.1.seen := by
          intro k' hk'
          unfold gsucc at hk'
          simp only [List.mem_filter, List.mem_map] at hk'
          obtain ⟨⟨c, ⟨hc, hnr⟩, rfl⟩, hok⟩ := hk'
          obtain ⟨c', hc', hkey, hrej⟩ := expand_covers G hG cfg st.pei cur hcurOk.1 hcurOk.2.1 hcurOk.2.2 c hc hnr
          rw [hE] at hc' hrej
          rw [← hkey]
          rw [← hR]
          rcases hrej with hrej | ⟨hrej, hnone⟩
          · exact addAll_adds G cur _ _ c' (hρ' _ _ _ hc') hrej (by rw [hkey]; exact hok)
          · exact addAll_adds_const G cur _ _ c' (fun c'' hc'' => hnone c'' (hρ _ _ _ hc''))
              (hρ' _ _ _ hc') hrej (by rw [hkey]; exact hok)
        -- the final state (flags/traces differ only)
        have key : ∀ (st' : St), st'.stack = R.1.stack → st'.seen = R.1.seen → st'.pei = R.1.pei →
            (∀ t ∈ st.traces, t ∈ st'.traces) →
            (staticLeaf G cfg cur.node = true → ∃ t ∈ st'.traces, t.head? = some cur.node) →
            DfsInv G cfg entry st' := by
          intro st' hs hse hpe htrs hleaf
          have hdone : Done G cfg st' cur.key := ⟨by rw [hse]; exact hcover, hleaf⟩
          refine ⟨?_, ?_, ?_⟩
          · intro v hv
            rw [hs] at hv
            rcases hpushed v hv with h | ⟨c, hc, rfl, hrec⟩
            · have := hrestOk v h
              exact ⟨this.1, this.2.1.mono (by rw [hpe]; exact hmono.2.1), this.2.2⟩
            · have hc' : c ∈ (expand G cfg st.pei cur).cands := by rw [hE]; exact hρ _ _ _ hc
              rw [hpe]
              have hpo := pushed_ok G hG cfg st.pei R.1.pei cur c hc' hrec
              exact ⟨hpo.1, hpo.2, pushed_argOk G hG cfg st.pei cur c hc'⟩
          · intro k hk
            rw [hse] at hk
            rcases hnew k hk with h | ⟨v, hv, rfl⟩
            · rcases hinv.seenOk k h with ⟨v, hv, rfl⟩ | hd
              · rw [hstack] at hv
                rcases List.mem_cons.mp hv with rfl | hv
                · exact Or.inr hdone
                · exact Or.inl ⟨v, by rw [hs]; exact hmono.2.2 v hv, rfl⟩
              · exact Or.inr (hd.mono (by rw [hse]; exact hmono.1) htrs)
            · exact Or.inl ⟨v, by rw [hs]; exact hv, rfl⟩
          · right
            rcases hroot with ⟨rfl, _, _⟩ | h
            · refine ⟨?_, hleaf⟩
              intro k hk
              unfold rsucc at hk
              have hnc' : ¬ (!(G.ginfo (G.graphOf entry)).constructed && !cfg.onDemand) = true := hnc
              have hb' : ¬ isBase G cfg entry = true := hb
              rw [if_neg hnc', if_neg hb'] at hk
              simp only [List.mem_filter, List.mem_map] at hk
              obtain ⟨⟨c, hc, rfl⟩, hok⟩ := hk
              -- the root's expansion does not depend on prevEdgeInfos
              have hc' : c ∈ E.cands := by
                rw [← hE]
                have : expand G cfg st.pei (rootOf entry) = expand G cfg [] (rootOf entry) := by
                  unfold expand
                  split <;> rfl
                rw [this]; exact hc
              rw [hse, ← hR]
              exact addAll_adds G (rootOf entry) _ _ c (hρ' _ _ _ hc')
                (fun pei => tupleReject_noPrev G pei _ c rfl) hok
            · exact ⟨fun k hk => by rw [hse]; exact hmono.1 k (h.1 k hk),
                fun hl => let ⟨t, ht, hh⟩ := h.2 hl; ⟨t, htrs t ht, hh⟩⟩
        split
        · -- stuck: report
          rename_i hstuck
          apply key
          · rfl
          · rfl
          · rfl
          · intro t ht; apply addTrace_sub; rw [htr.1]; exact ht
          · intro _; exact ⟨traceOf cur, addTrace_self _ _, rfl⟩
        · rename_i hstuck
          apply key
          · rfl
          · rfl
          · rfl
          · intro t ht; rw [htr.1]; exact ht
          · intro hl
            -- a static leaf that is not a base case is a predecessor-free argument: it is always stuck
            exfalso
            have hb' : isBase G cfg cur.node = false := by simpa using hb
            obtain ⟨h1, h2, _⟩ := staticLeaf_arg_stuck G cfg st.pei cur hl hb'
            rw [hE] at h1 h2
            have hempty : ρ cur E.cands = [] := by
              cases hρl : ρ cur E.cands with
              | nil => rfl
              | cons c l =>
                have := hρ cur E.cands c (by rw [hρl]; exact List.mem_cons_self)
                rw [h1] at this; simp at this
            apply hstuck
            rw [h2, ← hR, hempty]
            simp [addAll]

theorem loop_dfs (G : LGraph) (hG : GraphHyp G) (cfg : Cfg) (ρ : VNode → List Cand → List Cand)
    (hρ : ∀ v l c, c ∈ ρ v l → c ∈ l) (hρ' : ∀ v l c, c ∈ l → c ∈ ρ v l) (entry : Nat) :
    ∀ (fuel : Nat) (st : St), DfsInv G cfg entry st →
      (loop G cfg ρ fuel st).panicked = true ∨ DfsInv G cfg entry (loop G cfg ρ fuel st)
  | 0, st, h => Or.inr h
  | fuel + 1, st, h => by
    unfold loop
    split
    · exact Or.inr h
    · rename_i cur rest hs
      rcases stepNode_dfs G hG cfg ρ hρ hρ' entry cur rest st hs h with hp | hinv
      · left
        exact loop_panicked G cfg ρ fuel _ hp
      · exact loop_dfs G hG cfg ρ hρ hρ' entry fuel _ hinv

end Argot.BackVisit
