/-
Helpers for C03 `forward_backward_dual` (property theorems: Argot/Props/C03Dual.lean).

The forward visitor model (Model/TaintVisit.lean, `TaintVisit.LGraph`) and the backward visitor model
(Model/BackVisit.lean, `BackVisit.LGraph`) read two DIFFERENT dump records.  The one representation both
are views of is the C17 state machine `SGraph.State` (out / in edge lists and the four registration maps
`CalleeSummary`, `Callsites`, `ClosureSummary`, `ReferringMakeClosures`, plus `ReadLocations` /
`WriteLocations`) together with the immutable position tables of the nodes (`Layout`).  This file defines

* `View`  = `SGraph.Static` + `Layout` + `SGraph.State`;
* `Fwd v` = one context-insensitive forward step, reading ONLY what the forward visitor reads
            (`Out()`, `CalleeSummary.Params`, `Callsites`, `ClosureSummary.FreeVars`, `ReadLocations`);
* `Bwd v` = one context-insensitive backward step, reading ONLY what the backward visitor reads
            (`In()`, `Callsites[..].Args`, `CalleeSummary.Returns`, `ReferringMakeClosures[..].BoundVars`,
            `WriteLocations`);
* `Star`  = reflexive-transitive closure, `star_conv` (closure commutes with converse),
            `reach_iff_star` (the shared `Closure.Reach` from one root is `Star`);
* `RepB` / `RepF`: what it means for a dumped `BackVisit.LGraph` / `TaintVisit.LGraph` to be a dump of the view.
-/
import Argot.Proofs.SGraph
import Argot.Proofs.BackVisit
import Argot.Model.TaintVisit

namespace Argot.Dual

/-! ### reflexive-transitive closure and converse -/

section Star
variable {α : Type}

/-- reflexive-transitive closure (extends on the right, like `Closure.Reach`) -/
inductive Star (R : α → α → Prop) : α → α → Prop
  | refl (a : α) : Star R a a
  | tail {a b c : α} : Star R a b → R b c → Star R a c

/-- the converse relation -/
def Conv (R : α → α → Prop) : α → α → Prop := fun a b => R b a

theorem Star.single {R : α → α → Prop} {a b : α} (h : R a b) : Star R a b := .tail (.refl a) h

theorem Star.trans {R : α → α → Prop} {a b c : α} (h1 : Star R a b) (h2 : Star R b c) : Star R a c := by
  induction h2 with
  | refl => exact h1
  | tail _ hr ih => exact .tail ih hr

theorem Star.head {R : α → α → Prop} {a b c : α} (h : R a b) (h2 : Star R b c) : Star R a c :=
  (Star.single h).trans h2

theorem Star.mono {R S : α → α → Prop} (hRS : ∀ a b, R a b → S a b) {a b : α} (h : Star R a b) : Star S a b := by
  induction h with
  | refl => exact .refl _
  | tail _ hr ih => exact .tail ih (hRS _ _ hr)

theorem star_conv_of {R : α → α → Prop} {s t : α} (h : Star (Conv R) t s) : Star R s t := by
  induction h with
  | refl => exact .refl _
  | tail _ hr ih => exact Star.head hr ih

/-- **reflexive-transitive closure commutes with converse** -/
theorem star_conv (R : α → α → Prop) (s t : α) : Star (Conv R) t s ↔ Star R s t :=
  ⟨star_conv_of, fun h => star_conv_of (R := Conv R) (Star.mono (fun _ _ h => h) h)⟩

/-- the shared reachability notion (`Base/Closure.lean`) from a single root is `Star` -/
theorem reach_iff_star (R : α → α → Prop) (s t : α) : Closure.Reach R [s] t ↔ Star R s t := by
  constructor
  · intro h
    induction h with
    | root hk => rw [List.mem_singleton.1 hk]; exact .refl _
    | step _ hr ih => exact .tail ih hr
  · intro h
    induction h with
    | refl => exact .root (List.mem_singleton.2 rfl)
    | tail _ hr ih => exact .step ih hr

/-- if `B` is the converse of `F`, forward reachability of `t` from `s` is backward reachability of `s` from `t` -/
theorem reach_dual_of_conv {F B : α → α → Prop} (h : ∀ a b, F a b ↔ B b a) (s t : α) :
    Closure.Reach F [s] t ↔ Closure.Reach B [t] s := by
  rw [reach_iff_star, reach_iff_star, ← star_conv B t s]
  exact ⟨Star.mono fun a b hab => (h a b).1 hab, Star.mono fun a b hab => (h a b).2 hab⟩

/-- one inclusion only needs one inclusion of the step relations -/
theorem reach_conv_of_sub {F B : α → α → Prop} (h : ∀ a b, F a b → B b a) (s t : α)
    (hr : Closure.Reach F [s] t) : Closure.Reach B [t] s := by
  rw [reach_iff_star] at hr ⊢
  rw [← star_conv B t s]
  exact Star.mono h hr

end Star

/-! ### the linked graph both visitors are views of -/

/-- immutable position tables of the nodes (never written after node creation) -/
structure Layout where
  /-- `CallNode.Args()` of a call node, by position -/
  args : Nat → List Nat
  /-- `SummaryGraph.Params` of a summary, by parameter position -/
  params : Nat → List Nat
  /-- `SummaryGraph.Returns` of a summary (all tuple components) -/
  rets : Nat → List Nat
  /-- `ClosureNode.BoundVars()` of a closure node, by position -/
  bvs : Nat → List Nat
  /-- `SummaryGraph.FreeVars` of a summary, by position -/
  fvs : Nat → List Nat

structure View where
  σ : SGraph.Static
  L : Layout
  st : SGraph.State

/-- One context-insensitive FORWARD step (what `taint.Visitor.Visit` follows, projected on nodes). -/
inductive Fwd (v : View) : Nat → Nat → Prop
  /-- `for d := range s.Out()` -/
  | out {s d : Nat} {i : SGraph.Idx} : (s, d, i) ∈ v.st.e.out → Fwd v s d
  /-- call argument → parameter of the callee: `arg.ParentNode().CalleeSummary.Params[k]` -/
  | argParam {c S k a p : Nat} : (c, S) ∈ v.st.calleeSummary → (v.L.args c)[k]? = some a →
      (v.L.params S)[k]? = some p → Fwd v a p
  /-- return → call node at the call sites: `ret.Graph().Callsites` -/
  | retCall {S site c r : Nat} : (S, site, c) ∈ v.st.callsites → r ∈ v.L.rets S → Fwd v r c
  /-- bound variable → free variable of the closure: `closureNode.ClosureSummary.FreeVars[k]` -/
  | bvFv {cl S k b f : Nat} : (cl, S) ∈ v.st.closureSummary → (v.L.bvs cl)[k]? = some b →
      (v.L.fvs S)[k]? = some f → Fwd v b f
  /-- global write → the global's read locations: `Global.ReadLocations` -/
  | writeRead {g w r : Nat} : (g, w) ∈ v.st.writeLoc → (g, r) ∈ v.st.readLoc → Fwd v w r

/-- One context-insensitive BACKWARD step (what `backtrace.Visitor.visit` follows, projected on nodes):
the same links, read from the registration on the OTHER side. -/
inductive Bwd (v : View) : Nat → Nat → Prop
  /-- `for s := range d.In()` -/
  | inn {d s : Nat} {i : SGraph.Idx} : (d, s, i) ∈ v.st.e.inn → Bwd v d s
  /-- parameter → argument at the call sites: `param.Graph().Callsites[..].Args()[k]` -/
  | paramArg {S site c k p a : Nat} : (S, site, c) ∈ v.st.callsites → (v.L.params S)[k]? = some p →
      (v.L.args c)[k]? = some a → Bwd v p a
  /-- call node → returns of the callee: `call.CalleeSummary.Returns` -/
  | callRet {c S r : Nat} : (c, S) ∈ v.st.calleeSummary → r ∈ v.L.rets S → Bwd v c r
  /-- free variable → bound variable at the MakeClosure sites: `fv.Graph().ReferringMakeClosures[..].BoundVars()[k]` -/
  | fvBv {S instr cl k f b : Nat} : (S, instr, cl) ∈ v.st.referring → (v.L.fvs S)[k]? = some f →
      (v.L.bvs cl)[k]? = some b → Bwd v f b
  /-- global read → the global's write locations: `Global.WriteLocations` -/
  | readWrite {g r w : Nat} : (g, r) ∈ v.st.readLoc → (g, w) ∈ v.st.writeLoc → Bwd v r w

/-- the converse of C17 (c), which C17's `inv` does NOT contain: a closure node registered in
`ReferringMakeClosures` of a summary has that summary as its `ClosureSummary`. -/
def InvClosuresConv (st : SGraph.State) : Prop :=
  ∀ t ∈ st.referring, (t.2.2, t.1) ∈ st.closureSummary

instance (st : SGraph.State) : Decidable (InvClosuresConv st) := by unfold InvClosuresConv; infer_instance

/-- every forward step has its backward converse: needs the `out ⊆ in` half of C17 (a), (b) in full (the
forward visitor reads `CalleeSummary` at arguments and `Callsites` at returns, the backward visitor the
other one each time) and (c) = `ClosureSummary ⊆ ReferringMakeClosures`. -/
theorem fwd_conv_bwd (v : View)
    (ha : ∀ t ∈ v.st.e.out, ∃ f ∈ v.st.e.inn, f.1 = t.2.1 ∧ f.2.1 = t.1)
    (hb : SGraph.InvCalls v.σ v.st) (hc : SGraph.InvClosures v.σ v.st)
    {s t : Nat} (h : Fwd v s t) : Bwd v t s := by
  cases h with
  | out ho =>
    obtain ⟨⟨d', s', i'⟩, hf, h1, h2⟩ := ha _ ho
    simp only at h1 h2; subst h1 h2
    exact .inn hf
  | argParam hcs hargs hpar => exact .paramArg (hb.1 _ hcs) hpar hargs
  | retCall hsite hr => exact .callRet (hb.2 _ hsite).2 hr
  | bvFv hcl hb' hf => exact .fvBv (hc _ hcl) hf hb'
  | writeRead hw hr => exact .readWrite hr hw

/-- every backward step has its forward converse: needs the `in ⊆ out` half of (a), (b) in full, and the
CONVERSE of (c), which is not part of C17's invariant. -/
theorem bwd_conv_fwd (v : View)
    (ha : ∀ f ∈ v.st.e.inn, ∃ t ∈ v.st.e.out, f.1 = t.2.1 ∧ f.2.1 = t.1 ∧ f.2.2 = t.2.2)
    (hb : SGraph.InvCalls v.σ v.st) (hc : InvClosuresConv v.st)
    {s t : Nat} (h : Bwd v t s) : Fwd v s t := by
  cases h with
  | inn hi =>
    obtain ⟨⟨s', d', i'⟩, ht, h1, h2, _⟩ := ha _ hi
    simp only at h1 h2; subst h1 h2
    exact .out ht
  | paramArg hsite hpar hargs => exact .argParam (hb.2 _ hsite).2 hargs hpar
  | callRet hcs hr => exact .retCall (hb.1 _ hcs) hr
  | fvBv href hf hb' => exact .bvFv (hc _ href) hb' hf
  | readWrite hr hw => exact .writeRead hw hr

/-- a root without successors reaches only itself -/
theorem reach_stuck {α : Type} {R : α → α → Prop} {a b : α} (hs : ∀ c, ¬ R a c)
    (h : Closure.Reach R [a] b) : b = a := by
  induction h with
  | root hk => exact List.mem_singleton.1 hk
  | step _ hr ih => subst ih; exact absurd hr (hs _)

/-! ### the backward visitor model as a view -/

open BackVisit in
/-- `G` (the record `oracle_c03` reads) is a dump of the view `v`: each table the backward visitor reads is
contained in the corresponding component of the C17 state / the position tables. -/
structure RepB (G : BackVisit.LGraph) (v : View) : Prop where
  ins : ∀ n s i, (s, i) ∈ (G.node n).ins → (n, s, i) ∈ v.st.e.inn
  callsites : ∀ g c, c ∈ (G.ginfo g).callsites → (g, v.σ.site c, c) ∈ v.st.callsites
  args : ∀ c, v.L.args c = (G.node c).args
  params : ∀ p, G.kind p = .param → (v.L.params (G.graphOf p))[(G.node p).index]? = some p
  rets : ∀ c r, G.kind c = .call → r ∈ (G.node c).rets → ∃ S, (c, S) ∈ v.st.calleeSummary ∧ r ∈ v.L.rets S
  writes : ∀ n w, G.kind n = .gread → w ∈ (G.node n).writes →
    ∃ g, (g, n) ∈ v.st.readLoc ∧ (g, w) ∈ v.st.writeLoc
  fvs : ∀ f, G.kind f = .freeVar → (v.L.fvs (G.graphOf f))[(G.node f).index]? = some f
  bvs : ∀ c, v.L.bvs c = (G.node c).bvs
  refClosures : ∀ g c, c ∈ (G.ginfo g).refClosures → (g, v.σ.cinstr c, c) ∈ v.st.referring
  closGraph : ∀ c g, (G.node c).closGraph = some g → (c, g) ∈ v.st.closureSummary

open BackVisit in
/-- the steps of the backward visitor that are NOT the converse of one of the four forward links:
argument → parameter of the callee (flow out of a callee through a pointer argument), bound argument →
its out-edges, bound variable → free variable (writes inside the closure body), MakeClosure node → its
bound variables. They have exactly the premises of the `Linked` constructors of the same name. -/
inductive ExtraB (G : BackVisit.LGraph) : Nat → Nat → Prop
  | argToParam {cur next : Nat} : G.kind cur = .arg →
      (G.node (G.node cur).parent).calleeParam[(G.node cur).index]? = some (some next) → ExtraB G cur next
  | argOut {cur next : Nat} {i : Int} : G.kind cur = .arg → (G.node cur).bound = true →
      (next, i) ∈ (G.node cur).outs → ExtraB G cur next
  | bvToFv {cur next : Nat} : G.kind cur = .boundVar →
      (G.node (G.node cur).parent).closFvs[(G.node cur).index]? = some (some next) → ExtraB G cur next
  | closureToBv {cur next : Nat} : G.kind cur = .closure → next ∈ (G.node cur).bvs → ExtraB G cur next

open BackVisit in
/-- every backward dataflow link of the C03 specification (`Linked`) is a `Bwd` step of the view or one of
the four `ExtraB` links. The `closGraph` half of `ClosureOf` goes through C17 (c). -/
theorem linked_sound {G : BackVisit.LGraph} {v : View} (R : RepB G v) (hc : SGraph.InvClosures v.σ v.st)
    {cur next : Nat} (h : Linked G cur next) : Bwd v cur next ∨ ExtraB G cur next := by
  cases h with
  | inEdge hi => exact .inl (.inn (R.ins _ _ _ hi))
  | paramToArg hk hcs ha =>
    exact .inl (.paramArg (R.callsites _ _ hcs) (R.params _ hk) (by rw [R.args]; exact ha))
  | argToParam hk h => exact .inr (.argToParam hk h)
  | argOut hk hb ho => exact .inr (.argOut hk hb ho)
  | callToRet hk hr =>
    obtain ⟨S, h1, h2⟩ := R.rets _ _ hk hr
    exact .inl (.callRet h1 h2)
  | readToWrite hk hw =>
    obtain ⟨g, h1, h2⟩ := R.writes _ _ hk hw
    exact .inl (.readWrite h1 h2)
  | bvToFv hk h => exact .inr (.bvToFv hk h)
  | fvToBv hk hcl hb =>
    rename_i cl
    have href : ∃ instr, (G.graphOf cur, instr, cl) ∈ v.st.referring := by
      rcases hcl with h | h
      · exact ⟨_, R.refClosures _ _ h⟩
      · exact ⟨_, hc _ (R.closGraph _ _ h)⟩
    obtain ⟨instr, href⟩ := href
    exact .inl (.fvBv href (R.fvs _ hk) (by rw [R.bvs]; exact hb))
  | closureToBv hk hb => exact .inr (.closureToBv hk hb)

/-! ### the forward visitor model as a view -/

open TaintVisit in
/-- `G` (the record `oracle_c01` reads) is a dump of the view `v`, for the tables the forward visitor reads
at call arguments, synthetic nodes, closure nodes and global accesses. -/
structure RepF (G : TaintVisit.LGraph) (v : View) : Prop where
  out : ∀ n e, e ∈ (G.node n).out → (n, e.dst, e.index) ∈ v.st.e.out
  callee : ∀ c S, (G.node c).calleeSummary = some S → (c, S) ∈ v.st.calleeSummary
  args : ∀ a, (G.node a).kind = .callArg → (v.L.args (G.node a).parent)[(G.node a).index]? = some a
  params : ∀ S k p, (G.graph S).params.getD k none = some p → (v.L.params S)[k]? = some p
  readLocs : ∀ w r, (G.node w).kind = .global → (G.node w).isWrite = true → r ∈ (G.node w).readLocs →
    ∃ g, (g, w) ∈ v.st.writeLoc ∧ (g, r) ∈ v.st.readLoc

open TaintVisit in
theorem mem_mkNext {np : Bool} {cur : Item} {inter : Option Nat} {node : Nat} {tr ctr : List Nat} {ct : Bool}
    {ti : List (Nat × Nat)} {e : Edge} {b : Item} (h : b ∈ mkNext np cur inter node tr ctr ct ti e) :
    b.node = node := by
  unfold mkNext at h
  by_cases hv : e.validated = true
  · simp [hv] at h
  · by_cases hp : (nextPaths cur.paths e.rel).isEmpty = true <;> by_cases hn : np = true <;>
      simp [hv, hp, hn] at h <;> rw [h]

open TaintVisit in
theorem mem_outs {np : Bool} {cur : Item} {n : Node} {inter : Option Nat} {tr ctr : List Nat} {ct : Bool}
    {ti : List (Nat × Nat)} {keep : Edge → Bool} {b : Item} (h : b ∈ outs np cur n inter tr ctr ct ti keep) :
    ∃ e ∈ n.out, b.node = e.dst := by
  unfold outs at h
  simp only [List.mem_flatMap] at h
  obtain ⟨e, he, hb⟩ := h
  split at hb
  · exact ⟨e, he, mem_mkNext hb⟩
  · simp at hb

open TaintVisit in
/-- node projection of the forward model's step, for the node kinds whose case of the type switch follows
only out-edges and the links `Fwd` contains. -/
theorem stepSpec_fwd {G : TaintVisit.LGraph} {v : View} (R : RepF G v) (src : Nat) (a b : Item)
    (hk : (G.node a.node).kind = .callArg ∨ (G.node a.node).kind = .synthetic ∨
      (G.node a.node).kind = .closure ∨ (G.node a.node).kind = .global)
    (h : b ∈ stepSpec G src a) : Fwd v a.node b.node := by
  have hout : ∀ {inter tr ctr ct ti keep},
      b ∈ outs false a.core (G.node a.node) inter tr ctr ct ti keep → Fwd v a.node b.node := by
    intro _ _ _ _ _ _ hb
    obtain ⟨e, he, hd⟩ := mem_outs hb
    rw [hd]; exact .out (R.out _ _ he)
  unfold stepSpec stepRaw at h
  simp only [Item.core] at h hout
  by_cases h1 : (G.node a.node).filtered = true
  · simp [h1] at h
  simp only [h1] at h
  by_cases h2 : ((G.node a.node).sink && !a.ct) = true
  · simp [h2] at h
  simp only [h2] at h
  by_cases h3 : (G.node a.node).sanitizer = true
  · simp [h3] at h
  simp only [h3] at h
  by_cases h4 : (!(G.graph (G.node a.node).graph).constructed) = true
  · simp [h4] at h
  simp only [h4] at h
  simp only [Bool.false_eq_true, ↓reduceIte] at h
  rcases hk with hk | hk | hk | hk
  · simp only [hk] at h
    cases hcs : (G.node (G.node a.node).parent).calleeSummary with
    | none => simp [hcs] at h
    | some cs =>
      simp only [hcs] at h
      simp only [List.mem_append] at h
      rcases h with h | h
      · cases hp : (G.graph cs).params.getD (G.node a.node).index none with
        | none => simp only [hp, List.not_mem_nil] at h
        | some p =>
          simp only [hp] at h
          rw [mem_mkNext h]
          exact .argParam (R.callee _ _ hcs) (R.args _ hk) (R.params _ _ _ hp)
      · by_cases hf : flag G a = true
        · simp only [hf] at h; exact hout h
        · simp [hf] at h
  · simp only [hk] at h; exact hout h
  · simp only [hk] at h; exact hout h
  · simp only [hk] at h
    by_cases hw : (G.node a.node).isWrite = true
    · simp only [hw] at h
      simp only [↓reduceIte, List.mem_flatMap] at h
      obtain ⟨r, hr, hb⟩ := h
      rw [mem_mkNext hb]
      obtain ⟨g, g1, g2⟩ := R.readLocs _ _ hk hw hr
      exact .writeRead g1 g2
    · simp only [hw] at h; exact hout h

end Argot.Dual
