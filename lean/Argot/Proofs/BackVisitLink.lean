/- C03: the executable link test `linkedB` decides the specification relation `Linked`
   (so that what the oracle evaluates on REAL traces is exactly `TraceWF (Linked G)`). -/
import Argot.Proofs.BackVisit

namespace Argot.BackVisit

theorem node_default_of_ge (G : LGraph) (c : Nat) (h : G.nodes.size ≤ c) : G.node c = default := by
  unfold LGraph.node
  simp [Array.getD, h, Nat.not_lt.mpr h]

theorem default_bvs : (default : Node).bvs = [] := rfl

theorem lt_size_of_bvs (G : LGraph) (c i n : Nat) (h : (G.node c).bvs[i]? = some n) : c < G.nodes.size := by
  by_cases hc : c < G.nodes.size
  · exact hc
  · rw [node_default_of_ge G c (Nat.le_of_not_lt hc), default_bvs] at h
    simp at h

theorem closureOfB_iff (G : LGraph) (c g : Nat) : closureOfB G c g = true ↔ ClosureOf G c g := by
  unfold closureOfB ClosureOf
  simp [List.contains_iff_mem]

theorem any_fst_iff {l : List (Nat × Int)} {n : Nat} :
    l.any (fun e => e.1 == n) = true ↔ ∃ i, (n, i) ∈ l := by
  simp only [List.any_eq_true, beq_iff_eq]
  constructor
  · rintro ⟨⟨a, i⟩, h, rfl⟩; exact ⟨i, h⟩
  · rintro ⟨i, h⟩; exact ⟨(n, i), h, rfl⟩

theorem linkedB_of_linked {G : LGraph} {cur next : Nat} (h : Linked G cur next) : linkedB G cur next = true := by
  unfold linkedB
  simp only [Bool.or_eq_true]
  cases h with
  | inEdge h => left; exact any_fst_iff.mpr ⟨_, h⟩
  | paramToArg hk hcs ha =>
    right
    have hk' : (G.node cur).kind = .param := hk
    simp only [hk', List.any_eq_true, beq_iff_eq]
    exact ⟨_, hcs, ha⟩
  | argToParam hk hp =>
    right
    have hk' : (G.node cur).kind = .arg := hk
    simp only [hk', Bool.or_eq_true, beq_iff_eq]
    exact Or.inl hp
  | argOut hk hb ho =>
    right
    have hk' : (G.node cur).kind = .arg := hk
    simp only [hk', Bool.or_eq_true, Bool.and_eq_true]
    exact Or.inr ⟨hb, any_fst_iff.mpr ⟨_, ho⟩⟩
  | callToRet hk hr =>
    right
    have hk' : (G.node cur).kind = .call := hk
    simp only [hk', List.contains_iff_mem]; exact hr
  | readToWrite hk hw =>
    right
    have hk' : (G.node cur).kind = .gread := hk
    simp only [hk', List.contains_iff_mem]; exact hw
  | bvToFv hk hf =>
    right
    have hk' : (G.node cur).kind = .boundVar := hk
    simp only [hk', beq_iff_eq]; exact hf
  | fvToBv hk hc hb =>
    right
    rename_i c
    have hk' : (G.node cur).kind = .freeVar := hk
    simp only [hk', List.any_eq_true, List.mem_range, Bool.and_eq_true, beq_iff_eq]
    exact ⟨c, lt_size_of_bvs G c _ _ hb, (closureOfB_iff G c _).mpr hc, hb⟩
  | closureToBv hk hb =>
    right
    have hk' : (G.node cur).kind = .closure := hk
    simp only [hk', List.contains_iff_mem]; exact hb

theorem linked_of_linkedB {G : LGraph} {cur next : Nat} (h : linkedB G cur next = true) : Linked G cur next := by
  unfold linkedB at h
  simp only [Bool.or_eq_true] at h
  rcases h with h | h
  · obtain ⟨i, hi⟩ := any_fst_iff.mp h; exact .inEdge hi
  · split at h <;> rename_i hk
    · simp only [List.any_eq_true, beq_iff_eq] at h
      obtain ⟨cs, hcs, ha⟩ := h
      exact .paramToArg hk hcs ha
    · simp only [Bool.or_eq_true, beq_iff_eq, Bool.and_eq_true] at h
      rcases h with h | ⟨hb, ho⟩
      · exact .argToParam hk h
      · obtain ⟨i, hi⟩ := any_fst_iff.mp ho; exact .argOut hk hb hi
    · exact .callToRet hk (List.contains_iff_mem.mp h)
    · exact .readToWrite hk (List.contains_iff_mem.mp h)
    · simp only [beq_iff_eq] at h; exact .bvToFv hk h
    · simp only [List.any_eq_true, List.mem_range, Bool.and_eq_true, beq_iff_eq] at h
      obtain ⟨c, _, hc, hb⟩ := h
      exact .fvToBv hk ((closureOfB_iff G c _).mp hc) hb
    · exact .closureToBv hk (List.contains_iff_mem.mp h)
    · simp at h

theorem linkedB_iff (G : LGraph) (cur next : Nat) : linkedB G cur next = true ↔ Linked G cur next :=
  ⟨linked_of_linkedB, linkedB_of_linked⟩

theorem chainB_iff (G : LGraph) : ∀ t : List Nat, chainB (linkedB G) t = true ↔ ChainL (Linked G) t
  | [] => by simp [chainB, ChainL]
  | [_] => by simp [chainB, ChainL]
  | a :: b :: rest => by
    simp only [chainB, ChainL, Bool.and_eq_true, linkedB_iff, chainB_iff G (b :: rest)]

theorem traceWFB_iff (G : LGraph) (entry : Nat) (t : List Nat) :
    traceWFB G entry t = true ↔ TraceWF (Linked G) entry t := by
  unfold traceWFB
  simp only [Bool.and_eq_true, beq_iff_eq, chainB_iff]
  exact ⟨fun h => ⟨h.1, h.2⟩, fun h => ⟨h.last, h.chain⟩⟩

end Argot.BackVisit
