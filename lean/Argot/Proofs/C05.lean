/- Helper lemmas for C05: the table-driven on-demand scan, and traversals with an alarm counter. -/
import Argot.Model.LazyScan
import Argot.Base.Closure

namespace Argot.LazyScan

theorem scan_of_complete {opsTbl : List (String × List String)} {tbl : List (String × String)} {generic : Bool}
    (hc : tableCompleteB opsTbl tbl generic = true) {f : Fn} (hwf : WF opsTbl f) {g : Nat}
    (h : hasAccessNode f g = true) : scan tbl generic f g = true := by
  simp only [hasAccessNode, List.any_eq_true] at h
  obtain ⟨i, hi, o, ho, hg⟩ := h
  simp only [scan, List.any_eq_true]
  refine ⟨i, hi, o, ho, ?_⟩
  simp only [Bool.and_eq_true, hg, true_and, Bool.or_eq_true]
  simp only [tableCompleteB, Bool.or_eq_true, List.all_eq_true] at hc
  rcases hc with hc | hc
  · exact Or.inl hc
  · right
    obtain ⟨fs, hfs, hof⟩ := hwf i hi o ho
    exact hc (i.kind, fs) hfs o.1 hof

/-- an unrecognised operand position yields a function with an access node that the scan misses -/
theorem incomplete_witness {opsTbl : List (String × List String)} {tbl : List (String × String)} {generic : Bool}
    (hc : tableCompleteB opsTbl tbl generic = false) :
    ∃ (f : Fn) (g : Nat), WF opsTbl f ∧ hasAccessNode f g = true ∧ scan tbl generic f g = false := by
  simp only [tableCompleteB, Bool.or_eq_false_iff] at hc
  obtain ⟨hgen, hall⟩ := hc
  have : ∃ kf ∈ opsTbl, ∃ fld ∈ kf.2, tbl.contains (kf.1, fld) = false := by
    rw [List.all_eq_false] at hall
    obtain ⟨kf, hkf, h2⟩ := hall
    have h2' : (kf.2.all fun fld => tbl.contains (kf.1, fld)) = false := by
      cases h : (kf.2.all fun fld => tbl.contains (kf.1, fld)) with
      | false => rfl
      | true => exact absurd h h2
    rw [List.all_eq_false] at h2'
    obtain ⟨fld, hfld, h3⟩ := h2'
    refine ⟨kf, hkf, fld, hfld, ?_⟩
    cases h : tbl.contains (kf.1, fld) with
    | false => rfl
    | true => exact absurd h h3
  obtain ⟨kf, hkf, fld, hfld, hcn⟩ := this
  refine ⟨[⟨kf.1, [(fld, 0)]⟩], 0, ?_, by simp [hasAccessNode], ?_⟩
  · intro i hi o ho
    simp at hi; subst hi
    simp at ho; subst ho
    exact ⟨kf.2, hkf, hfld⟩
  · have hn : (kf.1, fld) ∉ tbl := by
      intro hm; rw [List.contains_iff_mem.2 hm] at hcn; cases hcn
    simp [scan, hgen, hn]

theorem flatMap_filter_eq {α β : Type} (p : α → Bool) (h : α → List β) :
    ∀ (l : List α), (∀ a ∈ l, p a = false → h a = []) → (l.filter p).flatMap h = l.flatMap h
  | [], _ => rfl
  | a :: l, hz => by
    have ih := flatMap_filter_eq p h l (fun b hb => hz b (by simp [hb]))
    cases hp : p a with
    | true => simp [hp, ih]
    | false => simp [hp, ih, hz a (by simp) hp]

end Argot.LazyScan

namespace Argot.Alarms
open Argot.Closure

variable {α κ : Type} [DecidableEq κ]

/-- number of sink nodes popped so far = number of `IncrementAndTestAlarms` calls of this visit -/
def sinkCount (key : α → κ) (isSink : κ → Bool) (vis : List α) : Nat :=
  (vis.filter fun a => isSink (key a)).length

/-- `TestAlarmCount`: `MaxAlarms <= 0 || numAlarms < MaxAlarms` -/
def below (k c : Nat) : Prop := k = 0 ∨ c < k

/-- one `Visit` with the global alarm counter at `c0` on entry: the loop goes on only while the counter
is below the limit (it is re-tested after every sink) -/
inductive LRun (key : α → κ) (succ : α → List α) (isSink : κ → Bool) (k c0 : Nat) : State α κ → State α κ → Prop
  | refl {s : State α κ} : LRun key succ isSink k c0 s s
  | tail {s t u : State α κ} : LRun key succ isSink k c0 s t →
      below k (c0 + sinkCount key isSink t.visited) → Step key succ t u → LRun key succ isSink k c0 s u

/-- the visit has ended: worklist empty, or the limit was reached -/
def Stopped (key : α → κ) (isSink : κ → Bool) (k c0 : Nat) (s : State α κ) : Prop :=
  s.queue = [] ∨ ¬ below k (c0 + sinkCount key isSink s.visited)

theorem LRun.steps {key : α → κ} {succ : α → List α} {isSink : κ → Bool} {k c0 : Nat} {s t : State α κ}
    (h : LRun key succ isSink k c0 s t) : Steps key succ s t := by
  induction h with
  | refl => exact Steps.refl
  | tail _ _ hs ih => exact Steps.tail ih hs

theorem step_sinkCount {key : α → κ} {succ : α → List α} (isSink : κ → Bool) {t u : State α κ}
    (h : Step key succ t u) : sinkCount key isSink u.visited ≤ sinkCount key isSink t.visited + 1 := by
  obtain ⟨a, _, _, _, _, _, _, hv⟩ := (step_iff key succ t u).1 h
  rw [hv]
  simp only [sinkCount, List.filter_cons]
  split <;> simp

/-- the counter never exceeds the limit -/
theorem LRun.count_le {key : α → κ} {succ : α → List α} {isSink : κ → Bool} {k c0 : Nat} {s t : State α κ}
    (h : LRun key succ isSink k c0 s t) (hk : k ≠ 0) (h0 : c0 + sinkCount key isSink s.visited ≤ k) :
    c0 + sinkCount key isSink t.visited ≤ k := by
  induction h with
  | refl => exact h0
  | tail _ hb hs _ =>
    have := step_sinkCount isSink hs
    rcases hb with hb | hb
    · exact absurd hb hk
    · omega

omit [DecidableEq κ] in
theorem sinkCount_pos_iff {key : α → κ} {isSink : κ → Bool} {vis : List α} :
    0 < sinkCount key isSink vis ↔ ∃ a ∈ vis, isSink (key a) = true := by
  simp only [sinkCount, List.length_pos_iff_exists_mem, List.mem_filter]

end Argot.Alarms
