/- Helper lemmas for C07: the current `HasPathTo` on the chain of `n` diamonds takes exactly
   4·2ⁿ − 3 loop iterations (target not reachable).  Core Lean only. -/
import Argot.Proofs.C07Path

namespace Argot.C07

/-! ### a batch of queue heads whose successors are all unmarked is processed verbatim -/

theorem runOld_batch (g : Cfg) (tgt : Nat) :
    ∀ (xs rest vis : List Nat) (fuel c : Nat),
      (∀ x ∈ xs, x ≠ tgt) → (∀ x ∈ xs, ∀ y ∈ succs g x, y ∉ xs ∧ y ∉ vis) →
      runWith (stepOld g tgt) (fuel + xs.length) { que := xs ++ rest, vis := vis } c
        = runWith (stepOld g tgt) fuel { que := rest ++ xs.flatMap (succs g), vis := xs.reverse ++ vis } (c + xs.length)
  | [], rest, vis, fuel, c, _, _ => by simp
  | x :: xs, rest, vis, fuel, c, ht, hs => by
    have hx : x ≠ tgt := ht x (by simp)
    have hfil : (succs g x).filter (fun nb => !(x :: vis).contains nb) = succs g x := by
      apply List.filter_eq_self.2
      intro y hy
      have := hs x (by simp) y hy
      have h1 : y ≠ x := by intro h; subst h; exact this.1 (by simp)
      simp [h1, this.2]
    have ih := runOld_batch g tgt xs (rest ++ succs g x) (x :: vis) fuel (c + 1)
      (fun x' hx' => ht x' (by simp [hx']))
      (by
        intro x' hx' y hy
        have := hs x' (by simp [hx']) y hy
        refine ⟨fun h => this.1 (by simp [h]), ?_⟩
        intro h
        simp at h
        rcases h with h | h
        · subst h; exact this.1 (by simp)
        · exact this.2 h)
    have e : fuel + (x :: xs).length = (fuel + xs.length) + 1 := by simp; omega
    rw [e]
    simp only [runWith, stepOld, List.cons_append, hx, if_false, hfil]
    rw [List.append_assoc] at ih ⊢
    rw [ih]
    simp only [List.flatMap_cons, List.reverse_cons, List.append_assoc, List.length_cons, List.singleton_append]
    congr 1
    omega

/-! ### successors in the diamond chain -/

theorem diaTail_getD : ∀ (k i j : Nat), j < k →
    (diaTail i k).getD (3 * j) [] = [3 * (i + j) + 2] ∧
    (diaTail i k).getD (3 * j + 1) [] = (if j + 1 = k then [] else [3 * (i + j) + 4, 3 * (i + j) + 6]) ∧
    (diaTail i k).getD (3 * j + 2) [] = [3 * (i + j) + 2]
  | 0, _, _, h => by omega
  | k + 1, i, 0, _ => by
    by_cases hk : k = 0 <;> simp [diaTail, hk]
  | k + 1, i, j + 1, h => by
    have ih := diaTail_getD k (i + 1) j (by omega)
    have e0 : 3 * (j + 1) = (3 * j) + 1 + 1 + 1 := by omega
    have e1 : 3 * (j + 1) + 1 = (3 * j + 1) + 1 + 1 + 1 := by omega
    have e2 : 3 * (j + 1) + 2 = (3 * j + 2) + 1 + 1 + 1 := by omega
    have ea : i + 1 + j = i + (j + 1) := by omega
    rw [ea] at ih
    rw [e1, e2, e0]
    simp only [diaTail, List.getD_cons_succ]
    refine ⟨ih.1, ?_, ih.2.2⟩
    rw [ih.2.1]
    by_cases hj : j + 1 = k
    · simp [hj]
    · have : ¬ (j + 1 + 1 = k + 1) := by omega
      simp [hj, this]

/-- the block holding the `i`-th `if`: block 0, then the join of the previous diamond. -/
def head (i : Nat) : Nat := if i = 0 then 0 else 3 * i - 1

theorem succs_block (n b : Nat) (hn : 0 < n) : succs (diamonds n) (b + 1) = (diaTail 0 n).getD b [] := by
  have : n ≠ 0 := by omega
  simp [succs, diamonds, this]

theorem succs_head (n i : Nat) (hi : i < n) : succs (diamonds n) (head i) = [3 * i + 1, 3 * i + 3] := by
  have hn : n ≠ 0 := by omega
  cases i with
  | zero => simp [head, succs, diamonds, hn]
  | succ i =>
    have e : head (i + 1) = (3 * i + 1) + 1 := by simp [head]; omega
    rw [e, succs_block n _ (by omega)]
    have := (diaTail_getD n 0 i (by omega)).2.1
    have hne : ¬ (i + 1 = n) := by omega
    rw [this, if_neg hne]
    simp only [Nat.zero_add]
    have e1 : 3 * i + 4 = 3 * (i + 1) + 1 := by omega
    have e2 : 3 * i + 6 = 3 * (i + 1) + 3 := by omega
    rw [e1, e2]

theorem succs_arms (n i : Nat) (hi : i < n) :
    succs (diamonds n) (3 * i + 1) = [3 * i + 2] ∧ succs (diamonds n) (3 * i + 3) = [3 * i + 2] := by
  have h := diaTail_getD n 0 i hi
  constructor
  · rw [succs_block n _ (by omega), h.1]; simp
  · have e : 3 * i + 3 = (3 * i + 2) + 1 := by omega
    rw [e, succs_block n _ (by omega), h.2.2]; simp

theorem succs_head_last (n : Nat) : succs (diamonds n) (head n) = [] := by
  cases n with
  | zero => simp [head, succs, diamonds]
  | succ n =>
    have e : head (n + 1) = (3 * n + 1) + 1 := by simp [head]; omega
    rw [e, succs_block (n + 1) _ (by omega)]
    have := (diaTail_getD (n + 1) 0 n (by omega)).2.1
    rw [this]; simp

/-! ### the queue during the search: k copies of a head, then k copies of both arms, then 2k copies of the next head -/

def dup (a b : Nat) : Nat → List Nat
  | 0 => []
  | k + 1 => a :: b :: dup a b k

theorem dup_length (a b : Nat) : ∀ k, (dup a b k).length = 2 * k
  | 0 => rfl
  | k + 1 => by simp [dup, dup_length a b k]; omega

theorem mem_dup (a b : Nat) : ∀ k x, x ∈ dup a b k → x = a ∨ x = b
  | 0, _, h => by simp [dup] at h
  | k + 1, x, h => by
    simp [dup] at h
    rcases h with h | h | h
    · exact Or.inl h
    · exact Or.inr h
    · exact mem_dup a b k x h

theorem flatMap_replicate (f : Nat → List Nat) (h a b : Nat) (hf : f h = [a, b]) :
    ∀ k, (List.replicate k h).flatMap f = dup a b k
  | 0 => by simp [dup]
  | k + 1 => by simp [List.replicate_succ, hf, dup, flatMap_replicate f h a b hf k]

theorem flatMap_dup (f : Nat → List Nat) (a b c : Nat) (ha : f a = [c]) (hb : f b = [c]) :
    ∀ k, (dup a b k).flatMap f = List.replicate (2 * k) c
  | 0 => by simp [dup]
  | k + 1 => by
    have e : 2 * (k + 1) = 2 * k + 1 + 1 := by omega
    simp [dup, ha, hb, flatMap_dup f a b c ha hb k, e, List.replicate_succ]

theorem head_le (i : Nat) : head i ≤ 3 * i := by unfold head; split <;> omega

theorem head_succ (i : Nat) : head (i + 1) = 3 * i + 2 := by simp [head]; omega

/-- one diamond: from `k` copies of its `if` block to `2k` copies of the next one, in `3k` iterations. -/
theorem run_level (n i : Nat) (hi : i < n) (k : Nat) (vis : List Nat) (hv : ∀ v ∈ vis, v ≤ 3 * i) (fuel c : Nat) :
    ∃ vis', (∀ v ∈ vis', v ≤ 3 * (i + 1)) ∧
      runWith (stepOld (diamonds n) (3 * n + 1)) (fuel + 2 * k + k) { que := List.replicate k (head i), vis := vis } c
        = runWith (stepOld (diamonds n) (3 * n + 1)) fuel
            { que := List.replicate (2 * k) (head (i + 1)), vis := vis' } (c + 3 * k) := by
  have hh := succs_head n i hi
  have ha := succs_arms n i hi
  have hle := head_le i
  -- the k copies of the head
  have b1 := runOld_batch (diamonds n) (3 * n + 1) (List.replicate k (head i)) [] vis (fuel + 2 * k) c
    (by intro x hx; rw [List.eq_of_mem_replicate hx]; omega)
    (by
      intro x hx y hy
      rw [List.eq_of_mem_replicate hx, hh] at hy
      simp at hy
      constructor
      · intro hm; have := List.eq_of_mem_replicate hm; omega
      · intro hm; have := hv y hm; omega)
  simp only [List.append_nil, List.nil_append, List.length_replicate] at b1
  rw [flatMap_replicate (succs (diamonds n)) (head i) (3 * i + 1) (3 * i + 3) hh k] at b1
  -- the 2k arms
  have b2 := runOld_batch (diamonds n) (3 * n + 1) (dup (3 * i + 1) (3 * i + 3) k) []
    ((List.replicate k (head i)).reverse ++ vis) fuel (c + k)
    (by intro x hx; rcases mem_dup _ _ _ _ hx with h | h <;> omega)
    (by
      intro x hx y hy
      have hy' : y = 3 * i + 2 := by
        rcases mem_dup _ _ _ _ hx with h | h
        · rw [h, ha.1] at hy; simpa using hy
        · rw [h, ha.2] at hy; simpa using hy
      constructor
      · intro hm; rcases mem_dup _ _ _ _ hm with h | h <;> omega
      · intro hm
        simp at hm
        rcases hm with hm | hm
        · have := hm.2; omega
        · have := hv y hm; omega)
  simp only [List.append_nil, List.nil_append, dup_length] at b2
  rw [flatMap_dup (succs (diamonds n)) (3 * i + 1) (3 * i + 3) (3 * i + 2) ha.1 ha.2 k] at b2
  refine ⟨(dup (3 * i + 1) (3 * i + 3) k).reverse ++ ((List.replicate k (head i)).reverse ++ vis), ?_, ?_⟩
  · intro v hm
    simp at hm
    rcases hm with hm | hm | hm
    · rcases mem_dup _ _ _ _ hm with h | h <;> omega
    · have := hm.2; omega
    · have := hv v hm; omega
  · rw [b1, b2, head_succ]
    congr 1
    omega

/-- total number of iterations from `k` copies of the `if` block of diamond `n - j`. -/
def diaSteps : Nat → Nat → Nat
  | 0, k => k
  | j + 1, k => 3 * k + diaSteps j (2 * k)

theorem diaSteps_closed : ∀ (j k : Nat), diaSteps j k + 3 * k = 4 * k * 2 ^ j
  | 0, k => by simp [diaSteps]; omega
  | j + 1, k => by
    have ih := diaSteps_closed j (2 * k)
    have e : 4 * k * 2 ^ (j + 1) = 4 * (2 * k) * 2 ^ j := by rw [Nat.pow_succ]; ac_rfl
    simp only [diaSteps]
    omega

theorem run_levels (n : Nat) : ∀ (j i : Nat), i + j = n → ∀ (k : Nat) (vis : List Nat), (∀ v ∈ vis, v ≤ 3 * i) →
    ∀ (extra c : Nat),
      runWith (stepOld (diamonds n) (3 * n + 1)) (extra + 1 + diaSteps j k) { que := List.replicate k (head i), vis := vis } c
        = { answer := false, steps := c + diaSteps j k, done := true }
  | 0, i, hij, k, vis, _, extra, c => by
    have hin : i = n := by omega
    subst hin
    have b := runOld_batch (diamonds i) (3 * i + 1) (List.replicate k (head i)) [] vis (extra + 1) c
      (by intro x hx; rw [List.eq_of_mem_replicate hx]; have := head_le i; omega)
      (by
        intro x hx y hy
        rw [List.eq_of_mem_replicate hx, succs_head_last] at hy
        simp at hy)
    simp only [List.append_nil, List.nil_append, List.length_replicate] at b
    have hfm : (List.replicate k (head i)).flatMap (succs (diamonds i)) = [] := by
      apply List.flatMap_eq_nil_iff.2
      intro x hx
      rw [List.eq_of_mem_replicate hx, succs_head_last]
    rw [hfm] at b
    simp only [diaSteps]
    rw [b]
    simp [runWith, stepOld]
  | j + 1, i, hij, k, vis, hv, extra, c => by
    obtain ⟨vis', hv', hrun⟩ := run_level n i (by omega) k vis hv (extra + 1 + diaSteps j (2 * k)) c
    have ih := run_levels n j (i + 1) (by omega) (2 * k) vis' hv' extra (c + 3 * k)
    have e : extra + 1 + diaSteps (j + 1) k = extra + 1 + diaSteps j (2 * k) + 2 * k + k := by
      simp only [diaSteps]; omega
    rw [e, hrun, ih]
    simp only [diaSteps]
    congr 1
    omega

/-! ### the chain is a well-formed CFG with 3n+1 blocks -/

theorem diaTail_length : ∀ (k i : Nat), (diaTail i k).length = 3 * k
  | 0, _ => rfl
  | k + 1, i => by simp [diaTail, diaTail_length k (i + 1)]; omega

theorem diamonds_length (n : Nat) : (diamonds n).length = 3 * n + 1 := by
  unfold diamonds
  split
  · subst_vars; rfl
  · simp [diaTail_length]

theorem diaTail_bound : ∀ (k i : Nat), ∀ ss ∈ diaTail i k, ∀ x ∈ ss, x < 3 * (i + k) + 1
  | 0, _, ss, h => by simp [diaTail] at h
  | k + 1, i, ss, h => by
    intro x hx
    simp only [diaTail, List.mem_cons] at h
    rcases h with h | h | h | h
    · subst h; simp at hx; omega
    · subst h
      by_cases hk : k = 0
      · simp [hk] at hx
      · simp [hk] at hx; omega
    · subst h; simp at hx; omega
    · have := diaTail_bound k (i + 1) ss h x hx
      omega

theorem diamonds_wf (n : Nat) : wf (diamonds n) = true := by
  simp only [wf, List.all_eq_true, decide_eq_true_eq, diamonds_length]
  intro ss hss x hx
  unfold diamonds at hss
  split at hss
  · simp at hss; subst hss; simp at hx
  · rename_i hn
    simp only [List.mem_cons] at hss
    rcases hss with h | h
    · subst h; simp at hx; omega
    · have := diaTail_bound n 0 ss h x hx
      omega

end Argot.C07
