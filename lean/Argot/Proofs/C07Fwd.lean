/- Helper lemmas for C07: the worklist of `RunForwardIterative`. Core Lean only. -/
import Argot.Model.C07Fwd
import Argot.Proofs.C07Worklist

namespace Argot.C07

theorem addReach_inv (reach : Nat → Nat → Bool) (b n : Nat) :
    ∀ (nbs w : List Nat), (∀ x ∈ nbs, x < n) → w.Nodup → (∀ x ∈ w, x < n) →
      (addReach reach b nbs w).Nodup ∧ ∀ x ∈ addReach reach b nbs w, x < n
  | [], w, _, hn, hw => by simp [addReach]; exact ⟨hn, hw⟩
  | nb :: nbs, w, hs, hn, hw => by
    unfold addReach
    split
    · rename_i hc
      simp only [Bool.and_eq_true, Bool.not_eq_true', List.contains_eq_mem, decide_eq_false_iff_not] at hc
      apply addReach_inv reach b n nbs (w ++ [nb]) (fun x hx => hs x (by simp [hx]))
      · rw [List.nodup_append]
        refine ⟨hn, by simp, ?_⟩
        intro a ha c hc'
        simp at hc'
        subst hc'
        intro h; subst h; exact hc.2 ha
      · intro x hx
        simp at hx
        rcases hx with h | h
        · exact hw x h
        · subst h; exact hs x (by simp)
    · exact addReach_inv reach b n nbs w (fun x hx => hs x (by simp [hx])) hn hw

theorem length_le_of_nodup_lt (w : List Nat) (n : Nat) (hn : w.Nodup) (hw : ∀ x ∈ w, x < n) : w.length ≤ n := by
  have := length_le_of_nodup_subset w (List.range n) hn (fun x hx => List.mem_range.2 (hw x hx))
  simpa using this

theorem fwdRun_pops (n : Nat) (reach : Nat → Nat → Bool) :
    ∀ (fuel : Nat) (chg : List Bool) (w : List Nat) (c : Nat), w.Nodup → (∀ x ∈ w, x < n) →
      (fwdRun n reach fuel chg w c).1 ≤ c + w.length + n * chg.count true
  | 0, _, _, c, _, _ => by simp [fwdRun]; omega
  | fuel + 1, chg, [], c, _, _ => by simp [fwdRun]
  | fuel + 1, [], b :: w, c, hn, hw => by
    have ih := fwdRun_pops n reach fuel [] w (c + 1) (List.nodup_cons.1 hn).2 (fun x hx => hw x (by simp [hx]))
    simp only [fwdRun, List.length_cons, List.count_nil, Nat.mul_zero] at ih ⊢
    omega
  | fuel + 1, false :: rest, b :: w, c, hn, hw => by
    have ih := fwdRun_pops n reach fuel rest w (c + 1) (List.nodup_cons.1 hn).2 (fun x hx => hw x (by simp [hx]))
    simp only [fwdRun, List.length_cons] at ih ⊢
    simp
    omega
  | fuel + 1, true :: rest, b :: w, c, hn, hw => by
    have inv := addReach_inv reach b n (List.range n) w (fun x hx => List.mem_range.1 hx)
      (List.nodup_cons.1 hn).2 (fun x hx => hw x (by simp [hx]))
    have ih := fwdRun_pops n reach fuel rest (addReach reach b (List.range n) w) (c + 1) inv.1 inv.2
    have hl := length_le_of_nodup_lt _ n inv.1 inv.2
    simp only [fwdRun, List.length_cons] at ih ⊢
    simp only [List.count_cons_self, Nat.mul_add, Nat.mul_one]
    omega

theorem fwdRun_not_done (n : Nat) (reach : Nat → Nat → Bool) :
    ∀ (fuel : Nat) (chg : List Bool) (w : List Nat) (c : Nat),
      (fwdRun n reach fuel chg w c).2 = false → (fwdRun n reach fuel chg w c).1 = c + fuel
  | 0, _, _, c, _ => by simp [fwdRun]
  | fuel + 1, chg, [], c, h => by simp [fwdRun] at h
  | fuel + 1, [], b :: w, c, h => by
    simp only [fwdRun] at h ⊢
    rw [fwdRun_not_done n reach fuel [] w (c + 1) h]; omega
  | fuel + 1, false :: rest, b :: w, c, h => by
    simp only [fwdRun] at h ⊢
    rw [fwdRun_not_done n reach fuel rest w (c + 1) h]; omega
  | fuel + 1, true :: rest, b :: w, c, h => by
    simp only [fwdRun] at h ⊢
    rw [fwdRun_not_done n reach fuel rest _ (c + 1) h]; omega

end Argot.C07
