/- Helper lemmas for C07: step bounds of the two models of `lang.HasPathTo`.
   Property theorems live in Argot/Props/C07.lean. Core Lean only. -/
import Argot.Model.C07Path
import Argot.Proofs.C07Worklist

namespace Argot.C07

/-! ### generic facts -/

theorem runWith_not_done (step : PState → Outcome) :
    ∀ (fuel : Nat) (s : PState) (c : Nat),
      (runWith step fuel s c).done = false → (runWith step fuel s c).steps = c + fuel
  | 0, s, c, _ => by simp [runWith]
  | fuel + 1, s, c, h => by
    cases hs : step s with
    | found => simp [runWith, hs] at h
    | exhausted => simp [runWith, hs] at h
    | cont s' =>
      simp only [runWith, hs] at h ⊢
      rw [runWith_not_done step fuel s' (c + 1) h]; omega

theorem succs_lt (g : Cfg) (hwf : wf g = true) (b x : Nat) (hx : x ∈ succs g b) : x < g.length := by
  unfold succs at hx
  rw [List.getD_eq_getElem?_getD] at hx
  cases hb : g[b]? with
  | none => simp [hb] at hx
  | some ss =>
    simp [hb] at hx
    have hmem : ss ∈ g := List.mem_of_getElem? hb
    simp only [wf, List.all_eq_true, decide_eq_true_eq] at hwf
    exact hwf ss hmem x hx

theorem succs_length_le_maxDeg : ∀ (g : Cfg) (b : Nat), (succs g b).length ≤ maxDeg g
  | [], b => by simp [succs]
  | ss :: g, 0 => by simp [succs, maxDeg]; exact Nat.le_max_left _ _
  | ss :: g, b + 1 => by
    have := succs_length_le_maxDeg g b
    simp only [succs, List.getD_cons_succ, maxDeg, List.foldr_cons] at this ⊢
    exact Nat.le_trans this (Nat.le_max_right _ _)

/-! ### the repaired search: every block enters the queue at most once -/

theorem enqueueNew_inv (V : List Nat) :
    ∀ (nbs : List Nat) (s : PState), s.vis.Nodup → (∀ x ∈ s.vis, x ∈ V) → (∀ x ∈ nbs, x ∈ V) →
      (enqueueNew nbs s).vis.Nodup ∧ (∀ x ∈ (enqueueNew nbs s).vis, x ∈ V) ∧
      (enqueueNew nbs s).que.length + s.vis.length = s.que.length + (enqueueNew nbs s).vis.length
  | [], s, hn, hv, _ => by simp [enqueueNew]; exact ⟨hn, hv⟩
  | nb :: nbs, s, hn, hv, hs => by
    unfold enqueueNew
    split
    · exact enqueueNew_inv V nbs s hn hv (fun x hx => hs x (by simp [hx]))
    · rename_i hc
      simp only [List.contains_eq_mem, decide_eq_true_eq] at hc
      have ih := enqueueNew_inv V nbs { que := s.que ++ [nb], vis := nb :: s.vis }
        (List.nodup_cons.2 ⟨hc, hn⟩)
        (by
          intro x hx
          simp at hx
          rcases hx with h | h
          · subst h; exact hs x (by simp)
          · exact hv x h)
        (fun x hx => hs x (by simp [hx]))
      refine ⟨ih.1, ih.2.1, ?_⟩
      have := ih.2.2
      simp at this ⊢
      omega

theorem runFix_steps (g : Cfg) (tgt : Nat) (V : List Nat) (hV : ∀ b x, x ∈ succs g b → x ∈ V) :
    ∀ (fuel : Nat) (s : PState) (c : Nat), s.vis.Nodup → (∀ x ∈ s.vis, x ∈ V) →
      (runWith (stepFix g tgt) fuel s c).steps + s.vis.length ≤ c + s.que.length + V.length
  | 0, s, c, hn, hv => by
    have := length_le_of_nodup_subset s.vis V hn hv
    simp [runWith]; omega
  | fuel + 1, s, c, hn, hv => by
    have hlen := length_le_of_nodup_subset s.vis V hn hv
    cases hq : s.que with
    | nil => simp [runWith, stepFix, hq] <;> omega
    | cons cur rest =>
      by_cases hc : cur = tgt
      · simp [runWith, stepFix, hq, hc] <;> omega
      · have inv := enqueueNew_inv V (succs g cur) { que := rest, vis := s.vis } hn hv (hV cur)
        have ih := runFix_steps g tgt V hV fuel (enqueueNew (succs g cur) { que := rest, vis := s.vis }) (c + 1)
          inv.1 inv.2.1
        have hl := inv.2.2
        simp at hl
        simp [runWith, stepFix, hq, hc]
        omega

/-! ### the current search: exponential potential -/

theorem geo_pos (d u : Nat) : 1 ≤ geo d u := by cases u <;> simp [geo] <;> omega

theorem geo_mono (d : Nat) : ∀ u, geo d u ≤ geo d (u + 1)
  | 0 => by simp [geo]
  | u + 1 => by
    have ih := geo_mono d u
    have : d * geo d u ≤ d * geo d (u + 1) := Nat.mul_le_mul_left d ih
    simp only [geo] at this ⊢
    omega

/-- number of blocks not yet marked. -/
def unvis (n : Nat) (vis : List Nat) : Nat := ((List.range n).filter (fun v => !vis.contains v)).length

theorem filter_cons_mem (L vis : List Nat) (x : Nat) (hx : x ∈ vis) :
    L.filter (fun v => !(x :: vis).contains v) = L.filter (fun v => !vis.contains v) := by
  apply List.filter_congr
  intro v _
  by_cases hv : v = x
  · subst hv; simp [hx]
  · simp [hv]

theorem filter_cons_not_mem : ∀ (L vis : List Nat) (x : Nat), L.Nodup → x ∈ L → x ∉ vis →
    (L.filter (fun v => !(x :: vis).contains v)).length + 1 = (L.filter (fun v => !vis.contains v)).length
  | [], _, _, _, hx, _ => by simp at hx
  | y :: L, vis, x, hn, hx, hv => by
    have hn' := List.nodup_cons.1 hn
    by_cases hyx : y = x
    · subst hyx
      -- x is the head; it does not occur in L, so the rest of the filter is unchanged
      have hrest : L.filter (fun v => !(y :: vis).contains v) = L.filter (fun v => !vis.contains v) := by
        apply List.filter_congr
        intro v hvL
        have : v ≠ y := by intro h; subst h; exact hn'.1 hvL
        simp [this]
      have e1 : (y :: L).filter (fun v => !(y :: vis).contains v) = L.filter (fun v => !(y :: vis).contains v) :=
        List.filter_cons_of_neg (by simp)
      have e2 : (y :: L).filter (fun v => !vis.contains v) = y :: L.filter (fun v => !vis.contains v) :=
        List.filter_cons_of_pos (by simp [hv])
      rw [e1, e2, hrest]; simp
    · have hxL : x ∈ L := by
        simp at hx
        rcases hx with h | h
        · exact absurd h.symm hyx
        · exact h
      have ih := filter_cons_not_mem L vis x hn'.2 hxL hv
      by_cases hyv : y ∈ vis
      · have e1 : (y :: L).filter (fun v => !(x :: vis).contains v) = L.filter (fun v => !(x :: vis).contains v) :=
          List.filter_cons_of_neg (by simp [hyv])
        have e2 : (y :: L).filter (fun v => !vis.contains v) = L.filter (fun v => !vis.contains v) :=
          List.filter_cons_of_neg (by simp [hyv])
        rw [e1, e2]; exact ih
      · have e1 : (y :: L).filter (fun v => !(x :: vis).contains v) = y :: L.filter (fun v => !(x :: vis).contains v) :=
          List.filter_cons_of_pos (by simp [hyv, hyx])
        have e2 : (y :: L).filter (fun v => !vis.contains v) = y :: L.filter (fun v => !vis.contains v) :=
          List.filter_cons_of_pos (by simp [hyv])
        rw [e1, e2]; simp only [List.length_cons]; omega

theorem unvis_cons_mem (n : Nat) (vis : List Nat) (x : Nat) (hx : x ∈ vis) : unvis n (x :: vis) = unvis n vis := by
  unfold unvis; rw [filter_cons_mem _ _ _ hx]

theorem unvis_cons_not_mem (n : Nat) (vis : List Nat) (x : Nat) (hx : x < n) (hv : x ∉ vis) :
    unvis n (x :: vis) + 1 = unvis n vis := by
  unfold unvis
  exact filter_cons_not_mem (List.range n) vis x List.nodup_range (List.mem_range.2 hx) hv

theorem unvis_nil (n : Nat) : unvis n [] = n := by
  have : (List.range n).filter (fun v => !([] : List Nat).contains v) = List.range n :=
    List.filter_eq_self.2 (by simp)
  unfold unvis; rw [this]; simp

/-- weight of a queue entry. -/
def wgt (d n : Nat) (vis : List Nat) (x : Nat) : Nat :=
  if vis.contains x then geo d (unvis n vis + 1) else geo d (unvis n vis)

def pot (d n : Nat) (que vis : List Nat) : Nat := (que.map (wgt d n vis)).sum

theorem wgt_anti (d n : Nat) (vis : List Nat) (x : Nat) (hx : x < n) (y : Nat) :
    wgt d n (x :: vis) y ≤ wgt d n vis y := by
  by_cases hxv : x ∈ vis
  · have hu := unvis_cons_mem n vis x hxv
    by_cases hy : y ∈ vis
    · have : y ∈ x :: vis := by simp [hy]
      simp [wgt, hy, this, hu]
    · have : y ∉ x :: vis := by
        intro h; simp at h
        rcases h with h | h
        · subst h; exact hy hxv
        · exact hy h
      simp only [wgt, List.contains_eq_mem, hy, this, hu]; simp
  · have hu := unvis_cons_not_mem n vis x hx hxv
    by_cases hy : y ∈ vis
    · have h1 : y ∈ x :: vis := by simp [hy]
      simp only [wgt, List.contains_eq_mem, hy, h1, decide_true, if_true]
      rw [hu]; exact geo_mono d _
    · by_cases hyx : y = x
      · subst hyx
        have h1 : y ∈ y :: vis := by simp
        simp only [wgt, List.contains_eq_mem, hy, h1, decide_true, decide_false, if_true]
        rw [hu]; simp
      · have h1 : y ∉ x :: vis := by simp [hyx, hy]
        simp only [wgt, List.contains_eq_mem, hy, h1, decide_false]
        rw [← hu]; simp; exact geo_mono d _

theorem sum_map_mono {α} (f h : α → Nat) : ∀ (l : List α), (∀ x ∈ l, f x ≤ h x) → (l.map f).sum ≤ (l.map h).sum
  | [], _ => by simp
  | x :: l, hh => by
    have h1 := hh x (by simp)
    have h2 := sum_map_mono f h l (fun y hy => hh y (by simp [hy]))
    simp only [List.map_cons, List.sum_cons]; omega

theorem wgt_removed (d n : Nat) (vis : List Nat) (x : Nat) (hx : x < n) :
    wgt d n vis x = 1 + d * geo d (unvis n (x :: vis)) := by
  by_cases hxv : x ∈ vis
  · simp [wgt, hxv, unvis_cons_mem n vis x hxv, geo]
  · have hu := unvis_cons_not_mem n vis x hx hxv
    simp only [wgt, List.contains_eq_mem, hxv, decide_false]
    rw [← hu]; simp [geo]

theorem pot_step (g : Cfg) (n : Nat) (vis rest : List Nat) (x : Nat) (hx : x < n) :
    pot (maxDeg g) n (rest ++ (succs g x).filter (fun nb => !(x :: vis).contains nb)) (x :: vis) + 1
      ≤ pot (maxDeg g) n (x :: rest) vis := by
  have h1 : ((rest.map (wgt (maxDeg g) n (x :: vis))).sum) ≤ (rest.map (wgt (maxDeg g) n vis)).sum :=
    sum_map_mono _ _ rest (fun y _ => wgt_anti (maxDeg g) n vis x hx y)
  have h2 : ((((succs g x).filter (fun nb => !(x :: vis).contains nb)).map (wgt (maxDeg g) n (x :: vis))).sum)
      ≤ maxDeg g * geo (maxDeg g) (unvis n (x :: vis)) := by
    have hb := sum_map_le (wgt (maxDeg g) n (x :: vis)) (geo (maxDeg g) (unvis n (x :: vis)))
      ((succs g x).filter (fun nb => !(x :: vis).contains nb))
      (by
        intro y hy
        have := (List.mem_filter.1 hy).2
        simp only [Bool.not_eq_true', List.contains_eq_mem, decide_eq_false_iff_not] at this
        simp only [wgt, List.contains_eq_mem, this, decide_false]; simp)
    have hl : ((succs g x).filter (fun nb => !(x :: vis).contains nb)).length ≤ maxDeg g :=
      Nat.le_trans (List.length_filter_le _ _) (succs_length_le_maxDeg g x)
    exact Nat.le_trans hb (Nat.mul_le_mul_right _ hl)
  have h3 := wgt_removed (maxDeg g) n vis x hx
  simp only [pot, List.map_append, List.sum_append, List.map_cons, List.sum_cons]
  omega

theorem runOld_steps (g : Cfg) (hwf : wf g = true) (tgt : Nat) :
    ∀ (fuel : Nat) (s : PState) (c : Nat), (∀ x ∈ s.que, x < g.length) →
      (runWith (stepOld g tgt) fuel s c).steps ≤ c + pot (maxDeg g) g.length s.que s.vis
  | 0, s, c, _ => by simp [runWith]
  | fuel + 1, s, c, hq => by
    cases hqe : s.que with
    | nil => simp [runWith, stepOld, hqe]
    | cons cur rest =>
      have hcur : cur < g.length := hq cur (by simp [hqe])
      by_cases hc : cur = tgt
      · have := geo_pos (maxDeg g)
        simp only [runWith, stepOld, hqe, hc, if_true, pot, List.map_cons, List.sum_cons]
        have hw : 1 ≤ wgt (maxDeg g) g.length s.vis tgt := by
          unfold wgt; split <;> exact geo_pos _ _
        omega
      · have ih := runOld_steps g hwf tgt fuel
          { que := rest ++ (succs g cur).filter (fun nb => !(cur :: s.vis).contains nb), vis := cur :: s.vis } (c + 1)
          (by
            intro x hx
            simp only [List.mem_append, List.mem_filter] at hx
            rcases hx with h | h
            · exact hq x (by simp [hqe, h])
            · exact succs_lt g hwf cur x h.1)
        have hp := pot_step g g.length s.vis rest cur hcur
        dsimp only at ih
        simp only [runWith, stepOld, hqe, hc, if_false]
        omega

end Argot.C07
