/- Helper lemmas for C07: both models of `lang.HasPathTo` decide reachability in the CFG (so the repair does
   not change any answer).  Core Lean only. -/
import Argot.Model.C07Path

namespace Argot.C07

/-- control-flow reachability (paths of length ≥ 0). -/
inductive Reach (g : Cfg) (a : Nat) : Nat → Prop
  | refl : Reach g a a
  | step {b c : Nat} : Reach g a b → c ∈ succs g b → Reach g a c

/-- a set of blocks that contains `a` and is closed under successors contains everything reachable from `a`. -/
theorem reach_in_closed (g : Cfg) (a : Nat) (S : Nat → Prop) (ha : S a)
    (hcl : ∀ x, S x → ∀ y ∈ succs g x, S y) : ∀ b, Reach g a b → S b := by
  intro b h
  induction h with
  | refl => exact ha
  | step _ hc ih => exact hcl _ ih _ hc

/-! ### current code (mark on dequeue) -/

structure InvOld (g : Cfg) (src tgt : Nat) (s : PState) : Prop where
  qreach : ∀ x ∈ s.que, Reach g src x
  vis    : ∀ x ∈ s.vis, x ≠ tgt ∧ ∀ y ∈ succs g x, y ∈ s.vis ∨ y ∈ s.que
  src    : src ∈ s.vis ∨ src ∈ s.que

theorem runOld_correct (g : Cfg) (src tgt : Nat) :
    ∀ (fuel : Nat) (s : PState) (c : Nat), InvOld g src tgt s →
      (runWith (stepOld g tgt) fuel s c).done = true →
      ((runWith (stepOld g tgt) fuel s c).answer = true ↔ Reach g src tgt)
  | 0, s, c, _, hd => by simp [runWith] at hd
  | fuel + 1, s, c, inv, hd => by
    cases hq : s.que with
    | nil =>
      -- exhausted: `vis` is closed and contains src, tgt is not in it
      have hsrc : src ∈ s.vis := by
        rcases inv.src with h | h
        · exact h
        · rw [hq] at h; simp at h
      have hall := reach_in_closed g src (fun x => x ∈ s.vis) hsrc (by
        intro x hx y hy
        rcases (inv.vis x hx).2 y hy with h | h
        · exact h
        · rw [hq] at h; simp at h)
      simp only [runWith, stepOld, hq]
      constructor
      · intro h; simp at h
      · intro hr; exact absurd rfl (inv.vis tgt (hall tgt hr)).1
    | cons cur rest =>
      by_cases hc : cur = tgt
      · subst hc
        simp only [runWith, stepOld, hq, if_true]
        constructor
        · intro _; exact inv.qreach cur (by simp [hq])
        · intro _; trivial
      · have hcr : Reach g src cur := inv.qreach cur (by simp [hq])
        have inv' : InvOld g src tgt
            { que := rest ++ (succs g cur).filter (fun nb => !(cur :: s.vis).contains nb), vis := cur :: s.vis } := {
          qreach := by
            intro x hx
            simp only [List.mem_append, List.mem_filter] at hx
            rcases hx with h | h
            · exact inv.qreach x (by simp [hq, h])
            · exact Reach.step hcr h.1
          vis := by
            intro x hx
            simp only [List.mem_cons] at hx
            rcases hx with h | h
            · subst h
              refine ⟨hc, fun y hy => ?_⟩
              by_cases hm : y ∈ x :: s.vis
              · exact Or.inl hm
              · refine Or.inr ?_
                simp only [List.mem_append, List.mem_filter]
                exact Or.inr ⟨hy, by simpa using hm⟩
            · refine ⟨(inv.vis x h).1, fun y hy => ?_⟩
              rcases (inv.vis x h).2 y hy with h' | h'
              · exact Or.inl (by simp [h'])
              · rw [hq] at h'
                simp only [List.mem_cons] at h'
                rcases h' with h' | h'
                · exact Or.inl (by simp [h'])
                · exact Or.inr (by simp [h'])
          src := by
            rcases inv.src with h | h
            · exact Or.inl (by simp [h])
            · rw [hq] at h
              simp only [List.mem_cons] at h
              rcases h with h | h
              · exact Or.inl (by simp [h])
              · exact Or.inr (by simp [h]) }
        simp only [runWith, stepOld, hq, hc, if_false] at hd ⊢
        exact runOld_correct g src tgt fuel _ (c + 1) inv' hd

/-! ### repaired code (mark on enqueue) -/

theorem enqueueNew_props : ∀ (nbs : List Nat) (s : PState),
    (∀ x ∈ s.vis, x ∈ (enqueueNew nbs s).vis) ∧
    (∀ x ∈ nbs, x ∈ (enqueueNew nbs s).vis) ∧
    (∀ x ∈ (enqueueNew nbs s).que, x ∈ s.que ∨ x ∈ nbs) ∧
    (∀ x ∈ s.que, x ∈ (enqueueNew nbs s).que) ∧
    (∀ x ∈ (enqueueNew nbs s).vis, x ∈ s.vis ∨ (x ∈ nbs ∧ x ∈ (enqueueNew nbs s).que))
  | [], s => by simp [enqueueNew]
  | nb :: nbs, s => by
    unfold enqueueNew
    split
    · rename_i hc
      simp only [List.contains_eq_mem, decide_eq_true_eq] at hc
      have ih := enqueueNew_props nbs s
      refine ⟨ih.1, ?_, ?_, ih.2.2.2.1, ?_⟩
      · intro x hx
        simp only [List.mem_cons] at hx
        rcases hx with h | h
        · subst h; exact ih.1 x hc
        · exact ih.2.1 x h
      · intro x hx
        rcases ih.2.2.1 x hx with h | h
        · exact Or.inl h
        · exact Or.inr (by simp [h])
      · intro x hx
        rcases ih.2.2.2.2 x hx with h | h
        · exact Or.inl h
        · exact Or.inr ⟨by simp [h.1], h.2⟩
    · have ih := enqueueNew_props nbs { que := s.que ++ [nb], vis := nb :: s.vis }
      refine ⟨fun x hx => ih.1 x (by simp [hx]), ?_, ?_, fun x hx => ih.2.2.2.1 x (by simp [hx]), ?_⟩
      · intro x hx
        simp only [List.mem_cons] at hx
        rcases hx with h | h
        · subst h; exact ih.1 x (by simp)
        · exact ih.2.1 x h
      · intro x hx
        rcases ih.2.2.1 x hx with h | h
        · simp only [List.mem_append, List.mem_singleton] at h
          rcases h with h | h
          · exact Or.inl h
          · exact Or.inr (by simp [h])
        · exact Or.inr (by simp [h])
      · intro x hx
        rcases ih.2.2.2.2 x hx with h | h
        · simp only [List.mem_cons] at h
          rcases h with h | h
          · subst h
            exact Or.inr ⟨by simp, ih.2.2.2.1 x (by simp)⟩
          · exact Or.inl h
        · exact Or.inr ⟨by simp [h.1], h.2⟩

structure InvFix (g : Cfg) (src tgt : Nat) (s : PState) : Prop where
  qreach : ∀ x ∈ s.que, Reach g src x
  vis    : ∀ x ∈ s.vis, x ∈ s.que ∨ (x ≠ tgt ∧ ∀ y ∈ succs g x, y ∈ s.vis)
  src    : src ∈ s.vis

theorem runFix_correct (g : Cfg) (src tgt : Nat) :
    ∀ (fuel : Nat) (s : PState) (c : Nat), InvFix g src tgt s →
      (runWith (stepFix g tgt) fuel s c).done = true →
      ((runWith (stepFix g tgt) fuel s c).answer = true ↔ Reach g src tgt)
  | 0, s, c, _, hd => by simp [runWith] at hd
  | fuel + 1, s, c, inv, hd => by
    cases hq : s.que with
    | nil =>
      have hproc : ∀ x ∈ s.vis, x ≠ tgt ∧ ∀ y ∈ succs g x, y ∈ s.vis := by
        intro x hx
        rcases inv.vis x hx with h | h
        · rw [hq] at h; simp at h
        · exact h
      have hall := reach_in_closed g src (fun x => x ∈ s.vis) inv.src (fun x hx y hy => (hproc x hx).2 y hy)
      simp only [runWith, stepFix, hq]
      constructor
      · intro h; simp at h
      · intro hr; exact absurd rfl (hproc tgt (hall tgt hr)).1
    | cons cur rest =>
      by_cases hc : cur = tgt
      · subst hc
        simp only [runWith, stepFix, hq, if_true]
        constructor
        · intro _; exact inv.qreach cur (by simp [hq])
        · intro _; trivial
      · have hcr : Reach g src cur := inv.qreach cur (by simp [hq])
        have P := enqueueNew_props (succs g cur) { que := rest, vis := s.vis }
        have inv' : InvFix g src tgt (enqueueNew (succs g cur) { que := rest, vis := s.vis }) := {
          qreach := by
            intro x hx
            rcases P.2.2.1 x hx with h | h
            · exact inv.qreach x (by simp [hq, h])
            · exact Reach.step hcr h
          vis := by
            intro x hx
            rcases P.2.2.2.2 x hx with h | h
            · rcases inv.vis x h with h' | h'
              · rw [hq] at h'
                simp only [List.mem_cons] at h'
                rcases h' with h' | h'
                · subst h'
                  exact Or.inr ⟨hc, fun y hy => P.2.1 y hy⟩
                · exact Or.inl (P.2.2.2.1 x h')
              · exact Or.inr ⟨h'.1, fun y hy => P.1 y (h'.2 y hy)⟩
            · exact Or.inl h.2
          src := P.1 src inv.src }
        simp only [runWith, stepFix, hq, hc, if_false] at hd ⊢
        exact runFix_correct g src tgt fuel _ (c + 1) inv' hd

end Argot.C07
