/- Helper lemmas for C07: the finite key space of the visitors (node × repetition-free call trace ×
   repetition-free closure trace × extra) and of `GetAllCallingContexts`.  Core Lean only. -/
import Argot.Proofs.C07Worklist

namespace Argot.C07

theorem length_flatMap_le {α γ} (f : α → List γ) (m : Nat) :
    ∀ (l : List α), (∀ x ∈ l, (f x).length ≤ m) → (l.flatMap f).length ≤ l.length * m
  | [], _ => by simp
  | x :: l, h => by
    have h1 := h x (by simp)
    have h2 := length_flatMap_le f m l (fun y hy => h y (by simp [hy]))
    simp only [List.flatMap_cons, List.length_append, List.length_cons]
    rw [Nat.add_mul]; omega

/-- every key the visitors can ever insert into `seen` (escape analysis off). -/
def keyUniverse {ν β χ} [DecidableEq β] (N : List ν) (L : List β) (E : List χ) : List (VKey ν β χ) :=
  N.flatMap fun a => (nodupLists L).flatMap fun t => (nodupLists L).flatMap fun c =>
    E.map fun x => { node := a, trace := t, ctrace := c, extra := x }

theorem length_keyUniverse_le {ν β χ} [DecidableEq β] (N : List ν) (L : List β) (E : List χ) :
    (keyUniverse (ν := ν) N L E).length ≤ N.length * (numNodup L.length * (numNodup L.length * E.length)) := by
  unfold keyUniverse
  apply length_flatMap_le
  intro a _
  have h1 := length_nodupLists_le L
  refine Nat.le_trans (length_flatMap_le _ (numNodup L.length * E.length) _ ?_) (Nat.mul_le_mul_right _ h1)
  intro t _
  refine Nat.le_trans (length_flatMap_le _ E.length _ ?_) (Nat.mul_le_mul_right _ h1)
  intro c _
  simp

/-- what the visitors maintain for every queued element. -/
structure GoodKey {ν β χ} (N : List ν) (L : List β) (E : List χ) (k : VKey ν β χ) : Prop where
  node   : k.node ∈ N
  extra  : k.extra ∈ E
  tnd    : k.trace.Nodup
  cnd    : k.ctrace.Nodup
  tsub   : ∀ x ∈ k.trace, x ∈ L
  csub   : ∀ x ∈ k.ctrace, x ∈ L

theorem mem_keyUniverse {ν β χ} [DecidableEq β] (N : List ν) (L : List β) (E : List χ) (k : VKey ν β χ)
    (h : GoodKey N L E k) : k ∈ keyUniverse N L E := by
  unfold keyUniverse
  simp only [List.mem_flatMap, List.mem_map]
  exact ⟨k.node, h.node, k.trace, mem_nodupLists L _ h.tnd h.tsub, k.ctrace, mem_nodupLists L _ h.cnd h.csub,
    k.extra, h.extra, rfl⟩

/-- shape of the successors the visitors generate (read off the code: `Trace`/`ClosureTrace` of a successor are
`cur.Trace`, `cur.Trace.Parent` or `cur.Trace.Add(x)`; nodes, labels and extras come from the finite graph). -/
structure StepShape {ν β χ} [DecidableEq β] (N : List ν) (L : List β) (E : List χ) (cur next : VKey ν β χ) : Prop where
  node   : next.node ∈ N
  extra  : next.extra ∈ E
  tstep  : traceStep cur.trace next.trace = true
  cstep  : traceStep cur.ctrace next.ctrace = true
  tnew   : ∀ x, next.trace.head? = some x → x ∈ L
  cnew   : ∀ x, next.ctrace.head? = some x → x ∈ L

theorem good_of_step {ν β χ} [DecidableEq β] (N : List ν) (L : List β) (E : List χ) (extraOk : VKey ν β χ → Bool)
    (cur next : VKey ν β χ) (hg : GoodKey N L E cur) (hs : StepShape N L E cur next)
    (ha : vAccept extraOk cur next = true) : GoodKey N L E next := by
  simp only [vAccept, Bool.and_eq_true, Bool.not_eq_true'] at ha
  exact {
    node := hs.node, extra := hs.extra,
    tnd := nodup_of_traceStep _ _ hg.tnd hs.tstep ha.1.2,
    cnd := nodup_of_traceStep _ _ hg.cnd hs.cstep ha.2,
    tsub := subset_of_traceStep L _ _ hg.tsub hs.tstep hs.tnew,
    csub := subset_of_traceStep L _ _ hg.csub hs.cstep hs.cnew }

/-! ### calling contexts -/

theorem ctxSucc_good {β} [DecidableEq β] (callers : β → List β) (isEntry : β → Bool) (limit : Nat) (L : List β)
    (hclosed : ∀ x ∈ L, ∀ c ∈ callers x, c ∈ L) (cur e : Trace β)
    (hcur : cur.Nodup ∧ ∀ x ∈ cur, x ∈ L) (he : e ∈ ctxSucc callers isEntry limit cur) :
    e.Nodup ∧ ∀ x ∈ e, x ∈ L := by
  unfold ctxSucc at he
  cases cur with
  | nil => simp at he
  | cons top rest =>
    simp only at he
    split at he
    · simp at he
    · split at he
      · simp at he
      · simp only [List.mem_map, List.mem_filter] at he
        obtain ⟨c, ⟨hc, hnot⟩, rfl⟩ := he
        simp only [Bool.not_eq_true', List.contains_eq_mem, decide_eq_false_iff_not] at hnot
        have htop : top ∈ L := hcur.2 top (by simp)
        constructor
        · exact List.nodup_cons.2 ⟨hnot, hcur.1⟩
        · intro x hx
          simp only [List.mem_cons] at hx
          rcases hx with h | h
          · subst h; exact hclosed top htop x hc
          · exact hcur.2 x (by simpa using h)

end Argot.C07
