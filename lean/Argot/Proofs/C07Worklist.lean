/- Helper lemmas for C07: worklists with a `seen` set over a finite key space; repetition-free lists.
   Property theorems live in Argot/Props/C07.lean. Core Lean only. -/
import Argot.Model.C07Visit

namespace Argot.C07

/-! ### counting -/

theorem length_le_of_nodup_subset {α} [DecidableEq α] :
    ∀ (l U : List α), l.Nodup → (∀ x ∈ l, x ∈ U) → l.length ≤ U.length
  | [], _, _, _ => by simp
  | x :: l, U, hn, hs => by
    have hx : x ∈ U := hs x (by simp)
    have hn' := List.nodup_cons.1 hn
    have := length_le_of_nodup_subset l (U.erase x) hn'.2 (by
      intro y hy
      have hne : y ≠ x := by intro h; subst h; exact hn'.1 hy
      exact (List.mem_erase_of_ne hne).2 (hs y (by simp [hy])))
    rw [List.length_erase_of_mem hx] at this
    have : 0 < U.length := List.length_pos_of_mem hx
    simp; omega

theorem sum_map_le {α} (f : α → Nat) (B : Nat) :
    ∀ (l : List α), (∀ x ∈ l, f x ≤ B) → (l.map f).sum ≤ l.length * B
  | [], _ => by simp
  | x :: l, h => by
    have h1 := h x (by simp)
    have h2 := sum_map_le f B l (fun y hy => h y (by simp [hy]))
    simp only [List.map_cons, List.sum_cons, List.length_cons]
    rw [Nat.add_mul]; omega

/-- all repetition-free lists of length ≤ `n` over `L` (as a list). -/
def nodupListsN {α} [DecidableEq α] : Nat → List α → List (List α)
  | 0, _ => [[]]
  | n + 1, L => [] :: L.flatMap (fun x => (nodupListsN n (L.erase x)).map (x :: ·))

def nodupLists {α} [DecidableEq α] (L : List α) : List (List α) := nodupListsN L.length L

theorem mem_nodupListsN {α} [DecidableEq α] :
    ∀ (n : Nat) (L t : List α), t.Nodup → (∀ x ∈ t, x ∈ L) → t.length ≤ n → t ∈ nodupListsN n L
  | 0, L, t, _, _, hl => by
    have : t = [] := List.eq_nil_of_length_eq_zero (by omega)
    subst this; simp [nodupListsN]
  | n + 1, L, [], _, _, _ => by simp [nodupListsN]
  | n + 1, L, x :: t, hn, hs, hl => by
    have hn' := List.nodup_cons.1 hn
    have hx : x ∈ L := hs x (by simp)
    have ht : t ∈ nodupListsN n (L.erase x) := by
      apply mem_nodupListsN n (L.erase x) t hn'.2
      · intro y hy
        have hne : y ≠ x := by intro h; subst h; exact hn'.1 hy
        exact (List.mem_erase_of_ne hne).2 (hs y (by simp [hy]))
      · simp at hl; omega
    simp only [nodupListsN, List.mem_cons, List.mem_flatMap, List.mem_map]
    exact Or.inr ⟨x, hx, t, ht, rfl⟩

theorem length_nodupListsN_le {α} [DecidableEq α] :
    ∀ (n : Nat) (L : List α), L.length ≤ n → (nodupListsN n L).length ≤ numNodup n
  | 0, _, _ => by simp [nodupListsN, numNodup]
  | n + 1, L, hl => by
    simp only [nodupListsN, List.length_cons, List.length_flatMap, List.length_map, numNodup]
    have hb : ∀ x ∈ L, (nodupListsN n (L.erase x)).length ≤ numNodup n := by
      intro x hx
      apply length_nodupListsN_le n
      rw [List.length_erase_of_mem hx]; omega
    have := sum_map_le (fun x => (nodupListsN n (L.erase x)).length) (numNodup n) L hb
    have h2 : L.length * numNodup n ≤ (n + 1) * numNodup n := Nat.mul_le_mul_right _ hl
    omega

theorem mem_nodupLists {α} [DecidableEq α] (L t : List α) (hn : t.Nodup) (hs : ∀ x ∈ t, x ∈ L) :
    t ∈ nodupLists L :=
  mem_nodupListsN L.length L t hn hs (length_le_of_nodup_subset t L hn hs)

theorem length_nodupLists_le {α} [DecidableEq α] (L : List α) :
    (nodupLists L).length ≤ numNodup L.length :=
  length_nodupListsN_le L.length L (Nat.le_refl _)

/-! ### the worklist -/

section WL
variable {ε κ : Type} [DecidableEq κ]

theorem pushAll_inv (key : ε → κ) (accept : ε → ε → Bool) (lifo : Bool) (cur : ε)
    (Q : ε → Prop) (U : List κ) (hQU : ∀ e, Q e → key e ∈ U) :
    ∀ (es : List ε) (s : WL ε κ), (∀ e ∈ es, accept cur e = true → Q e) → (∀ e ∈ s.queue, Q e) →
      s.seen.Nodup → (∀ k ∈ s.seen, k ∈ U) →
      (∀ e ∈ (pushAll key accept lifo cur es s).queue, Q e) ∧
      (pushAll key accept lifo cur es s).seen.Nodup ∧
      (∀ k ∈ (pushAll key accept lifo cur es s).seen, k ∈ U) ∧
      (pushAll key accept lifo cur es s).queue.length + s.seen.length
        = s.queue.length + (pushAll key accept lifo cur es s).seen.length
  | [], s, _, hq, hn, hu => by simp [pushAll]; exact ⟨hq, hn, hu⟩
  | e :: es, s, hes, hq, hn, hu => by
    unfold pushAll
    split
    · rename_i hc
      simp only [Bool.and_eq_true, Bool.not_eq_true', List.contains_eq_mem, decide_eq_false_iff_not] at hc
      have hQe : Q e := hes e (by simp) hc.2
      have ih := pushAll_inv key accept lifo cur Q U hQU es
        { queue := if lifo then e :: s.queue else s.queue ++ [e], seen := key e :: s.seen }
        (fun e' he' => hes e' (by simp [he']))
        (by
          intro e' he'
          cases lifo <;> simp at he'
          · rcases he' with h | h
            · exact hq e' h
            · subst h; exact hQe
          · rcases he' with h | h
            · subst h; exact hQe
            · exact hq e' h)
        (List.nodup_cons.2 ⟨hc.1, hn⟩)
        (by
          intro k hk
          simp at hk
          rcases hk with h | h
          · subst h; exact hQU e hQe
          · exact hu k h)
      refine ⟨ih.1, ih.2.1, ih.2.2.1, ?_⟩
      have := ih.2.2.2
      cases lifo <;> simp at this ⊢ <;> omega
    · exact pushAll_inv key accept lifo cur Q U hQU es s (fun e' he' => hes e' (by simp [he'])) hq hn hu

/-- pops ≤ (elements initially queued) + (keys that can still be inserted). -/
theorem wlRun_pops_le (key : ε → κ) (succ : ε → List ε) (accept : ε → ε → Bool) (lifo : Bool)
    (P : ε → Prop) (U : List κ)
    (hstep : ∀ cur e, P cur → e ∈ succ cur → accept cur e = true → P e)
    (hU : ∀ e, P e → key e ∈ U) :
    ∀ (fuel : Nat) (s : WL ε κ) (n : Nat), (∀ e ∈ s.queue, P e) → s.seen.Nodup → (∀ k ∈ s.seen, k ∈ U) →
      (wlRun key succ accept lifo fuel s n).pops + s.seen.length ≤ n + s.queue.length + U.length
  | 0, s, n, _, hn, hu => by
    have := length_le_of_nodup_subset s.seen U hn hu
    simp [wlRun]; omega
  | fuel + 1, s, n, hq, hn, hu => by
    unfold wlRun
    split
    · have := length_le_of_nodup_subset s.seen U hn hu
      simp; omega
    · rename_i cur rest hqe
      have hPcur : P cur := hq cur (by simp [hqe])
      have inv := pushAll_inv key accept lifo cur P U hU (succ cur) { queue := rest, seen := s.seen }
        (fun e he ha => hstep cur e hPcur he ha)
        (fun e he => hq e (by simp [hqe, he])) hn hu
      have ih := wlRun_pops_le key succ accept lifo P U hstep hU fuel
        (pushAll key accept lifo cur (succ cur) { queue := rest, seen := s.seen }) (n + 1)
        inv.1 inv.2.1 inv.2.2.1
      have hl := inv.2.2.2
      simp at hl
      simp [hqe]
      omega

theorem wlRun_not_done (key : ε → κ) (succ : ε → List ε) (accept : ε → ε → Bool) (lifo : Bool) :
    ∀ (fuel : Nat) (s : WL ε κ) (n : Nat),
      (wlRun key succ accept lifo fuel s n).done = false → (wlRun key succ accept lifo fuel s n).pops = n + fuel
  | 0, s, n, _ => by simp [wlRun]
  | fuel + 1, s, n, h => by
    cases hqe : s.queue with
    | nil => simp [wlRun, hqe] at h
    | cons cur rest =>
      simp only [wlRun, hqe] at h ⊢
      have := wlRun_not_done key succ accept lifo fuel _ (n + 1) h
      rw [this]; omega

theorem pushAll_seen_inv (key : ε → κ) (accept : ε → ε → Bool) (lifo : Bool) (cur : ε)
    (Q : ε → Prop) (S : κ → Prop) (hQS : ∀ e, Q e → S (key e)) :
    ∀ (es : List ε) (s : WL ε κ), (∀ e ∈ es, accept cur e = true → Q e) → (∀ e ∈ s.queue, Q e) →
      (∀ k ∈ s.seen, S k) →
      (∀ e ∈ (pushAll key accept lifo cur es s).queue, Q e) ∧ (∀ k ∈ (pushAll key accept lifo cur es s).seen, S k)
  | [], s, _, hq, hs => by simp [pushAll]; exact ⟨hq, hs⟩
  | e :: es, s, hes, hq, hs => by
    unfold pushAll
    split
    · rename_i hc
      simp only [Bool.and_eq_true] at hc
      have hQe : Q e := hes e (by simp) hc.2
      exact pushAll_seen_inv key accept lifo cur Q S hQS es _
        (fun e' he' => hes e' (by simp [he']))
        (by
          intro e' he'
          cases lifo <;> simp at he'
          · rcases he' with h | h
            · exact hq e' h
            · subst h; exact hQe
          · rcases he' with h | h
            · subst h; exact hQe
            · exact hq e' h)
        (by
          intro k hk
          simp at hk
          rcases hk with h | h
          · subst h; exact hQS e hQe
          · exact hs k h)
    · exact pushAll_seen_inv key accept lifo cur Q S hQS es s (fun e' he' => hes e' (by simp [he'])) hq hs

/-- every key ever inserted into `seen` satisfies `S` when the queued elements satisfy `P` and `P e → S (key e)`. -/
theorem wlRun_seen_inv (key : ε → κ) (succ : ε → List ε) (accept : ε → ε → Bool) (lifo : Bool)
    (P : ε → Prop) (S : κ → Prop)
    (hstep : ∀ cur e, P cur → e ∈ succ cur → accept cur e = true → P e)
    (hPS : ∀ e, P e → S (key e)) :
    ∀ (fuel : Nat) (s : WL ε κ) (n : Nat), (∀ e ∈ s.queue, P e) → (∀ k ∈ s.seen, S k) →
      ∀ k ∈ (wlRun key succ accept lifo fuel s n).final.seen, S k
  | 0, s, n, _, hs => by simpa [wlRun] using hs
  | fuel + 1, s, n, hq, hs => by
    cases hqe : s.queue with
    | nil => simpa [wlRun, hqe] using hs
    | cons cur rest =>
      have hPcur : P cur := hq cur (by simp [hqe])
      have inv := pushAll_seen_inv key accept lifo cur P S hPS (succ cur) { queue := rest, seen := s.seen }
        (fun e he ha => hstep cur e hPcur he ha)
        (fun e he => hq e (by simp [hqe, he])) hs
      have ih := wlRun_seen_inv key succ accept lifo P S hstep hPS fuel
        (pushAll key accept lifo cur (succ cur) { queue := rest, seen := s.seen }) (n + 1) inv.1 inv.2
      simpa [wlRun, hqe] using ih

end WL

/-! ### traces -/

theorem isAncestor_sublist {β} [DecidableEq β] (t' : Trace β) :
    ∀ (t : Trace β), isAncestor t' t = true → (t'.Nodup ∨ True) ∧ (t.Nodup → t'.Nodup) ∧ (∀ x ∈ t', x ∈ t)
  | [], h => by
    simp only [isAncestor, beq_iff_eq] at h
    subst h; simp
  | y :: r, h => by
    simp only [isAncestor, Bool.or_eq_true, beq_iff_eq] at h
    rcases h with h | h
    · subst h; simp
    · have ih := isAncestor_sublist t' r h
      refine ⟨Or.inr trivial, fun hn => ih.2.1 (List.nodup_cons.1 hn).2, fun x hx => ?_⟩
      simp [ih.2.2 x hx]

theorem nodup_of_traceStep {β} [DecidableEq β] (t t' : Trace β) (hn : t.Nodup)
    (hs : traceStep t t' = true) (hl : lasso t' = false) : t'.Nodup := by
  simp only [traceStep, Bool.or_eq_true] at hs
  rcases hs with h | h
  · exact (isAncestor_sublist t' t h).2.1 hn
  · cases t' with
    | nil => simp
    | cons x r =>
      simp only [beq_iff_eq] at h
      subst h
      simp only [lasso, List.contains_eq_mem, decide_eq_false_iff_not] at hl
      exact List.nodup_cons.2 ⟨hl, hn⟩

theorem subset_of_traceStep {β} [DecidableEq β] (L : List β) (t t' : Trace β) (hsub : ∀ x ∈ t, x ∈ L)
    (hs : traceStep t t' = true) (hnew : ∀ x, t'.head? = some x → x ∈ L) : ∀ x ∈ t', x ∈ L := by
  simp only [traceStep, Bool.or_eq_true] at hs
  rcases hs with h | h
  · intro x hx
    exact hsub x ((isAncestor_sublist t' t h).2.2 x hx)
  · cases t' with
    | nil => simp
    | cons y r =>
      simp only [beq_iff_eq] at h
      subst h
      intro x hx
      simp at hx
      rcases hx with h | h
      · subst h; exact hnew x (by simp)
      · exact hsub x h

end Argot.C07
