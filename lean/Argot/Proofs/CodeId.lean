/- Helper lemmas for C04: the conjunction of `equalOnNonEmptyFields` as a boolean, the parser on "" -/
import Argot.Spec.CodeId

namespace Argot.CodeId
open Argot.Regex

theorem parse_nil : parse [] = .ok .eps := by
  simp [parse, pAlt, pCat]
  rfl

theorem parse_empty_string : parse ("" : String).toList = .ok .eps := by
  simpa using parse_nil

/-- boolean value of one conjunct when its pattern compiles -/
def conjB (spec cid : CodeId) (t : Fld × Fld × Fld) : Bool :=
  match parse (spec.get t.1).toList with
  | .ok re => search re (cid.get t.2.1).toList || (spec.get t.2.2 == "")
  | .error _ => false

def compiles (spec : CodeId) (f : Fld) : Prop := ∃ re, parse (spec.get f).toList = .ok re

theorem conjunct_of_compiles {spec cid : CodeId} {t : Fld × Fld × Fld} (h : compiles spec t.1) :
    conjunct spec cid t = .val (conjB spec cid t) := by
  obtain ⟨re, hre⟩ := h
  simp [conjunct, conjunctR, compile, conjB, hre]

theorem evalConj_val (spec cid : CodeId) (ts : List (Fld × Fld × Fld))
    (h : ∀ t ∈ ts, compiles spec t.1) :
    evalConj spec cid ts = .val (ts.all (conjB spec cid) && (spec.kind == cid.kind)) := by
  induction ts with
  | nil => simp [evalConj, evalConjR]
  | cons t ts ih =>
    have ht := conjunct_of_compiles (cid := cid) (h t (by simp))
    have ih' := ih (fun t' ht' => h t' (by simp [ht']))
    simp only [evalConj, conjunct] at ht ih' ⊢
    simp only [evalConjR, ht, List.all_cons]
    cases hb : conjB spec cid t with
    | true => simp [ih']
    | false => simp

theorem specOk_compiles {spec : CodeId} (h : specOk spec = true) :
    ∀ f ∈ compiledFields, compiles spec f := by
  intro f hf
  simp only [specOk, List.all_eq_true] at h
  have := h f hf
  unfold compiles
  split at this
  · exact ⟨_, by assumption⟩
  · cases this

theorem conjTable_regex_compiled : ∀ t ∈ conjTable, t.1 ∈ compiledFields := by decide

theorem matchesO_of_specOk {spec : CodeId} (cid : CodeId) (h : specOk spec = true) :
    matchesO spec cid = .val (conjTable.all (conjB spec cid) && (spec.kind == cid.kind)) :=
  evalConj_val spec cid conjTable
    (fun t ht => specOk_compiles h t.1 (conjTable_regex_compiled t ht))

/-- a conjunct on its own field, in the declarative reading -/
theorem conjB_same_iff {spec cid : CodeId} {f : Fld} (h : compiles spec f) :
    conjB spec cid (f, f, f) = true ↔ FieldOk spec cid f := by
  obtain ⟨re, hre⟩ := h
  simp only [conjB, hre, Bool.or_eq_true, beq_iff_eq, FieldOk, search_iff]
  constructor
  · rintro (h | h)
    · exact .inr ⟨re, rfl, h⟩
    · exact .inl h
  · rintro (h | ⟨re', h1, h2⟩)
    · exact .inr h
    · cases h1; exact .inl h2

end Argot.CodeId
