/- Helper lemmas for C10: the FIFO visitor loop processes the queue level by level; the levels of a
one-call program are computed symbolically for every arity and every specification. -/
import Argot.Model.Contract
import Argot.Proofs.Summ

namespace Argot.Contract
open Argot.Summ Argot.SGraph

abbrev Key := VN × Bool

/-! ### generic facts about `enqueueAll` and `bfs` -/

theorem enq_nil (seen : List Key) : enqueueAll [] seen = ([], seen) := by simp [enqueueAll]

theorem enq_cons_seen (y : VS) (ys : List VS) (seen : List Key) (h : y.key ∈ seen) :
    enqueueAll (y :: ys) seen = enqueueAll ys seen := by simp [enqueueAll, h]

theorem enq_cons_new (y : VS) (ys : List VS) (seen : List Key) (h : y.key ∉ seen) :
    enqueueAll (y :: ys) seen =
      (y :: (enqueueAll ys (seen ++ [y.key])).1, (enqueueAll ys (seen ++ [y.key])).2) := by simp [enqueueAll, h]

theorem enq_seen (l : List VS) (seen : List Key) (k : Key) :
    k ∈ (enqueueAll l seen).2 ↔ k ∈ seen ∨ ∃ x ∈ l, x.key = k := by
  induction l generalizing seen with
  | nil => simp [enq_nil]
  | cons y ys ih =>
    by_cases hy : y.key ∈ seen
    · rw [enq_cons_seen _ _ _ hy, ih]
      simp only [List.mem_cons, exists_eq_or_imp]
      constructor
      · rintro (h | h)
        · exact Or.inl h
        · exact Or.inr (Or.inr h)
      · rintro (h | h | h)
        · exact Or.inl h
        · exact Or.inl (h ▸ hy)
        · exact Or.inr h
    · rw [enq_cons_new _ _ _ hy]
      simp only [ih, List.mem_append, List.mem_cons, List.not_mem_nil, or_false, exists_eq_or_imp]
      constructor
      · rintro ((h | h) | h)
        · exact Or.inl h
        · exact Or.inr (Or.inl h.symm)
        · exact Or.inr (Or.inr h)
      · rintro (h | h | h)
        · exact Or.inl (Or.inl h)
        · exact Or.inl (Or.inr h.symm)
        · exact Or.inr h

/-- when candidates with equal keys are equal, the enqueued ones are exactly the candidates whose key is new. -/
theorem enq_mem (l : List VS) (seen : List Key) (hfun : ∀ a ∈ l, ∀ b ∈ l, a.key = b.key → a = b) (x : VS) :
    x ∈ (enqueueAll l seen).1 ↔ x ∈ l ∧ x.key ∉ seen := by
  induction l generalizing seen with
  | nil => simp [enq_nil]
  | cons y ys ih =>
    have hfun' : ∀ a ∈ ys, ∀ b ∈ ys, a.key = b.key → a = b :=
      fun a ha b hb => hfun a (List.mem_cons_of_mem _ ha) b (List.mem_cons_of_mem _ hb)
    by_cases hy : y.key ∈ seen
    · rw [enq_cons_seen _ _ _ hy, ih seen hfun']
      simp only [List.mem_cons]
      constructor
      · rintro ⟨h1, h2⟩; exact ⟨Or.inr h1, h2⟩
      · rintro ⟨h1 | h1, h2⟩
        · exact absurd (h1 ▸ hy) h2
        · exact ⟨h1, h2⟩
    · rw [enq_cons_new _ _ _ hy]
      simp only [List.mem_cons, ih _ hfun', List.mem_append, List.not_mem_nil, or_false, not_or]
      constructor
      · rintro (h | ⟨h1, h2, _⟩)
        · exact ⟨Or.inl h, h ▸ hy⟩
        · exact ⟨Or.inr h1, h2⟩
      · rintro ⟨h1 | h1, h2⟩
        · exact Or.inl h1
        · by_cases hk : x.key = y.key
          · exact Or.inl (hfun x (List.mem_cons_of_mem _ h1) y List.mem_cons_self hk)
          · exact Or.inr ⟨h1, h2, hk⟩

theorem enq_append (l1 l2 : List VS) (seen : List Key) :
    enqueueAll (l1 ++ l2) seen =
      ((enqueueAll l1 seen).1 ++ (enqueueAll l2 (enqueueAll l1 seen).2).1, (enqueueAll l2 (enqueueAll l1 seen).2).2) := by
  induction l1 generalizing seen with
  | nil => simp [enq_nil]
  | cons y ys ih =>
    simp only [List.cons_append]
    by_cases hy : y.key ∈ seen
    · rw [enq_cons_seen _ _ _ hy, enq_cons_seen _ _ _ hy]; exact ih seen
    · rw [enq_cons_new _ _ _ hy, enq_cons_new _ _ _ hy, ih]; simp

/-- what `Visit` does with a dequeued node: sinks are recorded, not expanded. -/
def expand (p : OneCall) (x : VS) : List VS := if isSinkNode x.node then [] else succ p x

theorem bfs_step (p : OneCall) (f : Nat) (x : VS) (q : List VS) (seen : List Key) (acc : List VS) :
    bfs p (f + 1) (x :: q) seen acc =
      bfs p f (q ++ (enqueueAll (expand p x) seen).1) (enqueueAll (expand p x) seen).2 (acc ++ [x]) := by
  by_cases hs : isSinkNode x.node = true
  · simp [bfs, expand, hs, enqueueAll]
  · simp [bfs, expand, hs]

/-- a block of the queue is processed as a whole: its successors are appended in order. -/
theorem bfs_block (p : OneCall) (b : List VS) (f : Nat) (q : List VS) (seen : List Key) (acc : List VS) :
    bfs p (f + b.length) (b ++ q) seen acc =
      bfs p f (q ++ (enqueueAll (b.flatMap (expand p)) seen).1) (enqueueAll (b.flatMap (expand p)) seen).2 (acc ++ b) := by
  induction b generalizing q seen acc with
  | nil => simp [enqueueAll]
  | cons x xs ih =>
    have : f + (x :: xs).length = (f + xs.length) + 1 := by simp; omega
    rw [this, List.cons_append, bfs_step, List.append_assoc, ih, List.flatMap_cons, enq_append]
    simp [List.append_assoc]

/-- one BFS level: all successors of the current level, filtered by `seen`. -/
def level (p : OneCall) (s : List VS × List Key) : List VS × List Key :=
  enqueueAll (s.1.flatMap (expand p)) s.2

theorem bfs_level (p : OneCall) (f : Nat) (Q : List VS) (seen : List Key) (acc : List VS) :
    bfs p (f + Q.length) Q seen acc = bfs p f (level p (Q, seen)).1 (level p (Q, seen)).2 (acc ++ Q) := by
  have := bfs_block p Q f [] seen acc
  simpa [level] using this

theorem bfs_nil (p : OneCall) (f : Nat) (seen : List Key) (acc : List VS) :
    bfs p f [] seen acc = { visited := acc, converged := true } := by
  cases f <;> simp [bfs]

/-- once converged, more fuel changes nothing. -/
theorem bfs_fuel_mono (p : OneCall) (f : Nat) (q : List VS) (seen : List Key) (acc : List VS)
    (h : (bfs p f q seen acc).converged = true) (g : Nat) : bfs p (f + g) q seen acc = bfs p f q seen acc := by
  induction f generalizing q seen acc with
  | zero =>
    cases q with
    | nil => simp [bfs_nil]
    | cons x q => simp [bfs] at h
  | succ f ih =>
    cases q with
    | nil => simp [bfs_nil]
    | cons x q =>
      have e : f + 1 + g = (f + g) + 1 := by omega
      rw [e, bfs_step, bfs_step]
      rw [bfs_step] at h
      exact ih _ _ _ h

/-! ### the levels of a one-call program -/

section levels
variable (p : OneCall)

def s0 : VS := ⟨.src, false, .none⟩
def a1 : VS := ⟨.carg p.i, false, .caller⟩
def b1 : VS := ⟨.cparam p.i, true, .callerArg⟩

def toVS (e : PNode × PNode × Idx) : VS :=
  match e.2.1 with
  | .param k' => ⟨.cparam k', true, .callee⟩
  | .ret j => ⟨.cret j, true, .callee⟩

/-- the callee's out edges of the tainted parameter, as visitor nodes. -/
def outs : List VS := (p.callee.out.filter (fun e => e.1 = PNode.param p.i)).map toVS

def seen2 : List Key := [(.carg p.i, false), (.cparam p.i, true)]

def L3 : List VS × List Key := enqueueAll (outs p ++ [⟨.carg p.i, false, .callee⟩]) (seen2 p)
def L4 : List VS × List Key := level p (L3 p)
def L5 : List VS × List Key := level p (L4 p)

theorem level0 : level p ([s0], []) = ([a1 p], [(.carg p.i, false)]) := by
  simp [level, expand, s0, a1, isSinkNode, succ, enqueueAll, VS.key]

theorem level1 (hi : p.i < p.sg.nParams) :
    level p ([a1 p], [(.carg p.i, false)]) = ([b1 p], seen2 p) := by
  simp [level, expand, a1, b1, isSinkNode, succ, enqueueAll, VS.key, hi, seen2]

theorem level2 : level p ([b1 p], seen2 p) = L3 p := by
  simp [level, expand, b1, isSinkNode, succ, L3, outs]
  rfl

theorem mem_outs (x : VS) :
    x ∈ outs p ↔ (∃ k i', (PNode.param p.i, PNode.param k, i') ∈ p.callee.out ∧ x = ⟨.cparam k, true, .callee⟩) ∨
                 (∃ j i', (PNode.param p.i, PNode.ret j, i') ∈ p.callee.out ∧ x = ⟨.cret j, true, .callee⟩) := by
  simp only [outs, List.mem_map, List.mem_filter, decide_eq_true_eq]
  constructor
  · rintro ⟨⟨s, d, i'⟩, ⟨he, hs⟩, rfl⟩
    simp only at hs
    subst hs
    cases d with
    | param k => exact Or.inl ⟨k, i', he, rfl⟩
    | ret j => exact Or.inr ⟨j, i', he, rfl⟩
  · rintro (⟨k, i', he, rfl⟩ | ⟨j, i', he, rfl⟩)
    · exact ⟨_, ⟨he, rfl⟩, rfl⟩
    · exact ⟨_, ⟨he, rfl⟩, rfl⟩

theorem outs_shape (x : VS) (hx : x ∈ outs p) : x.inCall = true ∧ x.prev = .callee ∧ (∃ k, x.node = .cparam k) ∨
    x.inCall = true ∧ x.prev = .callee ∧ (∃ j, x.node = .cret j) := by
  rcases (mem_outs p x).1 hx with ⟨k, _, _, rfl⟩ | ⟨j, _, _, rfl⟩
  · exact Or.inl ⟨rfl, rfl, k, rfl⟩
  · exact Or.inr ⟨rfl, rfl, j, rfl⟩

theorem vs_ext (x y : VS) (h1 : x.node = y.node) (h2 : x.inCall = y.inCall) (h3 : x.prev = y.prev) : x = y := by
  cases x; cases y; simp_all

/-- level 3: the targets of the written in-range positions of row `i` (except the tainted parameter itself). -/
theorem mem_L3 (x : VS) :
    x ∈ (L3 p).1 ↔ (∃ k i', k ≠ p.i ∧ (PNode.param p.i, PNode.param k, i') ∈ p.callee.out ∧ x = ⟨.cparam k, true, .callee⟩) ∨
                   (∃ j i', (PNode.param p.i, PNode.ret j, i') ∈ p.callee.out ∧ x = ⟨.cret j, true, .callee⟩) := by
  unfold L3
  rw [enq_mem]
  · simp only [List.mem_append, mem_outs, seen2, List.mem_cons, VS.key, List.not_mem_nil, or_false, not_or]
    constructor
    · rintro ⟨(⟨k, i', he, rfl⟩ | ⟨j, i', he, rfl⟩) | rfl, h1, h2⟩
      · refine Or.inl ⟨k, i', ?_, he, rfl⟩
        rintro rfl; exact h2 rfl
      · exact Or.inr ⟨j, i', he, rfl⟩
      · exact absurd rfl h1
    · rintro (⟨k, i', hk, he, rfl⟩ | ⟨j, i', he, rfl⟩)
      · refine ⟨Or.inl (Or.inl ⟨k, i', he, rfl⟩), by simp, ?_⟩
        simp only [Prod.mk.injEq, VN.cparam.injEq, and_true]; exact hk
      · exact ⟨Or.inl (Or.inr ⟨j, i', he, rfl⟩), by simp, by simp⟩
  · intro a ha b hb hk
    simp only [List.mem_append, List.mem_singleton] at ha hb
    simp only [VS.key, Prod.mk.injEq] at hk
    rcases ha with ha | rfl <;> rcases hb with hb | rfl
    · apply vs_ext _ _ hk.1 hk.2
      rcases outs_shape p a ha with ⟨_, h, _⟩ | ⟨_, h, _⟩ <;> rcases outs_shape p b hb with ⟨_, h', _⟩ | ⟨_, h', _⟩ <;> rw [h, h']
    · rcases outs_shape p a ha with ⟨h, _⟩ | ⟨h, _⟩ <;> simp [h] at hk
    · rcases outs_shape p b hb with ⟨h, _⟩ | ⟨h, _⟩ <;> simp [h] at hk
    · rfl

theorem seen_L3 (k : Key) : k ∈ (L3 p).2 ↔ k = (.carg p.i, false) ∨ k = (.cparam p.i, true) ∨ ∃ x ∈ outs p, x.key = k := by
  unfold L3
  rw [enq_seen]
  simp only [seen2, List.mem_cons, List.not_mem_nil, or_false, List.mem_append]
  constructor
  · rintro ((h | h) | ⟨x, hx | rfl, rfl⟩)
    · exact Or.inl h
    · exact Or.inr (Or.inl h)
    · exact Or.inr (Or.inr ⟨x, hx, rfl⟩)
    · exact Or.inl rfl
  · rintro (h | h | ⟨x, hx, rfl⟩)
    · exact Or.inl (Or.inl h)
    · exact Or.inl (Or.inr h)
    · exact Or.inr ⟨x, Or.inl hx, rfl⟩

/-- is there a callee edge `param i → param k` / `param i → ret j` (any index). -/
def edgeP (k : Nat) : Prop := ∃ i', (PNode.param p.i, PNode.param k, i') ∈ p.callee.out
def edgeR (j : Nat) : Prop := ∃ i', (PNode.param p.i, PNode.ret j, i') ∈ p.callee.out

theorem mem_L3' (x : VS) :
    x ∈ (L3 p).1 ↔ (∃ k, k ≠ p.i ∧ edgeP p k ∧ x = ⟨.cparam k, true, .callee⟩) ∨
                   (∃ j, edgeR p j ∧ x = ⟨.cret j, true, .callee⟩) := by
  rw [mem_L3]
  constructor
  · rintro (⟨k, i', hk, he, rfl⟩ | ⟨j, i', he, rfl⟩)
    · exact Or.inl ⟨k, hk, ⟨i', he⟩, rfl⟩
    · exact Or.inr ⟨j, ⟨i', he⟩, rfl⟩
  · rintro (⟨k, hk, ⟨i', he⟩, rfl⟩ | ⟨j, ⟨i', he⟩, rfl⟩)
    · exact Or.inl ⟨k, i', hk, he, rfl⟩
    · exact Or.inr ⟨j, i', he, rfl⟩

theorem expand_cparam_callee (k : Nat) :
    expand p ⟨.cparam k, true, .callee⟩ = [⟨.carg k, false, .callee⟩] := by
  simp [expand, isSinkNode, succ]

theorem mem_expand_cret (hidx : ∀ j, j < p.sg.nResults → p.resIdx j = (j : Int)) (j : Nat) (y : VS) :
    y ∈ expand p ⟨.cret j, true, .callee⟩ ↔ j < p.sg.nResults ∧ y = ⟨.sinkR j, false, .caller⟩ := by
  simp only [expand, isSinkNode, succ, Bool.false_eq_true, if_false, if_true, List.mem_map, List.mem_filter, List.mem_range]
  constructor
  · rintro ⟨j', ⟨hj', hc⟩, rfl⟩
    rw [hidx j' hj'] at hc
    simp only [ge_iff_le, Int.natCast_nonneg, decide_true, Bool.true_and, ne_eq, Bool.not_eq_true',
      decide_eq_false_iff_not, Decidable.not_not, Int.natCast_inj] at hc
    subst hc
    exact ⟨hj', rfl⟩
  · rintro ⟨hj, rfl⟩
    refine ⟨j, ⟨hj, ?_⟩, rfl⟩
    rw [hidx j hj]
    simp

/-- candidates of level 4. -/
theorem mem_cand4 (hidx : ∀ j, j < p.sg.nResults → p.resIdx j = (j : Int)) (y : VS) :
    y ∈ (L3 p).1.flatMap (expand p) ↔
      (∃ k, k ≠ p.i ∧ edgeP p k ∧ y = ⟨.carg k, false, .callee⟩) ∨
      (∃ j, edgeR p j ∧ j < p.sg.nResults ∧ y = ⟨.sinkR j, false, .caller⟩) := by
  simp only [List.mem_flatMap, mem_L3']
  constructor
  · rintro ⟨x, (⟨k, hk, he, rfl⟩ | ⟨j, he, rfl⟩), hy⟩
    · rw [expand_cparam_callee] at hy
      exact Or.inl ⟨k, hk, he, by simpa using hy⟩
    · rw [mem_expand_cret p hidx] at hy
      exact Or.inr ⟨j, he, hy.1, hy.2⟩
  · rintro (⟨k, hk, he, rfl⟩ | ⟨j, he, hj, rfl⟩)
    · exact ⟨_, Or.inl ⟨k, hk, he, rfl⟩, by rw [expand_cparam_callee]; simp⟩
    · exact ⟨_, Or.inr ⟨j, he, rfl⟩, (mem_expand_cret p hidx j _).2 ⟨hj, rfl⟩⟩

theorem outs_key_inCall (k : Key) (h : ∃ x ∈ outs p, x.key = k) : k.2 = true := by
  obtain ⟨x, hx, rfl⟩ := h
  rcases outs_shape p x hx with ⟨h, _⟩ | ⟨h, _⟩ <;> simpa [VS.key] using h

theorem mem_L4 (hidx : ∀ j, j < p.sg.nResults → p.resIdx j = (j : Int)) (y : VS) :
    y ∈ (L4 p).1 ↔
      (∃ k, k ≠ p.i ∧ edgeP p k ∧ y = ⟨.carg k, false, .callee⟩) ∨
      (∃ j, edgeR p j ∧ j < p.sg.nResults ∧ y = ⟨.sinkR j, false, .caller⟩) := by
  unfold L4 level
  rw [enq_mem, mem_cand4 p hidx]
  · constructor
    · exact fun h => h.1
    · intro h
      refine ⟨h, ?_⟩
      rw [seen_L3]
      rintro (hk | hk | hk)
      · rcases h with ⟨k, hki, _, rfl⟩ | ⟨j, _, _, rfl⟩
        · simp only [VS.key, Prod.mk.injEq, VN.carg.injEq, and_true] at hk; exact hki hk
        · simp [VS.key] at hk
      · rcases h with ⟨k, _, _, rfl⟩ | ⟨j, _, _, rfl⟩ <;> simp [VS.key] at hk
      · have := outs_key_inCall p _ hk
        rcases h with ⟨k, _, _, rfl⟩ | ⟨j, _, _, rfl⟩ <;> simp [VS.key] at this
  · intro a ha b hb hk
    rw [mem_cand4 p hidx] at ha hb
    rcases ha with ⟨k, _, _, rfl⟩ | ⟨j, _, _, rfl⟩ <;> rcases hb with ⟨k', _, _, rfl⟩ | ⟨j', _, _, rfl⟩ <;>
      simp_all [VS.key]

theorem seen_L4 (k : Nat) (he : edgeP p k) :
    (VN.cparam k, true) ∈ (L4 p).2 := by
  unfold L4 level
  rw [enq_seen]
  left
  rw [seen_L3]
  right; right
  obtain ⟨i', he⟩ := he
  exact ⟨⟨.cparam k, true, .callee⟩, (mem_outs p _).2 (Or.inl ⟨k, i', he, rfl⟩), rfl⟩

theorem not_seen_L4_sinkA (hidx : ∀ j, j < p.sg.nResults → p.resIdx j = (j : Int)) (k : Nat) :
    (VN.sinkA k, false) ∉ (L4 p).2 := by
  unfold L4 level
  rw [enq_seen, seen_L3]
  rintro ((h | h | h) | ⟨y, hy, h⟩)
  · simp at h
  · simp at h
  · have := outs_key_inCall p _ h; simp at this
  · rw [mem_cand4 p hidx] at hy
    rcases hy with ⟨k', _, _, rfl⟩ | ⟨j, _, _, rfl⟩ <;> simp [VS.key] at h

theorem mem_expand_carg_callee (k : Nat) (z : VS) :
    z ∈ expand p ⟨.carg k, false, .callee⟩ ↔
      (k < p.sg.nParams ∧ z = ⟨.cparam k, true, .callerArg⟩) ∨ (p.ptr k = true ∧ k ≠ p.i ∧ z = ⟨.sinkA k, false, .callerArg⟩) := by
  simp only [expand, isSinkNode, succ, Bool.false_eq_true, if_false, List.mem_append]
  constructor
  · rintro (h | h)
    · split at h
      · exact Or.inl ⟨‹_›, by simpa using h⟩
      · simp at h
    · simp only [reduceCtorEq, decide_false, Bool.false_or, decide_true, if_true] at h
      split at h
      · rename_i hc
        simp only [Bool.and_eq_true, decide_eq_true_eq] at hc
        exact Or.inr ⟨hc.1, hc.2, by simpa using h⟩
      · simp at h
  · rintro (⟨hk, rfl⟩ | ⟨hp, hk, rfl⟩)
    · left; simp [hk]
    · right; simp [hp, hk]

theorem expand_sink (x : VS) (h : isSinkNode x.node = true) : expand p x = [] := by simp [expand, h]

theorem mem_cand5 (hidx : ∀ j, j < p.sg.nResults → p.resIdx j = (j : Int)) (z : VS) :
    z ∈ (L4 p).1.flatMap (expand p) ↔
      ∃ k, k ≠ p.i ∧ edgeP p k ∧ ((k < p.sg.nParams ∧ z = ⟨.cparam k, true, .callerArg⟩) ∨
                                   (p.ptr k = true ∧ z = ⟨.sinkA k, false, .callerArg⟩)) := by
  simp only [List.mem_flatMap, mem_L4 p hidx]
  constructor
  · rintro ⟨y, (⟨k, hk, he, rfl⟩ | ⟨j, he, hj, rfl⟩), hz⟩
    · rw [mem_expand_carg_callee] at hz
      rcases hz with ⟨h1, h2⟩ | ⟨h1, _, h2⟩
      · exact ⟨k, hk, he, Or.inl ⟨h1, h2⟩⟩
      · exact ⟨k, hk, he, Or.inr ⟨h1, h2⟩⟩
    · rw [expand_sink p _ (by rfl)] at hz; simp at hz
  · rintro ⟨k, hk, he, (⟨h1, rfl⟩ | ⟨h1, rfl⟩)⟩
    · exact ⟨_, Or.inl ⟨k, hk, he, rfl⟩, (mem_expand_carg_callee p k _).2 (Or.inl ⟨h1, rfl⟩)⟩
    · exact ⟨_, Or.inl ⟨k, hk, he, rfl⟩, (mem_expand_carg_callee p k _).2 (Or.inr ⟨h1, hk, rfl⟩)⟩

theorem mem_L5 (hidx : ∀ j, j < p.sg.nResults → p.resIdx j = (j : Int)) (z : VS) :
    z ∈ (L5 p).1 ↔ ∃ k, k ≠ p.i ∧ edgeP p k ∧ p.ptr k = true ∧ z = ⟨.sinkA k, false, .callerArg⟩ := by
  unfold L5 level
  rw [enq_mem, mem_cand5 p hidx]
  · constructor
    · rintro ⟨⟨k, hk, he, (⟨_, rfl⟩ | ⟨h1, rfl⟩)⟩, hn⟩
      · exact absurd (seen_L4 p k he) hn
      · exact ⟨k, hk, he, h1, rfl⟩
    · rintro ⟨k, hk, he, h1, rfl⟩
      exact ⟨⟨k, hk, he, Or.inr ⟨h1, rfl⟩⟩, not_seen_L4_sinkA p hidx k⟩
  · intro a ha b hb hk
    rw [mem_cand5 p hidx] at ha hb
    obtain ⟨k, _, _, (⟨_, rfl⟩ | ⟨_, rfl⟩)⟩ := ha <;> obtain ⟨k', _, _, (⟨_, rfl⟩ | ⟨_, rfl⟩)⟩ := hb <;>
      simp_all [VS.key]

theorem level5_nil (hidx : ∀ j, j < p.sg.nResults → p.resIdx j = (j : Int)) : (level p (L5 p)).1 = [] := by
  have : (L5 p).1.flatMap (expand p) = [] := by
    rw [List.flatMap_eq_nil_iff]
    intro z hz
    obtain ⟨k, _, _, _, rfl⟩ := (mem_L5 p hidx z).1 hz
    exact expand_sink p _ rfl
  simp [level, this, enq_nil]

/-- with exactly enough fuel (plus any surplus `f`) the run is the six levels and it has converged. -/
theorem run_eq (hi : p.i < p.sg.nParams) (hidx : ∀ j, j < p.sg.nResults → p.resIdx j = (j : Int)) (f : Nat) :
    bfs p (f + ((L5 p).1.length + (L4 p).1.length + (L3 p).1.length + 1 + 1 + 1)) [s0] [] [] =
      { visited := s0 :: a1 p :: b1 p :: ((L3 p).1 ++ (L4 p).1 ++ (L5 p).1), converged := true } := by
  have e : f + ((L5 p).1.length + (L4 p).1.length + (L3 p).1.length + 1 + 1 + 1) =
      (((((f + (L5 p).1.length) + (L4 p).1.length) + (L3 p).1.length) + [b1 p].length) + [a1 p].length) + [s0].length := by
    simp; omega
  rw [e, bfs_level, level0, bfs_level, level1 p hi, bfs_level, level2]
  have h3 : L3 p = ((L3 p).1, (L3 p).2) := rfl
  rw [h3, bfs_level]
  change bfs p _ (L4 p).1 (L4 p).2 _ = _
  have h4 : L4 p = ((L4 p).1, (L4 p).2) := rfl
  rw [bfs_level, ← h4]
  change bfs p _ (L5 p).1 (L5 p).2 _ = _
  have h5 : L5 p = ((L5 p).1, (L5 p).2) := rfl
  rw [bfs_level, ← h5, level5_nil p hidx, bfs_nil]
  simp

/-- the nodes visited by a converged run: the six levels. -/
theorem visited_eq (hi : p.i < p.sg.nParams) (hidx : ∀ j, j < p.sg.nResults → p.resIdx j = (j : Int))
    (fuel : Nat) (hconv : (visitOneCall p fuel).converged = true) :
    (visitOneCall p fuel).visited = s0 :: a1 p :: b1 p :: ((L3 p).1 ++ (L4 p).1 ++ (L5 p).1) := by
  unfold visitOneCall at hconv ⊢
  have hm := bfs_fuel_mono p fuel _ _ _ hconv
    ((L5 p).1.length + (L4 p).1.length + (L3 p).1.length + 1 + 1 + 1)
  rw [← hm]
  show (bfs p _ [s0] [] []).visited = _
  rw [run_eq p hi hidx]

/-! #### the default fuel is enough -/

theorem enq_keys (l : List VS) (seen : List Key) :
    ((enqueueAll l seen).1.map VS.key).Nodup ∧ ∀ x ∈ (enqueueAll l seen).1, x.key ∉ seen := by
  induction l generalizing seen with
  | nil => simp [enq_nil]
  | cons y ys ih =>
    by_cases hy : y.key ∈ seen
    · rw [enq_cons_seen _ _ _ hy]; exact ih seen
    · rw [enq_cons_new _ _ _ hy]
      obtain ⟨h1, h2⟩ := ih (seen ++ [y.key])
      refine ⟨?_, ?_⟩
      · simp only [List.map_cons, List.nodup_cons]
        refine ⟨?_, h1⟩
        intro hm
        obtain ⟨x, hx, hk⟩ := List.mem_map.1 hm
        exact h2 x hx (by simp [hk])
      · intro x hx
        simp only [List.mem_cons] at hx
        rcases hx with rfl | hx
        · exact hy
        · intro hs; exact h2 x hx (List.mem_append_left _ hs)

/-- a list of visitor nodes with pairwise distinct keys, all within `U`, is no longer than `U`. -/
theorem length_le_of_keys (L : List VS) (U : List Key) (hn : (L.map VS.key).Nodup) (hs : ∀ x ∈ L, x.key ∈ U) :
    L.length ≤ U.length := by
  have := List.Nodup.length_le_of_subset hn (l₂ := U) (by
    intro k hk
    obtain ⟨x, hx, rfl⟩ := List.mem_map.1 hk
    exact hs x hx)
  simpa using this

theorem edgeP_lt (k : Nat) (he : edgeP p k) : k < p.sg.nParams := by
  obtain ⟨i', he⟩ := he
  have ho := (apply_exact' p.sg true p.spec).1
  unfold OneCall.callee at he
  rw [ho, List.mem_map] at he
  obtain ⟨q, hq, hqe⟩ := he
  rw [List.mem_filter] at hq
  cases q with
  | ret a b => simp [Pos.edge] at hqe
  | arg a b =>
    have hok := (ok_arg_iff' p.sg true a b).1 hq.2
    simp only [Pos.edge, Prod.mk.injEq, PNode.param.injEq] at hqe
    omega

theorem edgeR_lt (j : Nat) (he : edgeR p j) : j < p.sg.nResults := by
  obtain ⟨i', he⟩ := he
  have ho := (apply_exact' p.sg true p.spec).1
  unfold OneCall.callee at he
  rw [ho, List.mem_map] at he
  obtain ⟨q, hq, hqe⟩ := he
  rw [List.mem_filter] at hq
  cases q with
  | arg a b => simp [Pos.edge] at hqe
  | ret a b =>
    have hok := (ok_ret_iff' p.sg true a b).1 hq.2
    simp only [Pos.edge, Prod.mk.injEq, PNode.param.injEq, PNode.ret.injEq] at hqe
    omega

theorem len_L3 : (L3 p).1.length ≤ p.sg.nParams + p.sg.nResults := by
  have hk := enq_keys (outs p ++ [⟨.carg p.i, false, .callee⟩]) (seen2 p)
  have := length_le_of_keys (L3 p).1
    ((List.range p.sg.nParams).map (fun k => ((VN.cparam k, true) : Key)) ++ (List.range p.sg.nResults).map (fun j => ((VN.cret j, true) : Key)))
    hk.1 (by
      intro x hx
      rcases (mem_L3' p x).1 hx with ⟨k, _, he, rfl⟩ | ⟨j, he, rfl⟩
      · exact List.mem_append_left _ (List.mem_map.2 ⟨k, List.mem_range.2 (edgeP_lt p k he), rfl⟩)
      · exact List.mem_append_right _ (List.mem_map.2 ⟨j, List.mem_range.2 (edgeR_lt p j he), rfl⟩))
  simpa using this

theorem len_L4 (hidx : ∀ j, j < p.sg.nResults → p.resIdx j = (j : Int)) :
    (L4 p).1.length ≤ p.sg.nParams + p.sg.nResults := by
  have hk := enq_keys ((L3 p).1.flatMap (expand p)) (L3 p).2
  have := length_le_of_keys (L4 p).1
    ((List.range p.sg.nParams).map (fun k => ((VN.carg k, false) : Key)) ++ (List.range p.sg.nResults).map (fun j => ((VN.sinkR j, false) : Key)))
    hk.1 (by
      intro x hx
      rcases (mem_L4 p hidx x).1 hx with ⟨k, _, he, rfl⟩ | ⟨j, _, hj, rfl⟩
      · exact List.mem_append_left _ (List.mem_map.2 ⟨k, List.mem_range.2 (edgeP_lt p k he), rfl⟩)
      · exact List.mem_append_right _ (List.mem_map.2 ⟨j, List.mem_range.2 hj, rfl⟩))
  simpa using this

theorem len_L5 (hidx : ∀ j, j < p.sg.nResults → p.resIdx j = (j : Int)) : (L5 p).1.length ≤ p.sg.nParams := by
  have hk := enq_keys ((L4 p).1.flatMap (expand p)) (L4 p).2
  have := length_le_of_keys (L5 p).1 ((List.range p.sg.nParams).map (fun k => ((VN.sinkA k, false) : Key)))
    hk.1 (by
      intro x hx
      obtain ⟨k, _, he, _, rfl⟩ := (mem_L5 p hidx x).1 hx
      exact List.mem_map.2 ⟨k, List.mem_range.2 (edgeP_lt p k he), rfl⟩)
  simpa using this

/-- the visitor loop terminates within the default fuel. -/
theorem converged_default (hi : p.i < p.sg.nParams) (hidx : ∀ j, j < p.sg.nResults → p.resIdx j = (j : Int)) :
    (visitOneCall p (defaultFuel p)).converged = true := by
  have h3 := len_L3 p
  have h4 := len_L4 p hidx
  have h5 := len_L5 p hidx
  have e : defaultFuel p = (defaultFuel p - ((L5 p).1.length + (L4 p).1.length + (L3 p).1.length + 1 + 1 + 1)) +
      ((L5 p).1.length + (L4 p).1.length + (L3 p).1.length + 1 + 1 + 1) := by
    unfold defaultFuel; omega
  unfold visitOneCall
  show (bfs p _ [s0] [] []).converged = true
  rw [e, run_eq p hi hidx]

end levels

/-! ### the result -/

theorem edgeR_iff (p : OneCall) (hi : p.i < p.sg.nParams) (j : Nat) :
    edgeR p j ∧ j < p.sg.nResults ↔ j < p.sg.nResults ∧ ∃ row, p.spec.rets[p.i]? = some row ∧ (j : Int) ∈ row := by
  have hl := (edge_iff_listed' p.sg p.spec p.i hi).1 j
  constructor
  · rintro ⟨⟨i', he⟩, hj⟩
    refine ⟨hj, (hl hj).1 ?_⟩
    have hm := foldl_applyPos p.sg true p.spec.listed {} mirror_empty
    have := hm.2.2.idx _ he
    simp only [idxOf] at this
    subst this
    exact he
  · rintro ⟨hj, h⟩
    exact ⟨⟨_, (hl hj).2 h⟩, hj⟩

theorem edgeP_iff (p : OneCall) (hi : p.i < p.sg.nParams) (k : Nat) :
    edgeP p k ↔ k < p.sg.nParams ∧ ∃ row, p.spec.args[p.i]? = some row ∧ (k : Int) ∈ row := by
  have hl := (edge_iff_listed' p.sg p.spec p.i hi).2 k
  constructor
  · rintro ⟨i', he⟩
    have hm := foldl_applyPos p.sg true p.spec.listed {} mirror_empty
    have hidx := hm.2.2.idx _ he
    simp only [idxOf] at hidx
    subst hidx
    -- the edge comes from an in-range written position, so k is in range
    have hk : k < p.sg.nParams := by
      have ho := (apply_exact' p.sg true p.spec).1
      have he' := he
      unfold OneCall.callee at he'
      rw [ho, List.mem_map] at he'
      obtain ⟨q, hq, hqe⟩ := he'
      rw [List.mem_filter] at hq
      cases q with
      | ret a b => simp [Pos.edge] at hqe
      | arg a b =>
        have hok := (ok_arg_iff' p.sg true a b).1 hq.2
        simp only [Pos.edge, Prod.mk.injEq, PNode.param.injEq, and_true] at hqe
        omega
    exact ⟨hk, (hl hk).1 he⟩
  · rintro ⟨hk, h⟩
    exact ⟨_, (hl hk).2 h⟩

theorem visitOneCall_exact (p : OneCall) (hi : p.i < p.sg.nParams)
    (hidx : ∀ j, j < p.sg.nResults → p.resIdx j = (j : Int))
    (fuel : Nat) (hconv : (visitOneCall p fuel).converged = true) :
    (∀ j, Sum.inl j ∈ (visitOneCall p fuel).reported ↔
      j < p.sg.nResults ∧ ∃ row, p.spec.rets[p.i]? = some row ∧ (j : Int) ∈ row) ∧
    (∀ k, Sum.inr k ∈ (visitOneCall p fuel).reported ↔
      k < p.sg.nParams ∧ k ≠ p.i ∧ p.ptr k = true ∧ ∃ row, p.spec.args[p.i]? = some row ∧ (k : Int) ∈ row) := by
  have hv := visited_eq p hi hidx fuel hconv
  have hrep : ∀ t, t ∈ (visitOneCall p fuel).reported ↔
      ∃ s ∈ (visitOneCall p fuel).visited, s.slot = some t := by
    intro t; simp [Run.reported, List.mem_filterMap]
  constructor
  · intro j
    rw [← edgeR_iff p hi j, hrep, hv]
    simp only [List.mem_cons, List.mem_append, mem_L3', mem_L4 p hidx, mem_L5 p hidx]
    constructor
    · rintro ⟨s, hs, hm⟩
      rcases hs with rfl | rfl | rfl | ((⟨k, _, _, rfl⟩ | ⟨j', _, rfl⟩) | (⟨k, _, _, rfl⟩ | ⟨j', he, hj, rfl⟩)) | ⟨k, _, _, _, rfl⟩ <;>
        simp [s0, a1, b1, VS.slot] at hm
      subst hm
      exact ⟨he, hj⟩
    · rintro ⟨he, hj⟩
      exact ⟨⟨.sinkR j, false, .caller⟩, Or.inr (Or.inr (Or.inr (Or.inl (Or.inr (Or.inr ⟨j, he, hj, rfl⟩))))), rfl⟩
  · intro k
    rw [hrep, hv]
    simp only [List.mem_cons, List.mem_append, mem_L3', mem_L4 p hidx, mem_L5 p hidx]
    constructor
    · rintro ⟨s, hs, hm⟩
      rcases hs with rfl | rfl | rfl | ((⟨k', _, _, rfl⟩ | ⟨j', _, rfl⟩) | (⟨k', _, _, rfl⟩ | ⟨j', he, hj, rfl⟩)) | ⟨k', hk', he, hp, rfl⟩ <;>
        simp [s0, a1, b1, VS.slot] at hm
      subst hm
      obtain ⟨h1, h2⟩ := (edgeP_iff p hi k').1 he
      exact ⟨h1, hk', hp, h2⟩
    · rintro ⟨h1, hk, hp, h2⟩
      exact ⟨⟨.sinkA k, false, .callerArg⟩, Or.inr (Or.inr (Or.inr (Or.inr ⟨k, hk, (edgeP_iff p hi k).2 ⟨h1, h2⟩, hp, rfl⟩))), rfl⟩

end Argot.Contract
