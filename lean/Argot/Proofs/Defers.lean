/- Helper lemmas for C16 (defer analysis). Property theorems live in Argot/Props/C16.lean. -/
import Argot.Spec.Defers

namespace Argot.Defers

/-! ### comparison -/

theorem siteCompare_eq {a b : Site} (h : siteCompare a b = .eq) : a = b := by
  unfold siteCompare at h
  split at h <;> try contradiction
  split at h <;> try contradiction
  split at h <;> try contradiction
  split at h <;> try contradiction
  apply Prod.ext <;> omega

theorem stackCompare_eq : ∀ {a b : Stack}, stackCompare a b = .eq → a = b
  | [], [], _ => rfl
  | [], _ :: _, h => by simp [stackCompare] at h
  | _ :: _, [], h => by simp [stackCompare] at h
  | a :: as, b :: bs, h => by
    unfold stackCompare at h
    split at h <;> try contradiction
    rename_i he
    rw [siteCompare_eq he, stackCompare_eq h]

/-! ### union -/

theorem union_mem (s : Stack) : ∀ (a b : StackSet), s ∈ (stackSetUnion a b).1 ↔ s ∈ a ∨ s ∈ b := by
  intro a b
  fun_induction stackSetUnion a b with
  | case1 => simp
  | case2 => simp
  | case3 => simp
  | case4 a as b bs hc r ih => simp [r]; grind
  | case5 a as b bs hc r ih => simp [r]; grind
  | case6 a as b bs hc r ih =>
    have := stackCompare_eq hc
    simp [r]; grind

theorem union_same : ∀ (a b : StackSet), (stackSetUnion a b).2 = true → (stackSetUnion a b).1 = a := by
  intro a b
  fun_induction stackSetUnion a b with
  | case1 => simp
  | case2 => simp
  | case3 => simp
  | case4 a as b bs hc r ih => intro h; simp only [r] at *; simp [ih h]
  | case5 a as b bs hc r ih => intro h; simp at h
  | case6 a as b bs hc r ih => intro h; simp only [r] at *; simp [ih h]

theorem union_ne_of_not_same (a b : StackSet) (h : (stackSetUnion a b).2 = false) :
    (stackSetUnion a b).1 ≠ [] := by
  fun_induction stackSetUnion a b <;> simp_all

theorem union_ne_of_left (a b : StackSet) (h : a ≠ []) : (stackSetUnion a b).1 ≠ [] := by
  cases a with
  | nil => contradiction
  | cons x xs =>
    intro hn
    have : x ∈ (stackSetUnion (x :: xs) b).1 := (union_mem x _ _).2 (Or.inl (by simp))
    rw [hn] at this; simp at this

/-! ### sort + dedup, transfer -/

theorem insertStack_mem (s t : Stack) : ∀ l : StackSet, t ∈ insertStack s l ↔ t = s ∨ t ∈ l
  | [] => by simp [insertStack]
  | x :: xs => by
    unfold insertStack
    split
    · simp
    · rename_i he; have := stackCompare_eq he; subst this; simp
    · simp [insertStack_mem s t xs]; grind

theorem sortDedup_mem (t : Stack) : ∀ l : StackSet, t ∈ sortDedup l ↔ t ∈ l
  | [] => by simp [sortDedup]
  | x :: xs => by
    have ih := sortDedup_mem t xs
    simp only [sortDedup, List.foldr_cons] at *
    rw [insertStack_mem, ih]; simp

theorem transfer_mem (b j : Nat) (ik : IK) (v : StackSet) (hv : v ≠ []) (s : Stack) :
    s ∈ (transfer b j ik v).1 ↔ ∃ s0 ∈ v, s = eff' b j ik s0 := by
  cases ik with
  | defer => simp [transfer, sortDedup_mem, eff']; grind
  | runDefers =>
    obtain ⟨x, xs, rfl⟩ := List.exists_cons_of_ne_nil hv
    simp [transfer, eff']
  | other => simp [transfer, eff']

theorem transfer_ne (b j : Nat) (ik : IK) (v : StackSet) (hv : v ≠ []) : (transfer b j ik v).1 ≠ [] := by
  obtain ⟨x, xs, rfl⟩ := List.exists_cons_of_ne_nil hv
  intro h
  have := (transfer_mem b j ik (x :: xs) hv (eff' b j ik x)).2 ⟨x, by simp, rfl⟩
  rw [h] at this; simp at this

theorem transfer_rep (b j : Nat) (ik : IK) (v : StackSet) :
    (transfer b j ik v).2 = true ↔ ik = .defer ∧ ∃ s ∈ v, (b, j) ∈ s := by
  cases ik <;> simp [transfer]

/-! ### walking a block -/

theorem walkVal_mem (b : Nat) (s : Stack) : ∀ (iks : List IK) (j : Nat) (v : StackSet), v ≠ [] →
    (s ∈ walkVal b j iks v ↔ ∃ s0 ∈ v, s = effs' b j iks s0)
  | [], j, v, _ => by simp [walkVal, effs']
  | ik :: iks, j, v, hv => by
    simp only [walkVal, effs']
    rw [walkVal_mem b s iks (j + 1) _ (transfer_ne b j ik v hv)]
    constructor
    · rintro ⟨s1, h1, rfl⟩
      obtain ⟨s0, h0, rfl⟩ := (transfer_mem b j ik v hv s1).1 h1
      exact ⟨s0, h0, rfl⟩
    · rintro ⟨s0, h0, rfl⟩
      exact ⟨_, (transfer_mem b j ik v hv _).2 ⟨s0, h0, rfl⟩, rfl⟩

theorem walkVal_ne (b : Nat) : ∀ (iks : List IK) (j : Nat) (v : StackSet), v ≠ [] → walkVal b j iks v ≠ []
  | [], _, _, hv => by simpa [walkVal]
  | ik :: iks, j, v, hv => by
    simp only [walkVal]; exact walkVal_ne b iks (j + 1) _ (transfer_ne b j ik v hv)

theorem effs'_append (b : Nat) : ∀ (xs ys : List IK) (j : Nat) (s : Stack),
    effs' b j (xs ++ ys) s = effs' b (j + xs.length) ys (effs' b j xs s)
  | [], ys, j, s => by simp [effs']
  | x :: xs, ys, j, s => by
    simp only [List.cons_append, effs', List.length_cons]
    rw [effs'_append b xs ys (j + 1)]; congr 1; omega

theorem effs_append (b : Nat) : ∀ (xs ys : List IK) (j : Nat) (s : Stack),
    effs b j (xs ++ ys) s = effs b (j + xs.length) ys (effs b j xs s)
  | [], ys, j, s => by simp [effs]
  | x :: xs, ys, j, s => by
    simp only [List.cons_append, effs, List.length_cons]
    rw [effs_append b xs ys (j + 1)]; congr 1; omega

/-- `walkRep` fires iff some defer instruction `k` of the walk finds its own site on a stack
    that reaches it. -/
theorem walkRep_iff (b : Nat) : ∀ (iks : List IK) (j : Nat) (v : StackSet), v ≠ [] →
    (walkRep b j iks v = true ↔
      ∃ k, iks[k]? = some IK.defer ∧ ∃ s0 ∈ v, (b, j + k) ∈ effs' b j (iks.take k) s0)
  | [], j, v, _ => by simp [walkRep]
  | ik :: iks, j, v, hv => by
    simp only [walkRep, Bool.or_eq_true]
    rw [transfer_rep, walkRep_iff b iks (j + 1) _ (transfer_ne b j ik v hv)]
    constructor
    · rintro (⟨rfl, s, hs, hm⟩ | ⟨k, hk, s1, h1, hm⟩)
      · exact ⟨0, by simp, s, hs, by simpa [effs'] using hm⟩
      · obtain ⟨s0, h0, rfl⟩ := (transfer_mem b j ik v hv s1).1 h1
        refine ⟨k + 1, by simpa using hk, s0, h0, ?_⟩
        simp only [List.take_succ_cons, effs']
        have : j + (k + 1) = j + 1 + k := by omega
        rw [this]; exact hm
    · rintro ⟨k, hk, s0, h0, hm⟩
      cases k with
      | zero =>
        left
        simp at hk
        exact ⟨hk, s0, h0, by simpa [effs'] using hm⟩
      | succ k =>
        right
        refine ⟨k, by simpa using hk, eff' b j ik s0, (transfer_mem b j ik v hv _).2 ⟨s0, h0, rfl⟩, ?_⟩
        simp only [List.take_succ_cons, effs'] at hm
        have : j + (k + 1) = j + 1 + k := by omega
        rw [this] at hm; exact hm

/-! ### list plumbing -/

theorem getD_set {α} (l : List α) (i j : Nat) (v d : α) :
    (l.set i v).getD j d = if i = j ∧ i < l.length then v else l.getD j d := by
  simp only [List.getD_eq_getElem?_getD, List.getElem?_set]
  split
  · rename_i h; subst h
    split <;> rename_i h2
    · simp [h2]
    · simp [h2]
  · rename_i h; simp [h]

/-! ### propagate -/

theorem propagate_len (value : StackSet) : ∀ (cs : List Nat) (init : List StackSet) (ch : List Bool),
    (propagate value cs init ch).1.length = init.length ∧ (propagate value cs init ch).2.length = ch.length
  | [], _, _ => by simp [propagate]
  | c :: cs, init, ch => by
    simp only [propagate]
    have := propagate_len value cs (init.set c (stackSetUnion (init.getD c []) value).1)
      (ch.set c (ch.getD c false || !(stackSetUnion (init.getD c []) value).2))
    simpa using this

theorem propagate_mono (value : StackSet) (b : Nat) (s : Stack) :
    ∀ (cs : List Nat) (init : List StackSet) (ch : List Bool),
    s ∈ init.getD b [] → s ∈ (propagate value cs init ch).1.getD b []
  | [], _, _, h => by simpa [propagate]
  | c :: cs, init, ch, h => by
    simp only [propagate]
    apply propagate_mono value b s cs
    rw [getD_set]
    split
    · rename_i hc; obtain ⟨rfl, _⟩ := hc
      exact (union_mem s _ _).2 (Or.inl h)
    · exact h

theorem propagate_add (value : StackSet) (b : Nat) (s : Stack) (hs : s ∈ value) :
    ∀ (cs : List Nat) (init : List StackSet) (ch : List Bool),
    b ∈ cs → b < init.length → s ∈ (propagate value cs init ch).1.getD b []
  | [], _, _, h, _ => by simp at h
  | c :: cs, init, ch, h, hl => by
    simp only [propagate]
    by_cases hbc : c = b
    · subst hbc
      apply propagate_mono
      rw [getD_set]; simp only [hl, and_self, if_true]
      exact (union_mem s _ _).2 (Or.inr hs)
    · have : b ∈ cs := by
        cases h with
        | head => exact absurd rfl hbc
        | tail _ h => exact h
      exact propagate_add value b s hs cs _ _ this (by simpa using hl)

theorem propagate_inv (value : StackSet) (b : Nat) (s : Stack) :
    ∀ (cs : List Nat) (init : List StackSet) (ch : List Bool),
    s ∈ (propagate value cs init ch).1.getD b [] → s ∈ init.getD b [] ∨ (b ∈ cs ∧ s ∈ value)
  | [], _, _, h => by left; simpa [propagate] using h
  | c :: cs, init, ch, h => by
    simp only [propagate] at h
    rcases propagate_inv value b s cs _ _ h with h1 | ⟨h1, h2⟩
    · rw [getD_set] at h1
      split at h1
      · rename_i hc; obtain ⟨rfl, _⟩ := hc
        rcases (union_mem s _ _).1 h1 with h3 | h3
        · exact Or.inl h3
        · exact Or.inr ⟨by simp, h3⟩
      · exact Or.inl h1
    · exact Or.inr ⟨by simp [h1], h2⟩

theorem propagate_flag_false (value : StackSet) (b : Nat) :
    ∀ (cs : List Nat) (init : List StackSet) (ch : List Bool), init.length = ch.length →
    (propagate value cs init ch).2.getD b false = false →
    ch.getD b false = false ∧ (propagate value cs init ch).1.getD b [] = init.getD b []
  | [], _, _, _, h => by simpa [propagate] using h
  | c :: cs, init, ch, hl, h => by
    simp only [propagate] at h ⊢
    have ih := propagate_flag_false value b cs _ _ (by simpa using hl) h
    obtain ⟨h1, h2⟩ := ih
    rw [h2]
    rw [getD_set] at h1
    rw [getD_set]
    split at h1
    · rename_i hc; obtain ⟨rfl, hcl⟩ := hc
      simp only [Bool.or_eq_false_iff, Bool.not_eq_false'] at h1
      refine ⟨h1.1, ?_⟩
      simp only [hl, hcl, and_self, if_true]
      exact union_same _ _ h1.2
    · rename_i hc
      refine ⟨h1, ?_⟩
      rw [hl]; simp only [hc, if_false]

theorem propagate_flag_true (value : StackSet) (b : Nat) :
    ∀ (cs : List Nat) (init : List StackSet) (ch : List Bool), init.length = ch.length →
    (propagate value cs init ch).2.getD b false = true →
    ch.getD b false = true ∨ (propagate value cs init ch).1.getD b [] ≠ []
  | [], _, _, _, h => by left; simpa [propagate] using h
  | c :: cs, init, ch, hl, h => by
    simp only [propagate] at h ⊢
    rcases propagate_flag_true value b cs _ _ (by simpa using hl) h with h1 | h1
    · rw [getD_set] at h1
      split at h1
      · rename_i hc; obtain ⟨rfl, hcl⟩ := hc
        simp only [Bool.or_eq_true, Bool.not_eq_true'] at h1
        rcases h1 with h1 | h1
        · exact Or.inl h1
        · right
          have hne := union_ne_of_not_same _ _ h1
          obtain ⟨x, xs, hx⟩ := List.exists_cons_of_ne_nil hne
          intro hn
          have : x ∈ (propagate value cs (init.set c (stackSetUnion (init.getD c []) value).1)
              (ch.set c (ch.getD c false || !(stackSetUnion (init.getD c []) value).2))).1.getD c [] := by
            apply propagate_mono
            rw [getD_set]; simp only [hl, hcl, and_self, if_true]; rw [hx]; simp
          rw [hn] at this; simp at this
      · exact Or.inl h1
    · exact Or.inr h1

/-! ### the loop invariant -/

def WF (g : Cfg) : Prop := ∀ b, ∀ c ∈ (blockOf g b).succs, c < g.length

theorem wf_WF (g : Cfg) (h : wf g = true) : WF g := by
  intro b c hc
  unfold blockOf at hc
  simp only [wf, List.all_eq_true, decide_eq_true_eq] at h
  by_cases hb : b < g.length
  · have : g.getD b default = g[b] := by simp [List.getD_eq_getElem?_getD, hb]
    rw [this] at hc
    exact h _ (List.getElem_mem hb) c hc
  · have : g.getD b default = default := by
      simp [List.getD_eq_getElem?_getD, List.getElem?_eq_none (Nat.le_of_not_lt hb)]
    rw [this] at hc
    simp [default] at hc
    cases hc

structure LoopInv (g : Cfg) (σ : State) : Prop where
  len1 : σ.init.length = g.length
  len2 : σ.changed.length = g.length
  len3 : σ.processed.length = g.length
  entry : [] ∈ σ.init.getD 0 []
  sound : ∀ b s, s ∈ σ.init.getD b [] → AtEntry' g b s
  psound : ∀ b S, σ.processed.getD b none = some S → S ≠ [] ∧ ∀ s ∈ S, s ∈ σ.init.getD b []
  chne : ∀ b, σ.changed.getD b false = true → σ.init.getD b [] ≠ []
  closed : ∀ b, σ.changed.getD b false = false → σ.init.getD b [] ≠ [] →
      σ.processed.getD b none = some (σ.init.getD b []) ∧
      ∀ c ∈ (blockOf g b).succs, ∀ s ∈ walkVal b 0 (blockOf g b).instrs (σ.init.getD b []),
        s ∈ σ.init.getD c []
  rep : σ.anyRep = false → ∀ b S, σ.processed.getD b none = some S →
      walkRep b 0 (blockOf g b).instrs S = false
  repsound : σ.anyRep = true → Repeats g

theorem init_inv (g : Cfg) (hg : g ≠ []) : LoopInv g (initState g) := by
  have hpos : 0 < g.length := List.length_pos_iff.mpr hg
  refine ⟨by simp [initState], by simp [initState], by simp [initState], ?_, ?_, ?_, ?_, ?_, ?_, ?_⟩
  · simp [initState, hpos]
  · intro b s h
    simp only [initState, getD_set, List.length_replicate] at h
    split at h
    · rename_i hc; obtain ⟨rfl, _⟩ := hc
      simp at h; subst h; exact AtEntry'.entry
    · simp [List.getD_eq_getElem?_getD, List.getElem?_replicate] at h
      split at h <;> simp at h
  · intro b S h
    simp [initState, List.getD_eq_getElem?_getD, List.getElem?_replicate] at h
    split at h <;> simp at h
  · intro b h
    simp only [initState, getD_set, List.length_replicate] at h ⊢
    split at h
    · rename_i hc; obtain ⟨rfl, hc2⟩ := hc; simp [hc2]
    · simp [List.getD_eq_getElem?_getD, List.getElem?_replicate] at h
      split at h <;> simp at h
  · intro b h hne
    exfalso
    simp only [initState, getD_set, List.length_replicate] at h hne
    split at h
    · simp at h
    · rename_i hc
      simp only [hc, if_false] at hne
      simp [List.getD_eq_getElem?_getD, List.getElem?_replicate] at hne
      split at hne <;> simp at hne
  · intro _ b S h
    simp [initState, List.getD_eq_getElem?_getD, List.getElem?_replicate] at h
    split at h <;> simp at h
  · intro h; simp [initState] at h

theorem process_inv (g : Cfg) (hwf : WF g) (i : Nat) (σ : State) (hi : i < g.length)
    (hch : σ.changed.getD i false = true) (I : LoopInv g σ) : LoopInv g (processBlock g i σ) := by
  have hv0 : σ.init.getD i [] ≠ [] := I.chne i hch
  have hlen : σ.init.length = (σ.changed.set i false).length := by simp [I.len1, I.len2]
  have hblk : g.getD i default = blockOf g i := rfl
  refine ⟨?_, ?_, ?_, ?_, ?_, ?_, ?_, ?_, ?_, ?_⟩
  · simp [processBlock, (propagate_len _ _ _ _).1, I.len1]
  · simp [processBlock, (propagate_len _ _ _ _).2, I.len2]
  · simp [processBlock, I.len3]
  · exact propagate_mono _ _ _ _ _ _ I.entry
  · intro b s h
    rcases propagate_inv _ _ _ _ _ _ h with h1 | ⟨h1, h2⟩
    · exact I.sound b s h1
    · rw [hblk] at h1 h2
      obtain ⟨s0, h0, rfl⟩ := (walkVal_mem i s _ 0 _ hv0).1 h2
      exact AtEntry'.step (I.sound i s0 h0) h1
  · intro b S h
    simp only [processBlock, getD_set] at h
    split at h
    · rename_i hc; obtain ⟨rfl, _⟩ := hc
      simp at h; subst h
      exact ⟨hv0, fun s hs => propagate_mono _ _ _ _ _ _ hs⟩
    · obtain ⟨h1, h2⟩ := I.psound b S h
      exact ⟨h1, fun s hs => propagate_mono _ _ _ _ _ _ (h2 s hs)⟩
  · intro b h
    rcases propagate_flag_true _ b _ _ _ hlen h with h1 | h1
    · rw [getD_set] at h1
      split at h1
      · simp at h1
      · have hne := I.chne b h1
        obtain ⟨x, xs, hx⟩ := List.exists_cons_of_ne_nil hne
        intro hn
        have : x ∈ (processBlock g i σ).init.getD b [] :=
          propagate_mono _ _ _ _ _ _ (by rw [hx]; simp)
        rw [hn] at this; simp at this
    · exact h1
  · intro b h hne
    obtain ⟨h1, h2⟩ := propagate_flag_false _ b _ _ _ hlen h
    have h2' : (processBlock g i σ).init.getD b [] = σ.init.getD b [] := h2
    rw [h2'] at hne ⊢
    by_cases hbi : i = b
    · subst hbi
      refine ⟨by simp [processBlock, I.len3, hi], ?_⟩
      intro c hc s hs
      exact propagate_add _ c s (by rw [hblk]; exact hs) _ _ _ (by rw [hblk]; exact hc)
        (by rw [I.len1]; exact hwf i c hc)
    · rw [getD_set] at h1
      simp only [hbi, false_and, if_false] at h1
      obtain ⟨h3, h4⟩ := I.closed b h1 hne
      refine ⟨by simp only [processBlock, getD_set, hbi, false_and, if_false]; exact h3, ?_⟩
      intro c hc s hs
      exact propagate_mono _ _ _ _ _ _ (h4 c hc s hs)
  · intro h b S hS
    simp only [processBlock, Bool.or_eq_false_iff] at h
    simp only [processBlock, getD_set] at hS
    split at hS
    · rename_i hc; obtain ⟨rfl, _⟩ := hc
      simp at hS; subst hS
      exact h.2
    · exact I.rep h.1 b S hS
  · intro h
    simp only [processBlock, Bool.or_eq_true] at h
    rcases h with h | h
    · exact I.repsound h
    · rw [hblk] at h
      obtain ⟨k, hk, s0, h0, hm⟩ := (walkRep_iff i _ 0 _ hv0).1 h
      simp only [Nat.zero_add] at hm
      exact ⟨i, k, _, hk, ⟨s0, I.sound i s0 h0, rfl⟩, hm⟩

theorem round_inv (g : Cfg) (hwf : WF g) : ∀ (ord : List Nat) (σ : State), LoopInv g σ →
    LoopInv g (round g ord σ).1
  | [], σ, I => by simpa [round]
  | i :: is, σ, I => by
    unfold round
    split
    · rename_i hch
      have hi : i < g.length := by
        rcases Nat.lt_or_ge i g.length with h | h
        · exact h
        · have hge : σ.changed.length ≤ i := by rw [I.len2]; exact h
          simp [List.getD_eq_getElem?_getD, List.getElem?_eq_none hge] at hch
      exact round_inv g hwf is _ (process_inv g hwf i σ hi hch I)
    · exact round_inv g hwf is σ I

/-- a round that reports no change did nothing, and every block of the order has a clear flag. -/
theorem round_quiet (g : Cfg) : ∀ (ord : List Nat) (σ : State), (round g ord σ).2 = false →
    (round g ord σ).1 = σ ∧ ∀ i ∈ ord, σ.changed.getD i false = false
  | [], σ, _ => by simp [round]
  | i :: is, σ, h => by
    unfold round at h ⊢
    split at h
    · simp at h
    · rename_i hch
      obtain ⟨h1, h2⟩ := round_quiet g is σ h
      refine ⟨by simp only [hch]; exact h1, ?_⟩
      intro k hk
      cases hk with
      | head => simpa using hch
      | tail _ hk => exact h2 k hk

theorem iterate_inv (g : Cfg) (hwf : WF g) (ord : List Nat) : ∀ (n : Nat) (σ : State), LoopInv g σ →
    LoopInv g (iterate g ord n σ).1 ∧
    ((iterate g ord n σ).2 = true → ∀ i ∈ ord, (iterate g ord n σ).1.changed.getD i false = false)
  | 0, σ, I => by simp [iterate, I]
  | n + 1, σ, I => by
    unfold iterate
    simp only
    split
    · exact iterate_inv g hwf ord n _ (round_inv g hwf ord σ I)
    · rename_i hq
      simp only [Bool.not_eq_true] at hq
      obtain ⟨h1, h2⟩ := round_quiet g ord σ hq
      refine ⟨by rw [h1]; exact I, fun _ => ?_⟩
      rw [h1]; exact h2

/-! ### real semantics vs. push-unless-present semantics -/

theorem effs_eq_or_repeat (b : Nat) (iks : List IK) (s : Stack) : ∀ k, k ≤ iks.length →
    effs b 0 (iks.take k) s = effs' b 0 (iks.take k) s ∨
    ∃ k', k' < k ∧ iks[k']? = some IK.defer ∧ (b, k') ∈ effs b 0 (iks.take k') s ∧
      effs b 0 (iks.take k') s = effs' b 0 (iks.take k') s
  | 0, _ => by simp [effs, effs']
  | k + 1, hk => by
    have hk' : k < iks.length := hk
    rcases effs_eq_or_repeat b iks s k (Nat.le_of_lt hk') with ih | ⟨k', h1, h2⟩
    · have ht : iks.take (k + 1) = iks.take k ++ [iks[k]] := by
        rw [List.take_add_one]; simp [List.getElem?_eq_getElem hk']
      rw [ht, effs_append, effs'_append, ← ih]
      simp only [Nat.zero_add, List.length_take, Nat.min_eq_left (Nat.le_of_lt hk')]
      cases hik : iks[k] with
      | defer =>
        simp only [effs, effs', eff, eff', pushUnless]
        by_cases hm : (b, k) ∈ effs b 0 (iks.take k) s
        · right
          exact ⟨k, Nat.lt_succ_self k, by simp [List.getElem?_eq_getElem hk', hik], hm, ih⟩
        · left; simp [hm]
      | runDefers => left; simp [effs, effs', eff, eff']
      | other => left; simp [effs, effs', eff, eff']
    · right; exact ⟨k', Nat.lt_succ_of_lt h1, h2⟩

theorem effs'_eq_of_norepeat (b : Nat) (iks : List IK) (s : Stack)
    (h : ∀ k, iks[k]? = some IK.defer → (b, k) ∉ effs' b 0 (iks.take k) s) :
    ∀ k, k ≤ iks.length → effs b 0 (iks.take k) s = effs' b 0 (iks.take k) s := by
  intro k hk
  rcases effs_eq_or_repeat b iks s k hk with h1 | ⟨k', _, h2, h3, h4⟩
  · exact h1
  · rw [h4] at h3; exact absurd h3 (h k' h2)

theorem atEntry_real_of' (g : Cfg) : ∀ {b s}, AtEntry' g b s → AtEntry g b s ∨ RepeatsReal g := by
  intro b s h
  induction h with
  | entry => exact Or.inl AtEntry.entry
  | @step b c s _ hc ih =>
    rcases ih with ih | ih
    · rcases effs_eq_or_repeat b (blockOf g b).instrs s _ (Nat.le_refl _) with h1 | ⟨k', _, h2, h3, _⟩
      · left
        rw [List.take_length] at h1
        rw [← h1]; exact AtEntry.step ih hc
      · right; exact ⟨b, k', _, h2, ⟨s, ih, rfl⟩, h3⟩
    · exact Or.inr ih

theorem atEntry'_of_real (g : Cfg) : ∀ {b s}, AtEntry g b s → AtEntry' g b s ∨ Repeats g := by
  intro b s h
  induction h with
  | entry => exact Or.inl AtEntry'.entry
  | @step b c s _ hc ih =>
    rcases ih with ih | ih
    · rcases effs_eq_or_repeat b (blockOf g b).instrs s _ (Nat.le_refl _) with h1 | ⟨k', _, h2, h3, h4⟩
      · left
        rw [List.take_length] at h1
        rw [h1]; exact AtEntry'.step ih hc
      · right; rw [h4] at h3; exact ⟨b, k', _, h2, ⟨s, ih, rfl⟩, h3⟩
    · exact Or.inr ih

theorem stacksAt_real_of' (g : Cfg) {p : Site} {s : Stack} (h : StacksAt' g p s) :
    StacksAt g p s ∨ RepeatsReal g := by
  obtain ⟨s0, h0, rfl⟩ := h
  rcases atEntry_real_of' g h0 with h1 | h1
  · have hle : p.2 ≤ (blockOf g p.1).instrs.length ∨ (blockOf g p.1).instrs.length < p.2 :=
      Nat.lt_or_ge _ _ |>.symm
    rcases effs_eq_or_repeat p.1 (blockOf g p.1).instrs s0 (min p.2 (blockOf g p.1).instrs.length)
      (Nat.min_le_right _ _) with h2 | ⟨k', _, h2, h3, _⟩
    · left
      have ht : (blockOf g p.1).instrs.take (min p.2 (blockOf g p.1).instrs.length) =
          (blockOf g p.1).instrs.take p.2 := by
        rcases hle with hle | hle
        · rw [Nat.min_eq_left hle]
        · rw [Nat.min_eq_right (Nat.le_of_lt hle), List.take_length,
            List.take_of_length_le (Nat.le_of_lt hle)]
      rw [ht] at h2
      exact ⟨s0, h1, h2.symm⟩
    · right; exact ⟨p.1, k', _, h2, ⟨s0, h1, rfl⟩, h3⟩
  · exact Or.inr h1

theorem stacksAt'_of_real (g : Cfg) {p : Site} {s : Stack} (h : StacksAt g p s) :
    StacksAt' g p s ∨ Repeats g := by
  obtain ⟨s0, h0, rfl⟩ := h
  rcases atEntry'_of_real g h0 with h1 | h1
  · have hle : p.2 ≤ (blockOf g p.1).instrs.length ∨ (blockOf g p.1).instrs.length < p.2 :=
      Nat.lt_or_ge _ _ |>.symm
    rcases effs_eq_or_repeat p.1 (blockOf g p.1).instrs s0 (min p.2 (blockOf g p.1).instrs.length)
      (Nat.min_le_right _ _) with h2 | ⟨k', _, h2, h3, h4⟩
    · left
      have ht : (blockOf g p.1).instrs.take (min p.2 (blockOf g p.1).instrs.length) =
          (blockOf g p.1).instrs.take p.2 := by
        rcases hle with hle | hle
        · rw [Nat.min_eq_left hle]
        · rw [Nat.min_eq_right (Nat.le_of_lt hle), List.take_length,
            List.take_of_length_le (Nat.le_of_lt hle)]
      rw [ht] at h2
      exact ⟨s0, h1, h2⟩
    · right; rw [h4] at h3; exact ⟨p.1, k', _, h2, ⟨s0, h1, rfl⟩, h3⟩
  · exact Or.inr h1

theorem repeats_iff_real (g : Cfg) : Repeats g ↔ RepeatsReal g := by
  constructor
  · rintro ⟨b, j, s, hd, hs, hm⟩
    rcases stacksAt_real_of' g hs with h | h
    · exact ⟨b, j, s, hd, h, hm⟩
    · exact h
  · rintro ⟨b, j, s, hd, hs, hm⟩
    rcases stacksAt'_of_real g hs with h | h
    · exact ⟨b, j, s, hd, h, hm⟩
    · exact h

end Argot.Defers
