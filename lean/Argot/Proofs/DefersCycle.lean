/- C16: "some path pushes a defer statement that is already on the stack" ⇔ "a reachable defer
   statement lies on a control-flow cycle" (graph form of the unboundedness criterion). -/
import Argot.Proofs.Defers

namespace Argot.Defers

inductive Reach (g : Cfg) : Nat → Nat → Prop
  | refl (a : Nat) : Reach g a a
  | tail {a b c : Nat} : Reach g a b → c ∈ (blockOf g b).succs → Reach g a c

/-- block `b` lies on a cycle. -/
def OnCycle (g : Cfg) (b : Nat) : Prop := ∃ c ∈ (blockOf g b).succs, Reach g c b

/-- a `defer` statement, reachable from the entry, lies on a control-flow cycle. -/
def DeferOnCycle (g : Cfg) : Prop :=
  ∃ (b j : Nat), (blockOf g b).instrs[j]? = some IK.defer ∧ Reach g 0 b ∧ OnCycle g b

/-- SSA shape: a block that runs the defers ends the function (x/tools emits
`RunDefers; …; Return`). Checked on every dumped function by the driver. -/
def RunDefersTerminal (g : Cfg) : Prop :=
  ∀ b, IK.runDefers ∈ (blockOf g b).instrs → (blockOf g b).succs = []

def runDefersTerminal (g : Cfg) : Bool :=
  g.all (fun blk => !(blk.instrs.contains IK.runDefers) || blk.succs.isEmpty)

theorem atEntry_reach {g : Cfg} {b : Nat} {s : Stack} (h : AtEntry g b s) : Reach g 0 b := by
  induction h with
  | entry => exact Reach.refl 0
  | step _ hc ih => exact Reach.tail ih hc

/-- a site found on the stack after walking instructions was there before or was pushed by them. -/
theorem mem_effs {b : Nat} {d : Site} : ∀ (iks : List IK) (j : Nat) (s : Stack),
    d ∈ effs b j iks s → d ∈ s ∨ ∃ k, iks[k]? = some IK.defer ∧ d = (b, j + k)
  | [], _, _, h => Or.inl (by simpa [effs] using h)
  | ik :: iks, j, s, h => by
    simp only [effs] at h
    rcases mem_effs iks (j + 1) _ h with h1 | ⟨k, hk, rfl⟩
    · cases ik with
      | defer =>
        simp only [eff, List.mem_append, List.mem_singleton] at h1
        rcases h1 with h1 | rfl
        · exact Or.inl h1
        · exact Or.inr ⟨0, by simp, by simp⟩
      | runDefers => simp [eff] at h1
      | other => exact Or.inl (by simpa [eff] using h1)
    · exact Or.inr ⟨k + 1, by simpa using hk, by congr 1; omega⟩

/-- without a RunDefers among them, instructions never remove a site from the stack. -/
theorem effs_keeps {b : Nat} {d : Site} : ∀ (iks : List IK) (j : Nat) (s : Stack),
    IK.runDefers ∉ iks → d ∈ s → d ∈ effs b j iks s
  | [], _, _, _, h => by simpa [effs]
  | ik :: iks, j, s, hn, h => by
    simp only [effs]
    apply effs_keeps iks (j + 1) _ (fun hm => hn (List.mem_cons_of_mem _ hm))
    cases ik with
    | defer => simp [eff, h]
    | runDefers => simp at hn
    | other => simpa [eff]

theorem onStack_visited {g : Cfg} {c : Nat} {s : Stack} (h : AtEntry g c s) (b j : Nat)
    (hm : (b, j) ∈ s) : Reach g 0 b ∧ ∃ c' ∈ (blockOf g b).succs, Reach g c' c := by
  induction h with
  | entry => simp at hm
  | @step b0 c s0 h0 hc ih =>
    rcases mem_effs _ 0 _ hm with h1 | ⟨k, _, hk⟩
    · obtain ⟨r, c', hc', hr⟩ := ih h1
      exact ⟨r, c', hc', Reach.tail hr hc⟩
    · have hb : b = b0 := by simpa using congrArg Prod.fst hk
      subst hb
      exact ⟨atEntry_reach h0, c, hc, Reach.refl c⟩

theorem repeatsReal_cycle (g : Cfg) (h : RepeatsReal g) : DeferOnCycle g := by
  obtain ⟨b, j, s, hd, ⟨s0, h0, rfl⟩, hm⟩ := h
  have hin : (b, j) ∈ s0 := by
    rcases mem_effs _ 0 _ hm with h1 | ⟨k, hk, he⟩
    · exact h1
    · exfalso
      have hj : j = 0 + k := by simpa using congrArg Prod.snd he
      have hlt : k < ((blockOf g b).instrs.take j).length := by
        rcases Nat.lt_or_ge k ((blockOf g b).instrs.take j).length with h | h
        · exact h
        · simp [List.getElem?_eq_none h] at hk
      simp only [List.length_take] at hlt
      omega
  obtain ⟨r, c', hc', hr⟩ := onStack_visited h0 b j hin
  exact ⟨b, j, hd, r, c', hc', hr⟩

theorem reach_atEntry {g : Cfg} {b : Nat} (h : Reach g 0 b) : ∃ s, AtEntry g b s := by
  induction h with
  | refl => exact ⟨[], AtEntry.entry⟩
  | tail _ hc ih => obtain ⟨s, hs⟩ := ih; exact ⟨_, AtEntry.step hs hc⟩

theorem carry_along {g : Cfg} (ht : RunDefersTerminal g) {c b : Nat} (d : Site) (h : Reach g c b) :
    ∀ s, AtEntry g c s → d ∈ s → ∃ s', AtEntry g b s' ∧ d ∈ s' := by
  induction h with
  | refl => intro s hs hd; exact ⟨s, hs, hd⟩
  | @tail x y _ hy ih =>
    intro s hs hd
    obtain ⟨s', hs', hd'⟩ := ih s hs hd
    have hno : IK.runDefers ∉ (blockOf g x).instrs := by
      intro hm; have := ht x hm; rw [this] at hy; simp at hy
    exact ⟨_, AtEntry.step hs' hy, effs_keeps _ 0 _ hno hd'⟩

theorem effs_pushes {b : Nat} : ∀ (iks : List IK) (j0 k : Nat) (s : Stack),
    IK.runDefers ∉ iks → iks[k]? = some IK.defer → (b, j0 + k) ∈ effs b j0 iks s
  | [], _, _, _, _, hk => by simp at hk
  | ik :: iks, j0, 0, s, hn, hk => by
    simp at hk; subst hk
    simp only [effs]
    exact effs_keeps iks (j0 + 1) _ (fun hm => hn (List.mem_cons_of_mem _ hm)) (by simp [eff])
  | ik :: iks, j0, k + 1, s, hn, hk => by
    simp only [effs]
    have := effs_pushes (b := b) iks (j0 + 1) k (eff b j0 ik s) (fun hm => hn (List.mem_cons_of_mem _ hm))
      (by simpa using hk)
    have he : j0 + 1 + k = j0 + (k + 1) := by omega
    rw [he] at this; exact this

theorem cycle_repeatsReal (g : Cfg) (ht : RunDefersTerminal g) (h : DeferOnCycle g) : RepeatsReal g := by
  obtain ⟨b, j, hd, hr, c, hc, hcb⟩ := h
  obtain ⟨s0, h0⟩ := reach_atEntry hr
  have hno : IK.runDefers ∉ (blockOf g b).instrs := by
    intro hm; have := ht b hm; rw [this] at hc; simp at hc
  have h1 : AtEntry g c (effs b 0 (blockOf g b).instrs s0) := AtEntry.step h0 hc
  have hm : (b, j) ∈ effs b 0 (blockOf g b).instrs s0 := by
    have := effs_pushes (b := b) _ 0 j s0 hno hd
    simpa using this
  obtain ⟨s', hs', hd'⟩ := carry_along ht (b, j) hcb _ h1 hm
  refine ⟨b, j, _, hd, ⟨s', hs', rfl⟩, ?_⟩
  exact effs_keeps _ 0 _ (fun hm => hno (List.mem_of_mem_take hm)) hd'

theorem runDefersTerminal_iff (g : Cfg) (h : runDefersTerminal g = true) : RunDefersTerminal g := by
  intro b hm
  unfold blockOf at hm ⊢
  simp only [runDefersTerminal, List.all_eq_true, Bool.or_eq_true, Bool.not_eq_true',
    List.isEmpty_iff] at h
  by_cases hb : b < g.length
  · have hget : g.getD b default = g[b] := by simp [List.getD_eq_getElem?_getD, hb]
    rw [hget] at hm ⊢
    rcases h _ (List.getElem_mem hb) with h1 | h1
    · simp [List.contains_eq_mem, hm] at h1
    · exact h1
  · have : g.getD b default = default := by
      simp [List.getD_eq_getElem?_getD, List.getElem?_eq_none (Nat.le_of_not_lt hb)]
    rw [this]; rfl

end Argot.Defers
