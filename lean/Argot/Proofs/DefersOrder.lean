/- C16: `stackCompare` is a strict total order; union / transfer keep stack sets strictly sorted
   (hence duplicate-free). Used by the termination proof. -/
import Argot.Proofs.Defers

namespace Argot.Defers

theorem siteCompare_swap (a b : Site) : siteCompare a b = .lt ↔ siteCompare b a = .gt := by
  unfold siteCompare
  constructor <;> intro h <;>
  · repeat' split at h
    all_goals first | contradiction | skip
    all_goals repeat' split
    all_goals first | rfl | omega | contradiction

theorem siteCompare_refl (a : Site) : siteCompare a a = .eq := by
  unfold siteCompare; simp

theorem siteCompare_trans {a b c : Site} (h1 : siteCompare a b = .lt) (h2 : siteCompare b c = .lt) :
    siteCompare a c = .lt := by
  unfold siteCompare at *
  repeat' split at h1
  all_goals first | contradiction | skip
  all_goals repeat' split at h2
  all_goals first | contradiction | skip
  all_goals repeat' split
  all_goals first | rfl | omega

theorem stackCompare_swap : ∀ (a b : Stack), stackCompare a b = .lt ↔ stackCompare b a = .gt
  | [], [] => by simp [stackCompare]
  | [], _ :: _ => by simp [stackCompare]
  | _ :: _, [] => by simp [stackCompare]
  | a :: as, b :: bs => by
    have ih := stackCompare_swap as bs
    have hs := siteCompare_swap a b
    have hs' := siteCompare_swap b a
    unfold stackCompare
    cases hab : siteCompare a b <;> cases hba : siteCompare b a <;> simp_all

theorem stackCompare_refl : ∀ (a : Stack), stackCompare a a = .eq
  | [] => rfl
  | a :: as => by simp [stackCompare, siteCompare_refl, stackCompare_refl as]

theorem stackCompare_trans : ∀ {a b c : Stack}, stackCompare a b = .lt → stackCompare b c = .lt →
    stackCompare a c = .lt
  | [], [], _, h, _ => by simp [stackCompare] at h
  | [], _ :: _, [], _, h => by simp [stackCompare] at h
  | [], _ :: _, _ :: _, _, _ => by simp [stackCompare]
  | _ :: _, [], _, h, _ => by simp [stackCompare] at h
  | _ :: _, _ :: _, [], _, h => by simp [stackCompare] at h
  | a :: as, b :: bs, c :: cs, h1, h2 => by
    unfold stackCompare at h1 h2 ⊢
    cases hab : siteCompare a b <;> simp only [hab] at h1 <;> try contradiction
    · cases hbc : siteCompare b c <;> simp only [hbc] at h2 <;> try contradiction
      · simp [siteCompare_trans hab hbc]
      · have := siteCompare_eq hbc; subst this; simp [hab]
    · have := siteCompare_eq hab; subst this
      cases hbc : siteCompare a c <;> simp only [hbc] at h2 ⊢ <;> try contradiction
      exact stackCompare_trans h1 h2

/-- strictly increasing w.r.t. `stackCompare`. -/
def Sorted (l : StackSet) : Prop := l.Pairwise (fun a b => stackCompare a b = .lt)

theorem Sorted.nodup {l : StackSet} (h : Sorted l) : l.Nodup := by
  unfold Sorted at h
  refine List.Pairwise.imp ?_ h
  intro a b hab he
  subst he
  rw [stackCompare_refl] at hab; contradiction

/-- everything in `l` is above `x`. -/
def Above (x : Stack) (l : StackSet) : Prop := ∀ y ∈ l, stackCompare x y = .lt

theorem sorted_cons {x : Stack} {l : StackSet} : Sorted (x :: l) ↔ Above x l ∧ Sorted l := by
  simp [Sorted, Above, List.pairwise_cons]

theorem union_sorted : ∀ (a b : StackSet), Sorted a → Sorted b → Sorted (stackSetUnion a b).1 := by
  intro a b
  fun_induction stackSetUnion a b with
  | case1 => intros; simp [Sorted]
  | case2 => intro h _; exact h
  | case3 => intro _ h; exact h
  | case4 a as b bs hc r ih =>
    intro ha hb
    obtain ⟨ha1, ha2⟩ := sorted_cons.1 ha
    obtain ⟨hb1, _⟩ := sorted_cons.1 hb
    refine sorted_cons.2 ⟨?_, ih ha2 hb⟩
    intro y hy
    rcases (union_mem y _ _).1 hy with h | h
    · exact ha1 y h
    · cases h with
      | head => exact hc
      | tail _ h => exact stackCompare_trans hc (hb1 y h)
  | case5 a as b bs hc r ih =>
    intro ha hb
    obtain ⟨ha1, _⟩ := sorted_cons.1 ha
    obtain ⟨hb1, hb2⟩ := sorted_cons.1 hb
    have hba : stackCompare b a = .lt := (stackCompare_swap b a).2 hc
    refine sorted_cons.2 ⟨?_, ih ha hb2⟩
    intro y hy
    rcases (union_mem y _ _).1 hy with h | h
    · cases h with
      | head => exact hba
      | tail _ h => exact stackCompare_trans hba (ha1 y h)
    · exact hb1 y h
  | case6 a as b bs hc r ih =>
    intro ha hb
    obtain ⟨ha1, ha2⟩ := sorted_cons.1 ha
    obtain ⟨hb1, hb2⟩ := sorted_cons.1 hb
    have := stackCompare_eq hc; subst this
    refine sorted_cons.2 ⟨?_, ih ha2 hb2⟩
    intro y hy
    rcases (union_mem y _ _).1 hy with h | h
    · exact ha1 y h
    · exact hb1 y h

theorem insertStack_sorted (s : Stack) : ∀ (l : StackSet), Sorted l → Sorted (insertStack s l)
  | [], _ => by simp [insertStack, Sorted]
  | t :: ts, h => by
    obtain ⟨h1, h2⟩ := sorted_cons.1 h
    unfold insertStack
    split
    · rename_i hc
      refine sorted_cons.2 ⟨?_, h⟩
      intro y hy
      cases hy with
      | head => exact hc
      | tail _ hy => exact stackCompare_trans hc (h1 y hy)
    · exact h
    · rename_i hc
      have hts : stackCompare t s = .lt := (stackCompare_swap t s).2 hc
      refine sorted_cons.2 ⟨?_, insertStack_sorted s ts h2⟩
      intro y hy
      rcases (insertStack_mem s y ts).1 hy with rfl | hy
      · exact hts
      · exact h1 y hy

theorem sortDedup_sorted : ∀ (l : StackSet), Sorted (sortDedup l)
  | [] => by simp [sortDedup, Sorted]
  | x :: xs => by
    have ih := sortDedup_sorted xs
    simp only [sortDedup, List.foldr_cons] at *
    exact insertStack_sorted x _ ih

theorem transfer_sorted (b j : Nat) (ik : IK) (v : StackSet) (h : Sorted v) : Sorted (transfer b j ik v).1 := by
  cases ik with
  | defer => exact sortDedup_sorted _
  | runDefers => simp [transfer, Sorted]
  | other => exact h

theorem walkVal_sorted (b : Nat) : ∀ (iks : List IK) (j : Nat) (v : StackSet), Sorted v → Sorted (walkVal b j iks v)
  | [], _, _, h => by simpa [walkVal]
  | ik :: iks, j, v, h => by
    simp only [walkVal]; exact walkVal_sorted b iks (j + 1) _ (transfer_sorted b j ik v h)

/-- the merge never loses an element of `a`; a reported change means at least one more element. -/
theorem union_length : ∀ (a b : StackSet), a.length ≤ (stackSetUnion a b).1.length ∧
    ((stackSetUnion a b).2 = false → a.length + 1 ≤ (stackSetUnion a b).1.length) := by
  intro a b
  fun_induction stackSetUnion a b with
  | case1 => simp
  | case2 => simp
  | case3 => simp
  | case4 a as b bs hc r ih => simp only [r] at *; simp; omega
  | case5 a as b bs hc r ih => simp only [r] at *; simp at ih ⊢; omega
  | case6 a as b bs hc r ih => simp only [r] at *; simp; omega

end Argot.Defers
