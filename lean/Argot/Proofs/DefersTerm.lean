/- C16: termination of the fixpoint loop with an explicit bound on the number of outer iterations. -/
import Argot.Proofs.DefersOrder

namespace Argot.Defers

/-! ### counting -/

theorem nodup_subset_length_le {α} [DecidableEq α] : ∀ (l L : List α), l.Nodup → (∀ x ∈ l, x ∈ L) →
    l.length ≤ L.length
  | [], _, _, _ => by simp
  | x :: l, L, hn, hs => by
    have hx : x ∈ L := hs x (by simp)
    obtain ⟨hxl, hn'⟩ := List.nodup_cons.1 hn
    have : l.length ≤ (L.erase x).length := by
      apply nodup_subset_length_le l (L.erase x) hn'
      intro y hy
      have hne : y ≠ x := fun h => hxl (h ▸ hy)
      exact (List.mem_erase_of_ne hne).2 (hs y (by simp [hy]))
    rw [List.length_erase_of_mem hx] at this
    have hpos : 0 < L.length := List.length_pos_of_mem hx
    simp only [List.length_cons]; omega

/-- all lists over `D` of length ≤ k. -/
def allLists {α} (D : List α) : Nat → List (List α)
  | 0 => [[]]
  | k + 1 => [] :: D.flatMap (fun d => (allLists D k).map (d :: ·))

theorem mem_allLists {α} (D : List α) : ∀ (k : Nat) (s : List α), s.length ≤ k → (∀ d ∈ s, d ∈ D) →
    s ∈ allLists D k
  | 0, s, h, _ => by
    have : s = [] := List.eq_nil_of_length_eq_zero (Nat.le_zero.1 h)
    simp [allLists, this]
  | k + 1, [], _, _ => by simp [allLists]
  | k + 1, x :: xs, h, hs => by
    simp only [allLists, List.mem_cons, List.mem_flatMap, List.mem_map]
    right
    refine ⟨x, hs x (by simp), xs, mem_allLists D k xs (by simpa using h) (fun d hd => hs d (by simp [hd])), rfl⟩

/-- every instruction site of the function. -/
def allSites (g : Cfg) : List Site :=
  (List.range g.length).flatMap (fun b => (List.range (blockOf g b).instrs.length).map (fun j => (b, j)))

theorem mem_allSites (g : Cfg) (d : Site) (h1 : d.1 < g.length) (h2 : d.2 < (blockOf g d.1).instrs.length) :
    d ∈ allSites g := by
  simp only [allSites, List.mem_flatMap, List.mem_range, List.mem_map]
  exact ⟨d.1, h1, d.2, h2, rfl⟩

/-- bound on the size of any block state. -/
def maxStacks (g : Cfg) : Nat := (allLists (allSites g) (allSites g).length).length

/-- stacks built by the analysis: duplicate-free lists of instruction sites. -/
def ValidStack (g : Cfg) (s : Stack) : Prop :=
  s.Nodup ∧ ∀ d ∈ s, d.1 < g.length ∧ d.2 < (blockOf g d.1).instrs.length

theorem effs'_valid (g : Cfg) (b : Nat) (hb : b < g.length) : ∀ (iks : List IK) (j : Nat) (s : Stack),
    j + iks.length ≤ (blockOf g b).instrs.length → ValidStack g s → ValidStack g (effs' b j iks s)
  | [], _, _, _, h => by simpa [effs']
  | ik :: iks, j, s, hl, h => by
    simp only [effs']
    apply effs'_valid g b hb iks (j + 1) _ (by simp at hl; omega)
    cases ik with
    | defer =>
      simp only [eff', pushUnless]
      split
      · exact h
      · rename_i hm
        refine ⟨?_, ?_⟩
        · rw [List.nodup_append]
          refine ⟨h.1, by simp, ?_⟩
          intro a ha c hc
          simp at hc; subst hc
          intro he; subst he; exact hm ha
        · intro d hd
          simp only [List.mem_append, List.mem_singleton] at hd
          rcases hd with hd | rfl
          · exact h.2 d hd
          · simp at hl; exact ⟨hb, by simp; omega⟩
    | runDefers => simp [eff', ValidStack]
    | other => simpa [eff']

theorem atEntry'_valid (g : Cfg) (hg : g ≠ []) (hwf : WF g) : ∀ {b s}, AtEntry' g b s →
    b < g.length ∧ ValidStack g s := by
  intro b s h
  induction h with
  | entry => exact ⟨List.length_pos_iff.mpr hg, by simp [ValidStack]⟩
  | @step b c s _ hc ih =>
    exact ⟨hwf b c hc, effs'_valid g b ih.1 _ 0 s (by simp) ih.2⟩

theorem valid_mem_all (g : Cfg) (s : Stack) (h : ValidStack g s) :
    s ∈ allLists (allSites g) (allSites g).length := by
  apply mem_allLists
  · exact nodup_subset_length_le s _ h.1 (fun d hd => mem_allSites g d (h.2 d hd).1 (h.2 d hd).2)
  · exact fun d hd => mem_allSites g d (h.2 d hd).1 (h.2 d hd).2

theorem state_size_le (g : Cfg) (S : StackSet) (hs : Sorted S) (hv : ∀ s ∈ S, ValidStack g s) :
    S.length ≤ maxStacks g :=
  nodup_subset_length_le S _ hs.nodup (fun s h => valid_mem_all g s (hv s h))

/-! ### the potential -/

def total (l : List StackSet) : Nat := (l.map List.length).sum

def falses (l : List Bool) : Nat := l.count false

/-- `Φ` never decreases and grows with every processed block. -/
def potential (σ : State) : Nat := 2 * total σ.init + falses σ.changed

theorem total_set : ∀ (l : List StackSet) (c : Nat) (v : StackSet), c < l.length →
    total (l.set c v) + (l.getD c []).length = total l + v.length
  | [], _, _, h => by simp at h
  | x :: xs, 0, v, _ => by simp [total]; omega
  | x :: xs, c + 1, v, h => by
    have := total_set xs c v (by simpa using h)
    simp [total] at this ⊢; omega

theorem falses_set : ∀ (l : List Bool) (c : Nat) (v : Bool), c < l.length →
    falses (l.set c v) + (if l.getD c false = false then 1 else 0) = falses l + (if v = false then 1 else 0)
  | [], _, _, h => by simp at h
  | x :: xs, 0, v, _ => by cases x <;> cases v <;> simp [falses]
  | x :: xs, c + 1, v, h => by
    have := falses_set xs c v (by simpa using h)
    cases x <;> simp [falses] at this ⊢ <;> omega

theorem total_le (M : Nat) : ∀ (l : List StackSet), (∀ S ∈ l, S.length ≤ M) → total l ≤ l.length * M
  | [], _ => by simp [total]
  | x :: xs, h => by
    have := total_le M xs (fun S hS => h S (by simp [hS]))
    have hx := h x (by simp)
    simp [total] at this ⊢
    rw [Nat.add_mul]; omega

theorem falses_le (l : List Bool) : falses l ≤ l.length := List.count_le_length

theorem propagate_potential (value : StackSet) : ∀ (cs : List Nat) (init : List StackSet) (ch : List Bool),
    init.length = ch.length →
    2 * total init + falses ch ≤
      2 * total (propagate value cs init ch).1 + falses (propagate value cs init ch).2
  | [], _, _, _ => by simp [propagate]
  | c :: cs, init, ch, hl => by
    simp only [propagate]
    refine Nat.le_trans ?_ (propagate_potential value cs _ _ (by simpa using hl))
    by_cases hc : c < init.length
    · have ht := total_set init c (stackSetUnion (init.getD c []) value).1 hc
      have hf := falses_set ch c (ch.getD c false || !(stackSetUnion (init.getD c []) value).2) (hl ▸ hc)
      have hu := union_length (init.getD c []) value
      cases hcc : ch.getD c false <;> cases hsame : (stackSetUnion (init.getD c []) value).2 <;>
        simp only [hcc, hsame, Bool.not_false, Bool.not_true, Bool.or_true, Bool.or_false] at hf ⊢ <;> simp at hf
      · have := hu.2 hsame; omega
      · have := hu.1; omega
      · have := hu.2 hsame; omega
      · have := hu.1; omega
    · have h1 : init.set c (stackSetUnion (init.getD c []) value).1 = init :=
        List.set_eq_of_length_le (Nat.le_of_not_lt hc)
      have h2 : ch.set c (ch.getD c false || !(stackSetUnion (init.getD c []) value).2) = ch :=
        List.set_eq_of_length_le (hl ▸ Nat.le_of_not_lt hc)
      rw [h1, h2]; exact Nat.le_refl _

theorem process_potential (g : Cfg) (i : Nat) (σ : State) (hl : σ.init.length = σ.changed.length)
    (hi : i < σ.changed.length) (hch : σ.changed.getD i false = true) :
    potential σ + 1 ≤ potential (processBlock g i σ) := by
  unfold potential processBlock
  simp only
  have hp := propagate_potential (walkVal i 0 (g.getD i default).instrs (σ.init.getD i []))
    (g.getD i default).succs σ.init (σ.changed.set i false) (by simpa using hl)
  have hf := falses_set σ.changed i false hi
  simp only [hch] at hf
  simp at hf
  omega

/-! ### sortedness invariant -/

theorem propagate_sorted (value : StackSet) (hv : Sorted value) :
    ∀ (cs : List Nat) (init : List StackSet) (ch : List Bool),
    (∀ b, Sorted (init.getD b [])) → ∀ b, Sorted ((propagate value cs init ch).1.getD b [])
  | [], _, _, h => by simpa [propagate]
  | c :: cs, init, ch, h => by
    simp only [propagate]
    apply propagate_sorted value hv cs
    intro b
    rw [getD_set]
    split
    · exact union_sorted _ _ (h c) hv
    · exact h b

theorem process_sorted (g : Cfg) (i : Nat) (σ : State) (h : ∀ b, Sorted (σ.init.getD b [])) :
    ∀ b, Sorted ((processBlock g i σ).init.getD b []) :=
  propagate_sorted _ (walkVal_sorted i _ 0 _ (h i)) _ _ _ h

theorem init_sorted (g : Cfg) : ∀ b, Sorted ((initState g).init.getD b []) := by
  intro b
  simp only [initState, getD_set]
  split
  · simp [Sorted]
  · simp only [List.getD_eq_getElem?_getD, List.getElem?_replicate]
    split <;> simp [Sorted]

/-! ### rounds -/

structure TermInv (g : Cfg) (σ : State) : Prop where
  inv : LoopInv g σ
  sorted : ∀ b, Sorted (σ.init.getD b [])

def potBound (g : Cfg) : Nat := 2 * (g.length * maxStacks g) + g.length

theorem potential_le (g : Cfg) (hg : g ≠ []) (hwf : WF g) (σ : State) (T : TermInv g σ) :
    potential σ ≤ potBound g := by
  unfold potential potBound
  have h1 : total σ.init ≤ σ.init.length * maxStacks g := by
    apply total_le
    intro S hS
    obtain ⟨k, hk, rfl⟩ := List.getElem_of_mem hS
    have hget : σ.init.getD k [] = σ.init[k] := by simp [List.getD_eq_getElem?_getD, hk]
    apply state_size_le g
    · rw [← hget]; exact T.sorted k
    · intro s hs
      exact (atEntry'_valid g hg hwf (T.inv.sound k s (by rw [hget]; exact hs))).2
  have h2 := falses_le σ.changed
  rw [T.inv.len1] at h1; rw [T.inv.len2] at h2
  omega

theorem round_term (g : Cfg) (hwf : WF g) : ∀ (ord : List Nat) (σ : State), TermInv g σ →
    TermInv g (round g ord σ).1 ∧ potential σ ≤ potential (round g ord σ).1 ∧
    ((round g ord σ).2 = true → potential σ + 1 ≤ potential (round g ord σ).1)
  | [], σ, T => by simp [round, T]
  | i :: is, σ, T => by
    unfold round
    split
    · rename_i hch
      have hi : i < g.length := by
        rcases Nat.lt_or_ge i g.length with h | h
        · exact h
        · have hge : σ.changed.length ≤ i := by rw [T.inv.len2]; exact h
          simp [List.getD_eq_getElem?_getD, List.getElem?_eq_none hge] at hch
      have T' : TermInv g (processBlock g i σ) :=
        ⟨process_inv g hwf i σ hi hch T.inv, process_sorted g i σ T.sorted⟩
      have hp := process_potential g i σ (by rw [T.inv.len1, T.inv.len2]) (by rw [T.inv.len2]; exact hi) hch
      obtain ⟨h1, h2, _⟩ := round_term g hwf is _ T'
      exact ⟨h1, by simp only; omega, fun _ => by simp only; omega⟩
    · exact round_term g hwf is σ T

theorem iterate_term (g : Cfg) (hg : g ≠ []) (hwf : WF g) (ord : List Nat) : ∀ (n : Nat) (σ : State),
    TermInv g σ → potBound g < potential σ + n → (iterate g ord n σ).2 = true
  | 0, σ, T, h => by
    have := potential_le g hg hwf σ T; omega
  | n + 1, σ, T, h => by
    unfold iterate
    simp only
    obtain ⟨T', _, h3⟩ := round_term g hwf ord σ T
    split
    · rename_i hc
      exact iterate_term g hg hwf ord n _ T' (by have := h3 hc; omega)
    · rfl

end Argot.Defers
