/- Helper lemmas for C15: the composite operations `weakAssign`, `storeField`, `callUnknown` on the
   flat fragment (no subnode edge leaves the source, so the node group is not touched). -/
import Argot.Proofs.EGraphLattice

namespace Argot.EGraph
namespace EGraph

variable {I : Node → Nat}

theorem Flags.int_of_le {a b : Flags} (h : a.le b = true) (ha : a.int = true) : b.int = true := by
  rcases a with ⟨a1, a2, a3⟩; rcases b with ⟨b1, b2, b3⟩
  cases a1 <;> cases a2 <;> cases a3 <;> cases b1 <;> cases b2 <;> cases b3 <;> simp_all [Flags.le]

theorem Flags.ext_of_le {a b : Flags} (h : a.le b = true) (ha : a.ext = true) : b.ext = true := by
  rcases a with ⟨a1, a2, a3⟩; rcases b with ⟨b1, b2, b3⟩
  cases a1 <;> cases a2 <;> cases a3 <;> cases b1 <;> cases b2 <;> cases b3 <;> simp_all [Flags.le]

theorem Flags.any_of_ext_or_int {a : Flags} (h : a.ext = true ∨ a.int = true) : a.any = true := by
  rcases a with ⟨a1, a2, a3⟩
  cases a1 <;> cases a2 <;> cases a3 <;> simp_all [Flags.any]

/-- `AddEdge` yields the least well-formed graph above `g` that has the edge -/
theorem addEdge_le_of_le (hI : ∀ n, I n ≤ 2) {g k : EGraph} (hg : WF I g) (hk : WF I k) (hle : LE g k)
    {a b : Node} {f : Flags} (hf : f.any = true) (hedge : f.le (k.fl a b) = true) :
    LE (addEdge I g a b f) k := by
  have hany : (k.fl a b).any = true := Flags.any_of_le hedge hf
  obtain ⟨ha, hb⟩ := hk.ends a b hany
  have hfl : ∀ x y, (((addEdge I g a b f).fl x y).le (k.fl x y)) = true := by
    intro x y
    rw [addEdge_fl hI hg.toRep]
    split
    · rename_i e; obtain ⟨rfl, rfl⟩ := e; exact Flags.or_le (hle.fl x y) hedge
    · exact hle.fl x y
  refine ⟨hfl, ?_, ?_⟩
  · intro x hx
    rcases (addEdge_dom hg.toRep a b f x).1 hx with h | rfl | rfl
    · exact hle.dom x h
    · exact ha
    · exact hb
  · exact addEdge_upper hI hg.toRep a b f hf k.st (closedFl_of_le hk.closed hfl) hle.st (hk.intr a ha) (hk.intr b hb)

theorem addNode_le_of_le {g k : EGraph} (hg : WF I g) (hk : WF I k) (hle : LE g k) {n : Node} (hn : n ∈ k.dom) :
    LE (addNode I g n) k := by
  refine ⟨fun a b => by rw [addNode_fl hg.toRep]; exact hle.fl a b, ?_, ?_⟩
  · intro x hx
    rcases (mem_addNode_dom g n x).1 hx with h | rfl
    · exact hle.dom x h
    · exact hn
  · exact addNode_upper n k.st hle.st (hk.intr n hn)

/-! ### the flat fragment of `WeakAssign` -/

theorem weakAssign_flat_fold (ng : NG) (dest : Node) (fuel : Nat) (es : List (Node × Flags)) (g : EGraph)
    (hes : ∀ e, e ∈ es → e.2.sub = false) :
    es.foldl (fun (acc : NG × EGraph) e =>
      let a1 := if e.2.ext then (acc.1, addEdge acc.1.intr acc.2 dest e.1 Flags.internal) else acc
      let a2 := if e.2.int then (a1.1, addEdge a1.1.intr a1.2 dest e.1 Flags.internal) else a1
      if e.2.sub then
        match a2.1.par e.1 with
        | some (_, f) =>
          let r := fieldSubnode a2.1 a2.2 dest f
          weakAssign fuel r.1 r.2.1 r.2.2 e.1
        | none => a2
      else a2) (ng, g) = (ng, es.foldl (waStep ng.intr dest) g) := by
  induction es generalizing g with
  | nil => rfl
  | cons e es ih =>
    simp only [List.foldl_cons]
    have hs := hes e List.mem_cons_self
    have : (let a1 := if e.2.ext then ((ng, g).1, addEdge (ng, g).1.intr (ng, g).2 dest e.1 Flags.internal) else (ng, g)
      let a2 := if e.2.int then (a1.1, addEdge a1.1.intr a1.2 dest e.1 Flags.internal) else a1
      if e.2.sub then
        match a2.1.par e.1 with
        | some (_, f) =>
          let r := fieldSubnode a2.1 a2.2 dest f
          weakAssign fuel r.1 r.2.1 r.2.2 e.1
        | none => a2
      else a2) = (ng, waStep ng.intr dest g e) := by
      simp only [hs, waStep]
      cases e.2.ext <;> cases e.2.int <;> simp
    rw [this]
    exact ih _ (fun e' he' => hes e' (List.mem_cons_of_mem _ he'))

/-- on the flat fragment `WeakAssign(dest, src)` adds `dest` and one internal edge `dest → p` for
every pointee `p` of `src` -/
theorem weakAssign_flat (ng : NG) (g : EGraph) (fuel : Nat) (dest src : Node)
    (hns : NoSubOut (addNode ng.intr g dest) src) :
    weakAssign (fuel + 1) ng g dest src =
      (ng, ((pointees (addNode ng.intr g dest) src).map fun d => (d, (addNode ng.intr g dest).fl src d)).foldl
        (waStep ng.intr dest) (addNode ng.intr g dest)) := by
  unfold weakAssign
  apply weakAssign_flat_fold
  intro e he
  simp only [List.mem_map] at he
  obtain ⟨d, _, rfl⟩ := he
  exact hns d

theorem waStep_wf (hI : ∀ n, I n ≤ 2) {g : EGraph} (hg : WF I g) (dest : Node) (e : Node × Flags) :
    WF I (waStep I dest g e) := by
  unfold waStep
  cases e.2.ext <;> cases e.2.int <;> simp <;>
    first | exact hg | exact addEdge_wf hI hg _ _ _ | exact addEdge_wf hI (addEdge_wf hI hg _ _ _) _ _ _

theorem waStep_ge (hI : ∀ n, I n ≤ 2) {g : EGraph} (hg : WF I g) (dest : Node) (e : Node × Flags) :
    LE g (waStep I dest g e) := by
  unfold waStep
  cases e.2.ext <;> cases e.2.int <;> simp
  · exact LE.refl g
  · exact addEdge_le hI hg.toRep _ _ _
  · exact addEdge_le hI hg.toRep _ _ _
  · exact (addEdge_le hI hg.toRep _ _ _).trans (addEdge_le hI (addEdge_wf hI hg _ _ _).toRep _ _ _)

theorem waStep_le_of_le (hI : ∀ n, I n ≤ 2) {g k : EGraph} (hg : WF I g) (hk : WF I k) (hle : LE g k)
    (dest : Node) (e : Node × Flags) (hedge : (e.2.ext = true ∨ e.2.int = true) → (k.fl dest e.1).int = true) :
    LE (waStep I dest g e) k := by
  have hi : ∀ (c : Flags), c.int = true → Flags.internal.le c = true := by
    intro c hc; rcases c with ⟨c1, c2, c3⟩; simp_all [Flags.le, Flags.internal]
  unfold waStep
  cases hext : e.2.ext <;> cases hint : e.2.int <;> simp
  · exact hle
  · exact addEdge_le_of_le hI hg hk hle rfl (hi _ (hedge (Or.inr hint)))
  · exact addEdge_le_of_le hI hg hk hle rfl (hi _ (hedge (Or.inl hext)))
  · exact addEdge_le_of_le hI (addEdge_wf hI hg _ _ _) hk
      (addEdge_le_of_le hI hg hk hle rfl (hi _ (hedge (Or.inl hext)))) rfl (hi _ (hedge (Or.inl hext)))

theorem waStep_has_edge (hI : ∀ n, I n ≤ 2) {g : EGraph} (hg : WF I g) (dest : Node) (e : Node × Flags)
    (h : e.2.ext = true ∨ e.2.int = true) : ((waStep I dest g e).fl dest e.1).int = true := by
  have hint : ∀ (c : Flags), (c.or Flags.internal).int = true := by
    intro c; rcases c with ⟨c1, c2, c3⟩; simp [Flags.or, Flags.internal]
  unfold waStep
  cases hext : e.2.ext <;> cases hi : e.2.int <;> simp
  · rcases h with h | h
    · rw [hext] at h; exact absurd h (by simp)
    · rw [hi] at h; exact absurd h (by simp)
  · rw [addEdge_fl hI hg.toRep, if_pos ⟨rfl, rfl⟩]; exact hint _
  · rw [addEdge_fl hI hg.toRep, if_pos ⟨rfl, rfl⟩]; exact hint _
  · rw [addEdge_fl hI (addEdge_wf hI hg _ _ _).toRep, if_pos ⟨rfl, rfl⟩]; exact hint _

structure WaFlatSpec (I : Node → Nat) (g : EGraph) (dest src : Node) (r : EGraph) : Prop where
  wf : WF I r
  ge : LE g r
  dest_mem : dest ∈ r.dom
  edges : ∀ p, ((g.fl src p).ext = true ∨ (g.fl src p).int = true) → (r.fl dest p).int = true
  least : ∀ k, WF I k → LE g k → dest ∈ k.dom →
    (∀ p, ((g.fl src p).ext = true ∨ (g.fl src p).int = true) → (k.fl dest p).int = true) → LE r k

theorem waFlat_spec (hI : ∀ n, I n ≤ 2) {g : EGraph} (hg : WF I g) (dest src : Node) :
    WaFlatSpec I g dest src (waFlat I g dest src) := by
  have hwf1 := addNode_wf hI hg dest
  have hfl1 : ∀ a b, (addNode I g dest).fl a b = g.fl a b := fun a b => addNode_fl hg.toRep dest a b
  -- fold facts
  have key := foldl_inv (waStep I dest)
    (fun c => WF I c ∧ LE (addNode I g dest) c)
    (fun e c => (e.2.ext = true ∨ e.2.int = true) → (c.fl dest e.1).int = true)
    ((pointees (addNode I g dest) src).map fun d => (d, (addNode I g dest).fl src d)) (addNode I g dest)
    ⟨hwf1, LE.refl _⟩
    (fun c e _ inv => ⟨⟨waStep_wf hI inv.1 dest e, inv.2.trans (waStep_ge hI inv.1 dest e)⟩,
      waStep_has_edge hI inv.1 dest e⟩)
    (fun c e e' _ inv hq h => Flags.int_of_le ((waStep_ge hI inv.1 dest e').fl dest e.1) (hq h))
  obtain ⟨⟨hwf, hge⟩, hedges⟩ := key
  refine ⟨hwf, (addNode_le hg.toRep dest).trans hge, hge.dom dest ((mem_addNode_dom g dest dest).2 (Or.inr rfl)), ?_, ?_⟩
  · intro p hp
    have hany : (g.fl src p).any = true := Flags.any_of_ext_or_int hp
    have hpd : p ∈ (addNode I g dest).dom := (mem_addNode_dom g dest p).2 (Or.inl (hg.ends src p hany).2)
    have hmem : (p, (addNode I g dest).fl src p) ∈
        (pointees (addNode I g dest) src).map fun d => (d, (addNode I g dest).fl src d) := by
      apply List.mem_map.2
      exact ⟨p, mem_succs.2 ⟨hpd, by rw [hfl1]; exact hany⟩, rfl⟩
    have := hedges _ hmem
    exact this (by simpa [hfl1] using hp)
  · intro k hk hle hd hke
    have hle1 : LE (addNode I g dest) k := addNode_le_of_le hg hk hle hd
    have := foldl_keep (waStep I dest) (fun c => WF I c) (fun c => LE c k)
      ((pointees (addNode I g dest) src).map fun d => (d, (addNode I g dest).fl src d)) (addNode I g dest)
      hwf1 hle1 (fun c e _ hc => waStep_wf hI hc dest e)
      (fun c e he hc hq => by
        apply waStep_le_of_le hI hc hk hq dest e
        obtain ⟨d, _, rfl⟩ := List.mem_map.1 he
        simp only [hfl1]
        exact hke d)
    exact this.2

/-- **weakAssign is monotone on the flat fragment** (declaratively) -/
theorem waFlat_mono_le (hI : ∀ n, I n ≤ 2) {g h : EGraph} (hg : WF I g) (hh : WF I h) (hle : LE g h)
    (dest src : Node) : LE (waFlat I g dest src) (waFlat I h dest src) := by
  have sg := waFlat_spec hI hg dest src
  have sh := waFlat_spec hI hh dest src
  apply sg.least _ sh.wf (hle.trans sh.ge) sh.dest_mem
  intro p hp
  apply sh.edges p
  rcases hp with hp | hp
  · exact Or.inl (Flags.ext_of_le (hle.fl src p) hp)
  · exact Or.inr (Flags.int_of_le (hle.fl src p) hp)

/-! ### rows and subnode bits are untouched by the flat `WeakAssign` -/

theorem addEdge_internal_sub (hI : ∀ n, I n ≤ 2) {g : EGraph} (hg : WF I g) (d p a b : Node) :
    ((addEdge I g d p Flags.internal).fl a b).sub = (g.fl a b).sub := by
  rw [addEdge_fl hI hg.toRep]
  split
  · rename_i e; obtain ⟨rfl, rfl⟩ := e
    generalize g.fl a b = c; rcases c with ⟨c1, c2, c3⟩; simp [Flags.or, Flags.internal]
  · rfl

theorem addEdge_row (hI : ∀ n, I n ≤ 2) {g : EGraph} (hg : WF I g) (d p : Node) (f : Flags) {a : Node}
    (ha : a ≠ d) (b : Node) : (addEdge I g d p f).fl a b = g.fl a b := by
  rw [addEdge_fl hI hg.toRep, if_neg (fun e => ha e.1)]

theorem waStep_sub_row (hI : ∀ n, I n ≤ 2) {g : EGraph} (hg : WF I g) (dest : Node) (e : Node × Flags) :
    (∀ a b, ((waStep I dest g e).fl a b).sub = (g.fl a b).sub) ∧
    (∀ a, a ≠ dest → ∀ b, (waStep I dest g e).fl a b = g.fl a b) := by
  unfold waStep
  cases e.2.ext <;> cases e.2.int <;> simp
  · exact ⟨fun a b => addEdge_internal_sub hI hg _ _ a b, fun a ha b => addEdge_row hI hg _ _ _ ha b⟩
  · exact ⟨fun a b => addEdge_internal_sub hI hg _ _ a b, fun a ha b => addEdge_row hI hg _ _ _ ha b⟩
  · have hw := addEdge_wf hI hg dest e.1 Flags.internal
    exact ⟨fun a b => by rw [addEdge_internal_sub hI hw, addEdge_internal_sub hI hg],
      fun a ha b => by rw [addEdge_row hI hw _ _ _ ha, addEdge_row hI hg _ _ _ ha]⟩

theorem waFlat_sub_row (hI : ∀ n, I n ≤ 2) {g : EGraph} (hg : WF I g) (dest src : Node) :
    (∀ a b, ((waFlat I g dest src).fl a b).sub = (g.fl a b).sub) ∧
    (∀ a, a ≠ dest → ∀ b, (waFlat I g dest src).fl a b = g.fl a b) := by
  have key := foldl_keep (waStep I dest) (fun c => WF I c)
    (fun c => (∀ a b, (c.fl a b).sub = (g.fl a b).sub) ∧ (∀ a, a ≠ dest → ∀ b, c.fl a b = g.fl a b))
    ((pointees (addNode I g dest) src).map fun d => (d, (addNode I g dest).fl src d)) (addNode I g dest)
    (addNode_wf hI hg dest)
    ⟨fun a b => by rw [addNode_fl hg.toRep], fun a _ b => addNode_fl hg.toRep dest a b⟩
    (fun c e _ hc => waStep_wf hI hc dest e)
    (fun c e _ hc hq => by
      obtain ⟨h1, h2⟩ := waStep_sub_row hI hc dest e
      exact ⟨fun a b => by rw [h1, hq.1], fun a ha b => by rw [h2 a ha, hq.2 a ha]⟩)
  exact key.2

/-! ### folds of flat weak assignments (`StoreField` / `LoadField` with an empty field name) -/

/-- the graph computed by a sequence of flat weak assignments -/
def foldWA (I : Node → Nat) (g : EGraph) (ps : List (Node × Node)) : EGraph :=
  ps.foldl (fun g pr => waFlat I g pr.1 pr.2) g

theorem foldWA_spec (hI : ∀ n, I n ≤ 2) {g : EGraph} (hg : WF I g) (ps : List (Node × Node)) :
    WF I (foldWA I g ps) ∧ LE g (foldWA I g ps) ∧
    ∀ pr, pr ∈ ps → ∀ q, ((g.fl pr.2 q).ext = true ∨ (g.fl pr.2 q).int = true) →
      ((foldWA I g ps).fl pr.1 q).int = true := by
  have key := foldl_inv (fun (c : EGraph) (pr : Node × Node) => waFlat I c pr.1 pr.2)
    (fun c => WF I c ∧ LE g c)
    (fun pr c => ∀ q, ((g.fl pr.2 q).ext = true ∨ (g.fl pr.2 q).int = true) → (c.fl pr.1 q).int = true) ps g
    ⟨hg, LE.refl g⟩
    (fun c pr _ inv => by
      have sp := waFlat_spec hI inv.1 pr.1 pr.2
      refine ⟨⟨sp.wf, inv.2.trans sp.ge⟩, fun q hq => sp.edges q ?_⟩
      rcases hq with h | h
      · exact Or.inl (Flags.ext_of_le (inv.2.fl _ _) h)
      · exact Or.inr (Flags.int_of_le (inv.2.fl _ _) h))
    (fun c pr pr' _ inv hq q he => by
      have sp := waFlat_spec hI inv.1 pr'.1 pr'.2
      exact Flags.int_of_le (sp.ge.fl pr.1 q) (hq q he))
  exact ⟨key.1.1, key.1.2, key.2⟩

/-- **monotone**, when no source of an assignment is the destination of one (in SSA form the value
nodes read by a store or load are never pointees written by it) -/
theorem foldWA_mono_le (hI : ∀ n, I n ≤ 2) {g h : EGraph} (hg : WF I g) (hh : WF I h) (hle : LE g h)
    (ps ps' : List (Node × Node)) (hsub : ∀ pr, pr ∈ ps → pr ∈ ps')
    (hdisj : ∀ pr pr', pr ∈ ps → pr' ∈ ps → pr.2 ≠ pr'.1)
    (hdom : ∀ pr, pr ∈ ps → pr.1 ∈ h.dom) : LE (foldWA I g ps) (foldWA I h ps') := by
  obtain ⟨hK, hhK, hKe⟩ := foldWA_spec hI hh ps'
  -- generalise over the remaining suffix of ps
  suffices hgen : ∀ (l : List (Node × Node)) (c : EGraph), (∀ pr, pr ∈ l → pr ∈ ps) → WF I c →
      LE c (foldWA I h ps') → (∀ pr, pr ∈ ps → ∀ q, c.fl pr.2 q = g.fl pr.2 q) →
      LE (foldWA I c l) (foldWA I h ps') from
    hgen ps g (fun _ h => h) hg (hle.trans hhK) (fun _ _ _ => rfl)
  intro l
  induction l with
  | nil => intro c _ _ hc _; exact hc
  | cons pr l ih =>
    intro c hl hc hcK hrows
    have hpr : pr ∈ ps := hl pr List.mem_cons_self
    show LE (foldWA I (waFlat I c pr.1 pr.2) l) _
    have sp := waFlat_spec hI hc pr.1 pr.2
    apply ih _ (fun x hx => hl x (List.mem_cons_of_mem _ hx)) sp.wf
    · apply sp.least _ hK hcK (hhK.dom _ (hdom pr hpr))
      intro q hq
      apply hKe pr (hsub pr hpr) q
      rw [hrows pr hpr q] at hq
      rcases hq with e | e
      · exact Or.inl (Flags.ext_of_le (hle.fl _ _) e)
      · exact Or.inr (Flags.int_of_le (hle.fl _ _) e)
    · intro pr2 hpr2 q
      rw [(waFlat_sub_row hI hc pr.1 pr.2).2 pr2.2 (hdisj pr2 pr hpr2 hpr) q]
      exact hrows pr2 hpr2 q

/-- `StoreField(addr, val, "")` on the flat fragment is a fold of flat weak assignments and leaves
the node group alone -/
theorem storeField_flat (ng : NG) (hI : ∀ n, ng.intr n ≤ 2) {g : EGraph} (hg : WF ng.intr g) (addr val : Node)
    (hns : NoSubOut g val) :
    storeField ng g addr val none = (ng, foldWA ng.intr g ((pointees g addr).map fun p => (p, val))) := by
  unfold storeField
  suffices hgen : ∀ (l : List Node) (c : EGraph), WF ng.intr c → NoSubOut c val →
      l.foldl (fun (acc : NG × EGraph) p => weakAssign (acc.1.next + 2) acc.1 acc.2 p val) (ng, c) =
        (ng, foldWA ng.intr c (l.map fun p => (p, val))) from hgen _ g hg hns
  intro l
  induction l with
  | nil => intro c _ _; rfl
  | cons p l ih =>
    intro c hc hcn
    simp only [List.foldl_cons, List.map_cons]
    have hn1 : NoSubOut (addNode ng.intr c p) val := fun q => by rw [addNode_fl hc.toRep]; exact hcn q
    have e : weakAssign (ng.next + 2) ng c p val = (ng, waFlat ng.intr c p val) :=
      weakAssign_flat ng c (ng.next + 1) p val hn1
    rw [e]
    have hw := (waFlat_spec hI hc p val).wf
    have hn2 : NoSubOut (waFlat ng.intr c p val) val := fun q => by
      rw [(waFlat_sub_row hI hc p val).1]; exact hcn q
    rw [ih _ hw hn2]
    rfl

/-! ### `CallUnknown` -/

theorem leakAll_spec {g : EGraph} (hg : WF I g) (ns : List Node) (hns : ∀ n, n ∈ ns → n ∈ g.dom) :
    WF I (ns.foldl (fun g n => mergeNodeStatus g n 2) g) ∧
    (ns.foldl (fun g n => mergeNodeStatus g n 2) g).dom = g.dom ∧
    (ns.foldl (fun g n => mergeNodeStatus g n 2) g).fl = g.fl ∧
    (∀ x, g.st x ≤ (ns.foldl (fun g n => mergeNodeStatus g n 2) g).st x) ∧
    (∀ n, n ∈ ns → 2 ≤ (ns.foldl (fun g n => mergeNodeStatus g n 2) g).st n) ∧
    (∀ U, ClosedFl g.fl U → (∀ x, g.st x ≤ U x) → (∀ n, n ∈ ns → 2 ≤ U n) →
      ∀ x, (ns.foldl (fun g n => mergeNodeStatus g n 2) g).st x ≤ U x) := by
  induction ns generalizing g with
  | nil => exact ⟨hg, rfl, rfl, fun _ => Nat.le_refl _, fun n hn => by simp at hn, fun U _ h _ => h⟩
  | cons n ns ih =>
    simp only [List.foldl_cons]
    have sp := mns_spec hg (hns n List.mem_cons_self) (Nat.le_refl 2)
    obtain ⟨h1, h2, h3, h4, h5, h6⟩ := ih sp.wf (fun m hm => by rw [sp.dom]; exact hns m (List.mem_cons_of_mem _ hm))
    refine ⟨h1, by rw [h2, sp.dom], by rw [h3, sp.fl], fun x => Nat.le_trans (sp.ge x) (h4 x), ?_, ?_⟩
    · intro m hm
      rcases List.mem_cons.1 hm with rfl | hm'
      · exact Nat.le_trans sp.ge_s (h4 _)
      · exact h5 m hm'
    · intro U hU hgU hnU
      apply h6 U (by rw [sp.fl]; exact hU)
      · exact sp.upper U hU hgU (hnU n List.mem_cons_self)
      · exact fun m hm => hnU m (List.mem_cons_of_mem _ hm)

end EGraph
end Argot.EGraph
