/- Helper lemmas for C15: the worklist propagation of `computeEdgeClosure`
   (`bump`, `propagate`, `closeEdge`): monotone, below every closed upper bound, removes the
   violation it was called for and creates none, terminates within the fuel. -/
import Argot.Proofs.EGraphOrder

namespace Argot.EGraph
namespace EGraph

@[simp] theorem upd_same {α : Type} (f : Node → α) (n : Node) (v : α) : upd f n v n = v := by
  simp [upd]

theorem upd_other {α : Type} (f : Node → α) {n m : Node} (v : α) (h : m ≠ n) : upd f n v m = f m := by
  simp [upd, h]

theorem mem_succs {g : EGraph} {n s : Node} : s ∈ g.succs n ↔ s ∈ g.dom ∧ (g.fl n s).any = true := by
  simp [succs, List.mem_filter]

/-! ### `bump` -/

theorem bump_mono (v : Nat) (ss : List Node) (st : Node → Nat) (wl : List Node) (x : Node) :
    st x ≤ (bump v ss (st, wl)).1 x := by
  induction ss generalizing st wl with
  | nil => simp [bump]
  | cons s ss ih =>
    simp only [bump]
    split
    · rename_i h
      refine Nat.le_trans ?_ (ih _ _)
      by_cases hx : x = s
      · subst hx; simp; omega
      · rw [upd_other _ _ hx]; exact Nat.le_refl _
    · exact ih _ _

theorem bump_wl_sub (v : Nat) (ss : List Node) (st : Node → Nat) (wl : List Node) (x : Node)
    (hx : x ∈ wl) : x ∈ (bump v ss (st, wl)).2 := by
  induction ss generalizing st wl with
  | nil => simpa [bump] using hx
  | cons s ss ih =>
    simp only [bump]
    split
    · exact ih _ _ (List.mem_cons_of_mem _ hx)
    · exact ih _ _ hx

/-- a node whose status changed was pushed, is a successor, and now has status `v` -/
theorem bump_changed (v : Nat) (ss : List Node) (st : Node → Nat) (wl : List Node) (x : Node)
    (hx : (bump v ss (st, wl)).1 x ≠ st x) :
    x ∈ (bump v ss (st, wl)).2 ∧ x ∈ ss ∧ (bump v ss (st, wl)).1 x = v ∧ st x < v := by
  induction ss generalizing st wl with
  | nil => simp [bump] at hx
  | cons s ss ih =>
    simp only [bump] at hx ⊢
    split
    · rename_i h
      rw [if_pos h] at hx
      by_cases hc : (bump v ss (upd st s v, s :: wl)).1 x = upd st s v x
      · -- unchanged by the rest: so x = s
        have hxs : x = s := by
          apply Classical.byContradiction; intro hne
          rw [upd_other _ _ hne] at hc; exact hx hc
        subst hxs
        refine ⟨bump_wl_sub _ _ _ _ _ List.mem_cons_self, List.mem_cons_self, ?_, by omega⟩
        rw [hc]; simp
      · obtain ⟨h1, h2, h3, h4⟩ := ih _ _ hc
        refine ⟨h1, List.mem_cons_of_mem _ h2, h3, ?_⟩
        by_cases hxs : x = s
        · subst hxs; simp at h4
        · rw [upd_other _ _ hxs] at h4; exact h4
    · rename_i h
      rw [if_neg h] at hx
      obtain ⟨h1, h2, h3, h4⟩ := ih _ _ hx
      exact ⟨h1, List.mem_cons_of_mem _ h2, h3, h4⟩

theorem bump_le_max (v : Nat) (ss : List Node) (st : Node → Nat) (wl : List Node) (x : Node) :
    (bump v ss (st, wl)).1 x = st x ∨ (bump v ss (st, wl)).1 x = v := by
  by_cases h : (bump v ss (st, wl)).1 x = st x
  · exact Or.inl h
  · exact Or.inr (bump_changed v ss st wl x h).2.2.1

/-- every successor ends at least at `v` -/
theorem bump_ge (v : Nat) (ss : List Node) (st : Node → Nat) (wl : List Node) (s : Node)
    (hs : s ∈ ss) : v ≤ (bump v ss (st, wl)).1 s := by
  induction ss generalizing st wl with
  | nil => simp at hs
  | cons t ss ih =>
    simp only [bump]
    rcases List.mem_cons.1 hs with rfl | hs'
    · split
      · refine Nat.le_trans ?_ (bump_mono _ _ _ _ _); simp
      · rename_i h; refine Nat.le_trans ?_ (bump_mono _ _ _ _ _); omega
    · split
      · exact ih _ _ hs'
      · exact ih _ _ hs'

/-- new worklist entries are successors that were below `v` -/
theorem bump_wl_new (v : Nat) (ss : List Node) (st : Node → Nat) (wl : List Node) (x : Node)
    (hx : x ∈ (bump v ss (st, wl)).2) : x ∈ wl ∨ x ∈ ss := by
  induction ss generalizing st wl with
  | nil => simp [bump] at hx; exact Or.inl hx
  | cons s ss ih =>
    simp only [bump] at hx
    split at hx
    · rcases ih _ _ hx with h | h
      · rcases List.mem_cons.1 h with rfl | h'
        · exact Or.inr List.mem_cons_self
        · exact Or.inl h'
      · exact Or.inr (List.mem_cons_of_mem _ h)
    · rcases ih _ _ hx with h | h
      · exact Or.inl h
      · exact Or.inr (List.mem_cons_of_mem _ h)

/-! ### the termination measure -/

/-- room left below `Leaked`, summed over the nodes of the graph -/
def slack (dom : List Node) (st : Node → Nat) : Nat := (dom.map fun n => 2 - st n).sum

theorem slack_le (dom : List Node) (st : Node → Nat) : slack dom st ≤ 2 * dom.length := by
  induction dom with
  | nil => simp [slack]
  | cons d dom ih => simp only [slack, List.map_cons, List.sum_cons, List.length_cons] at *; omega

theorem slack_upd_le (dom : List Node) (st : Node → Nat) (s v : Nat) (h : st s ≤ v) :
    slack dom (upd st s v) ≤ slack dom st := by
  induction dom with
  | nil => simp [slack]
  | cons d dom ih =>
    simp only [slack, List.map_cons, List.sum_cons] at *
    by_cases hd : d = s
    · subst hd; simp; omega
    · rw [upd_other _ _ hd]; omega

theorem slack_upd_lt (dom : List Node) (st : Node → Nat) (s v : Nat) (hs : s ∈ dom)
    (h : st s < v) (hv : v ≤ 2) : slack dom (upd st s v) + 1 ≤ slack dom st := by
  induction dom with
  | nil => simp at hs
  | cons d dom ih =>
    simp only [slack, List.map_cons, List.sum_cons] at *
    by_cases hd : d = s
    · subst hd
      have := slack_upd_le dom st d v (Nat.le_of_lt h)
      simp only [slack] at this
      simp; omega
    · rw [upd_other _ _ hd]
      rcases List.mem_cons.1 hs with rfl | hs'
      · exact absurd rfl hd
      · have := ih hs'; omega

theorem bump_le2 (v : Nat) (ss : List Node) (st : Node → Nat) (wl : List Node) (hv : v ≤ 2)
    (h2 : ∀ x, st x ≤ 2) (x : Node) : (bump v ss (st, wl)).1 x ≤ 2 := by
  rcases bump_le_max v ss st wl x with h | h
  · rw [h]; exact h2 x
  · rw [h]; exact hv

theorem bump_potential (dom : List Node) (v : Nat) (ss : List Node) (st : Node → Nat) (wl : List Node)
    (hv : v ≤ 2) (hss : ∀ s, s ∈ ss → s ∈ dom) :
    slack dom (bump v ss (st, wl)).1 + (bump v ss (st, wl)).2.length ≤ slack dom st + wl.length := by
  induction ss generalizing st wl with
  | nil => simp [bump]
  | cons s ss ih =>
    simp only [bump]
    have hss' : ∀ t, t ∈ ss → t ∈ dom := fun t ht => hss t (List.mem_cons_of_mem _ ht)
    split
    · rename_i h
      have h1 := ih (upd st s v) (s :: wl) hss'
      have h2 := slack_upd_lt dom st s v (hss s List.mem_cons_self) h hv
      simp only [List.length_cons] at h1
      omega
    · exact ih st wl hss'

/-! ### `propagate` -/

theorem propagate_mono (g : EGraph) (fuel : Nat) (st : Node → Nat) (wl : List Node) (x : Node) :
    st x ≤ (propagate g fuel st wl).1 x := by
  induction fuel generalizing st wl with
  | zero => simp [propagate]
  | succ f ih =>
    cases wl with
    | nil => simp [propagate]
    | cons n wl =>
      simp only [propagate]
      exact Nat.le_trans (bump_mono _ _ _ _ _) (ih _ _)

/-- the propagated status stays below every closed upper bound -/
theorem propagate_upper (g : EGraph) (U : Node → Nat) (hU : ClosedFl g.fl U) (fuel : Nat)
    (st : Node → Nat) (wl : List Node) (h : ∀ x, st x ≤ U x) (x : Node) :
    (propagate g fuel st wl).1 x ≤ U x := by
  induction fuel generalizing st wl with
  | zero => simpa [propagate] using h x
  | succ f ih =>
    cases wl with
    | nil => simpa [propagate] using h x
    | cons n wl =>
      simp only [propagate]
      apply ih
      intro y
      rcases bump_le_max (st n) (g.succs n) st wl y with e | e
      · rw [e]; exact h y
      · by_cases hc : (bump (st n) (g.succs n) (st, wl)).1 y = st y
        · rw [hc]; exact h y
        · have hy := (bump_changed _ _ _ _ _ hc).2.1
          rw [e]
          exact Nat.le_trans (h n) (hU n y (mem_succs.1 hy).2)

theorem propagate_outside (g : EGraph) (fuel : Nat) (st : Node → Nat) (wl : List Node) (x : Node)
    (hx : x ∉ g.dom) : (propagate g fuel st wl).1 x = st x := by
  induction fuel generalizing st wl with
  | zero => simp [propagate]
  | succ f ih =>
    cases wl with
    | nil => simp [propagate]
    | cons n wl =>
      simp only [propagate]
      rw [ih]
      apply Classical.byContradiction; intro hc
      exact hx (mem_succs.1 (bump_changed _ _ _ _ _ hc).2.1).1

theorem propagate_le2 (g : EGraph) (fuel : Nat) (st : Node → Nat) (wl : List Node)
    (h2 : ∀ x, st x ≤ 2) (x : Node) : (propagate g fuel st wl).1 x ≤ 2 := by
  induction fuel generalizing st wl with
  | zero => simpa [propagate] using h2 x
  | succ f ih =>
    cases wl with
    | nil => simpa [propagate] using h2 x
    | cons n wl =>
      simp only [propagate]
      exact ih _ _ (fun y => bump_le2 _ _ _ _ (h2 n) h2 y)

/-- violations: an edge `x → y` with `st y < st x` -/
def Viol (g : EGraph) (st : Node → Nat) (x y : Node) : Prop :=
  (g.fl x y).any = true ∧ y ∈ g.dom ∧ st y < st x

/-- if every violation is sourced at a worklist node or belongs to `P`, then after a converged
propagation every violation belongs to `P` -/
theorem propagate_viol (g : EGraph) (P : Node → Node → Prop) (fuel : Nat) (st : Node → Nat)
    (wl : List Node) (hconv : (propagate g fuel st wl).2 = true)
    (h : ∀ x y, Viol g st x y → x ∈ wl ∨ P x y) :
    ∀ x y, Viol g (propagate g fuel st wl).1 x y → P x y := by
  induction fuel generalizing st wl with
  | zero =>
    simp only [propagate, List.isEmpty_iff] at hconv ⊢
    subst hconv
    intro x y hv
    rcases h x y hv with h' | h'
    · simp at h'
    · exact h'
  | succ f ih =>
    cases wl with
    | nil =>
      simp only [propagate]
      intro x y hv
      rcases h x y hv with h' | h'
      · simp at h'
      · exact h'
    | cons n wl =>
      simp only [propagate] at hconv ⊢
      apply ih _ _ hconv
      intro x y ⟨hxy, hyd, hlt⟩
      by_cases hcx : (bump (st n) (g.succs n) (st, wl)).1 x = st x
      · -- x unchanged: the violation existed before
        have hlt' : st y < st x := by
          have := bump_mono (st n) (g.succs n) st wl y
          omega
        rcases h x y ⟨hxy, hyd, hlt'⟩ with hw | hp
        · rcases List.mem_cons.1 hw with rfl | hw'
          · -- x = n: y is a successor, so it was raised to at least st n
            have := bump_ge (st x) (g.succs x) st wl y (mem_succs.2 ⟨hyd, hxy⟩)
            omega
          · exact Or.inl (bump_wl_sub _ _ _ _ _ hw')
        · exact Or.inr hp
      · exact Or.inl (bump_changed _ _ _ _ _ hcx).1

theorem propagate_conv (g : EGraph) (fuel : Nat) (st : Node → Nat) (wl : List Node)
    (h2 : ∀ x, st x ≤ 2) (hf : slack g.dom st + wl.length < fuel) :
    (propagate g fuel st wl).2 = true := by
  induction fuel generalizing st wl with
  | zero => omega
  | succ f ih =>
    cases wl with
    | nil => simp [propagate]
    | cons n wl =>
      simp only [propagate]
      have hp := bump_potential g.dom (st n) (g.succs n) st wl (h2 n) (fun s hs => (mem_succs.1 hs).1)
      simp only [List.length_cons] at hf
      exact ih (bump (st n) (g.succs n) (st, wl)).1 (bump (st n) (g.succs n) (st, wl)).2
        (fun y => bump_le2 _ _ _ _ (h2 n) h2 y) (by omega)

/-! ### `closeEdge` -/

@[simp] theorem closeEdge_dom (g : EGraph) (a b : Node) : (closeEdge g a b).dom = g.dom := by
  unfold closeEdge; split <;> rfl

@[simp] theorem closeEdge_fl (g : EGraph) (a b : Node) : (closeEdge g a b).fl = g.fl := by
  unfold closeEdge; split <;> rfl

@[simp] theorem closeEdge_out (g : EGraph) (a b : Node) : (closeEdge g a b).out = g.out := by
  unfold closeEdge; split <;> rfl

theorem closeEdge_mono (g : EGraph) (a b x : Node) : g.st x ≤ (closeEdge g a b).st x := by
  unfold closeEdge
  split
  · rename_i h
    refine Nat.le_trans ?_ (propagate_mono _ _ _ _ _)
    by_cases hx : x = b
    · subst hx; simp; omega
    · rw [upd_other _ _ hx]; exact Nat.le_refl _
  · exact Nat.le_refl _

theorem closeEdge_upper (g : EGraph) (a b : Node) (hab : (g.fl a b).any = true) (U : Node → Nat)
    (hU : ClosedFl g.fl U) (h : ∀ x, g.st x ≤ U x) (x : Node) : (closeEdge g a b).st x ≤ U x := by
  unfold closeEdge
  split
  · apply propagate_upper g U hU
    intro y
    by_cases hy : y = b
    · subst hy; simp; exact Nat.le_trans (h a) (hU a y hab)
    · rw [upd_other _ _ hy]; exact h y
  · exact h x

theorem closeEdge_le2 (g : EGraph) (a b : Node) (h2 : ∀ x, g.st x ≤ 2) (x : Node) :
    (closeEdge g a b).st x ≤ 2 := by
  unfold closeEdge
  split
  · apply propagate_le2
    intro y
    by_cases hy : y = b
    · subst hy; simp; exact h2 a
    · rw [upd_other _ _ hy]; exact h2 y
  · exact h2 x

theorem closeEdge_outside (g : EGraph) (a b : Node) (hb : b ∈ g.dom) (x : Node) (hx : x ∉ g.dom) :
    (closeEdge g a b).st x = g.st x := by
  unfold closeEdge
  split
  · show (propagate g g.fuel _ [b]).1 x = g.st x
    rw [propagate_outside _ _ _ _ _ hx]
    have : x ≠ b := fun e => hx (e ▸ hb)
    exact upd_other _ _ this
  · rfl

/-- `computeEdgeClosure(a, b)` repairs the edge it is called for and creates no new violation -/
theorem closeEdge_viol (g : EGraph) (a b : Node) (hb : b ∈ g.dom) (h2 : ∀ x, g.st x ≤ 2) (x y : Node)
    (hv : Viol g (closeEdge g a b).st x y) : Viol g g.st x y ∧ ¬ (x = a ∧ y = b) := by
  unfold closeEdge at hv
  split at hv
  · rename_i hab
    have hst2 : ∀ z, upd g.st b (g.st a) z ≤ 2 := by
      intro z
      by_cases hz : z = b
      · subst hz; simp; exact h2 a
      · rw [upd_other _ _ hz]; exact h2 z
    have hconv : (propagate g g.fuel (upd g.st b (g.st a)) [b]).2 = true := by
      apply propagate_conv _ _ _ _ hst2
      have := slack_le g.dom (upd g.st b (g.st a))
      simp only [fuel, List.length_cons, List.length_nil]
      omega
    refine propagate_viol g (fun x y => Viol g g.st x y ∧ ¬ (x = a ∧ y = b)) _ _ _ hconv ?_ x y hv
    intro x y ⟨hxy, hyd, hlt⟩
    by_cases hxb : x = b
    · exact Or.inl (by simp [hxb])
    · right
      rw [upd_other _ _ hxb] at hlt
      have hab' : a ≠ b := by intro e; rw [e] at hab; omega
      refine ⟨⟨hxy, hyd, ?_⟩, ?_⟩
      · by_cases hyb : y = b
        · subst hyb; simp at hlt; omega
        · rw [upd_other _ _ hyb] at hlt; exact hlt
      · rintro ⟨rfl, rfl⟩
        simp at hlt
  · rename_i hab
    refine ⟨hv, ?_⟩
    rintro ⟨rfl, rfl⟩
    exact hab hv.2.2

end EGraph
end Argot.EGraph
