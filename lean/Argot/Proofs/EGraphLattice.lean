/- Helper lemmas for C15: order theory of "least closed status above a base" and the lattice laws of
   `merge` in declarative form (`Equiv` / `LE`). -/
import Argot.Proofs.EGraphMerge

namespace Argot.EGraph
namespace EGraph

variable {I : Node → Nat}

/-! ### least closed statuses -/

theorem IsLeast.unique {fl : Node → Node → Flags} {base s s' : Node → Nat}
    (h : IsLeast fl base s) (h' : IsLeast fl base s') (n : Node) : s n = s' n :=
  Nat.le_antisymm (h.least s' h'.closed h'.above n) (h'.least s h.closed h.above n)

theorem IsLeast.congr {fl fl' : Node → Node → Flags} {base base' s : Node → Nat}
    (hfl : ∀ a b, fl a b = fl' a b) (hb : ∀ n, base n = base' n) (h : IsLeast fl base s) :
    IsLeast fl' base' s :=
  ⟨fun n => by rw [← hb]; exact h.above n,
   fun a b hab => h.closed a b (by rw [hfl]; exact hab),
   fun U hU hbU => h.least U (fun a b hab => hU a b (by rw [← hfl]; exact hab)) (fun n => by rw [hb]; exact hbU n)⟩

/-- closing twice: the least closed status over a larger edge set above (a least closed status
joined with `J`) is the least closed status above (the base joined with `J`) -/
theorem IsLeast.compose {fl1 fl2 : Node → Node → Flags} {b1 s1 J s2 : Node → Nat}
    (h1 : IsLeast fl1 b1 s1) (hsub : ∀ a b, ((fl1 a b).le (fl2 a b)) = true)
    (h2 : IsLeast fl2 (fun n => max (s1 n) (J n)) s2) :
    IsLeast fl2 (fun n => max (b1 n) (J n)) s2 := by
  refine ⟨?_, h2.closed, ?_⟩
  · intro n
    have := h2.above n
    have := h1.above n
    simp only [Nat.max_le] at *
    omega
  · intro U hU hb
    apply h2.least U hU
    intro n
    have hb1 : ∀ m, b1 m ≤ U m := fun m => Nat.le_trans (Nat.le_max_left _ _) (hb m)
    have hJ : J n ≤ U n := Nat.le_trans (Nat.le_max_right _ _) (hb n)
    have := h1.least U (closedFl_of_le hU hsub) hb1 n
    exact Nat.max_le.2 ⟨this, hJ⟩

theorem isLeast_self {g : EGraph} (hg : WF I g) : IsLeast g.fl g.st g.st :=
  ⟨fun _ => Nat.le_refl _, hg.closed, fun _ _ h => h⟩

/-! ### the declarative closure `cl base fl n = sup { base m | m ⟶* n }` -/

theorem Reach.trans_edge {fl : Node → Node → Flags} {a b c : Node} (h : Reach fl a b)
    (e : (fl b c).any = true) : Reach fl a c := Reach.step h e

open Classical in
/-- supremum of the base status over all nodes from which `n` is reachable (statuses are ≤ 2) -/
noncomputable def cl (fl : Node → Node → Flags) (base : Node → Nat) (n : Node) : Nat :=
  if ∃ m, Reach fl m n ∧ 2 ≤ base m then 2
  else if ∃ m, Reach fl m n ∧ 1 ≤ base m then 1 else 0

theorem cl_spec (fl : Node → Node → Flags) (base : Node → Nat) (hb : ∀ n, base n ≤ 2) (n k : Nat) :
    k ≤ cl fl base n ↔ k = 0 ∨ ∃ m, Reach fl m n ∧ k ≤ base m := by
  unfold cl
  constructor
  · intro h
    by_cases hk : k = 0
    · exact Or.inl hk
    · right
      split at h
      · rename_i h2; obtain ⟨m, hr, hm⟩ := h2; exact ⟨m, hr, by omega⟩
      · split at h
        · rename_i h1; obtain ⟨m, hr, hm⟩ := h1; exact ⟨m, hr, by omega⟩
        · omega
  · rintro (rfl | ⟨m, hr, hm⟩)
    · exact Nat.zero_le _
    · have := hb m
      split
      · omega
      · rename_i h2
        split
        · rename_i h1
          have : ¬ 2 ≤ base m := fun h => h2 ⟨m, hr, h⟩
          omega
        · rename_i h1
          have : ¬ 1 ≤ base m := fun h => h1 ⟨m, hr, h⟩
          omega

theorem isLeast_cl (fl : Node → Node → Flags) (base : Node → Nat) (hb : ∀ n, base n ≤ 2) :
    IsLeast fl base (cl fl base) := by
  refine ⟨?_, ?_, ?_⟩
  · intro n
    exact (cl_spec fl base hb n (base n)).2 (Or.inr ⟨n, Reach.refl n, Nat.le_refl _⟩)
  · intro a b hab
    rcases (cl_spec fl base hb a (cl fl base a)).1 (Nat.le_refl _) with h0 | ⟨m, hr, hm⟩
    · rw [h0]; exact Nat.zero_le _
    · exact (cl_spec fl base hb b _).2 (Or.inr ⟨m, Reach.step hr hab, hm⟩)
  · intro U hU hbU n
    rcases (cl_spec fl base hb n (cl fl base n)).1 (Nat.le_refl _) with h0 | ⟨m, hr, hm⟩
    · rw [h0]; exact Nat.zero_le _
    · refine Nat.le_trans hm (Nat.le_trans (hbU m) ?_)
      clear hm
      induction hr with
      | refl => exact Nat.le_refl _
      | step _ e ih => exact Nat.le_trans ih (hU _ _ e)

/-! ### graphs determined by their specification -/

theorem equiv_of {g h : EGraph} (hg : Rep g) (hh : Rep h) (hd : ∀ n, n ∈ g.dom ↔ n ∈ h.dom)
    (hs : ∀ n, g.st n = h.st n) (hf : ∀ a b, g.fl a b = h.fl a b) : Equiv g h := by
  refine ⟨hd, hs, ?_, hf⟩
  intro n
  cases ho : g.out n with
  | true => exact ((hh.out n).2 ((hd n).1 ((hg.out n).1 ho))).symm
  | false =>
    cases ho' : h.out n with
    | false => rfl
    | true =>
      have := (hg.out n).2 ((hd n).2 ((hh.out n).1 ho'))
      rw [ho] at this; exact absurd this (by simp)

theorem Flags.or_le_or {a b c : Flags} (h : a.le b = true) : ((a.or c).le (b.or c)) = true :=
  Flags.or_le (Flags.le_trans h (Flags.le_or_left _ _)) (Flags.le_or_right _ _)

/-! ### lattice laws, declaratively -/

theorem merge_idem_equiv (hI : ∀ n, I n ≤ 2) {g : EGraph} (hg : WF I g) : Equiv (merge I g g) g := by
  have sp := merge_spec hI hg hg
  apply equiv_of sp.wf.toRep hg.toRep
  · intro n; rw [sp.dom]; simp
  · intro n
    have h1 : IsLeast g.fl g.st (merge I g g).st :=
      sp.least.congr (fun a b => Flags.or_self _) (fun n => Nat.max_self _)
    exact h1.unique (isLeast_self hg) n
  · intro a b; rw [sp.fl]; exact Flags.or_self _

theorem merge_comm_equiv (hI : ∀ n, I n ≤ 2) {g h : EGraph} (hg : WF I g) (hh : WF I h) :
    Equiv (merge I g h) (merge I h g) := by
  have s1 := merge_spec hI hg hh
  have s2 := merge_spec hI hh hg
  apply equiv_of s1.wf.toRep s2.wf.toRep
  · intro n; rw [s1.dom, s2.dom]; exact Or.comm
  · intro n
    have h2 : IsLeast (orFl g h) (fun x => max (g.st x) (h.st x)) (merge I h g).st :=
      s2.least.congr (fun a b => Flags.or_comm _ _) (fun n => Nat.max_comm _ _)
    exact s1.least.unique h2 n
  · intro a b; rw [s1.fl, s2.fl]; exact Flags.or_comm _ _

theorem merge_assoc_equiv (hI : ∀ n, I n ≤ 2) {g h k : EGraph} (hg : WF I g) (hh : WF I h) (hk : WF I k) :
    Equiv (merge I (merge I g h) k) (merge I g (merge I h k)) := by
  have sgh := merge_spec hI hg hh
  have shk := merge_spec hI hh hk
  have s1 := merge_spec hI sgh.wf hk
  have s2 := merge_spec hI hg shk.wf
  apply equiv_of s1.wf.toRep s2.wf.toRep
  · intro n; rw [s1.dom, s2.dom, sgh.dom, shk.dom]; exact or_assoc
  · intro n
    -- both are the least closed status over the three edge sets above the three statuses
    let fl3 : Node → Node → Flags := fun a b => ((g.fl a b).or (h.fl a b)).or (k.fl a b)
    let b3 : Node → Nat := fun x => max (max (g.st x) (h.st x)) (k.st x)
    have e1 : IsLeast fl3 b3 (merge I (merge I g h) k).st := by
      have h2 : IsLeast fl3 (fun x => max ((merge I g h).st x) (k.st x)) (merge I (merge I g h) k).st :=
        s1.least.congr (fun a b => by show ((merge I g h).fl a b).or (k.fl a b) = _; rw [sgh.fl]) (fun _ => rfl)
      exact IsLeast.compose sgh.least (fun a b => Flags.le_or_left _ _) h2
    have e2 : IsLeast fl3 b3 (merge I g (merge I h k)).st := by
      have h2 : IsLeast fl3 (fun x => max ((merge I h k).st x) (g.st x)) (merge I g (merge I h k)).st :=
        s2.least.congr (fun a b => by
          show (g.fl a b).or ((merge I h k).fl a b) = ((g.fl a b).or (h.fl a b)).or (k.fl a b)
          rw [shk.fl, Flags.or_assoc]) (fun x => Nat.max_comm _ _)
      have h3 := IsLeast.compose shk.least (fl2 := fl3) (J := g.st) (s2 := (merge I g (merge I h k)).st)
        (fun a b => by
          show ((h.fl a b).or (k.fl a b)).le (((g.fl a b).or (h.fl a b)).or (k.fl a b)) = true
          rw [Flags.or_assoc]; exact Flags.le_or_right _ _) h2
      exact h3.congr (fun _ _ => rfl) (fun x => by
        show max (max (h.st x) (k.st x)) (g.st x) = max (max (g.st x) (h.st x)) (k.st x)
        omega)
    exact e1.unique e2 n
  · intro a b; rw [s1.fl, s2.fl, sgh.fl, shk.fl]; exact Flags.or_assoc _ _ _

theorem le_merge_left (hI : ∀ n, I n ≤ 2) {g h : EGraph} (hg : WF I g) (hh : WF I h) : LE g (merge I g h) := by
  have sp := merge_spec hI hg hh
  exact ⟨fun a b => by rw [sp.fl]; exact Flags.le_or_left _ _, fun n hn => (sp.dom n).2 (Or.inl hn),
    fun n => Nat.le_trans (Nat.le_max_left _ _) (sp.least.above n)⟩

theorem le_merge_right (hI : ∀ n, I n ≤ 2) {g h : EGraph} (hg : WF I g) (hh : WF I h) : LE h (merge I g h) := by
  have sp := merge_spec hI hg hh
  exact ⟨fun a b => by rw [sp.fl]; exact Flags.le_or_right _ _, fun n hn => (sp.dom n).2 (Or.inr hn),
    fun n => Nat.le_trans (Nat.le_max_right _ _) (sp.least.above n)⟩

theorem merge_least_le (hI : ∀ n, I n ≤ 2) {g h k : EGraph} (hg : WF I g) (hh : WF I h) (hk : WF I k)
    (h1 : LE g k) (h2 : LE h k) : LE (merge I g h) k := by
  have sp := merge_spec hI hg hh
  refine ⟨fun a b => by rw [sp.fl]; exact Flags.or_le (h1.fl a b) (h2.fl a b), ?_, ?_⟩
  · intro n hn
    rcases (sp.dom n).1 hn with h | h
    · exact h1.dom n h
    · exact h2.dom n h
  · apply sp.least.least k.st
    · exact closedFl_of_le hk.closed (fun a b => Flags.or_le (h1.fl a b) (h2.fl a b))
    · exact fun n => Nat.max_le.2 ⟨h1.st n, h2.st n⟩

/-! ### monotonicity of the primitives (same arguments, fixed node universe) -/

theorem addEdge_mono_le (hI : ∀ n, I n ≤ 2) {g h : EGraph} (hg : WF I g) (hh : WF I h) (hle : LE g h)
    (a b : Node) (f : Flags) (hf : f.any = true) : LE (addEdge I g a b f) (addEdge I h a b f) := by
  have hwf := addEdge_wf hI hh a b f
  have hfl : ∀ x y, (((addEdge I g a b f).fl x y).le ((addEdge I h a b f).fl x y)) = true := by
    intro x y
    rw [addEdge_fl hI hg.toRep, addEdge_fl hI hh.toRep]
    split
    · exact Flags.or_le_or (hle.fl a b)
    · exact hle.fl x y
  refine ⟨hfl, ?_, ?_⟩
  · intro x hx
    rw [addEdge_dom hh.toRep]
    rcases (addEdge_dom hg.toRep a b f x).1 hx with h1 | h1 | h1
    · exact Or.inl (hle.dom x h1)
    · exact Or.inr (Or.inl h1)
    · exact Or.inr (Or.inr h1)
  · apply addEdge_upper hI hg.toRep a b f hf _ (closedFl_of_le hwf.closed hfl)
    · exact fun x => Nat.le_trans (hle.st x) (addEdge_st_ge hh.toRep a b f x)
    · exact hwf.intr a ((addEdge_dom hh.toRep a b f a).2 (Or.inr (Or.inl rfl)))
    · exact hwf.intr b ((addEdge_dom hh.toRep a b f b).2 (Or.inr (Or.inr rfl)))

theorem mns_mono_le {g h : EGraph} (hg : WF I g) (hh : WF I h) (hle : LE g h)
    {n : Node} (hn : n ∈ g.dom) {s : Nat} (hs : s ≤ 2) :
    LE (mergeNodeStatus g n s) (mergeNodeStatus h n s) := by
  have sg := mns_spec hg hn hs
  have sh := mns_spec hh (hle.dom n hn) hs
  refine ⟨fun a b => by rw [sg.fl, sh.fl]; exact hle.fl a b, fun x hx => by rw [sh.dom]; rw [sg.dom] at hx; exact hle.dom x hx, ?_⟩
  apply sg.upper
  · exact closedFl_of_le sh.wf.closed (fun a b => by rw [sh.fl]; exact hle.fl a b)
  · exact fun x => Nat.le_trans (hle.st x) (sh.ge x)
  · exact sh.ge_s

theorem addNode_mono_le (hI : ∀ n, I n ≤ 2) {g h : EGraph} (hg : WF I g) (hh : WF I h) (hle : LE g h) (n : Node) :
    LE (addNode I g n) (addNode I h n) := by
  refine ⟨fun a b => by rw [addNode_fl hg.toRep, addNode_fl hh.toRep]; exact hle.fl a b, ?_, ?_⟩
  · intro x hx
    rw [mem_addNode_dom] at hx ⊢
    rcases hx with h1 | h1
    · exact Or.inl (hle.dom x h1)
    · exact Or.inr h1
  · apply addNode_upper n
    · exact fun x => Nat.le_trans (hle.st x) (addNode_st_ge hh.toRep n x)
    · exact (addNode_wf hI hh n).intr n ((mem_addNode_dom h n n).2 (Or.inr rfl))

/-- monotone in both arguments: a consequence of being the least upper bound -/
theorem merge_mono_le (hI : ∀ n, I n ≤ 2) {g g' h h' : EGraph} (hg : WF I g) (hg' : WF I g') (hh : WF I h)
    (hh' : WF I h') (h1 : LE g g') (h2 : LE h h') : LE (merge I g h) (merge I g' h') :=
  merge_least_le hI hg hh (merge_spec hI hg' hh').wf (h1.trans (le_merge_left hI hg' hh'))
    (h2.trans (le_merge_right hI hg' hh'))

end EGraph
end Argot.EGraph
