/- Helper lemmas for C15: `mergeNodeStatus` and `merge` on well-formed graphs. -/
import Argot.Proofs.EGraphOps

namespace Argot.EGraph
namespace EGraph

variable {I : Node → Nat}

/-! ### generic fold lemmas -/

theorem foldl_keep {α β : Type} (f : β → α → β) (P Q : β → Prop) (l : List α) (b : β)
    (hP : P b) (hQ : Q b) (stepP : ∀ b a, a ∈ l → P b → P (f b a))
    (stepQ : ∀ b a, a ∈ l → P b → Q b → Q (f b a)) : P (l.foldl f b) ∧ Q (l.foldl f b) := by
  induction l generalizing b with
  | nil => exact ⟨hP, hQ⟩
  | cons x xs ih =>
    simp only [List.foldl_cons]
    apply ih
    · exact stepP b x List.mem_cons_self hP
    · exact stepQ b x List.mem_cons_self hP hQ
    · exact fun b a ha => stepP b a (List.mem_cons_of_mem _ ha)
    · exact fun b a ha => stepQ b a (List.mem_cons_of_mem _ ha)

/-- invariant `P` is kept, every element establishes `Q a`, and `Q a` once true stays true -/
theorem foldl_inv {α β : Type} (f : β → α → β) (P : β → Prop) (Q : α → β → Prop) (l : List α) (b : β)
    (hP : P b) (step : ∀ b a, a ∈ l → P b → P (f b a) ∧ Q a (f b a))
    (keep : ∀ b a a', a' ∈ l → P b → Q a b → Q a (f b a')) :
    P (l.foldl f b) ∧ ∀ a, a ∈ l → Q a (l.foldl f b) := by
  induction l generalizing b with
  | nil => exact ⟨hP, fun a ha => by simp at ha⟩
  | cons x xs ih =>
    simp only [List.foldl_cons]
    obtain ⟨hP1, hQ1⟩ := step b x List.mem_cons_self hP
    obtain ⟨hPf, hQf⟩ := ih (f b x) hP1 (fun b a ha => step b a (List.mem_cons_of_mem _ ha))
      (fun b a a' ha' => keep b a a' (List.mem_cons_of_mem _ ha'))
    refine ⟨hPf, ?_⟩
    intro a ha
    rcases List.mem_cons.1 ha with rfl | ha'
    · exact (foldl_keep f P (Q a) xs (f b a) hP1 hQ1
        (fun b a' ha' hp => (step b a' (List.mem_cons_of_mem _ ha') hp).1)
        (fun b a' ha' hp hq => keep b a a' (List.mem_cons_of_mem _ ha') hp hq)).2
    · exact hQf a ha'

/-! ### `mergeNodeStatus` -/

/-- the graph of `MergeNodeStatus` after the status was raised, before the closures -/
def raise (g : EGraph) (n : Node) (s : Nat) : EGraph :=
  { g with dom := if n ∈ g.dom then g.dom else g.dom ++ [n], st := upd g.st n s }

theorem mns_eq (g : EGraph) (n : Node) (s : Nat) :
    mergeNodeStatus g n s =
      if n ∉ g.dom ∨ s > g.st n then ((raise g n s).succs n).foldl (fun g p => closeEdge g n p) (raise g n s)
      else g := rfl

structure FoldInv (g1 : EGraph) (n : Node) (rest : List Node) (c : EGraph) : Prop where
  dom : c.dom = g1.dom
  fl : c.fl = g1.fl
  out : c.out = g1.out
  ge : ∀ x, g1.st x ≤ c.st x
  le2 : ∀ x, c.st x ≤ 2
  zero : ∀ x, x ∉ g1.dom → c.st x = g1.st x
  upper : ∀ U, ClosedFl g1.fl U → (∀ x, g1.st x ≤ U x) → ∀ x, c.st x ≤ U x
  viol : ∀ x y, Viol g1 c.st x y → x = n ∧ y ∈ rest

theorem foldl_closeEdge_inv (g1 : EGraph) (n : Node) (rest : List Node) (c : EGraph)
    (hrest : ∀ p, p ∈ rest → p ∈ g1.dom ∧ (g1.fl n p).any = true) (inv : FoldInv g1 n rest c) :
    FoldInv g1 n [] (rest.foldl (fun g p => closeEdge g n p) c) := by
  induction rest generalizing c with
  | nil => exact inv
  | cons p rest ih =>
    simp only [List.foldl_cons]
    apply ih _ (fun q hq => hrest q (List.mem_cons_of_mem _ hq))
    obtain ⟨hpd, hpe⟩ := hrest p List.mem_cons_self
    have hpc : p ∈ c.dom := by rw [inv.dom]; exact hpd
    refine ⟨?_, ?_, ?_, ?_, ?_, ?_, ?_, ?_⟩
    · rw [closeEdge_dom, inv.dom]
    · rw [closeEdge_fl, inv.fl]
    · rw [closeEdge_out, inv.out]
    · exact fun x => Nat.le_trans (inv.ge x) (closeEdge_mono _ _ _ _)
    · exact closeEdge_le2 _ _ _ inv.le2
    · intro x hx
      rw [closeEdge_outside c n p hpc x (by rw [inv.dom]; exact hx)]
      exact inv.zero x hx
    · intro U hU h x
      apply closeEdge_upper c n p (by rw [inv.fl]; exact hpe) U (by rw [inv.fl]; exact hU)
      exact inv.upper U hU h
    · intro x y hv
      have hv' : Viol c (closeEdge c n p).st x y := by
        obtain ⟨h1, h2, h3⟩ := hv
        exact ⟨by rw [inv.fl]; exact h1, by rw [inv.dom]; exact h2, h3⟩
      obtain ⟨⟨h1, h2, h3⟩, hne⟩ := closeEdge_viol c n p hpc inv.le2 x y hv'
      have hv0 : Viol g1 c.st x y := ⟨by rw [← inv.fl]; exact h1, by rw [← inv.dom]; exact h2, h3⟩
      obtain ⟨hx, hy⟩ := inv.viol x y hv0
      refine ⟨hx, ?_⟩
      rcases List.mem_cons.1 hy with e | hy'
      · exact absurd ⟨hx, e⟩ hne
      · exact hy'

/-- everything `MergeNodeStatus(n, s)` does to a well-formed graph that contains `n` -/
structure MnsSpec (I : Node → Nat) (g : EGraph) (n : Node) (s : Nat) (g' : EGraph) : Prop where
  wf : WF I g'
  dom : g'.dom = g.dom
  fl : g'.fl = g.fl
  out : g'.out = g.out
  ge : ∀ x, g.st x ≤ g'.st x
  ge_s : s ≤ g'.st n
  upper : ∀ U, ClosedFl g.fl U → (∀ x, g.st x ≤ U x) → s ≤ U n → ∀ x, g'.st x ≤ U x

theorem mns_spec {g : EGraph} (hg : WF I g) {n : Node} (hn : n ∈ g.dom) {s : Nat} (hs : s ≤ 2) :
    MnsSpec I g n s (mergeNodeStatus g n s) := by
  rw [mns_eq]
  by_cases hc : s > g.st n
  · rw [if_pos (Or.inr hc)]
    have hd : (raise g n s).dom = g.dom := by simp [raise, hn]
    have hst : ∀ x, (raise g n s).st x = upd g.st n s x := fun _ => rfl
    have hfl : (raise g n s).fl = g.fl := rfl
    have inv0 : FoldInv (raise g n s) n ((raise g n s).succs n) (raise g n s) := by
      refine ⟨rfl, rfl, rfl, fun _ => Nat.le_refl _, ?_, fun _ _ => rfl, fun U _ h => h, ?_⟩
      · intro x
        rw [hst]
        by_cases hx : x = n
        · subst hx; simp; exact hs
        · rw [upd_other _ _ hx]; exact hg.le2 x
      · intro x y ⟨hxy, hyd, hlt⟩
        rw [hfl] at hxy
        have hxn : x = n := by
          apply Classical.byContradiction; intro hne
          rw [hst, hst, upd_other _ _ hne] at hlt
          have h1 := hg.closed x y hxy
          by_cases hyn : y = n
          · subst hyn; simp at hlt; omega
          · rw [upd_other _ _ hyn] at hlt; omega
        refine ⟨hxn, mem_succs.2 ⟨hyd, ?_⟩⟩
        rw [hfl, ← hxn]; exact hxy
    have inv := foldl_closeEdge_inv (raise g n s) n _ _ (fun p hp => mem_succs.1 hp) inv0
    refine ⟨⟨⟨inv.le2, ?_, ?_, ?_⟩, ?_, ?_⟩, ?_, ?_, ?_, ?_, ?_, ?_⟩
    · intro x hx
      rw [inv.dom, hd] at hx
      rw [inv.zero x (by rw [hd]; exact hx), hst, upd_other _ _ (fun e => hx (by rw [e]; exact hn))]
      exact hg.zero x hx
    · intro x; rw [inv.out, inv.dom, hd]; exact hg.out x
    · intro x y hxy; rw [inv.fl] at hxy; rw [inv.dom, hd]; exact hg.ends x y hxy
    · intro x hx
      rw [inv.dom, hd] at hx
      refine Nat.le_trans (hg.intr x hx) (Nat.le_trans ?_ (inv.ge x))
      rw [hst]
      by_cases hxn : x = n
      · subst hxn; simp; omega
      · rw [upd_other _ _ hxn]; exact Nat.le_refl _
    · intro x y hxy
      rw [inv.fl] at hxy
      apply Classical.byContradiction; intro hlt
      have hyd : y ∈ (raise g n s).dom := by rw [hd]; exact (hg.ends x y hxy).2
      have := (inv.viol x y ⟨hxy, hyd, by omega⟩).2
      simp at this
    · rw [inv.dom, hd]
    · rw [inv.fl]; rfl
    · rw [inv.out]; rfl
    · intro x
      refine Nat.le_trans ?_ (inv.ge x)
      rw [hst]
      by_cases hxn : x = n
      · subst hxn; simp; omega
      · rw [upd_other _ _ hxn]; exact Nat.le_refl _
    · refine Nat.le_trans ?_ (inv.ge n); rw [hst]; simp
    · intro U hU h hsn x
      apply inv.upper U hU
      intro y
      rw [hst]
      by_cases hyn : y = n
      · subst hyn; simp; exact hsn
      · rw [upd_other _ _ hyn]; exact h y
  · have : ¬ (n ∉ g.dom ∨ s > g.st n) := by rintro (h | h); exact h hn; exact hc h
    rw [if_neg this]
    exact ⟨hg, rfl, rfl, rfl, fun _ => Nat.le_refl _, by omega, fun U _ h _ => h⟩

/-! ### `merge` -/

/-- flags of the union -/
def orFl (g h : EGraph) : Node → Node → Flags := fun a b => (g.fl a b).or (h.fl a b)

theorem Flags.and_any_of_bit_le {m c : Flags} (hm : m.any = true) (h : m.le c = true) : (c.and m).any = true := by
  rcases m with ⟨m1, m2, m3⟩; rcases c with ⟨c1, c2, c3⟩
  cases m1 <;> cases m2 <;> cases m3 <;> cases c1 <;> cases c2 <;> cases c3 <;> simp_all [Flags.le, Flags.and, Flags.any]

theorem Flags.le_of_bits_le {a c : Flags} (h : ∀ m, m ∈ a.bits → m.le c = true) : a.le c = true := by
  rw [Flags.le_iff_bits]
  intro m hm
  exact Flags.and_any_of_bit_le (Flags.any_of_mem_bits hm).1 (h m hm)

/-- invariant of both loops of `Merge` -/
structure MInv (I : Node → Nat) (g h c : EGraph) : Prop where
  wf : WF I c
  ge : LE g c
  flub : ∀ a b, ((c.fl a b).le (orFl g h a b)) = true
  domub : ∀ x, x ∈ c.dom → x ∈ g.dom ∨ x ∈ h.dom
  upper : ∀ U, ClosedFl (orFl g h) U → (∀ x, g.st x ≤ U x) → (∀ x, h.st x ≤ U x) → ∀ x, c.st x ≤ U x

theorem closedFl_of_le {fl fl' : Node → Node → Flags} {U : Node → Nat} (hU : ClosedFl fl' U)
    (h : ∀ a b, ((fl a b).le (fl' a b)) = true) : ClosedFl fl U :=
  fun a b hab => hU a b (Flags.any_of_le (h a b) hab)

theorem minv_addEdge (hI : ∀ n, I n ≤ 2) {g h c : EGraph} (hh : WF I h) (inv : MInv I g h c)
    {a b : Node} {m : Flags} (he : (a, b, m) ∈ h.edgeList) :
    MInv I g h (addEdge I c a b m) ∧ m.le ((addEdge I c a b m).fl a b) = true := by
  obtain ⟨ha, _, hb, hm⟩ := mem_edgeList.1 he
  obtain ⟨hmany, hmle⟩ := Flags.any_of_mem_bits hm
  have hcr := inv.wf.toRep
  have hflub : ∀ x y, (((addEdge I c a b m).fl x y).le (orFl g h x y)) = true := by
    intro x y
    rw [addEdge_fl hI hcr]
    split
    · rename_i e; obtain ⟨rfl, rfl⟩ := e
      exact Flags.or_le (inv.flub x y) (Flags.le_trans hmle (Flags.le_or_right _ _))
    · exact inv.flub x y
  refine ⟨⟨addEdge_wf hI inv.wf a b m, inv.ge.trans (addEdge_le hI hcr a b m), hflub, ?_, ?_⟩, ?_⟩
  · intro x hx
    rcases (addEdge_dom hcr a b m x).1 hx with h1 | rfl | rfl
    · exact inv.domub x h1
    · exact Or.inr ha
    · exact Or.inr hb
  · intro U hU hgU hhU
    apply addEdge_upper hI hcr a b m hmany U (closedFl_of_le hU hflub) (inv.upper U hU hgU hhU)
    · exact Nat.le_trans (hh.intr a ha) (hhU a)
    · exact Nat.le_trans (hh.intr b hb) (hhU b)
  · rw [addEdge_fl hI hcr, if_pos ⟨rfl, rfl⟩]; exact Flags.le_or_right _ _

theorem minv_node (hI : ∀ n, I n ≤ 2) {g h c : EGraph} (hh : WF I h) (inv : MInv I g h c)
    {n : Node} (hn : n ∈ h.dom) :
    MInv I g h (mergeNodeStatus (addNode I c n) n (h.st n)) ∧
      (∀ a b, (mergeNodeStatus (addNode I c n) n (h.st n)).fl a b = c.fl a b) ∧
      (n ∈ (mergeNodeStatus (addNode I c n) n (h.st n)).dom ∧
        h.st n ≤ (mergeNodeStatus (addNode I c n) n (h.st n)).st n) := by
  have hcr := inv.wf.toRep
  have hwf1 := addNode_wf hI inv.wf n
  have hn1 : n ∈ (addNode I c n).dom := (mem_addNode_dom c n n).2 (Or.inr rfl)
  have sp := mns_spec hwf1 hn1 (hh.le2 n)
  have hfl : ∀ a b, (mergeNodeStatus (addNode I c n) n (h.st n)).fl a b = c.fl a b := by
    intro a b; rw [sp.fl, addNode_fl hcr]
  refine ⟨⟨sp.wf, ?_, ?_, ?_, ?_⟩, hfl, ?_, sp.ge_s⟩
  · refine inv.ge.trans ((addNode_le hcr n).trans ⟨?_, ?_, sp.ge⟩)
    · intro a b; rw [sp.fl]; exact Flags.le_refl _
    · intro x hx; rw [sp.dom]; exact hx
  · intro a b; rw [hfl]; exact inv.flub a b
  · intro x hx
    rw [sp.dom] at hx
    rcases (mem_addNode_dom c n x).1 hx with h1 | rfl
    · exact inv.domub x h1
    · exact Or.inr hn
  · intro U hU hgU hhU
    apply sp.upper U
    · intro a b hab
      rw [addNode_fl hcr] at hab
      exact hU a b (Flags.any_of_le (inv.flub a b) hab)
    · exact addNode_upper n U (inv.upper U hU hgU hhU) (Nat.le_trans (hh.intr n hn) (hhU n))
    · exact hhU n
  · rw [sp.dom]; exact hn1

/-- everything `Merge` does, declaratively: node set = union, flags = union, edge rows for exactly
the nodes, well-formed, and the status is the least one that is closed along the union of the edges
and above both statuses. -/
structure MergeSpec (I : Node → Nat) (g h m : EGraph) : Prop where
  wf : WF I m
  dom : ∀ x, x ∈ m.dom ↔ x ∈ g.dom ∨ x ∈ h.dom
  fl : ∀ a b, m.fl a b = (g.fl a b).or (h.fl a b)
  least : IsLeast (orFl g h) (fun x => max (g.st x) (h.st x)) m.st

theorem merge_spec (hI : ∀ n, I n ≤ 2) {g h : EGraph} (hg : WF I g) (hh : WF I h) :
    MergeSpec I g h (merge I g h) := by
  have inv0 : MInv I g h g :=
    ⟨hg, LE.refl g, fun a b => Flags.le_or_left _ _, fun x hx => Or.inl hx, fun U _ hgU _ => hgU⟩
  -- first loop: the edges of h
  have l1 := foldl_inv (fun (c : EGraph) (e : Node × Node × Flags) => addEdge I c e.1 e.2.1 e.2.2)
    (MInv I g h) (fun e c => e.2.2.le (c.fl e.1 e.2.1) = true) h.edgeList g inv0
    (fun c e he inv => minv_addEdge hI hh inv (a := e.1) (b := e.2.1) (m := e.2.2) he)
    (fun c e e' he' inv hq => by
      have := (addEdge_le hI inv.wf.toRep e'.1 e'.2.1 e'.2.2).fl e.1 e.2.1
      exact Flags.le_trans hq this)
  obtain ⟨inv1, hbits⟩ := l1
  -- all flags of h are present after the first loop
  have hfl1 : ∀ a b, ((h.fl a b).le ((h.edgeList.foldl
      (fun (c : EGraph) (e : Node × Node × Flags) => addEdge I c e.1 e.2.1 e.2.2) g).fl a b)) = true := by
    intro a b
    cases hany : (h.fl a b).any with
    | false => exact Flags.le_of_not_any hany _
    | true =>
      obtain ⟨ha, hb⟩ := hh.ends a b hany
      apply Flags.le_of_bits_le
      intro m hm
      exact hbits (a, b, m) (mem_edgeList.2 ⟨ha, (hh.out a).2 ha, hb, hm⟩)
  -- second loop: the statuses of h
  have l2 := foldl_inv (fun (c : EGraph) (n : Node) => mergeNodeStatus (addNode I c n) n (h.st n))
    (fun c => MInv I g h c ∧ ∀ a b, ((h.fl a b).le (c.fl a b)) = true)
    (fun n c => n ∈ c.dom ∧ h.st n ≤ c.st n) h.dom _ ⟨inv1, hfl1⟩
    (fun c n hn inv => by
      obtain ⟨i1, i2, i3⟩ := minv_node hI hh inv.1 hn
      exact ⟨⟨i1, fun a b => by rw [i2]; exact inv.2 a b⟩, i3⟩)
    (fun c n n' hn' inv hq => by
      obtain ⟨i1, _, _⟩ := minv_node hI hh inv.1 hn'
      have hle : LE c (mergeNodeStatus (addNode I c n') n' (h.st n')) := by
        have hwf1 := addNode_wf hI inv.1.wf n'
        have sp := mns_spec hwf1 ((mem_addNode_dom c n' n').2 (Or.inr rfl)) (hh.le2 n')
        refine (addNode_le inv.1.wf.toRep n').trans ⟨?_, ?_, sp.ge⟩
        · intro a b; rw [sp.fl]; exact Flags.le_refl _
        · intro x hx; rw [sp.dom]; exact hx
      exact ⟨hle.dom n hq.1, Nat.le_trans hq.2 (hle.st n)⟩)
  obtain ⟨⟨inv2, hfl2⟩, hnodes⟩ := l2
  have hm : merge I g h = h.dom.foldl (fun (c : EGraph) (n : Node) => mergeNodeStatus (addNode I c n) n (h.st n))
      (h.edgeList.foldl (fun (c : EGraph) (e : Node × Node × Flags) => addEdge I c e.1 e.2.1 e.2.2) g) := rfl
  rw [hm]
  refine ⟨inv2.wf, ?_, ?_, ?_, ?_, ?_⟩
  · intro x
    constructor
    · exact inv2.domub x
    · rintro (hx | hx)
      · exact inv2.ge.dom x hx
      · exact (hnodes x hx).1
  · intro a b
    exact Flags.le_antisymm (inv2.flub a b) (Flags.or_le (inv2.ge.fl a b) (hfl2 a b))
  · intro x
    apply Nat.max_le.2
    refine ⟨inv2.ge.st x, ?_⟩
    by_cases hx : x ∈ h.dom
    · exact (hnodes x hx).2
    · rw [hh.zero x hx]; exact Nat.zero_le _
  · intro a b hab
    apply inv2.wf.closed a b
    have : (orFl g h a b).le ((h.dom.foldl (fun (c : EGraph) (n : Node) => mergeNodeStatus (addNode I c n) n (h.st n))
      (h.edgeList.foldl (fun (c : EGraph) (e : Node × Node × Flags) => addEdge I c e.1 e.2.1 e.2.2) g)).fl a b) = true :=
      Flags.or_le (inv2.ge.fl a b) (hfl2 a b)
    exact Flags.any_of_le this hab
  · intro U hU hbase x
    exact inv2.upper U hU (fun y => Nat.le_trans (Nat.le_max_left _ _) (hbase y))
      (fun y => Nat.le_trans (Nat.le_max_right _ _) (hbase y)) x

end EGraph
end Argot.EGraph
