/- Helper lemmas for C15 (Props/C15Mono.lean): `WeakAssign` with the subnode recursion, `StoreField`,
   `LoadField` over a fixed node group, characterised as *least well-formed graphs above the input that
   meet an upward-closed demand*; monotonicity follows from the characterisation.

   The demand of `WeakAssign(dest, src)` is read from a fixed flag table `rd` (the rows of the nodes
   the operation reads).  The operation writes rows of `dest` and of the field subnodes below it
   (`Desc ng dest`); when no such node is one of the nodes it reads (a set `R` containing `src` and
   closed under subnode edges), the rows it reads never change while it runs. -/
import Argot.Proofs.EGraphAssign
import Argot.Proofs.EscCore

namespace Argot.EGraph
namespace EGraph

variable {I : Node → Nat}

theorem Flags.sub_of_le {a b : Flags} (h : a.le b = true) (ha : a.sub = true) : b.sub = true := by
  rcases a with ⟨a1, a2, a3⟩; rcases b with ⟨b1, b2, b3⟩
  cases a1 <;> cases a2 <;> cases a3 <;> cases b1 <;> cases b2 <;> cases b3 <;> simp_all [Flags.le]

theorem Flags.subnode_le {c : Flags} : Flags.subnode.le c = true ↔ c.sub = true := by
  rcases c with ⟨c1, c2, c3⟩; simp [Flags.le, Flags.subnode]

theorem Flags.external_le {c : Flags} : Flags.external.le c = true ↔ c.ext = true := by
  rcases c with ⟨c1, c2, c3⟩; simp [Flags.le, Flags.external]

theorem Flags.not_any {c : Flags} (h : c.any = false) : c.ext = false ∧ c.int = false ∧ c.sub = false := by
  rcases c with ⟨c1, c2, c3⟩; cases c1 <;> cases c2 <;> cases c3 <;> simp_all [Flags.any]

/-! ### least graphs above `g` that meet an upward-closed demand -/

structure LeastSat (I : Node → Nat) (g : EGraph) (D : EGraph → Prop) (r : EGraph) : Prop where
  wf : WF I r
  ge : LE g r
  sat : D r
  least : ∀ k, WF I k → LE g k → D k → LE r k

def UpClosed (D : EGraph → Prop) : Prop := ∀ k k', LE k k' → D k → D k'

theorem LeastSat.refl {g : EGraph} (hg : WF I g) : LeastSat I g (fun _ => True) g :=
  ⟨hg, LE.refl g, trivial, fun _ _ h _ => h⟩

theorem LeastSat.comp {g r1 r2 : EGraph} {D1 D2 : EGraph → Prop} (h1 : LeastSat I g D1 r1)
    (h2 : LeastSat I r1 D2 r2) (hD1 : UpClosed D1) : LeastSat I g (fun k => D1 k ∧ D2 k) r2 :=
  ⟨h2.wf, h1.ge.trans h2.ge, ⟨hD1 _ _ h2.ge h1.sat, h2.sat⟩,
    fun k hk hle hd => h2.least k hk (h1.least k hk hle hd.1) hd.2⟩

theorem LeastSat.congr {g r : EGraph} {D D' : EGraph → Prop} (h : LeastSat I g D r) (e : ∀ k, D k ↔ D' k) :
    LeastSat I g D' r :=
  ⟨h.wf, h.ge, (e _).1 h.sat, fun k hk hle hd => h.least k hk hle ((e k).2 hd)⟩

/-- monotonicity from the characterisation -/
theorem LeastSat.mono {g h rg rh : EGraph} {Dg Dh : EGraph → Prop} (sg : LeastSat I g Dg rg)
    (sh : LeastSat I h Dh rh) (hle : LE g h) (hD : Dh rh → Dg rh) : LE rg rh :=
  sg.least rh sh.wf (hle.trans sh.ge) (hD sh.sat)

theorem leastSat_addNode (hI : ∀ n, I n ≤ 2) {g : EGraph} (hg : WF I g) (n : Node) :
    LeastSat I g (fun k => n ∈ k.dom) (addNode I g n) :=
  ⟨addNode_wf hI hg n, addNode_le hg.toRep n, (mem_addNode_dom g n n).2 (Or.inr rfl),
    fun _ hk hle hn => addNode_le_of_le hg hk hle hn⟩

theorem leastSat_addEdge (hI : ∀ n, I n ≤ 2) {g : EGraph} (hg : WF I g) (a b : Node) (f : Flags)
    (hf : f.any = true) : LeastSat I g (fun k => f.le (k.fl a b) = true) (addEdge I g a b f) :=
  ⟨addEdge_wf hI hg a b f, addEdge_le hI hg.toRep a b f,
    by rw [addEdge_fl hI hg.toRep, if_pos ⟨rfl, rfl⟩]; exact Flags.le_or_right _ _,
    fun _ hk hle hd => addEdge_le_of_le hI hg hk hle hf hd⟩

theorem leastSat_waStep (hI : ∀ n, I n ≤ 2) {g : EGraph} (hg : WF I g) (dest : Node) (e : Node × Flags) :
    LeastSat I g (fun k => (e.2.ext = true ∨ e.2.int = true) → (k.fl dest e.1).int = true)
      (waStep I dest g e) :=
  ⟨waStep_wf hI hg dest e, waStep_ge hI hg dest e, waStep_has_edge hI hg dest e,
    fun _ hk hle hd => waStep_le_of_le hI hg hk hle dest e hd⟩

/-- a fold whose steps each yield the least graph meeting the demand of their element yields the
least graph meeting all demands; `P` is a side invariant of the fold state -/
theorem foldl_least {α β : Type} (gr : β → EGraph) (f : β → α → β) (P : β → Prop) (D : α → EGraph → Prop)
    (hD : ∀ a, UpClosed (D a)) (l : List α) (b : β) (hP : P b) (hwf : WF I (gr b))
    (step : ∀ b a, a ∈ l → P b → WF I (gr b) → P (f b a) ∧ LeastSat I (gr b) (D a) (gr (f b a))) :
    P (l.foldl f b) ∧ LeastSat I (gr b) (fun k => ∀ a, a ∈ l → D a k) (gr (l.foldl f b)) := by
  induction l generalizing b with
  | nil => exact ⟨hP, hwf, LE.refl _, fun a ha => by simp at ha, fun k _ h _ => h⟩
  | cons x xs ih =>
    simp only [List.foldl_cons]
    obtain ⟨hP1, hL1⟩ := step b x List.mem_cons_self hP hwf
    obtain ⟨hPf, hLf⟩ := ih (f b x) hP1 hL1.wf (fun b a ha => step b a (List.mem_cons_of_mem _ ha))
    refine ⟨hPf, (hL1.comp hLf (hD x)).congr ?_⟩
    intro k; constructor
    · rintro ⟨h1, h2⟩ a ha
      rcases List.mem_cons.1 ha with rfl | ha'
      · exact h1
      · exact h2 a ha'
    · intro h; exact ⟨h x List.mem_cons_self, fun a ha => h a (List.mem_cons_of_mem _ ha)⟩

/-! ### the demand of `WeakAssign` -/

/-- `x` is `d` or a field subnode below `d` (the rows `WeakAssign(d, _)` may write) -/
inductive Desc (ng : NG) : Node → Node → Prop
  | refl (d : Node) : Desc ng d d
  | step {d c x : Node} {f : Nat} : ng.sub d f = some c → Desc ng c x → Desc ng d x

/-- what `WeakAssign(d, s)` (recursion depth `fuel`) demands of a graph `k`, the rows it reads being
given by `rd`: `d` is a node; `d` points (internally) to every ext/int pointee of `s`; for every subnode
edge `s → p` (`p` a subnode for field `f`) the field subnode `c` of `d` for `f` hangs below `d` and
`WeakAssign(c, p)` is demanded. -/
def Sat (ng : NG) (rd : Node → Node → Flags) (k : EGraph) : Nat → Node → Node → Prop
  | 0, _, _ => True
  | fuel + 1, d, s => d ∈ k.dom ∧ ∀ p,
      (((rd s p).ext = true ∨ (rd s p).int = true) → (k.fl d p).int = true) ∧
      ((rd s p).sub = true → ∀ q f c, ng.par p = some (q, f) → ng.sub d f = some c →
        (k.fl d c).sub = true ∧ Sat ng rd k fuel c p)

/-- the node universe is fixed: every field subnode that `WeakAssign(d, s)` asks for exists -/
def Fix (ng : NG) (rd : Node → Node → Flags) : Nat → Node → Node → Prop
  | 0, _, _ => True
  | fuel + 1, d, s => ∀ p, (rd s p).sub = true → ∀ q f, ng.par p = some (q, f) →
      ∃ c, ng.sub d f = some c ∧ Fix ng rd fuel c p

theorem Sat_up (ng : NG) (rd : Node → Node → Flags) : ∀ fuel d s, UpClosed (fun k => Sat ng rd k fuel d s) := by
  intro fuel
  induction fuel with
  | zero => intro d s k k' _ _; trivial
  | succ fuel ih =>
    intro d s k k' hle hk
    obtain ⟨hd, hp⟩ := hk
    refine ⟨hle.dom d hd, fun p => ⟨fun h => Flags.int_of_le (hle.fl d p) ((hp p).1 h), ?_⟩⟩
    intro hs q f c hpar hsub
    obtain ⟨h1, h2⟩ := (hp p).2 hs q f c hpar hsub
    exact ⟨Flags.sub_of_le (hle.fl d c) h1, ih c p k k' hle h2⟩

/-- fewer flags read, fewer demands -/
theorem Sat_anti (ng : NG) {rd rd' : Node → Node → Flags} (hrd : ∀ a b, (rd a b).le (rd' a b) = true)
    (k : EGraph) : ∀ fuel d s, Sat ng rd' k fuel d s → Sat ng rd k fuel d s := by
  intro fuel
  induction fuel with
  | zero => intro d s _; trivial
  | succ fuel ih =>
    intro d s hk
    obtain ⟨hd, hp⟩ := hk
    refine ⟨hd, fun p => ⟨fun h => (hp p).1 ?_, ?_⟩⟩
    · rcases h with h | h
      · exact Or.inl (Flags.ext_of_le (hrd s p) h)
      · exact Or.inr (Flags.int_of_le (hrd s p) h)
    · intro hs q f c hpar hsub
      obtain ⟨h1, h2⟩ := (hp p).2 (Flags.sub_of_le (hrd s p) hs) q f c hpar hsub
      exact ⟨h1, ih c p h2⟩

theorem Fix_anti (ng : NG) {rd rd' : Node → Node → Flags} (hrd : ∀ a b, (rd a b).le (rd' a b) = true) :
    ∀ fuel d s, Fix ng rd' fuel d s → Fix ng rd fuel d s := by
  intro fuel
  induction fuel with
  | zero => intro d s _; trivial
  | succ fuel ih =>
    intro d s hk p hs q f hpar
    obtain ⟨c, hc, hfix⟩ := hk p (Flags.sub_of_le (hrd s p) hs) q f hpar
    exact ⟨c, hc, ih c p hfix⟩

/-- the demand of one snapshot edge `e = (p, flags of s → p)` in the loop of `WeakAssign(d, s)` -/
def Dem (ng : NG) (rd : Node → Node → Flags) (fuel : Nat) (d : Node) (e : Node × Flags) (k : EGraph) : Prop :=
  ((e.2.ext = true ∨ e.2.int = true) → (k.fl d e.1).int = true) ∧
  (e.2.sub = true → ∀ q f c, ng.par e.1 = some (q, f) → ng.sub d f = some c →
    (k.fl d c).sub = true ∧ Sat ng rd k fuel c e.1)

theorem Sat_succ (ng : NG) (rd : Node → Node → Flags) (k : EGraph) (fuel : Nat) (d s : Node) :
    Sat ng rd k (fuel + 1) d s ↔ d ∈ k.dom ∧ ∀ p, Dem ng rd fuel d (p, rd s p) k := Iff.rfl

theorem Dem_up (ng : NG) (rd : Node → Node → Flags) (fuel : Nat) (d : Node) (e : Node × Flags) :
    UpClosed (Dem ng rd fuel d e) := by
  intro k k' hle hk
  refine ⟨fun h => Flags.int_of_le (hle.fl d e.1) (hk.1 h), ?_⟩
  intro hs q f c hpar hsub
  obtain ⟨h1, h2⟩ := hk.2 hs q f c hpar hsub
  exact ⟨Flags.sub_of_le (hle.fl d c) h1, Sat_up ng rd fuel c e.1 k k' hle h2⟩

/-! ### the loop body of `WeakAssign` -/

/-- the loop body of `WeakAssign(dest, _)` (verbatim from `weakAssign`) -/
def waBody (fuel : Nat) (dest : Node) (acc : NG × EGraph) (e : Node × Flags) : NG × EGraph :=
  let a1 := if e.2.ext then (acc.1, addEdge acc.1.intr acc.2 dest e.1 Flags.internal) else acc
  let a2 := if e.2.int then (a1.1, addEdge a1.1.intr a1.2 dest e.1 Flags.internal) else a1
  if e.2.sub then
    match a2.1.par e.1 with
    | some (_, f) =>
      let r := fieldSubnode a2.1 a2.2 dest f
      weakAssign fuel r.1 r.2.1 r.2.2 e.1
    | none => a2
  else a2

theorem weakAssign_succ (fuel : Nat) (ng : NG) (g : EGraph) (dest src : Node) :
    weakAssign (fuel + 1) ng g dest src =
      ((pointees (addNode ng.intr g dest) src).map fun d => (d, (addNode ng.intr g dest).fl src d)).foldl
        (waBody fuel dest) (ng, addNode ng.intr g dest) := rfl

theorem waBody_eq (ng : NG) (c : EGraph) (fuel : Nat) (dest : Node) (e : Node × Flags) :
    waBody fuel dest (ng, c) e =
      if e.2.sub then
        match ng.par e.1 with
        | some (_, f) =>
          let r := fieldSubnode ng (waStep ng.intr dest c e) dest f
          weakAssign fuel r.1 r.2.1 r.2.2 e.1
        | none => (ng, waStep ng.intr dest c e)
      else (ng, waStep ng.intr dest c e) := by
  unfold waBody waStep
  cases e.2.ext <;> cases e.2.int <;> simp

theorem fieldSubnode_some {ng : NG} {base c : Node} {f : Nat} (h : ng.sub base f = some c) (g : EGraph) :
    fieldSubnode ng g base f = (ng, addEdge ng.intr g base c Flags.subnode, c) := by
  unfold fieldSubnode; rw [h]

theorem mem_snapshot {g : EGraph} {s : Node} {e : Node × Flags} :
    e ∈ ((pointees g s).map fun d => (d, g.fl s d)) ↔
      e.1 ∈ g.dom ∧ (g.fl s e.1).any = true ∧ e.2 = g.fl s e.1 := by
  rw [List.mem_map]
  constructor
  · rintro ⟨p, hp, rfl⟩
    obtain ⟨h1, h2⟩ := mem_succs.1 hp
    exact ⟨h1, h2, rfl⟩
  · rintro ⟨h1, h2, h3⟩
    refine ⟨e.1, mem_succs.2 ⟨h1, h2⟩, ?_⟩
    rcases e with ⟨p, fl⟩
    simp only at h3
    rw [h3]

/-- result of an operation that leaves the node group alone -/
structure OpRes (ng : NG) (R : Node → Prop) (rd : Node → Node → Flags) (g : EGraph) (D : EGraph → Prop)
    (r : NG × EGraph) : Prop where
  ng_eq : r.1 = ng
  least : LeastSat ng.intr g D r.2
  frame : ∀ a, R a → ∀ b, r.2.fl a b = rd a b

/-- **`WeakAssign(d, s)`, subnode recursion included**, on a well-formed graph whose rows on the read set `R`
are `rd`: the node group is untouched, the result is the least well-formed graph above `g` meeting
`Sat`, and the rows of `R` are unchanged. -/
theorem wa_main (ng : NG) (hI : ∀ n, ng.intr n ≤ 2) (R : Node → Prop) (rd : Node → Node → Flags)
    (hRc : ∀ a b, R a → (rd a b).sub = true → R b) :
    ∀ fuel g d s, WF ng.intr g → (∀ a, R a → ∀ b, g.fl a b = rd a b) → R s → (∀ x, Desc ng d x → ¬ R x) →
      Fix ng rd fuel d s →
      OpRes ng R rd g (fun k => Sat ng rd k fuel d s) (weakAssign fuel ng g d s) := by
  intro fuel
  induction fuel with
  | zero =>
    intro g d s hg hfr _ _ _
    exact ⟨rfl, LeastSat.refl hg, hfr⟩
  | succ fuel ih =>
    intro g d s hg hfr hRs hRd hfix
    have hnd : ¬ R d := hRd d (Desc.refl d)
    have hwf1 := addNode_wf hI hg d
    have hfl1 : ∀ a b, (addNode ng.intr g d).fl a b = g.fl a b := fun a b => addNode_fl hg.toRep d a b
    rw [weakAssign_succ]
    have key := foldl_least (I := ng.intr) Prod.snd (waBody fuel d)
      (fun c => c.1 = ng ∧ ∀ a, R a → ∀ b, c.2.fl a b = rd a b) (Dem ng rd fuel d) (Dem_up ng rd fuel d)
      ((pointees (addNode ng.intr g d) s).map fun p => (p, (addNode ng.intr g d).fl s p))
      (ng, addNode ng.intr g d) ⟨rfl, fun a ha b => by rw [hfl1]; exact hfr a ha b⟩ hwf1
      (by
        rintro ⟨n', c⟩ e he ⟨hn, hcf⟩ hc
        simp only at hn hcf hc
        subst hn
        obtain ⟨_, _, he2⟩ := mem_snapshot.1 he
        rw [hfl1, hfr s hRs] at he2
        rw [waBody_eq]
        have L2 := leastSat_waStep hI hc d e
        have fr2 : ∀ a, R a → ∀ b, (waStep n'.intr d c e).fl a b = rd a b := fun a ha b => by
          rw [(waStep_sub_row hI hc d e).2 a (fun h => hnd (h ▸ ha)) b]; exact hcf a ha b
        by_cases hs : e.2.sub = true
        · rw [if_pos hs]
          cases hp : n'.par e.1 with
          | none =>
            refine ⟨⟨rfl, fr2⟩, L2.congr fun k => ⟨fun h => ⟨h, ?_⟩, fun h => h.1⟩⟩
            intro _ q f c' hpar
            rw [hp] at hpar; cases hpar
          | some qf =>
            obtain ⟨q, f⟩ := qf
            have hs' : (rd s e.1).sub = true := by rw [← he2]; exact hs
            obtain ⟨c', hc', hfix'⟩ := hfix e.1 hs' q f hp
            simp only [fieldSubnode_some hc']
            have L3 := leastSat_addEdge hI L2.wf d c' Flags.subnode rfl
            have fr3 : ∀ a, R a → ∀ b, (addEdge n'.intr (waStep n'.intr d c e) d c' Flags.subnode).fl a b = rd a b :=
              fun a ha b => by
                rw [addEdge_row hI L2.wf d c' _ (fun h => hnd (h ▸ ha)) b]; exact fr2 a ha b
            have hrec := ih _ c' e.1 L3.wf fr3 (hRc s e.1 hRs hs')
              (fun x hx => hRd x (Desc.step hc' hx)) hfix'
            refine ⟨⟨hrec.ng_eq, hrec.frame⟩, ?_⟩
            have upA : UpClosed (fun k : EGraph => (e.2.ext = true ∨ e.2.int = true) → (k.fl d e.1).int = true) :=
              fun k k' hle h hx => Flags.int_of_le (hle.fl d e.1) (h hx)
            have upB : UpClosed (fun k : EGraph => Flags.subnode.le (k.fl d c') = true) :=
              fun k k' hle h => Flags.le_trans h (hle.fl d c')
            have upAB : UpClosed (fun k : EGraph => ((e.2.ext = true ∨ e.2.int = true) → (k.fl d e.1).int = true) ∧
                Flags.subnode.le (k.fl d c') = true) :=
              fun k k' hle h => ⟨upA k k' hle h.1, upB k k' hle h.2⟩
            refine ((L2.comp L3 upA).comp hrec.least upAB).congr fun k => ⟨?_, ?_⟩
            · rintro ⟨⟨hA, hB⟩, hS⟩
              refine ⟨hA, fun _ q' f' c'' hpar hsub => ?_⟩
              rw [hp] at hpar; cases hpar
              rw [hc'] at hsub; cases hsub
              exact ⟨Flags.subnode_le.1 hB, hS⟩
            · intro hD
              obtain ⟨h1, h2⟩ := hD.2 hs q f c' hp hc'
              exact ⟨⟨hD.1, Flags.subnode_le.2 h1⟩, h2⟩
        · rw [if_neg hs]
          refine ⟨⟨rfl, fr2⟩, L2.congr fun k => ⟨fun h => ⟨h, fun h' => absurd h' hs⟩, fun h => h.1⟩⟩)
    obtain ⟨⟨hng, hframe⟩, hL⟩ := key
    refine ⟨hng, ?_, hframe⟩
    have hcomp := (leastSat_addNode hI hg d).comp hL (fun k k' hle h => hle.dom d h)
    refine hcomp.congr fun k => ?_
    rw [Sat_succ]
    constructor
    · rintro ⟨hd, hall⟩
      refine ⟨hd, fun p => ?_⟩
      by_cases hany : (rd s p).any = true
      · apply hall (p, rd s p)
        apply mem_snapshot.2
        have hgfl : g.fl s p = rd s p := hfr s hRs p
        refine ⟨(mem_addNode_dom g d p).2 (Or.inl (hg.ends s p (by rw [hgfl]; exact hany)).2), ?_, ?_⟩
        · rw [hfl1, hgfl]; exact hany
        · rw [hfl1, hgfl]
      · obtain ⟨h1, h2, h3⟩ := Flags.not_any (Bool.eq_false_iff.2 hany)
        refine ⟨fun h => ?_, fun h => ?_⟩
        · simp only [h1, h2] at h; simp at h
        · simp only [h3] at h; simp at h
    · rintro ⟨hd, hall⟩
      refine ⟨hd, fun e he => ?_⟩
      obtain ⟨_, _, he2⟩ := mem_snapshot.1 he
      rw [hfl1, hfr s hRs] at he2
      have := hall e.1
      rw [← he2] at this
      exact this

/-- **monotonicity of `WeakAssign`** (declarative order), subnode recursion included -/
theorem wa_mono_le (ng : NG) (hI : ∀ n, ng.intr n ≤ 2) {g h : EGraph} (hg : WF ng.intr g) (hh : WF ng.intr h)
    (hle : LE g h) (fuel : Nat) (d s : Node) (R : Node → Prop) (hRs : R s)
    (hRc : ∀ a b, R a → (h.fl a b).sub = true → R b) (hRd : ∀ x, Desc ng d x → ¬ R x)
    (hfix : Fix ng h.fl fuel d s) :
    LE (weakAssign fuel ng g d s).2 (weakAssign fuel ng h d s).2 := by
  have rh := wa_main ng hI R h.fl hRc fuel h d s hh (fun _ _ _ => rfl) hRs hRd hfix
  have rg := wa_main ng hI R g.fl (fun a b ha hs => hRc a b ha (Flags.sub_of_le (hle.fl a b) hs)) fuel g d s hg
    (fun _ _ _ => rfl) hRs hRd (Fix_anti ng hle.fl fuel d s hfix)
  exact rg.least.mono rh.least hle (Sat_anti ng hle.fl _ fuel d s)

theorem Fix_anti_sub (ng : NG) {rd rd' : Node → Node → Flags}
    (hrd : ∀ a b, (rd a b).sub = true → (rd' a b).sub = true) :
    ∀ fuel d s, Fix ng rd' fuel d s → Fix ng rd fuel d s := by
  intro fuel
  induction fuel with
  | zero => intro d s _; trivial
  | succ fuel ih =>
    intro d s hk p hs q f hpar
    obtain ⟨c, hc, hfix⟩ := hk p (hrd s p hs) q f hpar
    exact ⟨c, hc, ih c p hfix⟩

/-- `WeakAssign` only adds information (same hypotheses as `wa_main`, reads from the graph itself) -/
theorem wa_res (ng : NG) (hI : ∀ n, ng.intr n ≤ 2) {g : EGraph} (hg : WF ng.intr g) (fuel : Nat) (d s : Node)
    (R : Node → Prop) (hRs : R s) (hRc : ∀ a b, R a → (g.fl a b).sub = true → R b)
    (hRd : ∀ x, Desc ng d x → ¬ R x) (hfix : Fix ng g.fl fuel d s) :
    OpRes ng R g.fl g (fun k => Sat ng g.fl k fuel d s) (weakAssign fuel ng g d s) :=
  wa_main ng hI R g.fl hRc fuel g d s hg (fun _ _ _ => rfl) hRs hRd hfix

/-! ### `StoreField` -/

/-- demand of `StoreField(addr, val, field)` for one pointee `p` of `addr` -/
def SDem (ng : NG) (rd : Node → Node → Flags) (val : Node) (field : Option Nat) (p : Node) (k : EGraph) : Prop :=
  match field with
  | some f => ∀ c, ng.sub p f = some c → (k.fl p c).sub = true ∧ Sat ng rd k (ng.next + 2) c val
  | none => Sat ng rd k (ng.next + 2) p val

/-- fixed universe for one pointee `p` of `addr` -/
def SFix (ng : NG) (rd : Node → Node → Flags) (val : Node) (field : Option Nat) (p : Node) : Prop :=
  match field with
  | some f => ∃ c, ng.sub p f = some c ∧ Fix ng rd (ng.next + 2) c val
  | none => Fix ng rd (ng.next + 2) p val

theorem SDem_up (ng : NG) (rd : Node → Node → Flags) (val : Node) (field : Option Nat) (p : Node) :
    UpClosed (SDem ng rd val field p) := by
  intro k k' hle hk
  cases field with
  | none => exact Sat_up ng rd _ p val k k' hle hk
  | some f =>
    intro c hc
    obtain ⟨h1, h2⟩ := hk c hc
    exact ⟨Flags.sub_of_le (hle.fl p c) h1, Sat_up ng rd _ c val k k' hle h2⟩

theorem SDem_anti (ng : NG) {rd rd' : Node → Node → Flags} (hrd : ∀ a b, (rd a b).le (rd' a b) = true)
    (val : Node) (field : Option Nat) (p : Node) (k : EGraph) (h : SDem ng rd' val field p k) :
    SDem ng rd val field p k := by
  cases field with
  | none => exact Sat_anti ng hrd k _ p val h
  | some f => exact fun c hc => ⟨(h c hc).1, Sat_anti ng hrd k _ c val (h c hc).2⟩

theorem SFix_anti (ng : NG) {rd rd' : Node → Node → Flags} (hrd : ∀ a b, (rd a b).le (rd' a b) = true)
    (val : Node) (field : Option Nat) (p : Node) (h : SFix ng rd' val field p) : SFix ng rd val field p := by
  cases field with
  | none => exact Fix_anti ng hrd _ p val h
  | some f =>
    obtain ⟨c, hc, hf⟩ := h
    exact ⟨c, hc, Fix_anti ng hrd _ c val hf⟩

/-- the loop body of `StoreField` (verbatim) -/
def storeBody (val : Node) (field : Option Nat) (acc : NG × EGraph) (p : Node) : NG × EGraph :=
  match field with
  | some f =>
    let r := fieldSubnode acc.1 acc.2 p f
    weakAssign (r.1.next + 2) r.1 r.2.1 r.2.2 val
  | none => weakAssign (acc.1.next + 2) acc.1 acc.2 p val

theorem storeField_eq (ng : NG) (g : EGraph) (addr val : Node) (field : Option Nat) :
    storeField ng g addr val field = (pointees g addr).foldl (storeBody val field) (ng, g) := by
  cases field <;> rfl

/-- a fold of the `StoreField` body over any list of pointees, rows read given by `rd` -/
theorem store_fold (ng : NG) (hI : ∀ n, ng.intr n ≤ 2) (R : Node → Prop) (rd : Node → Node → Flags)
    (hRc : ∀ a b, R a → (rd a b).sub = true → R b) (val : Node) (field : Option Nat) (hRv : R val)
    (l : List Node) (g : EGraph) (hg : WF ng.intr g) (hfr : ∀ a, R a → ∀ b, g.fl a b = rd a b)
    (hpt : ∀ p, p ∈ l → (∀ x, Desc ng p x → ¬ R x) ∧ SFix ng rd val field p) :
    OpRes ng R rd g (fun k => ∀ p, p ∈ l → SDem ng rd val field p k) (l.foldl (storeBody val field) (ng, g)) := by
  have key := foldl_least (I := ng.intr) Prod.snd (storeBody val field)
    (fun c => c.1 = ng ∧ ∀ a, R a → ∀ b, c.2.fl a b = rd a b) (SDem ng rd val field) (SDem_up ng rd val field)
    l (ng, g) ⟨rfl, hfr⟩ hg
    (by
      rintro ⟨n', c⟩ p hp ⟨hn, hcf⟩ hc
      simp only at hn hcf hc
      subst hn
      obtain ⟨hRd, hfix⟩ := hpt p hp
      have hnp : ¬ R p := hRd p (Desc.refl p)
      cases field with
      | none =>
        have r := wa_main n' hI R rd hRc (n'.next + 2) c p val hc hcf hRv hRd hfix
        exact ⟨⟨r.ng_eq, r.frame⟩, r.least⟩
      | some f =>
        obtain ⟨c', hc', hfix'⟩ := hfix
        simp only [storeBody, fieldSubnode_some hc']
        have L1 := leastSat_addEdge hI hc p c' Flags.subnode rfl
        have fr1 : ∀ a, R a → ∀ b, (addEdge n'.intr c p c' Flags.subnode).fl a b = rd a b := fun a ha b => by
          rw [addEdge_row hI hc p c' _ (fun h => hnp (h ▸ ha)) b]; exact hcf a ha b
        have r := wa_main n' hI R rd hRc (n'.next + 2) _ c' val L1.wf fr1 hRv
          (fun x hx => hRd x (Desc.step hc' hx)) hfix'
        refine ⟨⟨r.ng_eq, r.frame⟩, (L1.comp r.least (fun k k' hle h => Flags.le_trans h (hle.fl p c'))).congr
          fun k => ⟨?_, ?_⟩⟩
        · rintro ⟨hB, hS⟩ c'' hsub
          rw [hc'] at hsub; cases hsub
          exact ⟨Flags.subnode_le.1 hB, hS⟩
        · intro hD
          exact ⟨Flags.subnode_le.2 (hD c' hc').1, (hD c' hc').2⟩)
  exact ⟨key.1.1, key.2, key.1.2⟩

/-- **monotonicity of `StoreField`** (declarative order), any field, subnode recursion included -/
theorem store_mono_le (ng : NG) (hI : ∀ n, ng.intr n ≤ 2) {g h : EGraph} (hg : WF ng.intr g) (hh : WF ng.intr h)
    (hle : LE g h) (addr val : Node) (field : Option Nat) (R : Node → Prop) (hRv : R val)
    (hRc : ∀ a b, R a → (h.fl a b).sub = true → R b)
    (hpt : ∀ p, p ∈ pointees h addr → (∀ x, Desc ng p x → ¬ R x) ∧ SFix ng h.fl val field p) :
    LE (storeField ng g addr val field).2 (storeField ng h addr val field).2 := by
  have hsubp : ∀ p, p ∈ pointees g addr → p ∈ pointees h addr := by
    intro p hp
    obtain ⟨hpd, hpe⟩ := mem_succs.1 hp
    exact mem_succs.2 ⟨hle.dom p hpd, Flags.any_of_le (hle.fl addr p) hpe⟩
  rw [storeField_eq, storeField_eq]
  have rh := store_fold ng hI R h.fl hRc val field hRv (pointees h addr) h hh (fun _ _ _ => rfl) hpt
  have rg := store_fold ng hI R g.fl (fun a b ha hs => hRc a b ha (Flags.sub_of_le (hle.fl a b) hs)) val field hRv
    (pointees g addr) g hg (fun _ _ _ => rfl)
    (fun p hp => ⟨(hpt p (hsubp p hp)).1, SFix_anti ng hle.fl val field p (hpt p (hsubp p hp)).2⟩)
  exact rg.least.mono rh.least hle
    (fun hs p hp => SDem_anti ng hle.fl val field p _ (hs p (hsubp p hp)))

/-! ### `LoadField` with one pointee whose load node is already named by the node group -/

theorem ensureLoadNode_hist {ng : NG} {op : Nat} {b hn : Node}
    (hh : historyNode ng op (ng.next + 1) (some b) none = some hn) (g : EGraph) :
    ensureLoadNode ng g op b =
      (ng, if g.st b = 0 then g else addEdge ng.intr g b hn Flags.external) := by
  unfold ensureLoadNode
  rw [hh]
  split <;> rfl

/-- the graph after `EnsureLoadNode` when the history names the load node `hn` -/
def ens (I : Node → Nat) (g : EGraph) (b hn : Node) : EGraph :=
  if g.st b = 0 then g else addEdge I g b hn Flags.external

theorem ens_wf (hI : ∀ n, I n ≤ 2) {g : EGraph} (hg : WF I g) (b hn : Node) : WF I (ens I g b hn) := by
  unfold ens; split
  · exact hg
  · exact addEdge_wf hI hg _ _ _

theorem ens_ge (hI : ∀ n, I n ≤ 2) {g : EGraph} (hg : WF I g) (b hn : Node) : LE g (ens I g b hn) := by
  unfold ens; split
  · exact LE.refl g
  · exact addEdge_le hI hg.toRep _ _ _

theorem ens_mono_le (hI : ∀ n, I n ≤ 2) {g h : EGraph} (hg : WF I g) (hh : WF I h) (hle : LE g h) (b hn : Node) :
    LE (ens I g b hn) (ens I h b hn) := by
  unfold ens
  by_cases h1 : g.st b = 0
  · rw [if_pos h1]
    by_cases h2 : h.st b = 0
    · rw [if_pos h2]; exact hle
    · rw [if_neg h2]; exact hle.trans (addEdge_le hI hh.toRep _ _ _)
  · have h2 : ¬ h.st b = 0 := fun e => h1 (Nat.le_zero.1 (e ▸ hle.st b))
    rw [if_neg h1, if_neg h2]
    exact addEdge_mono_le hI hg hh hle b hn Flags.external rfl

theorem ens_sub (hI : ∀ n, I n ≤ 2) {g : EGraph} (hg : WF I g) (b hn a x : Node) :
    ((ens I g b hn).fl a x).sub = (g.fl a x).sub := by
  unfold ens; split
  · rfl
  · rw [addEdge_fl hI hg.toRep]
    split
    · rename_i e; obtain ⟨rfl, rfl⟩ := e
      generalize g.fl a x = c; rcases c with ⟨c1, c2, c3⟩; simp [Flags.or, Flags.external]
    · rfl

/-- `EnsureLoadNode` (named load node) followed by `WeakAssign(val, b)` is monotone and extensive -/
theorem ens_wa_mono_le (ng : NG) (hI : ∀ n, ng.intr n ≤ 2) {g h : EGraph} (hg : WF ng.intr g) (hh : WF ng.intr h)
    (hle : LE g h) (fuel : Nat) (val b hn : Node) (R : Node → Prop) (hRb : R b)
    (hRc : ∀ a x, R a → (h.fl a x).sub = true → R x) (hRd : ∀ x, Desc ng val x → ¬ R x)
    (hfix : Fix ng h.fl fuel val b) :
    LE (weakAssign fuel ng (ens ng.intr g b hn) val b).2 (weakAssign fuel ng (ens ng.intr h b hn) val b).2 ∧
    LE h (weakAssign fuel ng (ens ng.intr h b hn) val b).2 ∧
    WF ng.intr (weakAssign fuel ng (ens ng.intr h b hn) val b).2 ∧
    (weakAssign fuel ng (ens ng.intr h b hn) val b).1 = ng := by
  have hRc' : ∀ a x, R a → ((ens ng.intr h b hn).fl a x).sub = true → R x := fun a x ha hs =>
    hRc a x ha (by rw [ens_sub hI hh] at hs; exact hs)
  have hfix' : Fix ng (ens ng.intr h b hn).fl fuel val b :=
    Fix_anti_sub ng (fun a x hs => by rw [ens_sub hI hh] at hs; exact hs) fuel val b hfix
  have r := wa_res ng hI (ens_wf hI hh b hn) fuel val b R hRb hRc' hRd hfix'
  exact ⟨wa_mono_le ng hI (ens_wf hI hg b hn) (ens_wf hI hh b hn) (ens_mono_le hI hg hh hle b hn) fuel val b R hRb
    hRc' hRd hfix', (ens_ge hI hh b hn).trans r.least.ge, r.least.wf, r.ng_eq⟩

theorem loadField_nil {ng : NG} {g : EGraph} {val addr : Node} {op : Nat} {field : Option Nat}
    (hp : pointees g addr = []) : loadField ng g val addr op field = (ng, g) := by
  unfold loadField; rw [hp]; rfl

theorem loadField_single_none {ng : NG} {g : EGraph} {val addr p hn : Node} {op : Nat}
    (hp : pointees g addr = [p]) (hh : historyNode ng op (ng.next + 1) (some p) none = some hn) :
    loadField ng g val addr op none = weakAssign (ng.next + 2) ng (ens ng.intr g p hn) val p := by
  unfold loadField; rw [hp]
  simp only [List.foldl_cons, List.foldl_nil, ensureLoadNode_hist hh]
  rfl

theorem loadField_single_some {ng : NG} {g : EGraph} {val addr p c hn : Node} {op f : Nat}
    (hp : pointees g addr = [p]) (hc : ng.sub p f = some c)
    (hh : historyNode ng op (ng.next + 1) (some c) none = some hn) :
    loadField ng g val addr op (some f) =
      weakAssign (ng.next + 2) ng (ens ng.intr (addEdge ng.intr g p c Flags.subnode) c hn) val c := by
  unfold loadField; rw [hp]
  simp only [List.foldl_cons, List.foldl_nil, fieldSubnode_some hc, ensureLoadNode_hist hh]
  rfl

theorem pointees_sub_single {g h : EGraph} (hle : LE g h) (hnd : g.dom.Nodup) {addr p : Node}
    (hp : pointees h addr = [p]) : pointees g addr = [] ∨ pointees g addr = [p] := by
  have hall : ∀ x, x ∈ pointees g addr → x = p := by
    intro x hx
    obtain ⟨hxd, hxe⟩ := mem_succs.1 hx
    have : x ∈ pointees h addr := mem_succs.2 ⟨hle.dom x hxd, Flags.any_of_le (hle.fl addr x) hxe⟩
    rw [hp] at this
    simpa using this
  have hn : (pointees g addr).Nodup := by
    unfold pointees succs; exact hnd.filter _
  match hl : pointees g addr with
  | [] => exact Or.inl rfl
  | [x] =>
    have : x = p := hall x (by rw [hl]; simp)
    subst this; exact Or.inr rfl
  | x :: y :: _ =>
    exfalso
    have hx : x = p := hall x (by rw [hl]; simp)
    have hy : y = p := hall y (by rw [hl]; simp)
    rw [hl] at hn
    simp [hx, hy] at hn

/-- the flag table of `h` with the subnode edge `p → c` linked -/
def linkSub (fl : Node → Node → Flags) (p c : Node) : Node → Node → Flags :=
  fun a b => if a = p ∧ b = c then (fl a b).or Flags.subnode else fl a b

/-! ### small inversion lemmas used for concrete instances -/

theorem Desc.inv {ng : NG} {d x : Node} (h : Desc ng d x) :
    x = d ∨ ∃ f c, ng.sub d f = some c ∧ Desc ng c x := by
  cases h with
  | refl => exact Or.inl rfl
  | step hs hd => exact Or.inr ⟨_, _, hs, hd⟩

theorem Desc.leaf {ng : NG} {d x : Node} (hl : ∀ f, ng.sub d f = none) (h : Desc ng d x) : x = d := by
  rcases h.inv with e | ⟨f, c, hs, _⟩
  · exact e
  · rw [hl f] at hs; cases hs

theorem Fix_of_noSub (ng : NG) (rd : Node → Node → Flags) (fuel : Nat) (d s : Node)
    (h : ∀ p, (rd s p).sub = false) : Fix ng rd fuel d s := by
  cases fuel with
  | zero => trivial
  | succ fuel => intro p hs; rw [h p] at hs; cases hs

theorem addEdge_sub_iff (hI : ∀ n, I n ≤ 2) {g : EGraph} (hg : WF I g) (a b : Node) (f : Flags) (x y : Node) :
    ((addEdge I g a b f).fl x y).sub = true ↔ (g.fl x y).sub = true ∨ (x = a ∧ y = b ∧ f.sub = true) := by
  rw [addEdge_fl hI hg.toRep]
  split
  · rename_i e; obtain ⟨rfl, rfl⟩ := e
    generalize g.fl x y = c; rcases c with ⟨c1, c2, c3⟩; rcases f with ⟨f1, f2, f3⟩
    simp [Flags.or]
  · rename_i e
    constructor
    · exact Or.inl
    · rintro (h | ⟨h1, h2, _⟩)
      · exact h
      · exact absurd ⟨h1, h2⟩ e

theorem linkSub_sub_iff (fl : Node → Node → Flags) (p c a b : Node) :
    ((linkSub fl p c) a b).sub = true ↔ (fl a b).sub = true ∨ (a = p ∧ b = c) := by
  unfold linkSub
  split
  · rename_i e
    generalize fl a b = x; rcases x with ⟨x1, x2, x3⟩
    simp [Flags.or, Flags.subnode, e]
  · rename_i e
    constructor
    · exact Or.inl
    · rintro (h | h)
      · exact h
      · exact absurd h e

/-! ### composition of monotone transfer functions -/

/-- `f` keeps well-formedness and the invariant `Inv`, and is monotone on well-formed graphs satisfying `Inv` -/
structure MonoOp (I : Node → Nat) (Inv : EGraph → Prop) (f : EGraph → EGraph) : Prop where
  wf : ∀ g, WF I g → Inv g → WF I (f g)
  inv : ∀ g, WF I g → Inv g → Inv (f g)
  mono : ∀ g h, WF I g → WF I h → Inv g → Inv h → LE g h → LE (f g) (f h)

theorem MonoOp.ident (I : Node → Nat) (Inv : EGraph → Prop) : MonoOp I Inv (fun g => g) :=
  ⟨fun _ h _ => h, fun _ _ h => h, fun _ _ _ _ _ _ h => h⟩

theorem MonoOp.comp {Inv : EGraph → Prop} {f f' : EGraph → EGraph} (hf : MonoOp I Inv f) (hf' : MonoOp I Inv f') :
    MonoOp I Inv (fun g => f' (f g)) :=
  ⟨fun g hg hi => hf'.wf _ (hf.wf g hg hi) (hf.inv g hg hi),
   fun g hg hi => hf'.inv _ (hf.wf g hg hi) (hf.inv g hg hi),
   fun g h hg hh ig ih hle => hf'.mono _ _ (hf.wf g hg ig) (hf.wf h hh ih) (hf.inv g hg ig) (hf.inv h hh ih)
     (hf.mono g h hg hh ig ih hle)⟩

theorem MonoOp.foldl {α : Type} {Inv : EGraph → Prop} (t : EGraph → α → EGraph) (l : List α)
    (h : ∀ a, a ∈ l → MonoOp I Inv (fun g => t g a)) : MonoOp I Inv (fun g => l.foldl t g) := by
  induction l with
  | nil => exact MonoOp.ident I Inv
  | cons x xs ih =>
    have h1 := h x List.mem_cons_self
    have h2 := ih (fun a ha => h a (List.mem_cons_of_mem _ ha))
    exact h1.comp h2

/-! ### no edge into a set of nodes (SSA value nodes are never pointees) -/

def NoInto (V : Node → Prop) (g : EGraph) : Prop := ∀ a v, V v → (g.fl a v).any = false

theorem addEdge_noInto (hI : ∀ n, I n ≤ 2) {V : Node → Prop} {g : EGraph} (hg : WF I g) (hV : NoInto V g)
    {a b : Node} {f : Flags} (hb : ¬ V b) : NoInto V (addEdge I g a b f) := by
  intro x v hv
  rw [addEdge_fl hI hg.toRep]
  split
  · rename_i e; exact absurd (e.2 ▸ hv) hb
  · exact hV x v hv

theorem waStep_noInto (hI : ∀ n, I n ≤ 2) {V : Node → Prop} {g : EGraph} (hg : WF I g) (hV : NoInto V g)
    (dest : Node) (e : Node × Flags) (he : ¬ V e.1) : NoInto V (waStep I dest g e) := by
  unfold waStep
  cases e.2.ext <;> cases e.2.int <;> simp
  · exact hV
  · exact addEdge_noInto hI hg hV he
  · exact addEdge_noInto hI hg hV he
  · exact addEdge_noInto hI (addEdge_wf hI hg _ _ _) (addEdge_noInto hI hg hV he) he

theorem waFlat_noInto (hI : ∀ n, I n ≤ 2) {V : Node → Prop} {g : EGraph} (hg : WF I g) (hV : NoInto V g)
    (dest src : Node) : NoInto V (waFlat I g dest src) := by
  have hV1 : NoInto V (addNode I g dest) := fun a v hv => by rw [addNode_fl hg.toRep]; exact hV a v hv
  have key := foldl_keep (waStep I dest) (fun c => WF I c) (NoInto V)
    ((pointees (addNode I g dest) src).map fun d => (d, (addNode I g dest).fl src d)) (addNode I g dest)
    (addNode_wf hI hg dest) hV1 (fun c e _ hc => waStep_wf hI hc dest e)
    (fun c e he hc hq => waStep_noInto hI hc hq dest e (by
      obtain ⟨d, hd, rfl⟩ := List.mem_map.1 he
      intro hv
      have h1 := (mem_succs.1 hd).2
      rw [hV1 src d hv] at h1
      cases h1))
  exact key.2

theorem foldWA_noInto (hI : ∀ n, I n ≤ 2) {V : Node → Prop} {g : EGraph} (hg : WF I g) (hV : NoInto V g)
    (ps : List (Node × Node)) : NoInto V (foldWA I g ps) :=
  (foldl_keep (fun (c : EGraph) (pr : Node × Node) => waFlat I c pr.1 pr.2) (fun c => WF I c) (NoInto V) ps g hg hV
    (fun _ pr _ hc => (waFlat_spec hI hc pr.1 pr.2).wf)
    (fun _ pr _ hc hq => waFlat_noInto hI hc hq pr.1 pr.2)).2

theorem foldWA_dest_mem (hI : ∀ n, I n ≤ 2) {g : EGraph} (hg : WF I g) (ps : List (Node × Node)) :
    ∀ pr, pr ∈ ps → pr.1 ∈ (foldWA I g ps).dom :=
  (foldl_inv (fun (c : EGraph) (pr : Node × Node) => waFlat I c pr.1 pr.2) (fun c => WF I c)
    (fun pr c => pr.1 ∈ c.dom) ps g hg
    (fun _ pr _ hc => ⟨(waFlat_spec hI hc pr.1 pr.2).wf, (waFlat_spec hI hc pr.1 pr.2).dest_mem⟩)
    (fun _ _ pr' _ hc hq => (waFlat_spec hI hc pr'.1 pr'.2).ge.dom _ hq)).2

/-- `foldWA_mono_le` without the hypothesis that destinations are nodes of the larger graph -/
theorem foldWA_mono_le' (hI : ∀ n, I n ≤ 2) {g h : EGraph} (hg : WF I g) (hh : WF I h) (hle : LE g h)
    (ps ps' : List (Node × Node)) (hsub : ∀ pr, pr ∈ ps → pr ∈ ps')
    (hdisj : ∀ pr pr', pr ∈ ps → pr' ∈ ps → pr.2 ≠ pr'.1) : LE (foldWA I g ps) (foldWA I h ps') := by
  obtain ⟨hK, hhK, hKe⟩ := foldWA_spec hI hh ps'
  have hKd := foldWA_dest_mem hI hh ps'
  suffices hgen : ∀ (l : List (Node × Node)) (c : EGraph), (∀ pr, pr ∈ l → pr ∈ ps) → WF I c →
      LE c (foldWA I h ps') → (∀ pr, pr ∈ ps → ∀ q, c.fl pr.2 q = g.fl pr.2 q) →
      LE (foldWA I c l) (foldWA I h ps') from
    hgen ps g (fun _ h => h) hg (hle.trans hhK) (fun _ _ _ => rfl)
  intro l
  induction l with
  | nil => intro c _ _ hc _; exact hc
  | cons pr l ih =>
    intro c hl hc hcK hrows
    have hpr : pr ∈ ps := hl pr List.mem_cons_self
    show LE (foldWA I (waFlat I c pr.1 pr.2) l) _
    have sp := waFlat_spec hI hc pr.1 pr.2
    apply ih _ (fun x hx => hl x (List.mem_cons_of_mem _ hx)) sp.wf
    · apply sp.least _ hK hcK (hKd pr (hsub pr hpr))
      intro q hq
      apply hKe pr (hsub pr hpr) q
      rw [hrows pr hpr q] at hq
      rcases hq with e | e
      · exact Or.inl (Flags.ext_of_le (hle.fl _ _) e)
      · exact Or.inr (Flags.int_of_le (hle.fl _ _) e)
    · intro pr2 hpr2 q
      rw [(waFlat_sub_row hI hc pr.1 pr.2).2 pr2.2 (hdisj pr2 pr hpr2 hpr) q]
      exact hrows pr2 hpr2 q

/-- leaking is monotone in the graph and in the set of leaked nodes -/
theorem leakAll_mono_le {g h : EGraph} (hg : WF I g) (hh : WF I h) (hle : LE g h) (ns ns' : List Node)
    (hns : ∀ n, n ∈ ns → n ∈ g.dom) (hns' : ∀ n, n ∈ ns' → n ∈ h.dom) (hsub : ∀ n, n ∈ ns → n ∈ ns') :
    LE (ns.foldl (fun g n => mergeNodeStatus g n 2) g) (ns'.foldl (fun g n => mergeNodeStatus g n 2) h) := by
  obtain ⟨_, g2, g3, _, _, g6⟩ := leakAll_spec hg ns hns
  obtain ⟨h1, h2, h3, h4, h5, _⟩ := leakAll_spec hh ns' hns'
  refine ⟨fun a b => by rw [g3, h3]; exact hle.fl a b, fun x hx => by rw [h2]; rw [g2] at hx; exact hle.dom x hx, ?_⟩
  apply g6
  · exact closedFl_of_le h1.closed (fun a b => by rw [h3]; exact hle.fl a b)
  · exact fun x => Nat.le_trans (hle.st x) (h4 x)
  · exact fun n hn => h5 n (hsub n hn)

theorem pointees_mono {g h : EGraph} (hle : LE g h) (a p : Node) (hp : p ∈ pointees g a) : p ∈ pointees h a := by
  obtain ⟨hpd, hpe⟩ := mem_succs.1 hp
  exact mem_succs.2 ⟨hle.dom p hpd, Flags.any_of_le (hle.fl a p) hpe⟩

end EGraph

/-! ### the call-free instruction kinds of the M11 tie (`EscCore.transfer`) -/

namespace EscMono
open Argot.EscCore Argot.EGraph.EGraph

variable {I : Node → Nat}

/-- SSA discipline w.r.t. the set `V` of value nodes: allocation sites are not value nodes, the
value stored / the register loaded into are value nodes -/
def InstrOk (V : Node → Prop) : Instr → Prop
  | .alloc _ site => ¬ V site
  | .copy _ _ => True
  | .store _ v => V v
  | .load v _ => V v
  | .goCall _ => True

theorem foldPairs_eq (g : EGraph) (ps : List (Node × Node)) : foldPairs I g ps = foldWA I g ps := rfl

theorem transfer_noInto (hI : ∀ n, I n ≤ 2) {V : Node → Prop} {g : EGraph} (hg : WF I g) (hV : NoInto V g)
    (i : Instr) (hi : InstrOk V i) : NoInto V (transfer I g i) := by
  cases i with
  | alloc v a => exact addEdge_noInto hI hg hV hi
  | copy v w => exact waFlat_noInto hI hg hV v w
  | store a v => exact foldWA_noInto hI hg hV _
  | load v a => exact foldWA_noInto hI hg hV _
  | goCall v =>
    have hns : ∀ n, n ∈ pointees g v → n ∈ g.dom := fun n hn => (mem_succs.1 hn).1
    obtain ⟨_, _, h3, _⟩ := leakAll_spec hg (pointees g v) hns
    have e : transfer I g (.goCall v) = (pointees g v).foldl (fun g n => mergeNodeStatus g n 2) g := rfl
    intro a x hx
    rw [e, h3]; exact hV a x hx

theorem transfer_mono_le (hI : ∀ n, I n ≤ 2) {V : Node → Prop} {g h : EGraph} (hg : WF I g) (hh : WF I h)
    (hVh : NoInto V h) (hle : LE g h) (i : Instr) (hi : InstrOk V i) :
    LE (transfer I g i) (transfer I h i) := by
  have hVg : NoInto V g := fun a v hv => by
    have := hVh a v hv
    cases hx : (g.fl a v).any
    · rfl
    · rw [Flags.any_of_le (hle.fl a v) hx] at this; cases this
  cases i with
  | alloc v a => exact addEdge_mono_le hI hg hh hle v a _ rfl
  | copy v w => exact waFlat_mono_le hI hg hh hle v w
  | store a v =>
    show LE (foldWA I g _) (foldWA I h _)
    apply foldWA_mono_le' hI hg hh hle
    · intro pr hpr
      obtain ⟨p, hp, rfl⟩ := List.mem_map.1 hpr
      exact List.mem_map.2 ⟨p, pointees_mono hle a p hp, rfl⟩
    · intro pr pr' hpr hpr' e
      obtain ⟨p, _, rfl⟩ := List.mem_map.1 hpr
      obtain ⟨p', hp', rfl⟩ := List.mem_map.1 hpr'
      have e' : v = p' := e
      have h1 := (mem_succs.1 hp').2
      rw [← e', hVg a v hi] at h1
      cases h1
  | load v a =>
    show LE (foldWA I g _) (foldWA I h _)
    apply foldWA_mono_le' hI hg hh hle
    · intro pr hpr
      obtain ⟨p, hp, rfl⟩ := List.mem_map.1 hpr
      exact List.mem_map.2 ⟨p, pointees_mono hle a p hp, rfl⟩
    · intro pr pr' hpr hpr' e
      obtain ⟨p, hp, rfl⟩ := List.mem_map.1 hpr
      obtain ⟨p', _, rfl⟩ := List.mem_map.1 hpr'
      have e' : p = v := e
      have h1 := (mem_succs.1 hp).2
      rw [e', hVg a v hi] at h1
      cases h1
  | goCall v =>
    show LE ((pointees g v).foldl (fun g n => mergeNodeStatus g n 2) g)
      ((pointees h v).foldl (fun g n => mergeNodeStatus g n 2) h)
    exact leakAll_mono_le hg hh hle _ _ (fun n hn => (mem_succs.1 hn).1) (fun n hn => (mem_succs.1 hn).1)
      (fun n hn => pointees_mono hle v n hn)

theorem transfer_monoOp (hI : ∀ n, I n ≤ 2) (V : Node → Prop) (i : Instr) (hi : InstrOk V i) :
    MonoOp I (NoInto V) (fun g => transfer I g i) :=
  ⟨fun _ hg _ => (transfer_wf_le hI hg i).1, fun _ hg hV => transfer_noInto hI hg hV i hi,
   fun _ _ hg hh _ hVh hle => transfer_mono_le hI hg hh hVh hle i hi⟩

end EscMono
end Argot.EGraph
