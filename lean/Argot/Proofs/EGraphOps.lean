/- Helper lemmas for C15: what `addNode`, `addEdge`, `mergeNodeStatus` do to a well-formed graph
   (domain, flags, well-formedness, status = least closed status above the obvious base). -/
import Argot.Proofs.EGraphClosure

namespace Argot.EGraph
namespace EGraph

variable {I : Node → Nat}

theorem not_out_of_not_mem {g : EGraph} (hg : Rep g) {n : Node} (h : n ∉ g.dom) : g.out n = false := by
  cases ho : g.out n with
  | false => rfl
  | true => exact absurd ((hg.out n).1 ho) h

theorem fl_none_left {g : EGraph} (hg : Rep g) {a : Node} (h : a ∉ g.dom) (b : Node) : g.fl a b = Flags.none := by
  apply Flags.eq_none_of_not_any
  cases hx : (g.fl a b).any with
  | false => rfl
  | true => exact absurd (hg.ends a b hx).1 h

theorem fl_none_right {g : EGraph} (hg : Rep g) {b : Node} (h : b ∉ g.dom) (a : Node) : g.fl a b = Flags.none := by
  apply Flags.eq_none_of_not_any
  cases hx : (g.fl a b).any with
  | false => rfl
  | true => exact absurd (hg.ends a b hx).2 h

/-! ### `addNode` -/

theorem mem_addNode_dom (g : EGraph) (n x : Node) : x ∈ (addNode I g n).dom ↔ x ∈ g.dom ∨ x = n := by
  unfold addNode
  split
  · rename_i h
    constructor
    · exact Or.inl
    · rintro (h' | rfl)
      · exact h'
      · exact h
  · simp

theorem addNode_fl {g : EGraph} (hg : Rep g) (n a b : Node) : (addNode I g n).fl a b = g.fl a b := by
  unfold addNode
  split
  · rfl
  · rename_i h
    show (if a = n then Flags.none else g.fl a b) = g.fl a b
    split
    · rename_i e; subst e; exact (fl_none_left hg h b).symm
    · rfl

theorem addNode_st_of_mem {g : EGraph} (n : Node) {x : Node} (hx : x ∈ g.dom) : (addNode I g n).st x = g.st x := by
  unfold addNode
  split
  · rfl
  · rename_i h
    have : x ≠ n := fun e => h (e ▸ hx)
    exact upd_other _ _ this

theorem addNode_st_new {g : EGraph} {n : Node} (h : n ∉ g.dom) : (addNode I g n).st n = I n := by
  unfold addNode
  rw [if_neg h]
  simp

theorem addNode_st_other {g : EGraph} (n : Node) {x : Node} (hx : x ≠ n) : (addNode I g n).st x = g.st x := by
  unfold addNode
  split
  · rfl
  · exact upd_other _ _ hx

theorem addNode_st_ge {g : EGraph} (hg : Rep g) (n x : Node) : g.st x ≤ (addNode I g n).st x := by
  by_cases hx : x ∈ g.dom
  · rw [addNode_st_of_mem n hx]; exact Nat.le_refl _
  · rw [hg.zero x hx]; exact Nat.zero_le _

theorem addNode_upper {g : EGraph} (n : Node) (U : Node → Nat) (h : ∀ x, g.st x ≤ U x)
    (hn : I n ≤ U n) (x : Node) : (addNode I g n).st x ≤ U x := by
  by_cases hx : x = n
  · subst hx
    by_cases hd : x ∈ g.dom
    · rw [addNode_st_of_mem x hd]; exact h x
    · rw [addNode_st_new hd]; exact hn
  · rw [addNode_st_other n hx]; exact h x

theorem addNode_out {g : EGraph} (hg : Rep g) (n x : Node) :
    (addNode I g n).out x = true ↔ x ∈ (addNode I g n).dom := by
  rw [mem_addNode_dom]
  unfold addNode
  split
  · rename_i h
    rw [hg.out x]
    constructor
    · exact Or.inl
    · rintro (h' | rfl)
      · exact h'
      · exact h
  · show upd g.out n true x = true ↔ _
    by_cases hx : x = n
    · subst hx; simp
    · rw [upd_other _ _ hx, hg.out x]; simp [hx]

theorem addNode_rep {g : EGraph} (hI : ∀ n, I n ≤ 2) (hg : Rep g) (n : Node) : Rep (addNode I g n) := by
  refine ⟨?_, ?_, addNode_out hg n, ?_⟩
  · intro x
    by_cases hx : x = n
    · subst hx
      by_cases hd : x ∈ g.dom
      · rw [addNode_st_of_mem x hd]; exact hg.le2 x
      · rw [addNode_st_new hd]; exact hI x
    · rw [addNode_st_other n hx]; exact hg.le2 x
  · intro x hx
    rw [mem_addNode_dom] at hx
    have h1 : x ∉ g.dom := fun h => hx (Or.inl h)
    have h2 : x ≠ n := fun h => hx (Or.inr h)
    rw [addNode_st_other n h2]; exact hg.zero x h1
  · intro a b hab
    rw [addNode_fl hg] at hab
    obtain ⟨ha, hb⟩ := hg.ends a b hab
    exact ⟨(mem_addNode_dom g n a).2 (Or.inl ha), (mem_addNode_dom g n b).2 (Or.inl hb)⟩

theorem addNode_wf (hI : ∀ n, I n ≤ 2) {g : EGraph} (hg : WF I g) (n : Node) : WF I (addNode I g n) := by
  refine ⟨addNode_rep hI hg.toRep n, ?_, ?_⟩
  · intro x hx
    by_cases hd : x ∈ g.dom
    · rw [addNode_st_of_mem n hd]; exact hg.intr x hd
    · rcases (mem_addNode_dom g n x).1 hx with h | h
      · exact absurd h hd
      · subst h; rw [addNode_st_new hd]; exact Nat.le_refl _
  · intro a b hab
    rw [addNode_fl hg.toRep] at hab
    obtain ⟨ha, hb⟩ := hg.ends a b hab
    rw [addNode_st_of_mem n ha, addNode_st_of_mem n hb]
    exact hg.closed a b hab

theorem addNode_le {g : EGraph} (hg : Rep g) (n : Node) : LE g (addNode I g n) :=
  ⟨fun a b => by rw [addNode_fl hg]; exact Flags.le_refl _,
   fun x hx => (mem_addNode_dom g n x).2 (Or.inl hx), addNode_st_ge hg n⟩

/-! ### `addEdge`: the graph just before `computeEdgeClosure` -/

/-- the graph of `AddEdge` after both `AddNode`s and the flag update, before the closure -/
def pre (I : Node → Nat) (g : EGraph) (src dst : Node) (f : Flags) : EGraph :=
  let g1 := if g.out src then g else
    let g' := addNode I g src
    { g' with out := upd g'.out src true, fl := fun a b => if a = src then Flags.none else g'.fl a b }
  let g2 := addNode I g1 dst
  { g2 with fl := upd2 g2.fl src dst ((g2.fl src dst).or f) }

theorem addEdge_eq (g : EGraph) (a b : Node) (f : Flags) :
    addEdge I g a b f = closeEdge (pre I g a b f) a b := rfl

/-- the first step of `AddEdge` (make sure `src` has an edge row) -/
def pre1 (I : Node → Nat) (g : EGraph) (src : Node) : EGraph :=
  if g.out src then g else
    let g' := addNode I g src
    { g' with out := upd g'.out src true, fl := fun a b => if a = src then Flags.none else g'.fl a b }

theorem pre_eq (g : EGraph) (a b : Node) (f : Flags) :
    pre I g a b f = { addNode I (pre1 I g a) b with
      fl := upd2 (addNode I (pre1 I g a) b).fl a b (((addNode I (pre1 I g a) b).fl a b).or f) } := rfl

theorem pre1_dom {g : EGraph} (hg : Rep g) (a x : Node) : x ∈ (pre1 I g a).dom ↔ x ∈ g.dom ∨ x = a := by
  unfold pre1
  split
  · rename_i h
    have := (hg.out a).1 h
    constructor
    · exact Or.inl
    · rintro (h' | rfl)
      · exact h'
      · exact this
  · exact mem_addNode_dom g a x

theorem pre1_fl {g : EGraph} (hg : Rep g) (a x y : Node) : (pre1 I g a).fl x y = g.fl x y := by
  unfold pre1
  split
  · rfl
  · rename_i h
    have ha : a ∉ g.dom := fun hd => h ((hg.out a).2 hd)
    show (if x = a then Flags.none else (addNode I g a).fl x y) = g.fl x y
    split
    · rename_i e; subst e; exact (fl_none_left hg ha y).symm
    · exact addNode_fl hg a x y

theorem pre1_st' {g : EGraph} (hg : Rep g) (a x : Node) :
    (pre1 I g a).st x = if x ∈ g.dom then g.st x else if x = a then I a else g.st x := by
  unfold pre1
  split
  · rename_i h
    have := (hg.out a).1 h
    split
    · rfl
    · split
      · rename_i h1 h2; subst h2; exact absurd this h1
      · rfl
  · rename_i h
    have ha : a ∉ g.dom := fun hd => h ((hg.out a).2 hd)
    show (addNode I g a).st x = _
    split
    · rename_i hx; exact addNode_st_of_mem a hx
    · split
      · rename_i e; subst e; exact addNode_st_new ha
      · rename_i hx; exact addNode_st_other a hx

theorem pre1_rep (hI : ∀ n, I n ≤ 2) {g : EGraph} (hg : Rep g) (a : Node) : Rep (pre1 I g a) := by
  refine ⟨?_, ?_, ?_, ?_⟩
  · intro x
    rw [pre1_st' hg]
    split
    · exact hg.le2 x
    · split
      · exact hI a
      · exact hg.le2 x
  · intro x hx
    rw [pre1_dom hg] at hx
    rw [pre1_st' hg, if_neg (fun h => hx (Or.inl h)), if_neg (fun h => hx (Or.inr h))]
    exact hg.zero x (fun h => hx (Or.inl h))
  · intro x
    rw [pre1_dom hg]
    unfold pre1
    split
    · rename_i h
      rw [hg.out x]
      constructor
      · exact Or.inl
      · rintro (h' | rfl)
        · exact h'
        · exact (hg.out _).1 h
    · show upd (addNode I g a).out a true x = true ↔ _
      by_cases hx : x = a
      · subst hx; simp
      · rw [upd_other _ _ hx, addNode_out hg, mem_addNode_dom]
  · intro x y hxy
    rw [pre1_fl hg] at hxy
    obtain ⟨hx, hy⟩ := hg.ends x y hxy
    exact ⟨(pre1_dom hg a x).2 (Or.inl hx), (pre1_dom hg a y).2 (Or.inl hy)⟩

theorem pre_dom {g : EGraph} (hg : Rep g) (a b : Node) (f : Flags) (x : Node) :
    x ∈ (pre I g a b f).dom ↔ x ∈ g.dom ∨ x = a ∨ x = b := by
  rw [pre_eq]
  show x ∈ (addNode I (pre1 I g a) b).dom ↔ _
  rw [mem_addNode_dom, pre1_dom hg]
  constructor
  · rintro ((h | h) | h)
    · exact Or.inl h
    · exact Or.inr (Or.inl h)
    · exact Or.inr (Or.inr h)
  · rintro (h | h | h)
    · exact Or.inl (Or.inl h)
    · exact Or.inl (Or.inr h)
    · exact Or.inr h

theorem pre_fl (hI : ∀ n, I n ≤ 2) {g : EGraph} (hg : Rep g) (a b : Node) (f : Flags) (x y : Node) :
    (pre I g a b f).fl x y = if x = a ∧ y = b then (g.fl a b).or f else g.fl x y := by
  rw [pre_eq]
  show upd2 (addNode I (pre1 I g a) b).fl a b (((addNode I (pre1 I g a) b).fl a b).or f) x y = _
  have h1 : ∀ u v, (addNode I (pre1 I g a) b).fl u v = g.fl u v := by
    intro u v; rw [addNode_fl (pre1_rep hI hg a), pre1_fl hg]
  unfold upd2
  by_cases hx : x = a
  · by_cases hy : y = b
    · simp [hx, hy, h1]
    · simp [hx, hy, h1]
  · simp [hx, h1]

theorem pre_st {g : EGraph} (hg : Rep g) (a b : Node) (f : Flags) (x : Node) :
    (pre I g a b f).st x = if x ∈ g.dom then g.st x else if x = a ∨ x = b then I x else 0 := by
  rw [pre_eq]
  show (addNode I (pre1 I g a) b).st x = _
  by_cases hx : x ∈ g.dom
  · rw [if_pos hx, addNode_st_of_mem b ((pre1_dom hg a x).2 (Or.inl hx)), pre1_st' hg, if_pos hx]
  · rw [if_neg hx]
    by_cases hxa : x = a
    · subst hxa
      rw [if_pos (Or.inl rfl), addNode_st_of_mem b ((pre1_dom hg x x).2 (Or.inr rfl)), pre1_st' hg,
        if_neg hx, if_pos rfl]
    · by_cases hxb : x = b
      · subst hxb
        rw [if_pos (Or.inr rfl)]
        have : x ∉ (pre1 I g a).dom := by
          rw [pre1_dom hg]; rintro (h | h)
          · exact hx h
          · exact hxa h
        exact addNode_st_new this
      · rw [if_neg (by rintro (h | h); exact hxa h; exact hxb h), addNode_st_other b hxb, pre1_st' hg,
          if_neg hx, if_neg hxa]
        exact hg.zero x hx

theorem pre_rep (hI : ∀ n, I n ≤ 2) {g : EGraph} (hg : Rep g) (a b : Node) (f : Flags) :
    Rep (pre I g a b f) := by
  have hr := addNode_rep hI (pre1_rep hI hg a) b
  refine ⟨?_, ?_, ?_, ?_⟩
  · intro x; rw [pre_eq]; exact hr.le2 x
  · intro x hx; rw [pre_eq] at hx ⊢; exact hr.zero x hx
  · intro x; rw [pre_eq]; exact hr.out x
  · intro x y hxy
    rw [pre_fl hI hg] at hxy
    rw [pre_dom hg, pre_dom hg]
    split at hxy
    · rename_i h; obtain ⟨rfl, rfl⟩ := h
      exact ⟨Or.inr (Or.inl rfl), Or.inr (Or.inr rfl)⟩
    · obtain ⟨hx, hy⟩ := hg.ends x y hxy
      exact ⟨Or.inl hx, Or.inl hy⟩

theorem pre_st_ge {g : EGraph} (hg : Rep g) (a b : Node) (f : Flags) (x : Node) :
    g.st x ≤ (pre I g a b f).st x := by
  rw [pre_st hg]
  split
  · exact Nat.le_refl _
  · rename_i hx; rw [hg.zero x hx]; exact Nat.zero_le _

theorem pre_upper {g : EGraph} (hg : Rep g) (a b : Node) (f : Flags) (U : Node → Nat)
    (h : ∀ x, g.st x ≤ U x) (ha : I a ≤ U a) (hb : I b ≤ U b) (x : Node) : (pre I g a b f).st x ≤ U x := by
  rw [pre_st hg]
  split
  · exact h x
  · split
    · rename_i hx; rcases hx with rfl | rfl
      · exact ha
      · exact hb
    · exact Nat.zero_le _

/-- before the closure the only possible violation is the new edge itself -/
theorem pre_viol (hI : ∀ n, I n ≤ 2) {g : EGraph} (hg : WF I g) (a b : Node) (f : Flags) (x y : Node)
    (hv : Viol (pre I g a b f) (pre I g a b f).st x y) : x = a ∧ y = b := by
  obtain ⟨hxy, _, hlt⟩ := hv
  rw [pre_fl hI hg.toRep] at hxy
  split at hxy
  · assumption
  · obtain ⟨hx, hy⟩ := hg.ends x y hxy
    rw [pre_st hg.toRep, pre_st hg.toRep, if_pos hx, if_pos hy] at hlt
    have := hg.closed x y hxy
    omega

/-- **`AddEdge` keeps the graph well-formed** -/
theorem addEdge_wf (hI : ∀ n, I n ≤ 2) {g : EGraph} (hg : WF I g) (a b : Node) (f : Flags) :
    WF I (addEdge I g a b f) := by
  rw [addEdge_eq]
  have hr := pre_rep hI hg.toRep a b f
  have hb : b ∈ (pre I g a b f).dom := (pre_dom hg.toRep a b f b).2 (Or.inr (Or.inr rfl))
  refine ⟨⟨?_, ?_, ?_, ?_⟩, ?_, ?_⟩
  · exact closeEdge_le2 _ _ _ hr.le2
  · intro x hx
    rw [closeEdge_dom] at hx
    rw [closeEdge_outside _ _ _ hb x hx]; exact hr.zero x hx
  · intro x; rw [closeEdge_out, closeEdge_dom]; exact hr.out x
  · intro x y hxy; rw [closeEdge_fl] at hxy; rw [closeEdge_dom]; exact hr.ends x y hxy
  · intro x hx
    rw [closeEdge_dom] at hx
    refine Nat.le_trans ?_ (closeEdge_mono _ _ _ _)
    rw [pre_st hg.toRep]
    split
    · rename_i h; exact hg.intr x h
    · rename_i h
      rcases (pre_dom hg.toRep a b f x).1 hx with h' | h'
      · exact absurd h' h
      · rw [if_pos h']; exact Nat.le_refl _
  · intro x y hxy
    rw [closeEdge_fl] at hxy
    apply Classical.byContradiction
    intro hc
    have hv : Viol (pre I g a b f) (closeEdge (pre I g a b f) a b).st x y :=
      ⟨hxy, (hr.ends x y hxy).2, by omega⟩
    obtain ⟨hv', hne⟩ := closeEdge_viol _ a b hb hr.le2 x y hv
    exact hne (pre_viol hI hg a b f x y hv')

theorem addEdge_dom {g : EGraph} (hg : Rep g) (a b : Node) (f : Flags) (x : Node) :
    x ∈ (addEdge I g a b f).dom ↔ x ∈ g.dom ∨ x = a ∨ x = b := by
  rw [addEdge_eq, closeEdge_dom, pre_dom hg]

theorem addEdge_fl (hI : ∀ n, I n ≤ 2) {g : EGraph} (hg : Rep g) (a b : Node) (f : Flags) (x y : Node) :
    (addEdge I g a b f).fl x y = if x = a ∧ y = b then (g.fl a b).or f else g.fl x y := by
  rw [addEdge_eq, closeEdge_fl, pre_fl hI hg]

theorem addEdge_st_ge {g : EGraph} (hg : Rep g) (a b : Node) (f : Flags) (x : Node) :
    g.st x ≤ (addEdge I g a b f).st x := by
  rw [addEdge_eq]
  exact Nat.le_trans (pre_st_ge hg a b f x) (closeEdge_mono _ _ _ _)

/-- the status after `AddEdge` is below every status that is closed along the new edge set and
above the old status and the intrinsic status of the two ends -/
theorem addEdge_upper (hI : ∀ n, I n ≤ 2) {g : EGraph} (hg : Rep g) (a b : Node) (f : Flags) (hf : f.any = true)
    (U : Node → Nat) (hU : ClosedFl (addEdge I g a b f).fl U) (h : ∀ x, g.st x ≤ U x)
    (ha : I a ≤ U a) (hb : I b ≤ U b) (x : Node) : (addEdge I g a b f).st x ≤ U x := by
  rw [addEdge_eq] at hU ⊢
  rw [closeEdge_fl] at hU
  apply closeEdge_upper _ _ _ _ U hU (pre_upper hg a b f U h ha hb)
  rw [pre_fl hI hg, if_pos ⟨rfl, rfl⟩, Flags.any_or, hf]; simp

theorem addEdge_le (hI : ∀ n, I n ≤ 2) {g : EGraph} (hg : Rep g) (a b : Node) (f : Flags) :
    LE g (addEdge I g a b f) := by
  refine ⟨?_, fun x hx => (addEdge_dom hg a b f x).2 (Or.inl hx), addEdge_st_ge hg a b f⟩
  intro x y
  rw [addEdge_fl hI hg]
  split
  · rename_i h; obtain ⟨rfl, rfl⟩ := h; exact Flags.le_or_left _ _
  · exact Flags.le_refl _

end EGraph
end Argot.EGraph
