/- Helper lemmas for C15: flags, the order `lessEqual` and the equivalence `matchesG`
   versus their declarative forms `LE` / `Equiv`. -/
import Argot.Spec.EGraph

namespace Argot.EGraph

namespace Flags

theorem le_refl (a : Flags) : a.le a = true := by
  rcases a with ⟨x, y, z⟩; cases x <;> cases y <;> cases z <;> rfl

theorem le_trans {a b c : Flags} (h1 : a.le b = true) (h2 : b.le c = true) : a.le c = true := by
  rcases a with ⟨a1, a2, a3⟩; rcases b with ⟨b1, b2, b3⟩; rcases c with ⟨c1, c2, c3⟩
  simp only [le, Bool.and_eq_true, Bool.or_eq_true, Bool.not_eq_true'] at *
  cases a1 <;> cases a2 <;> cases a3 <;> cases b1 <;> cases b2 <;> cases b3 <;> simp_all

theorem le_antisymm {a b : Flags} (h1 : a.le b = true) (h2 : b.le a = true) : a = b := by
  rcases a with ⟨a1, a2, a3⟩; rcases b with ⟨b1, b2, b3⟩
  simp only [le, Bool.and_eq_true, Bool.or_eq_true, Bool.not_eq_true'] at *
  cases a1 <;> cases a2 <;> cases a3 <;> cases b1 <;> cases b2 <;> cases b3 <;> simp_all

theorem le_or_left (a b : Flags) : a.le (a.or b) = true := by
  rcases a with ⟨a1, a2, a3⟩; rcases b with ⟨b1, b2, b3⟩
  cases a1 <;> cases a2 <;> cases a3 <;> cases b1 <;> cases b2 <;> cases b3 <;> rfl

theorem le_or_right (a b : Flags) : b.le (a.or b) = true := by
  rcases a with ⟨a1, a2, a3⟩; rcases b with ⟨b1, b2, b3⟩
  cases a1 <;> cases a2 <;> cases a3 <;> cases b1 <;> cases b2 <;> cases b3 <;> rfl

theorem or_le {a b c : Flags} (h1 : a.le c = true) (h2 : b.le c = true) : (a.or b).le c = true := by
  rcases a with ⟨a1, a2, a3⟩; rcases b with ⟨b1, b2, b3⟩; rcases c with ⟨c1, c2, c3⟩
  simp only [le, Flags.or, Bool.and_eq_true, Bool.or_eq_true, Bool.not_eq_true'] at *
  cases a1 <;> cases a2 <;> cases a3 <;> cases b1 <;> cases b2 <;> cases b3 <;> simp_all

theorem or_comm (a b : Flags) : a.or b = b.or a := by
  rcases a with ⟨a1, a2, a3⟩; rcases b with ⟨b1, b2, b3⟩
  simp [Flags.or, Bool.or_comm]

theorem or_assoc (a b c : Flags) : (a.or b).or c = a.or (b.or c) := by
  rcases a with ⟨a1, a2, a3⟩; rcases b with ⟨b1, b2, b3⟩; rcases c with ⟨c1, c2, c3⟩
  simp [Flags.or, Bool.or_assoc]

theorem or_self (a : Flags) : a.or a = a := by
  rcases a with ⟨a1, a2, a3⟩; simp [Flags.or]

theorem or_none (a : Flags) : a.or none = a := by
  rcases a with ⟨a1, a2, a3⟩; simp [Flags.or, none]

theorem none_or (a : Flags) : none.or a = a := by
  rcases a with ⟨a1, a2, a3⟩; simp [Flags.or, none]

theorem or_eq_of_le {a b : Flags} (h : a.le b = true) : b.or a = b := by
  rcases a with ⟨a1, a2, a3⟩; rcases b with ⟨b1, b2, b3⟩
  simp only [le, Flags.or, Bool.and_eq_true, Bool.or_eq_true, Bool.not_eq_true'] at *
  cases a1 <;> cases a2 <;> cases a3 <;> cases b1 <;> cases b2 <;> cases b3 <;> simp_all

theorem any_of_le {a b : Flags} (h : a.le b = true) (ha : a.any = true) : b.any = true := by
  rcases a with ⟨a1, a2, a3⟩; rcases b with ⟨b1, b2, b3⟩
  simp only [le, any, Bool.and_eq_true, Bool.or_eq_true, Bool.not_eq_true'] at *
  cases a1 <;> cases a2 <;> cases a3 <;> cases b1 <;> cases b2 <;> cases b3 <;> simp_all

theorem any_or (a b : Flags) : (a.or b).any = (a.any || b.any) := by
  rcases a with ⟨a1, a2, a3⟩; rcases b with ⟨b1, b2, b3⟩
  cases a1 <;> cases a2 <;> cases a3 <;> cases b1 <;> cases b2 <;> cases b3 <;> rfl

theorem none_le (a : Flags) : none.le a = true := by
  rcases a with ⟨a1, a2, a3⟩; rfl

theorem any_none : none.any = false := rfl

theorem eq_none_of_not_any {a : Flags} (h : a.any = false) : a = none := by
  rcases a with ⟨a1, a2, a3⟩
  cases a1 <;> cases a2 <;> cases a3 <;> simp_all [any, none]

theorem le_of_not_any {a : Flags} (h : a.any = false) (b : Flags) : a.le b = true := by
  rw [eq_none_of_not_any h]; exact none_le b

theorem le_eq_bits_all (a b : Flags) : a.le b = a.bits.all fun m => (b.and m).any := by
  rcases a with ⟨a1, a2, a3⟩; rcases b with ⟨b1, b2, b3⟩
  cases a1 <;> cases a2 <;> cases a3 <;> cases b1 <;> cases b2 <;> cases b3 <;> rfl

/-- inclusion, bit by bit, as `LessEqual` tests it: every single-bit mask of `a` meets `b` -/
theorem le_iff_bits (a b : Flags) : a.le b = true ↔ ∀ m, m ∈ a.bits → ((b.and m).any = true) := by
  rw [le_eq_bits_all, List.all_eq_true]

theorem any_of_mem_bits {a m : Flags} (h : m ∈ a.bits) : m.any = true ∧ m.le a = true := by
  rcases a with ⟨a1, a2, a3⟩
  cases a1 <;> cases a2 <;> cases a3 <;>
    simp [bits, internal, external, subnode] at h <;>
    (try rcases h with h | h | h) <;> (try rcases h with h | h) <;> subst_vars <;> exact ⟨rfl, rfl⟩

theorem bits_ne_nil_of_any {a : Flags} (h : a.any = true) : a.bits ≠ [] := by
  rcases a with ⟨a1, a2, a3⟩
  cases a1 <;> cases a2 <;> cases a3 <;> simp_all [bits, any]

end Flags

namespace EGraph

theorem mem_edgeList {g : EGraph} {a b : Node} {m : Flags} :
    (a, b, m) ∈ g.edgeList ↔ a ∈ g.dom ∧ g.out a = true ∧ b ∈ g.dom ∧ m ∈ (g.fl a b).bits := by
  unfold edgeList
  simp only [List.mem_flatMap]
  constructor
  · rintro ⟨a', ha', h⟩
    split at h
    · rename_i ho
      simp only [List.mem_flatMap, List.mem_map] at h
      obtain ⟨b', hb', m', hm', heq⟩ := h
      simp only [Prod.mk.injEq] at heq
      obtain ⟨rfl, rfl, rfl⟩ := heq
      exact ⟨ha', ho, hb', hm'⟩
    · simp at h
  · rintro ⟨ha, ho, hb, hm⟩
    refine ⟨a, ha, ?_⟩
    simp only [ho, if_true, List.mem_flatMap, List.mem_map]
    exact ⟨b, hb, m, hm, rfl⟩

/-- `LessEqual` decides the declarative order (on a graph satisfying the representation invariants). -/
theorem lessEqual_iff {g h : EGraph} (hg : Rep g) : lessEqual g h = true ↔ LE g h := by
  unfold lessEqual
  simp only [Bool.and_eq_true, List.all_eq_true, decide_eq_true_eq]
  constructor
  · rintro ⟨he, hs⟩
    refine ⟨?_, ?_, ?_⟩
    · intro a b
      cases hany : (g.fl a b).any with
      | false => exact Flags.le_of_not_any hany _
      | true =>
        obtain ⟨ha, hb⟩ := hg.ends a b hany
        rw [Flags.le_iff_bits]
        intro m hm
        exact he (a, b, m) (mem_edgeList.2 ⟨ha, (hg.out a).2 ha, hb, hm⟩)
    · intro n hn; exact (hs n hn).1
    · intro n
      by_cases hn : n ∈ g.dom
      · exact (hs n hn).2
      · rw [hg.zero n hn]; exact Nat.zero_le _
  · rintro ⟨hf, hd, hs⟩
    refine ⟨?_, fun n hn => ⟨hd n hn, hs n⟩⟩
    rintro ⟨a, b, m⟩ hm
    obtain ⟨_, _, _, hmb⟩ := mem_edgeList.1 hm
    exact (Flags.le_iff_bits _ _).1 (hf a b) m hmb

/-- `Matches` decides equality of the two maps (on graphs satisfying the representation invariants). -/
theorem matchesG_iff {g h : EGraph} (hg : Rep g) (hh : Rep h) : matchesG g h = true ↔ Equiv g h := by
  unfold matchesG
  simp only [Bool.and_eq_true, List.all_eq_true, decide_eq_true_eq, List.mem_append, beq_iff_eq]
  constructor
  · rintro ⟨⟨h1, h2⟩, h3⟩
    have hdom : ∀ n, n ∈ g.dom ↔ n ∈ h.dom := fun n => ⟨fun hn => (h1 n hn).1, fun hn => h2 n hn⟩
    refine ⟨hdom, ?_, ?_, ?_⟩
    · intro n
      by_cases hn : n ∈ g.dom
      · exact (h1 n hn).2
      · rw [hg.zero n hn, hh.zero n (fun hc => hn ((hdom n).2 hc))]
    · intro n
      by_cases hn : n ∈ g.dom
      · exact (h3 n (Or.inl hn)).1
      · have hn' : n ∉ h.dom := fun hc => hn ((hdom n).2 hc)
        have e1 : g.out n = false := by
          cases ho : g.out n with
          | false => rfl
          | true => exact absurd ((hg.out n).1 ho) hn
        have e2 : h.out n = false := by
          cases ho : h.out n with
          | false => rfl
          | true => exact absurd ((hh.out n).1 ho) hn'
        rw [e1, e2]
    · intro a b
      by_cases ha : a ∈ g.dom
      · by_cases hb : b ∈ g.dom
        · exact (h3 a (Or.inl ha)).2 b (Or.inl hb)
        · have hb' : b ∉ h.dom := fun hc => hb ((hdom b).2 hc)
          have e1 : (g.fl a b).any = false := by
            cases hx : (g.fl a b).any with
            | false => rfl
            | true => exact absurd (hg.ends a b hx).2 hb
          have e2 : (h.fl a b).any = false := by
            cases hx : (h.fl a b).any with
            | false => rfl
            | true => exact absurd (hh.ends a b hx).2 hb'
          rw [Flags.eq_none_of_not_any e1, Flags.eq_none_of_not_any e2]
      · have ha' : a ∉ h.dom := fun hc => ha ((hdom a).2 hc)
        have e1 : (g.fl a b).any = false := by
          cases hx : (g.fl a b).any with
          | false => rfl
          | true => exact absurd (hg.ends a b hx).1 ha
        have e2 : (h.fl a b).any = false := by
          cases hx : (h.fl a b).any with
          | false => rfl
          | true => exact absurd (hh.ends a b hx).1 ha'
        rw [Flags.eq_none_of_not_any e1, Flags.eq_none_of_not_any e2]
  · rintro ⟨hd, hs, ho, hf⟩
    exact ⟨⟨fun n hn => ⟨(hd n).1 hn, hs n⟩, fun n hn => (hd n).2 hn⟩,
      fun a _ => ⟨ho a, fun b _ => hf a b⟩⟩

theorem LE.refl (g : EGraph) : LE g g :=
  ⟨fun _ _ => Flags.le_refl _, fun _ h => h, fun _ => Nat.le_refl _⟩

theorem LE.trans {g h k : EGraph} (h1 : LE g h) (h2 : LE h k) : LE g k :=
  ⟨fun a b => Flags.le_trans (h1.fl a b) (h2.fl a b), fun n hn => h2.dom n (h1.dom n hn),
    fun n => Nat.le_trans (h1.st n) (h2.st n)⟩

theorem Equiv.refl (g : EGraph) : Equiv g g := ⟨fun _ => Iff.rfl, fun _ => rfl, fun _ => rfl, fun _ _ => rfl⟩

theorem Equiv.symm {g h : EGraph} (e : Equiv g h) : Equiv h g :=
  ⟨fun n => (e.dom n).symm, fun n => (e.st n).symm, fun n => (e.out n).symm, fun a b => (e.fl a b).symm⟩

theorem Equiv.trans {g h k : EGraph} (e1 : Equiv g h) (e2 : Equiv h k) : Equiv g k :=
  ⟨fun n => (e1.dom n).trans (e2.dom n), fun n => (e1.st n).trans (e2.st n),
    fun n => (e1.out n).trans (e2.out n), fun a b => (e1.fl a b).trans (e2.fl a b)⟩

theorem Equiv.le {g h : EGraph} (e : Equiv g h) : LE g h :=
  ⟨fun a b => by rw [e.fl a b]; exact Flags.le_refl _, fun n hn => (e.dom n).1 hn,
    fun n => by rw [e.st n]; exact Nat.le_refl _⟩

/-- antisymmetry up to `Matches` (needs the edge-row invariant: `out` is determined by `dom`) -/
theorem LE.antisymm {g h : EGraph} (hg : Rep g) (hh : Rep h) (h1 : LE g h) (h2 : LE h g) : Equiv g h := by
  refine ⟨fun n => ⟨h1.dom n, h2.dom n⟩, fun n => Nat.le_antisymm (h1.st n) (h2.st n), ?_,
    fun a b => Flags.le_antisymm (h1.fl a b) (h2.fl a b)⟩
  intro n
  cases h1o : g.out n with
  | true =>
    have := (hh.out n).2 (h1.dom n ((hg.out n).1 h1o))
    rw [this]
  | false =>
    cases h2o : h.out n with
    | false => rfl
    | true =>
      have := (hg.out n).2 (h2.dom n ((hh.out n).1 h2o))
      rw [this] at h1o; exact absurd h1o (by simp)

end EGraph
end Argot.EGraph
