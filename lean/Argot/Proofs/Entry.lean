/- Helper lemmas for the code-location part of C04. -/
import Argot.Proofs.CodeId
import Argot.Spec.Entry

namespace Argot.Entry
open Argot.CodeId Argot.Regex

/-- `FieldOk` only looks at one field of the identifier -/
theorem fieldOk_congr {spec c1 c2 : CodeId} {f : Fld} (h : spec.get f = "" ∨ c1.get f = c2.get f) :
    FieldOk spec c1 f ↔ FieldOk spec c2 f := by
  unfold FieldOk
  rcases h with h | h
  · simp [h]
  · rw [h]

/-- two identifiers that agree on every *given* field of the specification (and on the kind) are
matched alike -/
theorem matches_congr {spec c1 c2 : CodeId}
    (h : ∀ f ∈ specFields, spec.get f = "" ∨ c1.get f = c2.get f) (hk : c1.kind = c2.kind) :
    Matches spec c1 ↔ Matches spec c2 := by
  unfold Matches
  rw [hk]
  constructor
  · rintro ⟨h1, h2⟩
    exact ⟨fun f hf => (fieldOk_congr (h f hf)).1 (h1 f hf), h2⟩
  · rintro ⟨h1, h2⟩
    exact ⟨fun f hf => (fieldOk_congr (h f hf)).2 (h1 f hf), h2⟩

theorem specsOk_mem {specs : List CodeId} (h : specsOk specs = true) {sp : CodeId} (hs : sp ∈ specs) :
    specOk sp = true ∧ sp.iface = "" := by
  simp only [specsOk, List.all_eq_true, Bool.and_eq_true, beq_iff_eq] at h
  exact h sp hs

theorem matchB_iff' {specs : List CodeId} (h : specsOk specs = true) {sp : CodeId} (hs : sp ∈ specs)
    (cid : CodeId) : matchB sp cid = true ↔ Matches sp cid := by
  obtain ⟨h1, h2⟩ := specsOk_mem h hs
  -- `matchB_iff` of Props/C04 is re-proved here from the same lemmas to keep Props free of helpers
  have hc := specOk_compiles h1
  have c1 := conjB_same_iff (cid := cid) (hc .context (by decide))
  have c2 := conjB_same_iff (cid := cid) (hc .package (by decide))
  have c4 := conjB_same_iff (cid := cid) (hc .method (by decide))
  have c5 := conjB_same_iff (cid := cid) (hc .receiver (by decide))
  have c6 := conjB_same_iff (cid := cid) (hc .field (by decide))
  have c7 := conjB_same_iff (cid := cid) (hc .type (by decide))
  have c8 := conjB_same_iff (cid := cid) (hc .valueMatch (by decide))
  have c3 : conjB sp cid (.package, .interface, .interface) = true := by
    obtain ⟨re, hre⟩ := hc .package (by decide)
    simp only [CodeId.get] at hre
    simp [conjB, hre, CodeId.get, h2]
  simp only [matchB, matchesO_of_specOk cid h1, conjTable, List.all_cons, List.all_nil, c3, Bool.true_and,
    Bool.and_true, beq_iff_eq, Outcome.val.injEq, Bool.and_eq_true, c1, c2, c4, c5, c6, c7, c8, Matches, specFields,
    List.forall_mem_cons, List.not_mem_nil, false_imp_iff, implies_true, and_true]

/-- the executable truth is the declarative one -/
theorem truth_iff {specs : List CodeId} (h : specsOk specs = true) (s : Site) :
    truth specs s = true ↔ ShouldIdentify specs s := by
  simp only [truth, List.any_eq_true, ShouldIdentify, SpecMatches]
  constructor
  · rintro ⟨c, hc, sp, hsp, hm⟩
    exact ⟨c, hc, sp, hsp, (matchB_iff' h hsp _).1 hm⟩
  · rintro ⟨c, hc, sp, hsp, hm⟩
    exact ⟨c, hc, sp, hsp, (matchB_iff' h hsp _).2 hm⟩

/-- any-of-specs over a single identifier -/
theorem any_single {specs : List CodeId} (h : specsOk specs = true) (cid : CodeId) :
    ([cid].any fun c => specs.any fun sp => matchB sp c) = true ↔ ∃ sp ∈ specs, Matches sp cid := by
  simp only [List.any_cons, List.any_nil, Bool.or_false, List.any_eq_true]
  constructor
  · rintro ⟨sp, hsp, hm⟩
    exact ⟨sp, hsp, (matchB_iff' h hsp _).1 hm⟩
  · rintro ⟨sp, hsp, hm⟩
    exact ⟨sp, hsp, (matchB_iff' h hsp _).2 hm⟩

/-- `FindEltTypePackage` returns the package of the declared type at the core of the shape and the Go
spelling of the whole shape (the `preform` plumbing is right), for every shape and every format -/
theorem eltTypePackage_spec (t : Ty) (fmt : String → String) :
    eltTypePackage t fmt = t.decl.map fun p => (p, fmt t.render) := by
  induction t generalizing fmt with
  | named p n => simp [eltTypePackage, Ty.decl, Ty.render]
  | basic n => simp [eltTypePackage, Ty.decl]
  | other => simp [eltTypePackage, Ty.decl]
  | pointer t ih => simp [eltTypePackage, Ty.decl, Ty.render, ih]
  | slice t ih => simp [eltTypePackage, Ty.decl, Ty.render, ih]
  | array n t ih => simp [eltTypePackage, Ty.decl, Ty.render, ih, String.append_assoc]
  | chan t ih => simp [eltTypePackage, Ty.decl, Ty.render, ih]
  | map k t ih => simp [eltTypePackage, Ty.decl, Ty.render, ih, String.append_assoc]

theorem nodeCids_spec (n : NodeFacts) :
    nodeCids n = match n.ty.decl with
      | none => []
      | some p => [nodeTruthCid n p] := by
  unfold nodeCids
  rw [eltTypePackage_spec]
  cases hd : n.ty.decl with
  | none => simp
  | some p =>
    simp only [Option.map_some, id]
    cases hk : n.nk <;> simp [nodeTruthCid, hk]

end Argot.Entry
