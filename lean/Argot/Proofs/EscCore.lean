/- C14 core: pointer machine, the abstraction relation between a concrete state and an escape graph,
   and the proof that every instruction of the call-free fragment preserves it. -/
import Argot.Model.EscCore
import Argot.Proofs.EGraphAssign

namespace Argot.EscCore
open Argot.EGraph Argot.EGraph.EGraph

/-! ### the pointer machine -/

/-- A concrete state of one goroutine's view: every variable holds nil or an object, every object
has one pointer cell, `roots` are the objects handed to other goroutines so far, `site` maps an
object to its allocation site (the abstraction function). -/
structure CState where
  val : Node → Option Obj
  heap : Obj → Option Obj
  roots : List Obj
  used : List Obj
  site : Obj → Node

def updO {α : Type} (f : Obj → α) (o : Obj) (v : α) : Obj → α := fun x => if x = o then v else f x

/-- one instruction of the creating goroutine (nil dereferences do nothing: they panic in Go) -/
inductive Step : CState → Instr → CState → Prop where
  | alloc (σ : CState) (v a : Node) (o : Obj) (hfresh : o ∉ σ.used) :
      Step σ (.alloc v a) { σ with val := upd σ.val v (some o), used := o :: σ.used,
                                   site := updO σ.site o a, heap := updO σ.heap o none }
  | copy (σ : CState) (v w : Node) : Step σ (.copy v w) { σ with val := upd σ.val v (σ.val w) }
  | store (σ : CState) (a v : Node) (o : Obj) (h : σ.val a = some o) :
      Step σ (.store a v) { σ with heap := updO σ.heap o (σ.val v) }
  | storeNil (σ : CState) (a v : Node) (h : σ.val a = none) : Step σ (.store a v) σ
  | load (σ : CState) (v a : Node) (o : Obj) (h : σ.val a = some o) :
      Step σ (.load v a) { σ with val := upd σ.val v (σ.heap o) }
  | loadNil (σ : CState) (v a : Node) (h : σ.val a = none) : Step σ (.load v a) σ
  | goCall (σ : CState) (v : Node) (o : Obj) (h : σ.val v = some o) :
      Step σ (.goCall v) { σ with roots := o :: σ.roots }
  | goNil (σ : CState) (v : Node) (h : σ.val v = none) : Step σ (.goCall v) σ

/-- reachability through the heap -/
inductive ReachH (σ : CState) : Obj → Obj → Prop where
  | refl (o) : ReachH σ o o
  | step {a b c} : ReachH σ a b → σ.heap b = some c → ReachH σ a c

/-- the object is reachable by another goroutine: reachable from an object handed to a `go` call -/
def Shared (σ : CState) (o : Obj) : Prop := ∃ r, r ∈ σ.roots ∧ ReachH σ r o

/-- objects in use are allocated (fresh objects are not pointed to) -/
structure Cwf (σ : CState) : Prop where
  val : ∀ v o, σ.val v = some o → o ∈ σ.used
  heap : ∀ o o', σ.heap o = some o' → o ∈ σ.used ∧ o' ∈ σ.used
  roots : ∀ o, o ∈ σ.roots → o ∈ σ.used

/-- a pointing edge (internal or external; not the subnode relation) -/
def PEdge (g : EGraph) (a b : Node) : Prop := (g.fl a b).ext = true ∨ (g.fl a b).int = true

/-- **the abstraction relation**: the graph has an edge for every concrete pointer, and every
object handed to another goroutine is Leaked -/
structure Abs (σ : CState) (g : EGraph) : Prop where
  vars : ∀ v o, σ.val v = some o → PEdge g v (σ.site o)
  heap : ∀ o o', σ.heap o = some o' → PEdge g (σ.site o) (σ.site o')
  roots : ∀ o, o ∈ σ.roots → g.st (σ.site o) = 2

variable {I : Node → Nat}

theorem PEdge.mono {g h : EGraph} (hle : LE g h) {a b : Node} (e : PEdge g a b) : PEdge h a b := by
  rcases e with e | e
  · exact Or.inl (Flags.ext_of_le (hle.fl a b) e)
  · exact Or.inr (Flags.int_of_le (hle.fl a b) e)

theorem PEdge.any {g : EGraph} {a b : Node} (e : PEdge g a b) : (g.fl a b).any = true :=
  Flags.any_of_ext_or_int e

/-- the relation is kept when the graph grows -/
theorem Abs.mono {σ : CState} {g h : EGraph} (ha : Abs σ g) (hle : LE g h) (h2 : ∀ n, h.st n ≤ 2) : Abs σ h :=
  ⟨fun v o hv => (ha.vars v o hv).mono hle, fun o o' ho => (ha.heap o o' ho).mono hle,
   fun o ho => Nat.le_antisymm (h2 _) (by rw [← ha.roots o ho]; exact hle.st _)⟩

theorem mem_pointees_of_pedge {g : EGraph} (hg : WF I g) {a b : Node} (e : PEdge g a b) : b ∈ pointees g a :=
  mem_succs.2 ⟨(hg.ends a b e.any).2, e.any⟩

/-! ### folds of flat weak assignments -/

theorem foldPairs_spec (hI : ∀ n, I n ≤ 2) {g : EGraph} (hg : WF I g) (ps : List (Node × Node)) :
    WF I (foldPairs I g ps) ∧ LE g (foldPairs I g ps) ∧
    ∀ pr, pr ∈ ps → ∀ q, PEdge g pr.2 q → ((foldPairs I g ps).fl pr.1 q).int = true := by
  have key := foldl_inv (fun (c : EGraph) (pr : Node × Node) => waFlat I c pr.1 pr.2)
    (fun c => WF I c ∧ LE g c)
    (fun pr c => ∀ q, PEdge g pr.2 q → (c.fl pr.1 q).int = true) ps g ⟨hg, LE.refl g⟩
    (fun c pr _ inv => by
      have sp := waFlat_spec hI inv.1 pr.1 pr.2
      exact ⟨⟨sp.wf, inv.2.trans sp.ge⟩, fun q hq => sp.edges q (hq.mono inv.2)⟩)
    (fun c pr pr' _ inv hq q he => by
      have sp := waFlat_spec hI inv.1 pr'.1 pr'.2
      exact Flags.int_of_le (sp.ge.fl pr.1 q) (hq q he))
  exact ⟨key.1.1, key.1.2, key.2⟩

/-! ### the abstract transfer function is extensive and keeps well-formedness -/

theorem transfer_wf_le (hI : ∀ n, I n ≤ 2) {g : EGraph} (hg : WF I g) (i : Instr) :
    WF I (transfer I g i) ∧ LE g (transfer I g i) := by
  cases i with
  | alloc v a => exact ⟨addEdge_wf hI hg v a _, addEdge_le hI hg.toRep v a _⟩
  | copy v w => exact ⟨(waFlat_spec hI hg v w).wf, (waFlat_spec hI hg v w).ge⟩
  | store a v => exact ⟨(foldPairs_spec hI hg _).1, (foldPairs_spec hI hg _).2.1⟩
  | load v a => exact ⟨(foldPairs_spec hI hg _).1, (foldPairs_spec hI hg _).2.1⟩
  | goCall v =>
    have hns : ∀ n, n ∈ pointees g v → n ∈ g.dom := fun n hn => (mem_succs.1 hn).1
    obtain ⟨h1, h2, h3, h4, _, _⟩ := leakAll_spec hg (pointees g v) hns
    have e : transfer I g (.goCall v) = (pointees g v).foldl (fun g n => mergeNodeStatus g n 2) g := rfl
    rw [e]
    exact ⟨h1, ⟨fun a b => by rw [h3]; exact Flags.le_refl _, fun x hx => by rw [h2]; exact hx, h4⟩⟩

/-! ### one step -/

/-- **Soundness of one instruction**: the abstraction relation between the concrete state and the
graph is preserved by executing the instruction on the machine and applying the transfer function to
the graph. -/
theorem step_sound (hI : ∀ n, I n ≤ 2) {σ σ' : CState} {g : EGraph} {i : Instr} (hg : WF I g) (hc : Cwf σ)
    (ha : Abs σ g) (hs : Step σ i σ') : Abs σ' (transfer I g i) ∧ Cwf σ' := by
  obtain ⟨hwf', hle⟩ := transfer_wf_le hI hg i
  have hmono : Abs σ (transfer I g i) := ha.mono hle hwf'.le2
  cases hs with
  | alloc v a o hfresh =>
    have hne : ∀ o1, o1 ∈ σ.used → o1 ≠ o := fun o1 h1 e => hfresh (e ▸ h1)
    have hsite : ∀ o1, o1 ∈ σ.used → updO σ.site o a o1 = σ.site o1 := by
      intro o1 h1; simp [updO, hne o1 h1]
    refine ⟨⟨?_, ?_, ?_⟩, ⟨?_, ?_, ?_⟩⟩
    · intro x ox hx
      simp only at hx
      by_cases hxv : x = v
      · subst hxv
        rw [upd_same] at hx
        have hox : o = ox := Option.some.inj hx
        subst hox
        show PEdge _ x (updO σ.site o a o)
        simp only [updO, if_true]
        right
        show ((addEdge I g x a Flags.internal).fl x a).int = true
        rw [addEdge_fl hI hg.toRep, if_pos ⟨rfl, rfl⟩]
        generalize g.fl x a = c; rcases c with ⟨c1, c2, c3⟩; simp [Flags.or, Flags.internal]
      · rw [upd_other _ _ hxv] at hx
        show PEdge _ x (updO σ.site o a ox)
        rw [hsite ox (hc.val x ox hx)]
        exact hmono.vars x ox hx
    · intro o1 o2 h12
      simp only [updO] at h12
      split at h12
      · exact absurd h12 (by simp)
      · obtain ⟨h1, h2⟩ := hc.heap o1 o2 h12
        show PEdge _ (updO σ.site o a o1) (updO σ.site o a o2)
        rw [hsite o1 h1, hsite o2 h2]
        exact hmono.heap o1 o2 h12
    · intro r hr
      show (transfer I g (.alloc v a)).st (updO σ.site o a r) = 2
      rw [hsite r (hc.roots r hr)]
      exact hmono.roots r hr
    · intro x ox hx
      simp only at hx
      by_cases hxv : x = v
      · subst hxv; rw [upd_same] at hx; have hox : o = ox := Option.some.inj hx; subst hox; exact List.mem_cons_self
      · rw [upd_other _ _ hxv] at hx; exact List.mem_cons_of_mem _ (hc.val x ox hx)
    · intro o1 o2 h12
      simp only [updO] at h12
      split at h12
      · exact absurd h12 (by simp)
      · obtain ⟨h1, h2⟩ := hc.heap o1 o2 h12
        exact ⟨List.mem_cons_of_mem _ h1, List.mem_cons_of_mem _ h2⟩
    · intro r hr; exact List.mem_cons_of_mem _ (hc.roots r hr)
  | copy v w =>
    refine ⟨⟨?_, hmono.heap, hmono.roots⟩, ⟨?_, hc.heap, hc.roots⟩⟩
    · intro x ox hx
      simp only at hx
      by_cases hxv : x = v
      · subst hxv
        rw [upd_same] at hx
        exact Or.inr ((waFlat_spec hI hg x w).edges _ (ha.vars w ox hx))
      · rw [upd_other _ _ hxv] at hx; exact hmono.vars x ox hx
    · intro x ox hx
      simp only at hx
      by_cases hxv : x = v
      · subst hxv; rw [upd_same] at hx; exact hc.val w ox hx
      · rw [upd_other _ _ hxv] at hx; exact hc.val x ox hx
  | store a v o h =>
    refine ⟨⟨hmono.vars, ?_, hmono.roots⟩, ⟨hc.val, ?_, hc.roots⟩⟩
    · intro o1 o2 h12
      simp only [updO] at h12
      split at h12
      · rename_i e; subst e
        have hp : σ.site o1 ∈ pointees g a := mem_pointees_of_pedge hg (ha.vars a o1 h)
        have := (foldPairs_spec hI hg ((pointees g a).map fun p => (p, v))).2.2 (σ.site o1, v)
          (List.mem_map.2 ⟨_, hp, rfl⟩) (σ.site o2) (ha.vars v o2 h12)
        exact Or.inr this
      · exact hmono.heap o1 o2 h12
    · intro o1 o2 h12
      simp only [updO] at h12
      split at h12
      · rename_i e; subst e; exact ⟨hc.val a o1 h, hc.val v o2 h12⟩
      · exact hc.heap o1 o2 h12
  | storeNil a v h => exact ⟨hmono, hc⟩
  | load v a o h =>
    refine ⟨⟨?_, hmono.heap, hmono.roots⟩, ⟨?_, hc.heap, hc.roots⟩⟩
    · intro x ox hx
      simp only at hx
      by_cases hxv : x = v
      · subst hxv
        rw [upd_same] at hx
        have hp : σ.site o ∈ pointees g a := mem_pointees_of_pedge hg (ha.vars a o h)
        have := (foldPairs_spec hI hg ((pointees g a).map fun p => (x, p))).2.2 (x, σ.site o)
          (List.mem_map.2 ⟨_, hp, rfl⟩) (σ.site ox) (ha.heap o ox hx)
        exact Or.inr this
      · rw [upd_other _ _ hxv] at hx; exact hmono.vars x ox hx
    · intro x ox hx
      simp only at hx
      by_cases hxv : x = v
      · subst hxv; rw [upd_same] at hx; exact (hc.heap o ox hx).2
      · rw [upd_other _ _ hxv] at hx; exact hc.val x ox hx
  | loadNil v a h => exact ⟨hmono, hc⟩
  | goCall v o h =>
    refine ⟨⟨hmono.vars, hmono.heap, ?_⟩, ⟨hc.val, hc.heap, ?_⟩⟩
    · intro r hr
      rcases List.mem_cons.1 hr with rfl | hr'
      · have hp : σ.site r ∈ pointees g v := mem_pointees_of_pedge hg (ha.vars v r h)
        have hns : ∀ n, n ∈ pointees g v → n ∈ g.dom := fun n hn => (mem_succs.1 hn).1
        obtain ⟨_, _, _, _, h5, _⟩ := leakAll_spec hg (pointees g v) hns
        exact Nat.le_antisymm (hwf'.le2 _) (h5 _ hp)
      · exact hmono.roots r hr'
    · intro r hr
      rcases List.mem_cons.1 hr with rfl | hr'
      · exact hc.val v r h
      · exact hc.roots r hr'
  | goNil v h => exact ⟨hmono, hc⟩

/-! ### consequences of the relation -/

/-- everything another goroutine can reach is abstracted by a Leaked node (closedness of the status
is what carries `Leaked` along the heap) -/
theorem shared_leaked {σ : CState} {g : EGraph} (hg : WF I g) (ha : Abs σ g) {o : Obj} (hs : Shared σ o) :
    g.st (σ.site o) = 2 := by
  obtain ⟨r, hr, hreach⟩ := hs
  induction hreach with
  | refl => exact ha.roots r hr
  | step _ hb ih =>
    have := hg.closed _ _ (ha.heap _ _ hb).any
    exact Nat.le_antisymm (hg.le2 _) (by rw [← ih]; exact this)

end Argot.EscCore
